import Mathlib.LinearAlgebra.Matrix.NonsingularInverse
import Mathlib.Data.Real.Basic
import Mathlib.Tactic.Ring
import Mathlib.Tactic.Linarith
import Mathlib.Tactic.Positivity
import Mathlib.Tactic.FieldSimp
/-
C23: soundness of the certificate checkers run by the oracle on the outputs of the iterative routines
(`mju_eig3`, `mju_boxQP`, `mju_QCQP2/3/QCQP`): the checked conditions imply the documented property over ℝ.
-/
namespace MjProof.LinAlg
open Matrix Finset

theorem eig_cert {n : ℕ} (A V : Matrix (Fin n) (Fin n) ℝ) (lam : Fin n → ℝ)
    (h1 : A * V = V * diagonal lam) (h2 : Vᵀ * V = 1) :
    A = V * diagonal lam * Vᵀ ∧ V * Vᵀ = 1 ∧ ∀ j, A *ᵥ (fun i => V i j) = lam j • (fun i => V i j) := by
  have h3 : V * Vᵀ = 1 := mul_eq_one_comm.mp h2
  refine ⟨?_, h3, ?_⟩
  · calc A = A * (V * Vᵀ) := by rw [h3, mul_one]
      _ = (A * V) * Vᵀ := by rw [Matrix.mul_assoc]
      _ = V * diagonal lam * Vᵀ := by rw [h1]
  · intro j
    funext i
    have := congrFun (congrFun h1 i) j
    simp only [Matrix.mul_apply, Matrix.diagonal_apply, mul_ite, mul_zero, Finset.sum_ite_eq', Finset.mem_univ, if_true] at this
    simp only [Matrix.mulVec, dotProduct, Pi.smul_apply, smul_eq_mul]
    rw [this]; ring

/-- quadratic objective `½ zᵀHz + gᵀz` -/
noncomputable def qobj {n : ℕ} (H : Matrix (Fin n) (Fin n) ℝ) (g z : Fin n → ℝ) : ℝ :=
  (1 / 2) * (z ⬝ᵥ H *ᵥ z) + g ⬝ᵥ z

theorem sym_bilin {n : ℕ} (H : Matrix (Fin n) (Fin n) ℝ) (hsym : Hᵀ = H) (u v : Fin n → ℝ) :
    u ⬝ᵥ H *ᵥ v = v ⬝ᵥ H *ᵥ u := by
  rw [dotProduct_mulVec, ← mulVec_transpose, hsym, dotProduct_comm]

/-- second-order expansion of the quadratic objective -/
theorem qobj_expand {n : ℕ} (H : Matrix (Fin n) (Fin n) ℝ) (hsym : Hᵀ = H) (g x d : Fin n → ℝ) :
    qobj H g (x + d) = qobj H g x + (H *ᵥ x + g) ⬝ᵥ d + (1 / 2) * (d ⬝ᵥ H *ᵥ d) := by
  unfold qobj
  have := sym_bilin H hsym x d
  simp only [mulVec_add, dotProduct_add, add_dotProduct]
  rw [dotProduct_comm (H *ᵥ x) d, dotProduct_comm g d, dotProduct_comm g x] at *
  rw [this]
  ring

/-- **boxQP certificate**: KKT point of a convex box-constrained QP is a global minimiser -/
theorem boxqp_cert {n : ℕ} (H : Matrix (Fin n) (Fin n) ℝ) (hsym : Hᵀ = H) (hpsd : ∀ z, 0 ≤ z ⬝ᵥ H *ᵥ z)
    (g lo hi x : Fin n → ℝ) (hx : ∀ i, lo i ≤ x i ∧ x i ≤ hi i)
    (hkkt : ∀ i, (lo i < x i → (H *ᵥ x + g) i ≤ 0) ∧ (x i < hi i → 0 ≤ (H *ᵥ x + g) i))
    (y : Fin n → ℝ) (hy : ∀ i, lo i ≤ y i ∧ y i ≤ hi i) : qobj H g x ≤ qobj H g y := by
  have hy' : y = x + (y - x) := by funext i; simp
  rw [hy', qobj_expand H hsym g x (y - x)]
  have h1 : 0 ≤ (H *ᵥ x + g) ⬝ᵥ (y - x) := by
    unfold dotProduct
    apply Finset.sum_nonneg
    intro i _
    obtain ⟨k1, k2⟩ := hkkt i
    obtain ⟨a1, a2⟩ := hx i
    obtain ⟨b1, b2⟩ := hy i
    simp only [Pi.sub_apply]
    rcases lt_trichotomy ((H *ᵥ x + g) i) 0 with hneg | hzero | hpos
    · have : x i = hi i := by
        by_contra hne
        have := k2 (lt_of_le_of_ne a2 hne)
        linarith
      nlinarith
    · rw [hzero]; simp
    · have : x i = lo i := by
        by_contra hne
        have := k1 (lt_of_le_of_ne a1 (Ne.symm hne))
        linarith
      nlinarith
  have h2 := hpsd (y - x)
  linarith

/-- ellipsoid constraint function `Σ (z_i / d_i)²` -/
noncomputable def ellip {n : ℕ} (d z : Fin n → ℝ) : ℝ := ∑ i, (z i / d i) ^ 2

/-- **QCQP certificate**: a feasible point with a multiplier `la ≥ 0`, stationarity
`A x + b + la * x / d² = 0` and complementary slackness is a global minimiser of
`½ xᵀAx + bᵀx` subject to `Σ (x_i/d_i)² ≤ r²` when `A` is symmetric positive semidefinite. -/
theorem qcqp_cert {n : ℕ} (A : Matrix (Fin n) (Fin n) ℝ) (hsym : Aᵀ = A) (hpsd : ∀ z, 0 ≤ z ⬝ᵥ A *ᵥ z)
    (b d x : Fin n → ℝ) (r la : ℝ) (hla : 0 ≤ la)
    (hstat : ∀ i, (A *ᵥ x + b) i + la * (x i / d i ^ 2) = 0)
    (hcomp : la * (ellip d x - r ^ 2) = 0)
    (y : Fin n → ℝ) (hy : ellip d y ≤ r ^ 2) : qobj A b x ≤ qobj A b y := by
  have hy' : y = x + (y - x) := by funext i; simp
  have hexp := qobj_expand A hsym b x (y - x)
  rw [← hy'] at hexp
  -- expansion of the constraint function
  have hell : ellip d y = ellip d x + ∑ i, 2 * (x i / d i ^ 2) * (y i - x i) + ∑ i, ((y i - x i) / d i) ^ 2 := by
    unfold ellip
    rw [← Finset.sum_add_distrib, ← Finset.sum_add_distrib]
    apply Finset.sum_congr rfl
    intro i _
    by_cases hd : d i = 0
    · simp [hd]
    · field_simp; ring
  -- the linear term equals -la/2 times the linear term of the constraint
  have hlin : (A *ᵥ x + b) ⬝ᵥ (y - x) = -(la / 2) * ∑ i, 2 * (x i / d i ^ 2) * (y i - x i) := by
    unfold dotProduct
    rw [Finset.mul_sum]
    apply Finset.sum_congr rfl
    intro i _
    have := hstat i
    simp only [Pi.sub_apply]
    have e : (A *ᵥ x + b) i = -(la * (x i / d i ^ 2)) := by linarith
    rw [e]; ring
  have hsq : 0 ≤ ∑ i, ((y i - x i) / d i) ^ 2 := Finset.sum_nonneg (fun i _ => sq_nonneg _)
  have hq := hpsd (y - x)
  -- la/2 * (ellip y - ellip x) ≤ la/2 * (r² - ellip x) = 0 ... combine
  have h3 : la * (ellip d y - r ^ 2) ≤ 0 := by nlinarith
  nlinarith [mul_nonneg hla hsq]

end MjProof.LinAlg
