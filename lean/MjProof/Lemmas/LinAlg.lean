import MjProof.Model.LinAlg
import MjProof.Lemmas.RealNum
import Mathlib.Algebra.BigOperators.Fin
import Mathlib.Algebra.BigOperators.Intervals
import Mathlib.Algebra.BigOperators.Group.List.Basic
import Mathlib.Tactic.Ring
import Mathlib.Tactic.Linarith
import Mathlib.Tactic.FieldSimp
/-
Helper lemmas for C23: invariants of the loop combinators of `Model/LinAlg.lean`, total accessors used only
on the proof side (`vget`, `mget`), and the summation schemes of `mju_dot` over ℝ.
-/
namespace MjProof.LinAlg
open MjNum Finset

/-! ### loop combinators -/

theorem fold_inv {σ : Type} {n : Nat} {body : (i : Nat) → i < n → σ → σ} {s : σ}
    (P : Nat → σ → Prop) (h0 : P 0 s)
    (hstep : ∀ i (h : i < n) s, P i s → P (i + 1) (body i h s)) : P n (Nat.fold n body s) := by
  induction n with
  | zero => simpa using h0
  | succ n ih =>
    rw [Nat.fold_succ]
    apply hstep
    apply ih
    intro i h s hs
    exact hstep i (by omega) s hs

theorem forRange_inv {σ : Type} {lo hi : Nat} (hle : lo ≤ hi)
    {body : (i : Nat) → lo ≤ i → i < hi → σ → σ} {s : σ}
    (P : Nat → σ → Prop) (h0 : P lo s)
    (hstep : ∀ i (h1 : lo ≤ i) (h2 : i < hi) s, P i s → P (i + 1) (body i h1 h2 s)) :
    P hi (forRange lo hi body s) := by
  unfold forRange
  have := fold_inv (n := hi - lo)
    (body := fun t ht s => body (lo + t) (Nat.le_add_right lo t) (by omega) s) (s := s)
    (fun t s => P (lo + t) s) (by simpa using h0)
    (fun t ht s hs => by
      have := hstep (lo + t) (Nat.le_add_right lo t) (by omega) s hs
      simpa [Nat.add_assoc] using this)
  have e : lo + (hi - lo) = hi := by omega
  simpa [e] using this

/-- downward loop: `P` is indexed by the lower boundary of the processed block -/
theorem forRangeRev_inv {σ : Type} {lo hi : Nat} (hle : lo ≤ hi)
    {body : (i : Nat) → lo ≤ i → i < hi → σ → σ} {s : σ}
    (P : Nat → σ → Prop) (h0 : P hi s)
    (hstep : ∀ i (h1 : lo ≤ i) (h2 : i < hi) s, P (i + 1) s → P i (body i h1 h2 s)) :
    P lo (forRangeRev lo hi body s) := by
  unfold forRangeRev
  have := fold_inv (n := hi - lo)
    (body := fun t ht s => body (hi - 1 - t) (by omega) (by omega) s) (s := s)
    (fun t s => P (hi - t) s) (by simpa using h0)
    (fun t ht s hs => by
      have h := hstep (hi - 1 - t) (by omega) (by omega) s (by
        have e : hi - 1 - t + 1 = hi - t := by omega
        rwa [e])
      have e : hi - (t + 1) = hi - 1 - t := by omega
      rwa [e])
  have e : hi - (hi - lo) = lo := by omega
  simpa [e] using this

/-! ### total accessors (proof side only) -/

/-- entry `i` of a vector, `0` outside -/
noncomputable def vget {n : Nat} (v : Vector ℝ n) (i : Nat) : ℝ := if h : i < n then v[i] else 0

/-- entry `(i, j)` of a flat matrix, `0` outside -/
noncomputable def mget {nr nc : Nat} (m : Vector ℝ (nr * nc)) (i j : Nat) : ℝ :=
  if h : i < nr ∧ j < nc then at2 m i j h.1 h.2 else 0

theorem getElem_eq_vget {n : Nat} (v : Vector ℝ n) (i : Nat) (h : i < n) : v[i] = vget v i := by
  simp [vget, h]

theorem at2_eq_mget {nr nc : Nat} (m : Vector ℝ (nr * nc)) (i j : Nat) (hi : i < nr) (hj : j < nc) :
    at2 m i j hi hj = mget m i j := by
  simp [mget, hi, hj]

theorem vget_set {n : Nat} (v : Vector ℝ n) (i : Nat) (x : ℝ) (hi : i < n) (j : Nat) :
    vget (v.set i x hi) j = if j = i then x else vget v j := by
  unfold vget
  by_cases hj : j < n
  · simp only [hj, dite_true, Vector.getElem_set]
    by_cases e : i = j
    · simp [e]
    · have : ¬ j = i := fun h => e h.symm
      simp [e, this]
  · have : ¬ j = i := by omega
    simp [hj, this]

theorem flat_inj {nc i j i' j' : Nat} (hj : j < nc) (hj' : j' < nc) (h : i * nc + j = i' * nc + j') :
    i = i' ∧ j = j' := by
  have h1 : (i * nc + j) / nc = i := by
    rw [Nat.mul_comm, Nat.mul_add_div (by omega), Nat.div_eq_of_lt hj]; simp
  have h2 : (i' * nc + j') / nc = i' := by
    rw [Nat.mul_comm, Nat.mul_add_div (by omega), Nat.div_eq_of_lt hj']; simp
  have : i = i' := by rw [← h1, ← h2, h]
  subst this
  exact ⟨rfl, by omega⟩

theorem mget_set2 {nr nc : Nat} (m : Vector ℝ (nr * nc)) (i j : Nat) (hi : i < nr) (hj : j < nc) (x : ℝ)
    (i' j' : Nat) :
    mget (set2 m i j hi hj x) i' j' = if i' = i ∧ j' = j then x else mget m i' j' := by
  unfold mget
  by_cases h : i' < nr ∧ j' < nc
  · simp only [h, and_self, dite_true, at2, set2, Vector.getElem_set]
    by_cases e : i * nc + j = i' * nc + j'
    · obtain ⟨e1, e2⟩ := flat_inj hj h.2 e
      simp [e1, e2]
    · have : ¬ (i' = i ∧ j' = j) := by
        rintro ⟨rfl, rfl⟩; exact e rfl
      simp [e, this]
  · have : ¬ (i' = i ∧ j' = j) := by
      rintro ⟨rfl, rfl⟩; exact h ⟨hi, hj⟩
    simp [h, this]

theorem vget_replicate (n : Nat) (x : ℝ) (i : Nat) : vget (Vector.replicate n x) i = if i < n then x else 0 := by
  unfold vget; split <;> simp

theorem mget_replicate_zero (nr nc : Nat) (i j : Nat) :
    mget (Vector.replicate (nr * nc) (0 : ℝ)) i j = 0 := by
  unfold mget at2; split <;> simp

theorem vget_of_ge {n : Nat} (v : Vector ℝ n) {i : Nat} (h : n ≤ i) : vget v i = 0 := by
  unfold vget; simp [Nat.not_lt.mpr h]

theorem mget_of_row_ge {nr nc : Nat} (m : Vector ℝ (nr * nc)) {i : Nat} (j : Nat) (h : nr ≤ i) :
    mget m i j = 0 := by
  unfold mget; simp [Nat.not_lt.mpr h]

theorem mget_of_col_ge {nr nc : Nat} (m : Vector ℝ (nr * nc)) (i : Nat) {j : Nat} (h : nc ≤ j) :
    mget m i j = 0 := by
  unfold mget; simp [Nat.not_lt.mpr h]

/-! ### summation schemes over ℝ -/

theorem dotGo_eq (l : List ℝ) (r0 r1 r2 r3 : ℝ) : dotGo l r0 r1 r2 r3 = r0 + r1 + r2 + r3 + l.sum := by
  fun_induction dotGo l r0 r1 r2 r3 <;> simp_all [List.sum_cons] <;> ring

theorem dotFn_eq (n : Nat) (f : Fin n → ℝ) : dotFn n f = ∑ i, f i := by
  simp [dotFn, dotSum, dotGo_eq, List.sum_ofFn]

/-- `mju_dot` over a bounded index function that is the restriction of a total one -/
theorem dotFn_eq_range (n : Nat) (F : Nat → ℝ) : dotFn n (fun k : Fin n => F k.1) = ∑ k ∈ range n, F k := by
  rw [dotFn_eq, Fin.sum_univ_eq_sum_range]

theorem dotFn_congr_range (n : Nat) (f : Fin n → ℝ) (F : Nat → ℝ) (h : ∀ k : Fin n, f k = F k.1) :
    dotFn n f = ∑ k ∈ range n, F k := by
  rw [← dotFn_eq_range]; congr 1; funext k; exact h k

/-- sequential accumulation `acc -= f j`, `j = lo … hi-1` -/
theorem forRange_sub {lo hi : Nat} (hle : lo ≤ hi) (F : Nat → ℝ) (x : ℝ) :
    forRange lo hi (fun j _ _ acc => acc - F j) x = x - ∑ j ∈ Ico lo hi, F j := by
  refine forRange_inv hle (fun m acc => acc = x - ∑ j ∈ Ico lo m, F j) (by simp) ?_
  intro i h1 h2 s hs
  rw [hs, Finset.sum_Ico_succ_top h1]; ring

theorem fold_sub (n : Nat) (F : Nat → ℝ) (x : ℝ) :
    Nat.fold n (fun j _ acc => acc - F j) x = x - ∑ j ∈ range n, F j := by
  refine fold_inv (fun m acc => acc = x - ∑ j ∈ range m, F j) (by simp) ?_
  intro i h s hs
  rw [hs, Finset.sum_range_succ]; ring

end MjProof.LinAlg
