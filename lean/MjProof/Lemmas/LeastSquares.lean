import MjProof.Model.LeastSquares
import MjProof.Lemmas.RealNum
import Mathlib.Tactic.Ring
import Mathlib.Tactic.Linarith
import Mathlib.Tactic.NormNum
import Mathlib.Tactic.FieldSimp
import Mathlib.Tactic.Positivity
/-
Lemmas about the model of `least_squares` (Model/LeastSquares.lean) instantiated at `α := ℝ`.
-/
namespace MjProof.LeastSquares
open MjProof

/-! ### the real instance: literals and `max` -/

@[simp] theorem zero_real : (zero : ℝ) = 0 := by simp [zero]
@[simp] theorem one_real : (one : ℝ) = 1 := by simp [one]
@[simp] theorem half_real : (half : ℝ) = 1 / 2 := by simp only [half, real_ofSci]; norm_num
@[simp] theorem max_real (a b : ℝ) : MjNum.max a b = max a b := by
  simp only [MjNum.max, real_lt_iff]
  split_ifs with h
  · exact (max_eq_left h.le).symm
  · exact (max_eq_right (not_lt.mp h)).symm

/-! ### scalar facts -/

theorem clip1_mem (lo hi x : ℝ) (h : lo ≤ hi) : lo ≤ clip1 lo hi x ∧ clip1 lo hi x ≤ hi := by
  simp only [clip1, real_lt_iff]
  split_ifs <;> constructor <;> linarith

theorem clip1_of_mem (lo hi x : ℝ) (h1 : lo ≤ x) (h2 : x ≤ hi) : clip1 lo hi x = x := by
  simp only [clip1, real_lt_iff]
  split_ifs <;> linarith

/-- over the reals the `(e + x) - x` trick is the identity -/
theorem fdStep_bounded (eps lo hi x : ℝ) :
    fdStep eps (some (lo, hi)) x = (if (lo + hi) / 2 < x then -eps else eps) * max 1 |x| := by
  simp only [fdStep, half_real, real_lt_iff, one_real, max_real, real_abs]
  have : (1 / 2 : ℝ) * lo + 1 / 2 * hi = (lo + hi) / 2 := by ring
  rw [this]; ring

/-- One coordinate of a finite-difference probe stays in `[lo, hi]` when the box is at least twice as wide
    as the step: backward above the mid point, forward otherwise. -/
theorem fdStep_in_bounds (eps lo hi x : ℝ) (heps : 0 ≤ eps) (h1 : lo ≤ x) (h2 : x ≤ hi)
    (hw : 2 * (eps * max 1 |x|) ≤ hi - lo) :
    lo ≤ x + fdStep eps (some (lo, hi)) x ∧ x + fdStep eps (some (lo, hi)) x ≤ hi := by
  rw [fdStep_bounded]
  have hm : 0 ≤ eps * max 1 |x| := mul_nonneg heps (le_trans zero_le_one (le_max_left _ _))
  split_ifs with h
  · constructor <;> nlinarith
  · have := not_lt.mp h
    constructor <;> nlinarith

/-- `lo ≤ x + D·dx ≤ hi` when `dx` lies between `(lo − x)/D` and `(hi − x)/D` and `D > 0`. -/
theorem candidate1_in_bounds (lo hi x D dx : ℝ) (hD : 0 < D)
    (h1 : (lo - x) / D ≤ dx) (h2 : dx ≤ (hi - x) / D) : lo ≤ x + D * dx ∧ x + D * dx ≤ hi := by
  rw [div_le_iff₀ hD] at h1
  rw [le_div_iff₀ hD] at h2
  constructor <;> nlinarith

/-- the accept rule as coded: not (`reduction + c1·(g·dx) < 0`), with `c1 ≥ 0` and a descent direction -/
theorem accept_monotone_scalar (c1 y ynew gdx : ℝ) (hc : 0 ≤ c1) (hg : gdx ≤ 0)
    (h : armijoReject c1 (y - ynew) gdx = false) : ynew ≤ y := by
  simp only [armijoReject, zero_real, real_lt_iff, decide_eq_false_iff_not, not_lt] at h
  nlinarith [mul_nonneg hc (neg_nonneg.mpr hg)]

/-! ### boxes -/

/-- `x` has the length of `lo` and lies between `lo` and `hi` coordinate by coordinate -/
def InBox (lo hi x : List ℝ) : Prop :=
  x.length = lo.length ∧
    ∀ i (hl : i < lo.length) (hh : i < hi.length) (hx : i < x.length), lo[i] ≤ x[i] ∧ x[i] ≤ hi[i]

theorem clipStart_inBox (lo hi x0 : List ℝ) (hlen : lo.length = hi.length) (hx : x0.length = lo.length)
    (hlt : ∀ i (hl : i < lo.length) (hh : i < hi.length), lo[i] ≤ hi[i]) :
    InBox lo hi (clipStart (some (lo, hi)) x0) := by
  refine ⟨by simp [clipStart, hlen, hx], ?_⟩
  intro i hl hh hi'
  simp only [clipStart, List.getElem_zipWith, List.getElem_zip]
  exact clip1_mem _ _ _ (hlt i hl hh)

theorem clipStart_of_inBox (lo hi x0 : List ℝ) (hlen : lo.length = hi.length) (h : InBox lo hi x0) :
    clipStart (some (lo, hi)) x0 = x0 := by
  apply List.ext_getElem
  · simp [clipStart, hlen, h.1]
  · intro i h1 h2
    simp only [clipStart, List.getElem_zipWith, List.getElem_zip]
    have hl : i < lo.length := by rw [← h.1]; exact h2
    have := h.2 i hl (hlen ▸ hl) h2
    exact clip1_of_mem _ _ _ this.1 this.2

theorem fdSteps_length (eps : ℝ) (lo hi x : List ℝ) (hlen : lo.length = hi.length) (hx : x.length = lo.length) :
    (fdSteps eps (some (lo, hi)) x).length = x.length := by
  simp [fdSteps, coordBounds, hlen, hx]

theorem fdSteps_getElem (eps : ℝ) (lo hi x : List ℝ) (i : Nat) (h : i < (fdSteps eps (some (lo, hi)) x).length)
    (hl : i < lo.length) (hh : i < hi.length) (hx : i < x.length) :
    (fdSteps eps (some (lo, hi)) x)[i] = fdStep eps (some (lo[i], hi[i])) x[i] := by
  simp [fdSteps, coordBounds, List.getElem_zipWith, List.getElem_zip]

theorem probePoint_length (x e : List ℝ) (j : Nat) (he : e.length = x.length) :
    (probePoint x e j).length = x.length := by
  simp [probePoint, he]

theorem probePoint_getElem (x e : List ℝ) (j i : Nat) (h : i < (probePoint x e j).length)
    (hx : i < x.length) (he : i < e.length) :
    (probePoint x e j)[i] = x[i] + (if i = j then e[i] else 0) := by
  simp [probePoint, List.getElem_zip, List.getElem_zipIdx]

/-- Every probe point of `jacobian_fd` lies in the box, for a point of the box, when every side of the box
    is at least twice the finite-difference step taken there. -/
theorem fdProbes_inBox (eps : ℝ) (lo hi x : List ℝ) (hlen : lo.length = hi.length) (heps : 0 ≤ eps)
    (hx : InBox lo hi x)
    (hw : ∀ i (hl : i < lo.length) (hh : i < hi.length) (t : ℝ), lo[i] ≤ t → t ≤ hi[i] →
      2 * (eps * max 1 |t|) ≤ hi[i] - lo[i]) :
    ∀ p ∈ fdProbes x (fdSteps eps (some (lo, hi)) x), InBox lo hi p := by
  intro p hp
  simp only [fdProbes, List.mem_map, List.mem_range] at hp
  obtain ⟨j, _, rfl⟩ := hp
  have hel := fdSteps_length eps lo hi x hlen hx.1
  refine ⟨by rw [probePoint_length _ _ _ hel, hx.1], ?_⟩
  intro i hl hh hp
  have hxi : i < x.length := by rw [hx.1]; exact hl
  have hei : i < (fdSteps eps (some (lo, hi)) x).length := by rw [hel]; exact hxi
  rw [probePoint_getElem x _ j i hp hxi hei]
  have hb := hx.2 i hl hh hxi
  split_ifs with hij
  · rw [fdSteps_getElem eps lo hi x i hei hl hh hxi]
    exact fdStep_in_bounds eps _ _ _ heps hb.1 hb.2 (hw i hl hh _ hb.1 hb.2)
  · simpa using hb

theorem dBound_length (b x D : List ℝ) (h1 : x.length = b.length) (h2 : D.length = b.length) :
    (dBound b x D).length = b.length := by
  simp [dBound, h1, h2]

theorem dBound_getElem (b x D : List ℝ) (i : Nat) (h : i < (dBound b x D).length)
    (hb : i < b.length) (hx : i < x.length) (hD : i < D.length) :
    (dBound b x D)[i] = (b[i] - x[i]) / D[i] := by
  simp [dBound, List.getElem_zipWith, List.getElem_zip]

theorem candidate_getElem (x D dx : List ℝ) (i : Nat) (h : i < (candidate x D dx).length)
    (hx : i < x.length) (hD : i < D.length) (hdx : i < dx.length) :
    (candidate x D dx)[i] = x[i] + D[i] * dx[i] := by
  simp [candidate, List.getElem_zipWith, List.getElem_zip]

/-- `dx` is feasible for the scaled bounds `dl ≤ dx ≤ du` -/
def Feasible (dl du dx : List ℝ) : Prop :=
  dx.length = dl.length ∧
    ∀ i (h1 : i < dl.length) (h2 : i < du.length) (h3 : i < dx.length), dl[i] ≤ dx[i] ∧ dx[i] ≤ du[i]

/-- The candidate `x + D·dx` is in the box when `dx` is feasible for `dlower = (lo − x)/D`,
    `dupper = (hi − x)/D` and `D > 0`. -/
theorem candidate_inBox (lo hi x D dx : List ℝ) (hlen : lo.length = hi.length) (hDl : D.length = lo.length)
    (hD : ∀ i (h : i < D.length), 0 < D[i]) (hx : x.length = lo.length)
    (hf : Feasible (dBound lo x D) (dBound hi x D) dx) : InBox lo hi (candidate x D dx) := by
  have hdl := dBound_length lo x D hx hDl
  have hdu := dBound_length hi x D (hx.trans hlen) (hDl.trans hlen)
  have hdx : dx.length = lo.length := hf.1.trans hdl
  refine ⟨by simp [candidate, hx, hDl, hdx], ?_⟩
  intro i hl hh hc
  have hxi : i < x.length := by rw [hx]; exact hl
  have hDi : i < D.length := by rw [hDl]; exact hl
  have hdxi : i < dx.length := by rw [hdx]; exact hl
  rw [candidate_getElem x D dx i hc hxi hDi hdxi]
  have := hf.2 i (by rw [hdl]; exact hl) (by rw [hdu]; exact hh) hdxi
  rw [dBound_getElem lo x D i (by rw [hdl]; exact hl) hl hxi hDi,
      dBound_getElem hi x D i (by rw [hdu]; exact hh) hh hxi hDi] at this
  exact candidate1_in_bounds _ _ _ _ _ (hD i hDi) this.1 this.2

/-! ### the clip on an arbitrary carrier: no arithmetic, only order laws -/

/-- The only facts about the carrier's order that the clip needs (they hold for the reals and for IEEE
    doubles on non-NaN values): `≤` is reflexive and `¬ a < b` gives `b ≤ a`. -/
structure ClipOrder (α : Type) [MjNum α] : Prop where
  le_refl : ∀ a : α, a ≤ a
  le_of_not_lt : ∀ a b : α, ¬ a < b → b ≤ a

theorem clip1_mem_any {α : Type} [MjNum α] (O : ClipOrder α) (lo hi x : α) (h : lo ≤ hi) :
    lo ≤ clip1 lo hi x ∧ clip1 lo hi x ≤ hi := by
  unfold clip1
  by_cases h1 : x < lo
  · by_cases h2 : hi < lo
    · simp only [h1, h2, if_true]; exact ⟨h, O.le_refl _⟩
    · simp only [h1, h2, if_true, if_false]; exact ⟨O.le_refl _, O.le_of_not_lt _ _ h2⟩
  · by_cases h2 : hi < x
    · simp only [h1, h2, if_true, if_false]; exact ⟨h, O.le_refl _⟩
    · simp only [h1, h2, if_false]; exact ⟨O.le_of_not_lt _ _ h1, O.le_of_not_lt _ _ h2⟩

/-- box membership on an arbitrary carrier -/
def InBoxG {α : Type} [MjNum α] (lo hi x : List α) : Prop :=
  x.length = lo.length ∧
    ∀ i (hl : i < lo.length) (hh : i < hi.length) (hx : i < x.length), lo[i] ≤ x[i] ∧ x[i] ≤ hi[i]

/-- `np.clip(v, lo, hi)` lands in the box, whatever `v` is: no hypothesis on how `v` was computed. -/
theorem clipStart_inBoxG {α : Type} [MjNum α] (O : ClipOrder α) (lo hi v : List α)
    (hlen : lo.length = hi.length) (hv : v.length = lo.length)
    (hle : ∀ i (hl : i < lo.length) (hh : i < hi.length), lo[i] ≤ hi[i]) :
    InBoxG lo hi (clipStart (some (lo, hi)) v) := by
  refine ⟨by simp [clipStart, hlen, hv], ?_⟩
  intro i hl hh hi'
  simp only [clipStart, List.getElem_zipWith, List.getElem_zip]
  exact clip1_mem_any O _ _ _ (hle i hl hh)

theorem candidate_length {α : Type} [MjNum α] (x D dx : List α) (n : Nat) (hx : x.length = n) (hD : D.length = n)
    (hdx : dx.length = n) : (candidate x D dx).length = n := by
  simp [candidate, hx, hD, hdx]

theorem clipOrder_real : ClipOrder ℝ where
  le_refl := fun a => le_refl a
  le_of_not_lt := fun _ _ h => not_lt.mp h

/-! ### the loops: generic induction principles -/

theorem search_induct {α : Type} [MjNum α] (Q : Problem α) (x grad : Vec α) (hess : Mat α)
    (db : Option (Vec α × Vec α)) (y : α)
    (Inv : α → Nat → List (Vec α) → Prop) (Post : SearchResult α → Prop)
    (hfuel : ∀ mu nr calls, Inv mu nr calls → Post (.stopped .fuelOut mu nr calls))
    (hl : ∀ mu nr calls w r, Inv mu nr calls → searchStep Q x grad hess db y mu nr calls w = .inl r → Post r)
    (hr : ∀ mu nr calls w mu' nr' calls' w', Inv mu nr calls →
      searchStep Q x grad hess db y mu nr calls w = .inr (mu', nr', calls', w') → Inv mu' nr' calls') :
    ∀ fuel mu nr calls w, Inv mu nr calls → Post (search Q x grad hess db y fuel mu nr calls w) := by
  intro fuel
  induction fuel with
  | zero => intro mu nr calls w h; exact hfuel _ _ _ h
  | succ k ih =>
    intro mu nr calls w h
    unfold search
    cases hs : searchStep Q x grad hess db y mu nr calls w with
    | inl r => exact hl _ _ _ _ _ h hs
    | inr t =>
      obtain ⟨mu', nr', calls', w'⟩ := t
      exact ih _ _ _ _ (hr _ _ _ _ _ _ _ _ h hs)

theorem iterate_induct {α : Type} [MjNum α] (Q : Problem α)
    (Inv : State α → Prop) (Post : Result α → Prop)
    (hfin : ∀ s i, Inv s → Post (finish Q s .maxIter i))
    (hl : ∀ i s r, Inv s → iterStep Q i s = .inl r → Post r)
    (hr : ∀ i s s', Inv s → iterStep Q i s = .inr s' → Inv s') :
    ∀ rem i s, Inv s → Post (iterate Q rem i s) := by
  intro rem
  induction rem with
  | zero => intro i s h; exact hfin _ _ h
  | succ k ih =>
    intro i s h
    unfold iterate
    cases hs : iterStep Q i s with
    | inl r => exact hl _ _ _ h hs
    | inr s' => exact ih _ _ (hr _ _ _ h hs)


/-! ### bounds: every evaluation point and the returned point are in the box -/

def SearchResult.callsOf {α : Type} : SearchResult α → List (Vec α)
  | .accepted _ _ _ _ _ _ calls => calls
  | .stopped _ _ _ calls => calls

/-- Hypotheses of the bounds theorems: a box problem, a box at least twice as wide as the finite-difference
    step, and a box-QP oracle whose answers have the right length.  (Since `least_squares` clips the candidate,
    neither `D > 0` nor feasibility `dlower ≤ dx ≤ dupper` of the box-QP answer is needed any more.) -/
structure BoxProblem (Q : Problem ℝ) (lo hi : List ℝ) : Prop where
  bounds : Q.bounds = some (lo, hi)
  hlen : lo.length = hi.length
  hDl : Q.D.length = lo.length
  hle : ∀ i (hl : i < lo.length) (hh : i < hi.length), lo[i] ≤ hi[i]
  heps : 0 ≤ Q.P.eps
  hw : ∀ i (hl : i < lo.length) (hh : i < hi.length) (t : ℝ), lo[i] ≤ t → t ≤ hi[i] →
      2 * (Q.P.eps * max 1 |t|) ≤ hi[i] - lo[i]
  qp_len : ∀ w H g dl du dx, Q.boxQP w H g (some (dl, du)) = some (.ok dx) → dx.length = dl.length

section bounds
variable {Q : Problem ℝ} {lo hi : List ℝ}

def PostS (lo hi : List ℝ) (r : SearchResult ℝ) : Prop :=
  (∀ p ∈ r.callsOf, InBox lo hi p) ∧
  (∀ dx xnew rnew red mu nr calls, r = .accepted dx xnew rnew red mu nr calls → InBox lo hi xnew)

theorem qp_candidate_inBox (B : BoxProblem Q lo hi) (x grad w : List ℝ) (H : Mat ℝ) (hx : InBox lo hi x)
    (dx : List ℝ) (h : Q.boxQP w H grad (dBounds Q.bounds x Q.D) = some (.ok dx)) :
    InBox lo hi (clipStart Q.bounds (candidate x Q.D dx)) := by
  rw [B.bounds] at h ⊢
  simp only [dBounds, Option.map_some] at h
  have hdx : dx.length = lo.length := (B.qp_len _ _ _ _ _ _ h).trans (dBound_length lo x Q.D hx.1 B.hDl)
  exact clipStart_inBox lo hi _ B.hlen (candidate_length x Q.D dx _ hx.1 B.hDl hdx) B.hle

theorem mem_append_single {β : Type} {P : β → Prop} {l : List β} {a : β} (hl : ∀ p ∈ l, P p) (ha : P a) :
    ∀ p ∈ l ++ [a], P p := by
  intro p hp
  rcases List.mem_append.mp hp with h | h
  · exact hl p h
  · rw [List.mem_singleton.mp h]; exact ha

theorem searchStep_bounds (B : BoxProblem Q lo hi) (x grad : List ℝ) (hess : Mat ℝ) (y mu : ℝ) (nr : Nat)
    (calls : List (List ℝ)) (w : List ℝ) (hx : InBox lo hi x) (hc : ∀ p ∈ calls, InBox lo hi p) :
    (∀ r, searchStep Q x grad hess (dBounds Q.bounds x Q.D) y mu nr calls w = .inl r → PostS lo hi r) ∧
    (∀ mu' nr' calls' w', searchStep Q x grad hess (dBounds Q.bounds x Q.D) y mu nr calls w = .inr (mu', nr', calls', w') →
      ∀ p ∈ calls', InBox lo hi p) := by
  have key := qp_candidate_inBox B x grad w (regularize hess mu) hx
  unfold searchStep
  cases hq : Q.boxQP w (regularize hess mu) grad (dBounds Q.bounds x Q.D) with
  | none =>
    refine ⟨?_, ?_⟩
    · intro r h; simp only [Sum.inl.injEq] at h; subst h
      exact ⟨hc, by intro _ _ _ _ _ _ _ h; cases h⟩
    · intro _ _ _ _ h; cases h
  | some res =>
    cases res with
    | failed w' =>
      refine ⟨?_, ?_⟩
      · intro r h
        split_ifs at h
        simp only [Sum.inl.injEq] at h; subst h
        exact ⟨hc, by intro _ _ _ _ _ _ _ h; cases h⟩
      · intro _ _ _ _ h
        split_ifs at h
        simp only [Sum.inr.injEq, Prod.mk.injEq] at h
        obtain ⟨_, _, rfl, _⟩ := h; exact hc
    | ok dx =>
      have hcand := key dx hq
      have hc' := mem_append_single hc hcand
      simp only
      cases hr : Q.residual (clipStart Q.bounds (candidate x Q.D dx)) with
      | none =>
        refine ⟨?_, ?_⟩
        · intro r h; simp only [Sum.inl.injEq] at h; subst h
          exact ⟨hc', by intro _ _ _ _ _ _ _ h; cases h⟩
        · intro _ _ _ _ h; cases h
      | some rnew =>
        simp only
        cases hv : Q.norm.value rnew with
        | none =>
          refine ⟨?_, ?_⟩
          · intro r h; simp only [Sum.inl.injEq] at h; subst h
            exact ⟨hc', by intro _ _ _ _ _ _ _ h; cases h⟩
          · intro _ _ _ _ h; cases h
        | some ynew =>
          simp only
          refine ⟨?_, ?_⟩
          · intro r h
            split_ifs at h
            · simp only [Sum.inl.injEq] at h; subst h
              exact ⟨hc', by intro _ _ _ _ _ _ _ h; cases h⟩
            · simp only [Sum.inl.injEq] at h; subst h
              refine ⟨hc', ?_⟩
              intro _ _ _ _ _ _ _ h
              simp only [SearchResult.accepted.injEq] at h
              obtain ⟨_, rfl, _⟩ := h; exact hcand
          · intro _ _ _ _ h
            split_ifs at h
            simp only [Sum.inr.injEq, Prod.mk.injEq] at h
            obtain ⟨_, _, rfl, _⟩ := h; exact hc'

theorem search_bounds (B : BoxProblem Q lo hi) (x grad : List ℝ) (hess : Mat ℝ) (y : ℝ)
    (hx : InBox lo hi x) (fuel : Nat) (mu : ℝ) (nr : Nat) (calls : List (List ℝ)) (w : List ℝ)
    (hc : ∀ p ∈ calls, InBox lo hi p) :
    PostS lo hi (search Q x grad hess (dBounds Q.bounds x Q.D) y fuel mu nr calls w) := by
  refine search_induct Q x grad hess _ y (fun _ _ calls => ∀ p ∈ calls, InBox lo hi p) (PostS lo hi)
    ?_ ?_ ?_ fuel mu nr calls w hc
  · intro mu nr calls h
    exact ⟨h, by intro _ _ _ _ _ _ _ h; cases h⟩
  · intro mu nr calls w r h hs
    exact (searchStep_bounds B x grad hess y mu nr calls w hx h).1 r hs
  · intro mu nr calls w mu' nr' calls' w' h hs
    exact (searchStep_bounds B x grad hess y mu nr calls w hx h).2 mu' nr' calls' w' hs

/-- loop invariant / postcondition of the bounds theorems -/
def InvB (lo hi : List ℝ) (s : State ℝ) : Prop := InBox lo hi s.x ∧ ∀ p ∈ s.calls, InBox lo hi p
def PostB (lo hi : List ℝ) (r : Result ℝ) : Prop := InBox lo hi r.x ∧ ∀ p ∈ r.calls, InBox lo hi p

theorem finish_bounds (s : State ℝ) (st : Status) (i : Nat) (h : InvB lo hi s) : PostB lo hi (finish Q s st i) := by
  unfold finish
  split <;> exact h

theorem iterStep_bounds (B : BoxProblem Q lo hi) (i : Nat) (s : State ℝ) (h : InvB lo hi s) :
    (∀ r, iterStep Q i s = .inl r → PostB lo hi r) ∧ (∀ s', iterStep Q i s = .inr s' → InvB lo hi s') := by
  obtain ⟨hx, hc⟩ := h
  have hprobes : ∀ p ∈ s.calls ++ fdProbes s.x (fdSteps Q.P.eps Q.bounds s.x), InBox lo hi p := by
    intro p hp
    rcases List.mem_append.mp hp with h | h
    · exact hc p h
    · rw [B.bounds] at h
      exact fdProbes_inBox Q.P.eps lo hi s.x B.hlen B.heps hx B.hw p h
  unfold iterStep
  cases hv : Q.norm.value s.r with
  | none =>
    exact ⟨by intro r h; simp only [Sum.inl.injEq] at h; subst h; exact ⟨hx, hc⟩, by intro _ h; cases h⟩
  | some y =>
    simp only
    cases hm : List.mapM Q.residual (fdProbes s.x (fdSteps Q.P.eps Q.bounds s.x)) with
    | none =>
      exact ⟨by intro r h; simp only [Sum.inl.injEq] at h; subst h; exact ⟨hx, hprobes⟩, by intro _ h; cases h⟩
    | some rhs =>
      simp only
      cases hg : (projMat s.r rhs (fdSteps Q.P.eps Q.bounds s.x) Q.D).bind (Q.norm.gradHess s.r) with
      | none =>
        exact ⟨by intro r h; simp only [Sum.inl.injEq] at h; subst h; exact ⟨hx, hprobes⟩, by intro _ h; cases h⟩
      | some gh =>
        obtain ⟨grad, hess⟩ := gh
        simp only
        split_ifs with hgt
        · exact ⟨by intro r h; simp only [Sum.inl.injEq] at h; subst h
                    exact finish_bounds _ _ _ ⟨hx, hprobes⟩, by intro _ h; cases h⟩
        · have hS := search_bounds B s.x grad hess y hx Q.P.innerFuel s.mu s.nreduc _ s.dx hprobes
          cases hsr : search Q s.x grad hess (dBounds Q.bounds s.x Q.D) y Q.P.innerFuel s.mu s.nreduc
              (s.calls ++ fdProbes s.x (fdSteps Q.P.eps Q.bounds s.x)) s.dx with
          | stopped st mu nr calls' =>
            rw [hsr] at hS
            have hc' : ∀ p ∈ calls', InBox lo hi p := hS.1
            simp only
            refine ⟨?_, ?_⟩
            · intro r h
              split at h
              · simp only [Sum.inl.injEq] at h; subst h; exact ⟨hx, hc'⟩
              · simp only [Sum.inl.injEq] at h; subst h; exact finish_bounds _ _ _ ⟨hx, hc'⟩
            · intro s' h
              split at h <;> cases h
          | accepted dx xnew rnew red mu nr calls' =>
            rw [hsr] at hS
            have hc' : ∀ p ∈ calls', InBox lo hi p := hS.1
            have hxn : InBox lo hi xnew := hS.2 _ _ _ _ _ _ _ rfl
            simp only
            refine ⟨?_, ?_⟩
            · intro r h
              split_ifs at h
              simp only [Sum.inl.injEq] at h; subst h; exact finish_bounds _ _ _ ⟨hxn, hc'⟩
            · intro s' h
              split_ifs at h
              simp only [Sum.inr.injEq] at h; subst h; exact ⟨hxn, hc'⟩

theorem leastSquares_bounds (B : BoxProblem Q lo hi) (x0 : List ℝ) (hx0 : x0.length = lo.length) :
    PostB lo hi (leastSquares Q x0) := by
  have hclip : InBox lo hi (clipStart Q.bounds x0) := by
    rw [B.bounds]; exact clipStart_inBox lo hi x0 B.hlen hx0 B.hle
  unfold leastSquares
  simp only
  cases hr : Q.residual (clipStart Q.bounds x0) with
  | none =>
    exact ⟨hclip, by intro p hp; rw [List.mem_singleton.mp hp]; exact hclip⟩
  | some r =>
    simp only
    refine iterate_induct Q (InvB lo hi) (PostB lo hi) ?_ ?_ ?_ _ _ _ ?_
    · intro s i h; exact finish_bounds s _ i h
    · intro i s r h hs; exact (iterStep_bounds B i s h).1 r hs
    · intro i s s' h hs; exact (iterStep_bounds B i s h).2 s' hs
    · exact ⟨hclip, by intro p hp; rw [List.mem_singleton.mp hp]; exact hclip⟩

end bounds

/-! ### monotonicity: accepted steps never increase the objective -/

/-- Hypotheses of the monotonicity theorems: `c1 ≥ 0` and a box-QP oracle that returns descent directions
    (`g·dx ≤ 0`; true of any minimiser of `½dxᵀHdx + g·dx` over a set containing 0 when `H` is PSD). -/
structure DescentProblem (Q : Problem ℝ) : Prop where
  hc1 : 0 ≤ Q.P.c1
  descent : ∀ w H g db dx, Q.boxQP w H g db = some (.ok dx) → dot g dx ≤ 0

section mono
variable {Q : Problem ℝ}

def PostSM (Q : Problem ℝ) (y : ℝ) (r : SearchResult ℝ) : Prop :=
  ∀ dx xnew rnew red mu nr calls, r = .accepted dx xnew rnew red mu nr calls →
    Q.residual xnew = some rnew ∧ ∃ ynew, Q.norm.value rnew = some ynew ∧ ynew ≤ y ∧ red = y - ynew

theorem searchStep_mono (M : DescentProblem Q) (x grad : List ℝ) (hess : Mat ℝ) (db : Option (List ℝ × List ℝ))
    (y mu : ℝ) (nr : Nat) (calls : List (List ℝ)) (w : List ℝ) (r : SearchResult ℝ)
    (h : searchStep Q x grad hess db y mu nr calls w = .inl r) : PostSM Q y r := by
  unfold searchStep at h
  cases hq : Q.boxQP w (regularize hess mu) grad db with
  | none => rw [hq] at h; simp only [Sum.inl.injEq] at h; subst h; intro _ _ _ _ _ _ _ h; cases h
  | some res =>
    rw [hq] at h
    cases res with
    | failed w' =>
      simp only at h
      split_ifs at h
      simp only [Sum.inl.injEq] at h; subst h; intro _ _ _ _ _ _ _ h; cases h
    | ok dx =>
      simp only at h
      cases hr : Q.residual (clipStart Q.bounds (candidate x Q.D dx)) with
      | none => rw [hr] at h; simp only [Sum.inl.injEq] at h; subst h; intro _ _ _ _ _ _ _ h; cases h
      | some rnew =>
        rw [hr] at h
        simp only at h
        cases hv : Q.norm.value rnew with
        | none => rw [hv] at h; simp only [Sum.inl.injEq] at h; subst h; intro _ _ _ _ _ _ _ h; cases h
        | some ynew =>
          rw [hv] at h
          simp only at h
          split_ifs at h with h1 h2
          · simp only [Sum.inl.injEq] at h; subst h; intro _ _ _ _ _ _ _ h; cases h
          · simp only [Sum.inl.injEq] at h; subst h
            intro _ _ _ _ _ _ _ h
            simp only [SearchResult.accepted.injEq] at h
            obtain ⟨rfl, rfl, rfl, rfl, _⟩ := h
            refine ⟨hr, ynew, hv, ?_, rfl⟩
            have hrej : armijoReject Q.P.c1 (y - ynew) (dot grad dx) = false := by
              simpa using h1
            exact accept_monotone_scalar _ _ _ _ M.hc1 (M.descent _ _ _ _ _ hq) hrej

theorem search_mono (M : DescentProblem Q) (x grad : List ℝ) (hess : Mat ℝ) (db : Option (List ℝ × List ℝ))
    (y : ℝ) (fuel : Nat) (mu : ℝ) (nr : Nat) (calls : List (List ℝ)) (w : List ℝ) :
    PostSM Q y (search Q x grad hess db y fuel mu nr calls w) := by
  refine search_induct Q x grad hess db y (fun _ _ _ => True) (PostSM Q y) ?_ ?_ ?_ fuel mu nr calls w trivial
  · intro _ _ _ _ _ _ _ _ _ _ _ h; cases h
  · intro mu nr calls w r _ hs; exact searchStep_mono M x grad hess db y mu nr calls w r hs
  · intro _ _ _ _ _ _ _ _ _ _; trivial

def InvM (Q : Problem ℝ) (y0 : ℝ) (s : State ℝ) : Prop :=
  Q.residual s.x = some s.r ∧
  (∀ e ∈ s.trace, e.objective ≤ y0) ∧
  (∀ yc, Q.norm.value s.r = some yc → yc ≤ y0 ∧ ∀ e ∈ s.trace, yc ≤ e.objective) ∧
  List.Pairwise (· ≥ ·) (s.trace.map (·.objective))

def PostM (Q : Problem ℝ) (y0 : ℝ) (r : Result ℝ) : Prop :=
  Q.residual r.x = some r.r ∧
  (∀ e ∈ r.trace, e.objective ≤ y0) ∧
  (∀ yf, Q.norm.value r.r = some yf → yf ≤ y0) ∧
  List.Pairwise (· ≥ ·) (r.trace.map (·.objective))

theorem pairwise_snoc (l : List (IterLog ℝ)) (e : IterLog ℝ)
    (hp : List.Pairwise (· ≥ ·) (l.map (·.objective))) (hle : ∀ a ∈ l, e.objective ≤ a.objective) :
    List.Pairwise (· ≥ ·) ((l ++ [e]).map (·.objective)) := by
  rw [List.map_append, List.pairwise_append]
  refine ⟨hp, by simp, ?_⟩
  intro a ha b hb
  simp only [List.map_cons, List.map_nil, List.mem_singleton] at hb
  subst hb
  obtain ⟨a', ha', rfl⟩ := List.mem_map.mp ha
  exact hle a' ha'

theorem finish_mono (y0 : ℝ) (s : State ℝ) (st : Status) (i : Nat) (h : InvM Q y0 s) :
    PostM Q y0 (finish Q s st i) := by
  obtain ⟨h1, h2, h3, h4⟩ := h
  unfold finish
  cases hv : Q.norm.value s.r with
  | none => exact ⟨h1, h2, fun yf hyf => (h3 yf hyf).1, h4⟩
  | some yf =>
    have := h3 yf hv
    refine ⟨h1, ?_, fun yf' hyf => (h3 yf' hyf).1, pairwise_snoc _ _ h4 this.2⟩
    exact mem_append_single h2 this.1

theorem abort_mono (y0 : ℝ) (s : State ℝ) (w : String) (i : Nat) (h : InvM Q y0 s) :
    PostM Q y0 (abort s w i) := by
  obtain ⟨h1, h2, h3, h4⟩ := h
  exact ⟨h1, h2, fun yf hyf => (h3 yf hyf).1, h4⟩

theorem iterStep_mono (M : DescentProblem Q) (y0 : ℝ) (i : Nat) (s : State ℝ) (h : InvM Q y0 s) :
    (∀ r, iterStep Q i s = .inl r → PostM Q y0 r) ∧ (∀ s', iterStep Q i s = .inr s' → InvM Q y0 s') := by
  have habort : ∀ (c : List (List ℝ)) (mu : ℝ) (nr : Nat), InvM Q y0 { s with mu := mu, nreduc := nr, calls := c } := by
    intro c mu nr; exact h
  unfold iterStep
  cases hv : Q.norm.value s.r with
  | none =>
    exact ⟨by intro r hr; simp only [Sum.inl.injEq] at hr; subst hr; exact abort_mono y0 s _ i h,
           by intro _ hr; cases hr⟩
  | some y =>
    simp only
    cases hm : List.mapM Q.residual (fdProbes s.x (fdSteps Q.P.eps Q.bounds s.x)) with
    | none =>
      exact ⟨by intro r hr; simp only [Sum.inl.injEq] at hr; subst hr; exact abort_mono y0 _ _ i (habort _ s.mu s.nreduc),
             by intro _ hr; cases hr⟩
    | some rhs =>
      simp only
      cases hg : (projMat s.r rhs (fdSteps Q.P.eps Q.bounds s.x) Q.D).bind (Q.norm.gradHess s.r) with
      | none =>
        exact ⟨by intro r hr; simp only [Sum.inl.injEq] at hr; subst hr; exact abort_mono y0 _ _ i (habort _ s.mu s.nreduc),
               by intro _ hr; cases hr⟩
      | some gh =>
        obtain ⟨grad, hess⟩ := gh
        simp only
        split_ifs with hgt
        · exact ⟨by intro r hr; simp only [Sum.inl.injEq] at hr; subst hr
                    exact finish_mono y0 _ _ i (habort _ s.mu s.nreduc), by intro _ hr; cases hr⟩
        · have hS := search_mono M s.x grad hess (dBounds Q.bounds s.x Q.D) y Q.P.innerFuel s.mu s.nreduc
            (s.calls ++ fdProbes s.x (fdSteps Q.P.eps Q.bounds s.x)) s.dx
          cases hsr : search Q s.x grad hess (dBounds Q.bounds s.x Q.D) y Q.P.innerFuel s.mu s.nreduc
              (s.calls ++ fdProbes s.x (fdSteps Q.P.eps Q.bounds s.x)) s.dx with
          | stopped st mu nr calls' =>
            simp only
            refine ⟨?_, ?_⟩
            · intro r hr
              split at hr
              · simp only [Sum.inl.injEq] at hr; subst hr; exact abort_mono y0 _ _ i (habort _ mu nr)
              · simp only [Sum.inl.injEq] at hr; subst hr; exact finish_mono y0 _ _ i (habort _ mu nr)
            · intro s' hr
              split at hr <;> cases hr
          | accepted dx xnew rnew red mu nr calls' =>
            rw [hsr] at hS
            obtain ⟨hres, ynew, hvn, hle, _⟩ := hS _ _ _ _ _ _ _ rfl
            obtain ⟨h1, h2, h3, h4⟩ := h
            have hy := h3 y hv
            have hnew : InvM Q y0 ⟨xnew, rnew, mu, nr, s.trace ++ [⟨s.x, y, red, mu⟩], calls', dx⟩ := by
              refine ⟨hres, mem_append_single h2 hy.1, ?_, pairwise_snoc _ _ h4 hy.2⟩
              intro yc hyc
              simp only at hyc
              rw [hvn] at hyc
              simp only [Option.some.injEq] at hyc; subst hyc
              refine ⟨le_trans hle hy.1, ?_⟩
              exact mem_append_single (P := fun e => ynew ≤ e.objective)
                (a := (⟨s.x, y, red, mu⟩ : IterLog ℝ)) (fun e he => le_trans hle (hy.2 e he)) hle
            simp only
            refine ⟨?_, ?_⟩
            · intro r hr
              split_ifs at hr
              simp only [Sum.inl.injEq] at hr; subst hr; exact finish_mono y0 _ _ i hnew
            · intro s' hr
              split_ifs at hr
              simp only [Sum.inr.injEq] at hr; subst hr; exact hnew

theorem leastSquares_mono (M : DescentProblem Q) (x0 r0 : List ℝ) (y0 : ℝ)
    (hr : Q.residual (clipStart Q.bounds x0) = some r0) (hy : Q.norm.value r0 = some y0) :
    PostM Q y0 (leastSquares Q x0) := by
  unfold leastSquares
  simp only [hr]
  refine iterate_induct Q (InvM Q y0) (PostM Q y0) ?_ ?_ ?_ _ _ _ ?_
  · intro s i h; exact finish_mono y0 s _ i h
  · intro i s r h hs; exact (iterStep_mono M y0 i s h).1 r hs
  · intro i s s' h hs; exact (iterStep_mono M y0 i s h).2 s' hs
  · refine ⟨hr, by simp, ?_, by simp⟩
    intro yc hyc
    simp only at hyc
    rw [hy] at hyc
    simp only [Option.some.injEq] at hyc
    exact ⟨by rw [hyc], by simp⟩

end mono

/-! ### stationarity: the `G_TOL` test at tolerance 0 is the KKT condition of the box problem -/

theorem foldl_add_nonneg (l : List ℝ) : ∀ init : ℝ, 0 ≤ init → (∀ t ∈ l, 0 ≤ t) → 0 ≤ l.foldl (· + ·) init := by
  induction l with
  | nil => intro init h _; simpa using h
  | cons a l ih =>
    intro init h hl
    simp only [List.foldl_cons]
    exact ih _ (add_nonneg h (hl a (by simp))) (fun t ht => hl t (by simp [ht]))

theorem foldl_add_ge_init (l : List ℝ) : ∀ init : ℝ, (∀ t ∈ l, 0 ≤ t) → init ≤ l.foldl (· + ·) init := by
  induction l with
  | nil => intro init _; simp
  | cons a l ih =>
    intro init hl
    simp only [List.foldl_cons]
    have := ih (init + a) (fun t ht => hl t (by simp [ht]))
    linarith [hl a (by simp)]

theorem foldl_add_eq_zero (l : List ℝ) : ∀ init : ℝ, 0 ≤ init → (∀ t ∈ l, 0 ≤ t) →
    l.foldl (· + ·) init = 0 → init = 0 ∧ ∀ t ∈ l, t = 0 := by
  induction l with
  | nil => intro init _ _ h; exact ⟨by simpa using h, by simp⟩
  | cons a l ih =>
    intro init h0 hl h
    simp only [List.foldl_cons] at h
    have ha := hl a (by simp)
    obtain ⟨h1, h2⟩ := ih (init + a) (add_nonneg h0 ha) (fun t ht => hl t (by simp [ht])) h
    have hi : init = 0 := by linarith
    have ha0 : a = 0 := by linarith
    exact ⟨hi, by intro t ht; rcases List.mem_cons.mp ht with rfl | ht; exact ha0; exact h2 t ht⟩

theorem dot_nonneg (a b : List ℝ) (h : ∀ t ∈ List.zipWith (· * ·) a b, 0 ≤ t) : 0 ≤ dot a b := by
  simp only [dot, zero_real]
  exact foldl_add_nonneg _ 0 le_rfl h

theorem dot_self_eq_zero (a : List ℝ) (h : dot a a = 0) : ∀ t ∈ a, t = 0 := by
  simp only [dot, zero_real] at h
  have hsq : ∀ t ∈ List.zipWith (· * ·) a a, 0 ≤ t := by
    intro t ht
    obtain ⟨i, hi, rfl⟩ := List.getElem_of_mem ht
    simp only [List.getElem_zipWith]
    exact mul_self_nonneg _
  have := (foldl_add_eq_zero _ 0 le_rfl hsq h).2
  intro t ht
  obtain ⟨i, hi, rfl⟩ := List.getElem_of_mem ht
  have hz := this (a[i] * a[i]) (by
    have hi' : i < (List.zipWith (· * ·) a a).length := by simp [hi]
    have : (List.zipWith (· * ·) a a)[i] = a[i] * a[i] := by simp [List.getElem_zipWith]
    rw [← this]; exact List.getElem_mem hi')
  exact mul_self_eq_zero.mp hz

/-- `norm2 v ≤ 0` (the code's `g_norm <= gtol` with `gtol = 0`) means `v = 0` -/
theorem norm2_le_zero (v : List ℝ) (h : norm2 v ≤ 0) : ∀ t ∈ v, t = 0 := by
  simp only [norm2, real_sqrt] at h
  have hnn : 0 ≤ dot v v := dot_nonneg v v (by
    intro t ht
    obtain ⟨i, hi, rfl⟩ := List.getElem_of_mem ht
    simp only [List.getElem_zipWith]; exact mul_self_nonneg _)
  have h0 : Real.sqrt (dot v v) = 0 := le_antisymm h (Real.sqrt_nonneg _)
  exact dot_self_eq_zero v ((Real.sqrt_eq_zero hnn).mp h0)

/-- an unclamped coordinate contributes its gradient entry to `grad_free` -/
theorem gradFree_mem (lo hi x g : List ℝ) (i : Nat) (hl : i < lo.length) (hh : i < hi.length)
    (hx : i < x.length) (hg : i < g.length) (hc : clamped1 lo[i] hi[i] x[i] g[i] = false) :
    g[i] ∈ gradFree (some (lo, hi)) x g := by
  simp only [gradFree, List.mem_map, List.mem_filter]
  refine ⟨((lo[i], hi[i]), (x[i], g[i])), ⟨?_, by simp [hc]⟩, rfl⟩
  have hi' : i < (List.zip (List.zip lo hi) (List.zip x g)).length := by simp; omega
  have : (List.zip (List.zip lo hi) (List.zip x g))[i] = ((lo[i], hi[i]), (x[i], g[i])) := by
    simp [List.getElem_zip]
  rw [← this]; exact List.getElem_mem hi'

/-- The KKT conditions read off the code's stopping test: every coordinate has zero scaled gradient, or sits
    on its lower bound with positive gradient, or on its upper bound with negative gradient. -/
theorem gtol_zero_kkt (lo hi x g : List ℝ) (h : norm2 (gradFree (some (lo, hi)) x g) ≤ 0)
    (i : Nat) (hl : i < lo.length) (hh : i < hi.length) (hx : i < x.length) (hg : i < g.length) :
    g[i] = 0 ∨ (x[i] = lo[i] ∧ 0 < g[i]) ∨ (x[i] = hi[i] ∧ g[i] < 0) := by
  cases hc : clamped1 lo[i] hi[i] x[i] g[i] with
  | false => exact Or.inl (norm2_le_zero _ h _ (gradFree_mem lo hi x g i hl hh hx hg hc))
  | true =>
    right
    simp only [clamped1, real_beq, zero_real, real_lt_iff, Bool.or_eq_true, Bool.and_eq_true,
      decide_eq_true_eq] at hc
    exact hc

/-- KKT ⇒ global minimum over the box for an objective that lies above its linearisation
    `f x + Σ (g_i / D_i)(z_i − x_i)` (`g` is the gradient in the scaled coordinates, `D > 0`). -/
theorem kkt_global_min (lo hi x g D : List ℝ) (f : List ℝ → ℝ)
    (hlen : lo.length = hi.length) (hgl : g.length = lo.length) (hDl : D.length = lo.length)
    (hD : ∀ i (h : i < D.length), 0 < D[i]) (hx : InBox lo hi x)
    (hstop : norm2 (gradFree (some (lo, hi)) x g) ≤ 0)
    (hconv : ∀ z, InBox lo hi z →
      f x + dot (List.zipWith (· / ·) g D) (List.zipWith (· - ·) z x) ≤ f z) :
    ∀ z, InBox lo hi z → f x ≤ f z := by
  intro z hz
  have hdot : 0 ≤ dot (List.zipWith (· / ·) g D) (List.zipWith (· - ·) z x) := by
    apply dot_nonneg
    intro t ht
    obtain ⟨i, hi', rfl⟩ := List.getElem_of_mem ht
    simp only [List.length_zipWith] at hi'
    have hil : i < lo.length := by omega
    have hih : i < hi.length := by omega
    have hix : i < x.length := by omega
    have hiz : i < z.length := by omega
    have hig : i < g.length := by omega
    have hiD : i < D.length := by omega
    simp only [List.getElem_zipWith]
    have hk := gtol_zero_kkt lo hi x g hstop i hil hih hix hig
    have hbz := hz.2 i hil hih hiz
    have hDi := hD i hiD
    rcases hk with h0 | ⟨hxl, hgp⟩ | ⟨hxh, hgn⟩
    · rw [h0]; simp
    · apply mul_nonneg (div_nonneg hgp.le hDi.le); rw [hxl]; linarith [hbz.1]
    · have : 0 ≤ (-g[i] / D[i]) * (x[i] - z[i]) := by
        apply mul_nonneg (div_nonneg (by linarith) hDi.le); rw [hxh]; linarith [hbz.2]
      have e : g[i] / D[i] * (z[i] - x[i]) = (-g[i] / D[i]) * (x[i] - z[i]) := by ring
      rw [e]; exact this
  linarith [hconv z hz]

/-! ### what a `G_TOL` stop of the run means -/

/-- `grad` is the (scaled) gradient that the code computes at `x` with residual `r`: finite-difference
    Jacobian, `proj = jac * D.T`, then the `Norm` object's `grad_hess`. -/
def GradAt (Q : Problem ℝ) (x r grad : List ℝ) : Prop :=
  ∃ rhs hess, (fdProbes x (fdSteps Q.P.eps Q.bounds x)).mapM Q.residual = some rhs ∧
    (projMat r rhs (fdSteps Q.P.eps Q.bounds x) Q.D).bind (Q.norm.gradHess r) = some (grad, hess)

def PostG (Q : Problem ℝ) (r : Result ℝ) : Prop :=
  r.status = .gTol → ∃ grad, GradAt Q r.x r.r grad ∧ norm2 (gradFree Q.bounds r.x grad) ≤ Q.P.gtol

theorem finish_status {Q : Problem ℝ} (s : State ℝ) (st : Status) (i : Nat) :
    ((finish Q s st i).status = st ∨ ∃ w, (finish Q s st i).status = .aborted w) ∧
    (finish Q s st i).x = s.x ∧ (finish Q s st i).r = s.r := by
  unfold finish
  split
  · exact ⟨Or.inr ⟨_, rfl⟩, rfl, rfl⟩
  · exact ⟨Or.inl rfl, rfl, rfl⟩

theorem finish_not_gTol {Q : Problem ℝ} (s : State ℝ) (st : Status) (i : Nat) (h : st ≠ .gTol) :
    PostG Q (finish Q s st i) := by
  intro hg
  rcases (finish_status (Q := Q) s st i).1 with h1 | ⟨w, h1⟩
  · rw [h1] at hg; exact absurd hg h
  · rw [h1] at hg; cases hg

theorem searchStep_not_gTol {Q : Problem ℝ} (x grad : List ℝ) (hess : Mat ℝ) (db : Option (List ℝ × List ℝ))
    (y mu : ℝ) (nr : Nat) (calls : List (List ℝ)) (w : List ℝ) (r : SearchResult ℝ)
    (h : searchStep Q x grad hess db y mu nr calls w = .inl r) :
    ∀ st mu' nr' calls', r = .stopped st mu' nr' calls' → st ≠ .gTol := by
  have fin : ∀ (st0 : Status) (m : ℝ) (n : Nat) (c : List (List ℝ)), st0 ≠ .gTol →
      Sum.inl (β := ℝ × Nat × List (Vec ℝ) × Vec ℝ) (SearchResult.stopped st0 m n c) = .inl r →
      ∀ st mu' nr' calls', r = .stopped st mu' nr' calls' → st ≠ .gTol := by
    intro st0 m n c hne h st mu' nr' calls' hr
    simp only [Sum.inl.injEq] at h; subst h
    simp only [SearchResult.stopped.injEq] at hr
    obtain ⟨rfl, _⟩ := hr; exact hne
  unfold searchStep at h
  cases hq : Q.boxQP w (regularize hess mu) grad db with
  | none => rw [hq] at h; exact fin _ _ _ _ (by simp) h
  | some res =>
    rw [hq] at h
    cases res with
    | failed w' =>
      simp only at h
      split_ifs at h
      exact fin _ _ _ _ (by simp) h
    | ok dx =>
      simp only at h
      cases hr : Q.residual (clipStart Q.bounds (candidate x Q.D dx)) with
      | none => rw [hr] at h; exact fin _ _ _ _ (by simp) h
      | some rnew =>
        rw [hr] at h
        simp only at h
        cases hv : Q.norm.value rnew with
        | none => rw [hv] at h; exact fin _ _ _ _ (by simp) h
        | some ynew =>
          rw [hv] at h
          simp only at h
          split_ifs at h with h1 h2
          · exact fin _ _ _ _ (by simp) h
          · simp only [Sum.inl.injEq] at h; subst h
            intro _ _ _ _ hr; cases hr

theorem search_not_gTol {Q : Problem ℝ} (x grad : List ℝ) (hess : Mat ℝ) (db : Option (List ℝ × List ℝ))
    (y : ℝ) (fuel : Nat) (mu : ℝ) (nr : Nat) (calls : List (List ℝ)) (w : List ℝ) :
    ∀ st mu' nr' calls', search Q x grad hess db y fuel mu nr calls w = .stopped st mu' nr' calls' → st ≠ .gTol := by
  refine search_induct Q x grad hess db y (fun _ _ _ => True)
    (fun r => ∀ st mu' nr' calls', r = .stopped st mu' nr' calls' → st ≠ .gTol) ?_ ?_ ?_ fuel mu nr calls w trivial
  · intro _ _ _ _ st _ _ _ h
    simp only [SearchResult.stopped.injEq] at h
    obtain ⟨rfl, _⟩ := h; simp
  · intro mu nr calls w r _ hs; exact searchStep_not_gTol x grad hess db y mu nr calls w r hs
  · intro _ _ _ _ _ _ _ _ _ _; trivial

theorem iterStep_gTol {Q : Problem ℝ} (i : Nat) (s : State ℝ) (r : Result ℝ) (h : iterStep Q i s = .inl r) :
    PostG Q r := by
  unfold iterStep at h
  cases hv : Q.norm.value s.r with
  | none => rw [hv] at h; simp only [Sum.inl.injEq] at h; subst h; intro hg; cases hg
  | some y =>
    rw [hv] at h
    simp only at h
    cases hm : List.mapM Q.residual (fdProbes s.x (fdSteps Q.P.eps Q.bounds s.x)) with
    | none => rw [hm] at h; simp only [Sum.inl.injEq] at h; subst h; intro hg; cases hg
    | some rhs =>
      rw [hm] at h
      simp only at h
      cases hg : (projMat s.r rhs (fdSteps Q.P.eps Q.bounds s.x) Q.D).bind (Q.norm.gradHess s.r) with
      | none => rw [hg] at h; simp only [Sum.inl.injEq] at h; subst h; intro hg; cases hg
      | some gh =>
        obtain ⟨grad, hess⟩ := gh
        rw [hg] at h
        simp only at h
        split_ifs at h with hgt
        · simp only [Sum.inl.injEq] at h; subst h
          intro _
          have hf := finish_status (Q := Q) { s with calls := s.calls ++ fdProbes s.x (fdSteps Q.P.eps Q.bounds s.x) } .gTol i
          rw [hf.2.1, hf.2.2]
          exact ⟨grad, ⟨rhs, hess, hm, hg⟩, hgt⟩
        · cases hsr : search Q s.x grad hess (dBounds Q.bounds s.x Q.D) y Q.P.innerFuel s.mu s.nreduc
              (s.calls ++ fdProbes s.x (fdSteps Q.P.eps Q.bounds s.x)) s.dx with
          | stopped st mu nr calls' =>
            rw [hsr] at h
            have hne := search_not_gTol _ _ _ _ _ _ _ _ _ _ st mu nr calls' hsr
            simp only at h
            split at h
            · simp only [Sum.inl.injEq] at h; subst h; intro hg; cases hg
            · simp only [Sum.inl.injEq] at h; subst h; exact finish_not_gTol _ _ _ hne
          | accepted dx xnew rnew red mu nr calls' =>
            rw [hsr] at h
            simp only at h
            split_ifs at h
            simp only [Sum.inl.injEq] at h; subst h
            exact finish_not_gTol _ _ _ (by simp)

theorem leastSquares_gTol (Q : Problem ℝ) (x0 : List ℝ) : PostG Q (leastSquares Q x0) := by
  unfold leastSquares
  simp only
  cases hr : Q.residual (clipStart Q.bounds x0) with
  | none => intro hg; cases hg
  | some r =>
    simp only
    refine iterate_induct Q (fun _ => True) (PostG Q) ?_ ?_ ?_ _ _ _ trivial
    · intro s i _; exact finish_not_gTol _ _ _ (by simp)
    · intro i s r _ hs; exact iterStep_gTol i s r hs
    · intro _ _ _ _ _; trivial

end MjProof.LeastSquares
