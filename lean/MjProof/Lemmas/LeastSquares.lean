import MjProof.Model.LeastSquares
import MjProof.Lemmas.RealNum
import Mathlib.Tactic.Ring
import Mathlib.Tactic.Linarith
import Mathlib.Tactic.NormNum
import Mathlib.Tactic.FieldSimp
import Mathlib.Tactic.Positivity
/-
Lemmas about the model of `least_squares` (Model/LeastSquares.lean) instantiated at `α := ℝ`.
-/
namespace MjProof.LeastSquares
open MjProof

/-! ### the real instance: literals and `max` -/

@[simp] theorem zero_real : (zero : ℝ) = 0 := by simp [zero]
@[simp] theorem one_real : (one : ℝ) = 1 := by simp [one]
@[simp] theorem half_real : (half : ℝ) = 1 / 2 := by simp only [half, real_ofSci]; norm_num
@[simp] theorem max_real (a b : ℝ) : MjNum.max a b = max a b := by
  simp only [MjNum.max, real_lt_iff]
  split_ifs with h
  · exact (max_eq_left h.le).symm
  · exact (max_eq_right (not_lt.mp h)).symm

/-! ### scalar facts -/

theorem clip1_mem (lo hi x : ℝ) (h : lo ≤ hi) : lo ≤ clip1 lo hi x ∧ clip1 lo hi x ≤ hi := by
  simp only [clip1, real_lt_iff]
  split_ifs <;> constructor <;> linarith

theorem clip1_of_mem (lo hi x : ℝ) (h1 : lo ≤ x) (h2 : x ≤ hi) : clip1 lo hi x = x := by
  simp only [clip1, real_lt_iff]
  split_ifs <;> linarith

/-- over the reals the `(e + x) - x` trick is the identity -/
theorem fdStep_bounded (eps lo hi x : ℝ) :
    fdStep eps (some (lo, hi)) x = (if (lo + hi) / 2 < x then -eps else eps) * max 1 |x| := by
  simp only [fdStep, half_real, real_lt_iff, one_real, max_real, real_abs]
  have : (1 / 2 : ℝ) * lo + 1 / 2 * hi = (lo + hi) / 2 := by ring
  rw [this]; ring

/-- One coordinate of a finite-difference probe stays in `[lo, hi]` when the box is at least twice as wide
    as the step: backward above the mid point, forward otherwise. -/
theorem fdStep_in_bounds (eps lo hi x : ℝ) (heps : 0 ≤ eps) (h1 : lo ≤ x) (h2 : x ≤ hi)
    (hw : 2 * (eps * max 1 |x|) ≤ hi - lo) :
    lo ≤ x + fdStep eps (some (lo, hi)) x ∧ x + fdStep eps (some (lo, hi)) x ≤ hi := by
  rw [fdStep_bounded]
  have hm : 0 ≤ eps * max 1 |x| := mul_nonneg heps (le_trans zero_le_one (le_max_left _ _))
  split_ifs with h
  · constructor <;> nlinarith
  · have := not_lt.mp h
    constructor <;> nlinarith

/-- `lo ≤ x + D·dx ≤ hi` when `dx` lies between `(lo − x)/D` and `(hi − x)/D` and `D > 0`. -/
theorem candidate1_in_bounds (lo hi x D dx : ℝ) (hD : 0 < D)
    (h1 : (lo - x) / D ≤ dx) (h2 : dx ≤ (hi - x) / D) : lo ≤ x + D * dx ∧ x + D * dx ≤ hi := by
  rw [div_le_iff₀ hD] at h1
  rw [le_div_iff₀ hD] at h2
  constructor <;> nlinarith

/-- the accept rule as coded: not (`reduction + c1·(g·dx) < 0`), with `c1 ≥ 0` and a descent direction -/
theorem accept_monotone_scalar (c1 y ynew gdx : ℝ) (hc : 0 ≤ c1) (hg : gdx ≤ 0)
    (h : armijoReject c1 (y - ynew) gdx = false) : ynew ≤ y := by
  simp only [armijoReject, zero_real, real_lt_iff, decide_eq_false_iff_not, not_lt] at h
  nlinarith [mul_nonneg hc (neg_nonneg.mpr hg)]

/-! ### boxes -/

/-- `x` has the length of `lo` and lies between `lo` and `hi` coordinate by coordinate -/
def InBox (lo hi x : List ℝ) : Prop :=
  x.length = lo.length ∧
    ∀ i (hl : i < lo.length) (hh : i < hi.length) (hx : i < x.length), lo[i] ≤ x[i] ∧ x[i] ≤ hi[i]

theorem clipStart_inBox (lo hi x0 : List ℝ) (hlen : lo.length = hi.length) (hx : x0.length = lo.length)
    (hlt : ∀ i (hl : i < lo.length) (hh : i < hi.length), lo[i] ≤ hi[i]) :
    InBox lo hi (clipStart (some (lo, hi)) x0) := by
  refine ⟨by simp [clipStart, hlen, hx], ?_⟩
  intro i hl hh hi'
  simp only [clipStart, List.getElem_zipWith, List.getElem_zip]
  exact clip1_mem _ _ _ (hlt i hl hh)

theorem clipStart_of_inBox (lo hi x0 : List ℝ) (hlen : lo.length = hi.length) (h : InBox lo hi x0) :
    clipStart (some (lo, hi)) x0 = x0 := by
  apply List.ext_getElem
  · simp [clipStart, hlen, h.1]
  · intro i h1 h2
    simp only [clipStart, List.getElem_zipWith, List.getElem_zip]
    have hl : i < lo.length := by rw [← h.1]; exact h2
    have := h.2 i hl (hlen ▸ hl) h2
    exact clip1_of_mem _ _ _ this.1 this.2

theorem fdSteps_length (eps : ℝ) (lo hi x : List ℝ) (hlen : lo.length = hi.length) (hx : x.length = lo.length) :
    (fdSteps eps (some (lo, hi)) x).length = x.length := by
  simp [fdSteps, coordBounds, hlen, hx]

theorem fdSteps_getElem (eps : ℝ) (lo hi x : List ℝ) (i : Nat) (h : i < (fdSteps eps (some (lo, hi)) x).length)
    (hl : i < lo.length) (hh : i < hi.length) (hx : i < x.length) :
    (fdSteps eps (some (lo, hi)) x)[i] = fdStep eps (some (lo[i], hi[i])) x[i] := by
  simp [fdSteps, coordBounds, List.getElem_zipWith, List.getElem_zip]

theorem probePoint_length (x e : List ℝ) (j : Nat) (he : e.length = x.length) :
    (probePoint x e j).length = x.length := by
  simp [probePoint, he]

theorem probePoint_getElem (x e : List ℝ) (j i : Nat) (h : i < (probePoint x e j).length)
    (hx : i < x.length) (he : i < e.length) :
    (probePoint x e j)[i] = x[i] + (if i = j then e[i] else 0) := by
  simp [probePoint, List.getElem_zip, List.getElem_zipIdx]

/-- Every probe point of `jacobian_fd` lies in the box, for a point of the box, when every side of the box
    is at least twice the finite-difference step taken there. -/
theorem fdProbes_inBox (eps : ℝ) (lo hi x : List ℝ) (hlen : lo.length = hi.length) (heps : 0 ≤ eps)
    (hx : InBox lo hi x)
    (hw : ∀ i (hl : i < lo.length) (hh : i < hi.length) (t : ℝ), lo[i] ≤ t → t ≤ hi[i] →
      2 * (eps * max 1 |t|) ≤ hi[i] - lo[i]) :
    ∀ p ∈ fdProbes x (fdSteps eps (some (lo, hi)) x), InBox lo hi p := by
  intro p hp
  simp only [fdProbes, List.mem_map, List.mem_range] at hp
  obtain ⟨j, _, rfl⟩ := hp
  have hel := fdSteps_length eps lo hi x hlen hx.1
  refine ⟨by rw [probePoint_length _ _ _ hel, hx.1], ?_⟩
  intro i hl hh hp
  have hxi : i < x.length := by rw [hx.1]; exact hl
  have hei : i < (fdSteps eps (some (lo, hi)) x).length := by rw [hel]; exact hxi
  rw [probePoint_getElem x _ j i hp hxi hei]
  have hb := hx.2 i hl hh hxi
  split_ifs with hij
  · rw [fdSteps_getElem eps lo hi x i hei hl hh hxi]
    exact fdStep_in_bounds eps _ _ _ heps hb.1 hb.2 (hw i hl hh _ hb.1 hb.2)
  · simpa using hb

theorem dBound_length (b x D : List ℝ) (h1 : x.length = b.length) (h2 : D.length = b.length) :
    (dBound b x D).length = b.length := by
  simp [dBound, h1, h2]

theorem dBound_getElem (b x D : List ℝ) (i : Nat) (h : i < (dBound b x D).length)
    (hb : i < b.length) (hx : i < x.length) (hD : i < D.length) :
    (dBound b x D)[i] = (b[i] - x[i]) / D[i] := by
  simp [dBound, List.getElem_zipWith, List.getElem_zip]

theorem candidate_getElem (x D dx : List ℝ) (i : Nat) (h : i < (candidate x D dx).length)
    (hx : i < x.length) (hD : i < D.length) (hdx : i < dx.length) :
    (candidate x D dx)[i] = x[i] + D[i] * dx[i] := by
  simp [candidate, List.getElem_zipWith, List.getElem_zip]

/-- `dx` is feasible for the scaled bounds `dl ≤ dx ≤ du` -/
def Feasible (dl du dx : List ℝ) : Prop :=
  dx.length = dl.length ∧
    ∀ i (h1 : i < dl.length) (h2 : i < du.length) (h3 : i < dx.length), dl[i] ≤ dx[i] ∧ dx[i] ≤ du[i]

/-- The candidate `x + D·dx` is in the box when `dx` is feasible for `dlower = (lo − x)/D`,
    `dupper = (hi − x)/D` and `D > 0`. -/
theorem candidate_inBox (lo hi x D dx : List ℝ) (hlen : lo.length = hi.length) (hDl : D.length = lo.length)
    (hD : ∀ i (h : i < D.length), 0 < D[i]) (hx : x.length = lo.length)
    (hf : Feasible (dBound lo x D) (dBound hi x D) dx) : InBox lo hi (candidate x D dx) := by
  have hdl := dBound_length lo x D hx hDl
  have hdu := dBound_length hi x D (hx.trans hlen) (hDl.trans hlen)
  have hdx : dx.length = lo.length := hf.1.trans hdl
  refine ⟨by simp [candidate, hx, hDl, hdx], ?_⟩
  intro i hl hh hc
  have hxi : i < x.length := by rw [hx]; exact hl
  have hDi : i < D.length := by rw [hDl]; exact hl
  have hdxi : i < dx.length := by rw [hdx]; exact hl
  rw [candidate_getElem x D dx i hc hxi hDi hdxi]
  have := hf.2 i (by rw [hdl]; exact hl) (by rw [hdu]; exact hh) hdxi
  rw [dBound_getElem lo x D i (by rw [hdl]; exact hl) hl hxi hDi,
      dBound_getElem hi x D i (by rw [hdu]; exact hh) hh hxi hDi] at this
  exact candidate1_in_bounds _ _ _ _ _ (hD i hDi) this.1 this.2

/-! ### the loops: generic induction principles -/

theorem search_induct {α : Type} [MjNum α] (Q : Problem α) (x grad : Vec α) (hess : Mat α)
    (db : Option (Vec α × Vec α)) (y : α)
    (Inv : α → Nat → List (Vec α) → Prop) (Post : SearchResult α → Prop)
    (hfuel : ∀ mu nr calls, Inv mu nr calls → Post (.stopped .fuelOut mu nr calls))
    (hl : ∀ mu nr calls r, Inv mu nr calls → searchStep Q x grad hess db y mu nr calls = .inl r → Post r)
    (hr : ∀ mu nr calls mu' nr' calls', Inv mu nr calls →
      searchStep Q x grad hess db y mu nr calls = .inr (mu', nr', calls') → Inv mu' nr' calls') :
    ∀ fuel mu nr calls, Inv mu nr calls → Post (search Q x grad hess db y fuel mu nr calls) := by
  intro fuel
  induction fuel with
  | zero => intro mu nr calls h; exact hfuel _ _ _ h
  | succ k ih =>
    intro mu nr calls h
    unfold search
    cases hs : searchStep Q x grad hess db y mu nr calls with
    | inl r => exact hl _ _ _ _ h hs
    | inr t =>
      obtain ⟨mu', nr', calls'⟩ := t
      exact ih _ _ _ (hr _ _ _ _ _ _ h hs)

theorem iterate_induct {α : Type} [MjNum α] (Q : Problem α)
    (Inv : State α → Prop) (Post : Result α → Prop)
    (hfin : ∀ s i, Inv s → Post (finish Q s .maxIter i))
    (hl : ∀ i s r, Inv s → iterStep Q i s = .inl r → Post r)
    (hr : ∀ i s s', Inv s → iterStep Q i s = .inr s' → Inv s') :
    ∀ rem i s, Inv s → Post (iterate Q rem i s) := by
  intro rem
  induction rem with
  | zero => intro i s h; exact hfin _ _ h
  | succ k ih =>
    intro i s h
    unfold iterate
    cases hs : iterStep Q i s with
    | inl r => exact hl _ _ _ h hs
    | inr s' => exact ih _ _ (hr _ _ _ h hs)


/-! ### bounds: every evaluation point and the returned point are in the box -/

def SearchResult.callsOf {α : Type} : SearchResult α → List (Vec α)
  | .accepted _ _ _ _ _ _ calls => calls
  | .stopped _ _ _ calls => calls

/-- Hypotheses of the bounds theorems: a box problem with positive scaling, a box at least twice as wide
    as the finite-difference step, and a box-QP oracle whose answers are feasible. -/
structure BoxProblem (Q : Problem ℝ) (lo hi : List ℝ) : Prop where
  bounds : Q.bounds = some (lo, hi)
  hlen : lo.length = hi.length
  hDl : Q.D.length = lo.length
  hD : ∀ i (h : i < Q.D.length), 0 < Q.D[i]
  hle : ∀ i (hl : i < lo.length) (hh : i < hi.length), lo[i] ≤ hi[i]
  heps : 0 ≤ Q.P.eps
  hw : ∀ i (hl : i < lo.length) (hh : i < hi.length) (t : ℝ), lo[i] ≤ t → t ≤ hi[i] →
      2 * (Q.P.eps * max 1 |t|) ≤ hi[i] - lo[i]
  qp : ∀ H g dl du dx, Q.boxQP H g (some (dl, du)) = some (.ok dx) → Feasible dl du dx

section bounds
variable {Q : Problem ℝ} {lo hi : List ℝ}

def PostS (lo hi : List ℝ) (r : SearchResult ℝ) : Prop :=
  (∀ p ∈ r.callsOf, InBox lo hi p) ∧
  (∀ dx xnew rnew red mu nr calls, r = .accepted dx xnew rnew red mu nr calls → InBox lo hi xnew)

theorem qp_candidate_inBox (B : BoxProblem Q lo hi) (x grad : List ℝ) (H : Mat ℝ) (hx : InBox lo hi x)
    (dx : List ℝ) (h : Q.boxQP H grad (dBounds Q.bounds x Q.D) = some (.ok dx)) :
    InBox lo hi (candidate x Q.D dx) := by
  rw [B.bounds] at h
  simp only [dBounds, Option.map_some] at h
  exact candidate_inBox lo hi x Q.D dx B.hlen B.hDl B.hD hx.1 (B.qp _ _ _ _ _ h)

theorem mem_append_single {β : Type} {P : β → Prop} {l : List β} {a : β} (hl : ∀ p ∈ l, P p) (ha : P a) :
    ∀ p ∈ l ++ [a], P p := by
  intro p hp
  rcases List.mem_append.mp hp with h | h
  · exact hl p h
  · rw [List.mem_singleton.mp h]; exact ha

theorem searchStep_bounds (B : BoxProblem Q lo hi) (x grad : List ℝ) (hess : Mat ℝ) (y mu : ℝ) (nr : Nat)
    (calls : List (List ℝ)) (hx : InBox lo hi x) (hc : ∀ p ∈ calls, InBox lo hi p) :
    (∀ r, searchStep Q x grad hess (dBounds Q.bounds x Q.D) y mu nr calls = .inl r → PostS lo hi r) ∧
    (∀ mu' nr' calls', searchStep Q x grad hess (dBounds Q.bounds x Q.D) y mu nr calls = .inr (mu', nr', calls') →
      ∀ p ∈ calls', InBox lo hi p) := by
  have key := qp_candidate_inBox B x grad (regularize hess mu) hx
  unfold searchStep
  cases hq : Q.boxQP (regularize hess mu) grad (dBounds Q.bounds x Q.D) with
  | none =>
    refine ⟨?_, ?_⟩
    · intro r h; simp only [Sum.inl.injEq] at h; subst h
      exact ⟨hc, by intro _ _ _ _ _ _ _ h; cases h⟩
    · intro _ _ _ h; cases h
  | some res =>
    cases res with
    | failed =>
      refine ⟨?_, ?_⟩
      · intro r h
        split_ifs at h
        simp only [Sum.inl.injEq] at h; subst h
        exact ⟨hc, by intro _ _ _ _ _ _ _ h; cases h⟩
      · intro _ _ _ h
        split_ifs at h
        simp only [Sum.inr.injEq, Prod.mk.injEq] at h
        obtain ⟨_, _, rfl⟩ := h; exact hc
    | ok dx =>
      have hcand := key dx hq
      have hc' := mem_append_single hc hcand
      simp only
      cases hr : Q.residual (candidate x Q.D dx) with
      | none =>
        refine ⟨?_, ?_⟩
        · intro r h; simp only [Sum.inl.injEq] at h; subst h
          exact ⟨hc', by intro _ _ _ _ _ _ _ h; cases h⟩
        · intro _ _ _ h; cases h
      | some rnew =>
        simp only
        cases hv : Q.norm.value rnew with
        | none =>
          refine ⟨?_, ?_⟩
          · intro r h; simp only [Sum.inl.injEq] at h; subst h
            exact ⟨hc', by intro _ _ _ _ _ _ _ h; cases h⟩
          · intro _ _ _ h; cases h
        | some ynew =>
          simp only
          refine ⟨?_, ?_⟩
          · intro r h
            split_ifs at h
            · simp only [Sum.inl.injEq] at h; subst h
              exact ⟨hc', by intro _ _ _ _ _ _ _ h; cases h⟩
            · simp only [Sum.inl.injEq] at h; subst h
              refine ⟨hc', ?_⟩
              intro _ _ _ _ _ _ _ h
              simp only [SearchResult.accepted.injEq] at h
              obtain ⟨_, rfl, _⟩ := h; exact hcand
          · intro _ _ _ h
            split_ifs at h
            simp only [Sum.inr.injEq, Prod.mk.injEq] at h
            obtain ⟨_, _, rfl⟩ := h; exact hc'

theorem search_bounds (B : BoxProblem Q lo hi) (x grad : List ℝ) (hess : Mat ℝ) (y : ℝ)
    (hx : InBox lo hi x) (fuel : Nat) (mu : ℝ) (nr : Nat) (calls : List (List ℝ))
    (hc : ∀ p ∈ calls, InBox lo hi p) :
    PostS lo hi (search Q x grad hess (dBounds Q.bounds x Q.D) y fuel mu nr calls) := by
  refine search_induct Q x grad hess _ y (fun _ _ calls => ∀ p ∈ calls, InBox lo hi p) (PostS lo hi)
    ?_ ?_ ?_ fuel mu nr calls hc
  · intro mu nr calls h
    exact ⟨h, by intro _ _ _ _ _ _ _ h; cases h⟩
  · intro mu nr calls r h hs
    exact (searchStep_bounds B x grad hess y mu nr calls hx h).1 r hs
  · intro mu nr calls mu' nr' calls' h hs
    exact (searchStep_bounds B x grad hess y mu nr calls hx h).2 mu' nr' calls' hs

/-- loop invariant / postcondition of the bounds theorems -/
def InvB (lo hi : List ℝ) (s : State ℝ) : Prop := InBox lo hi s.x ∧ ∀ p ∈ s.calls, InBox lo hi p
def PostB (lo hi : List ℝ) (r : Result ℝ) : Prop := InBox lo hi r.x ∧ ∀ p ∈ r.calls, InBox lo hi p

theorem finish_bounds (s : State ℝ) (st : Status) (i : Nat) (h : InvB lo hi s) : PostB lo hi (finish Q s st i) := by
  unfold finish
  split <;> exact h

theorem iterStep_bounds (B : BoxProblem Q lo hi) (i : Nat) (s : State ℝ) (h : InvB lo hi s) :
    (∀ r, iterStep Q i s = .inl r → PostB lo hi r) ∧ (∀ s', iterStep Q i s = .inr s' → InvB lo hi s') := by
  obtain ⟨hx, hc⟩ := h
  have hprobes : ∀ p ∈ s.calls ++ fdProbes s.x (fdSteps Q.P.eps Q.bounds s.x), InBox lo hi p := by
    intro p hp
    rcases List.mem_append.mp hp with h | h
    · exact hc p h
    · rw [B.bounds] at h
      exact fdProbes_inBox Q.P.eps lo hi s.x B.hlen B.heps hx B.hw p h
  unfold iterStep
  cases hv : Q.norm.value s.r with
  | none =>
    exact ⟨by intro r h; simp only [Sum.inl.injEq] at h; subst h; exact ⟨hx, hc⟩, by intro _ h; cases h⟩
  | some y =>
    simp only
    cases hm : List.mapM Q.residual (fdProbes s.x (fdSteps Q.P.eps Q.bounds s.x)) with
    | none =>
      exact ⟨by intro r h; simp only [Sum.inl.injEq] at h; subst h; exact ⟨hx, hprobes⟩, by intro _ h; cases h⟩
    | some rhs =>
      simp only
      cases hg : (projMat s.r rhs (fdSteps Q.P.eps Q.bounds s.x) Q.D).bind (Q.norm.gradHess s.r) with
      | none =>
        exact ⟨by intro r h; simp only [Sum.inl.injEq] at h; subst h; exact ⟨hx, hprobes⟩, by intro _ h; cases h⟩
      | some gh =>
        obtain ⟨grad, hess⟩ := gh
        simp only
        split_ifs with hgt
        · exact ⟨by intro r h; simp only [Sum.inl.injEq] at h; subst h
                    exact finish_bounds _ _ _ ⟨hx, hprobes⟩, by intro _ h; cases h⟩
        · have hS := search_bounds B s.x grad hess y hx Q.P.innerFuel s.mu s.nreduc _ hprobes
          cases hsr : search Q s.x grad hess (dBounds Q.bounds s.x Q.D) y Q.P.innerFuel s.mu s.nreduc
              (s.calls ++ fdProbes s.x (fdSteps Q.P.eps Q.bounds s.x)) with
          | stopped st mu nr calls' =>
            rw [hsr] at hS
            have hc' : ∀ p ∈ calls', InBox lo hi p := hS.1
            simp only
            refine ⟨?_, ?_⟩
            · intro r h
              split at h
              · simp only [Sum.inl.injEq] at h; subst h; exact ⟨hx, hc'⟩
              · simp only [Sum.inl.injEq] at h; subst h; exact finish_bounds _ _ _ ⟨hx, hc'⟩
            · intro s' h
              split at h <;> cases h
          | accepted dx xnew rnew red mu nr calls' =>
            rw [hsr] at hS
            have hc' : ∀ p ∈ calls', InBox lo hi p := hS.1
            have hxn : InBox lo hi xnew := hS.2 _ _ _ _ _ _ _ rfl
            simp only
            refine ⟨?_, ?_⟩
            · intro r h
              split_ifs at h
              simp only [Sum.inl.injEq] at h; subst h; exact finish_bounds _ _ _ ⟨hxn, hc'⟩
            · intro s' h
              split_ifs at h
              simp only [Sum.inr.injEq] at h; subst h; exact ⟨hxn, hc'⟩

theorem leastSquares_bounds (B : BoxProblem Q lo hi) (x0 : List ℝ) (hx0 : x0.length = lo.length) :
    PostB lo hi (leastSquares Q x0) := by
  have hclip : InBox lo hi (clipStart Q.bounds x0) := by
    rw [B.bounds]; exact clipStart_inBox lo hi x0 B.hlen hx0 B.hle
  unfold leastSquares
  simp only
  cases hr : Q.residual (clipStart Q.bounds x0) with
  | none =>
    exact ⟨hclip, by intro p hp; rw [List.mem_singleton.mp hp]; exact hclip⟩
  | some r =>
    simp only
    refine iterate_induct Q (InvB lo hi) (PostB lo hi) ?_ ?_ ?_ _ _ _ ?_
    · intro s i h; exact finish_bounds s _ i h
    · intro i s r h hs; exact (iterStep_bounds B i s h).1 r hs
    · intro i s s' h hs; exact (iterStep_bounds B i s h).2 s' hs
    · exact ⟨hclip, by intro p hp; rw [List.mem_singleton.mp hp]; exact hclip⟩

end bounds

end MjProof.LeastSquares
