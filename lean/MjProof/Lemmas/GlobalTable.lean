import MjProof.Model.GlobalTable
/-
C40 — lemmas: memory (block list) algebra, the sequential specification, the invariant of the
transition system and its preservation by every step of every thread.
-/
namespace MjProof.GlobalTable

/-! ### keys -/
theorem keyEq_iff {a b : String} : keyEq a b = true ↔ lower a = lower b := by simp [keyEq]
theorem keyEq_refl (a : String) : keyEq a a = true := by simp [keyEq]
theorem keyEq_symm {a b : String} (h : keyEq a b = true) : keyEq b a = true := by
  rw [keyEq_iff] at *; exact h.symm
theorem keyEq_trans {a b c : String} (h1 : keyEq a b = true) (h2 : keyEq b c = true) : keyEq a c = true := by
  rw [keyEq_iff] at *; exact h1.trans h2
theorem keyEq_comm (a b : String) : keyEq a b = keyEq b a := by
  cases h : keyEq a b
  · cases h' : keyEq b a
    · rfl
    · rw [keyEq_symm h'] at h; cases h
  · exact (keyEq_symm h).symm

@[simp] theorem Cell.keyStr_full (o : Obj) : (Cell.full o).keyStr = o.key := rfl
@[simp] theorem Cell.toObj_full (o : Obj) : (Cell.full o).toObj = o := rfl
@[simp] theorem Cell.complete_full (o : Obj) : (Cell.full o).complete = true := rfl

/-! ### memory -/
theorem cellBL_setBL_same {mem : Mem} {b l : Nat} {c0 c : Cell} (h : cellBL mem b l = some c0) :
    cellBL (setBL mem b l c) b l = some c := by
  unfold cellBL setBL at *
  cases hb : mem[b]? with
  | none => simp [hb] at h
  | some blk =>
    simp only [hb, Option.bind_some] at h
    have hl : l < blk.length := by
      rcases Nat.lt_or_ge l blk.length with h' | h'
      · exact h'
      · rw [List.getElem?_eq_none h'] at h; cases h
    simp [hb, hl]

theorem cellBL_setBL_other {mem : Mem} {b l b' l' : Nat} {c : Cell} (h : b' ≠ b ∨ l' ≠ l) :
    cellBL (setBL mem b l c) b' l' = cellBL mem b' l' := by
  unfold cellBL setBL
  by_cases hb : b = b'
  · subst hb
    have hl : l ≠ l' := by rcases h with h | h; exact absurd rfl h; exact fun e => h e.symm
    cases hm : mem[b]? with
    | none => simp [hm]
    | some blk => simp [hm, hl]
  · simp [hb]

theorem slot_inj {i j : Nat} (h : i / blockSize = j / blockSize ∧ i % blockSize = j % blockSize) : i = j := by
  simp only [blockSize] at h; omega

/-- all blocks have `blockSize` cells -/
abbrev BlocksOK (mem : Mem) : Prop := ∀ (b : Nat) (blk : List Cell), mem[b]? = some blk → blk.length = blockSize

theorem BlocksOK.setBL {mem : Mem} (h : BlocksOK mem) (b l : Nat) (c : Cell) : BlocksOK (setBL mem b l c) := by
  intro b' blk hb
  unfold GlobalTable.setBL at hb
  rw [List.getElem?_modify] at hb
  cases hm : mem[b']? with
  | none => simp [hm] at hb
  | some blk0 =>
    have := h b' blk0 hm
    rw [hm] at hb
    split at hb <;> (simp at hb; subst hb; simp [this])

theorem BlocksOK.take {mem : Mem} (h : BlocksOK mem) (n : Nat) : BlocksOK (mem.take n) := by
  intro b blk hb
  rw [List.getElem?_take] at hb
  split at hb
  · exact h b blk hb
  · cases hb

theorem emptyBlock_length : emptyBlock.length = blockSize := by simp [emptyBlock]

theorem BlocksOK.snoc {mem : Mem} (h : BlocksOK mem) : BlocksOK (mem ++ [emptyBlock]) := by
  intro b blk hb
  rw [List.getElem?_append] at hb
  split at hb
  · exact h b blk hb
  · rcases Nat.eq_zero_or_pos (b - mem.length) with h0 | h0
    · rw [h0] at hb; simp at hb; subst hb; exact emptyBlock_length
    · rw [List.getElem?_eq_none (by simp; omega)] at hb; cases hb

theorem cellBL_exists {mem : Mem} (h : BlocksOK mem) {b l : Nat} (hb : b < mem.length) (hl : l < blockSize) :
    ∃ c, cellBL mem b l = some c := by
  unfold cellBL
  have : mem[b]? = some mem[b] := List.getElem?_eq_getElem hb
  rw [this]
  have hlen := h b _ this
  exact ⟨(mem[b])[l]'(by omega), by simp⟩

theorem cellBL_take {mem : Mem} {n b l : Nat} (h : b < n) : cellBL (mem.take n) b l = cellBL mem b l := by
  unfold cellBL; rw [List.getElem?_take]; simp [h]

theorem cellBL_append_left {mem : Mem} {x : Mem} {b l : Nat} (h : b < mem.length) :
    cellBL (mem ++ x) b l = cellBL mem b l := by
  unfold cellBL; rw [List.getElem?_append_left h]

theorem cellBL_snoc_new {mem : Mem} {l : Nat} (hl : l < blockSize) :
    cellBL (mem ++ [emptyBlock]) mem.length l = some Cell.empty := by
  unfold cellBL
  rw [List.getElem?_append_right (Nat.le_refl _)]
  simp [emptyBlock, hl]

/-! ### sequential specification -/
namespace Spec

theorem findKey_none {k : String} : ∀ {T : List Obj} {j : Nat}, findKey k T j = none →
    ∀ (i : Nat) (o : Obj), T[i]? = some o → keyEq k o.key = false
  | [], _, _, i, o, h => by simp at h
  | e :: es, j, hf, i, o, h => by
    unfold findKey at hf
    split at hf
    · cases hf
    · cases i with
      | zero => simp at h; subst h; exact Bool.eq_false_iff.2 (by assumption)
      | succ i => exact findKey_none hf i o (by simpa using h)

theorem findKey_some {k : String} : ∀ {T : List Obj} {j i : Nat} {e : Obj}, findKey k T j = some (i, e) →
    j ≤ i ∧ T[i - j]? = some e ∧ keyEq k e.key = true ∧ ∀ i', i' < i - j → ∀ (o : Obj), T[i']? = some o → keyEq k o.key = false
  | [], _, _, _, h => by simp [findKey] at h
  | o :: os, j, i, e, h => by
    unfold findKey at h
    split at h
    · rename_i hk
      simp only [Option.some.injEq, Prod.mk.injEq] at h
      obtain ⟨rfl, rfl⟩ := h
      refine ⟨Nat.le_refl _, by simp, hk, ?_⟩
      intro i' hi'; omega
    · rename_i hk
      obtain ⟨h1, h2, h3, h4⟩ := findKey_some h
      have : i - j = (i - (j + 1)) + 1 := by omega
      refine ⟨by omega, by rw [this]; simpa using h2, h3, ?_⟩
      intro i' hi' o' ho'
      cases i' with
      | zero => simp at ho'; subst ho'; simpa using hk
      | succ i' => exact h4 i' (by omega) o' (by simpa using ho')

theorem findKey_of_none_all {k : String} : ∀ {T : List Obj} {j : Nat},
    (∀ (i : Nat) (o : Obj), T[i]? = some o → keyEq k o.key = false) → findKey k T j = none
  | [], _, _ => rfl
  | o :: os, j, h => by
    unfold findKey
    have h0 := h 0 o (by simp)
    simp only [h0, Bool.false_eq_true, ↓reduceIte]
    exact findKey_of_none_all (fun i o' ho' => h (i + 1) o' (by simpa using ho'))

theorem findKey_cons_false {k : String} {o : Obj} {os : List Obj} {j : Nat} (h : keyEq k o.key = false) :
    findKey k (o :: os) j = findKey k os (j + 1) := by simp [findKey, h]
theorem findKey_cons_true {k : String} {o : Obj} {os : List Obj} {j : Nat} (h : keyEq k o.key = true) :
    findKey k (o :: os) j = some (j, o) := by simp [findKey, h]

/-- the scan invariant: having skipped `i` non-matching entries -/
theorem findKey_drop {k : String} : ∀ {T : List Obj} {j i : Nat},
    (∀ i', i' < i → ∀ (o : Obj), T[i']? = some o → keyEq k o.key = false) → findKey k T j = findKey k (T.drop i) (j + i)
  | T, j, 0, _ => by simp
  | [], j, i + 1, _ => by simp [findKey]
  | o :: os, j, i + 1, h => by
    have h0 := h 0 (by omega) o (by simp)
    rw [findKey_cons_false h0, List.drop_succ_cons]
    rw [findKey_drop (T := os) (j := j + 1) (i := i)
      (fun i' hi' o' ho' => h (i' + 1) (by omega) o' (by simpa using ho'))]
    have e : j + 1 + i = j + (i + 1) := by omega
    rw [e]

theorem scanKey_some {k : String} : ∀ {T : List Obj} {j i : Nat} {e : Obj}, scanKey k T j = some (i, e) →
    j ≤ i ∧ T[i - j]? = some e ∧ keyEq e.key k = true ∧ e.key ≠ "" ∧
      ∀ i', i' < i - j → ∀ (o : Obj), T[i']? = some o → o.key ≠ "" ∧ keyEq o.key k = false
  | [], _, _, _, h => by simp [scanKey] at h
  | o :: os, j, i, e, h => by
    unfold scanKey at h
    split at h
    · cases h
    · rename_i hne
      split at h
      · rename_i hk
        simp only [Option.some.injEq, Prod.mk.injEq] at h
        obtain ⟨rfl, rfl⟩ := h
        refine ⟨Nat.le_refl _, by simp, hk, hne, ?_⟩
        intro i' hi'; omega
      · rename_i hk
        obtain ⟨h1, h2, h3, h4, h5⟩ := scanKey_some h
        have : i - j = (i - (j + 1)) + 1 := by omega
        refine ⟨by omega, by rw [this]; simpa using h2, h3, h4, ?_⟩
        intro i' hi' o' ho'
        cases i' with
        | zero => simp at ho'; subst ho'; exact ⟨hne, by simpa using hk⟩
        | succ i' => exact h5 i' (by omega) o' (by simpa using ho')

end Spec

/-! ### the invariant -/

/-- relation between the scan index `i` and the code's `(block, local_idx)` after `i` iterations -/
def Walk (i b l : Nat) : Prop :=
  (i = 0 ∧ b = 0 ∧ l = 0) ∨ (0 < i ∧ b = (i - 1) / blockSize ∧ l = (i - 1) % blockSize + 1)

/-- what a logged result means, in terms of the (append-only) abstract table -/
def ResOK (eqv : ObjEq) (tbl : List Obj) : Op → Res → Prop
  | .reg r, .slot i => ∃ e, tbl[i]? = some e ∧ keyEq r.obj.key e.key = true ∧ (e = r.obj ∨ eqv r.obj e = true)
  | .reg r, .conflict i => ∃ e, tbl[i]? = some e ∧ keyEq r.obj.key e.key = true ∧ eqv r.obj e = false
  | .reg r, .allocFailed => r.allocFail = true
  | .reg r, .copyFailed => r.copyFail.isSome = true
  | .count, .count n => n ≤ tbl.length
  | .getSlot i, .atSlot n c => n ≤ tbl.length ∧ c = (Spec.atSlot (tbl.take n) i).map Cell.full
  | .getKey k, .byKey n r =>
      n ≤ tbl.length ∧ r = (Spec.lookup (tbl.take n) k).map (fun p => (p.1, Cell.full p.2))
  | .lockExt, .unit => True
  | .unlockExt, .unit => True
  | _, _ => False

def PcInv (eqv : ObjEq) (mutex : Option Nat) (mem : Mem) (count : Nat) (tbl : List Obj) (t : Nat) : Pc → Prop
  | .idle => True
  | .wLock _ => True
  | .cLoad => True
  | .rLoad _ => True
  | .kLoad _ => True
  | .fault => False
  | .wLoad _ => mutex = some t
  | .wScan r cnt i b l => mutex = some t ∧ cnt = count ∧ i ≤ cnt ∧ Walk i b l ∧
      Spec.findKey r.obj.key tbl 0 = Spec.findKey r.obj.key (tbl.drop i) i
  | .wAlloc r cnt b l => mutex = some t ∧ cnt = count ∧ Walk cnt b l ∧ Spec.findKey r.obj.key tbl 0 = none
  | .wCopy r cnt b l j => mutex = some t ∧ cnt = count ∧ Spec.findKey r.obj.key tbl 0 = none ∧
      b = cnt / blockSize ∧ l = cnt % blockSize ∧ j ≤ nFields ∧
      ∃ c, cellBL mem b l = some c ∧ (1 ≤ j → c.payload = some r.obj.payload) ∧ (2 ≤ j → c.key = some r.obj.key)
  | .wPublish r cnt => mutex = some t ∧ cnt = count ∧ Spec.findKey r.obj.key tbl 0 = none ∧
      cellAt mem cnt = some (Cell.full r.obj)
  | .wUnlock r res => mutex = some t ∧ ResOK eqv tbl (.reg r) res
  | .rRead _ n => n ≤ count
  | .kScan k n j => n ≤ count ∧ j ≤ n ∧ k ≠ "" ∧
      Spec.lookup (tbl.take n) k = Spec.scanKey k ((tbl.take n).drop j) j

structure Inv (eqv : ObjEq) (s : Sys) : Prop where
  blocks : BlocksOK s.mem
  nonempty : 0 < s.mem.length
  cap : s.count ≤ blockSize * s.mem.length
  len : s.tbl.length = s.count
  cells : ∀ (i : Nat) (o : Obj), s.tbl[i]? = some o → cellAt s.mem i = some (Cell.full o)
  uniq : ∀ (i j : Nat) (oi oj : Obj), s.tbl[i]? = some oi → s.tbl[j]? = some oj →
    keyEq oi.key oj.key = true → i = j
  lockD : ∀ t, 0 < (s.thr t).depth ↔ s.mutex = some t
  pcs : ∀ t, PcInv eqv s.mutex s.mem s.count s.tbl t (s.thr t).pc
  logs : ∀ t op res, (op, res) ∈ (s.thr t).done → ResOK eqv s.tbl op res
  lin : Spec.replay eqv s.lin [] = some s.tbl

theorem getElem?_append_of_some {α} {l x : List α} {i : Nat} {a : α} (h : l[i]? = some a) :
    (l ++ x)[i]? = some a := by
  have hi : i < l.length := by
    rcases Nat.lt_or_ge i l.length with h' | h'
    · exact h'
    · rw [List.getElem?_eq_none h'] at h; cases h
  rw [List.getElem?_append_left hi]; exact h

theorem take_append_le {α} {l x : List α} {n : Nat} (h : n ≤ l.length) : (l ++ x).take n = l.take n := by
  rw [List.take_append_of_le_length h]

theorem ResOK.mono {eqv : ObjEq} {tbl x : List Obj} {op : Op} {res : Res} (h : ResOK eqv tbl op res) :
    ResOK eqv (tbl ++ x) op res := by
  cases op <;> cases res <;> simp only [ResOK] at h ⊢
  · obtain ⟨e, h1, h2, h3⟩ := h; exact ⟨e, getElem?_append_of_some h1, h2, h3⟩
  · obtain ⟨e, h1, h2, h3⟩ := h; exact ⟨e, getElem?_append_of_some h1, h2, h3⟩
  · exact h
  · exact h
  · simp only [List.length_append]; omega
  · obtain ⟨h1, h2⟩ := h
    refine ⟨by simp only [List.length_append]; omega, ?_⟩
    rw [take_append_le h1]; exact h2
  · obtain ⟨h1, h2⟩ := h
    refine ⟨by simp only [List.length_append]; omega, ?_⟩
    rw [take_append_le h1]; exact h2

theorem PcInv.frame {eqv : ObjEq} {mutex mutex' : Option Nat} {mem mem' : Mem} {count count' : Nat}
    {tbl x : List Obj} {t : Nat} {pc : Pc}
    (h : PcInv eqv mutex mem count tbl t pc) (hm : mutex ≠ some t) (hc : count ≤ count')
    (hl : tbl.length = count) : PcInv eqv mutex' mem' count' (tbl ++ x) t pc := by
  cases pc <;> simp only [PcInv] at h ⊢
  case wLoad => exact absurd h hm
  case wScan => exact absurd h.1 hm
  case wAlloc => exact absurd h.1 hm
  case wCopy => exact absurd h.1 hm
  case wPublish => exact absurd h.1 hm
  case wUnlock => exact absurd h.1 hm
  case rRead => omega
  case kScan =>
    obtain ⟨h1, h2, h3, h4⟩ := h
    refine ⟨by omega, h2, h3, ?_⟩
    rw [take_append_le (by omega)]; exact h4

/-- generic re-establishment of the invariant after a step of thread `t` -/
theorem Inv.update {eqv : ObjEq} {s : Sys} (h : Inv eqv s) (t : Nat) (th' : Thread)
    (mem' : Mem) (count' : Nat) (mutex' : Option Nat) (tbl' : List Obj) (lin' : List LinEv)
    (hfr : (mem' = s.mem ∧ count' = s.count ∧ mutex' = s.mutex ∧ tbl' = s.tbl) ∨
           ((s.mutex = none ∨ s.mutex = some t) ∧ (mutex' = none ∨ mutex' = some t) ∧ ∃ x, tbl' = s.tbl ++ x))
    (hb : BlocksOK mem') (hne : 0 < mem'.length) (hcap : count' ≤ blockSize * mem'.length)
    (hlen : tbl'.length = count')
    (hcells : ∀ (i : Nat) (o : Obj), tbl'[i]? = some o → cellAt mem' i = some (Cell.full o))
    (huniq : ∀ (i j : Nat) (oi oj : Obj), tbl'[i]? = some oi → tbl'[j]? = some oj →
      keyEq oi.key oj.key = true → i = j)
    (hlock : 0 < th'.depth ↔ mutex' = some t)
    (hpc : PcInv eqv mutex' mem' count' tbl' t th'.pc)
    (hlog : ∀ op res, (op, res) ∈ th'.done → ResOK eqv tbl' op res)
    (hlin : Spec.replay eqv lin' [] = some tbl') :
    Inv eqv { mem := mem', count := count', mutex := mutex', thr := setThr s.thr t th', tbl := tbl', lin := lin' } := by
  refine ⟨hb, hne, hcap, hlen, hcells, huniq, ?_, ?_, ?_, hlin⟩
  · intro u
    by_cases hu : u = t
    · subst hu; simpa [setThr] using hlock
    · simp only [setThr, hu, ↓reduceIte]
      rw [h.lockD u]
      rcases hfr with ⟨_, _, e, _⟩ | ⟨h1, h2, _⟩
      · rw [e]
      · constructor
        · intro e; rcases h1 with h1 | h1 <;> rw [h1] at e <;> simp at e; exact absurd e.symm hu
        · intro e; rcases h2 with h2 | h2 <;> rw [h2] at e <;> simp at e; exact absurd e.symm hu
  · intro u
    by_cases hu : u = t
    · subst hu; simpa [setThr] using hpc
    · simp only [setThr, hu, ↓reduceIte]
      have hp := h.pcs u
      rcases hfr with ⟨e1, e2, e3, e4⟩ | ⟨h1, h2, x, e⟩
      · rw [e1, e2, e3, e4]; exact hp
      · rw [e]
        refine PcInv.frame hp ?_ ?_ h.len
        · intro e'; rcases h1 with h1 | h1 <;> rw [h1] at e' <;> simp at e'; exact hu e'.symm
        · have := h.len; rw [e, List.length_append] at hlen; omega
  · intro u op res hmem
    by_cases hu : u = t
    · subst hu; simp only [setThr, ↓reduceIte] at hmem; exact hlog op res hmem
    · simp only [setThr, hu, ↓reduceIte] at hmem
      have := h.logs u op res hmem
      rcases hfr with ⟨_, _, _, e4⟩ | ⟨_, _, x, e⟩
      · rw [e4]; exact this
      · rw [e]; exact this.mono

/-- a step that touches only the thread-local state of `t` -/
theorem Inv.local {eqv : ObjEq} {s : Sys} (h : Inv eqv s) (t : Nat) (th' : Thread)
    (hlock : 0 < th'.depth ↔ s.mutex = some t)
    (hpc : PcInv eqv s.mutex s.mem s.count s.tbl t th'.pc)
    (hlog : ∀ op res, (op, res) ∈ th'.done → ResOK eqv s.tbl op res) :
    Inv eqv { s with thr := setThr s.thr t th' } :=
  Inv.update h t th' s.mem s.count s.mutex s.tbl s.lin (Or.inl ⟨rfl, rfl, rfl, rfl⟩)
    h.blocks h.nonempty h.cap h.len h.cells h.uniq hlock hpc hlog h.lin

theorem drop_cons_of_getElem? {α} : ∀ {l : List α} {j : Nat} {o : α}, l[j]? = some o → l.drop j = o :: l.drop (j + 1)
  | [], _, _, h => by simp at h
  | a :: as, 0, o, h => by simp at h; simp [h]
  | a :: as, j + 1, o, h => by
    simp only [List.getElem?_cons_succ] at h
    simpa using drop_cons_of_getElem? h

theorem getElem?_of_lt {α} {l : List α} {i : Nat} (h : i < l.length) : ∃ a, l[i]? = some a :=
  ⟨l[i], List.getElem?_eq_getElem h⟩

theorem lt_of_getElem?_some {α} {l : List α} {i : Nat} {a : α} (h : l[i]? = some a) : i < l.length := by
  rcases Nat.lt_or_ge i l.length with h' | h'
  · exact h'
  · rw [List.getElem?_eq_none h'] at h; cases h

theorem cellAt_some_lt {mem : Mem} {i : Nat} {c : Cell} (h : cellAt mem i = some c) : i / blockSize < mem.length := by
  unfold cellAt cellBL at h
  cases hb : mem[i / blockSize]? with
  | none => simp [hb] at h
  | some blk => exact lt_of_getElem?_some hb

namespace Spec
theorem replay_append (eqv : ObjEq) : ∀ (es es' : List LinEv) (T : List Obj),
    replay eqv (es ++ es') T = (replay eqv es T).bind (replay eqv es')
  | [], es', T => by simp [replay]
  | e :: es, es', T => by
    simp only [List.cons_append, replay]
    split
    · exact replay_append eqv es es' _
    · rfl

theorem replay_snoc {eqv : ObjEq} {es : List LinEv} {T T' : List Obj} {e : LinEv}
    (h : replay eqv es [] = some T)
    (hr : register eqv T e.op.obj (injOf e.res) = (T', e.res)) :
    replay eqv (es ++ [e]) [] = some T' := by
  rw [replay_append, h]
  simp only [Option.bind_some, replay]
  rw [hr]; simp
end Spec

/-! ### every step of every thread preserves the invariant -/

theorem logs_cons {eqv : ObjEq} {tbl : List Obj} {done : List (Op × Res)} {op : Op} {res : Res}
    (hlg : ∀ op res, (op, res) ∈ done → ResOK eqv tbl op res) (h : ResOK eqv tbl op res) :
    ∀ op' res', (op', res') ∈ (op, res) :: done → ResOK eqv tbl op' res' := by
  intro op' res' hm
  simp only [List.mem_cons] at hm
  rcases hm with e | hm
  · cases e; exact h
  · exact hlg op' res' hm

theorem inv_dispatch {eqv : ObjEq} {s : Sys} (h : Inv eqv s) (t : Nat) (hidle : (s.thr t).pc = .idle) :
    Inv eqv (dispatch s t (s.thr t)) := by
  have hpc := h.pcs t
  have hlk := h.lockD t
  have hlg := h.logs t
  unfold dispatch
  split
  · exact h
  · split
    · exact Inv.local h t _ hlk (by simp [PcInv]) hlg
    · exact Inv.local h t _ hlk (by simp [PcInv]) hlg
    · exact Inv.local h t _ hlk (by simp [PcInv]) hlg
    · exact Inv.local h t _ hlk (by simp [PcInv]) hlg
    · -- lockExt
      split
      · rename_i hd
        refine Inv.local h t _ ?_ (by simp [hidle, PcInv]) ?_
        · simp only; constructor
          · intro _; exact hlk.1 hd
          · intro _; omega
        · intro op res hm
          simp only [List.mem_cons] at hm
          rcases hm with e | hm
          · cases e; simp [ResOK]
          · exact hlg op res hm
      · split
        · rename_i hd hmx
          refine Inv.update h t _ s.mem s.count (some t) s.tbl s.lin
            (Or.inr ⟨Or.inl hmx, Or.inr rfl, [], (List.append_nil _).symm⟩)
            h.blocks h.nonempty h.cap h.len h.cells h.uniq (by simp) (by simp [hidle, PcInv]) ?_ h.lin
          intro op res hm
          simp only [List.mem_cons] at hm
          rcases hm with e | hm
          · cases e; simp [ResOK]
          · exact hlg op res hm
        · exact h
    · -- unlockExt
      split
      · refine Inv.local h t _ hlk (by simp [hidle, PcInv]) ?_
        intro op res hm
        simp only [List.mem_cons] at hm
        rcases hm with e | hm
        · cases e; simp [ResOK]
        · exact hlg op res hm
      · rename_i hd
        have hmt : s.mutex = some t := hlk.1 (by omega)
        refine Inv.update h t _ s.mem s.count _ s.tbl s.lin
          (Or.inr ⟨Or.inr hmt, ?_, [], (List.append_nil _).symm⟩)
          h.blocks h.nonempty h.cap h.len h.cells h.uniq ?_ (by simp [hidle, PcInv]) ?_ h.lin
        · split
          · exact Or.inl rfl
          · exact Or.inr hmt
        · simp only
          split
          · rename_i h1; simp [h1]
          · constructor
            · intro _; exact hmt
            · intro _; omega
        · intro op res hm
          simp only [List.mem_cons] at hm
          rcases hm with e | hm
          · cases e; simp [ResOK]
          · exact hlg op res hm
theorem tbl_cell {eqv : ObjEq} {s : Sys} (h : Inv eqv s) {i : Nat} (hi : i < s.count) :
    ∃ o, s.tbl[i]? = some o ∧ cellAt s.mem i = some (Cell.full o) := by
  obtain ⟨o, ho⟩ := getElem?_of_lt (l := s.tbl) (i := i) (by rw [h.len]; exact hi)
  exact ⟨o, ho, h.cells i o ho⟩

theorem inv_step {eqv : ObjEq} {s : Sys} (h : Inv eqv s) (t : Nat) : Inv eqv (step eqv s t) := by
  have hpc := h.pcs t
  have hlk := h.lockD t
  have hlg := h.logs t
  unfold step
  dsimp only
  split
  case h_1 heq => exact inv_dispatch h t heq
  case h_2 heq => rw [heq] at hpc; exact hpc.elim
  case h_3 r heq =>
    -- wLock
    split
    · rename_i hd
      refine Inv.local h t _ ?_ (by simp only [PcInv]; exact hlk.1 hd) hlg
      simp only; constructor
      · intro _; exact hlk.1 hd
      · intro _; omega
    · split
      · rename_i hd hmx
        exact Inv.update h t _ s.mem s.count (some t) s.tbl s.lin
          (Or.inr ⟨Or.inl hmx, Or.inr rfl, [], (List.append_nil _).symm⟩)
          h.blocks h.nonempty h.cap h.len h.cells h.uniq (by simp) (by simp [PcInv]) hlg h.lin
      · exact h
  case h_4 r heq =>
    -- wLoad
    rw [heq] at hpc; simp only [PcInv] at hpc
    refine Inv.local h t _ hlk ?_ hlg
    unfold PcInv
    exact ⟨hpc, rfl, Nat.zero_le _, Or.inl ⟨rfl, rfl, rfl⟩, by simp⟩
  case h_10 heq =>
    -- cLoad
    refine Inv.local h t _ hlk (by simp [PcInv]) (logs_cons hlg ?_)
    simp only [ResOK]; rw [h.len]; exact Nat.le_refl _
  case h_11 i heq =>
    exact Inv.local h t _ hlk (by simp [PcInv]) hlg
  case h_12 i n heq =>
    -- rRead
    rw [heq] at hpc; simp only [PcInv] at hpc
    split
    · rename_i hin
      obtain ⟨o, ho, hc⟩ := tbl_cell h (i := i.toNat) (by omega)
      rw [hc]; dsimp only
      refine Inv.local h t _ hlk (by simp [PcInv]) (logs_cons hlg ?_)
      simp only [ResOK, Cell.keyStr_full]
      refine ⟨by rw [h.len]; exact hpc, ?_⟩
      simp only [Spec.atSlot, hin.1, ↓reduceIte, List.getElem?_take, hin.2, ho]
      split <;> simp_all
    · rename_i hin
      refine Inv.local h t _ hlk (by simp [PcInv]) (logs_cons hlg ?_)
      simp only [ResOK]
      refine ⟨by rw [h.len]; exact hpc, ?_⟩
      simp only [Spec.atSlot]
      split
      · rename_i h0
        have : ¬ i.toNat < n := fun hh => hin ⟨h0, hh⟩
        simp [List.getElem?_take, this]
      · rfl
  case h_13 k heq =>
    -- kLoad
    split
    · rename_i hk
      refine Inv.local h t _ hlk (by simp [PcInv]) (logs_cons hlg ?_)
      simp only [ResOK]
      exact ⟨by rw [h.len]; exact Nat.le_refl _, by simp [Spec.lookup, hk]⟩
    · rename_i hk
      refine Inv.local h t _ hlk ?_ hlg
      simp only [PcInv]
      exact ⟨Nat.le_refl _, Nat.zero_le _, hk, by simp [Spec.lookup, hk]⟩
  case h_14 k n j heq =>
    -- kScan
    rw [heq] at hpc; simp only [PcInv] at hpc
    obtain ⟨hn, hj, hk, hs⟩ := hpc
    have hnl : n ≤ s.tbl.length := by rw [h.len]; exact hn
    split
    · rename_i hjn
      obtain ⟨o, ho, hc⟩ := tbl_cell h (i := j) (by omega)
      have hd : (s.tbl.take n).drop j = o :: (s.tbl.take n).drop (j + 1) :=
        drop_cons_of_getElem? (by rw [List.getElem?_take]; simp [hjn, ho])
      rw [hc]; dsimp only
      rw [hd] at hs
      by_cases he : (Cell.full o).keyStr = ""
      · rw [if_pos he]
        replace he : o.key = "" := he
        refine Inv.local h t _ hlk (by simp [PcInv]) (logs_cons hlg ?_)
        simp only [ResOK]
        refine ⟨hnl, ?_⟩
        rw [hs]; simp [Spec.scanKey, he]
      · rw [if_neg he]
        replace he : ¬ o.key = "" := he
        by_cases hke : keyEq (Cell.full o).keyStr k = true
        · rw [if_pos hke]
          replace hke : keyEq o.key k = true := hke
          refine Inv.local h t _ hlk (by simp [PcInv]) (logs_cons hlg ?_)
          simp only [ResOK]
          refine ⟨hnl, ?_⟩
          rw [hs]; simp [Spec.scanKey, he, hke]
        · rw [if_neg hke]
          replace hke : ¬ keyEq o.key k = true := hke
          refine Inv.local h t _ hlk ?_ hlg
          unfold PcInv
          refine ⟨hn, by omega, hk, ?_⟩
          rw [hs]; simp [Spec.scanKey, he, hke]
    · rename_i hjn
      refine Inv.local h t _ hlk (by simp [PcInv]) (logs_cons hlg ?_)
      simp only [ResOK]
      refine ⟨hnl, ?_⟩
      have : (s.tbl.take n).drop j = [] := by
        apply List.drop_eq_nil_of_le; simp only [List.length_take]; omega
      rw [hs, this]; simp [Spec.scanKey]
  case h_5 r cnt i b l heq =>
    -- wScan
    rw [heq] at hpc; unfold PcInv at hpc
    obtain ⟨hm, hc, hi, hw, hf⟩ := hpc
    subst hc
    split
    · rename_i hic
      obtain ⟨o, ho, hcell⟩ := tbl_cell h hic
      have hbl : (if l = blockSize then b + 1 else b) = i / blockSize ∧
          (if l = blockSize then 0 else l) = i % blockSize := by
        unfold Walk at hw; simp only [blockSize] at hw ⊢
        split <;> omega
      have hcell' : cellBL s.mem (if l = blockSize then b + 1 else b) (if l = blockSize then 0 else l)
          = some (Cell.full o) := by rw [hbl.1, hbl.2]; exact hcell
      rw [hcell']; dsimp only
      have hd : s.tbl.drop i = o :: s.tbl.drop (i + 1) := drop_cons_of_getElem? ho
      rw [hd] at hf
      by_cases hk : keyEq r.obj.key (Cell.full o).keyStr = true
      · rw [if_pos hk]
        replace hk : keyEq r.obj.key o.key = true := hk
        rw [Spec.findKey_cons_true hk] at hf
        by_cases he : eqv r.obj (Cell.full o).toObj = true
        · rw [if_pos he]
          replace he : eqv r.obj o = true := he
          refine Inv.update h t _ s.mem s.count s.mutex s.tbl _ (Or.inl ⟨rfl, rfl, rfl, rfl⟩)
            h.blocks h.nonempty h.cap h.len h.cells h.uniq hlk ?_ hlg ?_
          · unfold PcInv; exact ⟨hm, o, ho, hk, Or.inr he⟩
          · refine Spec.replay_snoc h.lin ?_
            simp [Spec.register, hf, he]
        · rw [if_neg he]
          replace he : eqv r.obj o = false := Bool.eq_false_iff.2 he
          refine Inv.update h t _ s.mem s.count s.mutex s.tbl _ (Or.inl ⟨rfl, rfl, rfl, rfl⟩)
            h.blocks h.nonempty h.cap h.len h.cells h.uniq hlk ?_ hlg ?_
          · unfold PcInv; exact ⟨hm, o, ho, hk, he⟩
          · refine Spec.replay_snoc h.lin ?_
            simp [Spec.register, hf, he]
      · rw [if_neg hk]
        replace hk : keyEq r.obj.key o.key = false := Bool.eq_false_iff.2 hk
        rw [Spec.findKey_cons_false hk] at hf
        refine Inv.local h t _ hlk ?_ hlg
        unfold PcInv
        refine ⟨hm, rfl, by omega, ?_, hf⟩
        unfold Walk at hw ⊢; simp only [blockSize] at hw hbl ⊢
        right
        split <;> omega
    · rename_i hic
      have hic' : i = s.count := by omega
      subst hic'
      refine Inv.local h t _ hlk ?_ hlg
      unfold PcInv
      refine ⟨hm, rfl, hw, ?_⟩
      rw [hf, List.drop_eq_nil_of_le (by rw [h.len]; exact Nat.le_refl _)]; rfl
  case h_6 r cnt b l heq =>
    -- wAlloc
    rw [heq] at hpc; unfold PcInv at hpc
    obtain ⟨hm, hc, hw, hf⟩ := hpc
    subst hc
    have hcap := h.cap
    have hne := h.nonempty
    by_cases hl : l = blockSize
    · rw [if_pos hl]
      have hfacts : 0 < s.count ∧ b + 1 ≤ s.mem.length ∧ blockSize * (b + 1) = s.count ∧
          s.count / blockSize = b + 1 ∧ s.count % blockSize = 0 := by
        unfold Walk at hw; simp only [blockSize] at hw hl hcap ⊢; omega
      obtain ⟨hpos, hble, hbc, hdiv, hmod⟩ := hfacts
      rw [if_neg (by omega)]
      have htl : (s.mem.take (b + 1)).length = b + 1 := by rw [List.length_take]; omega
      have hcells_take : ∀ (i : Nat) (o : Obj), s.tbl[i]? = some o →
          cellAt (s.mem.take (b + 1)) i = some (Cell.full o) := by
        intro i o ho
        have hi : i < s.count := by rw [← h.len]; exact lt_of_getElem?_some ho
        have : i / blockSize < b + 1 := by simp only [blockSize] at hbc ⊢; omega
        unfold cellAt; rw [cellBL_take this]; exact h.cells i o ho
      by_cases haf : r.allocFail = true
      · rw [if_pos haf]
        refine Inv.update h t _ _ s.count s.mutex s.tbl _
          (Or.inr ⟨Or.inr hm, Or.inr hm, [], (List.append_nil _).symm⟩)
          (h.blocks.take _) (by omega) (by rw [htl, hbc]; exact Nat.le_refl _) h.len hcells_take h.uniq hlk ?_ hlg ?_
        · unfold PcInv; exact ⟨hm, haf⟩
        · refine Spec.replay_snoc h.lin ?_
          simp [Spec.register, Spec.injOf, hf]
      · rw [if_neg haf]
        refine Inv.update h t _ _ s.count s.mutex s.tbl s.lin
          (Or.inr ⟨Or.inr hm, Or.inr hm, [], (List.append_nil _).symm⟩)
          (h.blocks.take _).snoc (by simp) ?_ h.len ?_ h.uniq hlk ?_ hlg h.lin
        · rw [List.length_append, htl]; simp only [blockSize] at hbc ⊢; simp only [List.length_cons, List.length_nil]; omega
        · intro i o ho
          have hi : i < s.count := by rw [← h.len]; exact lt_of_getElem?_some ho
          have : i / blockSize < (s.mem.take (b + 1)).length := by rw [htl]; simp only [blockSize] at hbc ⊢; omega
          unfold cellAt; rw [cellBL_append_left this]; exact hcells_take i o ho
        · unfold PcInv
          refine ⟨hm, rfl, hf, hdiv.symm, hmod.symm, by omega, Cell.empty, ?_, by omega, by omega⟩
          have := cellBL_snoc_new (mem := s.mem.take (b + 1)) (l := 0) (by simp [blockSize])
          rw [htl] at this; exact this
    · rw [if_neg hl]
      have hfacts : b = s.count / blockSize ∧ l = s.count % blockSize ∧ b < s.mem.length ∧ l < blockSize := by
        unfold Walk at hw; simp only [blockSize] at hw hl hcap ⊢; omega
      obtain ⟨hb, hl', hblt, hllt⟩ := hfacts
      obtain ⟨c, hc⟩ := cellBL_exists h.blocks hblt hllt
      refine Inv.local h t _ hlk ?_ hlg
      unfold PcInv
      exact ⟨hm, rfl, hf, hb, hl', by omega, c, hc, by omega, by omega⟩
  case h_7 r cnt b l j heq =>
    -- wCopy
    rw [heq] at hpc; unfold PcInv at hpc
    obtain ⟨hm, hc, hf, hb, hl, hj, c, hcell, hp1, hp2⟩ := hpc
    subst hc
    by_cases hcf : r.copyFail = some j
    · rw [if_pos hcf]
      refine Inv.update h t _ s.mem s.count s.mutex s.tbl _ (Or.inl ⟨rfl, rfl, rfl, rfl⟩)
        h.blocks h.nonempty h.cap h.len h.cells h.uniq hlk ?_ hlg ?_
      · unfold PcInv; exact ⟨hm, by simp [ResOK, hcf]⟩
      · refine Spec.replay_snoc h.lin ?_
        simp [Spec.register, Spec.injOf, hf]
    · rw [if_neg hcf]
      by_cases hj2 : j < nFields
      · rw [if_pos hj2, hcell]; dsimp only
        refine Inv.update h t _ _ s.count s.mutex s.tbl s.lin
          (Or.inr ⟨Or.inr hm, Or.inr hm, [], (List.append_nil _).symm⟩)
          (h.blocks.setBL _ _ _) (by unfold setBL; rw [List.length_modify]; exact h.nonempty)
          (by unfold setBL; rw [List.length_modify]; exact h.cap) h.len ?_ h.uniq hlk ?_ hlg h.lin
        · intro i o ho
          have hi : i < s.count := by rw [← h.len]; exact lt_of_getElem?_some ho
          unfold cellAt
          rw [cellBL_setBL_other (by subst hb hl; simp only [blockSize]; omega)]
          exact h.cells i o ho
        · unfold PcInv
          refine ⟨hm, rfl, hf, hb, hl, by omega, _, cellBL_setBL_same hcell, ?_, ?_⟩
          · intro _
            by_cases hj0 : j = 0
            · simp [Cell.writeField, hj0]
            · simp only [Cell.writeField, hj0, ↓reduceIte]; exact hp1 (by omega)
          · intro hj1
            have hj1' : j = 1 := by simp only [nFields] at hj2; omega
            simp [Cell.writeField, hj1']
      · rw [if_neg hj2]
        have hj' : j = 2 := by simp only [nFields] at hj2 hj; omega
        refine Inv.local h t _ hlk ?_ hlg
        unfold PcInv
        refine ⟨hm, rfl, hf, ?_⟩
        unfold cellAt; rw [← hb, ← hl, hcell]
        have e1 := hp1 (by omega)
        have e2 := hp2 (by omega)
        cases c; simp only at e1 e2; subst e1 e2; rfl
  case h_8 r cnt heq =>
    -- wPublish
    rw [heq] at hpc; unfold PcInv at hpc
    obtain ⟨hm, hc, hf, hcell⟩ := hpc
    subst hc
    have hnone := Spec.findKey_none hf
    have hlen := h.len
    refine Inv.update h t _ s.mem (s.count + 1) s.mutex (s.tbl ++ [r.obj]) _
      (Or.inr ⟨Or.inr hm, Or.inr hm, [r.obj], rfl⟩)
      h.blocks h.nonempty ?_ (by simp [hlen]) ?_ ?_ hlk ?_ (fun op res hmem => (hlg op res hmem).mono) ?_
    · have := cellAt_some_lt hcell
      simp only [blockSize] at this ⊢; omega
    · intro i o ho
      rw [List.getElem?_append] at ho
      split at ho
      · exact h.cells i o ho
      · rename_i hi
        have : i = s.count := by
          have := lt_of_getElem?_some ho
          simp only [List.length_cons, List.length_nil] at this; omega
        subst this
        rw [← hlen] at ho; simp at ho; subst ho; exact hcell
    · intro i j oi oj hoi hoj hk
      rw [List.getElem?_append] at hoi hoj
      split at hoi <;> split at hoj
      · exact h.uniq i j oi oj hoi hoj hk
      · have hj := lt_of_getElem?_some hoj
        simp only [List.length_cons, List.length_nil] at hj
        have : j - s.tbl.length = 0 := by omega
        rw [this] at hoj; simp at hoj; subst hoj
        have := hnone i oi hoi
        rw [keyEq_comm] at this; rw [this] at hk; cases hk
      · have hi := lt_of_getElem?_some hoi
        simp only [List.length_cons, List.length_nil] at hi
        have : i - s.tbl.length = 0 := by omega
        rw [this] at hoi; simp at hoi; subst hoi
        have := hnone j oj hoj
        rw [this] at hk; cases hk
      · have hi := lt_of_getElem?_some hoi
        have hj := lt_of_getElem?_some hoj
        simp only [List.length_cons, List.length_nil] at hi hj
        omega
    · unfold PcInv
      refine ⟨hm, r.obj, ?_, keyEq_refl _, Or.inl rfl⟩
      rw [← hlen]; simp
    · refine Spec.replay_snoc h.lin ?_
      simp [Spec.register, Spec.injOf, hf, hlen]
  case h_9 r res heq =>
    -- wUnlock
    rw [heq] at hpc; unfold PcInv at hpc
    obtain ⟨hm, hres⟩ := hpc
    have hd : 0 < (s.thr t).depth := hlk.2 hm
    refine Inv.update h t _ s.mem s.count _ s.tbl s.lin
      (Or.inr ⟨Or.inr hm, ?_, [], (List.append_nil _).symm⟩)
      h.blocks h.nonempty h.cap h.len h.cells h.uniq ?_ (by simp [PcInv]) (logs_cons hlg hres) h.lin
    · split
      · exact Or.inl rfl
      · exact Or.inr hm
    · simp only
      split
      · rename_i h1; simp [h1]
      · constructor
        · intro _; exact hm
        · intro _; omega

theorem inv_init (eqv : ObjEq) (progs : Nat → List Op) : Inv eqv (init progs) := by
  refine ⟨?_, by simp [init], by simp [init], rfl, ?_, ?_, ?_, ?_, ?_, rfl⟩
  · intro b blk hb
    simp only [init] at hb
    cases b with
    | zero => simp at hb; subst hb; exact emptyBlock_length
    | succ b => simp at hb
  · intro i o ho; simp [init] at ho
  · intro i j oi oj ho; simp [init] at ho
  · intro t; simp [init]
  · intro t; simp [init, PcInv]
  · intro t op res hm; simp [init] at hm

theorem reachable_inv {eqv : ObjEq} {s : Sys} (h : Reachable eqv s) : Inv eqv s := by
  induction h with
  | init progs => exact inv_init eqv progs
  | step t _ ih => exact inv_step ih t



/-- the abstract table and the counter only ever change by a `wPublish` step that appends one object -/
theorem step_tbl (eqv : ObjEq) (s : Sys) (t : Nat) :
    ((step eqv s t).tbl = s.tbl ∧ (step eqv s t).count = s.count) ∨
    (∃ r cnt, (s.thr t).pc = .wPublish r cnt ∧ (step eqv s t).tbl = s.tbl ++ [r.obj] ∧
      (step eqv s t).count = cnt + 1) := by
  unfold step dispatch
  dsimp only
  repeat' split
  all_goals first
    | exact Or.inl ⟨rfl, rfl⟩
    | (rename_i heq; exact Or.inr ⟨_, _, heq, rfl, rfl⟩)

def regsOf (done : List (Op × Res)) : List (RegOp × Res) :=
  done.filterMap (fun e => match e with | (.reg r, res) => some (r, res) | _ => none)

def pending : Pc → List (RegOp × Res)
  | .wUnlock r res => [(r, res)]
  | _ => []

def linOf (lin : List LinEv) (t : Nat) : List (RegOp × Res) :=
  (lin.filter (fun e => e.tid = t)).map (fun e => (e.op, e.res))

theorem linOf_snoc_self (lin : List LinEv) (t : Nat) (r : RegOp) (res : Res) :
    linOf (lin ++ [⟨t, r, res⟩]) t = linOf lin t ++ [(r, res)] := by
  simp [linOf, List.filter_append]
theorem linOf_snoc_other (lin : List LinEv) {t u : Nat} (h : u ≠ t) (r : RegOp) (res : Res) :
    linOf (lin ++ [⟨t, r, res⟩]) u = linOf lin u := by
  simp [linOf, List.filter_append, h.symm]

/-- bookkeeping invariant: the linearisation restricted to thread `t` is exactly the sequence of
    registration results of `t` (logged ones, then the one being returned) -/
def LinInv (s : Sys) : Prop :=
  ∀ t, linOf s.lin t = (regsOf (s.thr t).done).reverse ++ pending (s.thr t).pc

theorem linInv_step (eqv : ObjEq) {s : Sys} (h : LinInv s) (t : Nat) : LinInv (step eqv s t) := by
  intro u
  have hu := h u
  have ht := h t
  by_cases hut : u = t
  · subst hut
    unfold step dispatch
    dsimp only
    repeat' split
    all_goals (rename_i heq; try rw [heq] at hu)
    all_goals simp_all [setThr, pending, regsOf, linOf_snoc_self]
  · unfold step dispatch
    dsimp only
    repeat' split
    all_goals simp_all [setThr, linOf_snoc_other]

namespace Spec

/-- keys are pairwise different (case-insensitively) -/
def KeysUnique (T : List Obj) : Prop :=
  ∀ (i j : Nat) (oi oj : Obj), T[i]? = some oi → T[j]? = some oj → keyEq oi.key oj.key = true → i = j

theorem findKey_of_match {k : String} {T : List Obj} {i : Nat} {e : Obj} (hu : KeysUnique T)
    (hi : T[i]? = some e) (hk : keyEq k e.key = true) : findKey k T 0 = some (i, e) := by
  cases hf : findKey k T 0 with
  | none => have := findKey_none hf i e hi; rw [this] at hk; cases hk
  | some p =>
    obtain ⟨i', e'⟩ := p
    obtain ⟨_, h2, h3, _⟩ := findKey_some hf
    simp only [Nat.sub_zero] at h2
    have : i = i' := hu i i' e e' hi h2 (keyEq_trans (keyEq_symm hk) h3)
    subst this
    rw [hi] at h2; cases h2; rfl

theorem register_identical {eqv : ObjEq} {T : List Obj} {o e : Obj} {i : Nat} (inj : Option Res)
    (hu : KeysUnique T) (hi : T[i]? = some e) (hk : keyEq o.key e.key = true) (he : eqv o e = true) :
    register eqv T o inj = (T, .slot i) := by
  simp [register, findKey_of_match hu hi hk, he]

theorem register_conflict {eqv : ObjEq} {T : List Obj} {o e : Obj} {i : Nat} (inj : Option Res)
    (hu : KeysUnique T) (hi : T[i]? = some e) (hk : keyEq o.key e.key = true) (he : eqv o e = false) :
    register eqv T o inj = (T, .conflict i) := by
  simp [register, findKey_of_match hu hi hk, he]

theorem register_new {eqv : ObjEq} {T : List Obj} {o : Obj}
    (hn : ∀ (i : Nat) (e : Obj), T[i]? = some e → keyEq o.key e.key = false) :
    register eqv T o none = (T ++ [o], .slot T.length) := by
  simp [register, findKey_of_none_all hn]

theorem register_prefix (eqv : ObjEq) (T : List Obj) (o : Obj) (inj : Option Res) :
    ∃ x, (register eqv T o inj).1 = T ++ x := by
  unfold register
  split
  · split <;> exact ⟨[], by simp⟩
  · split
    · exact ⟨[], by simp⟩
    · exact ⟨[o], rfl⟩

theorem register_keysUnique {eqv : ObjEq} {T : List Obj} (o : Obj) (inj : Option Res) (hu : KeysUnique T) :
    KeysUnique (register eqv T o inj).1 := by
  unfold register
  split
  · split <;> exact hu
  · rename_i hf
    split
    · exact hu
    · have hnone := findKey_none hf
      intro i j oi oj hoi hoj hk
      rw [List.getElem?_append] at hoi hoj
      split at hoi <;> split at hoj
      · exact hu i j oi oj hoi hoj hk
      · have hj := lt_of_getElem?_some hoj
        simp only [List.length_cons, List.length_nil] at hj
        have : j - T.length = 0 := by omega
        rw [this] at hoj; simp at hoj; subst hoj
        have := hnone i oi hoi
        rw [keyEq_comm] at this; rw [this] at hk; cases hk
      · have hi := lt_of_getElem?_some hoi
        simp only [List.length_cons, List.length_nil] at hi
        have : i - T.length = 0 := by omega
        rw [this] at hoi; simp at hoi; subst hoi
        have := hnone j oj hoj
        rw [this] at hk; cases hk
      · have hi := lt_of_getElem?_some hoi
        have hj := lt_of_getElem?_some hoj
        simp only [List.length_cons, List.length_nil] at hi hj
        omega

theorem lookup_atSlot {T : List Obj} {k : String} {j : Nat} {o : Obj} (h : lookup T k = some (j, o)) :
    atSlot T (j : Int) = some o ∧ keyEq o.key k = true ∧ k ≠ "" := by
  unfold lookup at h
  split at h
  · cases h
  · rename_i hk
    obtain ⟨_, h2, h3, h4, _⟩ := scanKey_some h
    simp only [Nat.sub_zero] at h2
    refine ⟨?_, h3, hk⟩
    simp [atSlot, h2, h4]

theorem scanKey_of_first {k : String} : ∀ {T : List Obj} {i j : Nat} {o : Obj}, T[i]? = some o → o.key ≠ "" →
    keyEq o.key k = true →
    (∀ i', i' < i → ∀ (o' : Obj), T[i']? = some o' → o'.key ≠ "" ∧ keyEq o'.key k = false) →
    scanKey k T j = some (j + i, o)
  | [], _, _, _, h, _, _, _ => by simp at h
  | a :: as, 0, j, o, h, hne, hk, _ => by
    simp at h; subst h; simp [scanKey, hne, hk]
  | a :: as, i + 1, j, o, h, hne, hk, hb => by
    have h0 := hb 0 (by omega) a (by simp)
    unfold scanKey
    rw [if_neg h0.1, if_neg (by simp [h0.2])]
    rw [scanKey_of_first (T := as) (i := i) (j := j + 1) (by simpa using h) hne hk
      (fun i' hi' o' ho' => hb (i' + 1) (by omega) o' (by simpa using ho'))]
    congr 2; omega

theorem atSlot_lookup {T : List Obj} {j : Nat} {o : Obj} (hu : KeysUnique T)
    (hne : ∀ (i : Nat) (e : Obj), T[i]? = some e → e.key ≠ "") (h : T[j]? = some o) :
    lookup T o.key = some (j, o) ∧ atSlot T (j : Int) = some o := by
  have hk := hne j o h
  refine ⟨?_, by simp [atSlot, h, hk]⟩
  unfold lookup
  rw [if_neg hk]
  have := scanKey_of_first (k := o.key) (j := 0) h hk (keyEq_refl _) (by
    intro i' hi' o' ho'
    refine ⟨hne i' o' ho', ?_⟩
    cases hke : keyEq o'.key o.key with
    | false => rfl
    | true => have := hu i' j o' o ho' h hke; omega)
  simpa using this

end Spec

theorem linInv_init (progs : Nat → List Op) : LinInv (init progs) := by
  intro t; simp [init, linOf, regsOf, pending]

theorem reachable_linInv {eqv : ObjEq} {s : Sys} (h : Reachable eqv s) : LinInv s := by
  induction h with
  | init progs => exact linInv_init progs
  | step t _ ih => exact linInv_step eqv ih t

theorem reachable_run {eqv : ObjEq} {s : Sys} (h : Reachable eqv s) : ∀ sched, Reachable eqv (run eqv s sched)
  | [] => h
  | t :: ts => reachable_run (Reachable.step t h) ts


theorem Cell.full_inj {o o' : Obj} (h : Cell.full o = Cell.full o') : o = o' := by
  cases o; cases o'
  simp only [Cell.full, Cell.mk.injEq, Option.some.injEq] at h
  obtain ⟨rfl, rfl⟩ := h; rfl

theorem Spec.atSlot_some {T : List Obj} {i : Int} {o : Obj} (h : Spec.atSlot T i = some o) :
    0 ≤ i ∧ T[i.toNat]? = some o ∧ o.key ≠ "" := by
  unfold Spec.atSlot at h
  split at h
  · rename_i h0
    split at h
    · rename_i o' ho'
      split at h
      · cases h
      · rename_i hne
        cases h; exact ⟨h0, ho', hne⟩
    · cases h
  · cases h

theorem Spec.lookup_some {T : List Obj} {k : String} {j : Nat} {o : Obj} (h : Spec.lookup T k = some (j, o)) :
    k ≠ "" ∧ T[j]? = some o ∧ keyEq o.key k = true ∧ o.key ≠ "" := by
  unfold Spec.lookup at h
  split at h
  · cases h
  · rename_i hk
    obtain ⟨_, h2, h3, h4, _⟩ := Spec.scanKey_some h
    exact ⟨hk, by simpa using h2, h3, h4⟩

theorem getElem?_take_some {α} {l : List α} {n i : Nat} {a : α} (h : (l.take n)[i]? = some a) :
    i < n ∧ l[i]? = some a := by
  rw [List.getElem?_take] at h
  split at h
  · exact ⟨by assumption, h⟩
  · cases h

namespace Spec

theorem replay_keysUnique {eqv : ObjEq} : ∀ {es : List LinEv} {T0 T : List Obj},
    replay eqv es T0 = some T → KeysUnique T0 → KeysUnique T
  | [], T0, T, h, hu => by simp [replay] at h; subst h; exact hu
  | e :: es, T0, T, h, hu => by
    simp only [replay] at h
    split at h
    · exact replay_keysUnique h (register_keysUnique _ _ hu)
    · cases h

theorem replay_prefix {eqv : ObjEq} : ∀ {es : List LinEv} {T0 T : List Obj},
    replay eqv es T0 = some T → ∃ x, T = T0 ++ x
  | [], T0, T, h => by simp [replay] at h; subst h; exact ⟨[], by simp⟩
  | e :: es, T0, T, h => by
    simp only [replay] at h
    split at h
    · obtain ⟨x, hx⟩ := replay_prefix h
      obtain ⟨y, hy⟩ := register_prefix eqv T0 e.op.obj (injOf e.res)
      exact ⟨y ++ x, by rw [hx, hy, List.append_assoc]⟩
    · cases h

/-- every event of a valid linearisation is a `Spec.register` call on the table built by the events before it -/
theorem replay_split {eqv : ObjEq} {pre post : List LinEv} {e : LinEv} {Tend : List Obj}
    (h : replay eqv (pre ++ e :: post) [] = some Tend) :
    ∃ T, replay eqv pre [] = some T ∧ KeysUnique T ∧
      (register eqv T e.op.obj (injOf e.res)).2 = e.res ∧
      ∃ x, Tend = (register eqv T e.op.obj (injOf e.res)).1 ++ x := by
  rw [replay_append] at h
  cases hp : replay eqv pre [] with
  | none => rw [hp] at h; cases h
  | some T =>
    rw [hp] at h
    simp only [Option.bind_some, replay] at h
    split at h
    · rename_i hr
      refine ⟨T, rfl, replay_keysUnique hp (by intro i j oi oj hi; simp at hi), hr, replay_prefix h⟩
    · cases h
end Spec

end MjProof.GlobalTable
