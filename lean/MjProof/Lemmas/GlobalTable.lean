import MjProof.Model.GlobalTable
/-
C40 — lemmas: memory (block list) algebra, the sequential specification, the invariant of the
transition system and its preservation by every step of every thread.
-/
namespace MjProof.GlobalTable

/-! ### keys -/
theorem keyEq_iff {a b : String} : keyEq a b = true ↔ lower a = lower b := by simp [keyEq]
theorem keyEq_refl (a : String) : keyEq a a = true := by simp [keyEq]
theorem keyEq_symm {a b : String} (h : keyEq a b = true) : keyEq b a = true := by
  rw [keyEq_iff] at *; exact h.symm
theorem keyEq_trans {a b c : String} (h1 : keyEq a b = true) (h2 : keyEq b c = true) : keyEq a c = true := by
  rw [keyEq_iff] at *; exact h1.trans h2
theorem keyEq_comm (a b : String) : keyEq a b = keyEq b a := by
  cases h : keyEq a b
  · cases h' : keyEq b a
    · rfl
    · rw [keyEq_symm h'] at h; cases h
  · exact (keyEq_symm h).symm

@[simp] theorem Cell.keyStr_full (o : Obj) : (Cell.full o).keyStr = o.key := rfl
@[simp] theorem Cell.toObj_full (o : Obj) : (Cell.full o).toObj = o := rfl
@[simp] theorem Cell.complete_full (o : Obj) : (Cell.full o).complete = true := rfl

/-! ### memory -/
theorem cellBL_setBL_same {mem : Mem} {b l : Nat} {c0 c : Cell} (h : cellBL mem b l = some c0) :
    cellBL (setBL mem b l c) b l = some c := by
  unfold cellBL setBL at *
  cases hb : mem[b]? with
  | none => simp [hb] at h
  | some blk =>
    simp only [hb, Option.bind_some] at h
    have hl : l < blk.length := by
      rcases Nat.lt_or_ge l blk.length with h' | h'
      · exact h'
      · rw [List.getElem?_eq_none h'] at h; cases h
    simp [hb, hl]

theorem cellBL_setBL_other {mem : Mem} {b l b' l' : Nat} {c : Cell} (h : b' ≠ b ∨ l' ≠ l) :
    cellBL (setBL mem b l c) b' l' = cellBL mem b' l' := by
  unfold cellBL setBL
  by_cases hb : b = b'
  · subst hb
    have hl : l ≠ l' := by rcases h with h | h; exact absurd rfl h; exact fun e => h e.symm
    cases hm : mem[b]? with
    | none => simp [hm]
    | some blk => simp [hm, hl]
  · simp [hb]

theorem slot_inj {i j : Nat} (h : i / blockSize = j / blockSize ∧ i % blockSize = j % blockSize) : i = j := by
  simp only [blockSize] at h; omega

/-- all blocks have `blockSize` cells -/
abbrev BlocksOK (mem : Mem) : Prop := ∀ (b : Nat) (blk : List Cell), mem[b]? = some blk → blk.length = blockSize

theorem BlocksOK.setBL {mem : Mem} (h : BlocksOK mem) (b l : Nat) (c : Cell) : BlocksOK (setBL mem b l c) := by
  intro b' blk hb
  unfold GlobalTable.setBL at hb
  rw [List.getElem?_modify] at hb
  cases hm : mem[b']? with
  | none => simp [hm] at hb
  | some blk0 =>
    have := h b' blk0 hm
    rw [hm] at hb
    split at hb <;> (simp at hb; subst hb; simp [this])

theorem BlocksOK.take {mem : Mem} (h : BlocksOK mem) (n : Nat) : BlocksOK (mem.take n) := by
  intro b blk hb
  rw [List.getElem?_take] at hb
  split at hb
  · exact h b blk hb
  · cases hb

theorem emptyBlock_length : emptyBlock.length = blockSize := by simp [emptyBlock]

theorem BlocksOK.snoc {mem : Mem} (h : BlocksOK mem) : BlocksOK (mem ++ [emptyBlock]) := by
  intro b blk hb
  rw [List.getElem?_append] at hb
  split at hb
  · exact h b blk hb
  · rcases Nat.eq_zero_or_pos (b - mem.length) with h0 | h0
    · rw [h0] at hb; simp at hb; subst hb; exact emptyBlock_length
    · rw [List.getElem?_eq_none (by simp; omega)] at hb; cases hb

theorem cellBL_exists {mem : Mem} (h : BlocksOK mem) {b l : Nat} (hb : b < mem.length) (hl : l < blockSize) :
    ∃ c, cellBL mem b l = some c := by
  unfold cellBL
  have : mem[b]? = some mem[b] := List.getElem?_eq_getElem hb
  rw [this]
  have hlen := h b _ this
  exact ⟨(mem[b])[l]'(by omega), by simp⟩

theorem cellBL_take {mem : Mem} {n b l : Nat} (h : b < n) : cellBL (mem.take n) b l = cellBL mem b l := by
  unfold cellBL; rw [List.getElem?_take]; simp [h]

theorem cellBL_append_left {mem : Mem} {x : Mem} {b l : Nat} (h : b < mem.length) :
    cellBL (mem ++ x) b l = cellBL mem b l := by
  unfold cellBL; rw [List.getElem?_append_left h]

theorem cellBL_snoc_new {mem : Mem} {l : Nat} (hl : l < blockSize) :
    cellBL (mem ++ [emptyBlock]) mem.length l = some Cell.empty := by
  unfold cellBL
  rw [List.getElem?_append_right (Nat.le_refl _)]
  simp [emptyBlock, hl]

/-! ### sequential specification -/
namespace Spec

theorem findKey_none {k : String} : ∀ {T : List Obj} {j : Nat}, findKey k T j = none →
    ∀ (i : Nat) (o : Obj), T[i]? = some o → keyEq k o.key = false
  | [], _, _, i, o, h => by simp at h
  | e :: es, j, hf, i, o, h => by
    unfold findKey at hf
    split at hf
    · cases hf
    · cases i with
      | zero => simp at h; subst h; exact Bool.eq_false_iff.2 (by assumption)
      | succ i => exact findKey_none hf i o (by simpa using h)

theorem findKey_some {k : String} : ∀ {T : List Obj} {j i : Nat} {e : Obj}, findKey k T j = some (i, e) →
    j ≤ i ∧ T[i - j]? = some e ∧ keyEq k e.key = true ∧ ∀ i', i' < i - j → ∀ (o : Obj), T[i']? = some o → keyEq k o.key = false
  | [], _, _, _, h => by simp [findKey] at h
  | o :: os, j, i, e, h => by
    unfold findKey at h
    split at h
    · rename_i hk
      simp only [Option.some.injEq, Prod.mk.injEq] at h
      obtain ⟨rfl, rfl⟩ := h
      refine ⟨Nat.le_refl _, by simp, hk, ?_⟩
      intro i' hi'; omega
    · rename_i hk
      obtain ⟨h1, h2, h3, h4⟩ := findKey_some h
      have : i - j = (i - (j + 1)) + 1 := by omega
      refine ⟨by omega, by rw [this]; simpa using h2, h3, ?_⟩
      intro i' hi' o' ho'
      cases i' with
      | zero => simp at ho'; subst ho'; simpa using hk
      | succ i' => exact h4 i' (by omega) o' (by simpa using ho')

theorem findKey_of_none_all {k : String} : ∀ {T : List Obj} {j : Nat},
    (∀ (i : Nat) (o : Obj), T[i]? = some o → keyEq k o.key = false) → findKey k T j = none
  | [], _, _ => rfl
  | o :: os, j, h => by
    unfold findKey
    have h0 := h 0 o (by simp)
    simp only [h0, Bool.false_eq_true, ↓reduceIte]
    exact findKey_of_none_all (fun i o' ho' => h (i + 1) o' (by simpa using ho'))

theorem findKey_cons_false {k : String} {o : Obj} {os : List Obj} {j : Nat} (h : keyEq k o.key = false) :
    findKey k (o :: os) j = findKey k os (j + 1) := by simp [findKey, h]
theorem findKey_cons_true {k : String} {o : Obj} {os : List Obj} {j : Nat} (h : keyEq k o.key = true) :
    findKey k (o :: os) j = some (j, o) := by simp [findKey, h]

/-- the scan invariant: having skipped `i` non-matching entries -/
theorem findKey_drop {k : String} : ∀ {T : List Obj} {j i : Nat},
    (∀ i', i' < i → ∀ (o : Obj), T[i']? = some o → keyEq k o.key = false) → findKey k T j = findKey k (T.drop i) (j + i)
  | T, j, 0, _ => by simp
  | [], j, i + 1, _ => by simp [findKey]
  | o :: os, j, i + 1, h => by
    have h0 := h 0 (by omega) o (by simp)
    rw [findKey_cons_false h0, List.drop_succ_cons]
    rw [findKey_drop (T := os) (j := j + 1) (i := i)
      (fun i' hi' o' ho' => h (i' + 1) (by omega) o' (by simpa using ho'))]
    have e : j + 1 + i = j + (i + 1) := by omega
    rw [e]

theorem scanKey_some {k : String} : ∀ {T : List Obj} {j i : Nat} {e : Obj}, scanKey k T j = some (i, e) →
    j ≤ i ∧ T[i - j]? = some e ∧ keyEq e.key k = true ∧ e.key ≠ "" ∧
      ∀ i', i' < i - j → ∀ (o : Obj), T[i']? = some o → o.key ≠ "" ∧ keyEq o.key k = false
  | [], _, _, _, h => by simp [scanKey] at h
  | o :: os, j, i, e, h => by
    unfold scanKey at h
    split at h
    · cases h
    · rename_i hne
      split at h
      · rename_i hk
        simp only [Option.some.injEq, Prod.mk.injEq] at h
        obtain ⟨rfl, rfl⟩ := h
        refine ⟨Nat.le_refl _, by simp, hk, hne, ?_⟩
        intro i' hi'; omega
      · rename_i hk
        obtain ⟨h1, h2, h3, h4, h5⟩ := scanKey_some h
        have : i - j = (i - (j + 1)) + 1 := by omega
        refine ⟨by omega, by rw [this]; simpa using h2, h3, h4, ?_⟩
        intro i' hi' o' ho'
        cases i' with
        | zero => simp at ho'; subst ho'; exact ⟨hne, by simpa using hk⟩
        | succ i' => exact h5 i' (by omega) o' (by simpa using ho')

end Spec

/-! ### the invariant -/

/-- relation between the scan index `i` and the code's `(block, local_idx)` after `i` iterations -/
def Walk (i b l : Nat) : Prop :=
  (i = 0 ∧ b = 0 ∧ l = 0) ∨ (0 < i ∧ b = (i - 1) / blockSize ∧ l = (i - 1) % blockSize + 1)

/-- what a logged result means, in terms of the (append-only) abstract table -/
def ResOK (eqv : ObjEq) (tbl : List Obj) : Op → Res → Prop
  | .reg r, .slot i => ∃ e, tbl[i]? = some e ∧ keyEq r.obj.key e.key = true ∧ (e = r.obj ∨ eqv r.obj e = true)
  | .reg r, .conflict i => ∃ e, tbl[i]? = some e ∧ keyEq r.obj.key e.key = true ∧ eqv r.obj e = false
  | .reg r, .allocFailed => r.allocFail = true
  | .reg r, .copyFailed => r.copyFail.isSome = true
  | .count, .count n => n ≤ tbl.length
  | .getSlot i, .atSlot n c => n ≤ tbl.length ∧ c = (Spec.atSlot (tbl.take n) i).map Cell.full
  | .getKey k, .byKey n r =>
      n ≤ tbl.length ∧ r = (Spec.lookup (tbl.take n) k).map (fun p => (p.1, Cell.full p.2))
  | .lockExt, .unit => True
  | .unlockExt, .unit => True
  | _, _ => False

def PcInv (eqv : ObjEq) (mutex : Option Nat) (mem : Mem) (count : Nat) (tbl : List Obj) (t : Nat) : Pc → Prop
  | .idle => True
  | .wLock _ => True
  | .cLoad => True
  | .rLoad _ => True
  | .kLoad _ => True
  | .fault => False
  | .wLoad _ => mutex = some t
  | .wScan r cnt i b l => mutex = some t ∧ cnt = count ∧ i ≤ cnt ∧ Walk i b l ∧
      Spec.findKey r.obj.key tbl 0 = Spec.findKey r.obj.key (tbl.drop i) i
  | .wAlloc r cnt b l => mutex = some t ∧ cnt = count ∧ Walk cnt b l ∧ Spec.findKey r.obj.key tbl 0 = none
  | .wCopy r cnt b l j => mutex = some t ∧ cnt = count ∧ Spec.findKey r.obj.key tbl 0 = none ∧
      b = cnt / blockSize ∧ l = cnt % blockSize ∧ j ≤ nFields ∧
      ∃ c, cellBL mem b l = some c ∧ (1 ≤ j → c.payload = some r.obj.payload) ∧ (2 ≤ j → c.key = some r.obj.key)
  | .wPublish r cnt => mutex = some t ∧ cnt = count ∧ Spec.findKey r.obj.key tbl 0 = none ∧
      cellAt mem cnt = some (Cell.full r.obj)
  | .wUnlock r res => mutex = some t ∧ ResOK eqv tbl (.reg r) res
  | .rRead _ n => n ≤ count
  | .kScan k n j => n ≤ count ∧ j ≤ n ∧ k ≠ "" ∧
      Spec.lookup (tbl.take n) k = Spec.scanKey k ((tbl.take n).drop j) j

structure Inv (eqv : ObjEq) (s : Sys) : Prop where
  blocks : BlocksOK s.mem
  nonempty : 0 < s.mem.length
  cap : s.count ≤ blockSize * s.mem.length
  len : s.tbl.length = s.count
  cells : ∀ (i : Nat) (o : Obj), s.tbl[i]? = some o → cellAt s.mem i = some (Cell.full o)
  uniq : ∀ (i j : Nat) (oi oj : Obj), s.tbl[i]? = some oi → s.tbl[j]? = some oj →
    keyEq oi.key oj.key = true → i = j
  lockD : ∀ t, 0 < (s.thr t).depth ↔ s.mutex = some t
  pcs : ∀ t, PcInv eqv s.mutex s.mem s.count s.tbl t (s.thr t).pc
  logs : ∀ t op res, (op, res) ∈ (s.thr t).done → ResOK eqv s.tbl op res
  lin : Spec.replay eqv s.lin [] = some s.tbl

theorem getElem?_append_of_some {α} {l x : List α} {i : Nat} {a : α} (h : l[i]? = some a) :
    (l ++ x)[i]? = some a := by
  have hi : i < l.length := by
    rcases Nat.lt_or_ge i l.length with h' | h'
    · exact h'
    · rw [List.getElem?_eq_none h'] at h; cases h
  rw [List.getElem?_append_left hi]; exact h

theorem take_append_le {α} {l x : List α} {n : Nat} (h : n ≤ l.length) : (l ++ x).take n = l.take n := by
  rw [List.take_append_of_le_length h]

theorem ResOK.mono {eqv : ObjEq} {tbl x : List Obj} {op : Op} {res : Res} (h : ResOK eqv tbl op res) :
    ResOK eqv (tbl ++ x) op res := by
  cases op <;> cases res <;> simp only [ResOK] at h ⊢
  · obtain ⟨e, h1, h2, h3⟩ := h; exact ⟨e, getElem?_append_of_some h1, h2, h3⟩
  · obtain ⟨e, h1, h2, h3⟩ := h; exact ⟨e, getElem?_append_of_some h1, h2, h3⟩
  · exact h
  · exact h
  · simp only [List.length_append]; omega
  · obtain ⟨h1, h2⟩ := h
    refine ⟨by simp only [List.length_append]; omega, ?_⟩
    rw [take_append_le h1]; exact h2
  · obtain ⟨h1, h2⟩ := h
    refine ⟨by simp only [List.length_append]; omega, ?_⟩
    rw [take_append_le h1]; exact h2

theorem PcInv.frame {eqv : ObjEq} {mutex mutex' : Option Nat} {mem mem' : Mem} {count count' : Nat}
    {tbl x : List Obj} {t : Nat} {pc : Pc}
    (h : PcInv eqv mutex mem count tbl t pc) (hm : mutex ≠ some t) (hc : count ≤ count')
    (hl : tbl.length = count) : PcInv eqv mutex' mem' count' (tbl ++ x) t pc := by
  cases pc <;> simp only [PcInv] at h ⊢
  case wLoad => exact absurd h hm
  case wScan => exact absurd h.1 hm
  case wAlloc => exact absurd h.1 hm
  case wCopy => exact absurd h.1 hm
  case wPublish => exact absurd h.1 hm
  case wUnlock => exact absurd h.1 hm
  case rRead => omega
  case kScan =>
    obtain ⟨h1, h2, h3, h4⟩ := h
    refine ⟨by omega, h2, h3, ?_⟩
    rw [take_append_le (by omega)]; exact h4

/-- generic re-establishment of the invariant after a step of thread `t` -/
theorem Inv.update {eqv : ObjEq} {s : Sys} (h : Inv eqv s) (t : Nat) (th' : Thread)
    (mem' : Mem) (count' : Nat) (mutex' : Option Nat) (tbl' : List Obj) (lin' : List LinEv)
    (hfr : (mem' = s.mem ∧ count' = s.count ∧ mutex' = s.mutex ∧ tbl' = s.tbl) ∨
           ((s.mutex = none ∨ s.mutex = some t) ∧ (mutex' = none ∨ mutex' = some t) ∧ ∃ x, tbl' = s.tbl ++ x))
    (hb : BlocksOK mem') (hne : 0 < mem'.length) (hcap : count' ≤ blockSize * mem'.length)
    (hlen : tbl'.length = count')
    (hcells : ∀ (i : Nat) (o : Obj), tbl'[i]? = some o → cellAt mem' i = some (Cell.full o))
    (huniq : ∀ (i j : Nat) (oi oj : Obj), tbl'[i]? = some oi → tbl'[j]? = some oj →
      keyEq oi.key oj.key = true → i = j)
    (hlock : 0 < th'.depth ↔ mutex' = some t)
    (hpc : PcInv eqv mutex' mem' count' tbl' t th'.pc)
    (hlog : ∀ op res, (op, res) ∈ th'.done → ResOK eqv tbl' op res)
    (hlin : Spec.replay eqv lin' [] = some tbl') :
    Inv eqv { mem := mem', count := count', mutex := mutex', thr := setThr s.thr t th', tbl := tbl', lin := lin' } := by
  refine ⟨hb, hne, hcap, hlen, hcells, huniq, ?_, ?_, ?_, hlin⟩
  · intro u
    by_cases hu : u = t
    · subst hu; simpa [setThr] using hlock
    · simp only [setThr, hu, ↓reduceIte]
      rw [h.lockD u]
      rcases hfr with ⟨_, _, e, _⟩ | ⟨h1, h2, _⟩
      · rw [e]
      · constructor
        · intro e; rcases h1 with h1 | h1 <;> rw [h1] at e <;> simp at e; exact absurd e.symm hu
        · intro e; rcases h2 with h2 | h2 <;> rw [h2] at e <;> simp at e; exact absurd e.symm hu
  · intro u
    by_cases hu : u = t
    · subst hu; simpa [setThr] using hpc
    · simp only [setThr, hu, ↓reduceIte]
      have hp := h.pcs u
      rcases hfr with ⟨e1, e2, e3, e4⟩ | ⟨h1, h2, x, e⟩
      · rw [e1, e2, e3, e4]; exact hp
      · rw [e]
        refine PcInv.frame hp ?_ ?_ h.len
        · intro e'; rcases h1 with h1 | h1 <;> rw [h1] at e' <;> simp at e'; exact hu e'.symm
        · have := h.len; rw [e, List.length_append] at hlen; omega
  · intro u op res hmem
    by_cases hu : u = t
    · subst hu; simp only [setThr, ↓reduceIte] at hmem; exact hlog op res hmem
    · simp only [setThr, hu, ↓reduceIte] at hmem
      have := h.logs u op res hmem
      rcases hfr with ⟨_, _, _, e4⟩ | ⟨_, _, x, e⟩
      · rw [e4]; exact this
      · rw [e]; exact this.mono

/-- a step that touches only the thread-local state of `t` -/
theorem Inv.local {eqv : ObjEq} {s : Sys} (h : Inv eqv s) (t : Nat) (th' : Thread)
    (hlock : 0 < th'.depth ↔ s.mutex = some t)
    (hpc : PcInv eqv s.mutex s.mem s.count s.tbl t th'.pc)
    (hlog : ∀ op res, (op, res) ∈ th'.done → ResOK eqv s.tbl op res) :
    Inv eqv { s with thr := setThr s.thr t th' } :=
  Inv.update h t th' s.mem s.count s.mutex s.tbl s.lin (Or.inl ⟨rfl, rfl, rfl, rfl⟩)
    h.blocks h.nonempty h.cap h.len h.cells h.uniq hlock hpc hlog h.lin

theorem drop_cons_of_getElem? {α} : ∀ {l : List α} {j : Nat} {o : α}, l[j]? = some o → l.drop j = o :: l.drop (j + 1)
  | [], _, _, h => by simp at h
  | a :: as, 0, o, h => by simp at h; simp [h]
  | a :: as, j + 1, o, h => by
    simp only [List.getElem?_cons_succ] at h
    simpa using drop_cons_of_getElem? h

theorem getElem?_of_lt {α} {l : List α} {i : Nat} (h : i < l.length) : ∃ a, l[i]? = some a :=
  ⟨l[i], List.getElem?_eq_getElem h⟩

theorem lt_of_getElem?_some {α} {l : List α} {i : Nat} {a : α} (h : l[i]? = some a) : i < l.length := by
  rcases Nat.lt_or_ge i l.length with h' | h'
  · exact h'
  · rw [List.getElem?_eq_none h'] at h; cases h

theorem cellAt_some_lt {mem : Mem} {i : Nat} {c : Cell} (h : cellAt mem i = some c) : i / blockSize < mem.length := by
  unfold cellAt cellBL at h
  cases hb : mem[i / blockSize]? with
  | none => simp [hb] at h
  | some blk => exact lt_of_getElem?_some hb

namespace Spec
theorem replay_append (eqv : ObjEq) : ∀ (es es' : List LinEv) (T : List Obj),
    replay eqv (es ++ es') T = (replay eqv es T).bind (replay eqv es')
  | [], es', T => by simp [replay]
  | e :: es, es', T => by
    simp only [List.cons_append, replay]
    split
    · exact replay_append eqv es es' _
    · rfl

theorem replay_snoc {eqv : ObjEq} {es : List LinEv} {T T' : List Obj} {e : LinEv}
    (h : replay eqv es [] = some T)
    (hr : register eqv T e.op.obj (injOf e.res) = (T', e.res)) :
    replay eqv (es ++ [e]) [] = some T' := by
  rw [replay_append, h]
  simp only [Option.bind_some, replay]
  rw [hr]; simp
end Spec

end MjProof.GlobalTable
