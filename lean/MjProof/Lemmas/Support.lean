import MjProof.Model.Support
import MjProof.Lemmas.RealNum
import Mathlib.Analysis.Real.Sqrt
import Mathlib.Tactic.Ring
import Mathlib.Tactic.Linarith
import Mathlib.Tactic.Positivity
import Mathlib.Tactic.FieldSimp
import Mathlib.Tactic.LinearCombination
import Mathlib.Tactic.NormNum
/-
C15 helper lemmas, part 1: the model of `MjProof/Model/Support.lean` at `α = ℝ`.

* the operations of `MjNum ℝ` are the field operations (`real_ops`), vectors / dot products / norms,
  Cauchy–Schwarz and the triangle inequality in coordinates;
* rotations (`IsRot`: `matᵀ·mat = I` and `mat·matᵀ = I` written out), the change of frame lemmas;
* the specification vocabulary of the property: `SizeOK`, `WF`, `InGeom`, `degSlack`.
-/
set_option linter.unusedVariables false
set_option linter.unusedSimpArgs false
namespace MjProof.SupportLemmas
open MjProof MjProof.Support

/-! ### the operations of `MjNum ℝ` are the field operations of `ℝ` -/
theorem r_mul (a b : ℝ) : @HMul.hMul ℝ ℝ ℝ (@instHMul ℝ (MjNum.toMul)) a b = a * b := rfl
theorem r_add (a b : ℝ) : @HAdd.hAdd ℝ ℝ ℝ (@instHAdd ℝ (MjNum.toAdd)) a b = a + b := rfl
theorem r_sub (a b : ℝ) : @HSub.hSub ℝ ℝ ℝ (@instHSub ℝ (MjNum.toSub)) a b = a - b := rfl
theorem r_div (a b : ℝ) : @HDiv.hDiv ℝ ℝ ℝ (@instHDiv ℝ (MjNum.toDiv)) a b = a / b := rfl
theorem r_neg (a : ℝ) : @Neg.neg ℝ (MjNum.toNeg) a = -a := rfl
theorem r_lt (a b : ℝ) : @LT.lt ℝ (MjNum.toLT) a b ↔ a < b := Iff.rfl
theorem r_le (a b : ℝ) : @LE.le ℝ (MjNum.toLE) a b ↔ a ≤ b := Iff.rfl
theorem zero_real : (zero : ℝ) = 0 := by simp [zero]
theorem one_real : (one : ℝ) = 1 := by simp [one]
theorem minval_real : (minval : ℝ) = 1 / 10 ^ 15 := by simp [minval]; norm_num
theorem minval_pos : (0 : ℝ) < minval := by rw [minval_real]; positivity
theorem minval2_real : (minval2 : ℝ) = minval * minval := rfl
theorem fltMax_pos : (0 : ℝ) < fltMax := by simp [fltMax]

/-- rewrite the generic operations at `ℝ` into the standard ones -/
macro "real_ops" : tactic =>
  `(tactic| simp only [r_mul, r_add, r_sub, r_div, r_neg, r_lt, r_le, zero_real, one_real, real_sqrt, real_abs,
      minval2_real, decide_eq_true_eq, Bool.and_eq_true])
macro "real_ops_at" h:ident : tactic =>
  `(tactic| simp only [r_mul, r_add, r_sub, r_div, r_neg, r_lt, r_le, zero_real, one_real, real_sqrt, real_abs,
      minval2_real, decide_eq_true_eq, Bool.and_eq_true] at $h:ident)

/-! ### vectors -/
theorem V3.ext' {a b : V3 ℝ} (hx : a.x = b.x) (hy : a.y = b.y) (hz : a.z = b.z) : a = b := by
  cases a; cases b; simp_all

@[simp] theorem add_x (a b : V3 ℝ) : (V3.add a b).x = a.x + b.x := rfl
@[simp] theorem add_y (a b : V3 ℝ) : (V3.add a b).y = a.y + b.y := rfl
@[simp] theorem add_z (a b : V3 ℝ) : (V3.add a b).z = a.z + b.z := rfl
@[simp] theorem sub_x (a b : V3 ℝ) : (V3.sub a b).x = a.x - b.x := rfl
@[simp] theorem sub_y (a b : V3 ℝ) : (V3.sub a b).y = a.y - b.y := rfl
@[simp] theorem sub_z (a b : V3 ℝ) : (V3.sub a b).z = a.z - b.z := rfl
@[simp] theorem neg_x (a : V3 ℝ) : (V3.neg a).x = -a.x := rfl
@[simp] theorem neg_y (a : V3 ℝ) : (V3.neg a).y = -a.y := rfl
@[simp] theorem neg_z (a : V3 ℝ) : (V3.neg a).z = -a.z := rfl
@[simp] theorem scale_x (s : ℝ) (a : V3 ℝ) : (V3.scale s a).x = s * a.x := rfl
@[simp] theorem scale_y (s : ℝ) (a : V3 ℝ) : (V3.scale s a).y = s * a.y := rfl
@[simp] theorem scale_z (s : ℝ) (a : V3 ℝ) : (V3.scale s a).z = s * a.z := rfl
@[simp] theorem divs_x (a : V3 ℝ) (s : ℝ) : (V3.divs a s).x = a.x / s := rfl
@[simp] theorem divs_y (a : V3 ℝ) (s : ℝ) : (V3.divs a s).y = a.y / s := rfl
@[simp] theorem divs_z (a : V3 ℝ) (s : ℝ) : (V3.divs a s).z = a.z / s := rfl
theorem dot_real (a b : V3 ℝ) : V3.dot a b = a.x * b.x + a.y * b.y + a.z * b.z := rfl
theorem norm_real (a : V3 ℝ) : V3.norm a = Real.sqrt (V3.dot a a) := rfl

theorem mulT_x (m : M3 ℝ) (d : V3 ℝ) : (mulMatTVec3 m d).x = m.m0 * d.x + m.m3 * d.y + m.m6 * d.z := rfl
theorem mulT_y (m : M3 ℝ) (d : V3 ℝ) : (mulMatTVec3 m d).y = m.m1 * d.x + m.m4 * d.y + m.m7 * d.z := rfl
theorem mulT_z (m : M3 ℝ) (d : V3 ℝ) : (mulMatTVec3 m d).z = m.m2 * d.x + m.m5 * d.y + m.m8 * d.z := rfl
theorem l2g_x (m : M3 ℝ) (d p : V3 ℝ) : (localToGlobal m d p).x = m.m0 * d.x + m.m1 * d.y + m.m2 * d.z + p.x := rfl
theorem l2g_y (m : M3 ℝ) (d p : V3 ℝ) : (localToGlobal m d p).y = m.m3 * d.x + m.m4 * d.y + m.m5 * d.z + p.y := rfl
theorem l2g_z (m : M3 ℝ) (d p : V3 ℝ) : (localToGlobal m d p).z = m.m6 * d.x + m.m7 * d.y + m.m8 * d.z + p.z := rfl

theorem dot_self_nonneg (a : V3 ℝ) : 0 ≤ V3.dot a a := by
  rw [dot_real]; nlinarith [mul_self_nonneg a.x, mul_self_nonneg a.y, mul_self_nonneg a.z]

theorem dot_comm (a b : V3 ℝ) : V3.dot a b = V3.dot b a := by simp only [dot_real]; ring
theorem dot_neg_left (a b : V3 ℝ) : V3.dot (V3.neg a) b = -V3.dot a b := by
  simp only [dot_real, neg_x, neg_y, neg_z]; ring
theorem dot_neg_right (a b : V3 ℝ) : V3.dot a (V3.neg b) = -V3.dot a b := by
  simp only [dot_real, neg_x, neg_y, neg_z]; ring
theorem dot_sub_right (a b c : V3 ℝ) : V3.dot a (V3.sub b c) = V3.dot a b - V3.dot a c := by
  simp only [dot_real, sub_x, sub_y, sub_z]; ring
theorem dot_add_right (a b c : V3 ℝ) : V3.dot a (V3.add b c) = V3.dot a b + V3.dot a c := by
  simp only [dot_real, add_x, add_y, add_z]; ring
theorem dot_scale_right (a b : V3 ℝ) (s : ℝ) : V3.dot a (V3.scale s b) = s * V3.dot a b := by
  simp only [dot_real, scale_x, scale_y, scale_z]; ring
theorem dot_neg_neg (a : V3 ℝ) : V3.dot (V3.neg a) (V3.neg a) = V3.dot a a := by
  rw [dot_neg_left, dot_neg_right]; ring

/-- Cauchy–Schwarz (Lagrange identity) -/
theorem cs3 (a b : V3 ℝ) : (V3.dot a b) ^ 2 ≤ V3.dot a a * V3.dot b b := by
  simp only [dot_real]
  nlinarith [sq_nonneg (a.x * b.y - a.y * b.x), sq_nonneg (a.x * b.z - a.z * b.x), sq_nonneg (a.y * b.z - a.z * b.y)]

theorem norm_nonneg (a : V3 ℝ) : 0 ≤ V3.norm a := by rw [norm_real]; exact Real.sqrt_nonneg _
theorem norm_sq (a : V3 ℝ) : V3.norm a * V3.norm a = V3.dot a a := by
  rw [norm_real]; exact Real.mul_self_sqrt (dot_self_nonneg a)

theorem dot_le_norm_mul (a b : V3 ℝ) : V3.dot a b ≤ V3.norm a * V3.norm b := by
  have h := cs3 a b
  have h2 : |V3.dot a b| ≤ Real.sqrt (V3.dot a a * V3.dot b b) := Real.abs_le_sqrt h
  rw [Real.sqrt_mul (dot_self_nonneg a)] at h2
  exact le_trans (le_abs_self _) h2

/-- `a·b ≤ ‖a‖ c` when `‖b‖² ≤ c²` -/
theorem dot_le_norm_mul_of_sq (a b : V3 ℝ) (c : ℝ) (hc : 0 ≤ c) (hb : V3.dot b b ≤ c * c) :
    V3.dot a b ≤ V3.norm a * c := by
  have h1 := dot_le_norm_mul a b
  have h2 : V3.norm b ≤ c := by
    rw [norm_real]; exact (Real.sqrt_le_left hc).2 (by rw [sq]; exact hb)
  exact le_trans h1 (mul_le_mul_of_nonneg_left h2 (norm_nonneg a))

theorem norm_of_unit {a : V3 ℝ} (h : V3.dot a a = 1) : V3.norm a = 1 := by
  rw [norm_real, h, Real.sqrt_one]

theorem norm_neg (a : V3 ℝ) : V3.norm (V3.neg a) = V3.norm a := by
  rw [norm_real, norm_real, dot_neg_neg]

theorem norm_sub_comm (a b : V3 ℝ) : V3.norm (V3.sub a b) = V3.norm (V3.sub b a) := by
  rw [norm_real, norm_real]; congr 1; simp only [dot_real, sub_x, sub_y, sub_z]; ring

theorem norm_add_le (a b : V3 ℝ) : V3.norm (V3.add a b) ≤ V3.norm a + V3.norm b := by
  have hab := dot_le_norm_mul a b
  have hs : 0 ≤ V3.norm a + V3.norm b := add_nonneg (norm_nonneg a) (norm_nonneg b)
  rw [norm_real (V3.add a b)]
  apply (Real.sqrt_le_left hs).2
  have e : V3.dot (V3.add a b) (V3.add a b) = V3.dot a a + 2 * V3.dot a b + V3.dot b b := by
    simp only [dot_real, add_x, add_y, add_z]; ring
  rw [e, ← norm_sq a, ← norm_sq b]; nlinarith

/-- triangle inequality in the form used for the witness points -/
theorem norm_sub_le (a b c : V3 ℝ) : V3.norm (V3.sub a c) ≤ V3.norm (V3.sub a b) + V3.norm (V3.sub b c) := by
  have : V3.sub a c = V3.add (V3.sub a b) (V3.sub b c) := by
    apply V3.ext' <;> simp
  rw [this]; exact norm_add_le _ _

theorem norm_scale (s : ℝ) (a : V3 ℝ) : V3.norm (V3.scale s a) = |s| * V3.norm a := by
  rw [norm_real, norm_real]
  have e : V3.dot (V3.scale s a) (V3.scale s a) = (s * s) * V3.dot a a := by
    simp only [dot_real, scale_x, scale_y, scale_z]; ring
  rw [e, Real.sqrt_mul (mul_self_nonneg s), Real.sqrt_mul_self_eq_abs]

/-- the normalised vector is a unit vector -/
theorem dot_divs_norm {w : V3 ℝ} (hw : 0 < V3.norm w) :
    V3.dot (V3.divs w (V3.norm w)) (V3.divs w (V3.norm w)) = 1 := by
  have hn := norm_sq w
  simp only [dot_real, divs_x, divs_y, divs_z] at hn ⊢
  field_simp
  nlinarith

theorem divs_norm_smul {w : V3 ℝ} (hw : 0 < V3.norm w) : V3.scale (V3.norm w) (V3.divs w (V3.norm w)) = w := by
  apply V3.ext' <;> simp <;> field_simp

/-! ### rotations -/
/-- `mat` is orthogonal: columns (`matᵀ·mat = I`) and rows (`mat·matᵀ = I`) are orthonormal -/
structure IsRot (m : M3 ℝ) : Prop where
  c00 : m.m0 * m.m0 + m.m3 * m.m3 + m.m6 * m.m6 = 1
  c11 : m.m1 * m.m1 + m.m4 * m.m4 + m.m7 * m.m7 = 1
  c22 : m.m2 * m.m2 + m.m5 * m.m5 + m.m8 * m.m8 = 1
  c01 : m.m0 * m.m1 + m.m3 * m.m4 + m.m6 * m.m7 = 0
  c02 : m.m0 * m.m2 + m.m3 * m.m5 + m.m6 * m.m8 = 0
  c12 : m.m1 * m.m2 + m.m4 * m.m5 + m.m7 * m.m8 = 0
  r00 : m.m0 * m.m0 + m.m1 * m.m1 + m.m2 * m.m2 = 1
  r11 : m.m3 * m.m3 + m.m4 * m.m4 + m.m5 * m.m5 = 1
  r22 : m.m6 * m.m6 + m.m7 * m.m7 + m.m8 * m.m8 = 1
  r01 : m.m0 * m.m3 + m.m1 * m.m4 + m.m2 * m.m5 = 0
  r02 : m.m0 * m.m6 + m.m1 * m.m7 + m.m2 * m.m8 = 0
  r12 : m.m3 * m.m6 + m.m4 * m.m7 + m.m5 * m.m8 = 0

/-- the identity matrix -/
def idM : M3 ℝ := ⟨1, 0, 0, 0, 1, 0, 0, 0, 1⟩
theorem isRot_id : IsRot idM := by constructor <;> simp [idM]

/-- `matᵀ` preserves dot products (rows orthonormal) -/
theorem dot_mulT {m : M3 ℝ} (h : IsRot m) (a b : V3 ℝ) :
    V3.dot (mulMatTVec3 m a) (mulMatTVec3 m b) = V3.dot a b := by
  simp only [dot_real, mulT_x, mulT_y, mulT_z]
  linear_combination (a.x * b.x) * h.r00 + (a.y * b.y) * h.r11 + (a.z * b.z) * h.r22
    + (a.x * b.y + a.y * b.x) * h.r01 + (a.x * b.z + a.z * b.x) * h.r02 + (a.y * b.z + a.z * b.y) * h.r12

/-- local → global → local is the identity (columns orthonormal) -/
theorem mulT_l2g {m : M3 ℝ} (h : IsRot m) (s p : V3 ℝ) :
    mulMatTVec3 m (V3.sub (localToGlobal m s p) p) = s := by
  apply V3.ext'
  · simp only [mulT_x, sub_x, sub_y, sub_z, l2g_x, l2g_y, l2g_z]
    linear_combination s.x * h.c00 + s.y * h.c01 + s.z * h.c02
  · simp only [mulT_y, sub_x, sub_y, sub_z, l2g_x, l2g_y, l2g_z]
    linear_combination s.x * h.c01 + s.y * h.c11 + s.z * h.c12
  · simp only [mulT_z, sub_x, sub_y, sub_z, l2g_x, l2g_y, l2g_z]
    linear_combination s.x * h.c02 + s.y * h.c12 + s.z * h.c22

/-- `⟨d, mat·s + p⟩ = ⟨matᵀ d, s⟩ + ⟨d, p⟩` -/
theorem dot_l2g (m : M3 ℝ) (d s p : V3 ℝ) :
    V3.dot d (localToGlobal m s p) = V3.dot (mulMatTVec3 m d) s + V3.dot d p := by
  simp only [dot_real, mulT_x, mulT_y, mulT_z, l2g_x, l2g_y, l2g_z]; ring

/-- `⟨d, y⟩ = ⟨matᵀ d, matᵀ (y − p)⟩ + ⟨d, p⟩` -/
theorem dot_eq_local {m : M3 ℝ} (h : IsRot m) (d y p : V3 ℝ) :
    V3.dot d y = V3.dot (mulMatTVec3 m d) (mulMatTVec3 m (V3.sub y p)) + V3.dot d p := by
  rw [dot_mulT h, dot_sub_right]; ring

/-! ### specification vocabulary -/

/-- the size parameters the shape uses are admissible (`mjMINVAL ≤` each semi-axis of an ellipsoid: the compiler
    rejects smaller sizes; with it the "too small to normalize" branch of `mjc_ellipsoidSupport` is unreachable for
    unit directions) -/
def SizeOK (k : Kind) (s : V3 ℝ) : Prop :=
  match k with
  | .sphere => 0 ≤ s.x
  | .capsule => 0 ≤ s.x ∧ 0 ≤ s.y
  | .ellipsoid => minval ≤ s.x ∧ minval ≤ s.y ∧ minval ≤ s.z
  | .cylinder => 0 ≤ s.x ∧ 0 ≤ s.y
  | .box => 0 ≤ s.x ∧ 0 ≤ s.y ∧ 0 ≤ s.z
  | .point => True
  | .line => 0 ≤ s.y

/-- well-formed geom: orthogonal frame and admissible sizes -/
structure WF (g : Geom ℝ) : Prop where
  rot : IsRot g.mat
  size : SizeOK g.kind g.size

/-- `x ∈ g` -/
def InGeom (g : Geom ℝ) (x : V3 ℝ) : Prop := mem g x = true

/-- what `support` can lose against the true maximum: only `mjc_cylinderSupport` in its `n2 < mjMINVAL2` branch
    (direction within 1e-15 of the axis), where the radial part `≤ radius · mjMINVAL` is dropped -/
noncomputable def degSlack (g : Geom ℝ) (d : V3 ℝ) : ℝ :=
  match g.kind with
  | .cylinder =>
    let ld := mulMatTVec3 g.mat d
    if ld.x * ld.x + ld.y * ld.y < minval * minval then g.size.x * minval else 0
  | _ => 0

theorem degSlack_nonneg (g : Geom ℝ) (h : WF g) (d : V3 ℝ) : 0 ≤ degSlack g d := by
  unfold degSlack
  split
  · rename_i hk
    have hs := h.size; rw [hk] at hs
    dsimp only
    split
    · exact mul_nonneg hs.1 minval_pos.le
    · exact le_refl _
  · exact le_refl _

end MjProof.SupportLemmas
