import MjProof.Model.Sort
/-
Helper lemmas for C22 (core Lean only).  Property theorems live in `MjProof/Props/C22.lean`.
-/
namespace MjProof.Sort
open List

variable {α : Type}

/-- The comparator is a total preorder in the C convention (`cmp a b ≤ 0` means "a before-or-equal b"). -/
structure TotalPreorder (cmp : α → α → Int) : Prop where
  total : ∀ a b, cmp a b ≤ 0 ∨ cmp b a ≤ 0
  trans : ∀ a b c, cmp a b ≤ 0 → cmp b c ≤ 0 → cmp a c ≤ 0

/-- `le` relation induced by the comparator. -/
def Le (cmp : α → α → Int) (a b : α) : Prop := cmp a b ≤ 0
/-- reversed relation, used on the reversed prefix of insertion sort. -/
def Ge (cmp : α → α → Int) (a b : α) : Prop := cmp b a ≤ 0

/-- `out` is a stable sorting of `l`: a sorted permutation in which every sorted subsequence of the
    input survives as a subsequence (the formulation core Lean uses for `mergeSort` stability). -/
def StableSorted (cmp : α → α → Int) (l out : List α) : Prop :=
  out ~ l ∧ out.Pairwise (Le cmp) ∧ ∀ c, c <+ l → c.Pairwise (Le cmp) → c <+ out

/-! ### insertion -/

theorem insRev_perm (cmp : α → α → Int) (x : α) : ∀ r, insRev cmp x r ~ x :: r
  | [] => by simp [insRev]
  | y :: r => by
    unfold insRev
    split
    · exact ((insRev_perm cmp x r).cons y).trans (Perm.swap x y r)
    · exact Perm.refl _

theorem sublist_insRev (cmp : α → α → Int) (x : α) : ∀ r, r <+ insRev cmp x r
  | [] => by simp [insRev]
  | y :: r => by
    unfold insRev
    split
    · exact (sublist_insRev cmp x r).cons_cons y
    · exact sublist_cons_self x _

theorem insRev_sorted {cmp : α → α → Int} (h : TotalPreorder cmp) (x : α) :
    ∀ r, r.Pairwise (Ge cmp) → (insRev cmp x r).Pairwise (Ge cmp)
  | [], _ => by simp [insRev]
  | y :: r, hr => by
    unfold insRev
    have hy : ∀ {z}, z ∈ r → Ge cmp y z := fun hz => rel_of_pairwise_cons hr hz
    split
    · rename_i hgt
      refine Pairwise.cons ?_ (insRev_sorted h x r hr.tail)
      intro z hz
      rcases (insRev_perm cmp x r).mem_iff.mp hz |> mem_cons.mp with rfl | hz
      · have := h.total y z
        unfold Ge; omega
      · exact hy hz
    · rename_i hle
      refine Pairwise.cons ?_ hr
      intro z hz
      rcases mem_cons.mp hz with rfl | hz
      · unfold Ge; omega
      · exact h.trans _ _ _ (hy hz) (by omega)

theorem insRev_stable (cmp : α → α → Int) (x : α) :
    ∀ r c, c <+ x :: r → c.Pairwise (Ge cmp) → c <+ insRev cmp x r
  | [], c, hc, _ => by simpa [insRev] using hc
  | y :: r, c, hc, hp => by
    unfold insRev
    split
    · rename_i hgt
      cases hc with
      | cons _ hc' => exact hc'.trans ((sublist_insRev cmp x r).cons_cons y)
      | cons_cons _ hc' =>
        rename_i c'
        -- c = x :: c', c' <+ y :: r, everything in c' is ≤ x, so y ∉ c'
        cases hc' with
        | cons _ hc'' =>
          exact (insRev_stable cmp x r _ (hc''.cons_cons x) hp).cons y
        | cons_cons _ hc'' =>
          have : Ge cmp x y := rel_of_pairwise_cons hp mem_cons_self
          unfold Ge at this; omega
    · exact hc

/-- the fold of `insertionSort` with an arbitrary accumulator -/
def insFold (cmp : α → α → Int) (l acc : List α) : List α := l.foldl (fun r x => insRev cmp x r) acc

theorem insFold_perm (cmp : α → α → Int) : ∀ l acc, insFold cmp l acc ~ l.reverse ++ acc
  | [], acc => by simp [insFold]
  | x :: t, acc => by
    have := insFold_perm cmp t (insRev cmp x acc)
    simp only [insFold, foldl_cons] at this ⊢
    refine this.trans ?_
    simp only [reverse_cons, append_assoc, singleton_append]
    exact (insRev_perm cmp x acc).append_left _

theorem insFold_sorted {cmp : α → α → Int} (h : TotalPreorder cmp) :
    ∀ l acc, acc.Pairwise (Ge cmp) → (insFold cmp l acc).Pairwise (Ge cmp)
  | [], acc, ha => by simpa [insFold] using ha
  | x :: t, acc, ha => by
    have := insFold_sorted h t (insRev cmp x acc) (insRev_sorted h x acc ha)
    simpa [insFold] using this

theorem insFold_stable (cmp : α → α → Int) :
    ∀ l acc c, c <+ l.reverse ++ acc → c.Pairwise (Ge cmp) → c <+ insFold cmp l acc
  | [], acc, c, hc, _ => by simpa [insFold] using hc
  | x :: t, acc, c, hc, hp => by
    have ih := insFold_stable cmp t (insRev cmp x acc) c
    simp only [insFold, foldl_cons] at ih ⊢
    apply ih _ hp
    simp only [reverse_cons, append_assoc, singleton_append] at hc
    obtain ⟨c1, c2, rfl, h1, h2⟩ := sublist_append_iff.mp hc
    have hp2 : c2.Pairwise (Ge cmp) := (pairwise_append.mp hp).2.1
    exact h1.append (insRev_stable cmp x acc c2 h2 hp2)

theorem insertionSort_stableSorted {cmp : α → α → Int} (h : TotalPreorder cmp) (l : List α) :
    StableSorted cmp l (insertionSort cmp l) := by
  have e : insertionSort cmp l = (insFold cmp l []).reverse := rfl
  refine ⟨?_, ?_, ?_⟩
  · rw [e]
    exact (reverse_perm _).trans ((insFold_perm cmp l []).trans (by simp))
  · rw [e, pairwise_reverse]
    exact insFold_sorted h l [] Pairwise.nil
  · intro c hc hp
    rw [e]
    have := insFold_stable cmp l [] c.reverse (by simpa using hc.reverse) (by
      rw [pairwise_reverse]; exact hp)
    simpa using this.reverse

/-! ### merge -/

theorem merge_sublist {cmp : α → α → Int} (h : TotalPreorder cmp) :
    ∀ (a b c1 c2 : List α), a.Pairwise (Le cmp) → c1 <+ a → c2 <+ b →
      (∀ x ∈ c1, ∀ y ∈ c2, Le cmp x y) → c1 ++ c2 <+ merge cmp a b
  | [], b, c1, c2, _, h1, h2, _ => by
    have : c1 = [] := by simpa using h1
    subst this; simpa [merge] using h2
  | x :: a, [], c1, c2, _, h1, h2, _ => by
    have : c2 = [] := by simpa using h2
    subst this; simpa [merge] using h1
  | x :: a, y :: b, c1, c2, ha, h1, h2, h12 => by
    unfold merge
    rw [List.merge]
    split
    · rename_i hxy
      cases h1 with
      | cons _ h1' =>
        exact (merge_sublist h a (y :: b) c1 c2 ha.tail h1' h2 h12).cons x
      | cons_cons _ h1' =>
        rename_i c1'
        exact (merge_sublist h a (y :: b) c1' c2 ha.tail h1' h2
          (fun p hp q hq => h12 p (mem_cons_of_mem _ hp) q hq)).cons_cons x
    · rename_i hxy
      have hxy' : ¬ cmp x y ≤ 0 := by simpa using hxy
      cases h2 with
      | cons _ h2' =>
        exact (merge_sublist h (x :: a) b c1 c2 ha h1 h2' h12).cons y
      | cons_cons _ h2' =>
        rename_i c2'
        -- some element of c1 would force `x ≤ y`; hence c1 = []
        have hc1 : c1 = [] := by
          cases c1 with
          | nil => rfl
          | cons z c1' =>
            exfalso
            have hz : z ∈ x :: a := h1.subset mem_cons_self
            have hzy : Le cmp z y := h12 z mem_cons_self y mem_cons_self
            rcases mem_cons.mp hz with rfl | hz
            · exact hxy' hzy
            · exact hxy' (h.trans _ _ _ (rel_of_pairwise_cons ha hz) hzy)
        subst hc1
        have := merge_sublist h (x :: a) b [] c2' ha (nil_sublist _) h2' (by simp)
        simpa [merge] using this.cons_cons y

theorem merge_perm (cmp : α → α → Int) (a b : List α) : merge cmp a b ~ a ++ b :=
  merge_perm_append _

theorem merge_sorted {cmp : α → α → Int} (h : TotalPreorder cmp) (a b : List α)
    (ha : a.Pairwise (Le cmp)) (hb : b.Pairwise (Le cmp)) : (merge cmp a b).Pairwise (Le cmp) := by
  have := pairwise_merge (le := fun x y => decide (cmp x y ≤ 0))
    (fun a b c hab hbc => by
      simp only [decide_eq_true_eq] at *
      exact h.trans a b c hab hbc)
    (fun a b => by
      simp only [Bool.or_eq_true, decide_eq_true_eq]
      exact h.total a b) a b
    (ha.imp (by intro a b hab; simpa [Le] using hab))
    (hb.imp (by intro a b hab; simpa [Le] using hab))
  exact this.imp (by intro a b hab; simpa [Le] using hab)

/-! ### runs and passes -/

theorem runs_flatten : ∀ l : List α, (runs l).flatten = l := by
  intro l
  induction l using runs.induct with
  | case1 => simp [runs]
  | case2 l hne ih =>
    rw [runs]
    simp only [hne, ↓reduceDIte, flatten_cons, ih, take_append_drop]

/-- Invariant of the pass loop relative to the array `l` it started from. -/
def RunsInv (cmp : α → α → Int) (l : List α) (rs : List (List α)) : Prop :=
  (∀ r ∈ rs, r.Pairwise (Le cmp)) ∧ rs.flatten ~ l ∧
    ∀ c, c <+ l → c.Pairwise (Le cmp) → c <+ rs.flatten

theorem mergePairs_sorted {cmp : α → α → Int} (h : TotalPreorder cmp) :
    ∀ rs : List (List α), (∀ r ∈ rs, r.Pairwise (Le cmp)) →
      ∀ r ∈ mergePairs cmp rs, r.Pairwise (Le cmp)
  | [], _ => by simp [mergePairs]
  | [a], hs => by simpa [mergePairs] using hs
  | a :: b :: t, hs => by
    intro r hr
    simp only [mergePairs, mem_cons] at hr
    rcases hr with rfl | hr
    · exact merge_sorted h a b (hs a (by simp)) (hs b (by simp))
    · exact mergePairs_sorted h t (fun r hr => hs r (by simp [hr])) r hr

theorem mergePairs_perm (cmp : α → α → Int) :
    ∀ rs : List (List α), (mergePairs cmp rs).flatten ~ rs.flatten
  | [] => by simp [mergePairs]
  | [a] => by simp [mergePairs]
  | a :: b :: t => by
    simp only [mergePairs, flatten_cons, ← append_assoc]
    exact (merge_perm cmp a b).append (mergePairs_perm cmp t)

theorem mergePairs_stable {cmp : α → α → Int} (h : TotalPreorder cmp) :
    ∀ rs : List (List α), (∀ r ∈ rs, r.Pairwise (Le cmp)) →
      ∀ c, c <+ rs.flatten → c.Pairwise (Le cmp) → c <+ (mergePairs cmp rs).flatten
  | [], _, c, hc, _ => by simpa [mergePairs] using hc
  | [a], _, c, hc, _ => by simpa [mergePairs] using hc
  | a :: b :: t, hs, c, hc, hp => by
    simp only [mergePairs, flatten_cons, ← append_assoc] at hc ⊢
    obtain ⟨cab, ct, rfl, hab, ht⟩ := sublist_append_iff.mp hc
    obtain ⟨c1, c2, rfl, h1, h2⟩ := sublist_append_iff.mp hab
    have hpab := (pairwise_append.mp hp).1
    have hpt := (pairwise_append.mp hp).2.1
    have h12 := (pairwise_append.mp hpab).2.2
    exact (merge_sublist h a b c1 c2 (hs a (by simp)) h1 h2 h12).append
      (mergePairs_stable h t (fun r hr => hs r (by simp [hr])) ct ht hpt)

theorem mergePairs_inv {cmp : α → α → Int} (h : TotalPreorder cmp) (l : List α) (rs : List (List α))
    (hi : RunsInv cmp l rs) : RunsInv cmp l (mergePairs cmp rs) :=
  ⟨mergePairs_sorted h rs hi.1, (mergePairs_perm cmp rs).trans hi.2.1,
    fun c hc hp => mergePairs_stable h rs hi.1 c (hi.2.2 c hc hp) hp⟩

theorem mergePasses_inv {cmp : α → α → Int} (h : TotalPreorder cmp) (l : List α) :
    ∀ rs : List (List α), RunsInv cmp l rs →
      RunsInv cmp l (mergePasses cmp rs) ∧ (mergePasses cmp rs).length ≤ 1 := by
  intro rs
  induction rs using mergePasses.induct cmp with
  | case1 rs hlen ih =>
    intro hi
    rw [mergePasses]; simp only [hlen, ↓reduceDIte]
    exact ih (mergePairs_inv h l rs hi)
  | case2 rs hlen =>
    intro hi
    rw [mergePasses]; simp only [hlen, ↓reduceDIte]
    exact ⟨hi, by omega⟩

theorem map_insertionSort_inv {cmp : α → α → Int} (h : TotalPreorder cmp) :
    ∀ rs : List (List α), RunsInv cmp rs.flatten (rs.map (insertionSort cmp))
  | [] => ⟨by simp, by simp, by intro c hc _; simpa using hc⟩
  | r :: rs => by
    obtain ⟨s1, s2, s3⟩ := map_insertionSort_inv h rs
    obtain ⟨p1, p2, p3⟩ := insertionSort_stableSorted h r
    refine ⟨?_, ?_, ?_⟩
    · intro q hq
      simp only [map_cons, mem_cons] at hq
      rcases hq with rfl | hq
      · exact p2
      · exact s1 q hq
    · simpa using p1.append s2
    · intro c hc hp
      simp only [flatten_cons, map_cons] at hc ⊢
      obtain ⟨c1, c2, rfl, h1, h2⟩ := sublist_append_iff.mp hc
      exact (p3 c1 h1 (pairwise_append.mp hp).1).append (s3 c2 h2 (pairwise_append.mp hp).2.1)

end MjProof.Sort
