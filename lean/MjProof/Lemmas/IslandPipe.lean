import MjProof.Lemmas.Island
import MjProof.Lemmas.IslandMaps
/-
Lemmas for C17 (pipeline part): the merge schedule issued by `unionConstraintTrees` as a plain list of
merges, validity of that schedule for well-formed constraint rows, and the assembly of `island`.
-/
namespace MjProof.Island

/-! ### the merge schedule of `unionConstraintTrees` -/

theorem runMerges_nil (p : Array Int) : runMerges p [] = some p := rfl

theorem runMerges_cons (p : Array Int) (m : Int × Int) (ms : List (Int × Int)) :
    runMerges p (m :: ms) = (mergeStep p m).bind (fun q => runMerges q ms) := by
  unfold runMerges
  rw [List.foldlM_cons]
  rfl

theorem runMerges_append (p : Array Int) (a b : List (Int × Int)) :
    runMerges p (a ++ b) = (runMerges p a).bind (fun q => runMerges q b) := by
  unfold runMerges
  rw [List.foldlM_append]
  rfl

def chainPairs : Int → List Int → List (Int × Int)
  | _, [] => []
  | t1, t2 :: rest => (t1, t2) :: chainPairs t2 rest

theorem chainMerge_eq (p : Array Int) (t : Int) (ts : List Int) :
    chainMerge p t ts = runMerges p (chainPairs t ts) := by
  induction ts generalizing p t with
  | nil => rfl
  | cons t2 rest ih =>
    rw [chainMerge, chainPairs, runMerges_cons, mergeStep]
    cases h : dsuMerge p t t2 <;> simp [ih]

/-- merges issued for one constraint whose incident trees are `ts` -/
def rowPairs : List Int → List (Int × Int)
  | [] => []
  | [t1] => [(t1, -1)]
  | t1 :: t2 :: rest => chainPairs t1 (t2 :: rest)

/-- `efc_tree[i]`: the first non-negative of the first two trees -/
def rowTree : List Int → Int
  | [] => -2
  | [t1] => t1
  | t1 :: t2 :: _ => if 0 ≤ t1 then t1 else t2

theorem unionRow_eq (p : Array Int) (ts : List Int) (h1 : ts ≠ []) (h2 : 0 ≤ rowTree ts) :
    unionRow p ts = (runMerges p (rowPairs ts)).map (fun p' => (p', rowTree ts)) := by
  match ts, h1 with
  | [t1], _ =>
    simp only [rowTree] at h2
    have : ¬ t1 < 0 := by omega
    simp only [unionRow, this, ↓reduceIte, rowPairs, rowTree]
    rw [runMerges_cons, mergeStep]
    cases h : dsuMerge p t1 (-1) <;> simp [runMerges_nil]
  | t1 :: t2 :: rest, _ =>
    simp only [rowTree] at h2
    have : ¬ (if 0 ≤ t1 then t1 else t2) < 0 := by omega
    simp only [unionRow, this, ↓reduceIte, rowPairs, rowTree, chainMerge_eq]
    cases h : runMerges p (chainPairs t1 (t2 :: rest)) <;> simp

def rowsPairs : List (Option (List Int)) → List (Int × Int)
  | [] => []
  | some ts :: rest => rowPairs ts ++ rowsPairs rest
  | none :: rest => rowsPairs rest

/-- for every scalar row, the tree list of the constraint it belongs to (`last` = current constraint) -/
def owners : List Int → List (Option (List Int)) → List (List Int)
  | _, [] => []
  | _, some ts :: rest => ts :: owners ts rest
  | last, none :: rest => last :: owners last rest

/-- rows are well-formed: every constraint has a tree list with a usable `efc_tree`, and a continuation
    row (`none`) never comes first -/
inductive RowsShape : Bool → List (Option (List Int)) → Prop
  | nil {b : Bool} : RowsShape b []
  | row {b : Bool} {ts : List Int} {rest : List (Option (List Int))} :
      ts ≠ [] → 0 ≤ rowTree ts → RowsShape true rest → RowsShape b (some ts :: rest)
  | same {rest : List (Option (List Int))} : RowsShape true rest → RowsShape true (none :: rest)

theorem rowsFold_eq (rows : List (Option (List Int))) (p : Array Int) (acc : Array Int) (last : List Int)
    (b : Bool) (hlast : b = true → acc.back? = some (rowTree last))
    (hs : RowsShape b rows) :
    rows.foldlM unionRowsStep (p, acc) =
      (runMerges p (rowsPairs rows)).map
        (fun p' => (p', (acc.toList ++ (owners last rows).map rowTree).toArray)) := by
  induction rows generalizing p acc last b with
  | nil => simp [rowsPairs, owners, runMerges_nil]
  | cons r rest ih =>
    cases r with
    | some ts =>
      cases hs with
      | row h1 h2 h3 =>
        rw [List.foldlM_cons, unionRowsStep]
        simp only [unionRow_eq p ts h1 h2, rowsPairs, runMerges_append, owners]
        cases hr : runMerges p (rowPairs ts) with
        | none => simp
        | some p1 =>
          simp only [Option.map_some, Option.bind_some]
          have hb : (acc.push (rowTree ts)).back? = some (rowTree ts) := by simp
          have := ih p1 (acc.push (rowTree ts)) ts true (fun _ => hb) h3
          simp only [Option.bind_eq_bind, Option.bind_some] at this ⊢
          rw [this]
          simp
    | none =>
      cases hs with
      | same h3 =>
        have hb := hlast rfl
        rw [List.foldlM_cons, unionRowsStep]
        simp only [hb, rowsPairs, owners]
        have hb' : (acc.push (rowTree last)).back? = some (rowTree last) := by simp
        have := ih p (acc.push (rowTree last)) last true (fun _ => hb') h3
        simp only [Option.bind_eq_bind, Option.bind_some] at this ⊢
        rw [this]
        simp

def flexPairs : Int → List (Int × Bool) → List (Int × Int)
  | _, [] => []
  | t1, (t2, awake) :: rest =>
    if t2 < 0 ∨ t2 = t1 ∨ !awake then flexPairs t1 rest
    else if t1 < 0 then flexPairs t2 rest
    else (t1, t2) :: flexPairs t1 rest

theorem flexStar_eq (p : Array Int) (t : Int) (f : List (Int × Bool)) :
    flexStar p t f = runMerges p (flexPairs t f) := by
  induction f generalizing p t with
  | nil => rfl
  | cons x rest ih =>
    obtain ⟨t2, awake⟩ := x
    rw [flexStar, flexPairs]
    split
    · exact ih p t
    · split
      · exact ih p t2
      · rw [runMerges_cons, mergeStep]
        cases h : dsuMerge p t t2 <;> simp [ih]

def flexesPairs : List (List (Int × Bool)) → List (Int × Int)
  | [] => []
  | f :: rest => flexPairs (-1) f ++ flexesPairs rest

theorem flexFold_eq (flexes : List (List (Int × Bool))) (p : Array Int) :
    flexes.foldlM (fun p f => flexStar p (-1) f) p = runMerges p (flexesPairs flexes) := by
  induction flexes generalizing p with
  | nil => rfl
  | cons f rest ih =>
    rw [List.foldlM_cons, flexesPairs, runMerges_append, flexStar_eq]
    cases runMerges p (flexPairs (-1) f) <;> simp [ih]

/-- all merges of one `unionConstraintTrees` call, in order -/
def schedule (rows : List (Option (List Int))) (flexes : List (List (Int × Bool))) : List (Int × Int) :=
  rowsPairs rows ++ flexesPairs flexes

theorem unionConstraintTrees_eq (ntree : Nat) (rows : List (Option (List Int))) (flexes : List (List (Int × Bool)))
    (hs : RowsShape false rows) :
    unionConstraintTrees ntree rows flexes =
      (runMerges (initParent ntree) (schedule rows flexes)).map
        (fun p => (p, ((owners [] rows).map rowTree).toArray)) := by
  unfold unionConstraintTrees schedule
  rw [rowsFold_eq rows (initParent ntree) #[] [] false (by simp) hs, runMerges_append]
  cases runMerges (initParent ntree) (rowsPairs rows) with
  | none => simp
  | some p =>
    simp only [Option.map_some, Option.bind_some, List.nil_append]
    rw [flexFold_eq]
    cases runMerges p (flexesPairs flexes) <;> simp


/-! ### validity of the schedule for well-formed rows -/

/-- Tree lists that `treeNext` can produce for one constraint on `n` trees: one dynamic tree; two trees of
    which at most one is static (special-cased contact / connect / weld); or the dynamic trees found by the
    Jacobian scan. -/
def RowOk (n : Nat) (ts : List Int) : Prop :=
  (∀ t ∈ ts, -1 ≤ t ∧ t < (n : Int)) ∧
  ((∃ t, ts = [t] ∧ 0 ≤ t) ∨ (∃ a b, ts = [a, b] ∧ ¬ (a = -1 ∧ b = -1)) ∨
   (2 ≤ ts.length ∧ ∀ t ∈ ts, 0 ≤ t))

theorem edgeOf_nonneg {a b : Int} (ha : 0 ≤ a) (hb : 0 ≤ b) : edgeOf (a, b) = (a.toNat, b.toNat) := by
  unfold edgeOf
  have h1 : ¬ a = -1 := by omega
  have h2 : ¬ b = -1 := by omega
  simp [h1, h2]

theorem chain_ok {n : Nat} (hd : Int) (ts : List Int) (h : ∀ t ∈ hd :: ts, 0 ≤ t ∧ t < (n : Int)) :
    ∀ m ∈ chainPairs hd ts, MergeOk n m := by
  induction ts generalizing hd with
  | nil => intro m hm; simp [chainPairs] at hm
  | cons t2 rest ih =>
    intro m hm
    simp only [chainPairs, List.mem_cons] at hm
    rcases hm with rfl | hm
    · have h1 := h hd (by simp)
      have h2 := h t2 (by simp)
      refine ⟨by simp; omega, by simp; omega, by simp; omega, by simp; omega, by simp; omega⟩
    · exact ih t2 (fun t ht => h t (List.mem_cons_of_mem _ ht)) m hm

theorem chain_conn (hd : Int) (ts : List Int) (h : ∀ t ∈ hd :: ts, 0 ≤ t) :
    ∀ t ∈ hd :: ts, Conn ((chainPairs hd ts).map edgeOf) hd.toNat t.toNat := by
  induction ts generalizing hd with
  | nil => intro t ht; simp at ht; subst ht; exact .refl _
  | cons t2 rest ih =>
    intro t ht
    simp only [List.mem_cons] at ht
    rcases ht with rfl | ht
    · exact .refl _
    · have h1 := h hd (by simp)
      have h2 := h t2 (by simp)
      have e : Conn ((chainPairs hd (t2 :: rest)).map edgeOf) hd.toNat t2.toNat := by
        apply Conn.edge
        simp only [chainPairs, List.map_cons, List.mem_cons]
        left; rw [edgeOf_nonneg h1 h2]
      refine e.trans ?_
      have := ih t2 (fun t ht => h t (List.mem_cons_of_mem _ ht)) t (by simpa using ht)
      exact this.mono (fun e he => by simp only [chainPairs, List.map_cons]; exact List.mem_cons_of_mem _ he)

theorem chain_touched (hd : Int) (ts : List Int) (hne : ts ≠ []) (h : ∀ t ∈ hd :: ts, 0 ≤ t) :
    ∀ t ∈ hd :: ts, Touched ((chainPairs hd ts).map edgeOf) t.toNat := by
  induction ts generalizing hd with
  | nil => exact absurd rfl hne
  | cons t2 rest ih =>
    intro t ht
    have h1 := h hd (by simp)
    have h2 := h t2 (by simp)
    simp only [List.mem_cons] at ht
    rcases ht with rfl | rfl | ht
    · exact ⟨(t.toNat, t2.toNat), by simp [chainPairs, edgeOf_nonneg h1 h2], Or.inl rfl⟩
    · exact ⟨(hd.toNat, t.toNat), by simp [chainPairs, edgeOf_nonneg h1 h2], Or.inr rfl⟩
    · cases rest with
      | nil => simp at ht
      | cons t3 rest' =>
        obtain ⟨e, he, hu⟩ := ih t2 (by simp) (fun t ht => h t (List.mem_cons_of_mem _ ht)) t
          (List.mem_cons_of_mem _ ht)
        exact ⟨e, by simp only [chainPairs, List.map_cons] at he ⊢; exact List.mem_cons_of_mem _ he, hu⟩

theorem RowOk.ne_nil {n : Nat} {ts : List Int} (h : RowOk n ts) : ts ≠ [] := by
  rcases h.2 with ⟨t, rfl, _⟩ | ⟨a, b, rfl, _⟩ | ⟨h2, _⟩
  · simp
  · simp
  · intro e; subst e; simp at h2

theorem RowOk.rowTree_spec {n : Nat} {ts : List Int} (h : RowOk n ts) : 0 ≤ rowTree ts ∧ rowTree ts ∈ ts := by
  rcases h.2 with ⟨t, rfl, ht⟩ | ⟨a, b, rfl, hab⟩ | ⟨h2, hall⟩
  · simp [rowTree, ht]
  · have ha := h.1 a (by simp)
    have hb := h.1 b (by simp)
    simp only [rowTree]
    split
    · simp; omega
    · simp; omega
  · match ts, h2 with
    | t1 :: t2 :: rest, _ =>
      have h1 := hall t1 (by simp)
      simp [rowTree, h1]

theorem RowOk.pairs_ok {n : Nat} {ts : List Int} (h : RowOk n ts) : ∀ m ∈ rowPairs ts, MergeOk n m := by
  rcases h.2 with ⟨t, rfl, ht⟩ | ⟨a, b, rfl, hab⟩ | ⟨h2, hall⟩
  · intro m hm
    simp only [rowPairs, List.mem_singleton] at hm
    subst hm
    have := h.1 t (by simp)
    refine ⟨by simp; omega, by simp; omega, by simp, by simp; omega, by simp; omega⟩
  · intro m hm
    simp only [rowPairs, chainPairs, List.mem_singleton] at hm
    subst hm
    have ha := h.1 a (by simp)
    have hb := h.1 b (by simp)
    exact ⟨ha.1, ha.2, hb.1, hb.2, hab⟩
  · match ts, h2 with
    | t1 :: t2 :: rest, _ =>
      simp only [rowPairs]
      exact chain_ok t1 (t2 :: rest) (fun t ht => ⟨hall t ht, (h.1 t ht).2⟩)

theorem RowOk.conn {n : Nat} {ts : List Int} (h : RowOk n ts) :
    ∀ t ∈ ts, ∀ t' ∈ ts, 0 ≤ t → 0 ≤ t' → Conn ((rowPairs ts).map edgeOf) t.toNat t'.toNat := by
  rcases h.2 with ⟨t0, rfl, ht⟩ | ⟨a, b, rfl, hab⟩ | ⟨h2, hall⟩
  · intro t ht t' ht' _ _
    simp only [List.mem_singleton] at ht ht'
    subst ht ht'; exact .refl _
  · intro t ht t' ht' h0 h0'
    simp only [List.mem_cons, List.not_mem_nil, or_false] at ht ht'
    rcases ht with rfl | rfl <;> rcases ht' with rfl | rfl
    · exact .refl _
    · apply Conn.edge; simp [rowPairs, chainPairs, edgeOf_nonneg h0 h0']
    · apply Conn.symm; apply Conn.edge; simp [rowPairs, chainPairs, edgeOf_nonneg h0' h0]
    · exact .refl _
  · match ts, h2 with
    | t1 :: t2 :: rest, _ =>
      intro t ht t' ht' _ _
      simp only [rowPairs]
      exact (chain_conn t1 (t2 :: rest) hall t ht).symm.trans (chain_conn t1 (t2 :: rest) hall t' ht')

theorem RowOk.touched {n : Nat} {ts : List Int} (h : RowOk n ts) :
    ∀ t ∈ ts, 0 ≤ t → Touched ((rowPairs ts).map edgeOf) t.toNat := by
  rcases h.2 with ⟨t0, rfl, ht⟩ | ⟨a, b, rfl, hab⟩ | ⟨h2, hall⟩
  · intro t ht _
    simp only [List.mem_singleton] at ht
    subst ht
    refine ⟨edgeOf (t, -1), by simp [rowPairs], Or.inl ?_⟩
    have : ¬ t = -1 := by omega
    simp [edgeOf, this]
  · intro t ht h0
    refine ⟨edgeOf (a, b), by simp [rowPairs, chainPairs], ?_⟩
    simp only [List.mem_cons, List.not_mem_nil, or_false] at ht
    have ha := h.1 a (by simp)
    have hb := h.1 b (by simp)
    unfold edgeOf
    rcases ht with rfl | rfl
    · left
      have : ¬ t = -1 := by omega
      simp [this]
    · right
      have : ¬ t = -1 := by omega
      simp [this]
  · match ts, h2 with
    | t1 :: t2 :: rest, _ =>
      intro t ht _
      simp only [rowPairs]
      exact chain_touched t1 (t2 :: rest) (by simp) hall t ht

theorem flexPairs_ok {n : Nat} (t1 : Int) (f : List (Int × Bool)) (h1 : t1 < 0 ∨ t1 < (n : Int))
    (hf : ∀ x ∈ f, x.1 < (n : Int)) : ∀ m ∈ flexPairs t1 f, MergeOk n m := by
  induction f generalizing t1 with
  | nil => intro m hm; simp [flexPairs] at hm
  | cons x rest ih =>
    obtain ⟨t2, awake⟩ := x
    have h2 : t2 < (n : Int) := hf (t2, awake) (by simp)
    have hrest : ∀ x ∈ rest, x.1 < (n : Int) := fun x hx => hf x (List.mem_cons_of_mem _ hx)
    rw [flexPairs]
    split
    · exact ih t1 h1 hrest
    · next hc =>
      split
      · exact ih t2 (Or.inr h2) hrest
      · next hc' =>
        intro m hm
        simp only [List.mem_cons] at hm
        rcases hm with rfl | hm
        · refine ⟨by simp; omega, by simp; omega, by simp; omega, by simp; omega, by simp; omega⟩
        · exact ih t1 h1 hrest m hm

theorem mem_rowsPairs {rows : List (Option (List Int))} {ts : List Int} (h : some ts ∈ rows) :
    ∀ m ∈ rowPairs ts, m ∈ rowsPairs rows := by
  induction rows with
  | nil => simp at h
  | cons r rest ih =>
    intro m hm
    cases r with
    | none =>
      simp only [List.mem_cons, reduceCtorEq, false_or] at h
      simp only [rowsPairs]; exact ih h m hm
    | some ts' =>
      simp only [List.mem_cons, Option.some.injEq] at h
      simp only [rowsPairs, List.mem_append]
      rcases h with rfl | h
      · exact Or.inl hm
      · exact Or.inr (ih h m hm)

theorem rowsPairs_ok {n : Nat} {rows : List (Option (List Int))} (h : ∀ ts, some ts ∈ rows → RowOk n ts) :
    ∀ m ∈ rowsPairs rows, MergeOk n m := by
  induction rows with
  | nil => intro m hm; simp [rowsPairs] at hm
  | cons r rest ih =>
    intro m hm
    cases r with
    | none => exact ih (fun ts hts => h ts (List.mem_cons_of_mem _ hts)) m (by simpa [rowsPairs] using hm)
    | some ts =>
      simp only [rowsPairs, List.mem_append] at hm
      rcases hm with hm | hm
      · exact (h ts (by simp)).pairs_ok m hm
      · exact ih (fun ts hts => h ts (List.mem_cons_of_mem _ hts)) m hm

theorem flexesPairs_ok {n : Nat} {flexes : List (List (Int × Bool))}
    (h : ∀ f ∈ flexes, ∀ x ∈ f, x.1 < (n : Int)) : ∀ m ∈ flexesPairs flexes, MergeOk n m := by
  induction flexes with
  | nil => intro m hm; simp [flexesPairs] at hm
  | cons f rest ih =>
    intro m hm
    simp only [flexesPairs, List.mem_append] at hm
    rcases hm with hm | hm
    · exact flexPairs_ok (-1) f (Or.inl (by omega)) (h f (by simp)) m hm
    · exact ih (fun f hf => h f (List.mem_cons_of_mem _ hf)) m hm

theorem owners_mem {b : Bool} {rows : List (Option (List Int))} (hs : RowsShape b rows) (last : List Int) :
    ∀ x ∈ owners last rows, (b = true ∧ x = last) ∨ some x ∈ rows := by
  induction hs generalizing last with
  | nil => intro x hx; simp [owners] at hx
  | @row b ts rest _ _ _ ih =>
    intro x hx
    simp only [owners, List.mem_cons] at hx
    rcases hx with rfl | hx
    · right; simp
    · rcases ih ts x hx with ⟨_, rfl⟩ | h
      · right; simp
      · right; exact List.mem_cons_of_mem _ h
  | @same rest _ ih =>
    intro x hx
    simp only [owners, List.mem_cons] at hx
    rcases hx with rfl | hx
    · left; exact ⟨rfl, rfl⟩
    · rcases ih last x hx with h | h
      · left; exact h
      · right; exact List.mem_cons_of_mem _ h

theorem owners_length (last : List Int) (rows : List (Option (List Int))) : (owners last rows).length = rows.length := by
  induction rows generalizing last with
  | nil => rfl
  | cons r rest ih => cases r <;> simp [owners, ih]


/-! ### counting dofs of constrained trees -/

def sumTo (g : Nat → Int) : Nat → Int
  | 0 => 0
  | k + 1 => sumTo g k + g k

theorem activeDofs_eq_sumTo (p dofnum : Array Int) (k : Nat) :
    activeDofs p dofnum k = sumTo (fun t => if par p t = -1 then 0 else dofnum.getD t 0) k := by
  induction k with
  | zero => rfl
  | succ k ih => simp only [activeDofs, sumTo, ih]

theorem sumTo_congr {g g' : Nat → Int} {k : Nat} (h : ∀ t, t < k → g t = g' t) : sumTo g k = sumTo g' k := by
  induction k with
  | zero => rfl
  | succ k ih => simp only [sumTo]; rw [ih (fun t ht => h t (by omega)), h k (by omega)]

theorem sumTo_add (g g' : Nat → Int) (k : Nat) : sumTo (fun t => g t + g' t) k = sumTo g k + sumTo g' k := by
  induction k with
  | zero => rfl
  | succ k ih => simp only [sumTo, ih]; omega

theorem sumTo_zero (k : Nat) : sumTo (fun _ => 0) k = 0 := by
  induction k with
  | zero => rfl
  | succ k ih => simp only [sumTo, ih]; omega

theorem sumTo_single (d : Nat) (c : Int) (k : Nat) :
    sumTo (fun t => if t = d then c else 0) k = if d < k then c else 0 := by
  induction k with
  | zero => simp [sumTo]
  | succ k ih =>
    simp only [sumTo, ih]
    by_cases h1 : d < k
    · have : ¬ k = d := by omega
      have h2 : d < k + 1 := by omega
      simp [h1, this, h2]
    · by_cases h2 : k = d
      · subst h2; simp
      · have h3 : ¬ d < k + 1 := by omega
        simp [h1, h2, h3]

theorem count_sum (act : Nat → Bool) (l : List Nat) (n : Nat) (hl : ∀ d ∈ l, d < n) :
    sumTo (fun t => if act t then (l.count t : Int) else 0) n = (l.countP act : Int) := by
  induction l with
  | nil => simp [sumTo_zero]
  | cons d l ih =>
    have hd : d < n := hl d (by simp)
    have hg : ∀ t, t < n → (if act t then ((d :: l).count t : Int) else 0) =
        (if act t then (l.count t : Int) else 0) + (if t = d then (if act d then 1 else 0) else 0) := by
      intro t _
      rw [List.count_cons]
      by_cases e : t = d
      · subst e; by_cases a : act t <;> simp [a]
      · have : (d == t) = false := by simp; exact fun h => e h.symm
        by_cases a : act t <;> simp [a, e, this]
    rw [sumTo_congr hg, sumTo_add, ih (fun x hx => hl x (List.mem_cons_of_mem _ hx)), sumTo_single,
      List.countP_cons]
    simp only [hd, ↓reduceIte]
    by_cases a : act d <;> simp [a]

/-! ### small evaluation lemmas -/

theorem lookupAll_eq (tbl : Array Int) (idx : List Int) (h : ∀ i ∈ idx, 0 ≤ i ∧ i.toNat < tbl.size) :
    lookupAll tbl idx = some (idx.map (fun i => tbl.getD i.toNat 0)) := by
  unfold lookupAll
  induction idx with
  | nil => rfl
  | cons i rest ih =>
    have hi := h i (by simp)
    rw [List.mapM_cons, ih (fun j hj => h j (List.mem_cons_of_mem _ hj))]
    simp [hi.1, hi.2, Array.getD]

theorem mapM_getElem?_eq (arr : Array Nat) (l : List Nat) (h : ∀ i ∈ l, i < arr.size) :
    l.mapM (fun i => arr[i]?) = some (l.map (fun i => arr.getD i 0)) := by
  induction l with
  | nil => rfl
  | cons i rest ih =>
    have hi := h i (by simp)
    rw [List.mapM_cons, ih (fun j hj => h j (List.mem_cons_of_mem _ hj))]
    simp [hi, Array.getD]


/-! ### assembly: everything `mj_island` computes -/

theorem touched_mono {E E' : List (Nat × Nat)} (h : ∀ e ∈ E, e ∈ E') {u : Nat} : Touched E u → Touched E' u := by
  rintro ⟨e, he, hu⟩; exact ⟨e, h e he, hu⟩

theorem row_edges_sub {rows : List (Option (List Int))} {flexes : List (List (Int × Bool))} {ts : List Int}
    (h : some ts ∈ rows) : ∀ e ∈ (rowPairs ts).map edgeOf, e ∈ (schedule rows flexes).map edgeOf := by
  intro e he
  obtain ⟨m, hm, rfl⟩ := List.mem_map.mp he
  exact List.mem_map.mpr ⟨m, List.mem_append_left _ (mem_rowsPairs h m hm), rfl⟩

/-- What `mj_island` computes (all of it), in terms of the constraint incidence it was given. -/
structure IslandSpec (ntree : Nat) (dofTree : List Nat) (rows : List (Option (List Int)))
    (flexes : List (List (Int × Bool))) (out : IslandOut) : Prop where
  /-- `tree_island` is the ascending component numbering of the merge schedule -/
  assign : AssignSpec ((schedule rows flexes).map edgeOf) ntree
    { island := out.tree_island, parent := out.parent, nisland := out.nisland, nidof := out.nidof }
  nisland_pos : 0 < out.nisland
  dof_size : out.dof_island.size = dofTree.length
  /-- every dof belongs to the island of its tree (-1 if the tree is unconstrained) -/
  dof_eq : ∀ d (h : d < out.dof_island.size) (h' : d < dofTree.length) (h'' : dofTree[d] < out.tree_island.size),
    out.dof_island[d] = out.tree_island[dofTree[d]]
  nidof_eq : out.nidof = nConstrained out.dof_island.toList
  efc_size : out.efc_island.size = rows.length
  /-- every constraint row belongs to the island of each of its (dynamic) trees -/
  efc_eq : ∀ i (h : i < out.efc_island.size) (ts : List Int), (owners [] rows)[i]? = some ts →
    ∀ t ∈ ts, 0 ≤ t → ∃ h' : t.toNat < out.tree_island.size,
      out.efc_island[i] = out.tree_island[t.toNat] ∧ 0 ≤ out.efc_island[i]
  trees : MapsSpec out.tree_island.toList out.nisland out.trees
  dofs : MapsSpec out.dof_island.toList out.nisland out.dofs
  efcs : MapsSpec out.efc_island.toList out.nisland out.efcs
  dofadr_size : out.island_dofadr.size = out.nisland
  dofadr_eq : ∀ k (h : k < out.island_dofadr.size) (h1 : k < out.dofs.adr.size)
    (h2 : out.dofs.adr[k] < out.dofs.inv.size), out.island_dofadr[k] = out.dofs.inv[out.dofs.adr[k]]

theorem island_spec (ntree : Nat) (dofnum : Array Int) (dofTree : List Nat)
    (rows : List (Option (List Int))) (flexes : List (List (Int × Bool)))
    (hshape : RowsShape false rows) (hrows : ∀ ts, some ts ∈ rows → RowOk ntree ts) (hne : rows ≠ [])
    (hflex : ∀ f ∈ flexes, ∀ x ∈ f, x.1 < (ntree : Int))
    (hdn : dofnum.size = ntree) (hdt : ∀ d ∈ dofTree, d < ntree)
    (hcount : ∀ t (h : t < dofnum.size), dofnum[t] = (dofTree.count t : Int))
    (hevery : ∀ t, t < ntree → t ∈ dofTree) :
    ∃ out, island ntree dofnum dofTree rows flexes = some out ∧ IslandSpec ntree dofTree rows flexes out := by
  have hok : ∀ m ∈ schedule rows flexes, MergeOk ntree m := by
    intro m hm
    rcases List.mem_append.mp hm with h | h
    · exact rowsPairs_ok hrows m h
    · exact flexesPairs_ok hflex m h
  obtain ⟨p, e, hs, hI, hact, hconn⟩ := runMerges_spec ntree _ hok
  have hu := unionConstraintTrees_eq ntree rows flexes hshape
  rw [e] at hu
  simp only [Option.map_some] at hu
  obtain ⟨a, ea, ho⟩ := dsuAssign_spec (dofnum := dofnum) hI (by omega)
  rw [hs] at ea ho
  have f := assign_facts hs hI hact hconn ho
  -- every row's owner is a constraint of `rows`
  have hown : ∀ ts ∈ owners [] rows, some ts ∈ rows := by
    intro ts hts
    rcases owners_mem hshape [] ts hts with ⟨hb, _⟩ | h
    · cases hb
    · exact h
  have hefc : ∀ x ∈ (owners [] rows).map rowTree, 0 ≤ x ∧ x.toNat < a.island.size ∧
      Touched ((schedule rows flexes).map edgeOf) x.toNat := by
    intro x hx
    obtain ⟨ts, hts, rfl⟩ := List.mem_map.mp hx
    have hr := hrows ts (hown ts hts)
    have h1 := hr.rowTree_spec
    have h2 := hr.1 _ h1.2
    refine ⟨h1.1, by rw [f.isz]; omega, ?_⟩
    exact touched_mono (row_edges_sub (hown ts hts)) (hr.touched _ h1.2 h1.1)
  -- at least one island
  have hpos : 0 < a.nisland := by
    match rows, hne, hshape with
    | some ts :: rest, _, _ =>
      have hx := hefc (rowTree ts) (by simp [owners])
      have := f.rng _ hx.2.1 hx.2.2
      omega
  -- total view of the island array
  have hget : ∀ t (h : t < ntree), a.island.getD t 0 = a.island[t]'(by rw [f.isz]; exact h) := by
    intro t h; simp [Array.getD, f.isz, h]
  have hkey : ∀ t, t < ntree → a.island.getD t 0 < (a.nisland : Int) ∧
      (0 ≤ a.island.getD t 0 ↔ par p t ≠ -1) := by
    intro t ht
    rw [hget t ht]
    have hti : t < a.island.size := by rw [f.isz]; exact ht
    by_cases htt : Touched ((schedule rows flexes).map edgeOf) t
    · have := f.rng t hti htt
      exact ⟨this.2, ⟨fun _ => (hact t).mpr htt, fun _ => this.1⟩⟩
    · have hn := (f.neg t hti).mpr htt
      rw [hn]
      refine ⟨by omega, ⟨fun h => by omega, fun h => absurd ((hact t).mp h) htt⟩⟩
  -- dof islands and their count
  have hdi : lookupAll a.island (dofTree.map (fun (t : Nat) => (t : Int))) =
      some (dofTree.map (fun t => a.island.getD t 0)) := by
    rw [lookupAll_eq]
    · simp [List.map_map, Function.comp_def]
    · intro i hi
      obtain ⟨d, hd, rfl⟩ := List.mem_map.mp hi
      have := hdt d hd
      simp only [Int.toNat_natCast]
      exact ⟨by omega, by rw [f.isz]; exact this⟩
  have hnidof : a.nidof = (nConstrained (dofTree.map (fun t => a.island.getD t 0)) : Int) := by
    rw [ho.ndof, activeDofs_eq_sumTo]
    rw [sumTo_congr (g' := fun t => if (decide (par p t ≠ -1)) then (dofTree.count t : Int) else 0)]
    · rw [count_sum _ _ _ hdt]
      unfold nConstrained
      rw [List.countP_map]
      congr 1
      apply List.countP_congr
      intro d hd
      have := (hkey d (hdt d hd)).2
      simp only [Function.comp_apply, decide_eq_true_eq]
      exact this.symm
    · intro t ht
      have hd : dofnum.getD t 0 = (dofTree.count t : Int) := by
        have h' : t < dofnum.size := by omega
        rw [← hcount t h']; simp [Array.getD, h']
      by_cases hp : par p t = -1
      · simp [hp]
      · simp [hp, hd]
  have hc : ¬ (a.nisland = 0 ∨ a.nidof < 0) := by rw [hnidof]; omega
  -- tree maps
  have htk : ∀ k ∈ a.island.toList, k < (a.nisland : Int) ∧ (true = false → 0 ≤ k) := by
    intro k hk
    obtain ⟨t, ht, rfl⟩ := List.mem_iff_getElem.mp hk
    simp only [Array.length_toList, f.isz] at ht
    simp only [Array.getElem_toList]
    rw [← hget t ht]
    exact ⟨(hkey t ht).1, by simp⟩
  obtain ⟨trees, et, st⟩ := buildMaps_spec true a.island.toList a.nisland none hpos htk (by simp)
  -- dof maps
  have hdk : ∀ k ∈ dofTree.map (fun t => a.island.getD t 0), k < (a.nisland : Int) ∧ (true = false → 0 ≤ k) := by
    intro k hk
    obtain ⟨d, hd, rfl⟩ := List.mem_map.mp hk
    exact ⟨(hkey d (hdt d hd)).1, by simp⟩
  obtain ⟨dofs, ed, sd⟩ := buildMaps_spec true (dofTree.map (fun t => a.island.getD t 0)) a.nisland
    (some a.nidof.toNat) hpos hdk (by intro b hb; cases hb; rw [hnidof]; simp)
  -- island_dofadr: every island has a dof, so the read of map_idof2dof is inside the array
  have hadr : ∀ x ∈ dofs.adr.toList, x < dofs.inv.size := by
    intro x hx
    obtain ⟨k, hk, rfl⟩ := List.mem_iff_getElem.mp hx
    simp only [Array.length_toList] at hk
    simp only [Array.getElem_toList]
    have hk' : k < a.nisland := by rw [← sd.adr_size]; exact hk
    obtain ⟨t, ht, htk'⟩ := f.surj k hk'
    rw [f.isz] at ht
    obtain ⟨i, hi, hit⟩ := List.mem_iff_getElem.mp (hevery t ht)
    have hi' : i < (dofTree.map (fun t => a.island.getD t 0)).length := by simpa using hi
    have hkeyi : (dofTree.map (fun t => a.island.getD t 0))[i] = (k : Int) := by
      simp only [List.getElem_map, hit]; rw [hget t ht]; exact htk'
    have hfi : i < dofs.fwd.size := by rw [sd.fwd_size]; exact hi'
    have hb := sd.block i hi' k hkeyi hk (by rw [sd.cnt_size]; exact hk') hfi
    obtain ⟨h', _⟩ := sd.inv_fwd i hfi
    omega
  have eda := mapM_getElem?_eq dofs.inv dofs.adr.toList hadr
  -- efc islands
  have hei : lookupAll a.island ((owners [] rows).map rowTree).toArray.toList =
      some (((owners [] rows).map rowTree).map (fun i => a.island.getD i.toNat 0)) := by
    rw [lookupAll_eq]
    intro i hi
    have := hefc i (by simpa using hi)
    exact ⟨this.1, this.2.1⟩
  have hek : ∀ k ∈ ((owners [] rows).map rowTree).map (fun i => a.island.getD i.toNat 0),
      k < (a.nisland : Int) ∧ (false = false → 0 ≤ k) := by
    intro k hk
    obtain ⟨x, hx, rfl⟩ := List.mem_map.mp hk
    have h3 := hefc x hx
    have hlt : x.toNat < ntree := by rw [← f.isz]; exact h3.2.1
    have h4 := hkey x.toNat hlt
    exact ⟨h4.1, fun _ => h4.2.mpr ((hact _).mpr h3.2.2)⟩
  obtain ⟨efcs, ee, se⟩ := buildMaps_spec false _ a.nisland none hpos hek (by simp)
  -- run the model
  refine ⟨{ nisland := a.nisland, nidof := a.nidof.toNat, tree_island := a.island, parent := a.parent,
             efc_tree := ((owners [] rows).map rowTree).toArray, trees := trees,
             dof_island := (dofTree.map (fun t => a.island.getD t 0)).toArray, dofs := dofs,
             island_dofadr := (dofs.adr.toList.map (fun i => dofs.inv.getD i 0)).toArray,
             efc_island := (((owners [] rows).map rowTree).map (fun i => a.island.getD i.toNat 0)).toArray,
             efcs := efcs }, ?_, ?_⟩
  · unfold island
    have hemp : rows.isEmpty = false := by cases rows with | nil => exact absurd rfl hne | cons _ _ => rfl
    simp only [hemp, Bool.false_eq_true, ↓reduceIte]
    rw [hu]
    simp only [ea, hc, ↓reduceIte, et, hdi, ed, eda, hei, ee]
  · refine ⟨⟨f.isz, f.psz, f.neg, f.rng, f.eq_iff, f.lt_iff, f.surj, f.compressed⟩, hpos, by simp, ?_, ?_,
      by simp [owners_length], ?_, st, by simpa using sd, by simpa using se, by simp [sd.adr_size], ?_⟩
    · intro d h h' h''
      simp only [List.getElem_toArray, List.getElem_map]
      rw [hget _ (by rw [← f.isz]; exact h'')]
    · have := hnidof
      dsimp only
      omega
    · intro i h ts hts t ht h0
      have hmem : ts ∈ owners [] rows := List.mem_of_getElem? hts
      have hr := hrows ts (hown ts hmem)
      have h1 := hr.rowTree_spec
      have hx := hefc (rowTree ts) (List.mem_map.mpr ⟨ts, hmem, rfl⟩)
      have htn : t.toNat < ntree := by have := (hr.1 t ht).2; omega
      have hti : t.toNat < a.island.size := by rw [f.isz]; exact htn
      refine ⟨hti, ?_⟩
      have hi : i < (owners [] rows).length := by
        have := h; simp only [List.size_toArray, List.length_map] at this; exact this
      have hts' : (owners [] rows)[i] = ts := by
        rw [List.getElem?_eq_getElem hi] at hts; exact Option.some.inj hts
      have hval : (((owners [] rows).map rowTree).map (fun i => a.island.getD i.toNat 0)).toArray[i]'h =
          a.island[(rowTree ts).toNat]'hx.2.1 := by
        simp only [List.getElem_toArray, List.getElem_map, hts']
        rw [hget _ (by rw [← f.isz]; exact hx.2.1)]
      simp only [] at hval ⊢
      rw [hval]
      have hconn' : Conn ((schedule rows flexes).map edgeOf) (rowTree ts).toNat t.toNat :=
        (hr.conn _ h1.2 t ht h1.1 h0).mono (row_edges_sub (hown ts hmem))
      have htt : Touched ((schedule rows flexes).map edgeOf) t.toNat :=
        touched_mono (row_edges_sub (hown ts hmem)) (hr.touched t ht h0)
      exact ⟨(f.eq_iff _ _ hx.2.1 hti hx.2.2 htt).mpr hconn', (f.rng _ hx.2.1 hx.2.2).1⟩
    · intro k h h1 h2
      simp only [List.getElem_toArray, List.getElem_map, Array.getElem_toList]
      simp [Array.getD, h2]

end MjProof.Island
