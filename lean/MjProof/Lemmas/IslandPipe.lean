import MjProof.Lemmas.Island
import MjProof.Lemmas.IslandMaps
/-
Lemmas for C17 (pipeline part): the merge schedule issued by `unionConstraintTrees` as a plain list of
merges, validity of that schedule for well-formed constraint rows, and the assembly of `island`.
-/
namespace MjProof.Island

/-! ### the merge schedule of `unionConstraintTrees` -/

theorem runMerges_nil (p : Array Int) : runMerges p [] = some p := rfl

theorem runMerges_cons (p : Array Int) (m : Int × Int) (ms : List (Int × Int)) :
    runMerges p (m :: ms) = (mergeStep p m).bind (fun q => runMerges q ms) := by
  unfold runMerges
  rw [List.foldlM_cons]
  rfl

theorem runMerges_append (p : Array Int) (a b : List (Int × Int)) :
    runMerges p (a ++ b) = (runMerges p a).bind (fun q => runMerges q b) := by
  unfold runMerges
  rw [List.foldlM_append]
  rfl

def chainPairs : Int → List Int → List (Int × Int)
  | _, [] => []
  | t1, t2 :: rest => (t1, t2) :: chainPairs t2 rest

theorem chainMerge_eq (p : Array Int) (t : Int) (ts : List Int) :
    chainMerge p t ts = runMerges p (chainPairs t ts) := by
  induction ts generalizing p t with
  | nil => rfl
  | cons t2 rest ih =>
    rw [chainMerge, chainPairs, runMerges_cons, mergeStep]
    cases h : dsuMerge p t t2 <;> simp [ih]

/-- merges issued for one constraint whose incident trees are `ts` -/
def rowPairs : List Int → List (Int × Int)
  | [] => []
  | [t1] => [(t1, -1)]
  | t1 :: t2 :: rest => chainPairs t1 (t2 :: rest)

/-- `efc_tree[i]`: the first non-negative of the first two trees -/
def rowTree : List Int → Int
  | [] => -2
  | [t1] => t1
  | t1 :: t2 :: _ => if 0 ≤ t1 then t1 else t2

theorem unionRow_eq (p : Array Int) (ts : List Int) (h1 : ts ≠ []) (h2 : 0 ≤ rowTree ts) :
    unionRow p ts = (runMerges p (rowPairs ts)).map (fun p' => (p', rowTree ts)) := by
  match ts, h1 with
  | [t1], _ =>
    simp only [rowTree] at h2
    have : ¬ t1 < 0 := by omega
    simp only [unionRow, this, ↓reduceIte, rowPairs, rowTree]
    rw [runMerges_cons, mergeStep]
    cases h : dsuMerge p t1 (-1) <;> simp [runMerges_nil]
  | t1 :: t2 :: rest, _ =>
    simp only [rowTree] at h2
    have : ¬ (if 0 ≤ t1 then t1 else t2) < 0 := by omega
    simp only [unionRow, this, ↓reduceIte, rowPairs, rowTree, chainMerge_eq]
    cases h : runMerges p (chainPairs t1 (t2 :: rest)) <;> simp

def rowsPairs : List (Option (List Int)) → List (Int × Int)
  | [] => []
  | some ts :: rest => rowPairs ts ++ rowsPairs rest
  | none :: rest => rowsPairs rest

/-- for every scalar row, the tree list of the constraint it belongs to (`last` = current constraint) -/
def owners : List Int → List (Option (List Int)) → List (List Int)
  | _, [] => []
  | _, some ts :: rest => ts :: owners ts rest
  | last, none :: rest => last :: owners last rest

/-- rows are well-formed: every constraint has a tree list with a usable `efc_tree`, and a continuation
    row (`none`) never comes first -/
inductive RowsShape : Bool → List (Option (List Int)) → Prop
  | nil {b : Bool} : RowsShape b []
  | row {b : Bool} {ts : List Int} {rest : List (Option (List Int))} :
      ts ≠ [] → 0 ≤ rowTree ts → RowsShape true rest → RowsShape b (some ts :: rest)
  | same {rest : List (Option (List Int))} : RowsShape true rest → RowsShape true (none :: rest)

theorem rowsFold_eq (rows : List (Option (List Int))) (p : Array Int) (acc : Array Int) (last : List Int)
    (b : Bool) (hlast : b = true → acc.back? = some (rowTree last))
    (hs : RowsShape b rows) :
    rows.foldlM unionRowsStep (p, acc) =
      (runMerges p (rowsPairs rows)).map
        (fun p' => (p', (acc.toList ++ (owners last rows).map rowTree).toArray)) := by
  induction rows generalizing p acc last b with
  | nil => simp [rowsPairs, owners, runMerges_nil]
  | cons r rest ih =>
    cases r with
    | some ts =>
      cases hs with
      | row h1 h2 h3 =>
        rw [List.foldlM_cons, unionRowsStep]
        simp only [unionRow_eq p ts h1 h2, rowsPairs, runMerges_append, owners]
        cases hr : runMerges p (rowPairs ts) with
        | none => simp
        | some p1 =>
          simp only [Option.map_some, Option.bind_some]
          have hb : (acc.push (rowTree ts)).back? = some (rowTree ts) := by simp
          have := ih p1 (acc.push (rowTree ts)) ts true (fun _ => hb) h3
          simp only [Option.bind_eq_bind, Option.bind_some] at this ⊢
          rw [this]
          simp
    | none =>
      cases hs with
      | same h3 =>
        have hb := hlast rfl
        rw [List.foldlM_cons, unionRowsStep]
        simp only [hb, rowsPairs, owners]
        have hb' : (acc.push (rowTree last)).back? = some (rowTree last) := by simp
        have := ih p (acc.push (rowTree last)) last true (fun _ => hb') h3
        simp only [Option.bind_eq_bind, Option.bind_some] at this ⊢
        rw [this]
        simp

def flexPairs : Int → List (Int × Bool) → List (Int × Int)
  | _, [] => []
  | t1, (t2, awake) :: rest =>
    if t2 < 0 ∨ t2 = t1 ∨ !awake then flexPairs t1 rest
    else if t1 < 0 then flexPairs t2 rest
    else (t1, t2) :: flexPairs t1 rest

theorem flexStar_eq (p : Array Int) (t : Int) (f : List (Int × Bool)) :
    flexStar p t f = runMerges p (flexPairs t f) := by
  induction f generalizing p t with
  | nil => rfl
  | cons x rest ih =>
    obtain ⟨t2, awake⟩ := x
    rw [flexStar, flexPairs]
    split
    · exact ih p t
    · split
      · exact ih p t2
      · rw [runMerges_cons, mergeStep]
        cases h : dsuMerge p t t2 <;> simp [ih]

def flexesPairs : List (List (Int × Bool)) → List (Int × Int)
  | [] => []
  | f :: rest => flexPairs (-1) f ++ flexesPairs rest

theorem flexFold_eq (flexes : List (List (Int × Bool))) (p : Array Int) :
    flexes.foldlM (fun p f => flexStar p (-1) f) p = runMerges p (flexesPairs flexes) := by
  induction flexes generalizing p with
  | nil => rfl
  | cons f rest ih =>
    rw [List.foldlM_cons, flexesPairs, runMerges_append, flexStar_eq]
    cases runMerges p (flexPairs (-1) f) <;> simp [ih]

/-- all merges of one `unionConstraintTrees` call, in order -/
def schedule (rows : List (Option (List Int))) (flexes : List (List (Int × Bool))) : List (Int × Int) :=
  rowsPairs rows ++ flexesPairs flexes

theorem unionConstraintTrees_eq (ntree : Nat) (rows : List (Option (List Int))) (flexes : List (List (Int × Bool)))
    (hs : RowsShape false rows) :
    unionConstraintTrees ntree rows flexes =
      (runMerges (initParent ntree) (schedule rows flexes)).map
        (fun p => (p, ((owners [] rows).map rowTree).toArray)) := by
  unfold unionConstraintTrees schedule
  rw [rowsFold_eq rows (initParent ntree) #[] [] false (by simp) hs, runMerges_append]
  cases runMerges (initParent ntree) (rowsPairs rows) with
  | none => simp
  | some p =>
    simp only [Option.map_some, Option.bind_some, List.nil_append]
    rw [flexFold_eq]
    cases runMerges p (flexesPairs flexes) <;> simp

end MjProof.Island
