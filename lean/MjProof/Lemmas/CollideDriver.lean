import MjProof.Lemmas.Broadphase
import MjProof.Spec.Collide
/-
Helper lemmas for C14, part 2: the pair loop of `mj_collision` and `mj_broadphase` (model in
`MjProof/Model/Broadphase.lean`) against the rule set `MjProof/Spec/Collide.lean`.
-/
namespace MjProof.Broadphase
open List MjProof.Sort

variable (M : Model)

/-- the candidates of an item (a mid-phase group stands for its all-to-all superset) -/
def Item.cands {nb ng : Nat} : Item nb ng → List (Cand ng)
  | .cand c => [c]
  | .mid _ _ cs => cs

/-- all candidates of an item list, in order -/
def flat {nb ng : Nat} (l : List (Item nb ng)) : List (Cand ng) := l.flatMap Item.cands

@[simp] theorem flat_nil {nb ng : Nat} : flat ([] : List (Item nb ng)) = [] := rfl

@[simp] theorem flat_append {nb ng : Nat} (a b : List (Item nb ng)) : flat (a ++ b) = flat a ++ flat b := by
  simp [flat]

@[simp] theorem flat_map_cand {nb ng : Nat} (l : List (Cand ng)) : flat (l.map (Item.cand (nbody := nb))) = l := by
  induction l with
  | nil => rfl
  | cons a l ih =>
    have : flat (Item.cand (nbody := nb) a :: l.map Item.cand) = a :: flat (l.map (Item.cand (nbody := nb))) := rfl
    rw [map_cons, this, ih]

theorem flat_bodyPairItems (b1 b2 : Fin M.nbody) (merged : Bool) (chunk : List (Pair M.ngeom)) :
    flat (bodyPairItems M b1 b2 merged chunk) = allToAll M b1 b2 merged chunk := by
  unfold bodyPairItems
  split
  · simp
  · split
    · simp [flat, Item.cands]
    · simp

/-! ### explicit pairs -/

theorem explicitCands_append (a b : List (Pair M.ngeom)) :
    explicitCands M (a ++ b) = explicitCands M a ++ explicitCands M b := by
  simp [explicitCands]

theorem push_ipair (g1 g2 : Fin M.ngeom) (k : Option Nat) : (push M g1 g2 k).ipair = k := by
  unfold push; split <;> rfl

theorem mem_allToAll {b1 b2 : Fin M.nbody} {merged : Bool} {chunk : List (Pair M.ngeom)} {c : Cand M.ngeom} :
    c ∈ allToAll M b1 b2 merged chunk ↔
      ∃ g1 ∈ geomsOf M b1, ∃ g2 ∈ geomsOf M b2, filterDyn M g1 g2 merged chunk = true ∧ c = push M g1 g2 none := by
  unfold allToAll
  simp only [mem_flatMap, mem_map, mem_filter]
  constructor
  · rintro ⟨g1, h1, g2, ⟨h2, hf⟩, rfl⟩
    exact ⟨g1, h1, g2, h2, hf, rfl⟩
  · rintro ⟨g1, h1, g2, h2, hf, rfl⟩
    exact ⟨g1, h1, g2, ⟨h2, hf⟩, rfl⟩

theorem allToAll_ipair {b1 b2 : Fin M.nbody} {merged : Bool} {chunk : List (Pair M.ngeom)} {c : Cand M.ngeom}
    (h : c ∈ allToAll M b1 b2 merged chunk) : c.ipair = none := by
  obtain ⟨g1, _, g2, _, _, rfl⟩ := (mem_allToAll M).mp h
  exact push_ipair M g1 g2 none

theorem explicitCands_ipair {ps : List (Pair M.ngeom)} {c : Cand M.ngeom} (h : c ∈ explicitCands M ps) :
    ∃ p ∈ ps, c.ipair = some p.idx := by
  unfold explicitCands at h
  obtain ⟨p, hp, rfl⟩ := mem_map.mp h
  exact ⟨p, (mem_filter.mp hp).1, push_ipair M _ _ _⟩

/-- explicit pairs: every pair of the list is handed to the narrow phase iff it passes filters 1 and 2,
    whatever the broad phase returned -/
theorem driverLoop_explicit (c : Cand M.ngeom) (k : Nat) (hk : c.ipair = some k) :
    ∀ (bfs : List (Fin M.nbody × Fin M.nbody)) (last : Option Nat) (ps : List (Pair M.ngeom)),
      c ∈ flat (driverLoop M bfs last ps) ↔ c ∈ explicitCands M ps
  | [], last, ps => by simp [driverLoop]
  | (b1, b2) :: bfs, last, ps => by
    unfold driverLoop
    simp only
    split
    · exact driverLoop_explicit c k hk bfs last ps
    · rw [flat_append, flat_append, flat_map_cand, mem_append, mem_append,
        driverLoop_explicit c k hk bfs _ _]
      have hsplit : explicitCands M ps =
          explicitCands M (ps.takeWhile (fun p => decide (p.signature ≤ sig b1.val b2.val))) ++
          explicitCands M (ps.dropWhile (fun p => decide (p.signature ≤ sig b1.val b2.val))) := by
        rw [← explicitCands_append, takeWhile_append_dropWhile]
      rw [hsplit, mem_append]
      constructor
      · rintro ((h | h) | h)
        · exact Or.inl h
        · exfalso
          have hnone : c.ipair = none := by
            split at h
            · simp at h
            · split at h
              · simp at h
              · rw [flat_bodyPairItems] at h
                exact allToAll_ipair M h
          rw [hk] at hnone; exact absurd hnone (by simp)
        · exact Or.inr h
      · rintro (h | h)
        · exact Or.inl (Or.inl h)
        · exact Or.inr h

/-! ### sorted prefix / suffix -/

theorem mem_takeWhile_sorted {α : Type} (f : α → Nat) (s : Nat) : ∀ (l : List α),
    l.Pairwise (fun a b => f a ≤ f b) → ∀ x, (x ∈ l.takeWhile (fun p => decide (f p ≤ s)) ↔ x ∈ l ∧ f x ≤ s)
  | [], _, x => by simp
  | a :: l, h, x => by
    rw [pairwise_cons] at h
    by_cases ha : f a ≤ s
    · rw [takeWhile_cons_of_pos (by simpa using ha), mem_cons, mem_takeWhile_sorted f s l h.2 x, mem_cons]
      constructor
      · rintro (rfl | ⟨h1, h2⟩)
        · exact ⟨Or.inl rfl, ha⟩
        · exact ⟨Or.inr h1, h2⟩
      · rintro ⟨rfl | h1, h2⟩
        · exact Or.inl rfl
        · exact Or.inr ⟨h1, h2⟩
    · rw [takeWhile_cons_of_neg (by simpa using ha)]
      constructor
      · intro h'; simp at h'
      · rintro ⟨hx, hxs⟩
        rcases mem_cons.mp hx with rfl | hx
        · exact absurd hxs ha
        · have := h.1 x hx; omega

theorem mem_dropWhile_sorted {α : Type} (f : α → Nat) (s : Nat) : ∀ (l : List α),
    l.Pairwise (fun a b => f a ≤ f b) → ∀ x, (x ∈ l.dropWhile (fun p => decide (f p ≤ s)) ↔ x ∈ l ∧ s < f x)
  | [], _, x => by simp
  | a :: l, h, x => by
    rw [pairwise_cons] at h
    by_cases ha : f a ≤ s
    · rw [dropWhile_cons_of_pos (by simpa using ha), mem_dropWhile_sorted f s l h.2 x, mem_cons]
      constructor
      · rintro ⟨h1, h2⟩; exact ⟨Or.inr h1, h2⟩
      · rintro ⟨rfl | h1, h2⟩
        · omega
        · exact ⟨h1, h2⟩
    · rw [dropWhile_cons_of_neg (by simpa using ha)]
      constructor
      · intro hx
        refine ⟨hx, ?_⟩
        rcases mem_cons.mp hx with rfl | hx
        · omega
        · have := h.1 x hx; omega
      · rintro ⟨hx, _⟩; exact hx

theorem getLast?_ge_of_sorted {α : Type} (f : α → Nat) : ∀ (l : List α), l.Pairwise (fun a b => f a ≤ f b) →
    ∀ x ∈ l, ∃ y, l.getLast? = some y ∧ f x ≤ f y
  | [], _, x, hx => by simp at hx
  | [a], _, x, hx => by
    rw [mem_singleton] at hx; subst hx; exact ⟨x, rfl, Nat.le_refl _⟩
  | a :: b :: l, h, x, hx => by
    rw [pairwise_cons] at h
    rw [getLast?_cons_cons]
    rcases mem_cons.mp hx with rfl | hx
    · obtain ⟨y, hy, hby⟩ := getLast?_ge_of_sorted f (b :: l) h.2 b (by simp)
      exact ⟨y, hy, Nat.le_trans (h.1 b (by simp)) hby⟩
    · exact getLast?_ge_of_sorted f (b :: l) h.2 x hx

/-! ### dynamic pairs -/

/-- signature of a structured bodyflex pair -/
def sigp (b : Fin M.nbody × Fin M.nbody) : Nat := sig b.1.val b.2.val

/-- the explicit pair `p` names the geoms `g1`, `g2` (either order): the test of `filterCollisionPair` -/
def Matches (p : Pair M.ngeom) (g1 g2 : Fin M.ngeom) : Prop :=
  (p.g1 = g1 ∧ p.g2 = g2) ∨ (p.g1 = g2 ∧ p.g2 = g1)

instance (p : Pair M.ngeom) (g1 g2 : Fin M.ngeom) : Decidable (Matches M p g1 g2) := by
  unfold Matches; infer_instance

/-- what `filterCollisionPair(…, -1, merged, startadr, pairadr)` decides, stated without the merge window -/
def DynOK (ps : List (Pair M.ngeom)) (g1 g2 : Fin M.ngeom) : Prop :=
  (¬ ∃ p ∈ ps, Matches M p g1 g2) ∧
  Gen.filterBitmask (α := Float) M.geom[g1].contype M.geom[g1].conaffinity M.geom[g2].contype M.geom[g2].conaffinity = 0 ∧
  M.near g1 g2 = true ∧ funcOK M g1 g2 = true

/-- bodyflex-level tests of the loop: `canCollide2` and the `exclude` scan -/
def BodyPairOK (b : Fin M.nbody × Fin M.nbody) : Prop :=
  canCollide2 M b.1 b.2 = true ∧ excluded M (sigp M b) = false

theorem sigp_inj {a b : Fin M.nbody × Fin M.nbody} (ha : a.2.val < 65536) (hb : b.2.val < 65536)
    (h : sigp M a = sigp M b) : a = b := by
  unfold sigp sig at h
  have h1 : a.1.val = b.1.val := by omega
  have h2 : a.2.val = b.2.val := by omega
  exact Prod.ext (Fin.ext h1) (Fin.ext h2)

/-- `filterDyn` with the merge window `[startadr, pairadr)` of a sorted pair list equals the window-free test,
    provided every explicit pair on the two geoms carries the signature of the body pair -/
theorem filterDyn_iff (ps : List (Pair M.ngeom)) (hps : ps.Pairwise (fun p q => p.signature ≤ q.signature))
    (s : Nat) (g1 g2 : Fin M.ngeom) (hsig : ∀ p ∈ ps, Matches M p g1 g2 → p.signature = s) :
    filterDyn M g1 g2
        (mergedOf (ps.takeWhile (fun p => decide (p.signature ≤ s))) s)
        (ps.takeWhile (fun p => decide (p.signature ≤ s))) = true ↔ DynOK M ps g1 g2 := by
  have hchunk := mem_takeWhile_sorted (fun p : Pair M.ngeom => p.signature) s ps hps
  have hsorted_chunk : (ps.takeWhile (fun p => decide (p.signature ≤ s))).Pairwise (fun p q => p.signature ≤ q.signature) :=
    hps.sublist (takeWhile_sublist _)
  -- the window test is equivalent to the existence of a matching pair in the whole list
  have hwin : (mergedOf (ps.takeWhile (fun p => decide (p.signature ≤ s))) s &&
        (ps.takeWhile (fun p => decide (p.signature ≤ s))).any
          (fun p => decide ((p.g1 = g1 ∧ p.g2 = g2) ∨ (p.g1 = g2 ∧ p.g2 = g1)))) = true ↔
      ∃ p ∈ ps, Matches M p g1 g2 := by
    rw [Bool.and_eq_true, any_eq_true]
    constructor
    · rintro ⟨_, p, hp, hm⟩
      exact ⟨p, ((hchunk p).mp hp).1, by simpa [Matches] using hm⟩
    · rintro ⟨p, hp, hm⟩
      have hpsig := hsig p hp hm
      have hpc : p ∈ ps.takeWhile (fun p => decide (p.signature ≤ s)) := (hchunk p).mpr ⟨hp, by omega⟩
      refine ⟨?_, p, hpc, by simpa [Matches] using hm⟩
      obtain ⟨y, hy, hle⟩ := getLast?_ge_of_sorted (fun p : Pair M.ngeom => p.signature) _ hsorted_chunk p hpc
      have hyc : y ∈ ps.takeWhile (fun p => decide (p.signature ≤ s)) := mem_of_getLast? hy
      have hys := ((hchunk y).mp hyc).2
      unfold mergedOf
      rw [hy]
      simp only [beq_iff_eq]
      omega
  unfold filterDyn DynOK
  by_cases hm : ∃ p ∈ ps, Matches M p g1 g2
  · rw [if_pos (hwin.mpr hm)]
    simp [hm]
  · have hw : ¬ (_ = true) := fun h => hm (hwin.mp h)
    rw [if_neg hw]
    by_cases hb : Gen.filterBitmask (α := Float) M.geom[g1].contype M.geom[g1].conaffinity
        M.geom[g2].contype M.geom[g2].conaffinity = 0
    · by_cases hn : M.near g1 g2 = true
      · simp [hm, hb, hn]
      · simp [hm, hb, hn]
    · simp [hm, hb]

/-- the explicit pairs on the geoms of a body pair carry that body pair's signature -/
def PairSigOK (ps : List (Pair M.ngeom)) : Prop :=
  ∀ p ∈ ps, ∀ (b : Fin M.nbody × Fin M.nbody) (g1 g2 : Fin M.ngeom), b.1.val < b.2.val →
    g1 ∈ geomsOf M b.1 → g2 ∈ geomsOf M b.2 → Matches M p g1 g2 → p.signature = sigp M b

/-- what one iteration contributes -/
def DynFrom (ps : List (Pair M.ngeom)) (b : Fin M.nbody × Fin M.nbody) (c : Cand M.ngeom) : Prop :=
  BodyPairOK M b ∧ ∃ g1 ∈ geomsOf M b.1, ∃ g2 ∈ geomsOf M b.2, DynOK M ps g1 g2 ∧ c = push M g1 g2 none

/-- **Loop invariant of the bodyflex-pair loop.**  For a sorted broad-phase list, a sorted explicit-pair list of
    which everything up to `last` has been consumed: a dynamic candidate is produced iff it comes from some
    listed body pair (other than a repetition of `last`) that passes `canCollide2` and the exclude scan, through
    geoms that pass `filterCollisionPair`, where "an explicit pair exists for the two geoms" refers to the
    remaining pair list. -/
theorem driverLoop_dynamic (c : Cand M.ngeom) (hc : c.ipair = none) :
    ∀ (bfs : List (Fin M.nbody × Fin M.nbody)) (last : Option Nat) (ps : List (Pair M.ngeom)),
      bfs.Pairwise (fun a b => sigp M a ≤ sigp M b) →
      ps.Pairwise (fun p q => p.signature ≤ q.signature) →
      (∀ b ∈ bfs, b.1.val < b.2.val ∧ b.2.val < 65536) →
      (∀ l, last = some l → (∀ b ∈ bfs, l ≤ sigp M b) ∧ (∀ p ∈ ps, l < p.signature)) →
      PairSigOK M ps →
      (c ∈ flat (driverLoop M bfs last ps) ↔ ∃ b ∈ bfs, last ≠ some (sigp M b) ∧ DynFrom M ps b c)
  | [], last, ps, _, _, _, _, _ => by
    simp only [driverLoop, flat_map_cand, not_mem_nil, false_and, exists_false, iff_false]
    intro h
    obtain ⟨p, _, hp⟩ := explicitCands_ipair M h
    rw [hc] at hp; exact absurd hp (by simp)
  | (b1, b2) :: bfs, last, ps, hbs, hps, hlt, hl, hsig => by
    rw [pairwise_cons] at hbs
    have hlt' : ∀ b ∈ bfs, b.1.val < b.2.val ∧ b.2.val < 65536 := fun b hb => hlt b (mem_cons_of_mem _ hb)
    have hb12 := hlt (b1, b2) (by simp)
    unfold driverLoop
    simp only
    by_cases hskip : last = some (sig b1.val b2.val)
    · rw [if_pos hskip]
      have hl' : ∀ l, last = some l → (∀ b ∈ bfs, l ≤ sigp M b) ∧ (∀ p ∈ ps, l < p.signature) :=
        fun l h => ⟨fun b hb => (hl l h).1 b (mem_cons_of_mem _ hb), (hl l h).2⟩
      rw [driverLoop_dynamic c hc bfs last ps hbs.2 hps hlt' hl' hsig]
      constructor
      · rintro ⟨b, hb, h1, h2⟩; exact ⟨b, mem_cons_of_mem _ hb, h1, h2⟩
      · rintro ⟨b, hb, h1, h2⟩
        rcases mem_cons.mp hb with rfl | hb
        · exact absurd hskip h1
        · exact ⟨b, hb, h1, h2⟩
    · rw [if_neg hskip]
      -- abbreviations
      obtain ⟨s, hs⟩ : ∃ s, s = sig b1.val b2.val := ⟨_, rfl⟩
      rw [← hs] at hskip ⊢
      have hsp : sigp M (b1, b2) = s := hs.symm
      have hchunk := mem_takeWhile_sorted (fun p : Pair M.ngeom => p.signature) s ps hps
      have hrest := mem_dropWhile_sorted (fun p : Pair M.ngeom => p.signature) s ps hps
      have hrest_sorted : (ps.dropWhile (fun p => decide (p.signature ≤ s))).Pairwise (fun p q => p.signature ≤ q.signature) :=
        hps.sublist (dropWhile_sublist _)
      have hl' : ∀ l, some s = some l → (∀ b ∈ bfs, l ≤ sigp M b) ∧
          (∀ p ∈ ps.dropWhile (fun p => decide (p.signature ≤ s)), l < p.signature) := by
        intro l hl0
        have : s = l := Option.some.inj hl0
        subst this
        exact ⟨fun b hb => hsp ▸ hbs.1 b hb, fun p hp => ((hrest p).mp hp).2⟩
      have hsig' : PairSigOK M (ps.dropWhile (fun p => decide (p.signature ≤ s))) :=
        fun p hp => hsig p ((hrest p).mp hp).1
      rw [flat_append, flat_append, flat_map_cand, mem_append, mem_append,
        driverLoop_dynamic c hc bfs (some s) _ hbs.2 hrest_sorted hlt' hl' hsig']
      -- the contribution of this iteration
      have hthis : c ∈ flat (if (!canCollide2 M b1 b2) = true then [] else
            if excluded M s = true then [] else
              bodyPairItems M b1 b2
                (mergedOf (ps.takeWhile (fun p => decide (p.signature ≤ s))) s)
                (ps.takeWhile (fun p => decide (p.signature ≤ s)))) ↔ DynFrom M ps (b1, b2) c := by
        unfold DynFrom BodyPairOK
        rw [hsp]
        by_cases hcc : canCollide2 M b1 b2 = true
        · by_cases hex : excluded M s = true
          · simp [hcc, hex]
          · have hex' : excluded M s = false := by simpa using hex
            simp only [hcc, Bool.not_true, Bool.false_eq_true, ↓reduceIte, hex', true_and]
            rw [flat_bodyPairItems, mem_allToAll]
            constructor
            · rintro ⟨g1, h1, g2, h2, hf, rfl⟩
              refine ⟨g1, h1, g2, h2, ?_, rfl⟩
              exact (filterDyn_iff M ps hps s g1 g2 (fun p hp hm => hsp ▸ hsig p hp (b1, b2) g1 g2 hb12.1 h1 h2 hm)).mp hf
            · rintro ⟨g1, h1, g2, h2, hf, rfl⟩
              refine ⟨g1, h1, g2, h2, ?_, rfl⟩
              exact (filterDyn_iff M ps hps s g1 g2 (fun p hp hm => hsp ▸ hsig p hp (b1, b2) g1 g2 hb12.1 h1 h2 hm)).mpr hf
        · have hcc' : canCollide2 M b1 b2 = false := by simpa using hcc
          simp [hcc']
      rw [hthis]
      -- later iterations: the remaining pair list decides the same as the full one
      have hlater : ∀ b ∈ bfs, some s ≠ some (sigp M b) → (DynFrom M (ps.dropWhile (fun p => decide (p.signature ≤ s))) b c ↔ DynFrom M ps b c) := by
        intro b hb hne
        have hsb : s < sigp M b := by
          have h1 : s ≤ sigp M b := hsp ▸ hbs.1 b hb
          have h2 : s ≠ sigp M b := fun h => hne (by rw [h])
          omega
        unfold DynFrom
        refine and_congr Iff.rfl ?_
        refine exists_congr fun g1 => and_congr_right fun hg1 => (exists_congr fun g2 => ?_)
        constructor
        · rintro ⟨h2, hd, hcq⟩
          refine ⟨h2, ⟨?_, hd.2⟩, hcq⟩
          rintro ⟨p, hp, hm⟩
          apply hd.1
          have := hsig p hp b g1 g2 (hlt' b hb).1 hg1 h2 hm
          exact ⟨p, (hrest p).mpr ⟨hp, by omega⟩, hm⟩
        · rintro ⟨h2, hd, hcq⟩
          refine ⟨h2, ⟨?_, hd.2⟩, hcq⟩
          rintro ⟨p, hp, hm⟩
          exact hd.1 ⟨p, ((hrest p).mp hp).1, hm⟩
      constructor
      · rintro ((h | h) | ⟨b, hb, hne, h⟩)
        · exfalso
          obtain ⟨p, _, hp⟩ := explicitCands_ipair M h
          rw [hc] at hp; exact absurd hp (by simp)
        · exact ⟨(b1, b2), by simp, by rw [hsp]; exact hskip, h⟩
        · refine ⟨b, mem_cons_of_mem _ hb, ?_, (hlater b hb hne).mp h⟩
          intro hlast
          -- last = some (sigp b) with b later: last ≤ s < sigp b
          have h1 := (hl _ hlast).1 (b1, b2) (by simp)
          have h2 : s ≤ sigp M b := hsp ▸ hbs.1 b hb
          have h3 : s ≠ sigp M b := fun h => hne (by rw [h])
          rw [hsp] at h1
          omega
      · rintro ⟨b, hb, hne, h⟩
        rcases mem_cons.mp hb with rfl | hb
        · exact Or.inl (Or.inr h)
        · by_cases hsame : sigp M b = s
          · have : b = (b1, b2) := sigp_inj M (hlt' b hb).2 hb12.2 (by rw [hsame, hsp])
            subst this
            exact Or.inl (Or.inr h)
          · have hne' : some s ≠ some (sigp M b) := fun h => hsame (Option.some.inj h).symm
            exact Or.inr ⟨b, hb, hne', (hlater b hb hne').mpr h⟩

/-! ### the generated integer kernels -/

theorem genFilterBitmask_iff (ct1 ca1 ct2 ca2 : Int) :
    Gen.filterBitmask (α := Float) ct1 ca1 ct2 ca2 = 0 ↔ (intLand ct1 ca2 ≠ 0 ∨ intLand ct2 ca1 ≠ 0) := by
  unfold Gen.filterBitmask
  by_cases h1 : intLand ct1 ca2 = 0 <;> by_cases h2 : intLand ct2 ca1 = 0 <;> simp [h1, h2]

theorem genFilterBitmask_values (ct1 ca1 ct2 ca2 : Int) :
    Gen.filterBitmask (α := Float) ct1 ca1 ct2 ca2 = 0 ∨ Gen.filterBitmask (α := Float) ct1 ca1 ct2 ca2 = 1 := by
  unfold Gen.filterBitmask
  by_cases h1 : intLand ct1 ca2 = 0 <;> by_cases h2 : intLand ct2 ca1 = 0 <;> simp [h1, h2]

theorem genFilterBodyPair_iff (w1 pw1 as1 d1 w2 pw2 as2 d2 f : Int) :
    Gen.filterBodyPair (α := Float) w1 pw1 as1 d1 w2 pw2 as2 d2 f ≠ 0 ↔
      (w1 = w2 ∨ (d1 = 0 ∧ d2 = 0) ∨ (as1 ≠ 0 ∧ as2 ≠ 0) ∨ ((as1 ≠ 0 ∧ w2 = 0) ∨ (as2 ≠ 0 ∧ w1 = 0)) ∨
       (f = 0 ∧ w1 ≠ 0 ∧ w2 ≠ 0 ∧ (w1 = pw2 ∨ w2 = pw1))) := by
  unfold Gen.filterBodyPair
  simp only [decide_eq_true_eq]
  split_ifs <;> omega

theorem genFilterBodyPair_symm (w1 pw1 as1 d1 w2 pw2 as2 d2 f : Int) :
    (Gen.filterBodyPair (α := Float) w1 pw1 as1 d1 w2 pw2 as2 d2 f ≠ 0) ↔
    (Gen.filterBodyPair (α := Float) w2 pw2 as2 d2 w1 pw1 as1 d1 f ≠ 0) := by
  rw [genFilterBodyPair_iff, genFilterBodyPair_iff]
  omega

/-! ### C `&`, `|` on 32-bit ints -/

theorem bv_toInt_eq_zero {v : BitVec 32} : v.toInt = 0 ↔ v = 0 := by
  constructor
  · intro h
    have : v.toInt = (0 : BitVec 32).toInt := by simpa using h
    exact BitVec.eq_of_toInt_eq this
  · rintro rfl; simp

theorem intLand_ne_zero_iff (a b : Int) : intLand a b ≠ 0 ↔ BitVec.ofInt 32 a &&& BitVec.ofInt 32 b ≠ 0 := by
  unfold intLand; rw [Ne, bv_toInt_eq_zero]

theorem ofInt_intLor (a b : Int) : BitVec.ofInt 32 (intLor a b) = BitVec.ofInt 32 a ||| BitVec.ofInt 32 b := by
  unfold intLor; rw [BitVec.ofInt_toInt]

theorem bv_and_or_mono {A B X Y : BitVec 32} (h : A &&& B ≠ 0) : (A ||| X) &&& (B ||| Y) ≠ 0 := by
  intro h0
  apply h
  ext i hi
  have := congrArg (fun v => v.getLsbD i) h0
  simp only [BitVec.getLsbD_and, BitVec.getLsbD_or, BitVec.getLsbD_zero] at this
  simp only [BitVec.getElem_and, BitVec.getElem_zero]
  simp only [← BitVec.getLsbD_eq_getElem]
  cases hA : A.getLsbD i <;> cases hB : B.getLsbD i <;> simp_all

theorem intLand_zero_left (b : Int) : intLand 0 b = 0 := by
  unfold intLand; simp

theorem intLand_zero_right (a : Int) : intLand a 0 = 0 := by
  unfold intLand; simp

/-! ### mj_broadphase -/

/-- the compatibility test of `add_pair` (on the OR of the geom masks) -/
def orCompat (b1 b2 : Fin M.nbody) : Prop :=
  ¬ (intLand (geomOr M b1).1 (geomOr M b2).2 = 0 ∧ intLand (geomOr M b2).1 (geomOr M b1).2 = 0)

instance (b1 b2 : Fin M.nbody) : Decidable (orCompat M b1 b2) := by unfold orCompat; infer_instance

/-- the stored pair: lower body id first -/
def ordPair (b1 b2 : Fin M.nbody) : Fin M.nbody × Fin M.nbody := if b1.val < b2.val then (b1, b2) else (b2, b1)

theorem addPair_ok {maxpair : Nat} {b1 b2 : Fin M.nbody} {acc r : List (Fin M.nbody × Fin M.nbody)}
    (h : addPair M maxpair b1 b2 acc = .ok r) :
    r = if orCompat M b1 b2 then acc ++ [ordPair M b1 b2] else acc := by
  unfold addPair at h
  by_cases hlen : acc.length < maxpair
  · rw [if_pos hlen] at h
    dsimp only at h
    by_cases hc : orCompat M b1 b2
    · rw [if_pos hc]
      have hc' : ¬ (intLand (geomOr M b1).1 (geomOr M b2).2 = 0 ∧ intLand (geomOr M b2).1 (geomOr M b1).2 = 0) := hc
      rw [if_neg hc'] at h
      unfold ordPair
      by_cases hlt : b1.val < b2.val
      · rw [if_pos hlt] at h ⊢; exact (Except.ok.inj h).symm
      · rw [if_neg hlt] at h ⊢; exact (Except.ok.inj h).symm
    · rw [if_neg hc]
      have hc' : (intLand (geomOr M b1).1 (geomOr M b2).2 = 0 ∧ intLand (geomOr M b2).1 (geomOr M b1).2 = 0) :=
        not_not.mp hc
      rw [if_pos hc'] at h
      exact (Except.ok.inj h).symm
  · rw [if_neg hlen] at h
    cases h

theorem addPairs_ok {maxpair : Nat} : ∀ (l acc r : List (Fin M.nbody × Fin M.nbody)),
    addPairs M maxpair l acc = .ok r →
    r = acc ++ (l.filter (fun p => decide (orCompat M p.1 p.2))).map (fun p => ordPair M p.1 p.2)
  | [], acc, r, h => by
    simp only [addPairs] at h
    simp [(Except.ok.inj h).symm]
  | (b1, b2) :: rest, acc, r, h => by
    unfold addPairs at h
    split at h
    · rename_i acc' hacc
      have h1 := addPair_ok M hacc
      have h2 := addPairs_ok rest acc' r h
      rw [h2, h1]
      by_cases hc : orCompat M b1 b2
      · simp [hc, filter_cons]
      · simp [hc, filter_cons]
    · cases h

/-- the list `mj_SAP` hands back to `mj_broadphase` (empty when at most one bodyflex is collidable) -/
def sapList (boxes : List (Box (Fin M.nbody) Float32 Float)) : List (Fin M.nbody × Fin M.nbody) :=
  if (bfid M).length > 1 then
    (mjSAP sapCmp32 (fun (a b : Float) => a > b) boxes
      ((((bfid M).length * ((bfid M).length - 1)) / 2 : Nat) : Int)).2
  else []

theorem uintCmp_le (a b : Nat) : uintCmp a b ≤ 0 ↔ a ≤ b := by
  unfold uintCmp
  split
  · constructor <;> intro <;> omega
  · split
    · constructor <;> intro <;> omega
    · constructor <;> intro <;> omega

theorem bfCmp_totalPreorder : TotalPreorder (bfCmp M) := by
  constructor
  · intro a b; unfold bfCmp; rw [uintCmp_le, uintCmp_le]; omega
  · intro a b c; unfold bfCmp; rw [uintCmp_le, uintCmp_le, uintCmp_le]; omega

/-- **`mj_broadphase`**: when it returns (no buffer overflow, SAP did not fail) and some geom lies outside
    the world body, its output is sorted by signature and consists exactly of the `add_pair`-compatible,
    ordered versions of the init-loop pairs and of the SAP pairs that pass `filterBodyPair`. -/
theorem mem_broadphase {boxes : List (Box (Fin M.nbody) Float32 Float)} {maxpair : Nat}
    {bfs : List (Fin M.nbody × Fin M.nbody)}
    (hg : ∃ g : Fin M.ngeom, (M.geom[g].bodyid).val ≠ 0)
    (h : broadphase M boxes maxpair = .ok bfs) :
    (∀ b, b ∈ bfs ↔ ∃ x y, ((x, y) ∈ initPairs M ∨ ((x, y) ∈ sapList M boxes ∧ filterBody M x y = false)) ∧
        orCompat M x y ∧ b = ordPair M x y) ∧
    bfs.Pairwise (fun a b => sigp M a ≤ sigp M b) := by
  unfold broadphase at h
  split at h
  · cases h
  · rename_i acc0 hacc0
    have hnotall : ¬ ((List.finRange M.ngeom).all (fun g => decide ((M.geom[g].bodyid).val = 0)) = true) := by
      rw [all_eq_true]
      intro hall
      obtain ⟨g, hg⟩ := hg
      have := hall g (mem_finRange g)
      exact hg (by simpa using this)
    rw [if_neg hnotall] at h
    simp only at h
    -- the SAP result
    have hsap : ∃ sp, (if (bfid M).length > 1 then
          (if (mjSAP sapCmp32 (fun (a b : Float) => a > b) boxes
              ((((bfid M).length * ((bfid M).length - 1)) / 2 : Nat) : Int)).1 < 0
            then (Except.error "mj_broadphase: SAP failed" : Except String _)
            else .ok (mjSAP sapCmp32 (fun (a b : Float) => a > b) boxes
              ((((bfid M).length * ((bfid M).length - 1)) / 2 : Nat) : Int)).2)
          else .ok []) = .ok sp ∧ sp = sapList M boxes := by
      unfold sapList
      by_cases hn : (bfid M).length > 1
      · rw [if_pos hn, if_pos hn]
        by_cases hneg : (mjSAP sapCmp32 (fun (a b : Float) => a > b) boxes
              ((((bfid M).length * ((bfid M).length - 1)) / 2 : Nat) : Int)).1 < 0
        · rw [if_pos hn, if_pos hneg] at h
          cases h
        · rw [if_neg hneg]
          exact ⟨_, rfl, rfl⟩
      · rw [if_neg hn, if_neg hn]
        exact ⟨_, rfl, rfl⟩
    obtain ⟨sp, hsp1, hsp2⟩ := hsap
    rw [hsp1] at h
    simp only at h
    split at h
    · cases h
    · rename_i acc hacc
      have h0 := addPairs_ok M _ _ _ hacc0
      have h1 := addPairs_ok M _ _ _ hacc
      have hbfs := (Except.ok.inj h).symm
      simp only [nil_append] at h0
      -- membership in the unsorted buffer
      have hmem_acc : ∀ b, b ∈ acc ↔ ∃ x y, ((x, y) ∈ initPairs M ∨ ((x, y) ∈ sapList M boxes ∧ filterBody M x y = false)) ∧
          orCompat M x y ∧ b = ordPair M x y := by
        intro b
        rw [h1, h0, mem_append, mem_map, mem_map]
        constructor
        · rintro (⟨p, hp, rfl⟩ | ⟨p, hp, rfl⟩)
          · obtain ⟨hp1, hp2⟩ := mem_filter.mp hp
            exact ⟨p.1, p.2, Or.inl hp1, by simpa using hp2, rfl⟩
          · obtain ⟨hp1, hp2⟩ := mem_filter.mp hp
            obtain ⟨hp3, hp4⟩ := mem_filter.mp hp1
            exact ⟨p.1, p.2, Or.inr ⟨hsp2 ▸ hp3, by simpa using hp4⟩, by simpa using hp2, rfl⟩
        · rintro ⟨x, y, (hxy | ⟨hxy, hf⟩), hc, rfl⟩
          · exact Or.inl ⟨(x, y), mem_filter.mpr ⟨hxy, by simpa using hc⟩, rfl⟩
          · refine Or.inr ⟨(x, y), mem_filter.mpr ⟨mem_filter.mpr ⟨hsp2 ▸ hxy, by simpa using hf⟩, by simpa using hc⟩, rfl⟩
      by_cases hlen : acc.length > 1
      · rw [if_pos hlen] at hbfs
        have hst := MjProof.C22.mjSort_stableSorted (bfCmp_totalPreorder M) acc
        refine ⟨fun b => ?_, ?_⟩
        · rw [hbfs, hst.1.mem_iff, hmem_acc]
        · rw [hbfs]
          refine hst.2.1.imp ?_
          intro a b hab
          unfold Le bfCmp at hab
          rw [uintCmp_le] at hab
          exact hab
      · rw [if_neg hlen] at hbfs
        refine ⟨fun b => by rw [hbfs, hmem_acc], ?_⟩
        rw [hbfs]
        match acc, hlen with
        | [], _ => exact Pairwise.nil
        | [a], _ => exact pairwise_singleton _ _
        | _ :: _ :: _, hl => simp at hl

end MjProof.Broadphase
