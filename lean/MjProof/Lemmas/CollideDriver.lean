import MjProof.Lemmas.Broadphase
import MjProof.Spec.Collide
/-
Helper lemmas for C14, part 2: the pair loop of `mj_collision` and `mj_broadphase` (model in
`MjProof/Model/Broadphase.lean`) against the rule set `MjProof/Spec/Collide.lean`.
-/
namespace MjProof.Broadphase
open List MjProof.Sort

variable (M : Model)

/-- the candidates of an item (a mid-phase group stands for its all-to-all superset) -/
def Item.cands {nb ng : Nat} : Item nb ng → List (Cand ng)
  | .cand c => [c]
  | .mid _ _ cs => cs

/-- all candidates of an item list, in order -/
def flat {nb ng : Nat} (l : List (Item nb ng)) : List (Cand ng) := l.flatMap Item.cands

@[simp] theorem flat_nil {nb ng : Nat} : flat ([] : List (Item nb ng)) = [] := rfl

@[simp] theorem flat_append {nb ng : Nat} (a b : List (Item nb ng)) : flat (a ++ b) = flat a ++ flat b := by
  simp [flat]

@[simp] theorem flat_map_cand {nb ng : Nat} (l : List (Cand ng)) : flat (l.map (Item.cand (nbody := nb))) = l := by
  induction l with
  | nil => rfl
  | cons a l ih =>
    have : flat (Item.cand (nbody := nb) a :: l.map Item.cand) = a :: flat (l.map (Item.cand (nbody := nb))) := rfl
    rw [map_cons, this, ih]

theorem flat_bodyPairItems (b1 b2 : Fin M.nbody) (merged : Bool) (chunk : List (Pair M.ngeom)) :
    flat (bodyPairItems M b1 b2 merged chunk) = allToAll M b1 b2 merged chunk := by
  unfold bodyPairItems
  split
  · simp
  · split
    · simp [flat, Item.cands]
    · simp

/-! ### explicit pairs -/

theorem explicitCands_append (a b : List (Pair M.ngeom)) :
    explicitCands M (a ++ b) = explicitCands M a ++ explicitCands M b := by
  simp [explicitCands]

theorem push_ipair (g1 g2 : Fin M.ngeom) (k : Option Nat) : (push M g1 g2 k).ipair = k := by
  unfold push; split <;> rfl

theorem mem_allToAll {b1 b2 : Fin M.nbody} {merged : Bool} {chunk : List (Pair M.ngeom)} {c : Cand M.ngeom} :
    c ∈ allToAll M b1 b2 merged chunk ↔
      ∃ g1 ∈ geomsOf M b1, ∃ g2 ∈ geomsOf M b2, filterDyn M g1 g2 merged chunk = true ∧ c = push M g1 g2 none := by
  unfold allToAll
  simp only [mem_flatMap, mem_map, mem_filter]
  constructor
  · rintro ⟨g1, h1, g2, ⟨h2, hf⟩, rfl⟩
    exact ⟨g1, h1, g2, h2, hf, rfl⟩
  · rintro ⟨g1, h1, g2, h2, hf, rfl⟩
    exact ⟨g1, h1, g2, ⟨h2, hf⟩, rfl⟩

theorem allToAll_ipair {b1 b2 : Fin M.nbody} {merged : Bool} {chunk : List (Pair M.ngeom)} {c : Cand M.ngeom}
    (h : c ∈ allToAll M b1 b2 merged chunk) : c.ipair = none := by
  obtain ⟨g1, _, g2, _, _, rfl⟩ := (mem_allToAll M).mp h
  exact push_ipair M g1 g2 none

theorem explicitCands_ipair {ps : List (Pair M.ngeom)} {c : Cand M.ngeom} (h : c ∈ explicitCands M ps) :
    ∃ p ∈ ps, c.ipair = some p.idx := by
  unfold explicitCands at h
  obtain ⟨p, hp, rfl⟩ := mem_map.mp h
  exact ⟨p, (mem_filter.mp hp).1, push_ipair M _ _ _⟩

/-- explicit pairs: every pair of the list is handed to the narrow phase iff it passes filters 1 and 2,
    whatever the broad phase returned -/
theorem driverLoop_explicit (c : Cand M.ngeom) (k : Nat) (hk : c.ipair = some k) :
    ∀ (bfs : List (Fin M.nbody × Fin M.nbody)) (last : Option Nat) (ps : List (Pair M.ngeom)),
      c ∈ flat (driverLoop M bfs last ps) ↔ c ∈ explicitCands M ps
  | [], last, ps => by simp [driverLoop]
  | (b1, b2) :: bfs, last, ps => by
    unfold driverLoop
    simp only
    split
    · exact driverLoop_explicit c k hk bfs last ps
    · rw [flat_append, flat_append, flat_map_cand, mem_append, mem_append,
        driverLoop_explicit c k hk bfs _ _]
      have hsplit : explicitCands M ps =
          explicitCands M (ps.takeWhile (fun p => decide (p.signature ≤ sig b1.val b2.val))) ++
          explicitCands M (ps.dropWhile (fun p => decide (p.signature ≤ sig b1.val b2.val))) := by
        rw [← explicitCands_append, takeWhile_append_dropWhile]
      rw [hsplit, mem_append]
      constructor
      · rintro ((h | h) | h)
        · exact Or.inl h
        · exfalso
          have hnone : c.ipair = none := by
            split at h
            · simp at h
            · split at h
              · simp at h
              · rw [flat_bodyPairItems] at h
                exact allToAll_ipair M h
          rw [hk] at hnone; exact absurd hnone (by simp)
        · exact Or.inr h
      · rintro (h | h)
        · exact Or.inl (Or.inl h)
        · exact Or.inr h

/-! ### sorted prefix / suffix -/

theorem mem_takeWhile_sorted {α : Type} (f : α → Nat) (s : Nat) : ∀ (l : List α),
    l.Pairwise (fun a b => f a ≤ f b) → ∀ x, (x ∈ l.takeWhile (fun p => decide (f p ≤ s)) ↔ x ∈ l ∧ f x ≤ s)
  | [], _, x => by simp
  | a :: l, h, x => by
    rw [pairwise_cons] at h
    by_cases ha : f a ≤ s
    · rw [takeWhile_cons_of_pos (by simpa using ha), mem_cons, mem_takeWhile_sorted f s l h.2 x, mem_cons]
      constructor
      · rintro (rfl | ⟨h1, h2⟩)
        · exact ⟨Or.inl rfl, ha⟩
        · exact ⟨Or.inr h1, h2⟩
      · rintro ⟨rfl | h1, h2⟩
        · exact Or.inl rfl
        · exact Or.inr ⟨h1, h2⟩
    · rw [takeWhile_cons_of_neg (by simpa using ha)]
      constructor
      · intro h'; simp at h'
      · rintro ⟨hx, hxs⟩
        rcases mem_cons.mp hx with rfl | hx
        · exact absurd hxs ha
        · have := h.1 x hx; omega

theorem mem_dropWhile_sorted {α : Type} (f : α → Nat) (s : Nat) : ∀ (l : List α),
    l.Pairwise (fun a b => f a ≤ f b) → ∀ x, (x ∈ l.dropWhile (fun p => decide (f p ≤ s)) ↔ x ∈ l ∧ s < f x)
  | [], _, x => by simp
  | a :: l, h, x => by
    rw [pairwise_cons] at h
    by_cases ha : f a ≤ s
    · rw [dropWhile_cons_of_pos (by simpa using ha), mem_dropWhile_sorted f s l h.2 x, mem_cons]
      constructor
      · rintro ⟨h1, h2⟩; exact ⟨Or.inr h1, h2⟩
      · rintro ⟨rfl | h1, h2⟩
        · omega
        · exact ⟨h1, h2⟩
    · rw [dropWhile_cons_of_neg (by simpa using ha)]
      constructor
      · intro hx
        refine ⟨hx, ?_⟩
        rcases mem_cons.mp hx with rfl | hx
        · omega
        · have := h.1 x hx; omega
      · rintro ⟨hx, _⟩; exact hx

theorem getLast?_ge_of_sorted {α : Type} (f : α → Nat) : ∀ (l : List α), l.Pairwise (fun a b => f a ≤ f b) →
    ∀ x ∈ l, ∃ y, l.getLast? = some y ∧ f x ≤ f y
  | [], _, x, hx => by simp at hx
  | [a], _, x, hx => by
    rw [mem_singleton] at hx; subst hx; exact ⟨x, rfl, Nat.le_refl _⟩
  | a :: b :: l, h, x, hx => by
    rw [pairwise_cons] at h
    rw [getLast?_cons_cons]
    rcases mem_cons.mp hx with rfl | hx
    · obtain ⟨y, hy, hby⟩ := getLast?_ge_of_sorted f (b :: l) h.2 b (by simp)
      exact ⟨y, hy, Nat.le_trans (h.1 b (by simp)) hby⟩
    · exact getLast?_ge_of_sorted f (b :: l) h.2 x hx

/-! ### dynamic pairs -/

/-- signature of a structured bodyflex pair -/
def sigp (b : Fin M.nbody × Fin M.nbody) : Nat := sig b.1.val b.2.val

/-- the explicit pair `p` names the geoms `g1`, `g2` (either order): the test of `filterCollisionPair` -/
def Matches (p : Pair M.ngeom) (g1 g2 : Fin M.ngeom) : Prop :=
  (p.g1 = g1 ∧ p.g2 = g2) ∨ (p.g1 = g2 ∧ p.g2 = g1)

instance (p : Pair M.ngeom) (g1 g2 : Fin M.ngeom) : Decidable (Matches M p g1 g2) := by
  unfold Matches; infer_instance

/-- what `filterCollisionPair(…, -1, merged, startadr, pairadr)` decides, stated without the merge window -/
def DynOK (ps : List (Pair M.ngeom)) (g1 g2 : Fin M.ngeom) : Prop :=
  (¬ ∃ p ∈ ps, Matches M p g1 g2) ∧
  Gen.filterBitmask (α := Float) M.geom[g1].contype M.geom[g1].conaffinity M.geom[g2].contype M.geom[g2].conaffinity = 0 ∧
  M.near g1 g2 = true ∧ funcOK M g1 g2 = true

/-- bodyflex-level tests of the loop: `canCollide2` and the `exclude` scan -/
def BodyPairOK (b : Fin M.nbody × Fin M.nbody) : Prop :=
  canCollide2 M b.1 b.2 = true ∧ excluded M (sigp M b) = false

theorem sigp_inj {a b : Fin M.nbody × Fin M.nbody} (ha : a.2.val < 65536) (hb : b.2.val < 65536)
    (h : sigp M a = sigp M b) : a = b := by
  unfold sigp sig at h
  have h1 : a.1.val = b.1.val := by omega
  have h2 : a.2.val = b.2.val := by omega
  exact Prod.ext (Fin.ext h1) (Fin.ext h2)

/-- `filterDyn` with the merge window `[startadr, pairadr)` of a sorted pair list equals the window-free test,
    provided every explicit pair on the two geoms carries the signature of the body pair -/
theorem filterDyn_iff (ps : List (Pair M.ngeom)) (hps : ps.Pairwise (fun p q => p.signature ≤ q.signature))
    (s : Nat) (g1 g2 : Fin M.ngeom) (hsig : ∀ p ∈ ps, Matches M p g1 g2 → p.signature = s) :
    filterDyn M g1 g2
        (mergedOf (ps.takeWhile (fun p => decide (p.signature ≤ s))) s)
        (ps.takeWhile (fun p => decide (p.signature ≤ s))) = true ↔ DynOK M ps g1 g2 := by
  have hchunk := mem_takeWhile_sorted (fun p : Pair M.ngeom => p.signature) s ps hps
  have hsorted_chunk : (ps.takeWhile (fun p => decide (p.signature ≤ s))).Pairwise (fun p q => p.signature ≤ q.signature) :=
    hps.sublist (takeWhile_sublist _)
  -- the window test is equivalent to the existence of a matching pair in the whole list
  have hwin : (mergedOf (ps.takeWhile (fun p => decide (p.signature ≤ s))) s &&
        (ps.takeWhile (fun p => decide (p.signature ≤ s))).any
          (fun p => decide ((p.g1 = g1 ∧ p.g2 = g2) ∨ (p.g1 = g2 ∧ p.g2 = g1)))) = true ↔
      ∃ p ∈ ps, Matches M p g1 g2 := by
    rw [Bool.and_eq_true, any_eq_true]
    constructor
    · rintro ⟨_, p, hp, hm⟩
      exact ⟨p, ((hchunk p).mp hp).1, by simpa [Matches] using hm⟩
    · rintro ⟨p, hp, hm⟩
      have hpsig := hsig p hp hm
      have hpc : p ∈ ps.takeWhile (fun p => decide (p.signature ≤ s)) := (hchunk p).mpr ⟨hp, by omega⟩
      refine ⟨?_, p, hpc, by simpa [Matches] using hm⟩
      obtain ⟨y, hy, hle⟩ := getLast?_ge_of_sorted (fun p : Pair M.ngeom => p.signature) _ hsorted_chunk p hpc
      have hyc : y ∈ ps.takeWhile (fun p => decide (p.signature ≤ s)) := mem_of_getLast? hy
      have hys := ((hchunk y).mp hyc).2
      unfold mergedOf
      rw [hy]
      simp only [beq_iff_eq]
      omega
  unfold filterDyn DynOK
  by_cases hm : ∃ p ∈ ps, Matches M p g1 g2
  · rw [if_pos (hwin.mpr hm)]
    simp [hm]
  · have hw : ¬ (_ = true) := fun h => hm (hwin.mp h)
    rw [if_neg hw]
    by_cases hb : Gen.filterBitmask (α := Float) M.geom[g1].contype M.geom[g1].conaffinity
        M.geom[g2].contype M.geom[g2].conaffinity = 0
    · by_cases hn : M.near g1 g2 = true
      · simp [hm, hb, hn]
      · simp [hm, hb, hn]
    · simp [hm, hb]

/-- the explicit pairs on the geoms of a body pair carry that body pair's signature -/
def PairSigOK (ps : List (Pair M.ngeom)) : Prop :=
  ∀ p ∈ ps, ∀ (b : Fin M.nbody × Fin M.nbody) (g1 g2 : Fin M.ngeom), b.1.val < b.2.val →
    g1 ∈ geomsOf M b.1 → g2 ∈ geomsOf M b.2 → Matches M p g1 g2 → p.signature = sigp M b

/-- what one iteration contributes -/
def DynFrom (ps : List (Pair M.ngeom)) (b : Fin M.nbody × Fin M.nbody) (c : Cand M.ngeom) : Prop :=
  BodyPairOK M b ∧ ∃ g1 ∈ geomsOf M b.1, ∃ g2 ∈ geomsOf M b.2, DynOK M ps g1 g2 ∧ c = push M g1 g2 none

/-- **Loop invariant of the bodyflex-pair loop.**  For a sorted broad-phase list, a sorted explicit-pair list of
    which everything up to `last` has been consumed: a dynamic candidate is produced iff it comes from some
    listed body pair (other than a repetition of `last`) that passes `canCollide2` and the exclude scan, through
    geoms that pass `filterCollisionPair`, where "an explicit pair exists for the two geoms" refers to the
    remaining pair list. -/
theorem driverLoop_dynamic (c : Cand M.ngeom) (hc : c.ipair = none) :
    ∀ (bfs : List (Fin M.nbody × Fin M.nbody)) (last : Option Nat) (ps : List (Pair M.ngeom)),
      bfs.Pairwise (fun a b => sigp M a ≤ sigp M b) →
      ps.Pairwise (fun p q => p.signature ≤ q.signature) →
      (∀ b ∈ bfs, b.1.val < b.2.val ∧ b.2.val < 65536) →
      (∀ l, last = some l → (∀ b ∈ bfs, l ≤ sigp M b) ∧ (∀ p ∈ ps, l < p.signature)) →
      PairSigOK M ps →
      (c ∈ flat (driverLoop M bfs last ps) ↔ ∃ b ∈ bfs, last ≠ some (sigp M b) ∧ DynFrom M ps b c)
  | [], last, ps, _, _, _, _, _ => by
    simp only [driverLoop, flat_map_cand, not_mem_nil, false_and, exists_false, iff_false]
    intro h
    obtain ⟨p, _, hp⟩ := explicitCands_ipair M h
    rw [hc] at hp; exact absurd hp (by simp)
  | (b1, b2) :: bfs, last, ps, hbs, hps, hlt, hl, hsig => by
    rw [pairwise_cons] at hbs
    have hlt' : ∀ b ∈ bfs, b.1.val < b.2.val ∧ b.2.val < 65536 := fun b hb => hlt b (mem_cons_of_mem _ hb)
    have hb12 := hlt (b1, b2) (by simp)
    unfold driverLoop
    simp only
    by_cases hskip : last = some (sig b1.val b2.val)
    · rw [if_pos hskip]
      have hl' : ∀ l, last = some l → (∀ b ∈ bfs, l ≤ sigp M b) ∧ (∀ p ∈ ps, l < p.signature) :=
        fun l h => ⟨fun b hb => (hl l h).1 b (mem_cons_of_mem _ hb), (hl l h).2⟩
      rw [driverLoop_dynamic c hc bfs last ps hbs.2 hps hlt' hl' hsig]
      constructor
      · rintro ⟨b, hb, h1, h2⟩; exact ⟨b, mem_cons_of_mem _ hb, h1, h2⟩
      · rintro ⟨b, hb, h1, h2⟩
        rcases mem_cons.mp hb with rfl | hb
        · exact absurd hskip h1
        · exact ⟨b, hb, h1, h2⟩
    · rw [if_neg hskip]
      -- abbreviations
      obtain ⟨s, hs⟩ : ∃ s, s = sig b1.val b2.val := ⟨_, rfl⟩
      rw [← hs] at hskip ⊢
      have hsp : sigp M (b1, b2) = s := hs.symm
      have hchunk := mem_takeWhile_sorted (fun p : Pair M.ngeom => p.signature) s ps hps
      have hrest := mem_dropWhile_sorted (fun p : Pair M.ngeom => p.signature) s ps hps
      have hrest_sorted : (ps.dropWhile (fun p => decide (p.signature ≤ s))).Pairwise (fun p q => p.signature ≤ q.signature) :=
        hps.sublist (dropWhile_sublist _)
      have hl' : ∀ l, some s = some l → (∀ b ∈ bfs, l ≤ sigp M b) ∧
          (∀ p ∈ ps.dropWhile (fun p => decide (p.signature ≤ s)), l < p.signature) := by
        intro l hl0
        have : s = l := Option.some.inj hl0
        subst this
        exact ⟨fun b hb => hsp ▸ hbs.1 b hb, fun p hp => ((hrest p).mp hp).2⟩
      have hsig' : PairSigOK M (ps.dropWhile (fun p => decide (p.signature ≤ s))) :=
        fun p hp => hsig p ((hrest p).mp hp).1
      rw [flat_append, flat_append, flat_map_cand, mem_append, mem_append,
        driverLoop_dynamic c hc bfs (some s) _ hbs.2 hrest_sorted hlt' hl' hsig']
      -- the contribution of this iteration
      have hthis : c ∈ flat (if (!canCollide2 M b1 b2) = true then [] else
            if excluded M s = true then [] else
              bodyPairItems M b1 b2
                (mergedOf (ps.takeWhile (fun p => decide (p.signature ≤ s))) s)
                (ps.takeWhile (fun p => decide (p.signature ≤ s)))) ↔ DynFrom M ps (b1, b2) c := by
        unfold DynFrom BodyPairOK
        rw [hsp]
        by_cases hcc : canCollide2 M b1 b2 = true
        · by_cases hex : excluded M s = true
          · simp [hcc, hex]
          · have hex' : excluded M s = false := by simpa using hex
            simp only [hcc, Bool.not_true, Bool.false_eq_true, ↓reduceIte, hex', true_and]
            rw [flat_bodyPairItems, mem_allToAll]
            constructor
            · rintro ⟨g1, h1, g2, h2, hf, rfl⟩
              refine ⟨g1, h1, g2, h2, ?_, rfl⟩
              exact (filterDyn_iff M ps hps s g1 g2 (fun p hp hm => hsp ▸ hsig p hp (b1, b2) g1 g2 hb12.1 h1 h2 hm)).mp hf
            · rintro ⟨g1, h1, g2, h2, hf, rfl⟩
              refine ⟨g1, h1, g2, h2, ?_, rfl⟩
              exact (filterDyn_iff M ps hps s g1 g2 (fun p hp hm => hsp ▸ hsig p hp (b1, b2) g1 g2 hb12.1 h1 h2 hm)).mpr hf
        · have hcc' : canCollide2 M b1 b2 = false := by simpa using hcc
          simp [hcc']
      rw [hthis]
      -- later iterations: the remaining pair list decides the same as the full one
      have hlater : ∀ b ∈ bfs, some s ≠ some (sigp M b) → (DynFrom M (ps.dropWhile (fun p => decide (p.signature ≤ s))) b c ↔ DynFrom M ps b c) := by
        intro b hb hne
        have hsb : s < sigp M b := by
          have h1 : s ≤ sigp M b := hsp ▸ hbs.1 b hb
          have h2 : s ≠ sigp M b := fun h => hne (by rw [h])
          omega
        unfold DynFrom
        refine and_congr Iff.rfl ?_
        refine exists_congr fun g1 => and_congr_right fun hg1 => (exists_congr fun g2 => ?_)
        constructor
        · rintro ⟨h2, hd, hcq⟩
          refine ⟨h2, ⟨?_, hd.2⟩, hcq⟩
          rintro ⟨p, hp, hm⟩
          apply hd.1
          have := hsig p hp b g1 g2 (hlt' b hb).1 hg1 h2 hm
          exact ⟨p, (hrest p).mpr ⟨hp, by omega⟩, hm⟩
        · rintro ⟨h2, hd, hcq⟩
          refine ⟨h2, ⟨?_, hd.2⟩, hcq⟩
          rintro ⟨p, hp, hm⟩
          exact hd.1 ⟨p, ((hrest p).mp hp).1, hm⟩
      constructor
      · rintro ((h | h) | ⟨b, hb, hne, h⟩)
        · exfalso
          obtain ⟨p, _, hp⟩ := explicitCands_ipair M h
          rw [hc] at hp; exact absurd hp (by simp)
        · exact ⟨(b1, b2), by simp, by rw [hsp]; exact hskip, h⟩
        · refine ⟨b, mem_cons_of_mem _ hb, ?_, (hlater b hb hne).mp h⟩
          intro hlast
          -- last = some (sigp b) with b later: last ≤ s < sigp b
          have h1 := (hl _ hlast).1 (b1, b2) (by simp)
          have h2 : s ≤ sigp M b := hsp ▸ hbs.1 b hb
          have h3 : s ≠ sigp M b := fun h => hne (by rw [h])
          rw [hsp] at h1
          omega
      · rintro ⟨b, hb, hne, h⟩
        rcases mem_cons.mp hb with rfl | hb
        · exact Or.inl (Or.inr h)
        · by_cases hsame : sigp M b = s
          · have : b = (b1, b2) := sigp_inj M (hlt' b hb).2 hb12.2 (by rw [hsame, hsp])
            subst this
            exact Or.inl (Or.inr h)
          · have hne' : some s ≠ some (sigp M b) := fun h => hsame (Option.some.inj h).symm
            exact Or.inr ⟨b, hb, hne', (hlater b hb hne').mpr h⟩

/-! ### the generated integer kernels -/

theorem genFilterBitmask_iff (ct1 ca1 ct2 ca2 : Int) :
    Gen.filterBitmask (α := Float) ct1 ca1 ct2 ca2 = 0 ↔ (intLand ct1 ca2 ≠ 0 ∨ intLand ct2 ca1 ≠ 0) := by
  unfold Gen.filterBitmask
  by_cases h1 : intLand ct1 ca2 = 0 <;> by_cases h2 : intLand ct2 ca1 = 0 <;> simp [h1, h2]

theorem genFilterBitmask_values (ct1 ca1 ct2 ca2 : Int) :
    Gen.filterBitmask (α := Float) ct1 ca1 ct2 ca2 = 0 ∨ Gen.filterBitmask (α := Float) ct1 ca1 ct2 ca2 = 1 := by
  unfold Gen.filterBitmask
  by_cases h1 : intLand ct1 ca2 = 0 <;> by_cases h2 : intLand ct2 ca1 = 0 <;> simp [h1, h2]

theorem genFilterBodyPair_iff (w1 pw1 as1 d1 w2 pw2 as2 d2 f : Int) :
    Gen.filterBodyPair (α := Float) w1 pw1 as1 d1 w2 pw2 as2 d2 f ≠ 0 ↔
      (w1 = w2 ∨ (d1 = 0 ∧ d2 = 0) ∨ (as1 ≠ 0 ∧ as2 ≠ 0) ∨ ((as1 ≠ 0 ∧ w2 = 0) ∨ (as2 ≠ 0 ∧ w1 = 0)) ∨
       (f = 0 ∧ w1 ≠ 0 ∧ w2 ≠ 0 ∧ (w1 = pw2 ∨ w2 = pw1))) := by
  unfold Gen.filterBodyPair
  simp only [decide_eq_true_eq]
  split_ifs <;> omega

theorem genFilterBodyPair_symm (w1 pw1 as1 d1 w2 pw2 as2 d2 f : Int) :
    (Gen.filterBodyPair (α := Float) w1 pw1 as1 d1 w2 pw2 as2 d2 f ≠ 0) ↔
    (Gen.filterBodyPair (α := Float) w2 pw2 as2 d2 w1 pw1 as1 d1 f ≠ 0) := by
  rw [genFilterBodyPair_iff, genFilterBodyPair_iff]
  omega

/-! ### C `&`, `|` on 32-bit ints -/

theorem bv_toInt_eq_zero {v : BitVec 32} : v.toInt = 0 ↔ v = 0 := by
  constructor
  · intro h
    have : v.toInt = (0 : BitVec 32).toInt := by simpa using h
    exact BitVec.eq_of_toInt_eq this
  · rintro rfl; simp

theorem intLand_ne_zero_iff (a b : Int) : intLand a b ≠ 0 ↔ BitVec.ofInt 32 a &&& BitVec.ofInt 32 b ≠ 0 := by
  unfold intLand; rw [Ne, bv_toInt_eq_zero]

theorem ofInt_intLor (a b : Int) : BitVec.ofInt 32 (intLor a b) = BitVec.ofInt 32 a ||| BitVec.ofInt 32 b := by
  unfold intLor; rw [BitVec.ofInt_toInt]

theorem bv_and_or_mono {A B X Y : BitVec 32} (h : A &&& B ≠ 0) : (A ||| X) &&& (B ||| Y) ≠ 0 := by
  intro h0
  apply h
  ext i hi
  have := congrArg (fun v => v.getLsbD i) h0
  simp only [BitVec.getLsbD_and, BitVec.getLsbD_or, BitVec.getLsbD_zero] at this
  simp only [BitVec.getElem_and, BitVec.getElem_zero]
  simp only [← BitVec.getLsbD_eq_getElem]
  cases hA : A.getLsbD i <;> cases hB : B.getLsbD i <;> simp_all

theorem intLand_zero_left (b : Int) : intLand 0 b = 0 := by
  unfold intLand; simp

theorem intLand_zero_right (a : Int) : intLand a 0 = 0 := by
  unfold intLand; simp

/-! ### mj_broadphase -/

/-- the compatibility test of `add_pair` (on the OR of the geom masks) -/
def orCompat (b1 b2 : Fin M.nbody) : Prop :=
  ¬ (intLand (geomOr M b1).1 (geomOr M b2).2 = 0 ∧ intLand (geomOr M b2).1 (geomOr M b1).2 = 0)

instance (b1 b2 : Fin M.nbody) : Decidable (orCompat M b1 b2) := by unfold orCompat; infer_instance

/-- the stored pair: lower body id first -/
def ordPair (b1 b2 : Fin M.nbody) : Fin M.nbody × Fin M.nbody := if b1.val < b2.val then (b1, b2) else (b2, b1)

theorem addPair_ok {maxpair : Nat} {b1 b2 : Fin M.nbody} {acc r : List (Fin M.nbody × Fin M.nbody)}
    (h : addPair M maxpair b1 b2 acc = .ok r) :
    r = if orCompat M b1 b2 then acc ++ [ordPair M b1 b2] else acc := by
  unfold addPair at h
  by_cases hlen : acc.length < maxpair
  · rw [if_pos hlen] at h
    dsimp only at h
    by_cases hc : orCompat M b1 b2
    · rw [if_pos hc]
      have hc' : ¬ (intLand (geomOr M b1).1 (geomOr M b2).2 = 0 ∧ intLand (geomOr M b2).1 (geomOr M b1).2 = 0) := hc
      rw [if_neg hc'] at h
      unfold ordPair
      by_cases hlt : b1.val < b2.val
      · rw [if_pos hlt] at h ⊢; exact (Except.ok.inj h).symm
      · rw [if_neg hlt] at h ⊢; exact (Except.ok.inj h).symm
    · rw [if_neg hc]
      have hc' : (intLand (geomOr M b1).1 (geomOr M b2).2 = 0 ∧ intLand (geomOr M b2).1 (geomOr M b1).2 = 0) :=
        not_not.mp hc
      rw [if_pos hc'] at h
      exact (Except.ok.inj h).symm
  · rw [if_neg hlen] at h
    cases h

theorem addPairs_ok {maxpair : Nat} : ∀ (l acc r : List (Fin M.nbody × Fin M.nbody)),
    addPairs M maxpair l acc = .ok r →
    r = acc ++ (l.filter (fun p => decide (orCompat M p.1 p.2))).map (fun p => ordPair M p.1 p.2)
  | [], acc, r, h => by
    simp only [addPairs] at h
    simp [(Except.ok.inj h).symm]
  | (b1, b2) :: rest, acc, r, h => by
    unfold addPairs at h
    split at h
    · rename_i acc' hacc
      have h1 := addPair_ok M hacc
      have h2 := addPairs_ok rest acc' r h
      rw [h2, h1]
      by_cases hc : orCompat M b1 b2
      · simp [hc, filter_cons]
      · simp [hc, filter_cons]
    · cases h

/-- the list `mj_SAP` hands back to `mj_broadphase` (empty when at most one bodyflex is collidable) -/
def sapList (boxes : List (Box (Fin M.nbody) Float32 Float)) : List (Fin M.nbody × Fin M.nbody) :=
  if (bfid M).length > 1 then
    (mjSAP sapCmp32 (fun (a b : Float) => a > b) boxes
      ((((bfid M).length * ((bfid M).length - 1)) / 2 : Nat) : Int)).2
  else []

theorem uintCmp_le (a b : Nat) : uintCmp a b ≤ 0 ↔ a ≤ b := by
  unfold uintCmp
  split
  · constructor <;> intro <;> omega
  · split
    · constructor <;> intro <;> omega
    · constructor <;> intro <;> omega

theorem bfCmp_totalPreorder : TotalPreorder (bfCmp M) := by
  constructor
  · intro a b; unfold bfCmp; rw [uintCmp_le, uintCmp_le]; omega
  · intro a b c; unfold bfCmp; rw [uintCmp_le, uintCmp_le, uintCmp_le]; omega

/-- **`mj_broadphase`**: when it returns (no buffer overflow, SAP did not fail) and some geom lies outside
    the world body, its output is sorted by signature and consists exactly of the `add_pair`-compatible,
    ordered versions of the init-loop pairs and of the SAP pairs that pass `filterBodyPair`. -/
theorem mem_broadphase {boxes : List (Box (Fin M.nbody) Float32 Float)} {maxpair : Nat}
    {bfs : List (Fin M.nbody × Fin M.nbody)}
    (hg : ∃ g : Fin M.ngeom, (M.geom[g].bodyid).val ≠ 0)
    (h : broadphase M boxes maxpair = .ok bfs) :
    (∀ b, b ∈ bfs ↔ ∃ x y, ((x, y) ∈ initPairs M ∨ ((x, y) ∈ sapList M boxes ∧ filterBody M x y = false)) ∧
        orCompat M x y ∧ b = ordPair M x y) ∧
    bfs.Pairwise (fun a b => sigp M a ≤ sigp M b) := by
  unfold broadphase at h
  split at h
  · cases h
  · rename_i acc0 hacc0
    have hnotall : ¬ ((List.finRange M.ngeom).all (fun g => decide ((M.geom[g].bodyid).val = 0)) = true) := by
      rw [all_eq_true]
      intro hall
      obtain ⟨g, hg⟩ := hg
      have := hall g (mem_finRange g)
      exact hg (by simpa using this)
    rw [if_neg hnotall] at h
    simp only at h
    -- the SAP result
    have hsap : ∃ sp, (if (bfid M).length > 1 then
          (if (mjSAP sapCmp32 (fun (a b : Float) => a > b) boxes
              ((((bfid M).length * ((bfid M).length - 1)) / 2 : Nat) : Int)).1 < 0
            then (Except.error "mj_broadphase: SAP failed" : Except String _)
            else .ok (mjSAP sapCmp32 (fun (a b : Float) => a > b) boxes
              ((((bfid M).length * ((bfid M).length - 1)) / 2 : Nat) : Int)).2)
          else .ok []) = .ok sp ∧ sp = sapList M boxes := by
      unfold sapList
      by_cases hn : (bfid M).length > 1
      · rw [if_pos hn, if_pos hn]
        by_cases hneg : (mjSAP sapCmp32 (fun (a b : Float) => a > b) boxes
              ((((bfid M).length * ((bfid M).length - 1)) / 2 : Nat) : Int)).1 < 0
        · rw [if_pos hn, if_pos hneg] at h
          cases h
        · rw [if_neg hneg]
          exact ⟨_, rfl, rfl⟩
      · rw [if_neg hn, if_neg hn]
        exact ⟨_, rfl, rfl⟩
    obtain ⟨sp, hsp1, hsp2⟩ := hsap
    rw [hsp1] at h
    simp only at h
    split at h
    · cases h
    · rename_i acc hacc
      have h0 := addPairs_ok M _ _ _ hacc0
      have h1 := addPairs_ok M _ _ _ hacc
      have hbfs := (Except.ok.inj h).symm
      simp only [nil_append] at h0
      -- membership in the unsorted buffer
      have hmem_acc : ∀ b, b ∈ acc ↔ ∃ x y, ((x, y) ∈ initPairs M ∨ ((x, y) ∈ sapList M boxes ∧ filterBody M x y = false)) ∧
          orCompat M x y ∧ b = ordPair M x y := by
        intro b
        rw [h1, h0, mem_append, mem_map, mem_map]
        constructor
        · rintro (⟨p, hp, rfl⟩ | ⟨p, hp, rfl⟩)
          · obtain ⟨hp1, hp2⟩ := mem_filter.mp hp
            exact ⟨p.1, p.2, Or.inl hp1, by simpa using hp2, rfl⟩
          · obtain ⟨hp1, hp2⟩ := mem_filter.mp hp
            obtain ⟨hp3, hp4⟩ := mem_filter.mp hp1
            exact ⟨p.1, p.2, Or.inr ⟨hsp2 ▸ hp3, by simpa using hp4⟩, by simpa using hp2, rfl⟩
        · rintro ⟨x, y, (hxy | ⟨hxy, hf⟩), hc, rfl⟩
          · exact Or.inl ⟨(x, y), mem_filter.mpr ⟨hxy, by simpa using hc⟩, rfl⟩
          · refine Or.inr ⟨(x, y), mem_filter.mpr ⟨mem_filter.mpr ⟨hsp2 ▸ hxy, by simpa using hf⟩, by simpa using hc⟩, rfl⟩
      by_cases hlen : acc.length > 1
      · rw [if_pos hlen] at hbfs
        have hst := MjProof.C22.mjSort_stableSorted (bfCmp_totalPreorder M) acc
        refine ⟨fun b => ?_, ?_⟩
        · rw [hbfs, hst.1.mem_iff, hmem_acc]
        · rw [hbfs]
          refine hst.2.1.imp ?_
          intro a b hab
          unfold Le bfCmp at hab
          rw [uintCmp_le] at hab
          exact hab
      · rw [if_neg hlen] at hbfs
        refine ⟨fun b => by rw [hbfs, hmem_acc], ?_⟩
        rw [hbfs]
        match acc, hlen with
        | [], _ => exact Pairwise.nil
        | [a], _ => exact pairwise_singleton _ _
        | _ :: _ :: _, hl => simp at hl

/-! ### well-formedness of the compiled model (compiler invariants, checked on every generated scene) -/

structure WF : Prop where
  /-- ids fit the 16-bit halves of a signature -/
  nbody_le : M.nbody ≤ 65536
  /-- `body_geomadr/body_geomnum` and `geom_bodyid` describe the same partition -/
  geom_body : ∀ (g : Fin M.ngeom) (b : Fin M.nbody), g ∈ geomsOf M b ↔ M.geom[g].bodyid = b
  /-- `pair_signature = (body1 << 16) + body2` with `body1 ≤ body2` -/
  pair_sig : ∀ p ∈ M.pairs, p.signature = sig (M.geom[p.g1].bodyid).val (M.geom[p.g2].bodyid).val ∧
    (M.geom[p.g1].bodyid).val ≤ (M.geom[p.g2].bodyid).val
  /-- pairs and excludes are sorted by signature -/
  pairs_sorted : M.pairs.Pairwise (fun p q => p.signature ≤ q.signature)
  excl_sorted : M.excludes.Pairwise (fun a b => a ≤ b)
  /-- `body_contype/body_conaffinity` are the OR of the geom masks -/
  body_masks : ∀ b : Fin M.nbody, geomOr M b = (M.body[b].contype, M.body[b].conaffinity)
  /-- the world body is its own parent and weld root -/
  world : ∀ w : Fin M.nbody, w.val = 0 → (M.body[w].weld).val = 0 ∧ (M.body[w].parent).val = 0

theorem exclScan_iff (s : Nat) : ∀ l : List Nat, l.Pairwise (fun a b => a ≤ b) → (exclScan s l = true ↔ s ∈ l)
  | [], _ => by simp [exclScan]
  | a :: l, hs => by
    rw [pairwise_cons] at hs
    have ih := exclScan_iff s l hs.2
    unfold exclScan at ih ⊢
    by_cases ha : a < s
    · rw [dropWhile_cons_of_pos (by simpa using ha), ih, mem_cons]
      constructor
      · exact Or.inr
      · rintro (h | h)
        · omega
        · exact h
    · rw [dropWhile_cons_of_neg (by simpa using ha)]
      simp only [decide_eq_true_eq, mem_cons]
      constructor
      · intro h; exact Or.inl h.symm
      · rintro (h | h)
        · exact h.symm
        · have := hs.1 s h; omega

theorem excluded_iff (hs : M.excludes.Pairwise (fun a b => a ≤ b)) (s : Nat) :
    excluded M s = true ↔ s ∈ M.excludes := exclScan_iff s _ hs

open MjProof.Spec.Collide in
/-- the model's call of the generated `filterBodyPair` decides exactly filter 3 of the documentation -/
theorem filterBody_iff_spec (hw : WF M) (b1 b2 : Fin M.nbody) :
    filterBody M b1 b2 = true ↔ bodyFiltered M b1 b2 := by
  unfold filterBody bodyFiltered weldOf weldParent cannotMove
  simp only [decide_eq_true_eq]
  rw [genFilterBodyPair_iff]
  have hfin : ∀ a b : Fin M.nbody, ((a.val : Int) = (b.val : Int)) ↔ a = b := by
    intro a b; constructor
    · intro h; exact Fin.ext (by exact_mod_cast h)
    · rintro rfl; rfl
  have hz : ∀ a : Fin M.nbody, ((a.val : Int) = 0) ↔ a.val = 0 := by
    intro a; constructor <;> intro h <;> exact_mod_cast h
  have hworld := hw.world
  cases hfp : M.dsblFilterParent
  · simp only [Bool.false_eq_true, ↓reduceIte, ne_eq, not_true_eq_false, false_and, and_false, or_false, false_or,
      true_and, hfin, hz]
    constructor
    · rintro (h | h | ⟨h1, h2, h3 | h3⟩)
      · exact Or.inl h
      · exact Or.inr (Or.inl h)
      · exact Or.inr (Or.inr (Or.inl ⟨h3.symm, h1⟩))
      · exact Or.inr (Or.inr (Or.inr ⟨h3.symm, h2⟩))
    · rintro (h | h | ⟨h1, h2⟩ | ⟨h1, h2⟩)
      · exact Or.inl h
      · exact Or.inr (Or.inl h)
      · refine Or.inr (Or.inr ⟨h2, ?_, Or.inl h1.symm⟩)
        intro h0
        have := (hworld _ h0)
        have hp : (M.body[M.body[M.body[b2].weld].parent].weld).val = 0 := (hworld _ this.2).1
        rw [h1] at hp; exact h2 hp
      · refine Or.inr (Or.inr ⟨?_, h2, Or.inr h1.symm⟩)
        intro h0
        have := (hworld _ h0)
        have hp : (M.body[M.body[M.body[b1].weld].parent].weld).val = 0 := (hworld _ this.2).1
        rw [h1] at hp; exact h2 hp
  · simp [hfin]

theorem filterBody_symm (b1 b2 : Fin M.nbody) : filterBody M b1 b2 = filterBody M b2 b1 := by
  unfold filterBody
  have := genFilterBodyPair_symm ((M.body[b1].weld).val : Int) ((M.body[M.body[M.body[b1].weld].parent].weld).val : Int) 0
    M.body[M.body[b1].weld].dofnum ((M.body[b2].weld).val : Int) ((M.body[M.body[M.body[b2].weld].parent].weld).val : Int) 0
    M.body[M.body[b2].weld].dofnum (if M.dsblFilterParent then 1 else 0)
  simp only
  exact decide_eq_decide.mpr this

/-! ### the OR of the geom masks dominates every geom mask -/

theorem foldOr_acc (ct ca : α → Int) : ∀ (l : List α) (acc : Int × Int),
    (∃ X, BitVec.ofInt 32 (l.foldl (fun acc g => (intLor acc.1 (ct g), intLor acc.2 (ca g))) acc).1 = BitVec.ofInt 32 acc.1 ||| X) ∧
    (∃ Y, BitVec.ofInt 32 (l.foldl (fun acc g => (intLor acc.1 (ct g), intLor acc.2 (ca g))) acc).2 = BitVec.ofInt 32 acc.2 ||| Y)
  | [], acc => ⟨⟨0, by simp⟩, ⟨0, by simp⟩⟩
  | g :: l, acc => by
    rw [foldl_cons]
    obtain ⟨⟨X, hX⟩, ⟨Y, hY⟩⟩ := foldOr_acc ct ca l (intLor acc.1 (ct g), intLor acc.2 (ca g))
    refine ⟨⟨BitVec.ofInt 32 (ct g) ||| X, ?_⟩, ⟨BitVec.ofInt 32 (ca g) ||| Y, ?_⟩⟩
    · rw [hX, ofInt_intLor, BitVec.or_assoc]
    · rw [hY, ofInt_intLor, BitVec.or_assoc]

theorem foldOr_mem (ct ca : α → Int) : ∀ (l : List α) (acc : Int × Int) (g : α), g ∈ l →
    (∃ X, BitVec.ofInt 32 (l.foldl (fun acc g => (intLor acc.1 (ct g), intLor acc.2 (ca g))) acc).1 = BitVec.ofInt 32 (ct g) ||| X) ∧
    (∃ Y, BitVec.ofInt 32 (l.foldl (fun acc g => (intLor acc.1 (ct g), intLor acc.2 (ca g))) acc).2 = BitVec.ofInt 32 (ca g) ||| Y)
  | [], _, _, h => by simp at h
  | a :: l, acc, g, h => by
    rw [foldl_cons]
    rcases mem_cons.mp h with rfl | h
    · obtain ⟨⟨X, hX⟩, ⟨Y, hY⟩⟩ := foldOr_acc ct ca l (intLor acc.1 (ct g), intLor acc.2 (ca g))
      refine ⟨⟨BitVec.ofInt 32 acc.1 ||| X, ?_⟩, ⟨BitVec.ofInt 32 acc.2 ||| Y, ?_⟩⟩
      · rw [hX, ofInt_intLor, BitVec.or_comm (BitVec.ofInt 32 acc.1), BitVec.or_assoc]
      · rw [hY, ofInt_intLor, BitVec.or_comm (BitVec.ofInt 32 acc.2), BitVec.or_assoc]
    · exact foldOr_mem ct ca l _ g h

/-- geom-level compatibility implies the body-level test of `add_pair` -/
theorem orCompat_of_geoms {b1 b2 : Fin M.nbody} {g1 g2 : Fin M.ngeom} (h1 : g1 ∈ geomsOf M b1) (h2 : g2 ∈ geomsOf M b2)
    (hc : intLand M.geom[g1].contype M.geom[g2].conaffinity ≠ 0 ∨ intLand M.geom[g2].contype M.geom[g1].conaffinity ≠ 0) :
    intLand (geomOr M b1).1 (geomOr M b2).2 ≠ 0 ∨ intLand (geomOr M b2).1 (geomOr M b1).2 ≠ 0 := by
  obtain ⟨⟨X1, hX1⟩, ⟨Y1, hY1⟩⟩ := foldOr_mem (fun g : Fin M.ngeom => M.geom[g].contype) (fun g => M.geom[g].conaffinity)
    (geomsOf M b1) (0, 0) g1 h1
  obtain ⟨⟨X2, hX2⟩, ⟨Y2, hY2⟩⟩ := foldOr_mem (fun g : Fin M.ngeom => M.geom[g].contype) (fun g => M.geom[g].conaffinity)
    (geomsOf M b2) (0, 0) g2 h2
  rcases hc with hc | hc
  · left
    rw [intLand_ne_zero_iff] at hc ⊢
    unfold geomOr
    rw [hX1, hY2]
    exact bv_and_or_mono hc
  · right
    rw [intLand_ne_zero_iff] at hc ⊢
    unfold geomOr
    rw [hX2, hY1]
    exact bv_and_or_mono hc

/-! ### assembly: the modelled `mj_collision` against the rule set -/

section assembly
open MjProof.Spec.Collide

theorem push_geoms (a b : Fin M.ngeom) (k : Option Nat) :
    ((push M a b k).g1 = a ∧ (push M a b k).g2 = b) ∨ ((push M a b k).g1 = b ∧ (push M a b k).g2 = a) := by
  unfold push; split
  · exact Or.inr ⟨rfl, rfl⟩
  · exact Or.inl ⟨rfl, rfl⟩

/-- the rule set is symmetric in the two geoms when the proximity input is -/
theorem dynamic_symm (hsymm : ∀ a b, M.near a b = M.near b a) (g1 g2 : Fin M.ngeom) :
    Spec.Collide.Dynamic M g1 g2 → Spec.Collide.Dynamic M g2 g1 := by
  rintro ⟨he, hb, hc, hx, hp, ht, hn⟩
  refine ⟨he, ?_, ?_, ?_, ?_, ?_, ?_⟩
  · intro h; apply hb
    unfold bodyFiltered at h ⊢
    simp only at h ⊢
    rcases h with h | h | ⟨h1, h2 | h2⟩
    · exact Or.inl h.symm
    · exact Or.inr (Or.inl ⟨h.2, h.1⟩)
    · exact Or.inr (Or.inr ⟨h1, Or.inr h2⟩)
    · exact Or.inr (Or.inr ⟨h1, Or.inl h2⟩)
  · exact hc.symm
  · intro h; apply hx
    obtain ⟨s, hs, h⟩ := h
    exact ⟨s, hs, by rw [h, Nat.min_comm, Nat.max_comm]⟩
  · intro h; apply hp
    obtain ⟨p, hp', h⟩ := h
    exact ⟨p, hp', h.symm⟩
  · unfold typesOK at ht ⊢
    rw [Nat.min_comm, Nat.max_comm]; exact ht
  · rw [hsymm]; exact hn

/-- the broad-phase hypothesis (what `makeAAMM` + `mj_SAP` have to deliver; `makeAAMM` is not modelled): whenever
    two geoms of different non-world bodies are `close` (truly within margin: the narrow phase would report a
    contact), one of the bodies is handled by the "always colliding" init loop or the SAP list contains the body
    pair -/
def BroadComplete (close : Fin M.ngeom → Fin M.ngeom → Prop) (boxes : List (Box (Fin M.nbody) Float32 Float)) : Prop :=
  ∀ g1 g2 : Fin M.ngeom, close g1 g2 →
    (M.geom[g1].bodyid).val ≠ 0 → (M.geom[g2].bodyid).val ≠ 0 → M.geom[g1].bodyid ≠ M.geom[g2].bodyid →
    alwaysBody M M.geom[g1].bodyid = true ∨ alwaysBody M M.geom[g2].bodyid = true ∨
    (M.geom[g1].bodyid, M.geom[g2].bodyid) ∈ sapList M boxes ∨ (M.geom[g2].bodyid, M.geom[g1].bodyid) ∈ sapList M boxes

theorem mem_initPairs (x y : Fin M.nbody) :
    (x, y) ∈ initPairs M ↔ canCollide M x = true ∧ alwaysBody M x = true ∧ canCollide M y = true ∧ filterBody M x y = false := by
  unfold initPairs
  rw [mem_flatMap]
  constructor
  · rintro ⟨b1, _, h⟩
    split at h
    · rename_i hb1
      obtain ⟨b2, hb2, heq⟩ := mem_map.mp h
      obtain ⟨rfl, rfl⟩ := Prod.mk.inj heq
      have := (mem_filter.mp hb2).2
      simp only [Bool.and_eq_true, Bool.not_eq_eq_eq_not, Bool.not_true] at this hb1
      exact ⟨hb1.1, hb1.2, this.1, this.2⟩
    · simp at h
  · rintro ⟨h1, h2, h3, h4⟩
    refine ⟨x, mem_finRange x, ?_⟩
    rw [if_pos (by simp [h1, h2])]
    exact mem_map.mpr ⟨y, mem_filter.mpr ⟨mem_finRange y, by simp [h3, h4]⟩, rfl⟩

theorem filterBody_self (x : Fin M.nbody) : filterBody M x x = true := by
  unfold filterBody
  simp only [decide_eq_true_eq]
  rw [genFilterBodyPair_iff]
  exact Or.inl rfl

theorem ordPair_lt {x y : Fin M.nbody} (h : x ≠ y) : (ordPair M x y).1.val < (ordPair M x y).2.val := by
  unfold ordPair
  split
  · assumption
  · have : x.val ≠ y.val := fun h' => h (Fin.ext h')
    simp only; omega

theorem ordPair_cases (x y : Fin M.nbody) : ordPair M x y = (x, y) ∨ ordPair M x y = (y, x) := by
  unfold ordPair; split <;> simp

theorem collide_unfold {boxes : List (Box (Fin M.nbody) Float32 Float)} {items : List (Item M.nbody M.ngeom)}
    (hok : collide M boxes = .ok items) (hne : items ≠ []) :
    enabled M ∧ 2 ≤ M.nbody ∧ ∃ bfs, broadphase M boxes ((M.nbody * (M.nbody - 1)) / 2) = .ok bfs ∧
      items = driverLoop M bfs none M.pairs := by
  unfold collide at hok
  split at hok
  · exact absurd (Except.ok.inj hok).symm hne
  · rename_i hdis
    simp only [Bool.or_eq_true, decide_eq_true_eq, not_or, Bool.not_eq_true, Nat.not_lt] at hdis
    split at hok
    · cases hok
    · rename_i bfs hbf
      exact ⟨⟨hdis.1.1, hdis.1.2⟩, hdis.2, bfs, hbf, (Except.ok.inj hok).symm⟩

/-- **explicit pairs**: pair `k` reaches the narrow phase iff collision is enabled and the pair passes filters 1
    and 2 with its own margin — nothing else is consulted -/
theorem collide_explicit {boxes : List (Box (Fin M.nbody) Float32 Float)} {items : List (Item M.nbody M.ngeom)}
    (h2 : 2 ≤ M.nbody) (hok : collide M boxes = .ok items) (c : Cand M.ngeom) (k : Nat) (hk : c.ipair = some k) :
    c ∈ flat items ↔ ∃ p, Explicit M p ∧ p.idx = k ∧ c = push M p.g1 p.g2 (some k) := by
  have hexp : ∀ ps : List (Pair M.ngeom), c ∈ explicitCands M ps ↔
      ∃ p ∈ ps, typesOK M p.g1 p.g2 ∧ M.nearPair p.idx = true ∧ p.idx = k ∧ c = push M p.g1 p.g2 (some k) := by
    intro ps
    unfold explicitCands
    rw [mem_map]
    constructor
    · rintro ⟨p, hp, rfl⟩
      obtain ⟨hp1, hp2⟩ := mem_filter.mp hp
      have hidx : p.idx = k := by
        rw [push_ipair] at hk; exact Option.some.inj hk
      unfold filterExplicit at hp2
      by_cases hn : M.nearPair p.idx = true
      · simp only [hn, Bool.not_true, Bool.false_eq_true, ↓reduceIte] at hp2
        exact ⟨p, hp1, hp2, hn, hidx, by rw [hidx]⟩
      · simp [hn] at hp2
    · rintro ⟨p, hp, ht, hn, hidx, rfl⟩
      refine ⟨p, mem_filter.mpr ⟨hp, ?_⟩, by rw [hidx]⟩
      unfold filterExplicit
      simp only [hn, Bool.not_true, Bool.false_eq_true, ↓reduceIte]
      exact ht
  by_cases hne : items = []
  · subst hne
    simp only [flat_nil, not_mem_nil, false_iff]
    rintro ⟨p, ⟨he, hp, ht, hn⟩, hidx, hc⟩
    -- enabled and nbody ≥ 2: the loop ran, and it emits every explicit pair that passes
    unfold collide at hok
    have hdis : ¬ ((M.dsblConstraint || M.dsblContact || decide (M.nbody < 2)) = true) := by
      simp only [Bool.or_eq_true, decide_eq_true_eq, not_or, Bool.not_eq_true, Nat.not_lt]
      exact ⟨⟨he.1, he.2⟩, h2⟩
    rw [if_neg hdis] at hok
    split at hok
    · cases hok
    · rename_i bfs _
      have hitems := (Except.ok.inj hok).symm
      have : c ∈ flat (driverLoop M bfs none M.pairs) :=
        (driverLoop_explicit M c k hk bfs none M.pairs).mpr ((hexp M.pairs).mpr ⟨p, hp, ht, hn, hidx, hc⟩)
      rw [← hitems] at this
      simp at this
  · obtain ⟨he, _, bfs, _, hitems⟩ := collide_unfold M hok hne
    rw [hitems, driverLoop_explicit M c k hk, hexp]
    constructor
    · rintro ⟨p, hp, ht, hn, hidx, hc⟩; exact ⟨p, ⟨he, hp, ht, hn⟩, hidx, hc⟩
    · rintro ⟨p, ⟨_, hp, ht, hn⟩, hidx, hc⟩; exact ⟨p, hp, ht, hn, hidx, hc⟩

theorem pairSigOK_of_wf (hw : WF M) : PairSigOK M M.pairs := by
  intro p hp b g1 g2 hlt h1 h2 hm
  obtain ⟨hsig, hle⟩ := hw.pair_sig p hp
  have hb1 := (hw.geom_body g1 b.1).mp h1
  have hb2 := (hw.geom_body g2 b.2).mp h2
  rcases hm with ⟨e1, e2⟩ | ⟨e1, e2⟩
  · subst e1; subst e2
    rw [hsig, hb1, hb2]; rfl
  · subst e1; subst e2
    rw [hb1, hb2] at hle; omega

/-- facts about a broad-phase pair -/
theorem bfs_facts (hw : WF M) {boxes : List (Box (Fin M.nbody) Float32 Float)} {maxpair : Nat}
    {bfs : List (Fin M.nbody × Fin M.nbody)} (hg : ∃ g : Fin M.ngeom, (M.geom[g].bodyid).val ≠ 0)
    (h : broadphase M boxes maxpair = .ok bfs) :
    ∀ b ∈ bfs, (b.1.val < b.2.val ∧ b.2.val < 65536) ∧ filterBody M b.1 b.2 = false := by
  intro b hb
  obtain ⟨x, y, hsrc, _, rfl⟩ := ((mem_broadphase M hg h).1 b).mp hb
  have hf : filterBody M x y = false := by
    rcases hsrc with h' | ⟨_, h'⟩
    · exact ((mem_initPairs M x y).mp h').2.2.2
    · exact h'
  have hne : x ≠ y := by
    rintro rfl
    rw [filterBody_self] at hf; exact absurd hf (by simp)
  refine ⟨⟨ordPair_lt M hne, ?_⟩, ?_⟩
  · have := (ordPair M x y).2.isLt
    have := hw.nbody_le
    omega
  · rcases ordPair_cases M x y with e | e <;> rw [e]
    · exact hf
    · simp only; rw [filterBody_symm]; exact hf

/-- what `DynFrom` says in terms of the rule set -/
theorem dynFrom_spec (hw : WF M) (he : enabled M) {b : Fin M.nbody × Fin M.nbody} (hlt : b.1.val < b.2.val)
    (hf : filterBody M b.1 b.2 = false) {g1 g2 : Fin M.ngeom} (h1 : g1 ∈ geomsOf M b.1) (h2 : g2 ∈ geomsOf M b.2) :
    (BodyPairOK M b ∧ DynOK M M.pairs g1 g2) ↔ Spec.Collide.Dynamic M g1 g2 := by
  have hb1 : bodyOf M g1 = b.1 := (hw.geom_body g1 b.1).mp h1
  have hb2 : bodyOf M g2 = b.2 := (hw.geom_body g2 b.2).mp h2
  have hnf : ¬ bodyFiltered M b.1 b.2 := by
    rw [← filterBody_iff_spec M hw]; simp [hf]
  have hexcl : excluded M (sigp M b) = false ↔ ¬ excludedBodies M b.1 b.2 := by
    rw [← Bool.not_eq_true, excluded_iff M hw.excl_sorted]
    unfold excludedBodies sigp sig
    rw [Nat.min_eq_left (Nat.le_of_lt hlt), Nat.max_eq_right (Nat.le_of_lt hlt)]
    constructor
    · rintro h ⟨s, hs, rfl⟩; exact h hs
    · intro h hs; exact h ⟨_, hs, rfl⟩
  unfold Spec.Collide.Dynamic
  rw [hb1, hb2]
  unfold BodyPairOK DynOK
  constructor
  · rintro ⟨⟨_, hx⟩, hnp, hbm, hn, hfn⟩
    refine ⟨he, hnf, (genFilterBitmask_iff _ _ _ _).mp hbm, hexcl.mp hx, ?_, hfn, hn⟩
    rintro ⟨p, hp, hm⟩; exact hnp ⟨p, hp, hm⟩
  · rintro ⟨_, _, hc, hx, hnp, ht, hn⟩
    refine ⟨⟨?_, hexcl.mpr hx⟩, ?_, (genFilterBitmask_iff _ _ _ _).mpr hc, hn, ht⟩
    · unfold canCollide2
      simp only [beq_iff_eq]
      rw [genFilterBitmask_iff]
      have := orCompat_of_geoms M h1 h2 hc
      rw [hw.body_masks b.1, hw.body_masks b.2] at this
      exact this
    · rintro ⟨p, hp, hm⟩; exact hnp ⟨p, hp, hm⟩

/-- completeness half for one orientation -/
theorem dynamic_complete (hw : WF M) {boxes : List (Box (Fin M.nbody) Float32 Float)}
    {bfs : List (Fin M.nbody × Fin M.nbody)} (hg : ∃ g : Fin M.ngeom, (M.geom[g].bodyid).val ≠ 0)
    {close : Fin M.ngeom → Fin M.ngeom → Prop}
    (hbroad : BroadComplete M close boxes) (hbf : broadphase M boxes ((M.nbody * (M.nbody - 1)) / 2) = .ok bfs)
    {g1 g2 : Fin M.ngeom} (hd : Spec.Collide.Dynamic M g1 g2) (hcl : close g1 g2)
    (hlt : (bodyOf M g1).val < (bodyOf M g2).val) :
    push M g1 g2 none ∈ flat (driverLoop M bfs none M.pairs) := by
  obtain ⟨he, hnf, hc, hx, hnp, ht, hn⟩ := hd
  have h1 : g1 ∈ geomsOf M (bodyOf M g1) := (hw.geom_body g1 _).mpr rfl
  have h2 : g2 ∈ geomsOf M (bodyOf M g2) := (hw.geom_body g2 _).mpr rfl
  have hff : filterBody M (bodyOf M g1) (bodyOf M g2) = false := by
    have := (filterBody_iff_spec M hw (bodyOf M g1) (bodyOf M g2)).not.mpr hnf
    simpa using this
  have hor := orCompat_of_geoms M h1 h2 hc
  have horc : orCompat M (bodyOf M g1) (bodyOf M g2) := by
    unfold orCompat; intro h; rcases hor with h' | h'
    · exact h' h.1
    · exact h' h.2
  have horc' : orCompat M (bodyOf M g2) (bodyOf M g1) := by
    unfold orCompat; intro h; rcases hor with h' | h'
    · exact h' h.2
    · exact h' h.1
  -- both bodies are collidable
  have hcc : canCollide M (bodyOf M g1) = true ∧ canCollide M (bodyOf M g2) = true := by
    rw [hw.body_masks, hw.body_masks] at hor
    unfold canCollide
    simp only [Bool.or_eq_true, decide_eq_true_eq]
    rcases hor with h' | h'
    · refine ⟨Or.inl ?_, Or.inr ?_⟩
      · intro h0; simp only at h'; rw [h0, intLand_zero_left] at h'; exact h' rfl
      · intro h0; simp only at h'; rw [h0, intLand_zero_right] at h'; exact h' rfl
    · refine ⟨Or.inr ?_, Or.inl ?_⟩
      · intro h0; simp only at h'; rw [h0, intLand_zero_right] at h'; exact h' rfl
      · intro h0; simp only at h'; rw [h0, intLand_zero_left] at h'; exact h' rfl
  have hne : bodyOf M g1 ≠ bodyOf M g2 := fun h => by rw [h] at hlt; omega
  -- the body pair is in the broad-phase list
  have hin : (bodyOf M g1, bodyOf M g2) ∈ bfs := by
    rw [(mem_broadphase M hg hbf).1]
    have hord1 : ordPair M (bodyOf M g1) (bodyOf M g2) = (bodyOf M g1, bodyOf M g2) := by
      unfold ordPair; rw [if_pos hlt]
    have hord2 : ordPair M (bodyOf M g2) (bodyOf M g1) = (bodyOf M g1, bodyOf M g2) := by
      unfold ordPair; rw [if_neg (by omega)]
    have hff' : filterBody M (bodyOf M g2) (bodyOf M g1) = false := by rw [filterBody_symm]; exact hff
    have always1 : alwaysBody M (bodyOf M g1) = true → _ := fun ha =>
      (⟨bodyOf M g1, bodyOf M g2, Or.inl ((mem_initPairs M _ _).mpr ⟨hcc.1, ha, hcc.2, hff⟩), horc, hord1.symm⟩ :
        ∃ x y, ((x, y) ∈ initPairs M ∨ ((x, y) ∈ sapList M boxes ∧ filterBody M x y = false)) ∧ orCompat M x y ∧
          (bodyOf M g1, bodyOf M g2) = ordPair M x y)
    by_cases hw0 : (bodyOf M g1).val = 0
    · -- world body with geoms
      apply always1
      unfold alwaysBody
      have hgn : M.body[bodyOf M g1].geomnum > 0 := by
        unfold geomsOf at h1
        have := (mem_filter.mp h1).2
        simp only [decide_eq_true_eq] at this
        omega
      rw [Bool.or_eq_true]; left
      rw [decide_eq_true_eq]
      exact ⟨hw0, hgn⟩
    · have hw0' : (bodyOf M g2).val ≠ 0 := by omega
      rcases hbroad g1 g2 hcl hw0 hw0' hne with ha | ha | ha | ha
      · exact always1 ha
      · exact ⟨bodyOf M g2, bodyOf M g1, Or.inl ((mem_initPairs M _ _).mpr ⟨hcc.2, ha, hcc.1, hff'⟩), horc', hord2.symm⟩
      · exact ⟨bodyOf M g1, bodyOf M g2, Or.inr ⟨ha, hff⟩, horc, hord1.symm⟩
      · exact ⟨bodyOf M g2, bodyOf M g1, Or.inr ⟨ha, hff'⟩, horc', hord2.symm⟩
  have hfacts := bfs_facts M hw hg hbf
  rw [driverLoop_dynamic M _ (push_ipair M g1 g2 none) bfs none M.pairs (mem_broadphase M hg hbf).2 hw.pairs_sorted
    (fun b hb => (hfacts b hb).1) (fun l h => by cases h) (pairSigOK_of_wf M hw)]
  refine ⟨(bodyOf M g1, bodyOf M g2), hin, by simp, ?_⟩
  have := (dynFrom_spec M hw he (b := (bodyOf M g1, bodyOf M g2)) hlt hff h1 h2).mpr ⟨he, hnf, hc, hx, hnp, ht, hn⟩
  exact ⟨this.1, g1, h1, g2, h2, this.2, rfl⟩

/-- **dynamic pairs, soundness**: every pair that reaches the narrow phase through the body-pair mechanism is
    selected by the documented rule set (mid-phase groups counted with their all-to-all superset) -/
theorem collide_dynamic_sound (hw : WF M) {boxes : List (Box (Fin M.nbody) Float32 Float)} {items : List (Item M.nbody M.ngeom)}
    (hg : ∃ g : Fin M.ngeom, (M.geom[g].bodyid).val ≠ 0)
    (hsymm : ∀ a b, M.near a b = M.near b a)
    (hok : collide M boxes = .ok items) (g1 g2 : Fin M.ngeom) :
    (∃ c ∈ flat items, c.ipair = none ∧ ((c.g1 = g1 ∧ c.g2 = g2) ∨ (c.g1 = g2 ∧ c.g2 = g1))) →
      Spec.Collide.Dynamic M g1 g2 := by
  rintro ⟨c, hc, hnone, hgeoms⟩
  have hne : items ≠ [] := by rintro rfl; simp at hc
  obtain ⟨he, _, bfs, hbf, hitems⟩ := collide_unfold M hok hne
  have hfacts := bfs_facts M hw hg hbf
  rw [hitems, driverLoop_dynamic M c hnone bfs none M.pairs (mem_broadphase M hg hbf).2 hw.pairs_sorted
    (fun b hb => (hfacts b hb).1) (fun l h => by cases h) (pairSigOK_of_wf M hw)] at hc
  obtain ⟨b, hb, _, hbp, a1, ha1, a2, ha2, hdyn, rfl⟩ := hc
  have hD : Spec.Collide.Dynamic M a1 a2 := (dynFrom_spec M hw he (hfacts b hb).1.1 (hfacts b hb).2 ha1 ha2).mp ⟨hbp, hdyn⟩
  rcases push_geoms M a1 a2 none with ⟨e1, e2⟩ | ⟨e1, e2⟩ <;> rcases hgeoms with ⟨f1, f2⟩ | ⟨f1, f2⟩
  · rw [← f1, ← f2, e1, e2]; exact hD
  · rw [← f1, ← f2, e1, e2]; exact dynamic_symm M hsymm _ _ hD
  · rw [← f1, ← f2, e1, e2]; exact dynamic_symm M hsymm _ _ hD
  · rw [← f1, ← f2, e1, e2]; exact hD

/-- **dynamic pairs, completeness**: a pair that the documented rule set selects and whose geoms are `close`
    reaches the narrow phase, provided the broad phase is complete for `close` pairs -/
theorem collide_dynamic_complete (hw : WF M) {boxes : List (Box (Fin M.nbody) Float32 Float)} {items : List (Item M.nbody M.ngeom)}
    (h2 : 2 ≤ M.nbody) (hg : ∃ g : Fin M.ngeom, (M.geom[g].bodyid).val ≠ 0)
    (hsymm : ∀ a b, M.near a b = M.near b a)
    {close : Fin M.ngeom → Fin M.ngeom → Prop} (hcsymm : ∀ a b, close a b → close b a)
    (hbroad : BroadComplete M close boxes)
    (hok : collide M boxes = .ok items) (g1 g2 : Fin M.ngeom) (hD : Spec.Collide.Dynamic M g1 g2) (hcl : close g1 g2) :
    ∃ c ∈ flat items, c.ipair = none ∧ ((c.g1 = g1 ∧ c.g2 = g2) ∨ (c.g1 = g2 ∧ c.g2 = g1)) := by
  have he := hD.1
  have hdis : ¬ ((M.dsblConstraint || M.dsblContact || decide (M.nbody < 2)) = true) := by
    simp only [Bool.or_eq_true, decide_eq_true_eq, not_or, Bool.not_eq_true, Nat.not_lt]
    exact ⟨⟨he.1, he.2⟩, h2⟩
  unfold collide at hok
  rw [if_neg hdis] at hok
  split at hok
  · cases hok
  · rename_i bfs hbf
    have hitems := (Except.ok.inj hok).symm
    rw [hitems]
    have hne : bodyOf M g1 ≠ bodyOf M g2 := by
      intro h
      apply hD.2.1
      unfold bodyFiltered
      simp only
      rw [h]; exact Or.inl rfl
    have hval : (bodyOf M g1).val ≠ (bodyOf M g2).val := fun h => hne (Fin.ext h)
    by_cases hlt : (bodyOf M g1).val < (bodyOf M g2).val
    · refine ⟨_, dynamic_complete M hw hg hbroad hbf hD hcl hlt, push_ipair M g1 g2 none, ?_⟩
      exact push_geoms M g1 g2 none
    · have hlt' : (bodyOf M g2).val < (bodyOf M g1).val := by omega
      refine ⟨_, dynamic_complete M hw hg hbroad hbf (dynamic_symm M hsymm _ _ hD) (hcsymm _ _ hcl) hlt',
        push_ipair M g2 g1 none, ?_⟩
      rcases push_geoms M g2 g1 none with h | h
      · exact Or.inr h
      · exact Or.inl h

end assembly

end MjProof.Broadphase
