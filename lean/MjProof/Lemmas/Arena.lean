import MjProof.Model.Arena
/-
Helper lemmas for C19 (core Lean only): `fastmod` is `%`, wrap-free readings of `add64`/`sub64`,
and the specification of `stackallocinternal` under the explicit no-wrap side condition.
-/
namespace MjProof.Arena

/-- the bit trick of `fastmod`: if `b & (b-1) == 0` (and `b ≠ 0`) then `a & (b-1) = a % b`. -/
theorem and_pred_eq_mod : ∀ (b : Nat), 0 < b → b &&& (b - 1) = 0 → ∀ a, a &&& (b - 1) = a % b := by
  intro b
  induction b using Nat.strongRecOn with
  | _ b ih =>
    intro hb h a
    rcases Nat.mod_two_eq_zero_or_one b with h2 | h2
    · have hb' : 0 < b / 2 := by omega
      have h1 : (b - 1) / 2 = b / 2 - 1 := by omega
      have h1' : (b - 1) % 2 = 1 := by omega
      have hh : b / 2 &&& (b / 2 - 1) = 0 := by
        have := congrArg (· / 2) h
        simp only [Nat.and_div_two] at this
        rw [h1] at this; simpa using this
      have ihh := ih (b / 2) (by omega) hb' hh (a / 2)
      have d : (a &&& (b - 1)) / 2 = (a / 2) % (b / 2) := by
        rw [Nat.and_div_two, h1, ihh]
      have m : (a &&& (b - 1)) % 2 = a % 2 := by
        rcases Nat.mod_two_eq_zero_or_one a with ha | ha
        · have : ¬ ((a &&& (b - 1)) % 2 = 1) := by
            rw [Nat.and_mod_two_eq_one]; omega
          omega
        · have : ((a &&& (b - 1)) % 2 = 1) := by
            rw [Nat.and_mod_two_eq_one]; omega
          omega
      have e : b = 2 * (b / 2) := by omega
      have key : a % b = 2 * ((a / 2) % (b / 2)) + a % 2 := by
        conv => lhs; rw [e]
        rw [Nat.mod_mul]
        omega
      omega
    · have : (b &&& (b - 1)) / 2 = b / 2 := by
        rw [Nat.and_div_two]
        have : (b - 1) / 2 = b / 2 := by omega
        rw [this, Nat.and_self]
      rw [h] at this
      have : b = 1 := by omega
      subst this
      simp [Nat.mod_one]

theorem W_eq : W = 2 ^ 64 := by decide

/-- `fastmod` computes `a % b` for every `size_t` pair (also `b = 0`, where C yields `a`, and
    non-powers of two, where it takes the `%` branch). -/
theorem fastmod_eq_mod {a b : Nat} (ha : a < W) (hb : b < W) : fastmod a b = a % b := by
  unfold fastmod
  by_cases h0 : b = 0
  · subst h0
    have : sub64 0 1 = 2 ^ 64 - 1 := by decide
    rw [this]
    simp only [Nat.zero_and, ↓reduceIte, Nat.mod_zero]
    rw [Nat.and_two_pow_sub_one_eq_mod]
    exact Nat.mod_eq_of_lt (W_eq ▸ ha)
  · have hs : sub64 b 1 = b - 1 := by unfold sub64 W at *; omega
    rw [hs]
    split
    · next h => exact and_pred_eq_mod b (by omega) h a
    · rfl

theorem add64_eq {a b : Nat} (h : a + b < W) : add64 a b = a + b := Nat.mod_eq_of_lt h
theorem sub64_eq {a b : Nat} (ha : a < W) (h : b ≤ a) : sub64 a b = a - b := by
  unfold sub64 W at *; omega
theorem add64_lt (a b : Nat) : add64 a b < W := Nat.mod_lt _ (by decide)
theorem sub64_lt (a b : Nat) : sub64 a b < W := Nat.mod_lt _ (by decide)

theorem sub_mod_self_mod (a b : Nat) : (a - a % b) % b = 0 := by
  have h : a - a % b = b * (a / b) := by
    have := Nat.div_add_mod a b
    omega
  rw [h]; exact Nat.mul_mod_right _ _

/-- `stackallocinternal` with the modular reductions made explicit (`m` is the alignment slack). -/
theorem sai_eq (c : Cfg) (bot tp lim size al : Nat) (hal : al < W) :
    stackAllocInternal c bot tp lim size al =
      (let start0 := sub64 tp (add64 size c.rz)
       let start := sub64 start0 (start0 % al)
       let newTop := sub64 start c.rz
       if sub64 tp newTop > sub64 tp lim then none
       else some (start, newTop, add64 (sub64 (sub64 tp newTop) (2 * c.rz)) (sub64 bot tp))) := by
  unfold stackAllocInternal
  simp only [fastmod_eq_mod (sub64_lt _ _) hal]

/-- Specification of a successful `stackallocinternal` under the no-wrap side condition
    `size + al + 2*rz ≤ 2^64`: the block `[start, start+size)` with its two red zones lies in
    `[newTop, tp)`, `newTop` is not below `lim`, and `start` is a multiple of `al`. -/
theorem sai_some {c : Cfg} {bot tp lim size al start newTop usage : Nat}
    (htp : tp + 2 * c.rz < W) (hlim : lim ≤ tp) (hsz : 0 < size) (hal : 0 < al)
    (hnw : size + al + 2 * c.rz ≤ W)
    (h : stackAllocInternal c bot tp lim size al = some (start, newTop, usage)) :
    lim ≤ newTop ∧ newTop + c.rz = start ∧ start + size + c.rz ≤ tp ∧ start % al = 0
      ∧ tp - newTop < size + al + 2 * c.rz := by
  rw [sai_eq c bot tp lim size al (by omega)] at h
  simp only at h
  have hm : (sub64 tp (add64 size c.rz)) % al < al := Nat.mod_lt _ hal
  have hm2 : (sub64 tp (add64 size c.rz)) % al ≤ sub64 tp (add64 size c.rz) := Nat.mod_le _ _
  have hdiv := sub_mod_self_mod (sub64 tp (add64 size c.rz)) al
  generalize (sub64 tp (add64 size c.rz)) % al = m at *
  split at h
  · exact absurd h (by simp)
  · next hreq =>
    simp only [Option.some.injEq, Prod.mk.injEq] at h
    obtain ⟨h1, h2, _⟩ := h
    have hst : start = sub64 tp (add64 size c.rz) - m := by
      rw [← h1]; exact sub64_eq (sub64_lt _ _) hm2
    refine ⟨?_, ?_, ?_, ?_, ?_⟩
    all_goals (try (rw [hst]; exact hdiv))
    all_goals (subst h1 h2; unfold sub64 add64 W at *; omega)

end MjProof.Arena
