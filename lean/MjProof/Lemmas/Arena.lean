import MjProof.Model.Arena
/-
Helper lemmas for C19 (core Lean only): `fastmod` is `%`, wrap-free readings of `add64`/`sub64`,
and the specification of `stackallocinternal` under the explicit no-wrap side condition.
-/
namespace MjProof.Arena

/-- the bit trick of `fastmod`: if `b & (b-1) == 0` (and `b ≠ 0`) then `a & (b-1) = a % b`. -/
theorem and_pred_eq_mod : ∀ (b : Nat), 0 < b → b &&& (b - 1) = 0 → ∀ a, a &&& (b - 1) = a % b := by
  intro b
  induction b using Nat.strongRecOn with
  | _ b ih =>
    intro hb h a
    rcases Nat.mod_two_eq_zero_or_one b with h2 | h2
    · have hb' : 0 < b / 2 := by omega
      have h1 : (b - 1) / 2 = b / 2 - 1 := by omega
      have h1' : (b - 1) % 2 = 1 := by omega
      have hh : b / 2 &&& (b / 2 - 1) = 0 := by
        have := congrArg (· / 2) h
        simp only [Nat.and_div_two] at this
        rw [h1] at this; simpa using this
      have ihh := ih (b / 2) (by omega) hb' hh (a / 2)
      have d : (a &&& (b - 1)) / 2 = (a / 2) % (b / 2) := by
        rw [Nat.and_div_two, h1, ihh]
      have m : (a &&& (b - 1)) % 2 = a % 2 := by
        rcases Nat.mod_two_eq_zero_or_one a with ha | ha
        · have : ¬ ((a &&& (b - 1)) % 2 = 1) := by
            rw [Nat.and_mod_two_eq_one]; omega
          omega
        · have : ((a &&& (b - 1)) % 2 = 1) := by
            rw [Nat.and_mod_two_eq_one]; omega
          omega
      have e : b = 2 * (b / 2) := by omega
      have key : a % b = 2 * ((a / 2) % (b / 2)) + a % 2 := by
        conv => lhs; rw [e]
        rw [Nat.mod_mul]
        omega
      omega
    · have : (b &&& (b - 1)) / 2 = b / 2 := by
        rw [Nat.and_div_two]
        have : (b - 1) / 2 = b / 2 := by omega
        rw [this, Nat.and_self]
      rw [h] at this
      have : b = 1 := by omega
      subst this
      simp [Nat.mod_one]

theorem W_eq : W = 2 ^ 64 := by rfl

/-- `fastmod` computes `a % b` for every `size_t` pair (also `b = 0`, where C yields `a`, and
    non-powers of two, where it takes the `%` branch). -/
theorem fastmod_eq_mod {a b : Nat} (ha : a < W) (hb : b < W) : fastmod a b = a % b := by
  unfold fastmod
  by_cases h0 : b = 0
  · subst h0
    have : sub64 0 1 = 2 ^ 64 - 1 := by rfl
    rw [this]
    simp only [Nat.zero_and, ↓reduceIte, Nat.mod_zero]
    rw [Nat.and_two_pow_sub_one_eq_mod]
    exact Nat.mod_eq_of_lt (W_eq ▸ ha)
  · have hs : sub64 b 1 = b - 1 := by unfold sub64 W at *; omega
    rw [hs]
    split
    · next h => exact and_pred_eq_mod b (by omega) h a
    · rfl

theorem add64_eq {a b : Nat} (h : a + b < W) : add64 a b = a + b := Nat.mod_eq_of_lt h
theorem sub64_eq {a b : Nat} (ha : a < W) (h : b ≤ a) : sub64 a b = a - b := by
  unfold sub64 W at *; omega
theorem add64_lt (a b : Nat) : add64 a b < W := Nat.mod_lt _ (by unfold W; omega)
theorem sub64_lt (a b : Nat) : sub64 a b < W := Nat.mod_lt _ (by unfold W; omega)

theorem sub_mod_self_mod (a b : Nat) : (a - a % b) % b = 0 := by
  have h : a - a % b = b * (a / b) := by
    have := Nat.div_add_mod a b
    omega
  rw [h]; exact Nat.mul_mod_right _ _

/-- `stackallocinternal` with the modular reductions made explicit (`m` is the alignment slack). -/
theorem sai_eq (c : Cfg) (bot tp lim size al : Nat) (hal : al < W) :
    stackAllocInternal c bot tp lim size al =
      (let start0 := sub64 tp (add64 size c.rz)
       let start := sub64 start0 (start0 % al)
       let newTop := sub64 start c.rz
       if sub64 tp newTop > sub64 tp lim then none
       else some (start, newTop, add64 (sub64 (sub64 tp newTop) (2 * c.rz)) (sub64 bot tp))) := by
  unfold stackAllocInternal
  simp only [fastmod_eq_mod (sub64_lt _ _) hal]

theorem sub64_cases (a b : Nat) (ha : a < W) (hb : b < W) :
    (b ≤ a ∧ sub64 a b = a - b) ∨ (a < b ∧ sub64 a b = a + W - b) := by
  unfold sub64 W at *; omega

/-- Specification of a successful `stackallocinternal` under the no-wrap side condition
    `size + al + 2*rz ≤ 2^64`: the block `[start, start+size)` with its two red zones lies in
    `[newTop, tp)`, `newTop` is not below `lim`, and `start` is a multiple of `al`. -/
theorem sai_some {c : Cfg} {bot tp lim size al start newTop usage : Nat}
    (htp : tp + 2 * c.rz < W) (hlim : lim ≤ tp) (hsz : 0 < size) (hal : 0 < al)
    (hnw : size + al + 2 * c.rz ≤ W)
    (h : stackAllocInternal c bot tp lim size al = some (start, newTop, usage)) :
    lim ≤ newTop ∧ newTop + c.rz = start ∧ start + size + c.rz ≤ tp ∧ start % al = 0
      ∧ tp - newTop < size + al + 2 * c.rz := by
  rw [sai_eq c bot tp lim size al (by omega)] at h
  simp only at h
  have hA : add64 size c.rz = size + c.rz := add64_eq (by omega)
  rw [hA] at h
  have hm : (sub64 tp (size + c.rz)) % al < al := Nat.mod_lt _ hal
  have hm2 : (sub64 tp (size + c.rz)) % al ≤ sub64 tp (size + c.rz) := Nat.mod_le _ _
  have hdiv := sub_mod_self_mod (sub64 tp (size + c.rz)) al
  have hs0 := sub64_cases tp (size + c.rz) (by omega) (by omega)
  have hs0lt := sub64_lt tp (size + c.rz)
  generalize (sub64 tp (size + c.rz)) % al = m at *
  generalize sub64 tp (size + c.rz) = start0 at *
  rw [sub64_eq hs0lt hm2] at h
  have hnt := sub64_cases (start0 - m) c.rz (by omega) (by omega)
  have hntlt := sub64_lt (start0 - m) c.rz
  generalize sub64 (start0 - m) c.rz = nt at *
  have hreq := sub64_cases tp nt (by omega) hntlt
  have hav : sub64 tp lim = tp - lim := sub64_eq (by omega) hlim
  rw [hav] at h
  generalize sub64 tp nt = req at *
  split at h
  · exact absurd h (by simp)
  · next hle =>
    simp only [Option.some.injEq, Prod.mk.injEq] at h
    obtain ⟨h1, h2, _⟩ := h
    subst h1 h2
    refine ⟨?_, ?_, ?_, hdiv, ?_⟩ <;> omega

/-- largest multiple of `al` below `x`: every multiple of `al` that is `≤ x` is `≤ x - x % al`. -/
theorem le_sub_mod_of_dvd {p x al : Nat} (hp : p % al = 0) (hle : p ≤ x) : p ≤ x - x % al := by
  by_cases hal : al = 0
  · subst hal; simp at hp; omega
  have h1 : p = al * (p / al) := by have := Nat.div_add_mod p al; omega
  have h2 : x - x % al = al * (x / al) := by have := Nat.div_add_mod x al; omega
  rw [h1, h2]
  exact Nat.mul_le_mul_left _ (Nat.div_le_div_right hle)

/-- A stack overflow is reported by `stackallocinternal` only when no aligned block with its red
    zones fits between `lim` and `tp` (no-wrap side condition as in `sai_some`). -/
theorem sai_none {c : Cfg} {bot tp lim size al : Nat}
    (htp : tp + 2 * c.rz < W) (hlim : lim ≤ tp) (hsz : 0 < size) (hal : 0 < al)
    (hnw : size + al + 2 * c.rz ≤ W)
    (h : stackAllocInternal c bot tp lim size al = none) :
    ¬ ∃ p, p % al = 0 ∧ lim + c.rz ≤ p ∧ p + size + c.rz ≤ tp := by
  rintro ⟨p, hp, hp1, hp2⟩
  rw [sai_eq c bot tp lim size al (by omega)] at h
  simp only at h
  have hA : add64 size c.rz = size + c.rz := add64_eq (by omega)
  rw [hA] at h
  have hs0 : sub64 tp (size + c.rz) = tp - (size + c.rz) := sub64_eq (by omega) (by omega)
  rw [hs0] at h
  have hple := le_sub_mod_of_dvd (x := tp - (size + c.rz)) hp (by omega)
  have hm2 : (tp - (size + c.rz)) % al ≤ tp - (size + c.rz) := Nat.mod_le _ _
  generalize (tp - (size + c.rz)) % al = m at *
  rw [sub64_eq (by omega) hm2] at h
  rw [sub64_eq (a := tp - (size + c.rz) - m) (by omega) (by omega)] at h
  rw [sub64_eq (a := tp) (b := tp - (size + c.rz) - m - c.rz) (by omega) (by omega)] at h
  rw [sub64_eq (a := tp) (b := lim) (by omega) hlim] at h
  split at h
  · omega
  · exact absurd h (by simp)

/-- the next multiple of `al` at or above `x` is `x + pad` with this `pad`. -/
theorem pad_spec (x al : Nat) (hal : 0 < al) :
    let pad := if x % al ≠ 0 then al - x % al else 0
    pad < al ∧ (x + pad) % al = 0 ∧ ∀ off, off % al = 0 → x ≤ off → x + pad ≤ off := by
  intro pad
  have hm : x % al < al := Nat.mod_lt _ hal
  have hm2 : x % al ≤ x := Nat.mod_le _ _
  have hdiv := sub_mod_self_mod x al
  by_cases h0 : x % al = 0
  · have hp : pad = 0 := by simp [pad, h0]
    rw [hp]; refine ⟨hal, by simpa using h0, fun off _ h => by omega⟩
  · have hp : pad = al - x % al := by simp [pad, h0]
    rw [hp]
    refine ⟨by omega, ?_, ?_⟩
    · have e : x + (al - x % al) = (x - x % al) + al := by omega
      rw [e, Nat.add_mod_right]; exact hdiv
    · intro off hoff hle
      have hq : x = al * (x / al) + x % al := (Nat.div_add_mod x al).symm
      have hk : off = al * (off / al) := by have := Nat.div_add_mod off al; omega
      have hlt : x / al < off / al := by
        apply Nat.lt_of_not_le
        intro hcon
        have := Nat.mul_le_mul_left al hcon
        omega
      have := Nat.mul_le_mul_left al (Nat.succ_le_of_lt hlt)
      rw [Nat.mul_succ] at this
      omega

/-- Specification of `mj_arenaAllocByte` under the no-wrap side condition
    `parena + al + bytes < 2^64`: with `pad` the distance to the next multiple of `al`, the call
    returns NULL and leaves the state unchanged iff `parena + pad + bytes > narena - pstack`. -/
theorem arenaAlloc_spec {c : Cfg} {s : State} {bytes al : Nat}
    (hc : c.base + c.narena < W) (hinv : s.parena + s.pstack ≤ c.narena) (hal : 0 < al)
    (hnw : s.parena + al + bytes < W) :
    let pad := if s.parena % al ≠ 0 then al - s.parena % al else 0
    if s.parena + pad + bytes > c.narena - s.pstack then arenaAlloc c s bytes al = (.null, s)
    else arenaAlloc c s bytes al =
      (.ptr (c.base + s.parena + pad),
       { s with parena := s.parena + pad + bytes,
                maxArena := max s.maxArena (add64 s.pstack (s.parena + pad + bytes)) }) := by
  intro pad
  have hpl : pad < al := (pad_spec s.parena al hal).1
  unfold arenaAlloc
  rw [fastmod_eq_mod (by omega) (by omega)]
  have hm : s.parena % al < al := Nat.mod_lt _ hal
  have hav : sub64 c.narena s.pstack = c.narena - s.pstack := sub64_eq (by omega) (by omega)
  have hpad : (if s.parena % al ≠ 0 then sub64 al (s.parena % al) else 0) = pad := by
    simp only [pad]
    split
    · exact sub64_eq (by omega) (by omega)
    · rfl
  simp only [hpad, hav]
  rw [add64_eq (a := s.parena) (b := pad) (by omega), add64_eq (a := s.parena + pad) (by omega)]
  split
  · rfl
  · rw [add64_eq (a := c.base) (by omega), add64_eq (a := c.base + s.parena) (by omega),
        add64_eq (a := pad) (by omega), add64_eq (a := s.parena) (by omega)]
    simp only [Nat.add_assoc]

/-- Specification of the `d->threadlock` path of `stackalloc` under the no-wrap side condition
    `pstack + size + al + 2*rz < 2^64`: the reservation `A = size + al - 1 + 2*rz` is always added to
    `pstack` (also when the overflow error is raised); a granted block lies, with its red zones,
    inside the reserved interval `[bottom - (pstack + A), bottom - pstack)`. -/
theorem lockedAlloc_spec {c : Cfg} {s : State} {size al : Nat}
    (hc : c.base + c.narena < W) (hlock : s.threadlock = true) (hpa : s.parena ≤ c.narena)
    (hsz : 0 < size) (hal : 0 < al) (hnw : s.pstack + size + al + 2 * c.rz < W) :
    if s.pstack + (size + al - 1 + 2 * c.rz) > c.narena - s.parena then
      stackAlloc c s size al = (.error, { s with pstack := s.pstack + (size + al - 1 + 2 * c.rz) })
    else ∃ a, stackAlloc c s size al =
        (.ptr a, { s with pstack := s.pstack + (size + al - 1 + 2 * c.rz) })
      ∧ a % al = 0
      ∧ c.base + c.narena - (s.pstack + (size + al - 1 + 2 * c.rz)) + c.rz ≤ a
      ∧ a + size + c.rz ≤ c.base + c.narena - s.pstack := by
  unfold stackAlloc
  simp only [show ¬ size = 0 by omega, hlock, ↓reduceIte]
  have h1 : add64 size al = size + al := add64_eq (by omega)
  have h2 : sub64 (size + al) 1 = size + al - 1 := sub64_eq (by omega) (by omega)
  have h3 : add64 (size + al - 1) (2 * c.rz) = size + al - 1 + 2 * c.rz := add64_eq (by omega)
  have h4 : add64 s.pstack (size + al - 1 + 2 * c.rz) = s.pstack + (size + al - 1 + 2 * c.rz) :=
    add64_eq (by omega)
  have h5 : sub64 c.narena s.parena = c.narena - s.parena := sub64_eq (by omega) hpa
  have hb : bottom c = c.base + c.narena := add64_eq hc
  simp only [h1, h2, h3, h4, h5, hb]
  split
  · rfl
  · next hfit =>
    have e1 : sub64 (c.base + c.narena) s.pstack = c.base + c.narena - s.pstack :=
      sub64_eq hc (by omega)
    have e2 : sub64 (c.base + c.narena - s.pstack) size = c.base + c.narena - s.pstack - size :=
      sub64_eq (by omega) (by omega)
    have e3 : sub64 (c.base + c.narena - s.pstack - size) c.rz
        = c.base + c.narena - s.pstack - size - c.rz := sub64_eq (by omega) (by omega)
    simp only [e1, e2, e3]
    have hlt : c.base + c.narena - s.pstack - size - c.rz < W := by omega
    rw [fastmod_eq_mod hlt (by omega)]
    have hm : (c.base + c.narena - s.pstack - size - c.rz) % al < al := Nat.mod_lt _ hal
    have hm2 := Nat.mod_le (c.base + c.narena - s.pstack - size - c.rz) al
    have hdiv := sub_mod_self_mod (c.base + c.narena - s.pstack - size - c.rz) al
    rw [sub64_eq hlt hm2]
    refine ⟨_, rfl, hdiv, ?_, ?_⟩ <;> omega

/-- Specification of the unlocked path of `stackalloc`. -/
theorem stackAlloc_unlocked {c : Cfg} {s : State} {size al : Nat}
    (hlock : s.threadlock = false) (hsz : size ≠ 0) :
    stackAlloc c s size al =
      match stackAllocInternal c (bottom c) (top c s) (limit c s) size al with
      | none => (.error, s)
      | some (start, newTop, usage) =>
        (.ptr start, { s with pstack := sub64 (bottom c) newTop,
                              maxStack := max s.maxStack usage,
                              maxArena := max s.maxArena (add64 usage s.parena) }) := by
  unfold stackAlloc
  simp only [hsz, hlock, ↓reduceIte, Bool.false_eq_true]
  rfl

/-! ### Ghost layer: which blocks are live -/

/-- a byte range `[addr, addr+size)`. -/
structure Block where
  addr : Nat
  size : Nat
  deriving Repr, DecidableEq

def Block.Disjoint (a b : Block) : Prop := a.addr + a.size ≤ b.addr ∨ b.addr + b.size ≤ a.addr

/-- something that occupies stack memory: a client block or an `mjStackFrame` record. -/
inductive Obj where
  | blk (b : Block)
  | frm (f : Frame)
  deriving Repr

/-- the bytes an object occupies. -/
def Obj.ext : Obj → Block
  | .blk b => b
  | .frm f => ⟨f.addr, FRAME⟩

def framesOf : List Obj → List Frame
  | [] => []
  | .blk _ :: rest => framesOf rest
  | .frm f :: rest => f :: framesOf rest

/-- what `mj_freeStack` releases: everything allocated since (and including) the latest mark. -/
def dropToFrame : List Obj → List Obj
  | [] => []
  | .blk _ :: rest => dropToFrame rest
  | .frm _ :: rest => rest

def headAddr : List Frame → Nat
  | [] => 0
  | f :: _ => f.addr

/-- every record links to the one below it, and no record sits at address 0. -/
def FramesOK : List Frame → Prop
  | [] => True
  | f :: rest => f.pbase = headAddr rest ∧ f.addr ≠ 0 ∧ FramesOK rest

/-- Downward layout of the stack objects (most recent first): each object starts at or above `lo`,
    and what was allocated before it lies at or above its end (for a frame record: at or above the
    saved top, which is at or above the end of the record). -/
def Chain (bot : Nat) : Nat → List Obj → Prop
  | lo, [] => lo ≤ bot
  | lo, .blk b :: rest => lo ≤ b.addr ∧ Chain bot (b.addr + b.size) rest
  | lo, .frm f :: rest => lo ≤ f.addr ∧ f.addr + FRAME ≤ f.top ∧ Chain bot f.top rest

/-- Upward layout of the arena blocks (most recent first). -/
def AChain (base : Nat) : Nat → List Block → Prop
  | hi, [] => base ≤ hi
  | hi, b :: rest => b.addr + b.size ≤ hi ∧ AChain base b.addr rest

theorem chain_mono {bot lo lo' : Nat} {l : List Obj} (h : lo' ≤ lo) (hc : Chain bot lo l) (hb : lo ≤ bot → lo' ≤ bot := fun h' => Nat.le_trans h h') :
    Chain bot lo' l := by
  cases l with
  | nil => exact hb hc
  | cons o rest =>
    cases o with
    | blk b => exact ⟨Nat.le_trans h hc.1, hc.2⟩
    | frm f => exact ⟨Nat.le_trans h hc.1, hc.2⟩

theorem chain_le {bot : Nat} : ∀ {lo : Nat} {l : List Obj}, Chain bot lo l → lo ≤ bot
  | _, [], h => h
  | _, .blk b :: rest, h => by
    have := chain_le h.2
    have := h.1
    omega
  | _, .frm f :: rest, h => by
    have := chain_le h.2.2
    have := h.1; have := h.2.1
    omega

theorem chain_bounds {bot : Nat} : ∀ {lo : Nat} {l : List Obj}, Chain bot lo l →
    ∀ o ∈ l, lo ≤ o.ext.addr ∧ o.ext.addr + o.ext.size ≤ bot
  | _, [], _, o, ho => by simp at ho
  | lo, .blk b :: rest, h, o, ho => by
    rcases List.mem_cons.1 ho with rfl | hr
    · exact ⟨h.1, chain_le h.2⟩
    · have ih := chain_bounds h.2 o hr
      have h1 := h.1
      exact ⟨by omega, ih.2⟩
  | lo, .frm f :: rest, h, o, ho => by
    rcases List.mem_cons.1 ho with rfl | hr
    · have := chain_le h.2.2
      have := h.2.1
      exact ⟨h.1, by simp only [Obj.ext]; omega⟩
    · have ih := chain_bounds h.2.2 o hr
      have h1 := h.1; have h2 := h.2.1
      exact ⟨by omega, ih.2⟩

/-- consecutive layout implies: every object ends at or below the start of every earlier one. -/
theorem chain_pairwise {bot : Nat} : ∀ {lo : Nat} {l : List Obj}, Chain bot lo l →
    l.Pairwise (fun a b => a.ext.addr + a.ext.size ≤ b.ext.addr)
  | _, [], _ => List.Pairwise.nil
  | _, .blk b :: rest, h => by
    refine List.Pairwise.cons ?_ (chain_pairwise h.2)
    intro o ho
    exact (chain_bounds h.2 o ho).1
  | _, .frm f :: rest, h => by
    refine List.Pairwise.cons ?_ (chain_pairwise h.2.2)
    intro o ho
    have h1 := (chain_bounds h.2.2 o ho).1
    have h2 := h.2.1
    show f.addr + FRAME ≤ o.ext.addr
    omega

theorem chain_drop {bot : Nat} {f : Frame} {fr : List Frame} : ∀ {lo : Nat} {l : List Obj},
    Chain bot lo l → framesOf l = f :: fr →
    lo ≤ f.addr ∧ f.addr + FRAME ≤ f.top ∧ Chain bot f.top (dropToFrame l) ∧ framesOf (dropToFrame l) = fr
  | _, [], _, hf => by simp [framesOf] at hf
  | lo, .blk b :: rest, h, hf => by
    have ih := chain_drop (lo := b.addr + b.size) h.2 (by simpa [framesOf] using hf)
    have h1 := h.1
    exact ⟨by omega, ih.2.1, ih.2.2⟩
  | lo, .frm g :: rest, h, hf => by
    simp only [framesOf, List.cons.injEq] at hf
    obtain ⟨rfl, rfl⟩ := hf
    exact ⟨h.1, h.2.1, h.2.2, rfl⟩

theorem achain_mono {base hi hi' : Nat} {l : List Block} (h : hi ≤ hi') (hc : AChain base hi l) :
    AChain base hi' l := by
  cases l with
  | nil => exact Nat.le_trans hc h
  | cons b rest => exact ⟨Nat.le_trans hc.1 h, hc.2⟩

theorem achain_bounds {base : Nat} : ∀ {hi : Nat} {l : List Block}, AChain base hi l →
    base ≤ hi ∧ ∀ b ∈ l, base ≤ b.addr ∧ b.addr + b.size ≤ hi
  | _, [], h => ⟨h, fun b hb => by simp at hb⟩
  | hi, b :: rest, h => by
    have ih := achain_bounds h.2
    have := h.1
    refine ⟨by omega, fun x hx => ?_⟩
    rcases List.mem_cons.1 hx with rfl | hr
    · exact ⟨ih.1, h.1⟩
    · have := ih.2 x hr
      exact ⟨this.1, by omega⟩

theorem achain_pairwise {base : Nat} : ∀ {hi : Nat} {l : List Block}, AChain base hi l →
    l.Pairwise (fun a b => b.addr + b.size ≤ a.addr)
  | _, [], _ => List.Pairwise.nil
  | _, b :: rest, h => by
    refine List.Pairwise.cons ?_ (achain_pairwise h.2)
    intro x hx
    exact ((achain_bounds h.2).2 x hx).2

/-- model state plus the ghost record of what is live. -/
structure G where
  s : State
  objs : List Obj       -- live stack objects, most recent first
  arena : List Block    -- arena blocks handed out since the last reset, most recent first

def G.init : G := ⟨State.init, [], []⟩

/-- the operations of the sequential (unlocked) phase. -/
def Op.isSeq : Op → Bool
  | .lock | .unlock => false
  | _ => true

/-- ghost update after a stack allocation of `size` bytes. -/
def G.afterAlloc (g : G) (size : Nat) (r : Res × State) : G :=
  match r.1 with
  | .ptr a => ⟨r.2, .blk ⟨a, size⟩ :: g.objs, g.arena⟩
  | _ => ⟨r.2, g.objs, g.arena⟩

/-- one operation on the instrumented state: the model step plus the book-keeping of liveness
    dictated by the API contract (a block lives until the `mj_freeStack` matching the latest
    `mj_markStack` before its allocation; arena blocks live until the arena is reset). -/
def gstep (c : Cfg) (g : G) : Op → Res × G
  | .mark =>
    let r := markStack c g.s
    (r.1, match r.1 with
          | .unit => ⟨r.2, .frm ⟨r.2.pbase, g.s.pbase, top c g.s⟩ :: g.objs, g.arena⟩
          | _ => ⟨r.2, g.objs, g.arena⟩)
  | .free =>
    let r := freeStack c g.s
    (r.1, match r.1 with
          | .unit => ⟨r.2, if g.s.pbase = 0 then g.objs else dropToFrame g.objs, g.arena⟩
          | _ => ⟨r.2, g.objs, g.arena⟩)
  | .alloc size al => let r := stackAlloc c g.s size al; (r.1, g.afterAlloc size r)
  | .num n => let r := stackAllocElems c g.s n 8; (r.1, g.afterAlloc (mul64 n 8) r)
  | .int n => let r := stackAllocElems c g.s n 4; (r.1, g.afterAlloc (mul64 n 4) r)
  | .arena bytes al =>
    let r := arenaAlloc c g.s bytes al
    (r.1, match r.1 with
          | .ptr a => ⟨r.2, g.objs, ⟨a, bytes⟩ :: g.arena⟩
          | _ => ⟨r.2, g.objs, g.arena⟩)
  | .lock => (.unit, ⟨{ g.s with threadlock := true }, g.objs, g.arena⟩)
  | .unlock => (.unit, ⟨{ g.s with threadlock := false }, g.objs, g.arena⟩)

/-- the instrumented step runs the model step. -/
theorem gstep_model (c : Cfg) (g : G) (op : Op) :
    (gstep c g op).1 = (step c g.s op).1 ∧ (gstep c g op).2.s = (step c g.s op).2 := by
  cases op <;> refine ⟨rfl, ?_⟩ <;> simp only [gstep, step, G.afterAlloc] <;> (try split) <;> rfl

/-- address-space sanity of an mjData arena: non-NULL, and its end (plus red zones and one frame
    record) is below 2^64. -/
def WFCfg (c : Cfg) : Prop := 0 < c.base ∧ c.base + c.narena + 2 * c.rz + 32 < W

/-- the explicit no-wrap side condition per operation: this is the guard the code does not have. -/
def NoWrap (c : Cfg) (s : State) : Op → Prop
  | .alloc size al => 0 < al ∧ size + al + 2 * c.rz < W
  | .num n => (W - 1) / 8 ≤ n ∨ n * 8 + 8 + 2 * c.rz < W
  | .int n => (W - 1) / 4 ≤ n ∨ n * 4 + 4 + 2 * c.rz < W
  | .arena bytes al => 0 < al ∧ s.parena + al + bytes < W
  | _ => True

/-- the safety invariant of the sequential phase. -/
def Inv (c : Cfg) (g : G) : Prop :=
  g.s.threadlock = false ∧ g.s.parena + g.s.pstack ≤ c.narena ∧
  Chain (c.base + c.narena) (c.base + c.narena - g.s.pstack) g.objs ∧
  framesOf g.objs = g.s.frames ∧ g.s.pbase = headAddr g.s.frames ∧ FramesOK g.s.frames ∧
  AChain c.base (c.base + g.s.parena) g.arena

theorem bottom_eq {c : Cfg} (hw : WFCfg c) : bottom c = c.base + c.narena := add64_eq (by unfold WFCfg at hw; omega)
theorem top_eq {c : Cfg} {s : State} (hw : WFCfg c) (h : s.pstack ≤ c.narena) :
    top c s = c.base + c.narena - s.pstack := by
  unfold top; rw [bottom_eq hw]; exact sub64_eq (by unfold WFCfg at hw; omega) (by omega)
theorem limit_eq {c : Cfg} {s : State} (hw : WFCfg c) (h : s.parena ≤ c.narena) :
    limit c s = c.base + s.parena := add64_eq (by unfold WFCfg at hw; omega)

/-- the unlocked `stackalloc` on a consistent state: either the overflow error with the state
    untouched, or an aligned block between the new top and the old top. -/
theorem stackAlloc_seq {c : Cfg} {s : State} {size al : Nat} (hw : WFCfg c)
    (hl : s.threadlock = false) (hfit : s.parena + s.pstack ≤ c.narena) (hsz : 0 < size)
    (hal : 0 < al) (hnw : size + al + 2 * c.rz < W) :
    stackAlloc c s size al = (.error, s) ∨
    ∃ a s' nt, stackAlloc c s size al = (.ptr a, s') ∧ s'.parena = s.parena ∧ s'.pbase = s.pbase ∧
      s'.frames = s.frames ∧ s'.threadlock = false ∧ s'.pstack = c.base + c.narena - nt ∧
      c.base + s.parena ≤ nt ∧ nt + c.rz = a ∧ a + size + c.rz ≤ c.base + c.narena - s.pstack ∧
      a % al = 0 := by
  rw [stackAlloc_unlocked hl (by omega)]
  have hb := bottom_eq hw
  have ht := top_eq (s := s) hw (by omega)
  have hlim := limit_eq (s := s) hw (by omega)
  have hw' := hw; unfold WFCfg at hw'
  cases h : stackAllocInternal c (bottom c) (top c s) (limit c s) size al with
  | none => left; rfl
  | some r =>
    obtain ⟨start, newTop, usage⟩ := r
    right
    rw [ht, hlim] at h
    have := sai_some (by omega) (by omega) hsz hal (by omega) h
    refine ⟨start, _, newTop, rfl, rfl, rfl, rfl, hl, ?_, this.1, this.2.1, this.2.2.1, this.2.2.2.1⟩
    show sub64 (bottom c) newTop = _
    rw [hb]; exact sub64_eq (by omega) (by omega)

/-- `mj_markStack` on a consistent unlocked state. -/
theorem markStack_seq {c : Cfg} {s : State} (hw : WFCfg c)
    (hl : s.threadlock = false) (hfit : s.parena + s.pstack ≤ c.narena) :
    markStack c s = (.error, s) ∨
    ∃ a s' nt, markStack c s = (.unit, s') ∧ s'.parena = s.parena ∧ s'.pbase = a ∧
      s'.frames = ⟨a, s.pbase, c.base + c.narena - s.pstack⟩ :: s.frames ∧ s'.threadlock = false ∧
      s'.pstack = c.base + c.narena - nt ∧
      c.base + s.parena ≤ nt ∧ nt + c.rz = a ∧ a + FRAME + c.rz ≤ c.base + c.narena - s.pstack ∧
      a % FALIGN = 0 := by
  unfold markStack
  simp only [hl, Bool.false_eq_true, ↓reduceIte]
  have hb := bottom_eq hw
  have ht := top_eq (s := s) hw (by omega)
  have hlim := limit_eq (s := s) hw (by omega)
  have hw' := hw; unfold WFCfg at hw'
  cases h : stackAllocInternal c (bottom c) (top c s) (limit c s) FRAME FALIGN with
  | none => left; rfl
  | some r =>
    obtain ⟨start, newTop, usage⟩ := r
    right
    rw [ht, hlim] at h
    have := sai_some (by omega) (by omega) (by decide) (by decide) (by unfold FRAME FALIGN W at *; omega) h
    refine ⟨start, _, newTop, rfl, rfl, rfl, ?_, rfl, ?_, this.1, this.2.1, this.2.2.1, this.2.2.2.1⟩
    · show _ :: _ = _; rw [ht]
    · show sub64 (bottom c) newTop = _
      rw [hb]; exact sub64_eq (by omega) (by omega)

/-- pushing a freshly allocated block keeps the invariant. -/
theorem inv_push_blk {c : Cfg} {g : G} {a size nt : Nat} {s' : State} (hi : Inv c g)
    (h1 : s'.parena = g.s.parena) (h2 : s'.pbase = g.s.pbase) (h3 : s'.frames = g.s.frames)
    (h4 : s'.threadlock = false) (h5 : s'.pstack = c.base + c.narena - nt)
    (h6 : c.base + g.s.parena ≤ nt) (h7 : nt ≤ a)
    (h8 : a + size ≤ c.base + c.narena - g.s.pstack) :
    Inv c ⟨s', .blk ⟨a, size⟩ :: g.objs, g.arena⟩ := by
  obtain ⟨hl, hfit, hch, hfr, hpb, hfok, hac⟩ := hi
  have hnt : nt ≤ c.base + c.narena := by omega
  refine ⟨h4, by simp only; omega, ?_, by simpa [framesOf, h3] using hfr, by simp only [h2, h3]; exact hpb,
    by simp only [h3]; exact hfok, by simp only [h1]; exact hac⟩
  simp only [h5]
  show Chain _ _ (_ :: _)
  refine ⟨by show _ ≤ a; omega, ?_⟩
  exact chain_mono (by show a + size ≤ _; omega) hch

theorem inv_afterAlloc {c : Cfg} {g : G} {size al : Nat} (hw : WFCfg c) (hi : Inv c g)
    (hal : 0 < al) (hnw : size + al + 2 * c.rz < W) :
    Inv c (g.afterAlloc size (stackAlloc c g.s size al)) := by
  have hi' := hi
  obtain ⟨hl, hfit, hch, hfr, hpb, hfok, hac⟩ := hi
  by_cases hsz : size = 0
  · have : stackAlloc c g.s size al = (.null, g.s) := by simp [stackAlloc, hsz]
    rw [this]; exact hi'
  · rcases stackAlloc_seq (size := size) (al := al) hw hl hfit (by omega) hal hnw with
      h | ⟨a, s', nt, h, h1, h2, h3, h4, h5, h6, h7, h8, _⟩
    · rw [h]; exact hi'
    · rw [h]
      exact inv_push_blk hi' h1 h2 h3 h4 h5 h6 (by omega) (by omega)

theorem inv_gstep {c : Cfg} {g : G} {op : Op} (hw : WFCfg c) (hi : Inv c g)
    (hs : op.isSeq = true) (hn : NoWrap c g.s op) : Inv c (gstep c g op).2 := by
  have hi' := hi
  obtain ⟨hl, hfit, hch, hfr, hpb, hfok, hac⟩ := hi
  have hw' := hw; unfold WFCfg at hw'
  cases op with
  | lock => simp [Op.isSeq] at hs
  | unlock => simp [Op.isSeq] at hs
  | mark =>
    rcases markStack_seq hw hl hfit with h | ⟨a, s', nt, h, h1, h2, h3, h4, h5, h6, h7, h8, _⟩
    · have e : gstep c g .mark = (.error, ⟨g.s, g.objs, g.arena⟩) := by simp [gstep, h]
      rw [e]; exact hi'
    · have e : gstep c g .mark =
          (.unit, ⟨s', .frm ⟨s'.pbase, g.s.pbase, top c g.s⟩ :: g.objs, g.arena⟩) := by
        simp [gstep, h]
      rw [e]
      have ht := top_eq (s := g.s) hw (by omega)
      refine ⟨h4, by simp only; omega, ?_, ?_, ?_, ?_, by simp only [h1]; exact hac⟩
      · simp only [h5]
        show Chain _ _ (_ :: _)
        refine ⟨by show _ ≤ s'.pbase; omega, ?_, ?_⟩
        · show s'.pbase + FRAME ≤ top c g.s; rw [ht]; omega
        · show Chain _ (top c g.s) g.objs; rw [ht]; exact hch
      · simp only [framesOf, h3, hfr, h2, ht]
      · simp only [h3, headAddr, h2]
      · simp only [h3]
        exact ⟨hpb, by show a ≠ 0; omega, hfok⟩
  | free =>
    by_cases hp : g.s.pbase = 0
    · have e : gstep c g .free = (.unit, ⟨g.s, g.objs, g.arena⟩) := by
        simp [gstep, freeStack, hl, hp]
      rw [e]; exact hi'
    · -- the record at d->pbase is the head of the frame list
      cases hfs : g.s.frames with
      | nil => rw [hfs] at hpb; exact absurd hpb hp
      | cons f rest =>
        rw [hfs] at hpb hfok hfr
        have hfa : f.addr = g.s.pbase := hpb.symm
        obtain ⟨hlo, hft, hch', hfr'⟩ := chain_drop hch hfr
        have hle := chain_le hch'
        have e : gstep c g .free =
            (.unit, ⟨{ g.s with pbase := f.pbase, pstack := sub64 (bottom c) f.top, frames := rest },
                     dropToFrame g.objs, g.arena⟩) := by
          simp [gstep, freeStack, hl, hp, hfs, hfa]
        rw [e]
        have hps : sub64 (bottom c) f.top = c.base + c.narena - f.top := by
          rw [bottom_eq hw]; exact sub64_eq (by omega) hle
        refine ⟨hl, by simp only [hps]; omega, ?_, hfr', hfok.1, hfok.2.2, hac⟩
        simp only [hps]
        have : c.base + c.narena - (c.base + c.narena - f.top) = f.top := by omega
        rw [this]; exact hch'
  | alloc size al => exact inv_afterAlloc hw hi' hn.1 hn.2
  | num n =>
    show Inv c (g.afterAlloc (mul64 n 8) (stackAllocElems c g.s n 8))
    unfold stackAllocElems
    split
    · exact hi'
    · next hg =>
      have hn' : n * 8 + 8 + 2 * c.rz < W := by
        rcases hn with h | h
        · exact absurd h hg
        · exact h
      have hm : mul64 n 8 = n * 8 := Nat.mod_eq_of_lt (by omega)
      exact inv_afterAlloc hw hi' (by decide) (by rw [hm]; omega)
  | int n =>
    show Inv c (g.afterAlloc (mul64 n 4) (stackAllocElems c g.s n 4))
    unfold stackAllocElems
    split
    · exact hi'
    · next hg =>
      have hn' : n * 4 + 4 + 2 * c.rz < W := by
        rcases hn with h | h
        · exact absurd h hg
        · exact h
      have hm : mul64 n 4 = n * 4 := Nat.mod_eq_of_lt (by omega)
      exact inv_afterAlloc hw hi' (by decide) (by rw [hm]; omega)
  | arena bytes al =>
    have hspec := arenaAlloc_spec (c := c) (s := g.s) (bytes := bytes) (al := al) (by omega) hfit hn.1 hn.2
    have hpad := pad_spec g.s.parena al hn.1
    simp only at hspec hpad
    generalize (if g.s.parena % al ≠ 0 then al - g.s.parena % al else 0) = pad at hspec hpad
    show Inv c (match (arenaAlloc c g.s bytes al).1 with
      | .ptr a => ⟨(arenaAlloc c g.s bytes al).2, g.objs, ⟨a, bytes⟩ :: g.arena⟩
      | _ => ⟨(arenaAlloc c g.s bytes al).2, g.objs, g.arena⟩)
    split at hspec
    · rw [hspec]; exact hi'
    · next hfit2 =>
      rw [hspec]
      refine ⟨hl, by simp only; omega, hch, hfr, hpb, hfok, ?_⟩
      show AChain _ _ (_ :: _)
      refine ⟨by show c.base + g.s.parena + pad + bytes ≤ _; simp only; omega, ?_⟩
      exact achain_mono (by show _ ≤ c.base + g.s.parena + pad; omega) hac

/-! ### Runs of operation sequences; well-nested (balanced) sequences -/

/-- state-independent form of `NoWrap` (uses `parena ≤ narena`). -/
def NoWrapS (c : Cfg) : Op → Prop
  | .alloc size al => 0 < al ∧ size + al + 2 * c.rz < W
  | .num n => (W - 1) / 8 ≤ n ∨ n * 8 + 8 + 2 * c.rz < W
  | .int n => (W - 1) / 4 ≤ n ∨ n * 4 + 4 + 2 * c.rz < W
  | .arena bytes al => 0 < al ∧ c.narena + al + bytes < W
  | _ => True

theorem noWrapS_noWrap {c : Cfg} {g : G} {op : Op} (hi : Inv c g) (h : NoWrapS c op) : NoWrap c g.s op := by
  cases op <;> try exact h
  case arena bytes al =>
    have := hi.2.1
    exact ⟨h.1, by have := h.2; omega⟩

/-- run a sequence on the instrumented state, collecting the results. -/
def grun (c : Cfg) : G → List Op → List Res × G
  | g, [] => ([], g)
  | g, op :: ops => ((gstep c g op).1 :: (grun c (gstep c g op).2 ops).1, (grun c (gstep c g op).2 ops).2)

/-- `balanced d ops`: starting at nesting depth `d`, every `free` in `ops` matches a `mark` that is
    still open, and the sequence ends at depth 0. -/
def balanced : Nat → List Op → Bool
  | d, [] => d == 0
  | d, .mark :: r => balanced (d + 1) r
  | d, .free :: r => d != 0 && balanced (d - 1) r
  | d, _ :: r => balanced d r

theorem framesOf_append : ∀ (a b : List Obj), framesOf (a ++ b) = framesOf a ++ framesOf b
  | [], _ => rfl
  | .blk _ :: a, b => by simp only [List.cons_append, framesOf]; exact framesOf_append a b
  | .frm f :: a, b => by simp only [List.cons_append, framesOf, framesOf_append a b]

theorem dropToFrame_append {f : Frame} {fr : List Frame} : ∀ (a b : List Obj), framesOf a = f :: fr →
    dropToFrame (a ++ b) = dropToFrame a ++ b ∧ framesOf (dropToFrame a) = fr
  | [], _, h => by simp [framesOf] at h
  | .blk _ :: a, b, h => by
    simp only [List.cons_append, dropToFrame]
    exact dropToFrame_append a b (by simpa [framesOf] using h)
  | .frm g :: a, b, h => by
    simp only [framesOf, List.cons.injEq] at h
    simp only [List.cons_append, dropToFrame, h.2, and_self]

theorem afterAlloc_objs (g : G) (size : Nat) (r : Res × State) :
    (g.afterAlloc size r).objs = g.objs ∨ ∃ b, (g.afterAlloc size r).objs = .blk b :: g.objs := by
  unfold G.afterAlloc
  split
  · exact Or.inr ⟨_, rfl⟩
  · exact Or.inl rfl

/-- operations other than mark / free only push client blocks. -/
theorem gstep_objs_other (c : Cfg) (g : G) (op : Op) (h1 : op ≠ .mark) (h2 : op ≠ .free) :
    (gstep c g op).2.objs = g.objs ∨ ∃ b, (gstep c g op).2.objs = .blk b :: g.objs := by
  cases op with
  | mark => exact absurd rfl h1
  | free => exact absurd rfl h2
  | lock => exact Or.inl rfl
  | unlock => exact Or.inl rfl
  | alloc size al => exact afterAlloc_objs g size _
  | num n => exact afterAlloc_objs g _ _
  | int n => exact afterAlloc_objs g _ _
  | arena bytes al =>
    left
    simp only [gstep]
    split <;> rfl

theorem gstep_mark_objs {c : Cfg} {g : G} (hw : WFCfg c) (hi : Inv c g) :
    ((gstep c g .mark).1 = .error) ∨
    ((gstep c g .mark).1 = .unit ∧ ∃ a, (gstep c g .mark).2.objs =
        .frm ⟨a, g.s.pbase, c.base + c.narena - g.s.pstack⟩ :: g.objs) := by
  obtain ⟨hl, hfit, _⟩ := hi
  rcases markStack_seq hw hl hfit with h | ⟨a, s', nt, h, h1, h2, h3, h4, h5, h6, h7, h8, _⟩
  · left; simp [gstep, h]
  · right
    have ht := top_eq (s := g.s) hw (by omega)
    refine ⟨by simp [gstep, h], a, ?_⟩
    simp [gstep, h, h2, ht]

theorem gstep_free_objs {c : Cfg} {g : G} (hi : Inv c g) (hp : g.s.pbase ≠ 0) :
    (gstep c g .free).1 = .unit ∧ (gstep c g .free).2.objs = dropToFrame g.objs := by
  obtain ⟨hl, _, _, _, hpb, _, _⟩ := hi
  cases hfs : g.s.frames with
  | nil => rw [hfs] at hpb; exact absurd hpb hp
  | cons f rest =>
    rw [hfs] at hpb
    have hfa : f.addr = g.s.pbase := hpb.symm
    simp [gstep, freeStack, hl, hp, hfs, hfa]

/-- Well-nested sequences: a sequence that is balanced at depth `d` and raises no error pops exactly
    the `d` innermost frames (and everything above them) and leaves the rest of the live list intact,
    up to client blocks allocated outside any inner frame. -/
theorem run_balanced {c : Cfg} (hw : WFCfg c) : ∀ (ops : List Op) (d : Nat) (g : G) (pfx O : List Obj),
    Inv c g → g.objs = pfx ++ O → (framesOf pfx).length = d →
    (∀ op ∈ ops, op.isSeq = true ∧ NoWrapS c op) → balanced d ops = true →
    Res.error ∉ (grun c g ops).1 →
    Inv c (grun c g ops).2 ∧ ∃ pfx', (grun c g ops).2.objs = pfx' ++ O ∧ framesOf pfx' = []
  | [], d, g, pfx, O, hi, ho, hd, _, hb, _ => by
    simp only [balanced, beq_iff_eq] at hb
    subst hb
    exact ⟨hi, pfx, ho, List.eq_nil_of_length_eq_zero hd⟩
  | op :: ops, d, g, pfx, O, hi, ho, hd, hops, hb, hne => by
    have hop := hops op (List.mem_cons_self ..)
    have hops' : ∀ op' ∈ ops, op'.isSeq = true ∧ NoWrapS c op' :=
      fun op' h => hops op' (List.mem_cons_of_mem _ h)
    have hi1 : Inv c (gstep c g op).2 := inv_gstep hw hi hop.1 (noWrapS_noWrap hi hop.2)
    simp only [grun, List.mem_cons, not_or] at hne ⊢
    by_cases hm : op = .mark
    · subst hm
      simp only [balanced] at hb
      rcases gstep_mark_objs hw hi with he | ⟨_, a, hobj⟩
      · exact absurd he.symm hne.1
      · exact run_balanced hw ops (d + 1) _ (.frm ⟨a, g.s.pbase, c.base + c.narena - g.s.pstack⟩ :: pfx) O hi1
          (by rw [hobj, ho]; rfl) (by simp [framesOf, hd]) hops' hb hne.2
    · by_cases hf : op = .free
      · subst hf
        simp only [balanced, Bool.and_eq_true, bne_iff_ne, ne_eq] at hb
        -- the innermost open frame is the record d->pbase addresses
        cases hpf : framesOf pfx with
        | nil => rw [hpf] at hd; exact absurd hd.symm hb.1
        | cons p pre =>
          have hfr : g.s.frames = p :: (pre ++ framesOf O) := by
            rw [← hi.2.2.2.1, ho, framesOf_append, hpf]; rfl
          have hp : g.s.pbase ≠ 0 := by
            have h5 := hi.2.2.2.2.1
            have h6 := hi.2.2.2.2.2.1
            rw [hfr] at h5 h6
            rw [h5]; exact h6.2.1
          obtain ⟨_, hobj⟩ := gstep_free_objs hi hp
          obtain ⟨hda, hdf⟩ := dropToFrame_append pfx O hpf
          exact run_balanced hw ops (d - 1) _ (dropToFrame pfx) O hi1
            (by rw [hobj, ho, hda]) (by rw [hdf]; rw [hpf] at hd; simp at hd; omega) hops' hb.2 hne.2
      · have hb' : balanced d ops = true := by
          cases op <;> first | exact absurd rfl hm | exact absurd rfl hf | exact hb
        rcases gstep_objs_other c g op hm hf with hobj | ⟨b, hobj⟩
        · exact run_balanced hw ops d _ pfx O hi1 (by rw [hobj, ho]) hd hops' hb' hne.2
        · exact run_balanced hw ops d _ (.blk b :: pfx) O hi1 (by rw [hobj, ho]; rfl)
            (by simpa [framesOf] using hd) hops' hb' hne.2

theorem gstep_free_state {c : Cfg} {g : G} {f : Frame} {rest : List Frame} (hi : Inv c g)
    (hfs : g.s.frames = f :: rest) (hp : g.s.pbase ≠ 0) :
    (gstep c g .free).2.s = { g.s with pbase := f.pbase, pstack := sub64 (bottom c) f.top, frames := rest } := by
  obtain ⟨hl, _, _, _, hpb, _, _⟩ := hi
  rw [hfs] at hpb
  have hfa : f.addr = g.s.pbase := hpb.symm
  simp [gstep, freeStack, hl, hp, hfs, hfa]

theorem grun_append (c : Cfg) : ∀ (g : G) (a b : List Op),
    grun c g (a ++ b) = ((grun c g a).1 ++ (grun c (grun c g a).2 b).1, (grun c (grun c g a).2 b).2)
  | g, [], b => rfl
  | g, op :: a, b => by
    simp only [List.cons_append, grun, grun_append c _ a b]

/-! ### Reservations under the thread lock -/

/-- upper bound of what one request `(size, al)` adds to `pstack`. -/
def cost (c : Cfg) (r : Nat × Nat) : Nat := r.1 + r.2 + 2 * c.rz
def total (c : Cfg) : List (Nat × Nat) → Nat
  | [] => 0
  | r :: rest => cost c r + total c rest

/-- what the requests add to `pstack` exactly (zero-size requests reserve nothing). -/
def reserved (c : Cfg) : List (Nat × Nat) → Nat
  | [] => 0
  | (size, al) :: rest => (if size = 0 then 0 else size + al - 1 + 2 * c.rz) + reserved c rest

/-- the blocks handed out (with the alignment that was asked for), in request order. -/
def granted : List (Nat × Nat) → List Res → List (Block × Nat)
  | (size, al) :: reqs, .ptr a :: rs => (⟨a, size⟩, al) :: granted reqs rs
  | _ :: reqs, _ :: rs => granted reqs rs
  | _, _ => []

theorem lockedRun_cons (c : Cfg) (s : State) (size al : Nat) (rest : List (Nat × Nat)) :
    lockedRun c s ((size, al) :: rest) =
      ((stackAlloc c s size al).1 :: (lockedRun c (stackAlloc c s size al).2 rest).1,
       (lockedRun c (stackAlloc c s size al).2 rest).2) := rfl

theorem locked_core {c : Cfg} (hw : WFCfg c) : ∀ (reqs : List (Nat × Nat)) (s : State),
    s.threadlock = true → s.parena ≤ c.narena → (∀ r ∈ reqs, 0 < r.2) → s.pstack + total c reqs < W →
    (granted reqs (lockedRun c s reqs).1).Pairwise (fun x y => x.1.Disjoint y.1) ∧
    (∀ x ∈ granted reqs (lockedRun c s reqs).1,
      c.base + s.parena ≤ x.1.addr ∧ x.1.addr + x.1.size ≤ c.base + c.narena - s.pstack ∧
      x.1.addr % x.2 = 0) ∧
    (lockedRun c s reqs).2 = { s with pstack := s.pstack + reserved c reqs }
  | [], s, _, _, _, _ => by
    refine ⟨List.Pairwise.nil, fun x hx => ?_, ?_⟩
    · simp [granted] at hx
    · simp [lockedRun, reserved]
  | (size, al) :: rest, s, hl, hpa, hal, hnw => by
    have hw' := hw; unfold WFCfg at hw'
    have hal0 : 0 < al := hal (size, al) (List.mem_cons_self ..)
    have hal' : ∀ r ∈ rest, 0 < r.2 := fun r h => hal r (List.mem_cons_of_mem _ h)
    simp only [total, cost] at hnw
    rw [lockedRun_cons]
    by_cases hsz : size = 0
    · have e : stackAlloc c s size al = (.null, s) := by simp [stackAlloc, hsz]
      rw [e]
      have ih := locked_core hw rest s hl hpa hal' (by omega)
      simp only [granted, reserved, hsz, ↓reduceIte, Nat.zero_add]
      exact ih
    · have hspec := lockedAlloc_spec (c := c) (s := s) (size := size) (al := al) (by omega) hl hpa
        (by omega) hal0 (by omega)
      have ih := locked_core hw rest { s with pstack := s.pstack + (size + al - 1 + 2 * c.rz) } hl hpa hal'
        (by simp only; omega)
      simp only at ih
      have hres : s.pstack + (size + al - 1 + 2 * c.rz) + reserved c rest
          = s.pstack + reserved c ((size, al) :: rest) := by
        simp only [reserved, hsz, ↓reduceIte]; omega
      split at hspec
      · rw [hspec]
        simp only [granted]
        refine ⟨ih.1, fun x hx => ?_, by rw [ih.2.2, hres]⟩
        have := ih.2.1 x hx
        exact ⟨this.1, by omega, this.2.2⟩
      · next hfit =>
        obtain ⟨a, he, h1, h2, h3⟩ := hspec
        rw [he]
        simp only [granted]
        refine ⟨List.Pairwise.cons (fun y hy => ?_) ih.1, fun x hx => ?_, by rw [ih.2.2, hres]⟩
        · have := ih.2.1 y hy
          exact Or.inr (by show y.1.addr + y.1.size ≤ a; omega)
        · rcases List.mem_cons.1 hx with rfl | hr
          · exact ⟨by show _ ≤ a; omega, by show a + size ≤ _; omega, h1⟩
          · have := ih.2.1 x hr
            exact ⟨this.1, by omega, this.2.2⟩

/-- take the next request of thread `t` (if that thread exists and has one left). -/
def popAt : List (List (Nat × Nat)) → Nat → Option ((Nat × Nat) × List (List (Nat × Nat)))
  | [], _ => none
  | [] :: _, 0 => none
  | (x :: p) :: ps, 0 => some (x, p :: ps)
  | p :: ps, t + 1 => (popAt ps t).map (fun r => (r.1, p :: r.2))

/-- the order in which the fetch-adds of the threads' programs hit `d->pstack` under the schedule
    `sched` (a list of thread indices; a step of a finished or non-existent thread is a no-op). -/
def interleave : List (List (Nat × Nat)) → List Nat → List (Nat × Nat)
  | _, [] => []
  | progs, t :: sched =>
    match popAt progs t with
    | none => interleave progs sched
    | some (x, progs') => x :: interleave progs' sched

def totalAll (c : Cfg) : List (List (Nat × Nat)) → Nat
  | [] => 0
  | p :: ps => total c p + totalAll c ps

theorem popAt_total (c : Cfg) : ∀ (progs : List (List (Nat × Nat))) (t : Nat) x progs',
    popAt progs t = some (x, progs') →
    totalAll c progs = cost c x + totalAll c progs' ∧ (∀ p ∈ progs', ∀ r ∈ p, (∃ q ∈ progs, r ∈ q)) ∧ (∃ q ∈ progs, x ∈ q)
  | [], _, _, _, h => by simp [popAt] at h
  | [] :: ps, 0, _, _, h => by simp [popAt] at h
  | (y :: p) :: ps, 0, x, progs', h => by
    simp only [popAt, Option.some.injEq, Prod.mk.injEq] at h
    obtain ⟨rfl, rfl⟩ := h
    refine ⟨by simp only [totalAll, total]; omega, ?_, ⟨_, List.mem_cons_self .., List.mem_cons_self ..⟩⟩
    intro q hq r hr
    rcases List.mem_cons.1 hq with rfl | hq'
    · exact ⟨_, List.mem_cons_self .., List.mem_cons_of_mem _ hr⟩
    · exact ⟨q, List.mem_cons_of_mem _ hq', hr⟩
  | p :: ps, t + 1, x, progs', h => by
    simp only [popAt, Option.map_eq_some_iff] at h
    obtain ⟨⟨x', ps'⟩, hpop, he⟩ := h
    simp only [Prod.mk.injEq] at he
    obtain ⟨rfl, rfl⟩ := he
    have ih := popAt_total c ps t x' ps' hpop
    refine ⟨by simp only [totalAll]; omega, ?_, ?_⟩
    · intro q hq r hr
      rcases List.mem_cons.1 hq with rfl | hq'
      · exact ⟨_, List.mem_cons_self .., hr⟩
      · obtain ⟨q', hq'', hr'⟩ := ih.2.1 q hq' r hr
        exact ⟨q', List.mem_cons_of_mem _ hq'', hr'⟩
    · obtain ⟨q', hq'', hr'⟩ := ih.2.2
      exact ⟨q', List.mem_cons_of_mem _ hq'', hr'⟩

theorem interleave_total (c : Cfg) : ∀ (sched : List Nat) (progs : List (List (Nat × Nat))),
    total c (interleave progs sched) ≤ totalAll c progs ∧
    ∀ r ∈ interleave progs sched, ∃ q ∈ progs, r ∈ q
  | [], _ => ⟨Nat.zero_le _, fun r h => by simp [interleave] at h⟩
  | t :: sched, progs => by
    simp only [interleave]
    cases h : popAt progs t with
    | none => exact interleave_total c sched progs
    | some r =>
      obtain ⟨x, progs'⟩ := r
      have hp := popAt_total c progs t x progs' h
      have ih := interleave_total c sched progs'
      refine ⟨by simp only [total]; omega, fun r hr => ?_⟩
      rcases List.mem_cons.1 hr with rfl | hr'
      · exact hp.2.2
      · obtain ⟨q, hq, hrq⟩ := ih.2 r hr'
        exact hp.2.1 q hq r hrq

end MjProof.Arena
