import MjProof.Model.Arena
/-
Helper lemmas for C19 (core Lean only): `fastmod` is `%`, wrap-free readings of `add64`/`sub64`,
and the specification of `stackallocinternal` under the explicit no-wrap side condition.
-/
namespace MjProof.Arena

/-- the bit trick of `fastmod`: if `b & (b-1) == 0` (and `b ≠ 0`) then `a & (b-1) = a % b`. -/
theorem and_pred_eq_mod : ∀ (b : Nat), 0 < b → b &&& (b - 1) = 0 → ∀ a, a &&& (b - 1) = a % b := by
  intro b
  induction b using Nat.strongRecOn with
  | _ b ih =>
    intro hb h a
    rcases Nat.mod_two_eq_zero_or_one b with h2 | h2
    · have hb' : 0 < b / 2 := by omega
      have h1 : (b - 1) / 2 = b / 2 - 1 := by omega
      have h1' : (b - 1) % 2 = 1 := by omega
      have hh : b / 2 &&& (b / 2 - 1) = 0 := by
        have := congrArg (· / 2) h
        simp only [Nat.and_div_two] at this
        rw [h1] at this; simpa using this
      have ihh := ih (b / 2) (by omega) hb' hh (a / 2)
      have d : (a &&& (b - 1)) / 2 = (a / 2) % (b / 2) := by
        rw [Nat.and_div_two, h1, ihh]
      have m : (a &&& (b - 1)) % 2 = a % 2 := by
        rcases Nat.mod_two_eq_zero_or_one a with ha | ha
        · have : ¬ ((a &&& (b - 1)) % 2 = 1) := by
            rw [Nat.and_mod_two_eq_one]; omega
          omega
        · have : ((a &&& (b - 1)) % 2 = 1) := by
            rw [Nat.and_mod_two_eq_one]; omega
          omega
      have e : b = 2 * (b / 2) := by omega
      have key : a % b = 2 * ((a / 2) % (b / 2)) + a % 2 := by
        conv => lhs; rw [e]
        rw [Nat.mod_mul]
        omega
      omega
    · have : (b &&& (b - 1)) / 2 = b / 2 := by
        rw [Nat.and_div_two]
        have : (b - 1) / 2 = b / 2 := by omega
        rw [this, Nat.and_self]
      rw [h] at this
      have : b = 1 := by omega
      subst this
      simp [Nat.mod_one]

theorem W_eq : W = 2 ^ 64 := by rfl

/-- `fastmod` computes `a % b` for every `size_t` pair (also `b = 0`, where C yields `a`, and
    non-powers of two, where it takes the `%` branch). -/
theorem fastmod_eq_mod {a b : Nat} (ha : a < W) (hb : b < W) : fastmod a b = a % b := by
  unfold fastmod
  by_cases h0 : b = 0
  · subst h0
    have : sub64 0 1 = 2 ^ 64 - 1 := by rfl
    rw [this]
    simp only [Nat.zero_and, ↓reduceIte, Nat.mod_zero]
    rw [Nat.and_two_pow_sub_one_eq_mod]
    exact Nat.mod_eq_of_lt (W_eq ▸ ha)
  · have hs : sub64 b 1 = b - 1 := by unfold sub64 W at *; omega
    rw [hs]
    split
    · next h => exact and_pred_eq_mod b (by omega) h a
    · rfl

theorem add64_eq {a b : Nat} (h : a + b < W) : add64 a b = a + b := Nat.mod_eq_of_lt h
theorem sub64_eq {a b : Nat} (ha : a < W) (h : b ≤ a) : sub64 a b = a - b := by
  unfold sub64 W at *; omega
theorem add64_lt (a b : Nat) : add64 a b < W := Nat.mod_lt _ (by unfold W; omega)
theorem sub64_lt (a b : Nat) : sub64 a b < W := Nat.mod_lt _ (by unfold W; omega)

theorem sub_mod_self_mod (a b : Nat) : (a - a % b) % b = 0 := by
  have h : a - a % b = b * (a / b) := by
    have := Nat.div_add_mod a b
    omega
  rw [h]; exact Nat.mul_mod_right _ _

/-- `stackallocinternal` with the modular reductions made explicit (`m` is the alignment slack). -/
theorem sai_eq (c : Cfg) (bot tp lim size al : Nat) (hal : al < W) :
    stackAllocInternal c bot tp lim size al =
      (let start0 := sub64 tp (add64 size c.rz)
       let start := sub64 start0 (start0 % al)
       let newTop := sub64 start c.rz
       if sub64 tp newTop > sub64 tp lim then none
       else some (start, newTop, add64 (sub64 (sub64 tp newTop) (2 * c.rz)) (sub64 bot tp))) := by
  unfold stackAllocInternal
  simp only [fastmod_eq_mod (sub64_lt _ _) hal]

theorem sub64_cases (a b : Nat) (ha : a < W) (hb : b < W) :
    (b ≤ a ∧ sub64 a b = a - b) ∨ (a < b ∧ sub64 a b = a + W - b) := by
  unfold sub64 W at *; omega

/-- Specification of a successful `stackallocinternal` under the no-wrap side condition
    `size + al + 2*rz ≤ 2^64`: the block `[start, start+size)` with its two red zones lies in
    `[newTop, tp)`, `newTop` is not below `lim`, and `start` is a multiple of `al`. -/
theorem sai_some {c : Cfg} {bot tp lim size al start newTop usage : Nat}
    (htp : tp + 2 * c.rz < W) (hlim : lim ≤ tp) (hsz : 0 < size) (hal : 0 < al)
    (hnw : size + al + 2 * c.rz ≤ W)
    (h : stackAllocInternal c bot tp lim size al = some (start, newTop, usage)) :
    lim ≤ newTop ∧ newTop + c.rz = start ∧ start + size + c.rz ≤ tp ∧ start % al = 0
      ∧ tp - newTop < size + al + 2 * c.rz := by
  rw [sai_eq c bot tp lim size al (by omega)] at h
  simp only at h
  have hA : add64 size c.rz = size + c.rz := add64_eq (by omega)
  rw [hA] at h
  have hm : (sub64 tp (size + c.rz)) % al < al := Nat.mod_lt _ hal
  have hm2 : (sub64 tp (size + c.rz)) % al ≤ sub64 tp (size + c.rz) := Nat.mod_le _ _
  have hdiv := sub_mod_self_mod (sub64 tp (size + c.rz)) al
  have hs0 := sub64_cases tp (size + c.rz) (by omega) (by omega)
  have hs0lt := sub64_lt tp (size + c.rz)
  generalize (sub64 tp (size + c.rz)) % al = m at *
  generalize sub64 tp (size + c.rz) = start0 at *
  rw [sub64_eq hs0lt hm2] at h
  have hnt := sub64_cases (start0 - m) c.rz (by omega) (by omega)
  have hntlt := sub64_lt (start0 - m) c.rz
  generalize sub64 (start0 - m) c.rz = nt at *
  have hreq := sub64_cases tp nt (by omega) hntlt
  have hav : sub64 tp lim = tp - lim := sub64_eq (by omega) hlim
  rw [hav] at h
  generalize sub64 tp nt = req at *
  split at h
  · exact absurd h (by simp)
  · next hle =>
    simp only [Option.some.injEq, Prod.mk.injEq] at h
    obtain ⟨h1, h2, _⟩ := h
    subst h1 h2
    refine ⟨?_, ?_, ?_, hdiv, ?_⟩ <;> omega

/-- largest multiple of `al` below `x`: every multiple of `al` that is `≤ x` is `≤ x - x % al`. -/
theorem le_sub_mod_of_dvd {p x al : Nat} (hp : p % al = 0) (hle : p ≤ x) : p ≤ x - x % al := by
  by_cases hal : al = 0
  · subst hal; simp at hp; omega
  have h1 : p = al * (p / al) := by have := Nat.div_add_mod p al; omega
  have h2 : x - x % al = al * (x / al) := by have := Nat.div_add_mod x al; omega
  rw [h1, h2]
  exact Nat.mul_le_mul_left _ (Nat.div_le_div_right hle)

/-- A stack overflow is reported by `stackallocinternal` only when no aligned block with its red
    zones fits between `lim` and `tp` (no-wrap side condition as in `sai_some`). -/
theorem sai_none {c : Cfg} {bot tp lim size al : Nat}
    (htp : tp + 2 * c.rz < W) (hlim : lim ≤ tp) (hsz : 0 < size) (hal : 0 < al)
    (hnw : size + al + 2 * c.rz ≤ W)
    (h : stackAllocInternal c bot tp lim size al = none) :
    ¬ ∃ p, p % al = 0 ∧ lim + c.rz ≤ p ∧ p + size + c.rz ≤ tp := by
  rintro ⟨p, hp, hp1, hp2⟩
  rw [sai_eq c bot tp lim size al (by omega)] at h
  simp only at h
  have hA : add64 size c.rz = size + c.rz := add64_eq (by omega)
  rw [hA] at h
  have hs0 : sub64 tp (size + c.rz) = tp - (size + c.rz) := sub64_eq (by omega) (by omega)
  rw [hs0] at h
  have hple := le_sub_mod_of_dvd (x := tp - (size + c.rz)) hp (by omega)
  have hm2 : (tp - (size + c.rz)) % al ≤ tp - (size + c.rz) := Nat.mod_le _ _
  generalize (tp - (size + c.rz)) % al = m at *
  rw [sub64_eq (by omega) hm2] at h
  rw [sub64_eq (a := tp - (size + c.rz) - m) (by omega) (by omega)] at h
  rw [sub64_eq (a := tp) (b := tp - (size + c.rz) - m - c.rz) (by omega) (by omega)] at h
  rw [sub64_eq (a := tp) (b := lim) (by omega) hlim] at h
  split at h
  · omega
  · exact absurd h (by simp)

/-- the next multiple of `al` at or above `x` is `x + pad` with this `pad`. -/
theorem pad_spec (x al : Nat) (hal : 0 < al) :
    let pad := if x % al ≠ 0 then al - x % al else 0
    pad < al ∧ (x + pad) % al = 0 ∧ ∀ off, off % al = 0 → x ≤ off → x + pad ≤ off := by
  intro pad
  have hm : x % al < al := Nat.mod_lt _ hal
  have hm2 : x % al ≤ x := Nat.mod_le _ _
  have hdiv := sub_mod_self_mod x al
  by_cases h0 : x % al = 0
  · have hp : pad = 0 := by simp [pad, h0]
    rw [hp]; refine ⟨hal, by simpa using h0, fun off _ h => by omega⟩
  · have hp : pad = al - x % al := by simp [pad, h0]
    rw [hp]
    refine ⟨by omega, ?_, ?_⟩
    · have e : x + (al - x % al) = (x - x % al) + al := by omega
      rw [e, Nat.add_mod_right]; exact hdiv
    · intro off hoff hle
      have hq : x = al * (x / al) + x % al := (Nat.div_add_mod x al).symm
      have hk : off = al * (off / al) := by have := Nat.div_add_mod off al; omega
      have hlt : x / al < off / al := by
        apply Nat.lt_of_not_le
        intro hcon
        have := Nat.mul_le_mul_left al hcon
        omega
      have := Nat.mul_le_mul_left al (Nat.succ_le_of_lt hlt)
      rw [Nat.mul_succ] at this
      omega

/-- Specification of `mj_arenaAllocByte` under the no-wrap side condition
    `parena + al + bytes < 2^64`: with `pad` the distance to the next multiple of `al`, the call
    returns NULL and leaves the state unchanged iff `parena + pad + bytes > narena - pstack`. -/
theorem arenaAlloc_spec {c : Cfg} {s : State} {bytes al : Nat}
    (hc : c.base + c.narena < W) (hinv : s.parena + s.pstack ≤ c.narena) (hal : 0 < al)
    (hnw : s.parena + al + bytes < W) :
    let pad := if s.parena % al ≠ 0 then al - s.parena % al else 0
    if s.parena + pad + bytes > c.narena - s.pstack then arenaAlloc c s bytes al = (.null, s)
    else arenaAlloc c s bytes al =
      (.ptr (c.base + s.parena + pad),
       { s with parena := s.parena + pad + bytes,
                maxArena := max s.maxArena (add64 s.pstack (s.parena + pad + bytes)) }) := by
  intro pad
  have hpl : pad < al := (pad_spec s.parena al hal).1
  unfold arenaAlloc
  rw [fastmod_eq_mod (by omega) (by omega)]
  have hm : s.parena % al < al := Nat.mod_lt _ hal
  have hav : sub64 c.narena s.pstack = c.narena - s.pstack := sub64_eq (by omega) (by omega)
  have hpad : (if s.parena % al ≠ 0 then sub64 al (s.parena % al) else 0) = pad := by
    simp only [pad]
    split
    · exact sub64_eq (by omega) (by omega)
    · rfl
  simp only [hpad, hav]
  rw [add64_eq (a := s.parena) (b := pad) (by omega), add64_eq (a := s.parena + pad) (by omega)]
  split
  · rfl
  · rw [add64_eq (a := c.base) (by omega), add64_eq (a := c.base + s.parena) (by omega),
        add64_eq (a := pad) (by omega), add64_eq (a := s.parena) (by omega)]
    simp only [Nat.add_assoc]

/-- Specification of the `d->threadlock` path of `stackalloc` under the no-wrap side condition
    `pstack + size + al + 2*rz < 2^64`: the reservation `A = size + al - 1 + 2*rz` is always added to
    `pstack` (also when the overflow error is raised); a granted block lies, with its red zones,
    inside the reserved interval `[bottom - (pstack + A), bottom - pstack)`. -/
theorem lockedAlloc_spec {c : Cfg} {s : State} {size al : Nat}
    (hc : c.base + c.narena < W) (hlock : s.threadlock = true) (hpa : s.parena ≤ c.narena)
    (hsz : 0 < size) (hal : 0 < al) (hnw : s.pstack + size + al + 2 * c.rz < W) :
    if s.pstack + (size + al - 1 + 2 * c.rz) > c.narena - s.parena then
      stackAlloc c s size al = (.error, { s with pstack := s.pstack + (size + al - 1 + 2 * c.rz) })
    else ∃ a, stackAlloc c s size al =
        (.ptr a, { s with pstack := s.pstack + (size + al - 1 + 2 * c.rz) })
      ∧ a % al = 0
      ∧ c.base + c.narena - (s.pstack + (size + al - 1 + 2 * c.rz)) + c.rz ≤ a
      ∧ a + size + c.rz ≤ c.base + c.narena - s.pstack := by
  unfold stackAlloc
  simp only [show ¬ size = 0 by omega, hlock, ↓reduceIte]
  have h1 : add64 size al = size + al := add64_eq (by omega)
  have h2 : sub64 (size + al) 1 = size + al - 1 := sub64_eq (by omega) (by omega)
  have h3 : add64 (size + al - 1) (2 * c.rz) = size + al - 1 + 2 * c.rz := add64_eq (by omega)
  have h4 : add64 s.pstack (size + al - 1 + 2 * c.rz) = s.pstack + (size + al - 1 + 2 * c.rz) :=
    add64_eq (by omega)
  have h5 : sub64 c.narena s.parena = c.narena - s.parena := sub64_eq (by omega) hpa
  have hb : bottom c = c.base + c.narena := add64_eq hc
  simp only [h1, h2, h3, h4, h5, hb]
  split
  · rfl
  · next hfit =>
    have e1 : sub64 (c.base + c.narena) s.pstack = c.base + c.narena - s.pstack :=
      sub64_eq hc (by omega)
    have e2 : sub64 (c.base + c.narena - s.pstack) size = c.base + c.narena - s.pstack - size :=
      sub64_eq (by omega) (by omega)
    have e3 : sub64 (c.base + c.narena - s.pstack - size) c.rz
        = c.base + c.narena - s.pstack - size - c.rz := sub64_eq (by omega) (by omega)
    simp only [e1, e2, e3]
    have hlt : c.base + c.narena - s.pstack - size - c.rz < W := by omega
    rw [fastmod_eq_mod hlt (by omega)]
    have hm : (c.base + c.narena - s.pstack - size - c.rz) % al < al := Nat.mod_lt _ hal
    have hm2 := Nat.mod_le (c.base + c.narena - s.pstack - size - c.rz) al
    have hdiv := sub_mod_self_mod (c.base + c.narena - s.pstack - size - c.rz) al
    rw [sub64_eq hlt hm2]
    refine ⟨_, rfl, hdiv, ?_, ?_⟩ <;> omega

/-- Specification of the unlocked path of `stackalloc`. -/
theorem stackAlloc_unlocked {c : Cfg} {s : State} {size al : Nat}
    (hlock : s.threadlock = false) (hsz : size ≠ 0) :
    stackAlloc c s size al =
      match stackAllocInternal c (bottom c) (top c s) (limit c s) size al with
      | none => (.error, s)
      | some (start, newTop, usage) =>
        (.ptr start, { s with pstack := sub64 (bottom c) newTop,
                              maxStack := max s.maxStack usage,
                              maxArena := max s.maxArena (add64 usage s.parena) }) := by
  unfold stackAlloc
  simp only [hsz, hlock, ↓reduceIte, Bool.false_eq_true]
  rfl

/-! ### Ghost layer: which blocks are live -/

/-- a byte range `[addr, addr+size)`. -/
structure Block where
  addr : Nat
  size : Nat
  deriving Repr, DecidableEq

def Block.Disjoint (a b : Block) : Prop := a.addr + a.size ≤ b.addr ∨ b.addr + b.size ≤ a.addr

/-- something that occupies stack memory: a client block or an `mjStackFrame` record. -/
inductive Obj where
  | blk (b : Block)
  | frm (f : Frame)
  deriving Repr

/-- the bytes an object occupies. -/
def Obj.ext : Obj → Block
  | .blk b => b
  | .frm f => ⟨f.addr, FRAME⟩

def framesOf : List Obj → List Frame
  | [] => []
  | .blk _ :: rest => framesOf rest
  | .frm f :: rest => f :: framesOf rest

/-- what `mj_freeStack` releases: everything allocated since (and including) the latest mark. -/
def dropToFrame : List Obj → List Obj
  | [] => []
  | .blk _ :: rest => dropToFrame rest
  | .frm _ :: rest => rest

def headAddr : List Frame → Nat
  | [] => 0
  | f :: _ => f.addr

/-- every record links to the one below it, and no record sits at address 0. -/
def FramesOK : List Frame → Prop
  | [] => True
  | f :: rest => f.pbase = headAddr rest ∧ f.addr ≠ 0 ∧ FramesOK rest

/-- Downward layout of the stack objects (most recent first): each object starts at or above `lo`,
    and what was allocated before it lies at or above its end (for a frame record: at or above the
    saved top, which is at or above the end of the record). -/
def Chain (bot : Nat) : Nat → List Obj → Prop
  | lo, [] => lo ≤ bot
  | lo, .blk b :: rest => lo ≤ b.addr ∧ Chain bot (b.addr + b.size) rest
  | lo, .frm f :: rest => lo ≤ f.addr ∧ f.addr + FRAME ≤ f.top ∧ Chain bot f.top rest

/-- Upward layout of the arena blocks (most recent first). -/
def AChain (base : Nat) : Nat → List Block → Prop
  | hi, [] => base ≤ hi
  | hi, b :: rest => b.addr + b.size ≤ hi ∧ AChain base b.addr rest

theorem chain_mono {bot lo lo' : Nat} {l : List Obj} (h : lo' ≤ lo) (hc : Chain bot lo l) (hb : lo ≤ bot → lo' ≤ bot := fun h' => Nat.le_trans h h') :
    Chain bot lo' l := by
  cases l with
  | nil => exact hb hc
  | cons o rest =>
    cases o with
    | blk b => exact ⟨Nat.le_trans h hc.1, hc.2⟩
    | frm f => exact ⟨Nat.le_trans h hc.1, hc.2⟩

theorem chain_le {bot : Nat} : ∀ {lo : Nat} {l : List Obj}, Chain bot lo l → lo ≤ bot
  | _, [], h => h
  | _, .blk b :: rest, h => by
    have := chain_le h.2
    have := h.1
    omega
  | _, .frm f :: rest, h => by
    have := chain_le h.2.2
    have := h.1; have := h.2.1
    omega

theorem chain_bounds {bot : Nat} : ∀ {lo : Nat} {l : List Obj}, Chain bot lo l →
    ∀ o ∈ l, lo ≤ o.ext.addr ∧ o.ext.addr + o.ext.size ≤ bot
  | _, [], _, o, ho => by simp at ho
  | lo, .blk b :: rest, h, o, ho => by
    rcases List.mem_cons.1 ho with rfl | hr
    · exact ⟨h.1, chain_le h.2⟩
    · have ih := chain_bounds h.2 o hr
      have h1 := h.1
      exact ⟨by omega, ih.2⟩
  | lo, .frm f :: rest, h, o, ho => by
    rcases List.mem_cons.1 ho with rfl | hr
    · have := chain_le h.2.2
      have := h.2.1
      exact ⟨h.1, by simp only [Obj.ext]; omega⟩
    · have ih := chain_bounds h.2.2 o hr
      have h1 := h.1; have h2 := h.2.1
      exact ⟨by omega, ih.2⟩

/-- consecutive layout implies: every object ends at or below the start of every earlier one. -/
theorem chain_pairwise {bot : Nat} : ∀ {lo : Nat} {l : List Obj}, Chain bot lo l →
    l.Pairwise (fun a b => a.ext.addr + a.ext.size ≤ b.ext.addr)
  | _, [], _ => List.Pairwise.nil
  | _, .blk b :: rest, h => by
    refine List.Pairwise.cons ?_ (chain_pairwise h.2)
    intro o ho
    exact (chain_bounds h.2 o ho).1
  | _, .frm f :: rest, h => by
    refine List.Pairwise.cons ?_ (chain_pairwise h.2.2)
    intro o ho
    have h1 := (chain_bounds h.2.2 o ho).1
    have h2 := h.2.1
    show f.addr + FRAME ≤ o.ext.addr
    omega

theorem chain_drop {bot : Nat} {f : Frame} {fr : List Frame} : ∀ {lo : Nat} {l : List Obj},
    Chain bot lo l → framesOf l = f :: fr →
    lo ≤ f.addr ∧ f.addr + FRAME ≤ f.top ∧ Chain bot f.top (dropToFrame l) ∧ framesOf (dropToFrame l) = fr
  | _, [], _, hf => by simp [framesOf] at hf
  | lo, .blk b :: rest, h, hf => by
    have ih := chain_drop (lo := b.addr + b.size) h.2 (by simpa [framesOf] using hf)
    have h1 := h.1
    exact ⟨by omega, ih.2.1, ih.2.2⟩
  | lo, .frm g :: rest, h, hf => by
    simp only [framesOf, List.cons.injEq] at hf
    obtain ⟨rfl, rfl⟩ := hf
    exact ⟨h.1, h.2.1, h.2.2, rfl⟩

theorem achain_mono {base hi hi' : Nat} {l : List Block} (h : hi ≤ hi') (hc : AChain base hi l) :
    AChain base hi' l := by
  cases l with
  | nil => exact Nat.le_trans hc h
  | cons b rest => exact ⟨Nat.le_trans hc.1 h, hc.2⟩

theorem achain_bounds {base : Nat} : ∀ {hi : Nat} {l : List Block}, AChain base hi l →
    base ≤ hi ∧ ∀ b ∈ l, base ≤ b.addr ∧ b.addr + b.size ≤ hi
  | _, [], h => ⟨h, fun b hb => by simp at hb⟩
  | hi, b :: rest, h => by
    have ih := achain_bounds h.2
    have := h.1
    refine ⟨by omega, fun x hx => ?_⟩
    rcases List.mem_cons.1 hx with rfl | hr
    · exact ⟨ih.1, h.1⟩
    · have := ih.2 x hr
      exact ⟨this.1, by omega⟩

theorem achain_pairwise {base : Nat} : ∀ {hi : Nat} {l : List Block}, AChain base hi l →
    l.Pairwise (fun a b => b.addr + b.size ≤ a.addr)
  | _, [], _ => List.Pairwise.nil
  | _, b :: rest, h => by
    refine List.Pairwise.cons ?_ (achain_pairwise h.2)
    intro x hx
    exact ((achain_bounds h.2).2 x hx).2

/-- model state plus the ghost record of what is live. -/
structure G where
  s : State
  objs : List Obj       -- live stack objects, most recent first
  arena : List Block    -- arena blocks handed out since the last reset, most recent first

def G.init : G := ⟨State.init, [], []⟩

/-- the operations of the sequential (unlocked) phase. -/
def Op.isSeq : Op → Bool
  | .lock | .unlock => false
  | _ => true

/-- one operation on the instrumented state: the model step plus the book-keeping of liveness
    dictated by the API contract (a block lives until the `mj_freeStack` matching the latest
    `mj_markStack` before its allocation; arena blocks live until the arena is reset). -/
def gstep (c : Cfg) (g : G) (op : Op) : Res × G :=
  let r := step c g.s op
  match op, r.1 with
  | .mark, .unit => (r.1, ⟨r.2, .frm ⟨r.2.pbase, g.s.pbase, top c g.s⟩ :: g.objs, g.arena⟩)
  | .free, .unit => (r.1, ⟨r.2, if g.s.pbase = 0 then g.objs else dropToFrame g.objs, g.arena⟩)
  | .alloc size _, .ptr a => (r.1, ⟨r.2, .blk ⟨a, size⟩ :: g.objs, g.arena⟩)
  | .num n, .ptr a => (r.1, ⟨r.2, .blk ⟨a, mul64 n 8⟩ :: g.objs, g.arena⟩)
  | .int n, .ptr a => (r.1, ⟨r.2, .blk ⟨a, mul64 n 4⟩ :: g.objs, g.arena⟩)
  | .arena bytes _, .ptr a => (r.1, ⟨r.2, g.objs, ⟨a, bytes⟩ :: g.arena⟩)
  | _, _ => (r.1, ⟨r.2, g.objs, g.arena⟩)

/-- address-space sanity of an mjData arena: non-NULL, and its end (plus red zones) is below 2^64. -/
def WFCfg (c : Cfg) : Prop := 0 < c.base ∧ c.base + c.narena + 2 * c.rz < W

/-- the explicit no-wrap side condition per operation: this is the guard the code does not have. -/
def NoWrap (c : Cfg) (s : State) : Op → Prop
  | .alloc size al => 0 < al ∧ size + al + 2 * c.rz < W
  | .num n => (W - 1) / 8 ≤ n ∨ n * 8 + 8 + 2 * c.rz < W
  | .int n => (W - 1) / 4 ≤ n ∨ n * 4 + 4 + 2 * c.rz < W
  | .arena bytes al => 0 < al ∧ s.parena + al + bytes < W
  | _ => True

/-- the safety invariant of the sequential phase. -/
def Inv (c : Cfg) (g : G) : Prop :=
  g.s.threadlock = false ∧ g.s.parena + g.s.pstack ≤ c.narena ∧
  Chain (c.base + c.narena) (c.base + c.narena - g.s.pstack) g.objs ∧
  framesOf g.objs = g.s.frames ∧ g.s.pbase = headAddr g.s.frames ∧ FramesOK g.s.frames ∧
  AChain c.base (c.base + g.s.parena) g.arena

end MjProof.Arena
