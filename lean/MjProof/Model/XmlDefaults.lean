/-
Model of the table-driven attribute writer and reader of the MJCF code (C32, table level):

  * `writeRow`   one row of `mjXWriter::WriteAttrTable` (src/xml/xml_native_writer.cc) together with the helpers it
                 calls in src/xml/xml_util.cc: `WriteAttr<T>` (skip when a value is NaN, skip when `SameVector(data, def)`,
                 trim trailing values `== def` for rows that are not `exact`, print), `WriteAttrKey` (skip when equal to
                 the default, keyword by `FindValue`, nothing written when the keyword is empty);
  * `readRow`    one row of `mjXReader::ReadAttrTableCore` (src/xml/xml_native_reader.cc) with `ReadAttr<T>` (absent or
                 empty -> keep what the object holds, i.e. the default it was initialised from; fewer values than `len`
                 only when the row is not `exact`; never more than `len`; values overwrite a prefix) and `MapValue`
                 (`FindKey`, error on an unknown keyword);
  * `writeElem` / `readElem`   the loops over the generated rows of an element (`mjXAttr` arrays of
                 src/xml/generated/mjcf_read_table.inc), with the `handwrite` and `nodefault` skips.

Scalars are abstract (`Scalar α`): `same` is the per-component test of `SameVector` (|a-b| <= epsilon of the type),
`eqb` is C `==`, `isNaN` is `std::isnan`, `quant a` is the value the reader gets back from the text the writer prints for
`a` (identity at full precision except for the `isint` rounding; a 6-digit rounding at the default precision).
Rows of the kinds the table writer does not handle (names, strings, vectors, constants, chars) are `Kind.other`:
nothing is written for them and the reader keeps the object's value.  `kFlags` (one row in the tree: camera output)
is modelled by `Kind.other` as well and is outside the theorems.  Core Lean only.
-/
namespace MjProof.XmlDefaults

inductive Kind where
  | int | double | num | float     -- WriteAttr<int|double|mjtNum|float>
  | enum | enumByte | bool         -- WriteAttrKey
  | other
  deriving DecidableEq, Repr, Inhabited

def Kind.isNum : Kind → Bool
  | .int | .double | .num | .float => true
  | _ => false
def Kind.isKey : Kind → Bool
  | .enum | .enumByte | .bool => true
  | _ => false

/-- one `mjXAttr` row (offset replaced by the position of the row; `keys` = the keyword map of the row) -/
structure Row where
  attr : String
  kind : Kind
  len : Nat
  exact : Bool
  required : Bool
  nodefault : Bool
  handwrite : Bool
  keys : List (String × Int)
  deriving Repr, Inhabited

/-- field value bound to a row -/
inductive Val (α : Type) where
  | vec (xs : List α)     -- numeric field of `len` components
  | code (c : Int)        -- int-sized / byte-sized enum or bool field
  | opaque                -- anything else
  deriving Repr, Inhabited

/-- what ends up in the XML attribute, as the reader will see it -/
inductive Tok (α : Type) where
  | nums (xs : List α)
  | word (s : String)
  deriving Repr, Inhabited

structure Scalar (α : Type) where
  same : α → α → Bool
  eqb : α → α → Bool
  isNaN : α → Bool
  quant : α → α

variable {α : Type}

/-- `SameVector(data, def, n)` for two vectors of the same length -/
def sameVec (S : Scalar α) : List α → List α → Bool
  | [], [] => true
  | x :: xs, d :: ds => S.same x d && sameVec S xs ds
  | _, _ => false

/-- `while (n > 0 && data[n-1] == def[n-1]) n--;` -- the kept prefix -/
def trimTrail (S : Scalar α) : List α → List α → List α
  | x :: xs, d :: ds =>
    match trimTrail S xs ds with
    | [] => if S.eqb x d then [] else [x]
    | ys => x :: ys
  | xs, [] => xs
  | [], _ => []

/-- `FindValue(map, mapsz, value)`: keyword of the first entry with that value, "" when absent -/
def findValue : List (String × Int) → Int → String
  | [], _ => ""
  | (k, v) :: rest, c => if v == c then k else findValue rest c

/-- `FindKey(map, mapsz, key)`: value of the first entry with that keyword, -1 when absent -/
def findKey : List (String × Int) → String → Int
  | [], _ => -1
  | (k, v) :: rest, s => if k == s then v else findKey rest s

/-- one row of `WriteAttrTable` (`wd` = writingdefaults); `none` = attribute not written -/
def writeRow (K : Kind → Scalar α) (wd : Bool) (r : Row) (v d : Val α) : Option (Tok α) :=
  let S := K r.kind
  if r.handwrite || (wd && r.nodefault) then none else
  match v, d with
  | .vec xs, .vec ds =>
    if !r.kind.isNum then none else
    if xs.any S.isNaN then none else
    if sameVec S xs ds then none else
    let ys := if r.exact then xs else trimTrail S xs ds
    if ys.isEmpty then none else some (.nums (ys.map S.quant))
  | .code c, .code dc =>
    if !r.kind.isKey then none else
    if c == dc then none else
    let k := findValue r.keys c
    if k == "" then none else some (.word k)
  | _, _ => none

/-- one row of `ReadAttrTableCore` (`rd` = readingdefaults) applied to an object that holds `base` -/
def readRow (rd : Bool) (r : Row) (base : Val α) (t : Option (Tok α)) : Except String (Val α) :=
  if rd && r.nodefault then .ok base else
  if r.kind.isNum then
    match t with
    | none => if r.required then .error "required attribute missing" else .ok base
    | some (.nums ys) =>
      if ys.isEmpty then (if r.required then .error "required attribute missing" else .ok base)
      else if r.exact && ys.length < r.len then .error "does not have enough data"
      else if ys.length > r.len then .error "has too much data"
      else match base with
        | .vec bs => .ok (.vec (ys ++ bs.drop ys.length))
        | _ => .error "ill-typed object"
    | some (.word _) => .error "bad format"
  else if r.kind.isKey then
    match t with
    | none => if r.required then .error "required attribute missing" else .ok base
    | some (.word k) =>
      let c := findKey r.keys k
      if c < 0 then .error "invalid keyword" else .ok (.code c)
    | some (.nums _) => .error "invalid keyword"
  else .ok base

/-- the attributes `WriteAttrTable` puts on the element, in row order -/
def writeElem (K : Kind → Scalar α) (wd : Bool) : List Row → List (Val α) → List (Val α) → List (String × Tok α)
  | r :: rs, v :: vs, d :: ds =>
    match writeRow K wd r v d with
    | some t => (r.attr, t) :: writeElem K wd rs vs ds
    | none => writeElem K wd rs vs ds
  | _, _, _ => []

def lookup (a : String) : List (String × Tok α) → Option (Tok α)
  | [] => none
  | (k, t) :: rest => if k == a then some t else lookup a rest

/-- `ReadAttrTableCore` over an element whose attributes are `xml`, on an object initialised to `base` -/
def readElem (rd : Bool) (xml : List (String × Tok α)) : List Row → List (Val α) → Except String (List (Val α))
  | r :: rs, b :: bs =>
    match readRow rd r b (lookup r.attr xml) with
    | .error e => .error e
    | .ok v =>
      match readElem rd xml rs bs with
      | .error e => .error e
      | .ok vs => .ok (v :: vs)
  | _, _ => .ok []

/-! ### the concrete scalars of the C code (used by the driver; `Float` = C double, `Float32` = C float) -/

/-- `isint` of xml_util.cc -/
def isintF (x : Float) : Bool := (x - x.floor).abs < 1e-12 || (x - x.ceil).abs < 1e-12
/-- `Round` of xml_util.cc (as a double) -/
def roundF (x : Float) : Float := if (x - x.floor).abs < (x - x.ceil).abs then x.floor else x.ceil

/-- what comes back from the text printed for `x` at precision 17 -/
def quantFull (x : Float) : Float :=
  if x < 2147483647.0 && x > -2147483647.0 && isintF x then
    -- printed as the int `Round(x)`: "-0" cannot occur
    (let r := roundF x; if r == 0.0 then 0.0 else r)
  else x

def doubleScalar : Scalar Float :=
  { same := fun a b => !((a - b).abs > 2.220446049250313e-16)
    eqb := fun a b => a == b
    isNaN := Float.isNaN
    quant := quantFull }

/-- float fields: values are float32, `SameVector<float>` works in float arithmetic with the float epsilon -/
def floatScalar : Scalar Float :=
  { same := fun a b => !(((a.toFloat32 - b.toFloat32).abs) > (1.1920929e-07 : Float32))
    eqb := fun a b => a == b
    isNaN := Float.isNaN
    quant := quantFull }

def intScalar : Scalar Float :=
  { same := fun a b => !((a - b).abs > 0.0)
    eqb := fun a b => a == b
    isNaN := fun _ => false
    quant := fun a => a }

def scalarOf : Kind → Scalar Float
  | .float => floatScalar
  | .int => intScalar
  | _ => doubleScalar

end MjProof.XmlDefaults
