import MjProof.Model.LinAlg
/-
Hand models of the CSR-style sparse routines of `src/engine/engine_util_sparse.c` / `engine_util_sparse.h`,
generic over `MjNum α`.  Core Lean only.

A sparse `nr × nc` matrix is the quadruple `(mat, rownnz, rowadr, colind)` of the C code: row `r` occupies the
addresses `rowadr[r] … rowadr[r]+rownnz[r]-1` of `mat` / `colind`.  Nothing else is assumed: rows may be empty,
may be stored in any order and with gaps between them (the "uncompressed" layout of the engine, where
`rowadr[r] = r*nc`).  `Pat` carries the two facts every routine needs to stay inside its buffers (row extents
inside the capacity, column indices of stored entries inside `nc`); they are checked by the driver and are
hypotheses-by-construction of the theorems.

Routines whose writes are justified only by a counting invariant (`mju_transposeSparse`, `mju_compressSparse`,
`mju_combineSparse`) perform checked accesses and return `none` on an out-of-range access; the theorems show
that this does not happen for well-formed inputs.
-/
namespace MjProof.Sparse
open MjNum MjProof.LinAlg

variable {α : Type} [MjNum α]

/-- sparsity pattern with the in-bounds facts -/
structure Pat (nr nc cap : Nat) where
  rownnz : Vector Nat nr
  rowadr : Vector Nat nr
  colind : Vector Nat cap
  hrow : ∀ r (h : r < nr), rowadr[r] + rownnz[r] ≤ cap
  hcol : ∀ r (h : r < nr) k (hk : k < rownnz[r]),
    colind[rowadr[r] + k]'(Nat.lt_of_lt_of_le (Nat.add_lt_add_left hk _) (hrow r h)) < nc

namespace Pat
variable {nr nc cap : Nat} (p : Pat nr nc cap)

theorem adr_lt {r : Nat} (h : r < nr) {k : Nat} (hk : k < p.rownnz[r]) : p.rowadr[r] + k < cap :=
  Nat.lt_of_lt_of_le (Nat.add_lt_add_left hk _) (p.hrow r h)

/-- column index of the `k`-th stored entry of row `r` -/
@[inline] def col (r : Nat) (h : r < nr) (k : Nat) (hk : k < p.rownnz[r]) : Nat :=
  p.colind[p.rowadr[r] + k]'(p.adr_lt h hk)

theorem col_lt (r : Nat) (h : r < nr) (k : Nat) (hk : k < p.rownnz[r]) : p.col r h k hk < nc :=
  p.hcol r h k hk

/-- value of the `k`-th stored entry of row `r` -/
@[inline] def val (mat : Vector α cap) (r : Nat) (h : r < nr) (k : Nat) (hk : k < p.rownnz[r]) : α :=
  mat[p.rowadr[r] + k]'(p.adr_lt h hk)

end Pat

/-! ### `mju_dotSparse` (engine_util_sparse.h): four accumulators, then the remaining products one by one -/

/-- summation scheme of `mju_dotSparse` over the list of products `vec1[i]*vec2[ind1[i]]` -/
def dotSpGo : List α → α → α → α → α → α
  | a :: b :: c :: d :: rest, r0, r1, r2, r3 => dotSpGo rest (r0 + a) (r1 + b) (r2 + c) (r3 + d)
  | [a, b, c], r0, r1, r2, r3 => ((((r0 + r2) + (r1 + r3)) + a) + b) + c
  | [a, b], r0, r1, r2, r3 => (((r0 + r2) + (r1 + r3)) + a) + b
  | [a], r0, r1, r2, r3 => ((r0 + r2) + (r1 + r3)) + a
  | [], r0, r1, r2, r3 => (r0 + r2) + (r1 + r3)

def dotSpSum (ps : List α) : α := dotSpGo ps (lit 0) (lit 0) (lit 0) (lit 0)

/-- `mju_dotSparse(vec1, vec2, nnz1, ind1)` with explicit in-range facts for `ind1` -/
def dotSparse {nnz n : Nat} (vec1 : Vector α nnz) (ind1 : Vector Nat nnz) (vec2 : Vector α n)
    (hind : ∀ k (h : k < nnz), ind1[k] < n) : α :=
  dotSpSum (List.ofFn (fun k : Fin nnz => vec1[k] * vec2[ind1[k]]'(hind k k.2)))

variable {nr nc cap : Nat}

/-- `mju_dotSparse(mat+rowadr[r], vec, rownnz[r], colind+rowadr[r])` -/
@[inline] def rowDot (p : Pat nr nc cap) (mat : Vector α cap) (vec : Vector α nc) (r : Nat) (h : r < nr) : α :=
  dotSpSum (List.ofFn (fun k : Fin p.rownnz[r] =>
    p.val mat r h k k.2 * vec[p.col r h k k.2]'(p.col_lt r h k k.2)))

/-- `mju_mulMatVecSparse(res, mat, vec, nr, rownnz, rowadr, colind, rowsuper)`; the scalar build ignores
`rowsuper` (the AVX build uses it to batch rows, changing only the order of the additions). -/
def mulMatVecSparse (p : Pat nr nc cap) (mat : Vector α cap) (vec : Vector α nc) : Vector α nr :=
  Vector.ofFn (fun r : Fin nr => rowDot p mat vec r r.2)

/-- `mju_mulMatTVecSparse(res, mat, vec, nr, nc, rownnz, rowadr, colind)` -/
def mulMatTVecSparse (p : Pat nr nc cap) (mat : Vector α cap) (vec : Vector α nr) : Vector α nc :=
  Nat.fold nr (fun i hi (res : Vector α nc) =>
    let scl := vec[i]
    if beq scl (lit 0) then res
    else
      Nat.fold p.rownnz[i] (fun j hj (res : Vector α nc) =>
        let c := p.col i hi j hj
        have hc : c < nc := p.col_lt i hi j hj
        res.set c (res[c] + p.val mat i hi j hj * scl)) res)
    (Vector.replicate nc (lit 0))

/-- `mju_addToSymSparse(res, mat, n, rownnz, rowadr, colind, flg_upper)`; `res` is a dense `n × n` matrix -/
def addToSymSparse {n : Nat} (p : Pat n n cap) (mat : Vector α cap) (res : Vector α (n * n)) (upper : Bool) :
    Vector α (n * n) :=
  Nat.fold n (fun i hi (res : Vector α (n * n)) =>
    Nat.fold p.rownnz[i] (fun k hk (res : Vector α (n * n)) =>
      let v := p.val mat i hi k hk
      let j := p.col i hi k hk
      have hj : j < n := p.col_lt i hi k hk
      -- lower + diagonal
      let res := set2 res i j hi hj (at2 res i j hi hj + v)
      -- strict upper
      if upper ∧ j < i then set2 res j i hj hi (at2 res j i hj hi + v) else res) res) res

/-- one row of `mju_mulSymVecSparse`: `res[i] = row[diag]*vec[i]`, then for `k = diag-1 … 0` the strict lower and
the mirrored strict upper contribution; `none` when the row is empty (the C code would read `row[-1]`) -/
def symStep {n : Nat} (p : Pat n n cap) (mat : Vector α cap) (vec : Vector α n) (i : Nat) (hi : i < n)
    (st : Option (Vector α n)) : Option (Vector α n) :=
  match st with
  | none => none
  | some res =>
    if hnz : 0 < p.rownnz[i] then
      let diag := p.rownnz[i] - 1
      -- diagonal
      let res := res.set i (p.val mat i hi diag (by omega) * vec[i])
      -- off-diagonals, k = diag-1 … 0
      some (forRangeRev 0 diag (fun k _ hk (res : Vector α n) =>
        let j := p.col i hi k (by omega)
        have hj : j < n := p.col_lt i hi k (by omega)
        let v := p.val mat i hi k (by omega)
        let res := res.set i (res[i] + v * vec[j])      -- strict lower
        res.set j (res[j] + v * vec[i])) res)           -- strict upper
    else none

/-- `mju_mulSymVecSparse(res, mat, vec, n, rownnz, rowadr, colind)`: lower-triangular storage with the diagonal
as the last entry of every row. -/
def mulSymVecSparse {n : Nat} (p : Pat n n cap) (mat : Vector α cap) (vec : Vector α n) : Option (Vector α n) :=
  Nat.fold n (fun i hi st => symStep p mat vec i hi st) (some (Vector.replicate n (lit 0)))

/-! ### dense ↔ sparse -/

/-- `mju_sparse2dense(res, mat, nr, nc, rownnz, rowadr, colind)` -/
def sparse2dense (p : Pat nr nc cap) (mat : Vector α cap) : Vector α (nr * nc) :=
  Nat.fold nr (fun r hr (res : Vector α (nr * nc)) =>
    Nat.fold p.rownnz[r] (fun i hi (res : Vector α (nr * nc)) =>
      set2 res r (p.col r hr i hi) hr (p.col_lt r hr i hi) (p.val mat r hr i hi)) res)
    (Vector.replicate (nr * nc) (lit 0))

/-- state of `mju_dense2sparse`: outputs so far and the write address; `full` = the routine returned 1 -/
structure D2S (α : Type) (nr nnz : Nat) where
  res : Vector α nnz
  rownnz : Vector Nat nr
  rowadr : Vector Nat nr
  colind : Vector Nat nnz
  adr : Nat
  full : Bool

/-- `mju_dense2sparse(res, mat, nr, nc, rownnz, rowadr, colind, nnz)`; the output buffers are the caller's
(entries that are not written keep their value); `full = true` is the `return 1` exit. -/
def dense2sparse {nnz : Nat} (mat : Vector α (nr * nc)) (init : D2S α nr nnz) : D2S α nr nnz :=
  if nnz = 0 then { init with full := true }
  else
    Nat.fold nr (fun r hr (st : D2S α nr nnz) =>
      if st.full then st
      else
        -- init row
        let st := { st with rownnz := st.rownnz.set r 0, rowadr := st.rowadr.set r st.adr }
        Nat.fold nc (fun c hc (st : D2S α nr nnz) =>
          if st.full then st
          else
            let v := at2 mat r c hr hc
            if beq v (lit 0) then st
            else if h : st.adr < nnz then
              { st with colind := st.colind.set st.adr c, rownnz := st.rownnz.set r (st.rownnz[r] + 1),
                        res := st.res.set st.adr v, adr := st.adr + 1 }
            else { st with full := true }) st)
      { init with adr := 0, full := false }

/-! ### checked accesses for the routines that mutate a pattern in place -/

@[inline] def rd {β : Type} {n : Nat} (v : Vector β n) (i : Nat) : Option β := if h : i < n then some v[i] else none
@[inline] def wr {β : Type} {n : Nat} (v : Vector β n) (i : Nat) (x : β) : Option (Vector β n) :=
  if h : i < n then some (v.set i x) else none

/-- `for (i = 0; i < n; i++)` with a body that may fail -/
def loopM {σ : Type} (n : Nat) (body : Nat → σ → Option σ) (s : σ) : Option σ :=
  Nat.fold n (fun i _ st => st.bind (body i)) (some s)

/-! ### `mju_compressSparse` -/

structure Csr (α : Type) (nr cap : Nat) where
  mat : Vector α cap
  rownnz : Vector Nat nr
  rowadr : Vector Nat nr
  colind : Vector Nat cap

/-- body of the inner loop of `mju_compressSparse` for the entry at old address `adrOld`; state =
`(mat, colind, adr, nnz)` -/
def compressEntry {cap : Nat} (removeSmall : Bool) (minval : α) (adrOld : Nat)
    (st : Vector α cap × Vector Nat cap × Nat × Nat) : Option (Vector α cap × Vector Nat cap × Nat × Nat) := do
  let (mat, colind, adr, nnz) := st
  let v ← rd mat adrOld
  if removeSmall ∧ abs v ≤ minval then pure st
  else
    let c ← rd colind adrOld
    if adr ≠ adrOld then do
      let mat ← wr mat adr v
      let colind ← wr colind adr c
      pure (mat, colind, adr + 1, if removeSmall then nnz + 1 else nnz)
    else pure (mat, colind, adr + 1, if removeSmall then nnz + 1 else nnz)

/-- one row of `mju_compressSparse`; state = arrays and the write address -/
def compressRow {cap : Nat} (removeSmall : Bool) (minval : α) (r : Nat) (st : Csr α nr cap × Nat) :
    Option (Csr α nr cap × Nat) := do
  let m := st.1
  let adr := st.2
  -- save old rowadr, record new
  let rowadrOld ← rd m.rowadr r
  let nnzOld ← rd m.rownnz r
  let rowadr ← wr m.rowadr r adr
  -- shift mat and colind
  let inner ← loopM nnzOld (fun t st => compressEntry removeSmall minval (rowadrOld + t) st) (m.mat, m.colind, adr, 0)
  let rownnz ← if removeSmall then wr m.rownnz r inner.2.2.2 else some m.rownnz
  pure ({ mat := inner.1, rownnz := rownnz, rowadr := rowadr, colind := inner.2.1 }, inner.2.2.1)

/-- `mju_compressSparse(mat, nr, nc, rownnz, rowadr, colind, minval)`: shifts the rows to the front in place,
dropping `|value| ≤ minval` when `minval ≥ 0`; returns the arrays and the return value
`rowadr[nr-1] + rownnz[nr-1]` (`none` also for `nr = 0`, where the C code reads index −1). -/
def compressSparse {cap : Nat} (m : Csr α nr cap) (minval : α) : Option (Csr α nr cap × Nat) :=
  (loopM nr (compressRow (decide (lit 0 ≤ minval)) minval) (m, 0)).bind (fun st =>
    if h : 0 < nr then some (st.1, st.1.rowadr[nr - 1] + st.1.rownnz[nr - 1]) else none)

/-! ### `mju_transposeSparse` (with `res_rowsuper = NULL`; the non-NULL case is `transposeSparseS` below), phase by phase -/

structure TrOut (α : Type) (nc cap : Nat) where
  res : Vector α cap
  rownnz : Vector Nat nc
  rowadr : Vector Nat nc
  colind : Vector Nat cap

/-- phase 1, one entry: `res_rownnz[colind[j]]++` -/
def trCountEntry {nc cap : Nat} (colind : Vector Nat cap) (j : Nat) (cnt : Vector Nat nc) : Option (Vector Nat nc) := do
  let c ← rd colind j
  let x ← rd cnt c
  wr cnt c (x + 1)

/-- phase 1: count the number of non-zeros for each row of the transposed matrix; input addresses are taken
relative to `rowOffset = rowadr[0]` exactly as in the C code (`start = rowadr[r] - row_offset`) -/
def trCount {cap : Nat} (rownnz rowadr : Vector Nat nr) (colind : Vector Nat cap) (rowOffset : Nat) (nc : Nat) :
    Option (Vector Nat nc) :=
  loopM nr (fun r (cnt : Vector Nat nc) => do
      let a ← rd rowadr r
      let nz ← rd rownnz r
      if a < rowOffset then none else
      loopM nz (fun t cnt => trCountEntry colind (a - rowOffset + t) cnt) cnt)
    (Vector.replicate nc 0)

/-- phase 2: `res_rowadr[i] = res_rowadr[i-1] + res_rownnz[i-1]` -/
def trStarts {nc : Nat} (cnt : Vector Nat nc) (adr0 : Vector Nat nc) : Option (Vector Nat nc) :=
  loopM (nc - 1) (fun t (adr : Vector Nat nc) => do
      let a ← rd adr t
      let n ← rd cnt t
      wr adr (t + 1) (a + n)) adr0

/-- phase 3, one entry: `adr = res_rowadr[c]++; res_colind[adr] = r; res[adr] = mat[i]` -/
def trFillEntry {nc cap capT : Nat} (mat : Vector α cap) (colind : Vector Nat cap) (r i : Nat)
    (st : Vector α capT × Vector Nat capT × Vector Nat nc) : Option (Vector α capT × Vector Nat capT × Vector Nat nc) := do
  let (res, rcol, adr) := st
  let c ← rd colind i
  let ad ← rd adr c
  let adr ← wr adr c (ad + 1)
  let rcol ← wr rcol ad r
  let v ← rd mat i
  let res ← wr res ad v
  pure (res, rcol, adr)

/-- phase 3: iterate through each row (column) of mat (res) -/
def trFill {nc cap capT : Nat} (mat : Vector α cap) (rownnz rowadr : Vector Nat nr) (colind : Vector Nat cap)
    (rowOffset : Nat) (st : Vector α capT × Vector Nat capT × Vector Nat nc) :
    Option (Vector α capT × Vector Nat capT × Vector Nat nc) :=
  loopM nr (fun r st => do
      let a ← rd rowadr r
      let nz ← rd rownnz r
      loopM nz (fun t st => trFillEntry mat colind r (a - rowOffset + t) st) st) st

/-- phase 4: shift back row addresses -/
def trShift {nc : Nat} (adr : Vector Nat nc) : Option (Vector Nat nc) := do
  let adr ← loopM (nc - 1) (fun t (adr : Vector Nat nc) => do
      let i := nc - 1 - t
      let a ← rd adr (i - 1)
      wr adr i a) adr
  wr adr 0 0

/-- `mju_transposeSparse(res, mat, nr, nc, res_rownnz, res_rowadr, res_colind, NULL, rownnz, rowadr, colind)`.
For `nr = 0` or `nc = 0` the outputs are returned unchanged. -/
def transposeSparse {capT : Nat} (mat : Vector α cap) (rownnz rowadr : Vector Nat nr) (colind : Vector Nat cap)
    (nc : Nat) (out : TrOut α nc capT) : Option (TrOut α nc capT) :=
  if h0 : nr = 0 ∨ nc = 0 then some out
  else do
    let rowOffset := rowadr[0]'(by omega)
    let cnt ← trCount rownnz rowadr colind rowOffset nc
    let adr ← trStarts cnt (out.rowadr.set 0 0 (by omega))
    let st ← trFill mat rownnz rowadr colind rowOffset (out.res, out.colind, adr)
    let adr ← trShift st.2.2
    pure { res := st.1, rownnz := cnt, rowadr := adr, colind := st.2.1 }

/-! ### row supernodes: the `res_rowsuper` output of `mju_transposeSparse`, and `mju_superSparse`

`rowsuper[i]` = number of rows following row `i` that have the same sparsity pattern as row `i` (same `rownnz`,
same `colind` sequence).  Consumers (`mju_sqrMatTDSparse*` through `rowsuperT`, the AVX `mju_mulMatVecSparse`)
reuse the column indices of row `i` for the rows `i+1 … i+rowsuper[i]` without looking at theirs. -/

/-- init `res_rowsuper`: `res_rowsuper[i] = (res_rownnz[i] == res_rownnz[i+1])` for `i < nc-1`, then
`res_rowsuper[nc-1] = 0` -/
def trSuperInit {nc : Nat} (cnt : Vector Nat nc) (sup : Vector Nat nc) : Option (Vector Nat nc) := do
  let sup ← loopM (nc - 1) (fun i (sup : Vector Nat nc) => do
      let a ← rd cnt i
      let b ← rd cnt (i + 1)
      wr sup i (if a = b then 1 else 0)) sup
  wr sup (nc - 1) 0

/-- mark non-supernodes, one entry; `cp1` is the C variable `c_prev` plus one:
`if (c > 0 && c != c_prev + 1 && res_rowsuper[c-1]) res_rowsuper[c-1] = 0;  c_prev = c;` -/
def trMarkEntry {nc cap : Nat} (colind : Vector Nat cap) (i : Nat) (st : Vector Nat nc × Nat) :
    Option (Vector Nat nc × Nat) := do
  let c ← rd colind i
  if 0 < c ∧ c ≠ st.2 then
    let s ← rd st.1 (c - 1)
    if s ≠ 0 then
      let sup ← wr st.1 (c - 1) 0
      pure (sup, c + 1)
    else pure (st.1, c + 1)
  else pure (st.1, c + 1)

/-- the marking statements of phase 3 on their own: `int c_prev = -1` at the start of every row -/
def trMark {nc cap : Nat} (rownnz rowadr : Vector Nat nr) (colind : Vector Nat cap) (rowOffset : Nat)
    (sup : Vector Nat nc) : Option (Vector Nat nc) :=
  loopM nr (fun r sup => do
      let a ← rd rowadr r
      let nz ← rd rownnz r
      let st ← loopM nz (fun t st => trMarkEntry colind (a - rowOffset + t) st) (sup, 0)
      pure st.1) sup

/-- phase 3, one entry, with `res_rowsuper != NULL`: placement, then marking, of the same entry -/
def trFillEntryS {nc cap capT : Nat} (mat : Vector α cap) (colind : Vector Nat cap) (r i : Nat)
    (st : (Vector α capT × Vector Nat capT × Vector Nat nc) × (Vector Nat nc × Nat)) :
    Option ((Vector α capT × Vector Nat capT × Vector Nat nc) × (Vector Nat nc × Nat)) := do
  let f ← trFillEntry mat colind r i st.1
  let s ← trMarkEntry colind i st.2
  pure (f, s)

/-- phase 3 with `res_rowsuper != NULL`: one pass over the rows, `int c_prev = -1` at the start of every row -/
def trFillS {nc cap capT : Nat} (mat : Vector α cap) (rownnz rowadr : Vector Nat nr) (colind : Vector Nat cap)
    (rowOffset : Nat) (st : (Vector α capT × Vector Nat capT × Vector Nat nc) × Vector Nat nc) :
    Option ((Vector α capT × Vector Nat capT × Vector Nat nc) × Vector Nat nc) :=
  loopM nr (fun r st => do
      let a ← rd rowadr r
      let nz ← rd rownnz r
      let inner ← loopM nz (fun t st => trFillEntryS mat colind r (a - rowOffset + t) st) (st.1, (st.2, 0))
      pure (inner.1, inner.2.1)) st

/-- accumulate supernodes: `for (i = n-2; i >= 0; i--) if (rowsuper[i]) rowsuper[i] += rowsuper[i+1];` -/
def superAccum {n : Nat} (sup : Vector Nat n) : Option (Vector Nat n) :=
  loopM (n - 1) (fun t (sup : Vector Nat n) => do
      let i := n - 2 - t
      let s ← rd sup i
      if s ≠ 0 then
        let s1 ← rd sup (i + 1)
        wr sup i (s + s1)
      else pure sup) sup

/-- `mju_transposeSparse(res, mat, nr, nc, res_rownnz, res_rowadr, res_colind, res_rowsuper, rownnz, rowadr,
colind)` with `res_rowsuper != NULL` (`sup0` = the caller's buffer).  For `nr = 0` or `nc = 0` the outputs are
returned unchanged. -/
def transposeSparseS {capT : Nat} (mat : Vector α cap) (rownnz rowadr : Vector Nat nr) (colind : Vector Nat cap)
    (nc : Nat) (out : TrOut α nc capT) (sup0 : Vector Nat nc) : Option (TrOut α nc capT × Vector Nat nc) :=
  if h0 : nr = 0 ∨ nc = 0 then some (out, sup0)
  else do
    let rowOffset := rowadr[0]'(by omega)
    let cnt ← trCount rownnz rowadr colind rowOffset nc
    let sup ← trSuperInit cnt sup0
    let adr ← trStarts cnt (out.rowadr.set 0 0 (by omega))
    let st ← trFillS mat rownnz rowadr colind rowOffset ((out.res, out.colind, adr), sup)
    let adr ← trShift st.1.2.2
    let sup ← superAccum st.2
    pure ({ res := st.1.1, rownnz := cnt, rowadr := adr, colind := st.1.2.1 }, sup)

/-- `mju_superSparse`, find match to child: `rowsuper[r] = 0` if `rownnz[r] != rownnz[r+1]`, else
`mju_compare(colind+rowadr[r], colind+rowadr[r+1], rownnz[r])` (1 iff the `rownnz[r]` indices agree) -/
def superFlag (p : Pat nr nc cap) (r : Nat) (h : r + 1 < nr) : Nat :=
  if hn : p.rownnz[r] = p.rownnz[r + 1] then
    if ∀ k (hk : k < p.rownnz[r]), p.col r (by omega) k hk = p.col (r + 1) h k (hn ▸ hk) then 1 else 0
  else 0

/-- `mju_superSparse(nr, rowsuper, rownnz, rowadr, colind)` (`sup0` = the caller's buffer; untouched for `nr = 0`) -/
def superSparse (p : Pat nr nc cap) (sup0 : Vector Nat nr) : Option (Vector Nat nr) :=
  if nr = 0 then some sup0
  else do
    let sup := Nat.fold (nr - 1) (fun r hr (sup : Vector Nat nr) => sup.set r (superFlag p r (by omega)) (by omega)) sup0
    -- clear last (by definition)
    let sup ← wr sup (nr - 1) 0
    superAccum sup

/-! ### `mju_combineSparseCount`, `mju_combineSparse` (engine_util_sparse.c / .h) -/

/-- the merge loop of `mju_combineSparseCount(a_nnz, b_nnz, a_ind, b_ind)` over the first `na` / `nb` entries of
the index arrays: number of common indices; the loop over positions `(a, b)` is the recursion on the remaining
lengths `(ra, rb)` -/
def commonCount {ca cb : Nat} (aInd : Vector Nat ca) (bInd : Vector Nat cb) (na nb : Nat) (hna : na ≤ ca)
    (hnb : nb ≤ cb) : (ra rb : Nat) → ra ≤ na → rb ≤ nb → Nat
  | 0, _, _, _ => 0
  | _ + 1, 0, _, _ => 0
  | ra + 1, rb + 1, ha, hb =>
    let x := aInd[na - (ra + 1)]'(by omega)
    let y := bInd[nb - (rb + 1)]'(by omega)
    if x = y then commonCount aInd bInd na nb hna hnb ra rb (by omega) (by omega) + 1
    else if x < y then commonCount aInd bInd na nb hna hnb ra (rb + 1) (by omega) hb
    else commonCount aInd bInd na nb hna hnb (ra + 1) rb ha (by omega)

/-- `mju_combineSparseCount(a_nnz, b_nnz, a_ind, b_ind)`: `a_nnz + b_nnz − #common` -/
def combineSparseCount {na nb : Nat} (aInd : Vector Nat na) (bInd : Vector Nat nb) : Nat :=
  na + nb - commonCount aInd bInd na nb (Nat.le_refl _) (Nat.le_refl _) na nb (Nat.le_refl _) (Nat.le_refl _)

/-- state of the backward merge of `mju_combineSparse`: `bi+1`, `si+1`, `w+1` of the C code as naturals -/
structure Comb (α : Type) (cap : Nat) where
  dst : Vector α cap
  ind : Vector Nat cap

/-- the two backward loops (`while (bi >= 0 && si >= 0)` and `while (si >= 0)`) of `mju_combineSparse`;
`bi`, `si`, `w` are the C variables plus one. -/
def combineGo {cap ns : Nat} (a b : α) (src : Vector α ns) (srcInd : Vector Nat ns) :
    (bi si w : Nat) → Comb α cap → Option (Comb α cap × Nat)
  | bi, 0, _, st => some (st, bi)
  | 0, si + 1, w, st => do
    if w = 0 then none else
    let s ← rd src si
    let sa ← rd srcInd si
    let dst ← wr st.dst (w - 1) (b * s)
    let ind ← wr st.ind (w - 1) sa
    combineGo a b src srcInd 0 si (w - 1) { dst := dst, ind := ind }
  | bi + 1, si + 1, w, st => do
    if w = 0 then none else
    let badr ← rd st.ind bi
    let sadr ← rd srcInd si
    let d ← rd st.dst bi
    let s ← rd src si
    if badr = sadr then
      let dst ← wr st.dst (w - 1) (a * d + b * s)
      let ind ← wr st.ind (w - 1) badr
      combineGo a b src srcInd bi si (w - 1) { dst := dst, ind := ind }
    else if sadr < badr then
      let dst ← wr st.dst (w - 1) (a * d)
      let ind ← wr st.ind (w - 1) badr
      combineGo a b src srcInd bi (si + 1) (w - 1) { dst := dst, ind := ind }
    else
      let dst ← wr st.dst (w - 1) (b * s)
      let ind ← wr st.ind (w - 1) sadr
      combineGo a b src srcInd (bi + 1) si (w - 1) { dst := dst, ind := ind }
termination_by bi si _ _ => bi + si

/-- `mju_combineSparse(dst, src, a, b, dst_nnz, src_nnz, dst_ind, src_ind)`: `dst = a*dst + b*src` on the union
pattern, in place in the buffers of `dst` (capacity `cap`); returns the buffers and the new nnz. -/
def combineSparse {cap ns : Nat} (a b : α) (dstNnz : Nat) (st : Comb α cap) (src : Vector α ns)
    (srcInd : Vector Nat ns) : Option (Comb α cap × Nat) :=
  if hd : dstNnz ≤ cap then
    -- check for identical pattern
    let same : Option (PLift (dstNnz = ns)) :=
      if hn : dstNnz = ns then
        if ∀ k (h : k < dstNnz), st.ind[k]'(by omega) = srcInd[k]'(by omega) then some ⟨hn⟩ else none
      else none
    match same with
    | some ⟨hn⟩ =>
      -- mju_addToSclScl(dst, src, a, b, dst_nnz)
      some ({ st with dst := Nat.fold dstNnz (fun k hk (d : Vector α cap) =>
                d.set k (d[k]'(by omega) * a + src[k]'(by omega) * b) (by omega)) st.dst }, dstNnz)
    | none =>
      -- compute total nnz of result (mju_combineSparseCount on the first dst_nnz / src_nnz indices)
      let common := commonCount st.ind srcInd dstNnz ns hd (Nat.le_refl _) dstNnz ns (Nat.le_refl _) (Nat.le_refl _)
      let nnz := dstNnz + ns - common
      match combineGo a b src srcInd dstNnz ns nnz st with
      | none => none
      | some (st, bi) =>
        -- remaining dst elements: already in place, scale by a
        if beq a (lit 1) then some (st, nnz)
        else
          (loopM bi (fun k (d : Vector α cap) => do
              let x ← rd d k
              wr d k (x * a)) st.dst).map (fun d => ({ st with dst := d }, nnz))
  else none

end MjProof.Sparse
