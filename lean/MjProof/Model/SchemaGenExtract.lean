import MjProof.Model.SchemaGen
/-
Extraction functions of C42: parse each stage-1 artefact (the bytes) back into the row layer of `SchemaGen.lean`.
Core Lean only; every function is structurally recursive (character / line state machines), so the round-trip theorems
of `Props/C42.lean` are proved by composition over `++`.
-/
namespace MjProof.SchemaGen
open MjProof.Schema

/-! ## generic pieces -/

/-- `s = p ++ r` ↦ `r` -/
def dropPrefix? : Txt → Txt → Option Txt
  | [], s => some s
  | _ :: _, [] => none
  | a :: p, b :: s => if a = b then dropPrefix? p s else none

/-- `s = r ++ p` ↦ `r` -/
def dropSuffix? (p s : Txt) : Option Txt := (dropPrefix? p.reverse s.reverse).map List.reverse

/-- `s.split(c)` -/
def splitCh (c : Char) : Txt → List Txt
  | [] => [[]]
  | x :: r =>
    if x = c then [] :: splitCh c r
    else match splitCh c r with
      | h :: t => (x :: h) :: t
      | [] => [[x]]

def linesOf (t : Txt) : List Txt := splitCh '\n' t

/-- `s.split(', ')` -/
def splitCS : Txt → List Txt
  | [] => [[]]
  | ',' :: ' ' :: r => [] :: splitCS r
  | x :: r => match splitCS r with
    | h :: t => (x :: h) :: t
    | [] => [[x]]

def parseNat? (t : Txt) : Option Nat :=
  if t ≠ [] ∧ t.all Char.isDigit then some (Nat.ofDigitChars 10 t 0) else none

/-! ## `mjcf_map.h` -/

inductive MapTok where
  | start (n : Txt)
  | row (k v : Txt)
  | sz (n : Txt) (k : Nat)

def mapTok (l : Txt) : Option MapTok :=
  match dropPrefix? (L "inline constexpr mjMap ") l with
  | some r => (dropSuffix? (L "_map[] = {") r).map .start
  | none =>
    match dropPrefix? (L "  {\"") l with
    | some r =>
      match dropPrefix? (L "\",") (r.dropWhile (· ≠ '"')) with
      | some r2 => (dropSuffix? (L "},") (r2.dropWhile (· = ' '))).map (.row (r.takeWhile (· ≠ '"')))
      | none => none
    | none =>
      match dropPrefix? (L "inline constexpr int ") l with
      | some r =>
        match dropSuffix? (L "_sz") (r.takeWhile (· ≠ ' ')), dropPrefix? (L " = ") (r.dropWhile (· ≠ ' ')) with
        | some n, some r2 =>
          match dropSuffix? [';'] r2 with
          | some ds => (parseNat? ds).map (.sz n)
          | none => none
        | _, _ => none
      | none => none

structure MapAcc where
  done : MapRows
  cur : Option (Txt × List (Txt × Txt))

def mapStep (acc : Option MapAcc) (t : MapTok) : Option MapAcc :=
  match acc with
  | none => none
  | some a =>
    match t, a.cur with
    | .start n, none => some ⟨a.done, some (n, [])⟩
    | .row k v, some (n, rows) => some ⟨a.done, some (n, rows ++ [(k, v)])⟩
    | .sz n k, some (n', rows) => if n = n' ∧ k = rows.length then some ⟨a.done ++ [(n', rows)], none⟩ else none
    | _, _ => none

def mapFinish : Option MapAcc → Option MapRows
  | some ⟨done, none⟩ => some done
  | _ => none

/-- Every keyword map of the header: `(enum name, [(keyword, constant)])`, checking each `_sz` constant. -/
def extractMap (t : Txt) : Option MapRows :=
  (dropPrefix? mapHeader t).bind fun r =>
  (dropSuffix? mapFooter r).bind fun body =>
  mapFinish (((linesOf body).filterMap mapTok).foldl mapStep (some ⟨[], none⟩))

/-! ## `mjcf_table.inc` -/

inductive TMode where
  | out
  | inEntry (acc : List Txt)
  | inStr (acc : List Txt) (cur : Txt)

/-- Reads `{"a", "b", ...},` initialisers (any layout) up to the `}` that closes the array; returns them and the rest. -/
def scan : TMode → Txt → Option (List (List Txt) × Txt)
  | _, [] => none
  | .out, c :: r =>
    if c = ' ' ∨ c = '\n' ∨ c = ',' then scan .out r
    else if c = '{' then scan (.inEntry []) r
    else if c = '}' then some ([], c :: r)
    else none
  | .inEntry acc, c :: r =>
    if c = '"' then scan (.inStr acc []) r
    else if c = '}' then (scan .out r).map fun p => (acc :: p.1, p.2)
    else if c = ' ' ∨ c = '\n' ∨ c = ',' then scan (.inEntry acc) r
    else none
  | .inStr acc cur, c :: r =>
    if c = '"' then scan (.inEntry (acc ++ [cur])) r else scan (.inStr acc (cur ++ [c])) r

/-- `  {12, 'e', "a b|c"},` -/
def parseCon (l : Txt) : Option (Nat × Char × Txt) :=
  match dropPrefix? (L "  {") l with
  | none => none
  | some r =>
    match parseNat? (r.takeWhile (· ≠ ',')), dropPrefix? (L ", '") (r.dropWhile (· ≠ ',')) with
    | some n, some (c :: r2) =>
      match dropPrefix? (L "', \"") r2 with
      | some r3 => (dropSuffix? (L "\"},") r3).map fun spec => (n, c, spec)
      | none => none
    | _, _ => none

def allSome {α : Type} : List (Option α) → Option (List α)
  | [] => some []
  | none :: _ => none
  | some x :: r => (allSome r).map (x :: ·)

/-- The initialisers a list of items stands for. -/
def itemEntries (items : List TItem) : List (List Txt) :=
  items.filterMap fun it => match it with
    | .row _ parts _ => some parts
    | .opn _ => some [['<']]
    | .cls _ => some [['>']]
    | .blank => none

/-- What the table says: the initialisers of `MJCF[]` in order and the constraint triples. -/
def tableFacts (items : List TItem) : List (List Txt) × List (Nat × Char × Txt) :=
  (itemEntries items, conRows 0 items)

def extractTable (t : Txt) : Option (List (List Txt) × List (Nat × Char × Txt)) :=
  (dropPrefix? (tableHeader ++ tableOpen) t).bind fun r =>
  (scan .out r).bind fun p =>
  (dropPrefix? ('}' :: tableMidRest) p.2).bind fun r2 =>
  (dropSuffix? tableEnd r2).bind fun body =>
  (allSome (((linesOf body).filter (· ≠ [])).map parseCon)).map fun cons => (p.1, cons)

/-! ## `mjcf_default_table.inc` -/

/-- Reads a field up to the character `c` that starts the literal `lit`; returns the field and what follows `lit`. -/
def field (c : Char) (lit : Txt) (r : Txt) : Option (Txt × Txt) :=
  (dropPrefix? lit (r.dropWhile (· ≠ c))).map fun rest => (r.takeWhile (· ≠ c), rest)

/-- `  {"attr", (int)offsetof(S, path), kind, len, ndecl, unset, {v, ...}},` -/
def parseDRow (l : Txt) : Option DRow :=
  (dropPrefix? (L "  {\"") l).bind fun r =>
  (field '"' (L "\", (int)offsetof(") r).bind fun (attr, r) =>
  (field ',' (L ", ") r).bind fun (spec, r) =>
  (field ')' (L "), ") r).bind fun (path, r) =>
  (field ',' (L ", ") r).bind fun (kind, r) =>
  (field ',' (L ", ") r).bind fun (len, r) =>
  (field ',' (L ", ") r).bind fun (ndecl, r) =>
  (field ',' (L ", {") r).bind fun (unset, r) =>
  (field '}' (L "}},") r).bind fun (vals, r) =>
  (parseNat? kind).bind fun k =>
  (parseNat? ndecl).bind fun nd =>
    let values := if nd = 0 then [] else splitCS vals
    if r = [] ∧ (nd = 0 → vals = ['0']) ∧ values.length = nd ∧ (unset = ['0'] ∨ unset = ['1']) then
      some ⟨attr, spec, path, k, len, decide (unset = ['1']), values⟩
    else none

/-- `  {"root", ARR, (int)(sizeof(ARR) / sizeof(ARR[0]))},` -/
def parseIdx (l : Txt) : Option (Txt × Txt) :=
  (dropPrefix? (L "  {\"") l).bind fun r =>
  (field '"' (L "\", ") r).bind fun (root, r) =>
  (field ',' (L ", (int)(sizeof(") r).bind fun (arr, r) =>
    if r = arr ++ L ") / sizeof(" ++ arr ++ L "[0]))}," then some (root, arr) else none

structure DAcc where
  done : List (Txt × List DRow)
  cur : Option (Txt × List DRow)
  idx : Option (List (Txt × Txt))
  closed : Bool

def dIdxStart : Txt := L "static const mjXDefaultTable kDefaultTables[] = {"
def dTailLines : List Txt :=
  [L "static const int kDefaultTablesN = (int)(sizeof(kDefaultTables) / sizeof(kDefaultTables[0]));",
   L "// clang-format on", []]

/-- One line of the file, by phase: inside an entry array, between arrays, inside the index, after it. -/
def dStep (acc : Option DAcc) (l : Txt) : Option DAcc :=
  acc.bind fun a =>
    if a.closed then (if l ∈ dTailLines then some a else none)
    else match a.idx with
      | some rows =>
        match parseIdx l with
        | some r => some { a with idx := some (rows ++ [r]) }
        | none => if l = L "};" then some { a with closed := true } else none
      | none =>
        match a.cur with
        | some (arr, rows) =>
          match parseDRow l with
          | some r => some { a with cur := some (arr, rows ++ [r]) }
          | none => if l = L "};" then some { a with done := a.done ++ [(arr, rows)], cur := none } else none
        | none =>
          match dropPrefix? (L "static const mjXDefaultEntry ") l with
          | some r => (dropSuffix? (L "[] = {") r).map fun arr => { a with cur := some (arr, []) }
          | none =>
            if l = [] then some a
            else if l = dIdxStart then some { a with idx := some [] }
            else none

/-- What the default table says: per emitted array, in file order: `(array name, struct name of its index row, rows)`. -/
abbrev DefaultFacts := List (Txt × Txt × List DRow)

def defaultFacts (ts : List (Txt × List DRow)) : DefaultFacts :=
  (sortedTables ts).map fun e => (arrayOf e.1, rootOf e.1, e.2)

def zipIdx : List (Txt × List DRow) → List (Txt × Txt) → Option DefaultFacts
  | [], [] => some []
  | (arr, rows) :: ds, (root, arr') :: is =>
    if arr = arr' then (zipIdx ds is).map ((arr, root, rows) :: ·) else none
  | _, _ => none

def dFinish : Option DAcc → Option DefaultFacts
  | some ⟨done, none, some idx, true⟩ => zipIdx done idx
  | _ => none

def extractDefault (t : Txt) : Option DefaultFacts :=
  (dropPrefix? (defaultHeader ++ ['\n']) t).bind fun body =>
  dFinish ((linesOf body).foldl dStep (some ⟨[], none, none, false⟩))

end MjProof.SchemaGen
