import MjProof.Model.SchemaGen
/-
Extraction functions of C42: parse each stage-1 artefact (the bytes) back into the row layer of `SchemaGen.lean`.
Core Lean only; every function is structurally recursive (character / line state machines), so the round-trip theorems
of `Props/C42.lean` are proved by composition over `++`.
-/
namespace MjProof.SchemaGen
open MjProof.Schema

/-! ## generic pieces -/

/-- `s = p ++ r` ↦ `r` -/
def dropPrefix? : Txt → Txt → Option Txt
  | [], s => some s
  | _ :: _, [] => none
  | a :: p, b :: s => if a = b then dropPrefix? p s else none

/-- `s = r ++ p` ↦ `r` -/
def dropSuffix? (p s : Txt) : Option Txt := (dropPrefix? p.reverse s.reverse).map List.reverse

/-- `s.split(c)` -/
def splitCh (c : Char) : Txt → List Txt
  | [] => [[]]
  | x :: r =>
    if x = c then [] :: splitCh c r
    else match splitCh c r with
      | h :: t => (x :: h) :: t
      | [] => [[x]]

def linesOf (t : Txt) : List Txt := splitCh '\n' t

/-- `s.split(', ')` -/
def splitCS : Txt → List Txt
  | [] => [[]]
  | ',' :: ' ' :: r => [] :: splitCS r
  | x :: r => match splitCS r with
    | h :: t => (x :: h) :: t
    | [] => [[x]]

def parseNat? (t : Txt) : Option Nat :=
  if t ≠ [] ∧ t.all Char.isDigit then some (Nat.ofDigitChars 10 t 0) else none

/-! ## `mjcf_map.h` -/

inductive MapTok where
  | start (n : Txt)
  | row (k v : Txt)
  | sz (n : Txt) (k : Nat)

def mapTok (l : Txt) : Option MapTok :=
  match dropPrefix? (L "inline constexpr mjMap ") l with
  | some r => (dropSuffix? (L "_map[] = {") r).map .start
  | none =>
    match dropPrefix? (L "  {\"") l with
    | some r =>
      match dropPrefix? (L "\",") (r.dropWhile (· ≠ '"')) with
      | some r2 => (dropSuffix? (L "},") (r2.dropWhile (· = ' '))).map (.row (r.takeWhile (· ≠ '"')))
      | none => none
    | none =>
      match dropPrefix? (L "inline constexpr int ") l with
      | some r =>
        match dropSuffix? (L "_sz") (r.takeWhile (· ≠ ' ')), dropPrefix? (L " = ") (r.dropWhile (· ≠ ' ')) with
        | some n, some r2 =>
          match dropSuffix? [';'] r2 with
          | some ds => (parseNat? ds).map (.sz n)
          | none => none
        | _, _ => none
      | none => none

structure MapAcc where
  done : MapRows
  cur : Option (Txt × List (Txt × Txt))

def mapStep (acc : Option MapAcc) (t : MapTok) : Option MapAcc :=
  match acc with
  | none => none
  | some a =>
    match t, a.cur with
    | .start n, none => some ⟨a.done, some (n, [])⟩
    | .row k v, some (n, rows) => some ⟨a.done, some (n, rows ++ [(k, v)])⟩
    | .sz n k, some (n', rows) => if n = n' ∧ k = rows.length then some ⟨a.done ++ [(n', rows)], none⟩ else none
    | _, _ => none

/-- Every keyword map of the header: `(enum name, [(keyword, constant)])`, checking each `_sz` constant. -/
def extractMap (t : Txt) : Option MapRows :=
  match dropPrefix? mapHeader t with
  | none => none
  | some r =>
    match dropSuffix? mapFooter r with
    | none => none
    | some body =>
      match ((linesOf body).filterMap mapTok).foldl mapStep (some ⟨[], none⟩) with
      | some ⟨done, none⟩ => some done
      | _ => none

/-! ## `mjcf_table.inc` -/

inductive TMode where
  | out
  | inEntry (acc : List Txt)
  | inStr (acc : List Txt) (cur : Txt)

/-- Reads `{"a", "b", ...},` initialisers (any layout) up to the `}` that closes the array; returns them and the rest. -/
def scan : TMode → Txt → Option (List (List Txt) × Txt)
  | _, [] => none
  | .out, c :: r =>
    if c = ' ' ∨ c = '\n' ∨ c = ',' then scan .out r
    else if c = '{' then scan (.inEntry []) r
    else if c = '}' then some ([], c :: r)
    else none
  | .inEntry acc, c :: r =>
    if c = '"' then scan (.inStr acc []) r
    else if c = '}' then (scan .out r).map fun p => (acc :: p.1, p.2)
    else if c = ' ' ∨ c = '\n' ∨ c = ',' then scan (.inEntry acc) r
    else none
  | .inStr acc cur, c :: r =>
    if c = '"' then scan (.inEntry (acc ++ [cur])) r else scan (.inStr acc (cur ++ [c])) r

/-- `  {12, 'e', "a b|c"},` -/
def parseCon (l : Txt) : Option (Nat × Char × Txt) :=
  match dropPrefix? (L "  {") l with
  | none => none
  | some r =>
    match parseNat? (r.takeWhile (· ≠ ',')), dropPrefix? (L ", '") (r.dropWhile (· ≠ ',')) with
    | some n, some (c :: r2) =>
      match dropPrefix? (L "', \"") r2 with
      | some r3 => (dropSuffix? (L "\"},") r3).map fun spec => (n, c, spec)
      | none => none
    | _, _ => none

def allSome {α : Type} : List (Option α) → Option (List α)
  | [] => some []
  | none :: _ => none
  | some x :: r => (allSome r).map (x :: ·)

/-- What the table says: the initialisers of `MJCF[]` in order and the constraint triples. -/
def tableFacts (items : List TItem) : List (List Txt) × List (Nat × Char × Txt) :=
  (items.filterMap fun it => match it with
    | .row _ parts _ => some parts
    | .opn _ => some [['<']]
    | .cls _ => some [['>']]
    | .blank => none,
   conRows 0 items)

def extractTable (t : Txt) : Option (List (List Txt) × List (Nat × Char × Txt)) :=
  match dropPrefix? (tableHeader ++ tableOpen) t with
  | none => none
  | some r =>
    match scan .out r with
    | none => none
    | some (entries, r1) =>
      match dropPrefix? tableMidRest r1 with
      | none => none
      | some r2 =>
        match dropSuffix? tableEnd r2 with
        | none => none
        | some body =>
          (allSome (((linesOf body).filter (· ≠ [])).map parseCon)).map fun cons => (entries, cons)

/-! ## `mjcf_default_table.inc` -/

/-- `  {"attr", (int)offsetof(S, path), kind, len, ndecl, unset, {v, ...}},` -/
def parseDRow (l : Txt) : Option DRow :=
  match dropPrefix? (L "  {\"") l with
  | none => none
  | some r =>
    let attr := r.takeWhile (· ≠ '"')
    match dropPrefix? (L "\", (int)offsetof(") (r.dropWhile (· ≠ '"')) with
    | none => none
    | some r =>
      let spec := r.takeWhile (· ≠ ',')
      match dropPrefix? (L ", ") (r.dropWhile (· ≠ ',')) with
      | none => none
      | some r =>
        let path := r.takeWhile (· ≠ ')')
        match dropPrefix? (L "), ") (r.dropWhile (· ≠ ')')) with
        | none => none
        | some r =>
          let kind := r.takeWhile (· ≠ ',')
          match dropPrefix? (L ", ") (r.dropWhile (· ≠ ',')) with
          | none => none
          | some r =>
            let len := r.takeWhile (· ≠ ',')
            match dropPrefix? (L ", ") (r.dropWhile (· ≠ ',')) with
            | none => none
            | some r =>
              let ndecl := r.takeWhile (· ≠ ',')
              match dropPrefix? (L ", ") (r.dropWhile (· ≠ ',')) with
              | none => none
              | some r =>
                let unset := r.takeWhile (· ≠ ',')
                match dropPrefix? (L ", {") (r.dropWhile (· ≠ ',')) with
                | none => none
                | some r =>
                  let vals := r.takeWhile (· ≠ '}')
                  if r.dropWhile (· ≠ '}') ≠ L "}}," then none else
                  match parseNat? kind, parseNat? ndecl with
                  | some k, some nd =>
                    let values := if nd = 0 then [] else splitCS vals
                    if (nd = 0 → vals = ['0']) ∧ values.length = nd ∧ (unset = ['0'] ∨ unset = ['1']) then
                      some ⟨attr, spec, path, k, len, decide (unset = ['1']), values⟩
                    else none
                  | _, _ => none

/-- `  {"root", ARR, (int)(sizeof(ARR) / sizeof(ARR[0]))},` -/
def parseIdx (l : Txt) : Option (Txt × Txt) :=
  match dropPrefix? (L "  {\"") l with
  | none => none
  | some r =>
    let root := r.takeWhile (· ≠ '"')
    match dropPrefix? (L "\", ") (r.dropWhile (· ≠ '"')) with
    | none => none
    | some r =>
      let arr := r.takeWhile (· ≠ ',')
      if r.dropWhile (· ≠ ',') = L ", (int)(sizeof(" ++ arr ++ L ") / sizeof(" ++ arr ++ L "[0]))}," then some (root, arr)
      else none

structure DAcc where
  done : List (Txt × List DRow)
  cur : Option (Txt × List DRow)
  idx : Option (List (Txt × Txt))
  closed : Bool

def dIdxStart : Txt := L "static const mjXDefaultTable kDefaultTables[] = {"
def dTailLines : List Txt :=
  [L "static const int kDefaultTablesN = (int)(sizeof(kDefaultTables) / sizeof(kDefaultTables[0]));",
   L "// clang-format on", []]

def dStep (acc : Option DAcc) (l : Txt) : Option DAcc :=
  match acc with
  | none => none
  | some a =>
    if a.closed then (if l ∈ dTailLines then some a else none)
    else match a.idx with
      | some rows =>
        if l = L "};" then some { a with closed := true }
        else (parseIdx l).map fun r => { a with idx := some (rows ++ [r]) }
      | none =>
        match a.cur with
        | some (arr, rows) =>
          if l = L "};" then some { a with done := a.done ++ [(arr, rows)], cur := none }
          else (parseDRow l).map fun r => { a with cur := some (arr, rows ++ [r]) }
        | none =>
          if l = [] then some a
          else if l = dIdxStart then some { a with idx := some [] }
          else match dropPrefix? (L "static const mjXDefaultEntry ") l with
            | some r => (dropSuffix? (L "[] = {") r).map fun arr => { a with cur := some (arr, []) }
            | none => none

/-- What the default table says: per emitted array, in file order: `(array name, struct name of its index row, rows)`. -/
abbrev DefaultFacts := List (Txt × Txt × List DRow)

def defaultFacts (ts : List (Txt × List DRow)) : DefaultFacts :=
  (sortedTables ts).map fun e => (arrayOf e.1, rootOf e.1, e.2)

def zipIdx : List (Txt × List DRow) → List (Txt × Txt) → Option DefaultFacts
  | [], [] => some []
  | (arr, rows) :: ds, (root, arr') :: is =>
    if arr = arr' then (zipIdx ds is).map ((arr, root, rows) :: ·) else none
  | _, _ => none

def extractDefault (t : Txt) : Option DefaultFacts :=
  match dropPrefix? (defaultHeader ++ ['\n']) t with
  | none => none
  | some body =>
    match (linesOf body).foldl dStep (some ⟨[], none, none, false⟩) with
    | some ⟨done, none, some idx, true⟩ => zipIdx done idx
    | _ => none

end MjProof.SchemaGen
