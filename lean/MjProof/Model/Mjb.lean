/-
Model of the binary model file (MJB) code of `src/engine/engine_io.c`:
`mj_sizeModel`, `mj_saveModel`, `mj_loadModelBuffer` (with the part of `mj_makeModel` that it runs:
argument checks, `nnames_map`, `safeAddToBufferSize` over `MJMODEL_POINTERS`) and
`mj_validateReferences` (the `MJMODEL_REFERENCES` X-macro loop followed by the hand-written
"special logic").

Everything is generic over a `Layout`: the expected header ints, the ordered `MJMODEL_SIZES`, the
struct blobs written between the sizes and the arrays (`opt`, `vis`, `stat`, two `mjtBool` flags),
the ordered `MJMODEL_POINTERS` (element byte size, row size `nr`, column expression `nc`) and the
`MJMODEL_REFERENCES` table.  The layout of the tree is regenerated on every run by
`translate/c31_layout.py` into `MjProof/Gen/MjbLayout.lean`.

A model value is `sizes + blobs + arrays` (arrays are raw byte strings, one per pointer, in
`MJMODEL_POINTERS` order).  An image is a `List UInt8`.

Outcomes of `load` distinguish what the C code does:
  `ok m`      a non-NULL model is returned
  `reject w`  `mju_warning(w)` and `return NULL`
  `fatal e`   `mju_error(e)` (does not return)
  `hazard u`  the C code has undefined / memory-unsafe behaviour at this point (a `memcpy` with a
              wrapped length, more bytes copied into a model array than were allocated for it, signed
              overflow, an array indexed outside its extent).  The theorems say when this cannot
              happen; `Props/C31.lean` also exhibits inputs for which it does.

Integer widths follow the C types: sizes are `mjtSize` (= `int64_t`), byte counts are computed in
`size_t` (mod 2^64), `bufread` receives the count as `int` (mod 2^32, sign-extended), reference
entries are `int`.

Core Lean only.
-/
namespace MjProof.Mjb

abbrev Bytes := List UInt8

/-! ## outcomes -/

inductive Hazard where
  | inputOverread                 -- `memcpy` reads past the end of the caller's buffer
  | arrayOverflow (name : String) -- more bytes copied into `m->name` than were allocated for it
  | intOverflow (what : String)   -- signed integer overflow (undefined behaviour)
  | oobIndex (what : String)      -- array indexed outside its extent
  | external (what : String)      -- call through the plugin registry (outside the model)
  deriving DecidableEq, Repr

/-- hazards of the loader's own copying (as opposed to those of validation reading the model) -/
def Hazard.isCopy : Hazard → Bool
  | .inputOverread => true
  | .arrayOverflow _ => true
  | _ => false

inductive Res (α : Type) where
  | ok (a : α)
  | reject (msg : String)
  | fatal (msg : String)
  | hazard (u : Hazard)
  deriving Repr, DecidableEq

@[inline] def Res.bind {α β : Type} (x : Res α) (f : α → Res β) : Res β :=
  match x with
  | .ok a => f a
  | .reject m => .reject m
  | .fatal m => .fatal m
  | .hazard u => .hazard u

instance : Monad Res where
  pure := Res.ok
  bind := Res.bind

def Res.toOption {α : Type} : Res α → Option α
  | .ok a => some a
  | _ => none

/-! ## little-endian integers -/

/-- `n` little-endian bytes of `v mod 256^n` -/
def leBytes : Nat → Nat → Bytes
  | 0, _ => []
  | n + 1, v => UInt8.ofNat (v % 256) :: leBytes n (v / 256)

def leNat : Bytes → Nat
  | [] => 0
  | b :: bs => b.toNat + 256 * leNat bs

/-- two's complement encoding of `v` in `n` bytes -/
def encInt (n : Nat) (v : Int) : Bytes := leBytes n (v % ((256 : Int) ^ n)).toNat

/-- two's complement decoding of a byte string (its length is the width) -/
def decInt (b : Bytes) : Int :=
  let u : Int := leNat b
  if 2 * u < (256 : Int) ^ b.length then u else u - (256 : Int) ^ b.length

/-- `(int)x` for an out-of-range `x` (gcc: reduction modulo 2^32 into the signed range) -/
def toI32 (v : Int) : Int := (v + 2147483648) % 4294967296 - 2147483648

def two64 : Nat := 18446744073709551616
def two63 : Nat := 9223372036854775808

/-- checked read of `n` bytes from the front of `rest` -/
def rdN (rest : Bytes) (n : Nat) : Option (Bytes × Bytes) :=
  if n ≤ rest.length then some (rest.take n, rest.drop n) else none

/-- decode `k` consecutive `w`-byte integers -/
def decN (w : Nat) : Nat → Bytes → List Int
  | 0, _ => []
  | k + 1, b => decInt (b.take w) :: decN w k (b.drop w)

/-- a byte string as an array of `w`-byte signed integers (a trailing partial element is dropped;
    the arrays handed to it always have a length that is a multiple of `w`) -/
def decInts (w : Nat) (b : Bytes) : List Int := decN w (b.length / w) b

/-! ## layout -/

structure Ptr (ns : Nat) where
  name : String
  esz : Nat                 -- sizeof(type)
  nr : Fin ns               -- row count: index into the sizes
  ncK : Nat                 -- constant factor of `nc`
  ncS : Option (Fin ns)     -- `MJ_M(size)` factor of `nc`, if any

structure Ref (ns : Nat) where
  name : String             -- adrarray
  arr : Nat                 -- position of adrarray in the pointer list
  nadrS : Fin ns            -- loop bound `m->nadrs` = sizes[nadrS] * nadrK
  nadrK : Nat
  target : Fin ns           -- ntarget
  num : Option Nat          -- position of numarray in the pointer list (`0` in the table = none)
  numText : String          -- the macro argument as stringified by `#numarray`

structure Layout (ns : Nat) where
  header : List Int             -- expected header ints {ID, sizeof(mjtNum), nsize, version, nptr}
  headerMsgs : List String      -- warning for a mismatch in position i (last entry: default)
  intSz : Nat
  sizeSz : Nat
  sizeNames : List String
  nargs : Nat                   -- positional mjtSize parameters of mj_makeModel = sizes[0..nargs)
  exemptMax : List Nat          -- sizes exempt from the `>= MAX_ARRAY_SIZE` check
  maxArray : Int                -- MAX_ARRAY_SIZE
  intMax : Int                  -- INT_MAX
  nbody : Fin ns
  mapIdx : Fin ns               -- nnames_map
  mapTerms : List (Fin ns)
  mapMul : Nat                  -- mjLOAD_MULTIPLE
  nbuffer : Fin ns              -- last size
  blobs : List (String × Nat)   -- struct blobs between the sizes and the arrays
  ptrs : List (Ptr ns)
  refs : List (Ref ns)
  align : Nat                   -- 64

abbrev Sizes (ns : Nat) := Vector Int ns

structure Model (ns : Nat) where
  sizes : Sizes ns
  blobs : List Bytes
  arrays : List Bytes

variable {ns : Nat}

/-! ## dimensions -/

/-- `nc` as written in the X-macro, exact -/
def Ptr.nc (p : Ptr ns) (s : Sizes ns) : Int :=
  match p.ncS with
  | none => p.ncK
  | some j => s[j] * p.ncK

/-- exact number of bytes `sizeof(type)*(m->nr)*(nc)` -/
def Ptr.bytes (p : Ptr ns) (s : Sizes ns) : Int := p.esz * s[p.nr] * p.nc s

/-- `nc` as evaluated after `MJMODEL_POINTERS_PREAMBLE` (`int x = m->x;` then `int` arithmetic) -/
def Ptr.ncInt (p : Ptr ns) (s : Sizes ns) (intMax : Int) : Res Int :=
  match p.ncS with
  | none => .ok p.ncK
  | some j =>
    let v := toI32 s[j] * p.ncK
    if v > intMax ∨ v < -intMax - 1 then .hazard (.intOverflow ("nc of " ++ p.name)) else .ok v

def SKIP (align : Nat) (offset : Nat) : Nat := (align - offset % align) % align

/-! ## mj_sizeModel / mj_saveModel -/

def blobTotal (L : Layout ns) : Nat := (L.blobs.map (·.2)).sum

def headerBytes (L : Layout ns) : Nat := L.intSz * L.header.length + L.sizeSz * ns

/-- `mj_sizeModel` (exact; the C code computes the same sum in `size_t`) -/
def sizeModel (L : Layout ns) (m : Model ns) : Int :=
  (headerBytes L + blobTotal L : Nat) + (L.ptrs.map (fun p => p.bytes m.sizes)).sum

/-- image written by `mj_saveModel` into a buffer of at least `mj_sizeModel` bytes -/
def save (L : Layout ns) (m : Model ns) : Bytes :=
  L.header.flatMap (encInt L.intSz) ++ m.sizes.toList.flatMap (encInt L.sizeSz)
    ++ m.blobs.flatten ++ m.arrays.flatten

/-! ## mj_makeModel (the part run by the loader) -/

/-- value seen by the `MJMODEL_SIZES` X-loop of checks for the `i`-th name: positional parameters
    carry the file's value, the names that are not parameters are dummy locals equal to 0 -/
def argVal (L : Layout ns) (s : Sizes ns) (i : Nat) : Int :=
  if h : i < L.nargs ∧ i < ns then s[i]'h.2 else 0

/-- the `MJMODEL_SIZES` X-loop of checks at the top of `mj_makeModel` -/
def checkArgs (L : Layout ns) (s : Sizes ns) : (i : Nat) → (names : List String) → Res Unit
  | _, [] => .ok ()
  | i, name :: rest =>
    if argVal L s i < 0 then .reject s!"Invalid model: {name} is negative ({argVal L s i})."
    else if argVal L s i ≥ L.maxArray ∧ ¬ L.exemptMax.contains i then
      .reject s!"Invalid model: {name} is too large. Expected < {L.maxArray}. Got {argVal L s i}."
    else checkArgs L s (i + 1) rest

def mapSum (L : Layout ns) (s : Sizes ns) : Int := (L.mapTerms.map (fun j => s[j])).sum

/-- size fields of the model right after `mj_makeModel` set them: parameters, computed
    `nnames_map`, everything else 0 (`memset`) -/
def allocSizes (L : Layout ns) (s : Sizes ns) : Sizes ns :=
  Vector.ofFn fun i : Fin ns =>
    if i = L.mapIdx then (L.mapMul : Int) * mapSum L s
    else if i.val < L.nargs then s[i]
    else 0

/-- `safeAddToBufferSize(&offset, &nbuffer, esz, nr, nc)` at running offset `off` (= `*nbuffer`):
    `none` when it returns 0, else the byte capacity of the array and the new offset -/
def safeAdd (align : Nat) (esz : Nat) (nr nc : Int) (off : Nat) : Option (Nat × Nat) :=
  if nr < 0 ∨ nc < 0 then none
  else if nc * nr ≥ two64 then none
  else if nc * nr * esz ≥ two64 then none
  else
    let toAdd := (nc * nr * esz).toNat + SKIP align off
    if toAdd ≥ two64 then none
    else if off + toAdd ≥ two63 then none
    else some ((nc * nr * esz).toNat, off + toAdd)

/-- the `safeAddToBufferSize` loop: returns per-pointer byte capacities and the final `nbuffer` -/
def allocLoop (L : Layout ns) (sa : Sizes ns) : List (Ptr ns) → Nat → Res (List Nat × Nat)
  | [], off => .ok ([], off)
  | p :: ps, off =>
    match safeAdd L.align p.esz sa[p.nr] (p.nc sa) off with
    | none => .reject s!"Invalid model: {p.name} too large."
    | some (cap, off') => (allocLoop L sa ps off').bind fun r => .ok (cap :: r.1, r.2)

structure Alloc where
  caps : List Nat
  nbuffer : Nat
  deriving DecidableEq

def makeModel (L : Layout ns) (s : Sizes ns) : Res Alloc := do
  checkArgs L s 0 L.sizeNames
  if s[L.nbody] = 0 then .reject "Invalid model: nbody == 0"
  else if mapSum L s ≥ L.intMax / L.mapMul then
    .reject "Invalid model: size of nnames_map is larger than INT_MAX"
  else (allocLoop L (allocSizes L s) L.ptrs 0).bind fun r => .ok { caps := r.1, nbuffer := r.2 }

/-- what `mj_makeModel` computes for `nbuffer` (used to state consistency of a model value) -/
def nbufferOf (L : Layout ns) (s : Sizes ns) : Option Nat :=
  match allocLoop L (allocSizes L s) L.ptrs 0 with
  | .ok (_, tot) => some tot
  | _ => none

/-! ## mj_validateReferences: the MJMODEL_REFERENCES loop -/

/-- body of the X loop for entry `i` -/
def refStep (L : Layout ns) (r : Ref ns) (target : Int) (adrs : List Int) (nums : Option (List Int)) (i : Nat) : Res Unit :=
  match adrs[i]? with
  | none => .hazard (.oobIndex r.name)
  | some adr =>
    match (match nums with | none => some (1 : Int) | some l => l[i]?) with
    | none => .hazard (.oobIndex r.numText)
    | some num =>
      if num < 0 then .reject s!"Invalid model: {r.numText} is negative."
      else if num > L.maxArray then .reject s!"Invalid model: {r.numText} is too large."
      else if adr + num > L.intMax then .hazard (.intOverflow (r.name ++ "[i] + num"))
      else if adr + num > target ∨ adr < -1 then .reject s!"Invalid model: {r.name} out of bounds."
      else .ok ()

/-- `for (int i=0; i<m->nadrs; i++)` of the X macro, from `i` for `todo` more iterations -/
def refLoop (L : Layout ns) (r : Ref ns) (target : Int) (adrs : List Int) (nums : Option (List Int)) :
    (i : Nat) → (todo : Nat) → Res Unit
  | _, 0 => .ok ()
  | i, todo + 1 => (refStep L r target adrs nums i).bind fun _ => refLoop L r target adrs nums (i + 1) todo

def validateRef (L : Layout ns) (m : Model ns) (r : Ref ns) : Res Unit :=
  match m.arrays[r.arr]? with
  | none => .hazard (.oobIndex r.name)
  | some a =>
    let nums : Res (Option (List Int)) :=
      match r.num with
      | none => .ok none
      | some k => match m.arrays[k]? with
        | none => .hazard (.oobIndex r.numText)
        | some b => .ok (some (decInts 4 b))
    nums.bind fun nums =>
      refLoop L r m.sizes[r.target] (decInts 4 a) nums 0 (m.sizes[r.nadrS] * r.nadrK).toNat

def validateTable (L : Layout ns) (m : Model ns) : List (Ref ns) → Res Unit
  | [] => .ok ()
  | r :: rs => (validateRef L m r).bind fun _ => validateTable L m rs

/-! ## mj_validateReferences: "special logic that doesn't fit in the macro"

Hand-written against the field names it uses; the enumerators, `nPOS/nVEL`, `sensorSize` and
`numObjects` tables are generated.  Array access is by name through the layout; every index is checked
(an index outside the array is a `hazard`, it is an out-of-bounds read in C). -/

inductive SensDim where
  | const (n : Int)   -- `return n;`
  | dim               -- `return sensor_dim;`
  deriving Repr

inductive ObjCount where
  | minus1            -- `return -1;`
  | size (name : String)
  deriving Repr

structure Special where
  nPOS : List Int
  nVEL : List Int
  geomHFIELD : Int
  geomMESH : Int
  geomSDF : Int
  eqJOINT : Int
  eqTENDON : Int
  eqWELD : Int
  eqCONNECT : Int
  eqFLEX : List Int            -- mjEQ_FLEX, mjEQ_FLEXVERT, mjEQ_FLEXSTRAIN
  objBODY : Int
  objSITE : Int
  wrapJOINT : Int
  wrapSITE : Int
  wrapGEOM : List Int          -- mjWRAP_SPHERE, mjWRAP_CYLINDER
  trnJOINT : List Int          -- mjTRN_JOINT, mjTRN_JOINTINPARENT
  trnTENDON : Int
  trnSITE : Int
  trnSLIDERCRANK : Int
  trnBODY : Int
  trnSO3 : Int
  sensPLUGIN : Int
  sensTACTILE : Int
  sensorSize : List (Int × SensDim)      -- cases of the switch; anything else returns -1
  numObjects : List (Int × ObjCount)     -- cases of the switch; anything else returns -2
  int64Max : Int

namespace Special

structure Ctx (ns : Nat) where
  L : Layout ns
  m : Model ns

def sizeByName (c : Ctx ns) (name : String) : Res Int :=
  match c.L.sizeNames.idxOf? name with
  | some i => if h : i < ns then .ok c.m.sizes[i] else .hazard (.oobIndex ("size " ++ name))
  | none => .hazard (.oobIndex ("size " ++ name))

def findPtr (ps : List (Ptr ns)) (name : String) : Nat → Option (Nat × Ptr ns)
  | i => match ps with
    | [] => none
    | p :: rest => if p.name = name then some (i, p) else findPtr rest name (i + 1)

/-- the model array `name`, decoded with its element width -/
def arr (c : Ctx ns) (name : String) : Res (List Int) :=
  match findPtr c.L.ptrs name 0 with
  | none => .hazard (.oobIndex ("no array " ++ name))
  | some (i, p) => match c.m.arrays[i]? with
    | none => .hazard (.oobIndex ("no array " ++ name))
    | some b => .ok (decInts p.esz b)

def get (a : List Int) (i : Int) (what : String) : Res Int :=
  if i < 0 then .hazard (.oobIndex what) else
    match a[i.toNat]? with
    | some v => .ok v
    | none => .hazard (.oobIndex what)

/-- `for (int i=0; i<n; i++) body(i)`, stopping at the first non-ok outcome -/
def forLoop (f : Nat → Res Unit) : (i : Nat) → (todo : Nat) → Res Unit
  | _, 0 => .ok ()
  | i, todo + 1 => (f i).bind fun _ => forLoop f (i + 1) todo

def forN (n : Int) (f : Nat → Res Unit) : Res Unit := forLoop f 0 n.toNat

def check (c : Prop) [Decidable c] (msg : String) : Res Unit := if c then .reject msg else .ok ()

/-- undefined behaviour guard -/
def ub (c : Prop) [Decidable c] (u : Hazard) : Res Unit := if c then .hazard u else .ok ()

def sensorSizeOf (S : Special) (t dim : Int) : Int :=
  match S.sensorSize.lookup t with
  | some (.const n) => n
  | some .dim => dim
  | none => -1

def numObjectsOf (S : Special) (c : Ctx ns) (t : Int) : Res Int :=
  match S.numObjects.lookup t with
  | some .minus1 => .ok (-1)
  | some (.size n) => sizeByName c n
  | none => .ok (-2)

/-- `x` does not fit in `int` -/
def ovf32 (c : Ctx ns) (x : Int) : Prop := x > c.L.intMax ∨ x < -c.L.intMax - 1

instance (c : Ctx ns) (x : Int) : Decidable (ovf32 c x) := by unfold ovf32; infer_instance

def ovf64 (S : Special) (x : Int) : Prop := x > S.int64Max ∨ x < -S.int64Max - 1

instance (S : Special) (x : Int) : Decidable (ovf64 S x) := by unfold ovf64; infer_instance

/-- counts the iterations `b` of `for (b=0; b<n; ++b)` for which `f b` is true -/
def forLoopCount (f : Nat → Res Bool) : (b : Nat) → (todo : Nat) → (acc : Nat) → Res Nat
  | _, 0, acc => .ok acc
  | b, todo + 1, acc => (f b).bind fun hit => forLoopCount f (b + 1) todo (if hit then acc + 1 else acc)

def bodies (c : Ctx ns) : Res Unit := do
  let nbody ← sizeByName c "nbody"
  let body_parentid ← arr c "body_parentid"
  let body_rootid ← arr c "body_rootid"
  let body_weldid ← arr c "body_weldid"
  forN nbody fun i => do
    let p ← get body_parentid i "body_parentid"
    check (i > 0 ∧ p ≥ i) "Invalid model: bad body_parentid."
    let r ← get body_rootid i "body_rootid"
    check (r > i) "Invalid model: bad body_rootid."
    let w ← get body_weldid i "body_weldid"
    check (w > i) "Invalid model: bad body_weldid."

def joints (S : Special) (c : Ctx ns) : Res Unit := do
  let njnt ← sizeByName c "njnt"
  let nq ← sizeByName c "nq"
  let nv ← sizeByName c "nv"
  let jnt_type ← arr c "jnt_type"
  let jnt_qposadr ← arr c "jnt_qposadr"
  let jnt_dofadr ← arr c "jnt_dofadr"
  forN njnt fun i => do
    let t ← get jnt_type i "jnt_type"
    check (t ≥ 4 ∨ t < 0) "Invalid model: jnt_type out of bounds."
    let qa ← get jnt_qposadr i "jnt_qposadr"
    let np ← get S.nPOS t "nPOS"
    ub (ovf32 c (qa + np)) (.intOverflow "jnt_qposadr[i] + nPOS")
    check (qa + np > nq ∨ qa < 0) "Invalid model: jnt_qposadr out of bounds."
    let da ← get jnt_dofadr i "jnt_dofadr"
    let nvl ← get S.nVEL t "nVEL"
    ub (ovf32 c (da + nvl)) (.intOverflow "jnt_dofadr[i] + nVEL")
    check (da + nvl > nv ∨ da < 0) "Invalid model: jnt_dofadr out of bounds."

def dofs (c : Ctx ns) : Res Unit := do
  let nv ← sizeByName c "nv"
  let dof_parentid ← arr c "dof_parentid"
  forN nv fun i => do
    let p ← get dof_parentid i "dof_parentid"
    check (p ≥ i) "Invalid model: bad dof_parentid."

def geoms (S : Special) (c : Ctx ns) : Res Unit := do
  let ngeom ← sizeByName c "ngeom"
  let nhfield ← sizeByName c "nhfield"
  let nmesh ← sizeByName c "nmesh"
  let geom_condim ← arr c "geom_condim"
  let geom_type ← arr c "geom_type"
  let geom_dataid ← arr c "geom_dataid"
  forN ngeom fun i => do
    let cd ← get geom_condim i "geom_condim"
    check (cd > 6 ∨ cd < 0) "Invalid model: geom_condim out of bounds."
    let t ← get geom_type i "geom_type"
    if t = S.geomHFIELD then do
      let d ← get geom_dataid i "geom_dataid"
      check (d ≥ nhfield ∨ d < -1) "Invalid model: geom_dataid out of bounds."
    else if t = S.geomMESH ∨ t = S.geomSDF then do
      let d ← get geom_dataid i "geom_dataid"
      check (d ≥ nmesh ∨ d < -1) "Invalid model: geom_dataid out of bounds."
    else pure ()

def hfields (S : Special) (c : Ctx ns) : Res Unit := do
  let nhfield ← sizeByName c "nhfield"
  let nhfielddata ← sizeByName c "nhfielddata"
  let hfield_adr ← arr c "hfield_adr"
  let hfield_nrow ← arr c "hfield_nrow"
  let hfield_ncol ← arr c "hfield_ncol"
  forN nhfield fun i => do
    let a ← get hfield_adr i "hfield_adr"
    let nr ← get hfield_nrow i "hfield_nrow"
    let nc ← get hfield_ncol i "hfield_ncol"
    ub (ovf64 S (a + nr * nc)) (.intOverflow "hfield_adr + nrow*ncol")
    check (a + nr * nc > nhfielddata ∨ a < 0) "Invalid model: hfield_adr out of bounds."

def textures (S : Special) (c : Ctx ns) : Res Unit := do
  let ntex ← sizeByName c "ntex"
  let ntexdata ← sizeByName c "ntexdata"
  let tex_nchannel ← arr c "tex_nchannel"
  let tex_height ← arr c "tex_height"
  let tex_width ← arr c "tex_width"
  let tex_adr ← arr c "tex_adr"
  forN ntex fun i => do
    let nch ← get tex_nchannel i "tex_nchannel"
    let h ← get tex_height i "tex_height"
    let w ← get tex_width i "tex_width"
    ub (ovf64 S (nch * h) ∨ ovf64 S (nch * h * w)) (.intOverflow "tex nbytes")
    let a ← get tex_adr i "tex_adr"
    ub (ovf64 S (a + nch * h * w)) (.intOverflow "tex_adr + nbytes")
    check (a + nch * h * w > ntexdata ∨ a < 0) "Invalid model: tex_adr out of bounds."

/-- the two 16-bit body ids packed in a pair / exclude signature -/
def signature (c : Ctx ns) (nname aname what : String) : Res Unit := do
  let n ← sizeByName c nname
  let nbody ← sizeByName c "nbody"
  let a ← arr c aname
  forN n fun i => do
    let sg ← get a i aname
    check (sg % 65536 ≥ nbody ∨ sg % 65536 < 0) s!"Invalid model: {what}_body1 out of bounds."
    -- `sig >> 16`: arithmetic shift (floor division)
    check (sg / 65536 ≥ nbody ∨ sg / 65536 < 0) s!"Invalid model: {what}_body2 out of bounds."

def equalities (S : Special) (c : Ctx ns) : Res Unit := do
  let neq ← sizeByName c "neq"
  let njnt ← sizeByName c "njnt"
  let ntendon ← sizeByName c "ntendon"
  let nbody ← sizeByName c "nbody"
  let nsite ← sizeByName c "nsite"
  let nflex ← sizeByName c "nflex"
  let eq_obj1id ← arr c "eq_obj1id"
  let eq_obj2id ← arr c "eq_obj2id"
  let eq_objtype ← arr c "eq_objtype"
  let eq_type ← arr c "eq_type"
  let m1 := "Invalid model: eq_obj1id out of bounds."
  let m2 := "Invalid model: eq_obj2id out of bounds."
  forN neq fun i => do
    let o1 ← get eq_obj1id i "eq_obj1id"
    let o2 ← get eq_obj2id i "eq_obj2id"
    let ot ← get eq_objtype i "eq_objtype"
    let t ← get eq_type i "eq_type"
    if t = S.eqJOINT then do
      check (o1 ≥ njnt ∨ o1 < 0) m1
      check (o2 ≥ njnt ∨ o2 < -1) m2
    else if t = S.eqTENDON then do
      check (o1 ≥ ntendon ∨ o1 < 0) m1
      check (o2 ≥ ntendon ∨ o2 < -1) m2
    else if t = S.eqWELD ∨ t = S.eqCONNECT then
      if ot = S.objBODY then do
        check (o1 ≥ nbody ∨ o1 < 0) m1
        check (o2 ≥ nbody ∨ o2 < 0) m2
      else if ot = S.objSITE then do
        check (o1 ≥ nsite ∨ o1 < 0) m1
        check (o2 ≥ nsite ∨ o2 < 0) m2
      else .reject "Invalid model: eq_objtype is not body or site."
    else if S.eqFLEX.contains t then do
      check (o1 ≥ nflex ∨ o1 < 0) m1
      check (o2 ≠ -1) "Invalid model: eq_obj2id must be -1."
    else .fatal "mj_validateReferences: unknown equality constraint type."

def wraps (S : Special) (c : Ctx ns) : Res Unit := do
  let nwrap ← sizeByName c "nwrap"
  let njnt ← sizeByName c "njnt"
  let nsite ← sizeByName c "nsite"
  let ngeom ← sizeByName c "ngeom"
  let wrap_objid ← arr c "wrap_objid"
  let wrap_type ← arr c "wrap_type"
  let msg := "Invalid model: wrap_objid out of bounds."
  forN nwrap fun i => do
    let o ← get wrap_objid i "wrap_objid"
    let t ← get wrap_type i "wrap_type"
    if t = S.wrapJOINT then check (o ≥ njnt ∨ o < 0) msg
    else if t = S.wrapSITE then check (o ≥ nsite ∨ o < 0) msg
    else if S.wrapGEOM.contains t then check (o ≥ ngeom ∨ o < 0) msg
    else pure ()

def actuators (S : Special) (c : Ctx ns) : Res Unit := do
  let nactuator ← sizeByName c "nactuator"
  let njnt ← sizeByName c "njnt"
  let ntendon ← sizeByName c "ntendon"
  let nsite ← sizeByName c "nsite"
  let nbody ← sizeByName c "nbody"
  let actuator_trntype ← arr c "actuator_trntype"
  let actuator_trnid ← arr c "actuator_trnid"
  let msg := "Invalid model: actuator_trnid out of bounds."
  forN nactuator fun i => do
    let t ← get actuator_trntype i "actuator_trntype"
    let id ← get actuator_trnid (2 * (i : Int)) "actuator_trnid"
    let ids ← get actuator_trnid (2 * (i : Int) + 1) "actuator_trnid"
    if S.trnJOINT.contains t then check (id < 0 ∨ id ≥ njnt) msg
    else if t = S.trnTENDON then check (id < 0 ∨ id ≥ ntendon) msg
    else if t = S.trnSITE then check (id < 0 ∨ id ≥ nsite) msg
    else if t = S.trnSLIDERCRANK then do
      check (id < 0 ∨ id ≥ nsite) msg
      check (ids < 0 ∨ ids ≥ nsite) msg
    else if t = S.trnBODY then check (id < 0 ∨ id ≥ nbody) msg
    else if t = S.trnSO3 then
      if ids = -1 then check (id < 0 ∨ id ≥ njnt) msg
      else check (id < 0 ∨ id ≥ nsite ∨ ids < 0 ∨ ids ≥ nsite) msg
    else pure ()

def sensors (S : Special) (c : Ctx ns) : Res Unit := do
  let nsensor ← sizeByName c "nsensor"
  let nsensordata ← sizeByName c "nsensordata"
  let sensor_type ← arr c "sensor_type"
  let sensor_dim ← arr c "sensor_dim"
  let sensor_adr ← arr c "sensor_adr"
  let sensor_objtype ← arr c "sensor_objtype"
  let sensor_objid ← arr c "sensor_objid"
  let sensor_reftype ← arr c "sensor_reftype"
  let sensor_refid ← arr c "sensor_refid"
  let sensor_plugin ← arr c "sensor_plugin"
  let plugin ← arr c "plugin"
  let geom_bodyid ← arr c "geom_bodyid"
  let body_geomnum ← arr c "body_geomnum"
  let body_geomadr ← arr c "body_geomadr"
  let geom_contype ← arr c "geom_contype"
  let geom_conaffinity ← arr c "geom_conaffinity"
  forN nsensor fun i => do
    let t ← get sensor_type i "sensor_type"
    let ssz ← (if t = S.sensPLUGIN then do
        let sp ← get sensor_plugin i "sensor_plugin"
        let _ ← get plugin sp "plugin[sensor_plugin[i]]"
        (.hazard (.external "mjp_getPluginAtSlot") : Res Int)
      else do
        let d ← get sensor_dim i "sensor_dim"
        pure (S.sensorSizeOf t d))
    check (ssz < 0) "Invalid model: Bad sensor_type."
    let sa ← get sensor_adr i "sensor_adr"
    ub (sa ≥ 0 ∧ ovf32 c (sa + ssz)) (.intOverflow "sensor_adr + sensor_size")
    check (sa < 0 ∨ sa + ssz > nsensordata) "Invalid model: sensor_adr out of bounds."
    let ot ← get sensor_objtype i "sensor_objtype"
    let nobj ← S.numObjectsOf c ot
    check (nobj = -2) "Invalid model: invalid sensor_objtype"
    let oid ← get sensor_objid i "sensor_objid"
    check (nobj ≠ -1 ∧ (oid < 0 ∨ oid ≥ nobj)) "Invalid model: invalid sensor_objid"
    let rt ← get sensor_reftype i "sensor_reftype"
    let nref ← S.numObjectsOf c rt
    check (nref = -2) "Invalid model: invalid sensor_reftype"
    let rid ← get sensor_refid i "sensor_refid"
    check (nref ≠ -1 ∧ (rid < -1 ∨ rid ≥ nref)) "Invalid model: invalid sensor_refid"
    if t = S.sensTACTILE then do
      let pb ← get geom_bodyid rid "geom_bodyid[sensor_refid[i]]"
      let gn ← get body_geomnum pb "body_geomnum[parent_body]"
      let cnt ← forLoopCount (fun b => do
          let ga ← get body_geomadr pb "body_geomadr[parent_body]"
          ub (ovf32 c (ga + b)) (.intOverflow "body_geomadr + b")
          let ct ← get geom_contype (ga + b) "geom_contype[geom_id]"
          if ct ≠ 0 then pure true else do
            let ca ← get geom_conaffinity (ga + b) "geom_conaffinity[geom_id]"
            pure (ca ≠ 0)) 0 gn.toNat 0
      check (cnt = 0) "Touch sensor requires a body with at least one collision geom"
    else pure ()

def tuples (S : Special) (c : Ctx ns) : Res Unit := do
  let ntuple ← sizeByName c "ntuple"
  let tuple_size ← arr c "tuple_size"
  let tuple_adr ← arr c "tuple_adr"
  let tuple_objtype ← arr c "tuple_objtype"
  let tuple_objid ← arr c "tuple_objid"
  forN ntuple fun i => do
    let tsz ← get tuple_size i "tuple_size"
    forN tsz fun j => do
      let a0 ← get tuple_adr i "tuple_adr"
      ub (ovf32 c (a0 + j)) (.intOverflow "tuple_adr + j")
      let ot ← get tuple_objtype (a0 + j) "tuple_objtype[adr]"
      let nobj ← S.numObjectsOf c ot
      check (nobj = -2) "Invalid model: invalid tuple_objtype"
      let oid ← get tuple_objid (a0 + j) "tuple_objid[adr]"
      check (nobj ≠ -1 ∧ (oid < 0 ∨ oid ≥ nobj)) "Invalid model: invalid tuple_objid"

/-- the special logic, in source order -/
def run (S : Special) (c : Ctx ns) : Res Unit := do
  bodies c
  joints S c
  dofs c
  geoms S c
  hfields S c
  textures S c
  signature c "npair" "pair_signature" "pair"
  equalities S c
  wraps S c
  actuators S c
  sensors S c
  signature c "nexclude" "exclude_signature" "exclude"
  tuples S c

end Special

/-- the special logic of the tree as a function of the model -/
def specialOf (L : Layout ns) (S : Special) : Model ns → Res Unit := fun m => Special.run S { L := L, m := m }

/-- `mj_validateReferences`: the table loop, then the special logic `sp` (the theorems hold for any
    `sp`; the tree's is `specialOf layout special`) -/
def validate (L : Layout ns) (sp : Model ns → Res Unit) (m : Model ns) : Res Unit :=
  (validateTable L m L.refs).bind fun _ => sp m

/-! ## mj_loadModelBuffer -/

/-- header comparison loop: first mismatching position gives its warning -/
def checkHeader : List Int → List Int → List String → Res Unit
  | [], _, _ => .ok ()
  | _ :: _, [], _ => .ok ()
  | e :: es, h :: hs, msgs =>
    if h ≠ e then .reject (match msgs with | [] => "" | [d] => d | w :: _ => w)
    else checkHeader es hs (match msgs with | [] => [] | [d] => [d] | _ :: ws => ws)

/-- `bufread` of the struct blobs (their total size has been checked by the caller) -/
def readBlobs : List (String × Nat) → Bytes → Res (List Bytes × Bytes)
  | [], rest => .ok ([], rest)
  | (_, n) :: bs, rest =>
    match rdN rest n with
    | none => .fatal "bufread: attempting to read outside model buffer"
    | some (a, rest') => do
      let (as, r) ← readBlobs bs rest'
      .ok (a :: as, r)

/-- one iteration of the `MJMODEL_POINTERS` read loop for pointer `p` with allocated capacity `cap`:
    the truncation check, then `bufread` into `m->name`.  `len` is `buffer_sz`, the read position is
    `ptrbuf = len - rest.length`.  Returns the bytes read and the unread rest. -/
def readStep (intMax : Int) (len : Nat) (s : Sizes ns) (p : Ptr ns) (cap : Nat) (rest : Bytes) : Res (Bytes × Bytes) :=
  let off := len - rest.length
  (p.ncInt s intMax).bind fun ncv =>
  let bytesU : Nat := ((p.esz : Int) * s[p.nr] * ncv % (two64 : Int)).toNat
  if (off + bytesU) % two64 > len then
    .reject s!"Truncated model file - ran out of data while reading {p.name}"
  else
    let num : Int := toI32 bytesU
    if (off : Int) + num > len then .fatal "bufread: attempting to read outside model buffer"
    else if num < 0 then .hazard .inputOverread
    else match rdN rest num.toNat with
      | none => .hazard .inputOverread
      | some (a, rest') =>
        if num.toNat > cap then .hazard (.arrayOverflow p.name) else .ok (a, rest')

/-- the `MJMODEL_POINTERS` read loop -/
def readArrays (intMax : Int) (len : Nat) (s : Sizes ns) : List (Ptr ns) → List Nat → Bytes → Res (List Bytes × Bytes)
  | [], _, rest => .ok ([], rest)
  | _ :: _, [], _ => .hazard (.oobIndex "pointer without allocation")
  | p :: ps, cap :: caps, rest =>
    (readStep intMax len s p cap rest).bind fun ar =>
    (readArrays intMax len s ps caps ar.2).bind fun r => .ok (ar.1 :: r.1, r.2)

theorem decN_length (w k : Nat) (b : Bytes) : (decN w k b).length = k := by
  induction k generalizing b with
  | zero => rfl
  | succ k ih => simp [decN, ih]

/-- the `nsize` sizes decoded from their `sizeSz*nsize` bytes -/
def decodeSizes (L : Layout ns) (sb : Bytes) : Sizes ns :=
  ⟨(decN L.sizeSz ns sb).toArray, by simp [decN_length]⟩

/-- header and sizes stage of `mj_loadModelBuffer`: returns the sizes and the unread rest -/
def loadSizes (L : Layout ns) (buf : Bytes) : Res (Sizes ns × Bytes) :=
  let len := buf.length
  let nh := L.header.length
  if len < nh * L.intSz then .reject "Model file has an incomplete header" else
  match rdN buf (nh * L.intSz) with
  | none => .hazard .inputOverread
  | some (hb, rest1) =>
    (checkHeader L.header (decN L.intSz nh hb) L.headerMsgs).bind fun _ =>
    if (len - rest1.length) + L.sizeSz * ns > len then
      .reject "Truncated model file - ran out of data while reading sizes"
    else match rdN rest1 (L.sizeSz * ns) with
      | none => .hazard .inputOverread
      | some (sb, rest2) => .ok (decodeSizes L sb, rest2)

/-- the rest of `mj_loadModelBuffer` once the sizes are known; `len` is `buffer_sz` -/
def loadBody (L : Layout ns) (sp : Model ns → Res Unit) (len : Nat) (s : Sizes ns) (rest2 : Bytes) : Res (Model ns) :=
  match makeModel L s with
  | .reject w => .reject (w ++ " | Invalid sizes, unable to load model")
  | .fatal w => .fatal w
  | .hazard u => .hazard u
  | .ok al =>
    if (al.nbuffer : Int) ≠ s[L.nbuffer] then .reject "Corrupted model, wrong nbuffer field"
    else if (len - rest2.length) + blobTotal L > len then
      -- (this path returns without `mj_deleteModel(m)`: the model allocated above is leaked)
      .reject "Truncated model file - ran out of data while reading structs"
    else
      (readBlobs L.blobs rest2).bind fun br =>
      (readArrays L.intMax len s L.ptrs al.caps br.2).bind fun ar =>
      if ar.2.length ≠ 0 then .reject "Model file is too large"
      else
        let m : Model ns := { sizes := s, blobs := br.1, arrays := ar.1 }
        (validate L sp m).bind fun _ => .ok m

/-- `mj_loadModelBuffer(buffer, buffer_sz)` with `buffer_sz = buf.length` -/
def load (L : Layout ns) (sp : Model ns → Res Unit) (buf : Bytes) : Res (Model ns) :=
  (loadSizes L buf).bind fun sr => loadBody L sp buf.length sr.1 sr.2

/-- size of the model buffer requested from the allocator by `mj_makeModel`, if the loader gets that
    far (observable through `mju_user_malloc`; used only by the differential run) -/
def loadNbuf (L : Layout ns) (buf : Bytes) : Option Nat :=
  match loadSizes L buf with
  | .ok sr => match makeModel L sr.1 with
    | .ok al => some al.nbuffer
    | _ => none
  | _ => none

/-- the `Option` view: `some m` exactly when the C loader returns a non-NULL model -/
def loadOpt (L : Layout ns) (sp : Model ns → Res Unit) (buf : Bytes) : Option (Model ns) := (load L sp buf).toOption

/-! ## consistency of a model value with its sizes (hypothesis of the theorems; also evaluated by the
driver on every model of the differential run) -/

/-- `v` fits in `n` bytes, two's complement -/
def InRange (n : Nat) (v : Int) : Prop := -((256 : Int) ^ n) ≤ 2 * v ∧ 2 * v < (256 : Int) ^ n

instance (n : Nat) (v : Int) : Decidable (InRange n v) := by unfold InRange; infer_instance

/-- exact array lengths under sizes `s` -/
def LensOK (s : Sizes ns) : List (Ptr ns) → List Bytes → Prop
  | [], [] => True
  | p :: ps, a :: as => (a.length : Int) = p.bytes s ∧ LensOK s ps as
  | _, _ => False

structure Layout.WF (L : Layout ns) : Prop where
  hdrRange : ∀ v ∈ L.header, InRange L.intSz v

/-- a model value consistent with its sizes (what `mj_makeModel` + the compiler guarantee) -/
structure Consistent (L : Layout ns) (sp : Model ns → Res Unit) (m : Model ns) : Prop where
  sizesRange : ∀ v ∈ m.sizes.toList, InRange L.sizeSz v
  make : ∃ al, makeModel L m.sizes = .ok al ∧ (al.nbuffer : Int) = m.sizes[L.nbuffer]
  dimsAgree : ∀ p ∈ L.ptrs, p.bytes (allocSizes L m.sizes) = p.bytes m.sizes
  ncFits : ∀ p ∈ L.ptrs, p.ncInt m.sizes L.intMax = .ok (p.nc m.sizes)
  blobsLen : m.blobs.map List.length = L.blobs.map (·.2)
  arraysLen : LensOK m.sizes L.ptrs m.arrays
  small : (save L m).length ≤ 2147483647
  valid : validate L sp m = .ok ()

/-- Boolean form of `LensOK` -/
def lensOKB (s : Sizes ns) : List (Ptr ns) → List Bytes → Bool
  | [], [] => true
  | p :: ps, a :: as => decide ((a.length : Int) = p.bytes s) && lensOKB s ps as
  | _, _ => false

/-- executable form of `Consistent` (`Lemmas/Mjb.lean: consistentB_sound`) -/
def consistentB (L : Layout ns) (sp : Model ns → Res Unit) (m : Model ns) : Bool :=
  m.sizes.toList.all (fun v => decide (InRange L.sizeSz v)) &&
  (match makeModel L m.sizes with
   | .ok al => decide ((al.nbuffer : Int) = m.sizes[L.nbuffer])
   | _ => false) &&
  L.ptrs.all (fun p => decide (p.bytes (allocSizes L m.sizes) = p.bytes m.sizes)) &&
  L.ptrs.all (fun p => decide (p.ncInt m.sizes L.intMax = .ok (p.nc m.sizes))) &&
  decide (m.blobs.map List.length = L.blobs.map (·.2)) &&
  lensOKB m.sizes L.ptrs m.arrays &&
  decide ((save L m).length ≤ 2147483647) &&
  decide (validate L sp m = .ok ())

end MjProof.Mjb
