/-
Model of MuJoCo's virtual file system (`src/user/user_vfs.cc`, `src/user/user_resource.cc`) and of the
path normalisation it applies (`mujoco::user::FilePath` in `src/user/user_util.{h,cc}`).
Core Lean only (no Mathlib) so that the driver is a cheap native executable.

Scope (what the functions below mirror, line by line):
* `FilePath::AbsPrefix`, `PathReduce`, `Combine`, `StripPath`, `StrLower/Lower`, and the file-local
  `StripPathAndLower` of user_vfs.cc, over `List Char` (ASCII names: a C `char` is a `Char`).
* `VFS::Mount/Unmount/ContainsBuffer/ContainsFile/FindMount/Open/Read`, the `BufferProvider` behind
  `mj_addBufferVFS` / `mj_addFileVFS`, and `mj_deleteFileVFS` with its lower-cased fall-back.
* the mount table `std::unordered_map<std::string, ResourcePtr> mounts_` is an association list with
  insert-if-absent; where the code iterates the hash map (legacy basename match in `FindMount`) the
  model returns *all* candidates, because the iteration order is unspecified.

Environment assumptions (each one is checked on every run by the correspondence):
* no resource provider is registered (`mjp_resourceProviderCount() == 0`), so
  `mjp_getResourceProvider` returns NULL in `AbsPrefix` and `FindMount`;
* the real file system seen by the default provider is the explicit table `Env.disk`
  (`stat` + `FileToMemory` of a path); directories and undeclared paths are reported as `unmodelled`.

The model has two clearly marked variant switches (search for `>>>`), one per defect found in the tree:
* the lookup of `mj_containsBufferVFS`: `containsRaw` (raw string is the key) versus `containsNorm`
  (the name goes through `FilePath` like at every other entry point); selected by `Env.normContains`;
* the first look-up of `VFS::FindMount`: the loop `while (!str.empty())` never looks up the empty
  path, so a buffer mounted under the name "" is only found by the hash-order dependent legacy
  basename match (`prefixCandsLoop`), versus an exact look-up of the full path first
  (`prefixCandsExact`); selected by `Env.exactFirst`.
The check probes the real code once and compares against the matching variant; the full theorems of
`Props/C39.lean` are about `Env.fixed` (both switches on).
-/
namespace MjProof.Vfs

abbrev Str := List Char
abbrev Bytes := List UInt8

/-! ## FilePath -/

/-- `FilePath::IsSeparator`. -/
def isSep (c : Char) : Bool := c == '/' || c == '\\'

/-- `std::string::find` of a two-character pattern: index of the first occurrence. -/
def find2 (a b : Char) : Str → Option Nat
  | [] => none
  | x :: t =>
    match t with
    | [] => none
    | y :: _ => if x == a && y == b then some 0 else (find2 a b t).map (· + 1)

/-- `FilePath::AbsPrefix` with an empty resource-provider table. -/
def absPrefix (s : Str) : Str :=
  match s with
  | [] => []
  | c :: _ =>
    if c == '\\' || c == '/' then [c]
    else
      match find2 ':' '/' s with
      | some pos => s.take (pos + 2)
      | none =>
        match find2 ':' '\\' s with
        | some pos => s.take (pos + 2)
        | none => []

def dotdot : Str := ['.', '.']
def dot : Str := ['.']

/-- One separator step of `PathReduce`; `dirs` is the vector as a stack (head = `back()`). -/
def pushSeg (dirs : List Str) (temp : Str) : List Str :=
  match dirs with
  | [] => if temp != dot then [temp] else []
  | d :: ds =>
    if temp == dotdot && d != dotdot then ds
    else if temp != dot then temp :: d :: ds
    else d :: ds

/-- The scanning loop of `PathReduce` (`cur` = characters since `j`, reversed), followed by the final
    `dirs.push_back(str.substr(j))`; returns `dirs` in vector order. -/
def reduceGo : Str → List Str → Str → List Str
  | [], dirs, cur => (cur.reverse :: dirs).reverse
  | c :: cs, dirs, cur =>
    if isSep c then reduceGo cs (pushSeg dirs cur.reverse) [] else reduceGo cs dirs (c :: cur)

/-- `path << *it++; for (...) path << "/" << *it`. -/
def joinSlash : List Str → Str
  | [] => []
  | [d] => d
  | d :: ds => d ++ '/' :: joinSlash ds

/-- `FilePath::PathReduce`. -/
def reduce (s : Str) : Str :=
  let p := absPrefix s
  p ++ joinSlash (reduceGo (s.drop p.length) [] [])

/-- `FilePath::Combine`. -/
def combine (s1 s2 : Str) : Str :=
  if absPrefix s2 != [] then s2
  else
    match s1.getLast? with
    | none => s1 ++ s2
    | some c => if c != '\\' && c != '/' then s1 ++ '/' :: s2 else s1 ++ s2

/-- `FilePath::StripPath` / the first half of `StripPathAndLower`: everything after the last separator. -/
def stripPath (s : Str) : Str := (s.reverse.takeWhile (fun c => !isSep c)).reverse

/-- `std::tolower` in the C locale on ASCII. -/
def lower (s : Str) : Str := s.map Char.toLower

/-- `FilePath(name)`. -/
def fp1 (name : Str) : Str := reduce name

/-- `FilePath(dir ? dir : "", name)`. -/
def fp2 (dir : Option Str) (name : Str) : Str := reduce (combine (dir.getD []) name)

/-- key used by `mj_addFileVFS` / `mj_containsFileVFS`: `FilePath(dir, file).StripPath().Lower()`. -/
def fileKey (dir : Option Str) (file : Str) : Str := lower (stripPath (fp2 dir file))

/-- second key tried by `mj_deleteFileVFS`: `mj_unmountVFS(vfs, path.StripPath().Lower().c_str())`, which
    applies `FilePath(...)` once more. -/
def delKey2 (name : Str) : Str := fp1 (lower (stripPath (fp1 name)))

/-! ## the mount table -/

abbrev Tbl := List (Str × Bytes)

def Tbl.get (t : Tbl) (k : Str) : Option Bytes := List.lookup k t
def Tbl.has (t : Tbl) (k : Str) : Bool := (t.get k).isSome
def Tbl.insert (t : Tbl) (k : Str) (b : Bytes) : Tbl := t ++ [(k, b)]
def Tbl.erase (t : Tbl) (k : Str) : Tbl := t.filter (fun e => e.1 != k)

/-- `VFS::Mount` for a `BufferProvider`: `kRepeatedName = 2`, `kSuccess = 0`. -/
def mount (t : Tbl) (k : Str) (b : Bytes) : Int × Tbl :=
  if t.has k then (2, t) else (0, t.insert k b)

/-- `VFS::Unmount`: `kSuccess = 0`, `kInvalidResourceProvider = -1`. -/
def unmount (t : Tbl) (k : Str) : Int × Tbl :=
  if t.has k then (0, t.erase k) else (-1, t)

/-! ## environment -/

inductive DiskEntry
  | absent            -- `stat` fails, `fopen` fails
  | file (b : Bytes)  -- regular file
  | dir               -- directory: behaviour of `FileToMemory` is file-system dependent, not modelled
  deriving DecidableEq, Repr

structure Env where
  disk : List (Str × DiskEntry) := []
  /-- `true`: `mj_containsBufferVFS` normalises its argument (tree after the fix). -/
  normContains : Bool := true
  /-- `true`: `VFS::FindMount` looks up the full path before the prefix loop (tree after the fix). -/
  exactFirst : Bool := true

/-- both fixes applied, given disk. -/
def Env.fixed (disk : List (Str × DiskEntry)) : Env := { disk := disk, normContains := true, exactFirst := true }
/-- the tree as found (both defects present). -/
def Env.asFound (disk : List (Str × DiskEntry)) : Env := { disk := disk, normContains := false, exactFirst := false }

/-- `FileToMemory(path)`; `none` = not modelled. -/
def Env.readFile (e : Env) (p : Str) : Option Bytes :=
  match e.disk.lookup p with
  | some .absent => some []
  | some (.file b) => some b
  | some .dir => none
  | none => none

/-! ## operations -/

inductive Op
  | reset                                           -- mj_deleteVFS; mj_defaultVFS
  | addBuf (name : Str) (b : Bytes)                 -- mj_addBufferVFS
  | addFile (dir : Option Str) (file : Str)         -- mj_addFileVFS
  | del (name : Option Str)                         -- mj_deleteFileVFS
  | has (name : Option Str)                         -- mj_containsBufferVFS
  | hasFile (dir : Option Str) (file : Option Str)  -- mj_containsFileVFS
  | openRead (dir : Option Str) (name : Str)        -- mju_openResource; mju_readResource; mju_closeResource
  deriving DecidableEq, Repr

inductive Out
  | ok
  | code (c : Int)
  | openFail
  /-- the read returned one of these byte strings (more than one only for the hash-order dependent
      legacy match) -/
  | opened (cands : List Bytes)
  | unmodelled
  deriving DecidableEq, Repr

/-- every `str.substr(0, n)` with `str[n]` a separator, in increasing `n`. -/
def sepPrefixesGo : Str → Str → List Str
  | _, [] => []
  | acc, c :: cs =>
    if isSep c then acc.reverse :: sepPrefixesGo (c :: acc) cs else sepPrefixesGo (c :: acc) cs

/-- the strings looked up by the `while (!str.empty())` loop of `FindMount`, in order
    (tree as found: nothing at all is looked up for the empty path). -/
def prefixCandsLoop (p : Str) : List Str :=
  if p == [] then [] else p :: ((sepPrefixesGo [] p).reverse.filter (fun s => s != []))

/-- the same with an exact look-up of the full path first (for a non-empty path the loop looks it up
    again, which changes nothing). -/
def prefixCandsExact (p : Str) : List Str :=
  p :: ((sepPrefixesGo [] p).reverse.filter (fun s => s != []))

/-- >>> variant switch 2 of the model <<< -/
def prefixCands (e : Env) (p : Str) : List Str :=
  if e.exactFirst then prefixCandsExact p else prefixCandsLoop p

inductive MountRes
  | buf (k : Str) (b : Bytes)         -- exact or directory-prefix hit
  | legacy (cands : List (Str × Bytes)) -- case-insensitive basename match; non-empty
  | dflt                              -- `default_mount_`: the OS file system
  deriving DecidableEq, Repr

/-- `VFS::FindMount` (no registered providers). -/
def findMount (e : Env) (t : Tbl) (p : Str) : MountRes :=
  match (prefixCands e p).findSome? (fun k => (t.get k).map (fun b => (k, b))) with
  | some (k, b) => .buf k b
  | none =>
    match t.filter (fun e => lower (stripPath e.1) == lower (stripPath p)) with
    | [] => .dflt
    | cs => .legacy cs

/-- `mju_openResource(dir, name, vfs)` + `mju_readResource` + `mju_closeResource`. -/
def openRead (e : Env) (t : Tbl) (dir : Option Str) (name : Str) : Out :=
  let p := fp2 dir name
  match findMount e t p with
  | .buf _ b => .opened [b]
  | .legacy cs => .opened (cs.map (·.2))
  | .dflt =>
    match e.disk.lookup p with
    | some .absent => .openFail
    | some (.file b) => .opened [b]
    | some .dir => .unmodelled
    | none => .unmodelled

/-- `VFS::ContainsBuffer` of the tree before the fix: the raw name is the key. -/
def containsRaw (t : Tbl) (name : Option Str) : Bool :=
  match name with
  | none => false
  | some n => t.has n

/-- `VFS::ContainsBuffer` normalising its argument like `Mount`/`Unmount`/`Open` do. -/
def containsNorm (t : Tbl) (name : Option Str) : Bool :=
  match name with
  | none => false
  | some n => t.has (fp1 n)

/-- >>> variant switch 1 of the model <<< -/
def containsBuffer (e : Env) (t : Tbl) (name : Option Str) : Bool :=
  if e.normContains then containsNorm t name else containsRaw t name

/-- `VFS::ContainsFile`. -/
def containsFile (t : Tbl) (dir : Option Str) (file : Option Str) : Bool :=
  match file with
  | none => false
  | some f => t.has (fileKey dir f)

/-- `mj_deleteFileVFS`. -/
def deleteFile (t : Tbl) (name : Option Str) : Int × Tbl :=
  match name with
  | none => (-1, t)
  | some n =>
    let r := unmount t (fp1 n)
    if r.1 != 0 then unmount t (delKey2 n) else (0, r.2)

def b2i (b : Bool) : Int := if b then 1 else 0

/-- one API call: result and new table. -/
def step (e : Env) (t : Tbl) : Op → Out × Tbl
  | .reset => (.ok, [])
  | .addBuf n b => let r := mount t (fp1 n) b; (.code r.1, r.2)
  | .addFile d f =>
    match e.readFile (fp2 d f) with
    | some b => let r := mount t (fileKey d f) b; (.code r.1, r.2)
    | none => (.unmodelled, t)
  | .del n => let r := deleteFile t n; (.code r.1, r.2)
  | .has n => (.code (b2i (containsBuffer e t n)), t)
  | .hasFile d f => (.code (b2i (containsFile t d f)), t)
  | .openRead d n => (openRead e t d n, t)

/-- run a whole history; outputs in order and the final table. -/
def run (e : Env) : Tbl → List Op → List Out × Tbl
  | t, [] => ([], t)
  | t, op :: ops =>
    let r := step e t op
    let rest := run e r.2 ops
    (r.1 :: rest.1, rest.2)

end MjProof.Vfs
