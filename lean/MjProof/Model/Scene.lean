import MjProof.Num
/-
C50 — executable model of the abstract-scene geom buffer of `src/engine/engine_vis_visualize.c`.

Part 1 (capacity logic): `acquireGeom` / fill / `releaseGeom` as they are used by *every* pass of
`mjv_addGeoms`: the test `scn->ngeom >= scn->maxgeom` before each acquisition, the sticky `scn->status`
flag (set once, with one `mju_warning`, never cleared by `mjv_updateScene`), the write of the acquired slot
`scn->geoms + scn->ngeom`, and the increment of `ngeom` on release.  The geom buffer is modelled as
unbounded memory `Nat → Option G` indexed from `scn->geoms`; the allocation made by `mjv_makeScene` covers
indices `< maxgeom` (`maxgeom ≤ 0` leaves `maxgeom = 0` and no buffer), so "no write beyond capacity" is a
theorem about this memory, not a typing artefact.

Part 2 (geom pass): `addGeomGeoms` as reached from `mjv_updateScene` when only geom visualization is
enabled: `scn->ngeom = 0`; `catmask &= ~mjCAT_STATIC` unless `mjVIS_STATIC`; per model geom: plane counter,
category mask, group filter `vopt->geomgroup[max(0, min(mjNGROUP-1, geom_group))]`, `acquireGeom` (return
from the pass when full), `mjv_initGeom` (type-dependent size, pose converted to float), `setMaterial` on the
`matid < 0` path with the `mjVIS_TRANSPARENT` alpha scaling of dynamic geoms, `continue` (slot not released)
when alpha is 0, mesh `dataid *= 2`, plane `dataid = planeid` and the re-centring of infinite planes on the
scene's *previous* camera, `releaseGeom`.
Not modelled (the check keeps them switched off and verifies that on every call): materials (`matid ≥ 0`),
`mjVIS_ISLAND` colouring, `mjVIS_TEXTURE`, `mjVIS_CONVEXHULL`, selection glow, labels; all other passes.
-/
namespace MjProof.Scene

/-! ### constants of the headers (compared with include/mujoco by the check through the driver's `consts` op) -/
def GEOM_PLANE : Int := 0
def GEOM_SPHERE : Int := 2
def GEOM_CAPSULE : Int := 3
def GEOM_CYLINDER : Int := 5
def GEOM_MESH : Int := 7
def GEOM_SDF : Int := 8
def OBJ_GEOM : Int := 5
def CAT_STATIC : Nat := 1
def CAT_DYNAMIC : Nat := 2
def NGROUP : Nat := 6
def MAXPLANEGRID : Int := 200

/-! ### Part 1: capacity logic -/

/-- the part of `mjvScene` the geom passes touch; `mem i` is `scn->geoms[i]` (`none` = never written) -/
structure Scn (G : Type) where
  maxgeom : Nat
  ngeom : Nat
  /-- `scn->status` (0 / 1) -/
  status : Bool
  /-- number of `mju_warning` calls issued so far -/
  nwarn : Nat
  mem : Nat → Option G

def write {G : Type} (mem : Nat → Option G) (i : Nat) (g : G) : Nat → Option G :=
  fun j => if j = i then some g else mem j

/-- the overflow branch of `acquireGeom`: warn once, set the sticky status -/
def overflow {G : Type} (s : Scn G) : Scn G :=
  if s.status then s else { s with status := true, nwarn := s.nwarn + 1 }

/-- One add attempt: `acquireGeom` (NULL when `ngeom >= maxgeom`), the caller's writes into the acquired
slot (`mk segid` is the finished geom; `segid = scn->ngeom` at acquisition), and `releaseGeom` when `keep`
(callers `continue` without releasing when the geom turns out to be invisible).  Returns the new scene and
whether a slot was obtained. -/
def attempt {G : Type} (s : Scn G) (mk : Nat → G) (keep : Bool) : Scn G × Bool :=
  if s.maxgeom ≤ s.ngeom then (overflow s, false)
  else
    let s1 := { s with mem := write s.mem s.ngeom (mk s.ngeom) }
    (if keep then { s1 with ngeom := s1.ngeom + 1 } else s1, true)

/-- an add attempt of an arbitrary pass; `skipOnFull` = how many of the following attempts are abandoned when
the buffer is full (`return` from a pass = the rest of that pass; 0 = carry on) -/
structure Attempt (G : Type) where
  build : Nat → G
  keep : Bool
  skipOnFull : Nat

/-- any sequence of add attempts; the Boolean says whether some acquisition failed -/
def run {G : Type} : List (Attempt G) → Scn G → Scn G × Bool
  | [], s => (s, false)
  | a :: as, s =>
    match attempt s a.build a.keep with
    | (s', true) => run as s'
    | (s', false) => ((run (as.drop a.skipOnFull) s').1, true)
termination_by l => l.length
decreasing_by
  all_goals simp only [List.length_cons, List.length_drop]
  all_goals omega

/-- the geoms the renderer will read: slots `0 .. ngeom-1` -/
def sceneGeoms {G : Type} (s : Scn G) : List (Option G) := (List.range s.ngeom).map s.mem

/-! ### Part 2: the geom pass -/

/-- float conversions and float32 arithmetic used by the pass (`α` = mjtNum, `β` = float) -/
structure Conv (α β : Type) where
  /-- `(float) x` -/
  n2f : α → β
  /-- float → mjtNum promotion -/
  f2n : β → α
  /-- `(mjtNum) mju_round(x)` (round half away from zero, saturating at INT_MIN / INT_MAX) -/
  round : α → α
  fadd : β → β → β
  fmul : β → β → β
  /-- `x == 0` on floats -/
  fzero : β → Bool

/-- what `addGeomGeoms` reads about model geom `i` -/
structure GeomIn (α β : Type) where
  type : Int
  group : Int
  /-- `m->body_weldid[m->geom_bodyid[i]] == 0` -/
  isStatic : Bool
  dataid : Int
  size : Vector α 3
  xpos : Vector α 3
  xmat : Vector α 9
  rgba : Vector β 4

/-- scene-level inputs: `m->vis.map.alpha`, `m->vis.map.zfar`, `m->stat.extent`, and the positions of the
two scene cameras *before* the call (`mjv_updateCamera` runs after `mjv_addGeoms`) -/
structure Env (α β : Type) where
  alpha : β
  zfar : β
  extent : α
  cam0 : Vector β 3
  cam1 : Vector β 3

structure Opt where
  /-- `catmask` argument of `mjv_updateScene` -/
  catmask : Nat
  visStatic : Bool
  visTransparent : Bool
  geomgroup : Vector Bool 6

structure VGeom (β : Type) where
  objid : Int
  objtype : Int
  category : Int
  segid : Int
  type : Int
  dataid : Int
  size : Vector β 3
  pos : Vector β 3
  mat : Vector β 9
  rgba : Vector β 4

/-- `bodycategory` -/
def category {α β : Type} (g : GeomIn α β) : Nat := if g.isStatic then CAT_STATIC else CAT_DYNAMIC

/-- `catmask &= ~mjCAT_STATIC` unless `mjVIS_STATIC` -/
def effMask (o : Opt) : Nat := if o.visStatic then o.catmask else o.catmask - (o.catmask &&& CAT_STATIC)

def catOn {α β : Type} (o : Opt) (g : GeomIn α β) : Bool := (category g &&& effMask o) != 0

/-- `mjMAX(0, mjMIN(mjNGROUP-1, group))` -/
def clampGroup (g : Int) : Fin 6 := ⟨(max 0 (min 5 g)).toNat, by omega⟩

def groupOn {α β : Type} (o : Opt) (g : GeomIn α β) : Bool := o.geomgroup[clampGroup g.group]

/-- the geom reaches `acquireGeom` -/
def acquires {α β : Type} (o : Opt) (g : GeomIn α β) : Bool := catOn o g && groupOn o g

/-- rgba after `setMaterial` (no material): geom rgba, alpha scaled for dynamic geoms under mjVIS_TRANSPARENT -/
def rgbaOf {α β : Type} (cv : Conv α β) (o : Opt) (env : Env α β) (g : GeomIn α β) : Vector β 4 :=
  if o.visTransparent && !g.isStatic then
    #v[g.rgba[0], g.rgba[1], g.rgba[2], cv.fmul g.rgba[3] env.alpha]
  else g.rgba

/-- `thisgeom->rgba[3] == 0` → `continue` -/
def visibleAlpha {α β : Type} (cv : Conv α β) (o : Opt) (env : Env α β) (g : GeomIn α β) : Bool :=
  !cv.fzero (rgbaOf cv o env g)[3]

/-- `mjv_initGeom` size switch -/
def sizeOf {α β : Type} (cv : Conv α β) (g : GeomIn α β) : Vector β 3 :=
  if g.type = GEOM_SPHERE then #v[cv.n2f g.size[0], cv.n2f g.size[0], cv.n2f g.size[0]]
  else if g.type = GEOM_CAPSULE ∨ g.type = GEOM_CYLINDER then #v[cv.n2f g.size[0], cv.n2f g.size[0], cv.n2f g.size[1]]
  else g.size.map cv.n2f

section plane
variable {α β : Type} [MjNum α]

/-- the plane is infinite in x or y -/
def infinitePlane (g : GeomIn α β) : Bool :=
  g.type == GEOM_PLANE && (decide (g.size[0] ≤ MjNum.ofInt 0) || decide (g.size[1] ≤ MjNum.ofInt 0))

/-- one axis (`k = 0, 1`) of the re-centring loop: `tmp += ax_k * 2*sX*round(0.5*dot(vec, ax_k)/sX)` when
`size[k] <= 0`; `ax_k[j] = xmat[3*j+k]` (row k of the transpose) -/
def recentreAxis (cv : Conv α β) (env : Env α β) (g : GeomIn α β) (vec : Vector α 3) (k : Fin 2)
    (tmp : Vector α 3) : Vector α 3 :=
  if g.size[k.val]'(by omega) ≤ MjNum.ofInt 0 then
    let zfar : α := cv.f2n env.zfar * env.extent
    let sX : α := (MjNum.ofSci 21 true 1 * zfar) / MjNum.ofInt (MAXPLANEGRID - 2)
    let a0 := g.xmat[k.val]'(by omega)
    let a1 := g.xmat[3 + k.val]'(by omega)
    let a2 := g.xmat[6 + k.val]'(by omega)
    let dX : α := vec[0] * a0 + vec[1] * a1 + vec[2] * a2
    let dX : α := (MjNum.ofInt 2 * sX) * cv.round ((MjNum.ofSci 5 true 1 * dX) / sX)
    #v[tmp[0] + a0 * dX, tmp[1] + a1 * dX, tmp[2] + a2 * dX]
  else tmp

/-- position of a plane geom: `geom_xpos`, translated in the plane towards the point below the mid-point of
the two scene cameras when the plane is infinite -/
def planePos (cv : Conv α β) (env : Env α β) (g : GeomIn α β) : Vector β 3 :=
  if infinitePlane g then
    let head (j : Fin 3) : α := MjNum.ofSci 5 true 1 * cv.f2n (cv.fadd env.cam0[j] env.cam1[j])
    let vec : Vector α 3 := #v[head 0 - g.xpos[0], head 1 - g.xpos[1], head 2 - g.xpos[2]]
    let tmp := recentreAxis cv env g vec 0 g.xpos
    let tmp := recentreAxis cv env g vec 1 tmp
    tmp.map cv.n2f
  else g.xpos.map cv.n2f

/-- the finished `mjvGeom` of model geom `i` (plane counter `pid`) acquired as segment `segid` -/
def mkGeom (cv : Conv α β) (o : Opt) (env : Env α β) (i : Nat) (pid : Int) (g : GeomIn α β) (segid : Nat) : VGeom β :=
  { objid := i
    objtype := OBJ_GEOM
    category := category g
    segid := segid
    type := g.type
    dataid := if g.type = GEOM_MESH ∨ g.type = GEOM_SDF then g.dataid * 2
              else if g.type = GEOM_PLANE then pid else g.dataid
    size := sizeOf cv g
    pos := if g.type = GEOM_PLANE then planePos cv env g else g.xpos.map cv.n2f
    mat := g.xmat.map cv.n2f
    rgba := rgbaOf cv o env g }

/-- plane counter after looking at geom `g` -/
def nextPid (pid : Int) (g : GeomIn α β) : Int := if g.type = GEOM_PLANE then pid + 1 else pid

/-- the loop of `addGeomGeoms` from geom index `i` with plane counter `pid` -/
def geomPass (cv : Conv α β) (o : Opt) (env : Env α β) :
    Nat → Int → List (GeomIn α β) → Scn (VGeom β) → Scn (VGeom β)
  | _, _, [], s => s
  | i, pid, g :: gs, s =>
    let pid' := nextPid pid g
    if acquires o g then
      match attempt s (mkGeom cv o env i pid' g) (visibleAlpha cv o env g) with
      | (s', true) => geomPass cv o env (i + 1) pid' gs s'
      | (s', false) => s'
    else geomPass cv o env (i + 1) pid' gs s

/-- `mjv_updateScene` with only geom visualization enabled: clear, then the geom pass -/
def updateScene (cv : Conv α β) (o : Opt) (env : Env α β) (geoms : List (GeomIn α β)) (s : Scn (VGeom β)) :
    Scn (VGeom β) :=
  geomPass cv o env 0 (-1) geoms { s with ngeom := 0 }

/-! specification-side vocabulary -/

/-- model geoms annotated with their index and plane counter -/
def annotate : Nat → Int → List (GeomIn α β) → List (Nat × Int × GeomIn α β)
  | _, _, [] => []
  | i, pid, g :: gs => (i, nextPid pid g, g) :: annotate (i + 1) (nextPid pid g) gs

/-- the geoms that reach `acquireGeom` (category and group enabled) -/
def acquiring (o : Opt) (l : List (Nat × Int × GeomIn α β)) : List (Nat × Int × GeomIn α β) :=
  l.filter (fun t => acquires o t.2.2)

/-- the geoms that are shown when capacity allows: enabled category, enabled group, non-zero alpha -/
def shown (cv : Conv α β) (o : Opt) (env : Env α β) (l : List (Nat × Int × GeomIn α β)) :
    List (Nat × Int × GeomIn α β) :=
  l.filter (fun t => acquires o t.2.2 && visibleAlpha cv o env t.2.2)

/-- scene geoms built from a list of shown geoms, the first one getting segment id `k` -/
def built (cv : Conv α β) (o : Opt) (env : Env α β) : Nat → List (Nat × Int × GeomIn α β) → List (Option (VGeom β))
  | _, [] => []
  | k, t :: ts => some (mkGeom cv o env t.1 t.2.1 t.2.2 k) :: built cv o env (k + 1) ts

end plane

end MjProof.Scene
