import MjProof.Num
/-
Executable model of the support mappings of the convex narrow phase and of the certificate checkers that the
C15 oracle evaluates on the outputs of the real GJK/EPA (C15):

  src/engine/engine_collision_convex.c : mulMatTVec3, localToGlobal, mjc_pointSupport, mjc_sphereSupport,
                                         mjc_lineSupport, mjc_capsuleSupport, mjc_ellipsoidSupport,
                                         mjc_cylinderSupport, mjc_boxSupport (incl. `vertindex`),
                                         mjc_meshSupport (exhaustive search), and the dispatch of mjc_initCCDObj
  src/engine/engine_collision_gjk.c    : the margin-free part of `support` (S_A(dir) - S_B(-dir))

The GJK / EPA iterations themselves are NOT modelled: their outputs (witness points, distance) are checked per
call by `sepCert` / `penCert` below, whose soundness over ℝ is Props/C15.lean.

Generic over `MjNum α`: runs on `Float` (bitwise correspondence with the compiled support functions, and the
certificate evaluation of the oracle) and is reasoned about on `ℝ`.  Every arithmetic expression is written with
the association the C compiler uses (left-to-right, no contraction: the tree is built with -ffp-contract=off).
Core Lean only.
-/
namespace MjProof.Support
open MjProof

variable {α : Type} [MjNum α]

/-! ### literals -/
def zero : α := MjNum.ofInt 0
def one : α := MjNum.ofInt 1
/-- `mjMINVAL = 1E-15` -/
def minval : α := MjNum.ofSci 1 true 15
/-- `mjMINVAL2 = mjMINVAL * mjMINVAL` -/
def minval2 : α := (minval : α) * minval
/-- `FLT_MAX = 2^128 - 2^104` (exactly representable) -/
def fltMax : α := MjNum.ofInt 340282346638528859811704183484516925440

/-! ### 3-vectors and row-major 3×3 matrices (`geom_xmat`) -/
structure V3 (α : Type) where
  x : α
  y : α
  z : α
  deriving Repr, Inhabited

/-- row-major: `mI = mat[I]` -/
structure M3 (α : Type) where
  m0 : α
  m1 : α
  m2 : α
  m3 : α
  m4 : α
  m5 : α
  m6 : α
  m7 : α
  m8 : α
  deriving Repr, Inhabited

namespace V3
def add (a b : V3 α) : V3 α := ⟨a.x + b.x, a.y + b.y, a.z + b.z⟩
def sub (a b : V3 α) : V3 α := ⟨a.x - b.x, a.y - b.y, a.z - b.z⟩
def neg (a : V3 α) : V3 α := ⟨-a.x, -a.y, -a.z⟩
/-- `s * v` -/
def scale (s : α) (a : V3 α) : V3 α := ⟨s * a.x, s * a.y, s * a.z⟩
/-- `v / s` -/
def divs (a : V3 α) (s : α) : V3 α := ⟨a.x / s, a.y / s, a.z / s⟩
def dot (a b : V3 α) : α := a.x * b.x + a.y * b.y + a.z * b.z
def norm (a : V3 α) : α := MjNum.sqrt (dot a a)
end V3

/-- `mulMatTVec3(res, mat, dir)`: global → local (`matᵀ · dir`) -/
def mulMatTVec3 (m : M3 α) (d : V3 α) : V3 α :=
  ⟨m.m0 * d.x + m.m3 * d.y + m.m6 * d.z,
   m.m1 * d.x + m.m4 * d.y + m.m7 * d.z,
   m.m2 * d.x + m.m5 * d.y + m.m8 * d.z⟩

/-- `localToGlobal(res, mat, dir, pos)`: `mat · dir + pos` -/
def localToGlobal (m : M3 α) (d p : V3 α) : V3 α :=
  ⟨m.m0 * d.x + m.m1 * d.y + m.m2 * d.z + p.x,
   m.m3 * d.x + m.m4 * d.y + m.m5 * d.z + p.y,
   m.m6 * d.x + m.m7 * d.y + m.m8 * d.z + p.z⟩

/-- `c >= 0 ? a : -a` -/
def signed (c a : α) : α := if (zero : α) ≤ c then a else -a

/-! ### geoms -/
/-- the shapes whose support function `mjc_initCCDObj` installs (`point` / `line`: the shrunken supports that
    `mjc_ccd` installs for spheres / capsules before inflating the result) -/
inductive Kind where
  | sphere | capsule | ellipsoid | cylinder | box | point | line
  deriving Repr, DecidableEq, Inhabited

/-- what the support functions read of an `mjCCDObj`: `size` (`geom_size`), `pos` (`geom_xpos`), `mat` (`geom_xmat`) -/
structure Geom (α : Type) where
  kind : Kind
  size : V3 α
  pos : V3 α
  mat : M3 α
  deriving Repr, Inhabited

/-! ### support functions (local part) -/

/-- local support point of `mjc_capsuleSupport` (`radius = size[0]`, `length = size[1]`) -/
def capsuleLocal (size ld : V3 α) : V3 α :=
  ⟨ld.x * size.x, ld.y * size.x, ld.z * size.x + signed ld.z size.y⟩

/-- `local_supp` of `mjc_ellipsoidSupport` before normalisation, and its squared norm -/
def ellipsoidScaled (size ld : V3 α) : V3 α := ⟨ld.x * size.x, ld.y * size.y, ld.z * size.z⟩
def ellipsoidNorm2 (size ld : V3 α) : α :=
  let t := ellipsoidScaled size ld
  t.x * t.x + t.y * t.y + t.z * t.z
/-- local support point of `mjc_ellipsoidSupport` on the normal branch -/
def ellipsoidLocal (size ld : V3 α) : V3 α :=
  let t := ellipsoidScaled size ld
  let normInv := (one : α) / MjNum.sqrt (ellipsoidNorm2 size ld)
  ⟨t.x * (normInv * size.x), t.y * (normInv * size.y), t.z * (normInv * size.z)⟩

/-- local support point of `mjc_cylinderSupport` (`radius = size[0]`, half height `size[1]`) -/
def cylinderLocal (size ld : V3 α) : V3 α :=
  let n2 := ld.x * ld.x + ld.y * ld.y
  let scl := if (minval2 : α) ≤ n2 then size.x / MjNum.sqrt n2 else zero
  ⟨scl * ld.x, scl * ld.y, signed ld.z size.y⟩

/-- local support point of `mjc_boxSupport` -/
def boxLocal (size ld : V3 α) : V3 α := ⟨signed ld.x size.x, signed ld.y size.y, signed ld.z size.z⟩

/-- `obj->vertindex` after `mjc_boxSupport` -/
def boxVertIndex (s : V3 α) : Nat :=
  (if (zero : α) < s.x then 1 else 0) + (if (zero : α) < s.y then 2 else 0) + (if (zero : α) < s.z then 4 else 0)

/-! ### support functions (as called through `obj->support(res, obj, dir)`) -/

/-- `mjc_sphereSupport` -/
def sphereSupport (g : Geom α) (d : V3 α) : V3 α :=
  ⟨g.size.x * d.x + g.pos.x, g.size.x * d.y + g.pos.y, g.size.x * d.z + g.pos.z⟩

/-- `mjc_lineSupport` -/
def lineSupport (g : Geom α) (d : V3 α) : V3 α :=
  let dt := g.mat.m2 * d.x + g.mat.m5 * d.y + g.mat.m8 * d.z
  let scl := signed dt g.size.y
  ⟨g.mat.m2 * scl + g.pos.x, g.mat.m5 * scl + g.pos.y, g.mat.m8 * scl + g.pos.z⟩

/-- `mjc_capsuleSupport` -/
def capsuleSupport (g : Geom α) (d : V3 α) : V3 α :=
  localToGlobal g.mat (capsuleLocal g.size (mulMatTVec3 g.mat d)) g.pos

/-- `mjc_ellipsoidSupport` -/
def ellipsoidSupport (g : Geom α) (d : V3 α) : V3 α :=
  let ld := mulMatTVec3 g.mat d
  if ellipsoidNorm2 g.size ld < (minval2 : α) then
    ⟨g.mat.m0 * g.size.x + g.pos.x, g.mat.m3 * g.size.x + g.pos.y, g.mat.m6 * g.size.x + g.pos.z⟩
  else localToGlobal g.mat (ellipsoidLocal g.size ld) g.pos

/-- `mjc_cylinderSupport` -/
def cylinderSupport (g : Geom α) (d : V3 α) : V3 α :=
  localToGlobal g.mat (cylinderLocal g.size (mulMatTVec3 g.mat d)) g.pos

/-- `mjc_boxSupport` -/
def boxSupport (g : Geom α) (d : V3 α) : V3 α :=
  localToGlobal g.mat (boxLocal g.size (mulMatTVec3 g.mat d)) g.pos

/-- the support function installed for the geom (`mjc_initCCDObj`; `point`/`line`: `mjc_ccd`) -/
def support (g : Geom α) (d : V3 α) : V3 α :=
  match g.kind with
  | .sphere => sphereSupport g d
  | .capsule => capsuleSupport g d
  | .ellipsoid => ellipsoidSupport g d
  | .cylinder => cylinderSupport g d
  | .box => boxSupport g d
  | .point => g.pos
  | .line => lineSupport g d

/-- `obj->vertindex` after the call (`-1`: not touched, the value `mjc_initCCDObj` stored) -/
def supportVertIndex (g : Geom α) (d : V3 α) : Int :=
  match g.kind with
  | .box => (boxVertIndex (boxLocal g.size (mulMatTVec3 g.mat d)) : Nat)
  | _ => -1

/-! ### mjc_meshSupport (exhaustive search) -/

/-- the scan `for i < nverts: if (vdot > max) {max = vdot; imax = i;}` from index `i` with running `(max, imax)` -/
def meshScan (ld : V3 α) : List (V3 α) → Nat → α × Nat → α × Nat
  | [], _, acc => acc
  | v :: vs, i, acc =>
    let vd := V3.dot ld v
    meshScan ld vs (i + 1) (if acc.1 < vd then (vd, i) else acc)

/-- `mjc_meshSupport`: `cached = obj->vertindex` on entry (`none`: `-1`).  Returns the support point and the
    new `vertindex`; `none` when `cached` is not a vertex index or the mesh is empty (the C code would read out
    of bounds). -/
def meshSupport (verts : List (V3 α)) (mat : M3 α) (pos : V3 α) (cached : Option Nat) (d : V3 α) :
    Option (V3 α × Nat) :=
  let ld := mulMatTVec3 mat d
  let init : Option (α × Nat) :=
    match cached with
    | none => some (-(fltMax : α), 0)
    | some c => (verts[c]?).map (fun v => (V3.dot ld v, c))
  init.bind fun ini =>
    let r := meshScan ld verts 0 ini
    (verts[r.2]?).map fun v => (localToGlobal mat v pos, r.2)

/-! ### membership predicates of the primitive shapes -/

/-- geom frame coordinates of a global point: `matᵀ (x − pos)` -/
def toLocal (g : Geom α) (x : V3 α) : V3 α := mulMatTVec3 g.mat (V3.sub x g.pos)

/-- `clamp(z, −l, l)` -/
def clampSym (z l : α) : α := if l < z then l else if z < -l then -l else z

/-- membership of a point given in the geom frame -/
def memLocal (kind : Kind) (size : V3 α) (p : V3 α) : Bool :=
  match kind with
  | .sphere => decide (V3.dot p p ≤ size.x * size.x)
  | .capsule =>
    let w := p.z - clampSym p.z size.y
    decide (p.x * p.x + p.y * p.y + w * w ≤ size.x * size.x)
  | .ellipsoid =>
    let u : V3 α := ⟨p.x / size.x, p.y / size.y, p.z / size.z⟩
    decide (V3.dot u u ≤ one)
  | .cylinder => decide (p.x * p.x + p.y * p.y ≤ size.x * size.x) && decide (-size.y ≤ p.z) && decide (p.z ≤ size.y)
  | .box => decide (-size.x ≤ p.x) && decide (p.x ≤ size.x) && decide (-size.y ≤ p.y) && decide (p.y ≤ size.y)
            && decide (-size.z ≤ p.z) && decide (p.z ≤ size.z)
  | .point => decide (V3.dot p p ≤ zero)
  | .line => decide (p.x * p.x + p.y * p.y ≤ zero) && decide (-size.y ≤ p.z) && decide (p.z ≤ size.y)

/-- `x ∈ g` -/
def mem (g : Geom α) (x : V3 α) : Bool := memLocal g.kind g.size (toLocal g x)

/-- the geom scaled by `k` about its centre -/
def scaled (g : Geom α) (k : α) : Geom α := { g with size := V3.scale k g.size }

/-! ### certificate checkers (evaluated on the outputs of the real mjc_ccd / mj_geomDistance / mjc_Convex) -/

/-- `h_A(n) + h_B(−n)` evaluated through the support points (`n = w/‖w‖`): the width of the overlap of
    `A` and `B` along `n` (negative: `n` separates) -/
def overlapAlong (A B : Geom α) (w : V3 α) : α :=
  let n := V3.divs w (V3.norm w)
  V3.dot n (V3.sub (support A n) (support B (V3.neg n)))

/-- numbers produced by a certificate evaluation -/
structure Cert (α : Type) where
  /-- witness point 1 lies in `A` scaled by `k` about its centre -/
  memA : Bool
  /-- witness point 2 lies in `B` scaled by `k` about its centre -/
  memB : Bool
  /-- `‖x2 − x1‖` -/
  len : α
  /-- slack added for the `k`-scaling: `(k − 1) (‖x1 − posA‖ + ‖x2 − posB‖)` -/
  slack : α
  /-- separated: certified lower bound of the distance; penetrating: certified upper bound of the depth -/
  bound : α

/-- separation certificate of witness points `x1 ∈ A`, `x2 ∈ B` and a separating direction `w` (normally `x2 − x1`):
    `bound = −h_A(n) − h_B(−n)` with `n = w/‖w‖` -/
def sepCert (A B : Geom α) (x1 x2 w : V3 α) (k : α) : Cert α :=
  { memA := mem (scaled A k) x1
    memB := mem (scaled B k) x2
    len := V3.norm (V3.sub x2 x1)
    slack := (k - one) * (V3.norm (V3.sub x1 A.pos) + V3.norm (V3.sub x2 B.pos))
    bound := -(overlapAlong A B w) }

/-- the separated-case acceptance test: witness points in the (scaled) shapes, non-zero direction, certified gap
    `len + slack − bound ≤ tol` and reported distance equal to the witness length within `tol` -/
def sepOK (A B : Geom α) (x1 x2 w : V3 α) (dist k tol : α) : Bool :=
  let c := sepCert A B x1 x2 w k
  c.memA && c.memB && decide ((zero : α) < V3.norm w) && decide (c.len + c.slack - c.bound ≤ tol)
    && decide (MjNum.abs (dist - c.len) ≤ tol)

/-- lower-bound test alone (no witness points): the direction `w` separates the geoms by at least `lo` -/
def sepLowerOK (A B : Geom α) (w : V3 α) (lo : α) : Bool :=
  decide ((zero : α) < V3.norm w) && decide (lo ≤ -(overlapAlong A B w))

/-- penetration certificate of witness points `x1 ∈ A`, `x2 ∈ B` and a direction `w` (normally `x1 − x2`):
    `bound = h_A(n) + h_B(−n)` with `n = w/‖w‖` -/
def penCert (A B : Geom α) (x1 x2 w : V3 α) (k : α) : Cert α :=
  { memA := mem (scaled A k) x1
    memB := mem (scaled B k) x2
    len := V3.norm (V3.sub x2 x1)
    slack := (k - one) * (V3.norm (V3.sub x1 A.pos) + V3.norm (V3.sub x2 B.pos))
    bound := overlapAlong A B w }

/-- the penetrating-case acceptance test: `depth = −dist ≥ 0` equals the witness length within `tol` and the overlap
    along `w` exceeds it by at most `tol` -/
def penOK (A B : Geom α) (x1 x2 w : V3 α) (dist k tol : α) : Bool :=
  let c := penCert A B x1 x2 w k
  c.memA && c.memB && decide ((zero : α) < V3.norm w) && decide (c.bound + c.slack - c.len ≤ tol)
    && decide (MjNum.abs (-dist - c.len) ≤ tol)

/-- the depth test alone (no witness points): the overlap along `w` exceeds the reported depth `−dist` by at most `tol` -/
def penDepthOK (A B : Geom α) (w : V3 α) (dist tol : α) : Bool :=
  decide ((zero : α) < V3.norm w) && decide (overlapAlong A B w - (-dist) ≤ tol)

/-! ### inner-ball certificate (a ball contained in both shapes bounds the penetration depth from below) -/

/-- sufficient test for `ball(c, ρ) ⊂ shape`, centre `c` given in the geom frame -/
def ballInLocal (kind : Kind) (size : V3 α) (c : V3 α) (ρ : α) : Bool :=
  match kind with
  | .sphere => decide (V3.norm c + ρ ≤ size.x)
  | .capsule =>
    let w := c.z - clampSym c.z size.y
    decide (V3.norm (⟨c.x, c.y, w⟩ : V3 α) + ρ ≤ size.x)
  | .ellipsoid =>
    let u : V3 α := ⟨c.x / size.x, c.y / size.y, c.z / size.z⟩
    let smin := MjNum.min size.x (MjNum.min size.y size.z)
    decide ((zero : α) < smin) && decide (V3.norm u + ρ / smin ≤ one)
  | .cylinder => decide (V3.norm (⟨c.x, c.y, zero⟩ : V3 α) + ρ ≤ size.x) && decide (MjNum.abs c.z + ρ ≤ size.y)
  | .box => decide (MjNum.abs c.x + ρ ≤ size.x) && decide (MjNum.abs c.y + ρ ≤ size.y) && decide (MjNum.abs c.z + ρ ≤ size.z)
  | .point => false
  | .line => false

/-- `ball(c, ρ) ⊂ g` (sufficient test) -/
def ballIn (g : Geom α) (c : V3 α) (ρ : α) : Bool := ballInLocal g.kind g.size (toLocal g c) ρ

/-- the ball of radius `ρ ≥ 0` about `c` lies in both shapes -/
def innerBallOK (A B : Geom α) (c : V3 α) (ρ : α) : Bool :=
  decide ((zero : α) ≤ ρ) && ballIn A c ρ && ballIn B c ρ

end MjProof.Support
