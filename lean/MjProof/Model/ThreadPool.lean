/-
Model of `src/engine/engine_thread.cc` (class `ThreadPoolContext`: constructor, `~ThreadPoolContext`,
`Dispatch`, `Worker`; C API `mju_threadpool`, `mju_dispatch`, `mju_numThread`).  Core Lean only.

A transition system with one program counter per thread: the dispatching thread (thread id 0) and
the workers `1..N` of the live pool.  One transition per atomic operation of the source, in source
order; atomics are sequentially consistent (the release/acquire pairing this abstraction relies on is
the table `sites` below, compared with the source on every run by `translate/c03_orders.py`).

  constructor   for i in 0..nthread-1:  threads_[i] = std::thread(Worker, this, i+1)      `MPc.spawn`
  destructor    signal_.store(0); signal_.notify_all(); for each thread: join              `delStore/delNotify/delJoin`
  Dispatch      (plain writes of the batch fields, among them ntask_)                      at the `call`
                next_.store(0); ndone_.store(0);                                           `dNext dNdone`
                signal_.store(-signal_.load()); signal_.notify_all();                      `dSigLoad dSigStore dNotify`
                loop { t = next_.fetch_add(1); if (t >= ntask_) break; func_(0, t) }       `dFetch dExec`
                while (ndone_.load() < nthread) {}                                         `dSpin`
  Worker(id)    status = 1
                loop { signal_.wait(status);                                               `WPc.wait` (`sleep` while blocked)
                       status = signal_.load(); if (status == 0) return;                   `WPc.load`
                       loop { t = next_.fetch_add(1); if (t >= ntask_) break; func_(id,t) }  `WPc.fetch WPc.exec`
                       ndone_.fetch_add(1) }                                               `WPc.fin`
  mju_dispatch  no pool or ntask < 2: `for i < ntask: func(0, i)` on the caller            `MPc.serial`
  mju_threadpool(k)  pool of the same size: nothing; otherwise delete the pool, then create one if k >= 1

`atomic::wait(old)` is modelled with the C++20 semantics: the check `value != old` and going to sleep
are one atomic step; a sleeping waiter re-checks after a `notify_all` on the atomic (or spuriously,
action `Act.spurious`).

Ghost fields (not in the source): `reqN` (argument of the current / last `mju_dispatch`), `execCnt`,
`execBy` (how often, and by which thread id, the task function ran for a task id since that call).
-/
namespace MjProof.ThreadPool

/-- program counter of a worker thread -/
inductive WPc where
  | unborn            -- `std::thread` not yet constructed / already joined
  | wait              -- about to evaluate the check of `signal_.wait(status)`
  | sleep             -- blocked inside `signal_.wait(status)`
  | load              -- `wait` returned; about to do `status = signal_.load()`
  | fetch             -- about to do `next_.fetch_add(1)`
  | exec (t : Nat)    -- inside `func_(…, threadId, t)`
  | fin               -- about to do `ndone_.fetch_add(1)`
  | halted            -- returned from `Worker`
  deriving DecidableEq, Repr

structure Worker where
  pc : WPc
  status : Int        -- the local `status`

/-- calls of the public C API by the dispatching thread -/
inductive Api where
  | threadpool (k : Nat)     -- `mju_threadpool(d, k)`
  | dispatch (n : Nat)       -- `mju_dispatch(m, d, func, arg, n)`
  deriving DecidableEq, Repr

/-- program counter of the dispatching thread -/
inductive MPc where
  | idle                      -- between API calls
  | spawn (i : Nat)           -- constructor: about to construct `std::thread` number `i` (thread id `i`)
  | dNext                     -- about to do `next_.store(0)`
  | dNdone                    -- about to do `ndone_.store(0)`
  | dSigLoad                  -- about to do `signal_.load()`
  | dSigStore (v : Int)       -- about to do `signal_.store(v)`, `v = -` the value loaded
  | dNotify                   -- about to do `signal_.notify_all()`
  | dFetch                    -- about to do `next_.fetch_add(1)`
  | dExec (t : Nat)           -- inside `func_(…, 0, t)`
  | dSpin                     -- about to do `ndone_.load()`
  | serial (i : Nat)          -- serial path of `mju_dispatch`: inside `func(…, 0, i)`
  | delStore (k : Nat)        -- destructor (then create `k`): about to do `signal_.store(0)`
  | delNotify (k : Nat)       -- about to do `signal_.notify_all()`
  | delJoin (j k : Nat)       -- about to `join` thread `j`
  deriving DecidableEq, Repr

structure State where
  mpc : MPc
  alive : Bool           -- `d->threadpool != 0`
  N : Nat                -- `threads_.size()` of the pool object that exists (0 if none)
  signal : Int           -- `signal_`
  next : Nat             -- `next_`
  ndone : Nat            -- `ndone_`
  ntask : Nat            -- `ntask_` (plain field)
  w : Nat → Worker       -- workers by thread id (`1..N`; everything else is `unborn`)
  reqN : Nat             -- ghost
  execCnt : Nat → Nat    -- ghost
  execBy : Nat → Nat     -- ghost

def init : State :=
  { mpc := .idle, alive := false, N := 0, signal := 1, next := 0, ndone := 0, ntask := 0,
    w := fun _ => ⟨.unborn, 1⟩, reqN := 0, execCnt := fun _ => 0, execBy := fun _ => 0 }

/-- the atomics of `ThreadPoolContext`, in declaration order -/
inductive Obj where
  | next | ndone | signal
  deriving DecidableEq, Repr

/-- observable events of one step (what the instrumented real code prints) -/
inductive Ev where
  | call (c : Api)
  | ret (c : Api) (numThread : Nat)
  | spawn (i : Nat)
  | join (i : Nat)
  | store (tid : Nat) (o : Obj) (v : Int)
  | load (tid : Nat) (o : Obj) (v : Int)
  | fadd (tid : Nat) (o : Obj) (old : Nat)
  | notify (tid : Nat) (o : Obj) (woken : Nat)
  | waitPass (tid : Nat) (old : Int)
  | waitBlock (tid : Nat) (old : Int)
  | exec (tid : Nat) (threadArg : Nat) (task : Nat)
  deriving DecidableEq, Repr

inductive Act where
  | call (c : Api)       -- the dispatching thread, idle, enters an API call
  | main                 -- the dispatching thread performs its next operation
  | worker (i : Nat)     -- worker `i` performs its next operation
  | spurious (i : Nat)   -- spurious wake-up of a worker blocked in `wait` (it will re-check)
  deriving DecidableEq, Repr

/-- `Σ_{i=1..n} f i` -/
def sumTo (f : Nat → Nat) : Nat → Nat
  | 0 => 0
  | n + 1 => sumTo f n + f (n + 1)

def setW (s : State) (i : Nat) (x : Worker) : State :=
  { s with w := fun j => if j = i then x else s.w j }

/-- `notify_all`: every sleeping waiter becomes runnable and will re-check -/
def wakeAll (s : State) : State :=
  { s with w := fun j => if (s.w j).pc = .sleep then ⟨.wait, (s.w j).status⟩ else s.w j }

def nSleeping (s : State) : Nat := sumTo (fun i => if (s.w i).pc = .sleep then 1 else 0) s.N

/-- `mju_numThread` -/
def numThread (s : State) : Nat := if s.alive then s.N + 1 else 1

/-- tail of `mju_threadpool(d, k)` once no pool exists: `if (k >= 1) new ThreadPoolContext(k)` -/
def beginCreate (s : State) (k : Nat) (evs : List Ev) : State × List Ev :=
  if 1 ≤ k then
    ({ s with mpc := .spawn 1, alive := false, N := k, signal := 1, next := 0, ndone := 0 }, evs)
  else
    ({ s with mpc := .idle, alive := false, N := 0 }, evs ++ [.ret (.threadpool k) 1])

def stepCall (s : State) : Api → Option (State × List Ev)
  | .threadpool k =>
    if s.alive then
      if k = s.N then some (s, [.call (.threadpool k), .ret (.threadpool k) (s.N + 1)])
      else some ({ s with mpc := .delStore k }, [.call (.threadpool k)])
    else some (beginCreate s k [.call (.threadpool k)])
  | .dispatch n =>
    let s0 := { s with reqN := n, execCnt := fun _ => 0, execBy := fun _ => 0 }
    if s.alive = false ∨ n < 2 then
      if n = 0 then some (s0, [.call (.dispatch n), .ret (.dispatch n) (numThread s)])
      else some ({ s0 with mpc := .serial 0 }, [.call (.dispatch n)])
    else some ({ s0 with mpc := .dNext, ntask := n }, [.call (.dispatch n)])

def stepMain (s : State) : Option (State × List Ev) :=
  match s.mpc with
  | .idle => none
  | .spawn i =>
    let s1 := setW s i ⟨.wait, 1⟩
    if i < s.N then some ({ s1 with mpc := .spawn (i + 1) }, [.spawn i])
    else some ({ s1 with mpc := .idle, alive := true }, [.spawn i, .ret (.threadpool s.N) (s.N + 1)])
  | .dNext => some ({ s with mpc := .dNdone, next := 0 }, [.store 0 .next 0])
  | .dNdone => some ({ s with mpc := .dSigLoad, ndone := 0 }, [.store 0 .ndone 0])
  | .dSigLoad => some ({ s with mpc := .dSigStore (-s.signal) }, [.load 0 .signal s.signal])
  | .dSigStore v => some ({ s with mpc := .dNotify, signal := v }, [.store 0 .signal v])
  | .dNotify => some ({ wakeAll s with mpc := .dFetch }, [.notify 0 .signal (nSleeping s)])
  | .dFetch =>
    if s.next < s.ntask then
      some ({ s with mpc := .dExec s.next, next := s.next + 1 }, [.fadd 0 .next s.next])
    else some ({ s with mpc := .dSpin, next := s.next + 1 }, [.fadd 0 .next s.next])
  | .dExec t =>
    some ({ s with mpc := .dFetch,
                   execCnt := fun u => if u = t then s.execCnt u + 1 else s.execCnt u,
                   execBy := fun u => if u = t then 0 else s.execBy u }, [.exec 0 0 t])
  | .dSpin =>
    if s.ndone < s.N then some (s, [.load 0 .ndone s.ndone])
    else some ({ s with mpc := .idle }, [.load 0 .ndone s.ndone, .ret (.dispatch s.reqN) (numThread s)])
  | .serial i =>
    let s1 := { s with execCnt := fun u => if u = i then s.execCnt u + 1 else s.execCnt u,
                       execBy := fun u => if u = i then 0 else s.execBy u }
    if i + 1 < s.reqN then some ({ s1 with mpc := .serial (i + 1) }, [.exec 0 0 i])
    else some ({ s1 with mpc := .idle }, [.exec 0 0 i, .ret (.dispatch s.reqN) (numThread s)])
  | .delStore k => some ({ s with mpc := .delNotify k, signal := 0 }, [.store 0 .signal 0])
  | .delNotify k => some ({ wakeAll s with mpc := .delJoin 1 k }, [.notify 0 .signal (nSleeping s)])
  | .delJoin j k =>
    if (s.w j).pc = .halted then
      let s1 := setW s j ⟨.unborn, (s.w j).status⟩
      if j < s.N then some ({ s1 with mpc := .delJoin (j + 1) k }, [.join j])
      else some (beginCreate s1 k [.join j])
    else none

def stepWorker (s : State) (i : Nat) : Option (State × List Ev) :=
  let x := s.w i
  match x.pc with
  | .unborn => none
  | .sleep => none
  | .halted => none
  | .wait =>
    if s.signal ≠ x.status then some (setW s i ⟨.load, x.status⟩, [.waitPass i x.status])
    else some (setW s i ⟨.sleep, x.status⟩, [.waitBlock i x.status])
  | .load =>
    if s.signal = 0 then some (setW s i ⟨.halted, s.signal⟩, [.load i .signal s.signal])
    else some (setW s i ⟨.fetch, s.signal⟩, [.load i .signal s.signal])
  | .fetch =>
    if s.next < s.ntask then
      some ({ setW s i ⟨.exec s.next, x.status⟩ with next := s.next + 1 }, [.fadd i .next s.next])
    else some ({ setW s i ⟨.fin, x.status⟩ with next := s.next + 1 }, [.fadd i .next s.next])
  | .exec t =>
    some ({ setW s i ⟨.fetch, x.status⟩ with
              execCnt := fun u => if u = t then s.execCnt u + 1 else s.execCnt u,
              execBy := fun u => if u = t then i else s.execBy u }, [.exec i i t])
  | .fin => some ({ setW s i ⟨.wait, x.status⟩ with ndone := s.ndone + 1 }, [.fadd i .ndone s.ndone])

def stepSpurious (s : State) (i : Nat) : Option (State × List Ev) :=
  if (s.w i).pc = .sleep then some (setW s i ⟨.wait, (s.w i).status⟩, []) else none

/-- one step of the system; `none` = the action is not enabled -/
def step (s : State) : Act → Option (State × List Ev)
  | .call c => if s.mpc = .idle then stepCall s c else none
  | .main => stepMain s
  | .worker i => stepWorker s i
  | .spurious i => stepSpurious s i

/-- steps that only wait: the dispatcher's failed poll of `ndone_`, a `wait` check that blocks, a
    spurious wake-up -/
def isSpin (s : State) : Act → Prop
  | .call _ => False
  | .main => s.mpc = .dSpin ∧ s.ndone < s.N
  | .worker i => (s.w i).pc = .wait ∧ s.signal = (s.w i).status
  | .spurious _ => True

instance (s : State) (a : Act) : Decidable (isSpin s a) := by
  cases a <;> simp only [isSpin] <;> infer_instance

/-- states reachable from `init` by any sequence of enabled actions (any interleaving, any history of
    API calls, any pool sizes and task counts) -/
inductive Reachable : State → Prop where
  | init : Reachable init
  | step {s s' : State} {a : Act} {evs : List Ev} : Reachable s → step s a = some (s', evs) → Reachable s'

/-! ### memory-order table -/

inductive Order where
  | relaxed | consume | acquire | release | acq_rel | seq_cst
  deriving DecidableEq, Repr

/-- what the sequentially consistent abstraction needs from a site -/
inductive Role where
  | publish    -- a store / read-modify-write that publishes earlier plain writes: needs release
  | consume    -- a load / wait whose result licenses later plain reads: needs acquire
  | plain      -- only atomicity / coherence is needed
  deriving DecidableEq, Repr

structure Site where
  fn : String
  obj : String
  op : String
  order : Order
  role : Role
  deriving DecidableEq, Repr

/-- every atomic operation of `engine_thread.cc` that takes a memory order, in source order -/
def sites : List Site := [
  ⟨"~ThreadPoolContext", "signal_", "store", .release, .publish⟩,
  ⟨"Dispatch", "next_", "store", .relaxed, .plain⟩,
  ⟨"Dispatch", "ndone_", "store", .relaxed, .plain⟩,
  ⟨"Dispatch", "signal_", "store", .release, .publish⟩,
  ⟨"Dispatch", "signal_", "load", .relaxed, .plain⟩,
  ⟨"Dispatch", "next_", "fetch_add", .relaxed, .plain⟩,
  ⟨"Dispatch", "ndone_", "load", .acquire, .consume⟩,
  ⟨"Worker", "signal_", "wait", .acquire, .consume⟩,
  ⟨"Worker", "signal_", "load", .acquire, .consume⟩,
  ⟨"Worker", "next_", "fetch_add", .relaxed, .plain⟩,
  ⟨"Worker", "ndone_", "fetch_add", .release, .publish⟩]

def Order.isRelease : Order → Bool
  | .release | .acq_rel | .seq_cst => true
  | _ => false

def Order.isAcquire : Order → Bool
  | .acquire | .acq_rel | .seq_cst => true
  | _ => false

def Site.ok (x : Site) : Bool :=
  match x.role with
  | .publish => x.order.isRelease
  | .consume => x.order.isAcquire
  | .plain => true

end MjProof.ThreadPool
