import MjProof.Model.SchemaGen
/-
Model of the stage-2 schema generators of `doc/generate/` (C42), byte-exact:
  `generate_read_table.py` -> `genRead`        (struct layouts and the SENSOR_DISPATCH / EMIT_GROUPS configuration are inputs)
  `generate_xsd.py`        -> `genXsd`         (the `mjN*` dimension macros returned by `parse_dims` are an input)
  `generate_dmcontrol.py`  -> `genDmcontrol`
Core Lean only.  The overlay tables of the Python modules (NOT_TABLE_DRIVEN, HAND_GROUPS, CONFLICTS, SINGLETONS, ...) are
transcribed constants; the differential run on the real schema detects a change of any entry that the schema exercises.
-/
namespace MjProof.SchemaGen
open MjProof.Schema

variable {N : Nat}

def boolStr (b : Bool) : Txt := if b then L "true" else L "false"

/-- `str(hi)` of an arity bound (`None` never reaches the callers). -/
def hiStr : Hi → Txt
  | .num n => natStr n
  | .sym s => s.toList
  | .none => L "None"

/-! ## `generate_read_table` -/

structure ReadCfg where
  sensors : List Txt                   -- SENSOR_DISPATCH
  groups : List (Txt × Txt × Txt)      -- EMIT_GROUPS: group -> (struct, array)

def notTableDriven : List String :=
  ["motor", "position", "velocity", "intvelocity", "orientation", "pid", "damper", "cylinder", "muscle", "adhesion",
   "dcmotor", "actuator_plugin", "connect", "weld", "equality_joint", "equality_tendon", "equality_flex", "flexvert",
   "flexstrain", "rangefinder", "distance", "user", "normal", "fromto", "sensor_contact", "sensor_plugin", "tactile",
   "frame", "plugin", "numeric", "text", "tuple"]

def sensorDispatch : List Txt :=
  ["touch", "accelerometer", "velocimeter", "gyro", "force", "torque", "magnetometer", "camprojection", "jointpos",
   "jointvel", "tendonpos", "tendonvel", "actuatorpos", "actuatorvel", "actuatorfrc", "jointactuatorfrc",
   "tendonactuatorfrc", "ballquat", "ballangvel", "jointlimitpos", "jointlimitvel", "jointlimitfrc", "tendonlimitpos",
   "tendonlimitvel", "tendonlimitfrc", "framepos", "framequat", "framexaxis", "frameyaxis", "framezaxis", "framelinvel",
   "frameangvel", "framelinacc", "frameangacc", "insidesite", "subtreecom", "subtreelinvel", "subtreeangmom",
   "e_potential", "e_kinetic", "clock"].map L

def emitGroups : List (Txt × Txt × Txt) :=
  [(L "equality_base", L "mjsEquality", L "kEqualityBaseAttrs"), (L "sensor_base", L "mjsSensor", L "kSensorBaseAttrs")]

def handGroups : List String := ["orientation", "transmission", "sensor_base"]

def dimEquiv : List (Txt × Txt) := [(L "mjNPOLY+1", L "3")]

def readHeader : Txt := L "// Copyright 2026 DeepMind Technologies Limited
//
// Licensed under the Apache License, Version 2.0 (the \"License\");
// you may not use this file except in compliance with the License.
// You may obtain a copy of the License at
//
//     http://www.apache.org/licenses/LICENSE-2.0
//
// Unless required by applicable law or agreed to in writing, software
// distributed under the License is distributed on an \"AS IS\" BASIS,
// WITHOUT WARRANTIES OR CONDITIONS OF ANY KIND, either express or implied.
// See the License for the specific language governing permissions and
// limitations under the License.

// GENERATED FILE, DO NOT EDIT. Generated from src/xml/mjcf.schema by
// doc/generate/generate_read_table.py; test/doc/doc_test.py checks freshness.
//
// Typed attribute rows for table-driven reading (mjXReader::ReadAttrTable),
// one array per migrated element. Rows are {attr, kind, len, exact,
// required, nodefault, handwrite, offset}; keyword maps are defined in
// mjcf_map.h.

// clang-format off
"

def asciiUpper (c : Char) : Char := if 'a' ≤ c ∧ c ≤ 'z' then Char.ofNat (c.toNat - 32) else c
def asciiLower (c : Char) : Char := if 'A' ≤ c ∧ c ≤ 'Z' then Char.ofNat (c.toNat + 32) else c

/-- `str.capitalize()` on an ASCII identifier. -/
def capitalize : Txt → Txt
  | [] => []
  | c :: r => asciiUpper c :: r.map asciiLower

/-- `array_name(element_name)` -/
def arrayName (n : Txt) : Txt := 'k' :: capitalize n ++ L "Attrs"

def hasTableAttrs (s : Schema N) (e : Element N) : Bool :=
  (expandedAttrs s e.members).any fun a => ¬ hasFacet a.facets "reading"

def specOn (e : Element N) : Option Txt :=
  match e.spec with
  | some sp => if sp = "" then none else some sp.toList
  | none => none

def tableDriven (s : Schema N) : List (Element N) :=
  s.elements.filter fun e => (specOn e).isSome ∧ hasTableAttrs s e ∧ e.name ∉ notTableDriven

def kindOfNumeric (ct : Txt) : Option Txt :=
  if ct = L "mjString*" then some (L "kString") else if ct = L "int" then some (L "kInt")
  else if ct = L "double" then some (L "kDouble") else if ct = L "mjtNum" then some (L "kNum")
  else if ct = L "float" then some (L "kFloat") else none

def vecKind (ct : Txt) : Option Txt :=
  if ct = L "mjDoubleVec*" then some (L "kDoubleVec") else if ct = L "mjFloatVec*" then some (L "kFloatVec")
  else if ct = L "mjIntVec*" then some (L "kIntVec") else none

def offsetOf (spec pfx field : Txt) : Txt := L "(int)offsetof(" ++ spec ++ L ", " ++ pfx ++ field ++ L ")"

/-- `_attr_row(spec, fields, attr, ctx, prefix)`: `ok none` = no row. -/
def attrRow (spec : Txt) (fields : List (Txt × Txt × Option Txt)) (a : Attr N) (pfx : Txt) :
    Except GenErr (Option (List Txt)) :=
  let required := boolStr (truthy (Facets.get a.facets "required"))
  let nodefault := boolStr (truthy (Facets.get a.facets "nodefault"))
  let handwrite := boolStr (truthy (Facets.get a.facets "writing"))
  let qn := quote a.name.toList
  if a.type = .id ∧ a.name = "name" then
    .ok (some [qn, L "mjXAttr::kName", L "1", L "true", required, L "true", L "false", L "-1"])
  else if a.type = .ref ∧ a.target = some "default" then .ok none
  else if a.type = .file then .ok none
  else
    match (fieldKey a).bind (fun f => (lookup fields f).map (fun e => (f, e))) with
    | none => .error .valueError
    | some (field, ctype, dim) =>
      let finish (kind length exact : Txt) : Except GenErr (Option (List Txt)) :=
        let row := [qn, L "mjXAttr::" ++ kind, length, exact, required, nodefault, handwrite, offsetOf spec pfx field]
        if kind = L "kEnum" ∨ kind = L "kEnumByte" ∨ kind = L "kFlags" then
          let t : Txt := match a.target with | some t => t.toList | none => L "None"
          .ok (some (row ++ [t ++ L "_map", t ++ L "_sz"]))
        else .ok (some row)
      let isMjt := startsWith ctype (L "mjt")
      match a.type with
      | .string | .file | .ref | .id =>
        if ctype = L "mjStringVec*" then finish (L "kStringVec") (L "1") (L "true")
        else if ctype ≠ L "mjString*" then .error .valueError
        else finish (L "kString") (L "1") (L "true")
      | .enum =>
        if ¬ isMjt ∧ ctype ≠ L "int" then .error .valueError
        else finish (if ctype = L "mjtByte" ∨ ctype = L "mjtBool" then L "kEnumByte" else L "kEnum") (L "1") (L "true")
      | .flags =>
        if ctype ≠ L "int" then .error .valueError else finish (L "kFlags") (L "1") (L "true")
      | .bool =>
        if ctype = L "mjtBool" ∨ ctype = L "mjtByte" then finish (L "kBool") (L "1") (L "true")
        else if ctype = L "int" ∨ isMjt then
          .ok (some [qn, L "mjXAttr::kEnum", L "1", L "true", required, nodefault, handwrite, offsetOf spec pfx field,
                     L "bool_map", L "2"])
        else .error .valueError
      | .chars =>
        match dim with
        | none => .error .valueError
        | some dm =>
          if ctype ≠ L "char" then .error .valueError
          else if dm ≠ hiStr a.arity.hi then .error .valueError
          else finish (L "kChars") (hiStr a.arity.hi) (boolStr (decide (a.arity.hi = .num a.arity.lo)))
      | .double | .float | .int =>
        if a.arity.hi = .none then
          match vecKind ctype with
          | none => .error .valueError
          | some k => finish k (L "1") (L "true")
        else
          match kindOfNumeric ctype with
          | none => .error .valueError
          | some kind =>
            if (decide (a.type = .int)) ≠ (decide (kind = L "kInt")) then .error .valueError
            else
              let length := hiStr a.arity.hi
              let declared := dim.getD (L "1")
              let exact := boolStr (decide (a.arity.hi = .num a.arity.lo))
              if declared ≠ length then
                if lookup dimEquiv declared = some length then finish kind declared exact
                else .error .valueError
              else finish kind length exact

def rowLine (row : List Txt) : Txt := L "  {" ++ joinWith (L ", ") row ++ L "},"

def mapE {α β : Type} (f : α → Except GenErr β) : List α → Except GenErr (List β)
  | [] => .ok []
  | x :: xs => match f x with
    | .error e => .error e
    | .ok y => match mapE f xs with
      | .error e => .error e
      | .ok ys => .ok (y :: ys)

/-- `{m.name for m in schema.groups[gname].members}`: a `use` or constraint member has no `.name` (AttributeError). -/
def groupMemberNames (g : Group N) : Except GenErr (List String) :=
  mapE (fun m => match m with
    | .attr a => .ok a.name
    | .child c => .ok c.name
    | _ => .error .attributeError) g.members

/-- The key / prefix of the struct an element's attributes live in. -/
def structKey (e : Element N) (spec : Txt) : Txt × Txt :=
  let sub := Facets.get e.facets "field"
  if truthy sub then
    let subStr : Txt := match sub with | some v => facetStr v | none => []
    (spec ++ ['.'] ++ subStr, subStr ++ ['.'])
  else (spec, [])

/-- `rows_for(schema, structs, element_name)` -/
def rowsFor (s : Schema N) (structs : Structs) (e : Element N) : Except GenErr (Txt × List (List Txt)) :=
  match specOn e with
  | none => .error .valueError
  | some spec =>
    let (key, pfx) := structKey e spec
    match lookup structs key with
    | none => .error .valueError
    | some fields =>
      let hand : Except GenErr (List String) :=
        foldE (fun acc g =>
          if (memberUses e.members).any (fun u => u.group = g) then
            match findGroup s g with
            | none => .error .keyError
            | some grp => match groupMemberNames grp with
              | .error x => .error x
              | .ok ns => .ok (acc ++ ns)
          else .ok acc) [] handGroups
      match hand with
      | .error x => .error x
      | .ok handAttrs =>
        let consts : Except GenErr (List (List Txt)) :=
          mapE (fun (c : Const N) =>
            match lookup fields c.field.toList with
            | none => .error .valueError
            | some (ctype, _) =>
              if ¬ startsWith ctype (L "mjt") ∧ ctype ≠ L "int" then .error .valueError
              else .ok [L "nullptr", L "mjXAttr::kConst", L "1", L "true", L "false", L "false", L "false",
                        offsetOf spec pfx c.field.toList, L "nullptr", L "0", c.value.toList])
            (e.members.filterMap fun m => match m with | .const c => some c | _ => none)
        match consts with
        | .error x => .error x
        | .ok crows =>
          let attrs := (expandedAttrs s e.members).filter fun a => a.name ∉ handAttrs ∧ ¬ hasFacet a.facets "reading"
          match mapE (fun a => attrRow spec fields a pfx) attrs with
          | .error x => .error x
          | .ok rs => .ok (spec, crows ++ rs.filterMap id)

/-- `rows_for_group(schema, structs, group_name, spec)` -/
def rowsForGroup (s : Schema N) (structs : Structs) (gname : String) (spec : Txt) : Except GenErr (List (List Txt)) :=
  match lookup structs spec with
  | none => .error .valueError
  | some fields =>
    match findGroup s gname with
    | none => .error .keyError
    | some g =>
      match mapE (fun a => attrRow spec fields a []) ((memberAttrs g.members).filter fun a => ¬ hasFacet a.facets "reading") with
      | .error x => .error x
      | .ok rs => .ok (rs.filterMap id)

def arrayBlock (comment : Txt) (array : Txt) (rows : List (List Txt)) : List Txt :=
  [comment, L "inline constexpr mjXAttr " ++ array ++ L "[] = {"] ++ rows.map rowLine
  ++ [L "};", L "inline constexpr int " ++ array ++ L "N = sizeof(" ++ array ++ L ") / sizeof(" ++ array ++ L "[0]);", []]

def genRead (s : Schema N) (structs : Structs) (cfg : ReadCfg) : Except GenErr Txt :=
  match mapE (fun e => match rowsFor s structs e with
      | .error x => .error x
      | .ok (st, rows) => .ok (arrayBlock (L "// " ++ e.name.toList ++ L " (" ++ st ++ L ")") (arrayName e.name.toList) rows))
    (tableDriven s) with
  | .error x => .error x
  | .ok blocks =>
    match mapE (fun (n : Txt) => match findElement s (String.ofList n) with
        | none => .error .keyError
        | some e => .ok (L "  {" ++ quote (xmlName e) ++ L ", " ++ arrayName n ++ L ", " ++ arrayName n ++ L "N},"))
      cfg.sensors with
    | .error x => .error x
    | .ok sens =>
      match mapE (fun (g : Txt × Txt × Txt) => match rowsForGroup s structs (String.ofList g.1) g.2.1 with
          | .error x => .error x
          | .ok rows => .ok (arrayBlock (L "// group " ++ g.1 ++ L " (" ++ g.2.1 ++ L ")") g.2.2 rows))
        cfg.groups with
      | .error x => .error x
      | .ok gblocks =>
        .ok (joinNL ([readHeader] ++ blocks.flatten
          ++ [L "// sensors fully described by the schema: dispatch by tag",
              L "struct mjXSensorEntry { const char* tag; const mjXAttr* rows; int n; };",
              L "inline constexpr mjXSensorEntry kSensorDispatch[] = {"]
          ++ sens
          ++ [L "};", L "inline constexpr int kSensorDispatchN = sizeof(kSensorDispatch) / sizeof(kSensorDispatch[0]);", []]
          ++ gblocks.flatten ++ [L "// clang-format on"]) ++ ['\n'])

/-! ## `generate_xsd` -/

def scalarXsd : Ty → Txt
  | .int => L "xs:int" | .double => L "xs:double" | .float => L "xs:float"
  | _ => L "xs:string"

def tyName : Ty → Txt
  | .double => L "double" | .float => L "float" | .int => L "int" | .bool => L "bool" | .string => L "string"
  | .file => L "file" | .chars => L "chars" | .enum => L "enum" | .flags => L "flags" | .ref => L "ref" | .id => L "id"

def constraintText : Verb → Txt
  | .exclusive => L "at most one of" | .together => L "together or absent"
  | .requires => L "first requires second" | .oneof => L "at least one of"

/-- `self.resolve(bound)`: `ok none` = unbounded. -/
def resolveHi (dims : List (Txt × Nat)) : Hi → Except GenErr (Option Nat)
  | .num n => .ok (some n)
  | .none => .ok none
  | .sym s => match lookup dims s.toList with
    | some v => .ok (some v)
    | none => .error .keyError

/-- `_num(facet value)` -/
def numFacet : FacetVal → Except GenErr Txt
  | .flag => .ok (L "True")
  | .num d => pyNum d
  | .str _ => .error .unmodelled

/-- `_default_str(attr)` / `_fmt_default(attr)` -/
def defaultStr (a : Attr N) : Except GenErr (Option Txt) :=
  match a.default with
  | none => .ok none
  | some (.vec ds) => match mapE pyNum ds with
    | .error x => .error x
    | .ok ts => .ok (some (joinWith [' '] ts))
  | some (.num d) => match pyNum d with
    | .error x => .error x
    | .ok t => .ok (some t)
  | some (.str t) => .ok (some t.toList)

def ind (n : Nat) (t : Txt) : Txt := spaces n ++ t

/-- `self.doc(indent, texts)` -/
def docLines (indent : Nat) (texts : List (Option String)) : List Txt :=
  let ts := texts.filterMap fun t => match t with
    | some d => if d = "" then none else some d.toList
    | none => none
  if ts.isEmpty then []
  else [ind indent (L "<xs:annotation>")]
    ++ ts.map (fun t => ind (indent + 2) (L "<xs:documentation>" ++ xmlEscape t ++ L "</xs:documentation>"))
    ++ [ind indent (L "</xs:annotation>")]

def docLinesT (indent : Nat) (ts : List Txt) : List Txt :=
  let ts := ts.filter (· ≠ [])
  if ts.isEmpty then []
  else [ind indent (L "<xs:annotation>")]
    ++ ts.map (fun t => ind (indent + 2) (L "<xs:documentation>" ++ xmlEscape t ++ L "</xs:documentation>"))
    ++ [ind indent (L "</xs:annotation>")]

abbrev VecTypes := List (Txt × List Txt)

/-- `self.vector_type(base, lo, hi)` -/
def vectorType (vt : VecTypes) (ty : Ty) (lo : Nat) (hi : Option Nat) : Txt × VecTypes :=
  let base := tyName ty
  let name : Txt := match hi with
    | none => base ++ L "list"
    | some h => if lo = h then base ++ natStr h else base ++ natStr lo ++ L "to" ++ natStr h
  if (lookup vt name).isSome then (name, vt)
  else
    let item := L "<xs:list itemType=\"" ++ scalarXsd ty ++ L "\"/>"
    let body : List Txt :=
      if hi.isNone ∧ lo ≤ 1 then [L "  " ++ item]
      else
        [L "  <xs:restriction>", L "    <xs:simpleType>", L "      " ++ item, L "    </xs:simpleType>"]
        ++ (match hi with
            | some h => if lo = h then [L "    <xs:length value=\"" ++ natStr h ++ L "\"/>"]
              else (if lo > 0 then [L "    <xs:minLength value=\"" ++ natStr lo ++ L "\"/>"] else [])
                ++ [L "    <xs:maxLength value=\"" ++ natStr h ++ L "\"/>"]
            | none => if lo > 0 then [L "    <xs:minLength value=\"" ++ natStr lo ++ L "\"/>"] else [])
        ++ [L "  </xs:restriction>"]
    (name, vt ++ [(name, [L "<xs:simpleType name=\"" ++ name ++ L "\">"] ++ body ++ [L "</xs:simpleType>"])])

def targetStr (a : Attr N) : Txt := match a.target with | some t => t.toList | none => L "None"

/-- `self.attr_type(attr, ctx)`: (type name or none, inline lines) and the updated vector types. -/
def attrType (dims : List (Txt × Nat)) (vt : VecTypes) (a : Attr N) :
    Except GenErr ((Option Txt × List Txt) × VecTypes) :=
  let numericFacets := hasFacet a.facets "min" ∨ hasFacet a.facets "max" ∨ hasFacet a.facets "positive"
  match a.type with
  | .bool => .ok ((some (L "kw_bool"), []), vt)
  | .enum => .ok ((some (L "kw_" ++ targetStr a), []), vt)
  | .flags => .ok ((some (L "kwlist_" ++ targetStr a), []), vt)
  | .string | .file | .ref | .id => .ok ((some (L "xs:string"), []), vt)
  | .chars =>
    let head := [L "<xs:simpleType>", L "  <xs:restriction base=\"xs:string\">"]
    let tail := [L "  </xs:restriction>", L "</xs:simpleType>"]
    match Facets.get a.facets "pattern" with
    | some (.str p) => .ok ((none, head ++ [L "    <xs:pattern value=\"" ++ xmlEscape p.toList ++ L "\"/>"] ++ tail), vt)
    | some _ => .error .attributeError  -- escape() of a non-string payload
    | none =>
      if a.arity.hi = .num a.arity.lo then
        .ok ((none, head ++ [L "    <xs:length value=\"" ++ hiStr a.arity.hi ++ L "\"/>"] ++ tail), vt)
      else
        .ok ((none, head ++ [L "    <xs:minLength value=\"" ++ natStr a.arity.lo ++ L "\"/>",
                             L "    <xs:maxLength value=\"" ++ hiStr a.arity.hi ++ L "\"/>"] ++ tail), vt)
  | .double | .float | .int =>
    let base := scalarXsd a.type
    match resolveHi dims a.arity.hi with
    | .error x => .error x
    | .ok hi =>
      if a.arity.lo = 1 ∧ hi = some 1 then
        if ¬ numericFacets then .ok ((some base, []), vt)
        else
          let mn : Except GenErr (List Txt) := match Facets.get a.facets "min" with
            | none => .ok []
            | some v => match numFacet v with
              | .error x => .error x
              | .ok t => .ok [L "    <xs:minInclusive value=\"" ++ t ++ L "\"/>"]
          let mx : Except GenErr (List Txt) := match Facets.get a.facets "max" with
            | none => .ok []
            | some v => match numFacet v with
              | .error x => .error x
              | .ok t => .ok [L "    <xs:maxInclusive value=\"" ++ t ++ L "\"/>"]
          match mn, mx with
          | .error x, _ => .error x
          | _, .error x => .error x
          | .ok l1, .ok l2 =>
            let pos := if truthy (Facets.get a.facets "positive") then [L "    <xs:minExclusive value=\"0\"/>"] else []
            .ok ((none, [L "<xs:simpleType>", L "  <xs:restriction base=\"" ++ base ++ L "\">"] ++ l1 ++ l2 ++ pos
                    ++ [L "  </xs:restriction>", L "</xs:simpleType>"]), vt)
      else if numericFacets then .error .valueError
      else
        let (name, vt') := vectorType vt a.type a.arity.lo hi
        .ok ((some name, []), vt')

/-- `self.emit_attr(indent, attr, ctx)` -/
def xsdAttr (dims : List (Txt × Nat)) (indent : Nat) (vt : VecTypes) (a : Attr N) : Except GenErr (List Txt × VecTypes) :=
  match attrType dims vt a with
  | .error x => .error x
  | .ok ((tname, inline), vt') =>
    match defaultStr a with
    | .error x => .error x
    | .ok dflt =>
      let parts : List Txt := [L "name=\"" ++ a.name.toList ++ L "\""]
        ++ (match tname with | some t => [L "type=\"" ++ t ++ L "\""] | none => [])
        ++ (if truthy (Facets.get a.facets "required") then [L "use=\"required\""] else [])
        ++ (match dflt with | some d => [L "default=\"" ++ xmlEscape d ++ L "\""] | none => [])
      let head := L "<xs:attribute " ++ joinWith [' '] parts
      let hasDoc : Bool := match a.doc with | some d => decide (d ≠ "") | none => false
      if inline.isEmpty ∧ ¬ hasDoc then .ok ([ind indent (head ++ L "/>")], vt')
      else .ok ([ind indent (head ++ L ">")] ++ docLines (indent + 2) [a.doc] ++ inline.map (ind (indent + 2))
                 ++ [ind indent (L "</xs:attribute>")], vt')

def typeName (n : Txt) (projected : Bool) : Txt := if projected then L "default_" ++ n else n

structure XState where
  lines : List Txt
  vt : VecTypes
  emitted : List (String × Bool)

/-- `self.emit_complex_type(name, projected)`; returns the new lines, vector types and the queued pairs. -/
def complexType (s : Schema N) (dims : List (Txt × Nat)) (vt : VecTypes) (e : Element N) (projected : Bool) :
    Except GenErr (List Txt × VecTypes × List (String × Bool)) :=
  let name := e.name
  let tname := typeName name.toList projected
  match elementConstraints s e with
  | .error x => .error x
  | .ok cons =>
    let conDocs := cons.map fun c => L "constraint: " ++ constraintText c.kind ++ L ": "
      ++ joinWith (L ", ") (c.bundles.map fun b => joinWith ['+'] (b.map (·.toList)))
    let kids := memberChildren e.members
    let cards := kids.map fun c => c.name.toList ++ L " (" ++ cardStr c.card ++ L ")"
    let docs : List Txt := (if projected then [] else [match e.doc with | some d => d.toList | none => []]) ++ conDocs
      ++ (if cards.isEmpty then [] else
          [L "children, with cardinality the XSD cannot enforce (? at most one, ! exactly one, * any number, R recursive): "
            ++ joinWith (L ", ") cards])
    let kids' := if projected then kids.filter (fun c => c.name ≠ "plugin") else kids
    let choice : Except GenErr (List (Txt × (String × Bool))) :=
      mapE (fun (c : Child N) =>
        match findElement s c.name with
        | none => .error .keyError
        | some t0 =>
          let tgt : Except GenErr (Element N × Txt) :=
            if name = "mujoco" ∧ c.name = "body" then
              match findElement s "worldbody" with
              | none => .error .keyError
              | some w => .ok (w, L "worldbody")
            else .ok (t0, xmlName t0)
          match tgt with
          | .error x => .error x
          | .ok (t, tag) =>
            let cp := projected || (name = "default" && !(startsWith c.name.toList (L "default_")) && c.name ≠ "default")
            .ok (ind 6 (L "<xs:element name=\"" ++ tag ++ L "\" type=\"" ++ typeName t.name.toList cp ++ L "\"/>"),
                 (t.name, cp))) kids'
    match choice with
    | .error x => .error x
    | .ok ch =>
      let choiceLines := if kids'.isEmpty then [] else
        [ind 4 (L "<xs:choice minOccurs=\"0\" maxOccurs=\"unbounded\">")] ++ ch.map (·.1)
        ++ [ind 6 (L "<xs:element name=\"include\" type=\"include\"/>"), ind 4 (L "</xs:choice>")]
      let attrs0 := expandedAttrs s e.members
      let attrs := if projected then projectAttrs attrs0 else attrs0
      match foldE (fun (acc : List Txt × VecTypes) a =>
          match xsdAttr dims 4 acc.2 a with
          | .error x => .error x
          | .ok (ls, vt') => .ok (acc.1 ++ ls, vt')) ([], vt) attrs with
      | .error x => .error x
      | .ok (alines, vt') =>
        .ok ([ind 2 (L "<xs:complexType name=\"" ++ tname ++ L "\">")] ++ docLinesT 4 docs ++ choiceLines ++ alines
             ++ [ind 2 (L "</xs:complexType>"), []], vt', ch.map (·.2))

set_option linter.unusedVariables false in
/-- The `while self.pending:` loop. -/
def xsdLoop (s : Schema N) (dims : List (Txt × Nat)) (pending : List (String × Bool)) (st : XState) : Except GenErr XState :=
  match pending with
  | [] => .ok st
  | (name, proj) :: rest =>
    if hs : (name, proj) ∈ st.emitted then xsdLoop s dims rest st
    else
      match hf : findElement s name with
      | none => .error .keyError
      | some e =>
        match complexType s dims st.vt e proj with
        | .error x => .error x
        | .ok (ls, vt', queued) =>
          xsdLoop s dims (rest ++ queued) ⟨st.lines ++ ls, vt', st.emitted ++ [(name, proj)]⟩
termination_by (unseen s st.emitted, pending.length)
decreasing_by
  · apply Prod.Lex.right; simp
  · apply Prod.Lex.left
    exact unseen_lt hf hs

def xsdPreamble : List Txt :=
  [L "<?xml version=\"1.0\" encoding=\"UTF-8\"?>",
   L "<!-- Generated by generate_xsd.py from mjcf.schema.",
   L "     Do not edit by hand; see test/doc/doc_test.py.",
   [],
   L "     This schema is deliberately permissive: it never",
   L "     rejects a legal model, but accepts some models the",
   L "     parser rejects. Child cardinality and attribute",
   L "     presence constraints are carried as documentation",
   L "     annotations. -->",
   L "<xs:schema xmlns:xs=\"http://www.w3.org/2001/XMLSchema\">",
   [],
   ind 2 (L "<xs:simpleType name=\"kw_bool\">"),
   ind 4 (L "<xs:restriction base=\"xs:string\">"),
   ind 6 (L "<xs:enumeration value=\"false\"/>"),
   ind 6 (L "<xs:enumeration value=\"true\"/>"),
   ind 4 (L "</xs:restriction>"),
   ind 2 (L "</xs:simpleType>"),
   []]

def genXsd (s : Schema N) (dims : List (Txt × Nat)) : Except GenErr Txt :=
  let flagsTargets : List (Option String) :=
    s.elements.flatMap fun e => ((expandedAttrs s e.members).filter (·.type = .flags)).map (·.target)
  let enumLines : List Txt := s.enums.flatMap fun en =>
    [ind 2 (L "<xs:simpleType name=\"kw_" ++ en.name.toList ++ L "\">")] ++ docLines 4 [en.doc]
    ++ [ind 4 (L "<xs:restriction base=\"xs:string\">")]
    ++ en.items.map (fun kv => ind 6 (L "<xs:enumeration value=\"" ++ xmlEscape kv.1.toList ++ L "\"/>"))
    ++ [ind 4 (L "</xs:restriction>"), ind 2 (L "</xs:simpleType>")]
    ++ (if some en.name ∈ flagsTargets then
          [ind 2 (L "<xs:simpleType name=\"kwlist_" ++ en.name.toList ++ L "\">"),
           ind 4 (L "<xs:list itemType=\"kw_" ++ en.name.toList ++ L "\"/>"), ind 2 (L "</xs:simpleType>")] else [])
    ++ [[]]
  match xsdLoop s dims [("mujoco", false)] ⟨[], [], []⟩ with
  | .error x => .error x
  | .ok st =>
    if (elementNames s).any (fun n => ¬ st.emitted.any (fun p => p.1 = n)) then .error .valueError
    else
      let vecLines : List Txt := ((sortTxt (st.vt.map (·.1))).filterMap fun n => lookup st.vt n).flatMap fun ls =>
        ls.map (L "  " ++ ·) ++ [[]]
      let tail : List Txt :=
        [ind 2 (L "<xs:complexType name=\"include\">")]
        ++ docLinesT 4 [L "includes another MJCF file; resolved before parsing"]
        ++ [ind 4 (L "<xs:attribute name=\"file\" type=\"xs:string\" use=\"required\"/>"),
            ind 2 (L "</xs:complexType>"), [],
            ind 2 (L "<xs:element name=\"mujoco\" type=\"mujoco\"/>"), L "</xs:schema>"]
      .ok (joinNL (xsdPreamble ++ enumLines ++ vecLines ++ st.lines ++ tail) ++ ['\n'])

/-! ## `generate_dmcontrol` -/

def excludedElements : List String := ["pid", "dcmotor", "replicate", "frame", "attach", "model", "sensor_contact"]
def excludedChildren : List (String × String) := [("worldbody", "plugin")]

/-- CONFLICTS: `some none` = conflict_allowed with no behaviour. -/
def conflicts : List ((String × String) × Option String) :=
  [(("compiler", "assetdir"), none), (("compiler", "meshdir"), none), (("compiler", "texturedir"), none),
   (("map", "zfar"), some "max"), (("map", "znear"), some "min"), (("mujoco", "model"), none),
   (("option", "ccd_iterations"), some "max"), (("option", "ccd_tolerance"), some "min"),
   (("option", "iterations"), some "max"), (("option", "ls_iterations"), some "max"),
   (("option", "ls_tolerance"), some "min"), (("option", "noslip_iterations"), some "max"),
   (("option", "noslip_tolerance"), some "min"), (("option", "sdf_initpoints"), some "max"),
   (("option", "sdf_iterations"), some "max"), (("option", "timestep"), some "min"), (("option", "tolerance"), some "min"),
   (("size", "memory"), some "max_bytes"), (("size", "nconmax"), some "max"), (("size", "njmax"), some "max")]

def singletons : List (String × Txt) :=
  [("body", "freejoint"), ("body", "inertial"), ("compiler", "lengthrange"), ("composite", "geom"), ("composite", "site"),
   ("composite", "skin"), ("default", "adhesion"), ("default", "camera"), ("default", "cylinder"), ("default", "damper"),
   ("default", "equality"), ("default", "general"), ("default", "geom"), ("default", "intvelocity"), ("default", "joint"),
   ("default", "light"), ("default", "material"), ("default", "mesh"), ("default", "motor"), ("default", "muscle"),
   ("default", "orientation"), ("default", "pair"), ("default", "position"), ("default", "site"), ("default", "tendon"),
   ("default", "velocity"), ("mujoco", "actuator"), ("mujoco", "asset"), ("mujoco", "compiler"), ("mujoco", "contact"),
   ("mujoco", "custom"), ("mujoco", "default"), ("mujoco", "deformable"), ("mujoco", "equality"), ("mujoco", "extension"),
   ("mujoco", "keyframe"), ("mujoco", "option"), ("mujoco", "sensor"), ("mujoco", "size"), ("mujoco", "statistic"),
   ("mujoco", "tendon"), ("mujoco", "visual"), ("mujoco", "worldbody"), ("option", "flag"), ("visual", "global"),
   ("visual", "headlight"), ("visual", "map"), ("visual", "quality"), ("visual", "rgba"), ("visual", "scale")].map
    fun p => (p.1, L p.2)

def onDemand : List String := ["inertial", "freejoint"]
def namespaceOverrides : List (String × String) :=
  [("exclude", "contact"), ("flex", "deformable"), ("flexcomp", "flexcomp"), ("instance", "plugin"), ("pair", "contact")]
def contextNamespace : List ((String × String) × String) := [(("deformable", "skin"), "deformable")]
def identifierOverrides : List (String × String) := [("composite", "prefix")]
def refNsMap : List (String × String) :=
  [("instance", "plugin"), ("flex", "deformable"), ("skin", "deformable"), ("pair", "contact"), ("exclude", "contact")]
def basepaths : List (String × String) := [("meshdir", "mesh"), ("texturedir", "texture"), ("assetdir", "asset")]
def fileNs : List (String × String) := [("mesh", "mesh"), ("texture", "texture"), ("hfield", "mesh"), ("skin", "mesh")]

def assoc {α β : Type} [DecidableEq α] (l : List (α × β)) (k : α) : Option β := (l.find? (fun e => e.1 = k)).map (·.2)

/-- `self.element_namespace(element, parent)`; namespaces are `Option String` targets rendered with `str`. -/
def elementNamespace (s : Schema N) (e : Element N) (parent : Option String) : Option Txt :=
  match parent.bind (fun p => assoc contextNamespace (p, e.name)) with
  | some ns => some ns.toList
  | none =>
    match assoc namespaceOverrides e.name with
    | some ns => some ns.toList
    | none =>
      match (expandedAttrs s e.members).find? (fun a => a.type = .id ∨ (e.name, a.name) ∈ identifierOverrides) with
      | some a => if a.type = .id then some (targetStr a) else some e.name.toList
      | none => none

/-- `self.attr_parts(element, attr, attr_names)`; second component: the reference recorded, if any. -/
def attrParts (s : Schema N) (dims : List (Txt × Nat)) (e : Element N) (a : Attr N) (names : List String) :
    Except GenErr (Txt × Option Txt) :=
  match resolveHi dims a.arity.hi with
  | .error x => .error x
  | .ok hi =>
    if a.name = "objname" ∧ "objtype" ∈ names then .ok (L "type=\"reference\" reference_namespace=\"attrib:objtype\"", none)
    else if a.name = "refname" ∧ "reftype" ∈ names then .ok (L "type=\"reference\" reference_namespace=\"attrib:reftype\"", none)
    else if (e.name, a.name) ∈ identifierOverrides then .ok (L "type=\"identifier\"", none)
    else if e.name = "mujoco" ∧ a.name = "model" then .ok (L "type=\"string\"", none)
    else match (if e.name = "compiler" then assoc basepaths a.name else none) with
    | some bp => .ok (L "type=\"basepath\" path_namespace=\"" ++ bp.toList ++ L "\"", none)
    | none =>
    match a.type with
    | .file =>
      .ok (match assoc fileNs e.name with
        | some ns => L "type=\"file\" path_namespace=\"" ++ ns.toList ++ L "\""
        | none => L "type=\"file\"", none)
    | .enum =>
      match a.target.bind (findEnum s) with
      | none => .error .keyError
      | some en => .ok (L "type=\"keyword\" valid_values=" ++ quoteAttr (joinWith [' '] (en.items.map (·.1.toList))), none)
    | .bool => .ok (L "type=\"keyword\" valid_values=\"false true\"", none)
    | .id => .ok (L "type=\"identifier\"", none)
    | .ref =>
      let ns : Txt := match a.target with
        | some t => ((assoc refNsMap t).getD t).toList
        | none => L "None"
      .ok (L "type=\"reference\" reference_namespace=\"" ++ ns ++ L "\"", some ns)
    | .string | .chars | .flags => .ok (L "type=\"string\"", none)
    | .double | .float | .int =>
      let base := if a.type = .int then L "int" else L "float"
      if a.arity.lo = 1 ∧ hi = some 1 then .ok (L "type=\"" ++ base ++ L "\"", none)
      else
        let size := match hi with | some h => L " array_size=\"" ++ natStr h ++ L "\"" | none => []
        .ok (L "type=\"array\" array_type=\"" ++ base ++ L "\"" ++ size, none)

/-- `self.emit_attr(indent, element, attr, attr_names)` -/
def dmAttr (s : Schema N) (dims : List (Txt × Nat)) (indent : Nat) (e : Element N) (names : List String) (a : Attr N) :
    Except GenErr (Txt × Option Txt) :=
  match attrParts s dims e a names with
  | .error x => .error x
  | .ok (tp, ref) =>
    match defaultStr a with
    | .error x => .error x
    | .ok dflt =>
      let parts : List Txt := [L "<attribute name=\"" ++ a.name.toList ++ L "\"", tp]
        ++ (if truthy (Facets.get a.facets "required") then [L "required=\"true\""] else [])
        ++ (match dflt with | some d => [L "default=" ++ quoteAttr d] | none => [])
        ++ (match assoc conflicts (e.name, a.name) with
            | none => []
            | some none => [L "conflict_allowed=\"true\""]
            | some (some b) => [L "conflict_allowed=\"true\"", L "conflict_behavior=\"" ++ b.toList ++ L "\""])
      .ok (ind indent (joinWith [' '] parts ++ L "/>"), ref)

/-- Accumulated output of `emit_element`: lines, referenced namespaces, populated namespaces. -/
structure DmOut where
  lines : List Txt
  refs : List Txt
  ids : List Txt

def unseenN (s : Schema N) (anc : List String) : Nat := ((elementNames s).filter (fun n => n ∉ anc)).length

theorem unseenN_lt {s : Schema N} {n : String} {e : Element N} {anc : List String}
    (hf : findElement s n = some e) (hs : n ∉ anc) : unseenN s (anc ++ [n]) < unseenN s anc :=
  filter_notin_lt _ _ _ (findElement_mem hf) hs

theorem unseenN_append_mem (s : Schema N) {n : String} {anc : List String} (h : n ∈ anc) :
    unseenN s (anc ++ [n]) = unseenN s anc := by
  unfold unseenN
  congr 1
  apply List.filter_congr
  intro x _
  simp only [List.mem_append, List.mem_singleton, not_or, decide_eq_decide]
  constructor
  · exact fun hx => hx.1
  · exact fun hx => ⟨hx, fun hxn => hx (hxn ▸ h)⟩

def isSingleton (parent : Option String) (tag : Txt) : Bool :=
  match parent with
  | some p => decide ((p, tag) ∈ singletons)
  | none => false

/-- A child entry of `emit_element`'s `children` list. -/
structure DmKid where
  name : String
  tag : Txt
  card : Card
  projected : Bool

/-- The `children` list of `emit_element` (KeyError for a dangling child / missing worldbody). -/
def dmKids (s : Schema N) (e : Element N) (tag : Txt) (projected topDefault : Bool) : Except GenErr (List DmKid) :=
  (mapE (fun (c : Child N) =>
    if c.name = e.name then
      .ok (if topDefault then some ⟨e.name, tag, c.card, projected⟩ else none)
    else
      match findElement s c.name with
      | none => .error .keyError
      | some t0 =>
        let tgt : Except GenErr (Element N × Txt) :=
          if e.name = "mujoco" ∧ c.name = "body" then
            match findElement s "worldbody" with
            | none => .error .keyError
            | some w => .ok (w, L "worldbody")
          else .ok (t0, xmlName t0)
        match tgt with
        | .error x => .error x
        | .ok (t, ctag) =>
          if t.name ∈ excludedElements ∨ (e.name, t.name) ∈ excludedChildren then .ok none
          else if projected ∧ c.name = "plugin" then .ok none
          else
            let cp := projected || (e.name = "default" && !(startsWith c.name.toList (L "default_")) && c.name ≠ "default")
            .ok (some ⟨t.name, ctag, c.card, cp⟩)) (memberChildren e.members)).map (·.filterMap id)

set_option linter.unusedVariables false in
mutual
/-- `self.emit_element(element, tag, card, projected, indent, ancestry, parent)` -/
def dmElement (s : Schema N) (dims : List (Txt × Nat)) (name : String) (tag : Txt) (card : Card) (projected : Bool)
    (indent : Nat) (anc : List String) (parent : Option String) : Except GenErr DmOut :=
  if hA : name ∈ anc ∧ ¬ (name = "default" ∧ parent = some "default") then .error .assertionError
  else
    match hf : findElement s name with
    | none => .error .keyError
    | some e =>
      let selfRec := (memberChildren e.members).any (fun c => c.name = name)
      let topDefault : Bool := decide (name = "default" ∧ parent = some "mujoco")
      let ns := elementNamespace s e parent
      let nsOn : Option Txt := match ns with | some t => if t = [] then none else some t | none => none
      let parts : List Txt := [L "<element name=\"" ++ tag ++ L "\""]
        ++ (if selfRec ∧ ¬ topDefault then [L "recursive=\"true\""] else [])
        ++ (if (card = .star ∨ card = .rep) ∧ ¬ topDefault ∧ ¬ isSingleton parent tag then [L "repeated=\"true\""] else [])
        ++ (if name ∈ onDemand then [L "on_demand=\"true\""] else [])
        ++ (match nsOn with | some t => if t ≠ tag then [L "namespace=\"" ++ t ++ L "\""] else [] | none => [])
      let attrs0 := expandedAttrs s e.members
      let attrs := if projected then projectAttrs attrs0 else attrs0
      let names := attrs.map (·.name)
      match mapE (dmAttr s dims (indent + 4) e names) attrs with
      | .error x => .error x
      | .ok arows =>
        let alines := if attrs.isEmpty then [] else
          [ind (indent + 2) (L "<attributes>")] ++ arows.map (·.1) ++ [ind (indent + 2) (L "</attributes>")]
        match dmKids s e tag projected topDefault with
        | .error x => .error x
        | .ok kids =>
          match dmChildren s dims name (indent + 4) anc kids with
          | .error x => .error x
          | .ok ko =>
            let klines := if kids.isEmpty then [] else
              [ind (indent + 2) (L "<children>")] ++ ko.lines ++ [ind (indent + 2) (L "</children>")]
            .ok ⟨[ind indent (joinWith [' '] parts ++ L ">")] ++ alines ++ klines ++ [ind indent (L "</element>")],
                 arows.filterMap (·.2) ++ ko.refs, (match nsOn with | some t => [t] | none => []) ++ ko.ids⟩
termination_by (unseenN s anc, if name ∈ anc then 2 else 0, 0)
decreasing_by
  by_cases hin : name ∈ anc
  · have h1 := unseenN_append_mem s hin
    simp only [hin, ↓reduceIte, h1]
    apply Prod.Lex.right; apply Prod.Lex.left; omega
  · simp only [hin, ↓reduceIte]
    apply Prod.Lex.left; exact unseenN_lt hf hin

/-- The loop over `children`, with `ancestry | {name}`.  A child already among the ancestors is only entered from
    a parent that was not (the nested `default` copy under the top-level `default`); otherwise `emit_element`'s
    assertion fails. -/
def dmChildren (s : Schema N) (dims : List (Txt × Nat)) (name : String) (indent : Nat) (anc : List String) :
    List DmKid → Except GenErr DmOut
  | [] => .ok ⟨[], [], []⟩
  | k :: ks =>
    if hok : k.name ∉ anc ++ [name] ∨ name ∉ anc then
      match dmElement s dims k.name k.tag k.card k.projected indent (anc ++ [name]) (some name) with
      | .error x => .error x
      | .ok o =>
        match dmChildren s dims name indent anc ks with
        | .error x => .error x
        | .ok os => .ok ⟨o.lines ++ os.lines, o.refs ++ os.refs, o.ids ++ os.ids⟩
    else if k.name = "default" ∧ name = "default" then .error .unmodelled   -- excluded: that parent lists no self-child
    else .error .assertionError
termination_by ks => (unseenN s (anc ++ [name]), if name ∈ anc then 1 else 3, ks.length + 1)
decreasing_by
  · apply Prod.Lex.right
    rcases hok with h | h
    · simp only [h, ↓reduceIte]; apply Prod.Lex.left; split <;> omega
    · simp only [h, ↓reduceIte]; apply Prod.Lex.left; split <;> omega
  · apply Prod.Lex.right; apply Prod.Lex.right; simp
end

def genDmcontrol (s : Schema N) (dims : List (Txt × Nat)) : Except GenErr Txt :=
  match dmElement s dims "mujoco" (L "mujoco") .one false 0 [] none with
  | .error x => .error x
  | .ok o =>
    if o.refs.any (fun r => r ∉ o.ids) then .error .valueError
    else .ok (joinNL ([L "<!-- Generated by generate_dmcontrol.py from mjcf.schema;",
                       L "     do not edit by hand. The element surface is frozen to",
                       L "     what dm_control supports (see EXCLUDED_ELEMENTS);",
                       L "     attribute facts follow mjcf.schema. -->"] ++ o.lines) ++ ['\n'])

end MjProof.SchemaGen
