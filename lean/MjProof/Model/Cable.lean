import MjProof.Gen.CablePlugin
/-
C51 — the cable elasticity plugin `plugin/elasticity/cable.cc` as a composition of its *generated* kernels
(`MjProof.Gen.cable_QuatDiff`, `cable_LocalStress_pull/_nopull`, `cable_subQuat` = `mju_subQuat`,
`cable_rotVecQuat` = `mju_rotVecQuat`, translated from the working tree by translate/c51_cable.py).

* constructor: reference curvature `omega0[b] = mju_subQuat(body_quat[b], qpos0 joint quat)` for every body that has
  a predecessor unless `flat`, else 0.
* `Compute`, per body b of the chain in order: skipped when its three stiffnesses are all 0; otherwise
  `stress[b] = LocalStress(stiffness[b], QuatDiff(body_quat[b], q[b]), omega0[b], pullback)` when b has a predecessor,
  `stress[b+1] = LocalStress(stiffness[b+1], QuatDiff(body_quat[b+1], q[b+1]), omega0[b+1])` when it has a successor,
  `lfrc = stress[b] - stress[b+1]`, torque `mju_rotVecQuat(lfrc, xquat[b])` applied with `mj_applyFT`.
The stress array (observable: public member) is tied bit-for-bit; the torque enters `qfrc_passive` through the
engine's Jacobian and is covered by the oracle only.
-/
namespace MjProof.Cable
open MjProof MjProof.Gen

abbrev Q (α : Type) := α × α × α × α
abbrev V (α : Type) := α × α × α

structure Body (α : Type) where
  /-- `m->body_quat` -/
  bq : Q α
  /-- joint quaternion in `qpos0` and in `qpos` (identity for a first body without joint) -/
  q0 : Q α
  q : Q α
  /-- `stiffness[4b..4b+3]` = (J·G, Iy·E, Iz·E, distance to the predecessor) -/
  stiff : Q α
  /-- `d->xquat` -/
  xquat : Q α

section
variable {α : Type} [MjNum α]

def zero3 : V α := (MjNum.ofInt 0, MjNum.ofInt 0, MjNum.ofInt 0)

/-- constructor: `omega0` of a body (`hasPrev` = it is not the first of the chain) -/
def omega0Of (flat : Bool) (hasPrev : Bool) (b : Body α) : V α :=
  if hasPrev && !flat then
    cable_subQuat b.bq.1 b.bq.2.1 b.bq.2.2.1 b.bq.2.2.2 b.q0.1 b.q0.2.1 b.q0.2.2.1 b.q0.2.2.2
  else zero3

def quatDiff (b : Body α) : Q α :=
  cable_QuatDiff b.bq.1 b.bq.2.1 b.bq.2.2.1 b.bq.2.2.2 b.q.1 b.q.2.1 b.q.2.2.1 b.q.2.2.2

def stressPull (b : Body α) (w : V α) : V α :=
  let q := quatDiff b
  cable_LocalStress_pull b.stiff.1 b.stiff.2.1 b.stiff.2.2.1 b.stiff.2.2.2 q.1 q.2.1 q.2.2.1 q.2.2.2 w.1 w.2.1 w.2.2

def stressNoPull (b : Body α) (w : V α) : V α :=
  let q := quatDiff b
  cable_LocalStress_nopull b.stiff.1 b.stiff.2.1 b.stiff.2.2.1 b.stiff.2.2.2 q.1 q.2.1 q.2.2.1 q.2.2.2 w.1 w.2.1 w.2.2

/-- `!stiffness[0] && !stiffness[1] && !stiffness[2]` -/
def skipped (b : Body α) : Bool :=
  MjNum.beq b.stiff.1 (MjNum.ofInt 0) && MjNum.beq b.stiff.2.1 (MjNum.ofInt 0) && MjNum.beq b.stiff.2.2.1 (MjNum.ofInt 0)

/-- `mju_addToScl3(lfrc, v, s)` -/
def addScl (l v : V α) (s : α) : V α := (l.1 + v.1 * s, l.2.1 + v.2.1 * s, l.2.2 + v.2.2 * s)

/-- one iteration of the loop of `Cable::Compute` for body `cur` (with reference curvature `wc`), whose
successor, if any, is `nxt` with curvature `wn`; `sc`, `sn` are the current entries of the stress array.
Returns the new entries and the torque applied to the body (`none` when the body is skipped). -/
def iteration (hasPrev : Bool) (cur : Body α) (wc : V α) (sc : V α) (nxt : Option (Body α × V α × V α)) :
    V α × Option (V α) × Option (V α) :=
  if skipped cur then (sc, nxt.map (·.2.2), none) else
  let sc' := if hasPrev then stressPull cur wc else sc
  let l0 : V α := if hasPrev then addScl zero3 sc' (MjNum.ofInt 1) else zero3
  match nxt with
  | some (nb, wn, _) =>
    let sn' := stressNoPull nb wn
    let l1 := addScl l0 sn' (MjNum.ofInt (-1))
    (sc', some sn', some (cable_rotVecQuat l1.1 l1.2.1 l1.2.2 cur.xquat.1 cur.xquat.2.1 cur.xquat.2.2.1 cur.xquat.2.2.2))
  | none =>
    (sc', none, some (cable_rotVecQuat l0.1 l0.2.1 l0.2.2 cur.xquat.1 cur.xquat.2.1 cur.xquat.2.2.1 cur.xquat.2.2.2))

/-- the loop over the chain from the current body (with its `omega0` and current stress entry) on; returns the
final stress entries and the torques, in body order -/
def loopFrom : Bool → (Body α × V α × V α) → List (Body α × V α × V α) → List (V α × Option (V α))
  | hasPrev, (b, w, s), [] =>
    let r := iteration hasPrev b w s none
    [(r.1, r.2.2)]
  | hasPrev, (b, w, s), (nb, wn, sn) :: rest =>
    let r := iteration hasPrev b w s (some (nb, wn, sn))
    let sn' := match r.2.1 with | some x => x | none => sn
    (r.1, r.2.2) :: loopFrom true (nb, wn, sn') rest

def loop (hasPrev : Bool) : List (Body α × V α × V α) → List (V α × Option (V α))
  | [] => []
  | t :: ts => loopFrom hasPrev t ts

/-- constructor: every body of the chain with its reference curvature and its (zero-initialised) stress entry -/
def prep (flat : Bool) : Bool → List (Body α) → List (Body α × V α × V α)
  | _, [] => []
  | hasPrev, b :: bs => (b, omega0Of flat hasPrev b, zero3) :: prep flat true bs

/-- `Cable::Compute` on a freshly constructed plugin (stress array all 0): final stresses and torques -/
def compute (flat : Bool) (bodies : List (Body α)) : List (V α × Option (V α)) :=
  loop false (prep flat false bodies)

end
end MjProof.Cable
