import MjProof.Model.Orient
/-
Pose model of `mjs_attach` (src/user/user_api.cc) and of the frame / body pose steps of the model compiler (C36).

What the code does, as far as the pose of an attached body is concerned:

* every element remembers the compiler settings of the spec it was written in (`mjCBase::compiler`, re-pointed to the
  origin spec by `CopyList` / `SetModel` / `operator+=`): `degree` and `eulerseq` of the CHILD spec keep governing the
  orientation spellings of attached elements.  `Placed.comp` is that record.
* `mjCFrame::Compile`: `ResolveOrientation(quat, compiler->degree, compiler->eulerseq, alt)`, accumulate the parent
  frame (`mjuu_frameaccumChild`), `mjuu_normvec(quat, 4)`                                         — `compileFrame`.
* `mjCBody::Compile`: `mjuu_normvec(quat, 4)`, `ResolveOrientation` when `alt` is not a quaternion, then
  `mjuu_frameaccumChild(frame->pos, frame->quat, pos, quat)` when the body lives in a frame      — `compileBody`.
* `mjs_attach(parent, child)` dispatches on the element types:
    frame <- body    the child body gets the parent frame                                 (`attachBody`)
    frame <- frame   the child frame is added to the frame's body and nested in the frame (`attachFrame` + `mjs_setFrame`)
    body  <- frame   the child frame is added to the body                                 (`attachFrame`)
    body  <- body    error "child element is not a frame"
    site  <- body    a NEW frame is added to the site's body, nested in the site's own frame, with the site's `pos` and
                     with `quat` = the site's `quat` run through `mjs_resolveOrientation` with the site's `alt` and the
                     `degree` / `eulerseq` of the spec that owns the site at that moment (`mjs_getSpec`); the result of the
                     resolution is not checked; the child body gets that frame            (`attachToSite`)
    site  <- frame   the same new frame; the child frame is nested in it                  (`attachFrameToSite`)
    *     <- model   a new identity frame is added to the child's world body, every child of the world is put in it,
                     and that frame is attached as above.

`attachChain` is that dispatch: it returns the list of nested frames (outermost first) in which the observed body ends
up, `inlineChain` is the written-out description the property compares with, `placeBody` evaluates a chain.
Generic over `MjNum α`; core Lean only.  Tied to the code by the bitwise differential `att` of checks/c36.py.
-/
namespace MjProof.Attach
open MjProof MjProof.Orient

variable {α : Type} [MjNum α]

/-- the compiler settings that govern orientation spellings -/
structure Comp where
  degree : Bool
  seq : Nat × Nat × Nat
  deriving DecidableEq, Repr

/-- the pose fields of a spec element as written: `pos`, `quat`, `alt`, and the compiler of its origin spec -/
structure Placed (α : Type) where
  comp : Comp
  pos : V3 α
  quat : Q α
  alt : OrientSpec α

abbrev Pose (α : Type) := V3 α × Q α

/-- `mjCFrame::Compile` -/
def compileFrame (pi : α) (parent : Option (Pose α)) (f : Placed α) : Except String (Pose α) :=
  match resolveOrientation pi f.quat f.comp.degree f.comp.seq f.alt with
  | .error e => .error e
  | .ok q =>
    match parent with
    | none => .ok (f.pos, (normvec4 q).1)
    | some p =>
      let r := frameaccumChild p.1 p.2 f.pos q
      .ok (r.1, (normvec4 r.2).1)

/-- a chain of nested frames, outermost first, compiled inside `acc` -/
def compileChain (pi : α) : Option (Pose α) → List (Placed α) → Except String (Option (Pose α))
  | acc, [] => .ok acc
  | acc, f :: fs =>
    match compileFrame pi acc f with
    | .error e => .error e
    | .ok p => compileChain pi (some p) fs

/-- the pose steps of `mjCBody::Compile` -/
def compileBody (pi : α) (frame : Option (Pose α)) (b : Placed α) : Except String (Pose α) :=
  match resolveOrientation pi (normvec4 b.quat).1 b.comp.degree b.comp.seq b.alt with
  | .error e => .error e
  | .ok q =>
    match frame with
    | none => .ok (b.pos, q)
    | some f => .ok (frameaccumChild f.1 f.2 b.pos q)

/-- body `b` inside the nested frames `chain`: compiled `body_pos`, `body_quat` relative to the parent body -/
def placeBody (pi : α) (chain : List (Placed α)) (b : Placed α) : Except String (Pose α) :=
  match compileChain pi none chain with
  | .error e => .error e
  | .ok fr => compileBody pi fr b

/-- the attachment point (first argument of `mjs_attach`) -/
inductive Point (α : Type) where
  /-- a body -/
  | body
  /-- a frame `f` nested in the frames `outer` (outermost first) -/
  | frame (outer : List (Placed α)) (f : Placed α)
  /-- a site `s` whose own frame chain is `outer`; `owner` = compiler of the spec `mjs_getSpec` returns for the site -/
  | site (outer : List (Placed α)) (s : Placed α) (owner : Comp)

/-- the attached element (second argument of `mjs_attach`) together with the observed body -/
inductive Child (α : Type) where
  /-- a body of the child spec -/
  | body (b : Placed α)
  /-- a frame `g` of the child spec; the observed body lives in the frames `inner` nested in `g` -/
  | frame (g : Placed α) (inner : List (Placed α)) (b : Placed α)
  /-- the whole child spec (compiler `c`); the observed body lives in the frames `inner` of the child's world -/
  | model (c : Comp) (inner : List (Placed α)) (b : Placed α)

/-- the frame `attachToSite` / `attachFrameToSite` add to the site's body.  `host` is the compiler of the model the
    site's body belongs to (the new frame's own compiler — irrelevant, its `alt` is a quaternion).  The return value of
    `mjs_resolveOrientation` is not checked: on an error the frame keeps the site's `quat`. -/
def siteFrame (pi : α) (host : Comp) (s : Placed α) (owner : Comp) : Placed α :=
  match resolveOrientation pi s.quat owner.degree owner.seq s.alt with
  | .ok q => ⟨host, s.pos, q, .quat⟩
  | .error _ => ⟨host, s.pos, s.quat, .quat⟩

/-- the identity frame `mjs_attach` adds to the world body of an attached model -/
def worldFrame (c : Comp) : Placed α := ⟨c, v3zero, qunit, .quat⟩

/-- the frames below the attachment point and the observed body -/
def childChain : Child α → List (Placed α) × Placed α
  | .body b => ([], b)
  | .frame g inner b => (g :: inner, b)
  | .model c inner b => (worldFrame c :: inner, b)

/-- `mjs_attach`: the nested frames the observed body ends up in, or the error of the dispatch -/
def attachChain (pi : α) (host : Comp) : Point α → Child α → Except String (List (Placed α) × Placed α)
  | .body, .body _ => .error "child element is not a frame"
  | .body, c => .ok (childChain c)
  | .frame outer f, c => .ok (outer ++ f :: (childChain c).1, (childChain c).2)
  | .site outer s owner, c => .ok (outer ++ siteFrame pi host s owner :: (childChain c).1, (childChain c).2)

/-- compiled pose of the observed body after `mjs_attach`; a site with an unresolvable orientation makes the
    compilation of the site itself fail -/
def attachPose (pi : α) (host : Comp) (p : Point α) (c : Child α) : Except String (Pose α) :=
  match attachChain pi host p c with
  | .error e => .error e
  | .ok (chain, b) =>
    match p with
    | .site _ s _ =>
      match resolveOrientation pi s.quat s.comp.degree s.comp.seq s.alt with
      | .error e => .error e
      | .ok _ => placeBody pi chain b
    | _ => placeBody pi chain b

/-- the written-out description: the attachment point spelled as a frame (a site as a frame with the site's `pos`,
    `quat` and `alt`), the attached frames and the body written inside it; an attached model contributes its world's
    children directly -/
def inlineChain : Point α → Child α → List (Placed α) × Placed α
  | p, c =>
    let pre : List (Placed α) :=
      match p with
      | .body => []
      | .frame outer f => outer ++ [f]
      | .site outer s _ => outer ++ [s]
    match c with
    | .body b => (pre, b)
    | .frame g inner b => (pre ++ g :: inner, b)
    | .model _ inner b => (pre ++ inner, b)

def inlinePose (pi : α) (p : Point α) (c : Child α) : Except String (Pose α) :=
  placeBody pi (inlineChain p c).1 (inlineChain p c).2

end MjProof.Attach
