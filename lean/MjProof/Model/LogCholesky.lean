import MjProof.Num
/-
Model of the log-Cholesky inertia parametrisation of
`python/mujoco/sysid/_src/model_modifier.py` (functions `pi_from_theta`, `pseudoinertia_from_pi`,
`cholesky_decompose_upper`, `theta_from_pseudoinertia`, and the arithmetic of
`apply_body_theta_inertia`), generic over `MjNum α` (runs on `Float`, reasoned about on `ℝ`).
Core Lean only.

What is modelled, entry by entry, is what the numpy code computes:

* `U` : the 4×4 upper-triangular matrix filled by `pi_from_theta`, every entry multiplied by
  `exp alpha` (`U *= exp_alpha`; the (3,3) entry is `1 * exp alpha`);
* `J = U @ U.T` : `J[a][b] = Σ_k U[a][k]·U[b][k]`.  The products with the structural zeros of `U`
  are omitted (`0·x = 0`, `s + 0 = s` exactly for the finite values of the tested box), the order of the
  remaining terms is ascending `k` (BLAS may use another order / FMA: the correspondence is up to a
  stated tolerance, not bitwise);
* `pi_from_theta` returns **13** numbers `[m, h(3), I_bar.flatten()(9)]` (the docstring says 10; the code
  concatenates the flattened 3×3 matrix, and `pseudoinertia_from_pi` reads `pi[4:].reshape(3,3)`);
* `cholesky_decompose_upper` = `np.linalg.cholesky` of the index-reversed matrix, re-reversed.  LAPACK
  `potrf('L')` reads only the lower triangle of the reversed matrix, i.e. the entries `J[a][b]`, `a ≤ b`,
  of `J`; it fails (numpy raises `LinAlgError`) when a pivot is `≤ 0` or NaN.  The model is the
  explicit 4×4 recurrence in the order potrf visits the pivots (`U33, U22, U11, U00`), with `none` for
  the failure.
-/
namespace MjProof.LogChol
open MjNum

/-- θ = [alpha, d1, d2, d3, s12, s23, s13, t1, t2, t3] (the order of the numpy arrays). -/
structure Theta (α : Type) where
  alpha : α
  d1 : α
  d2 : α
  d3 : α
  s12 : α
  s23 : α
  s13 : α
  t1 : α
  t2 : α
  t3 : α

/-- the non-zero entries of a 4×4 upper-triangular matrix -/
structure Upper (α : Type) where
  u00 : α
  u01 : α
  u02 : α
  u03 : α
  u11 : α
  u12 : α
  u13 : α
  u22 : α
  u23 : α
  u33 : α

structure Mat3 (α : Type) where
  m00 : α
  m01 : α
  m02 : α
  m10 : α
  m11 : α
  m12 : α
  m20 : α
  m21 : α
  m22 : α

structure Mat4 (α : Type) where
  j00 : α
  j01 : α
  j02 : α
  j03 : α
  j10 : α
  j11 : α
  j12 : α
  j13 : α
  j20 : α
  j21 : α
  j22 : α
  j23 : α
  j30 : α
  j31 : α
  j32 : α
  j33 : α

/-- the 13-vector returned by `pi_from_theta`: mass, first moment, rotational inertia (row-major) -/
structure Pi (α : Type) where
  m : α
  h0 : α
  h1 : α
  h2 : α
  I : Mat3 α

/-- what `apply_body_theta_inertia` writes to the body: mass, ipos, fullinertia
    (`[Ixx, Iyy, Izz, Ixy, Ixz, Iyz]` about the centre of mass) -/
structure BodyInertial (α : Type) where
  mass : α
  ipos0 : α
  ipos1 : α
  ipos2 : α
  fxx : α
  fyy : α
  fzz : α
  fxy : α
  fxz : α
  fyz : α

variable {α : Type} [MjNum α]

/-- `U` of `pi_from_theta` after `U *= exp_alpha`. -/
def upperOfTheta (θ : Theta α) : Upper α :=
  let ea := exp θ.alpha
  { u00 := exp θ.d1 * ea, u01 := θ.s12 * ea, u02 := θ.s13 * ea, u03 := θ.t1 * ea,
    u11 := exp θ.d2 * ea, u12 := θ.s23 * ea, u13 := θ.t2 * ea,
    u22 := exp θ.d3 * ea, u23 := θ.t3 * ea,
    u33 := lit 1 * ea }

/-- `J = U @ U.T` for upper-triangular `U`. -/
def mulTranspose (U : Upper α) : Mat4 α :=
  let j00 := U.u00 * U.u00 + U.u01 * U.u01 + U.u02 * U.u02 + U.u03 * U.u03
  let j01 := U.u01 * U.u11 + U.u02 * U.u12 + U.u03 * U.u13
  let j02 := U.u02 * U.u22 + U.u03 * U.u23
  let j03 := U.u03 * U.u33
  let j11 := U.u11 * U.u11 + U.u12 * U.u12 + U.u13 * U.u13
  let j12 := U.u12 * U.u22 + U.u13 * U.u23
  let j13 := U.u13 * U.u33
  let j22 := U.u22 * U.u22 + U.u23 * U.u23
  let j23 := U.u23 * U.u33
  let j33 := U.u33 * U.u33
  { j00 := j00, j01 := j01, j02 := j02, j03 := j03,
    j10 := j01, j11 := j11, j12 := j12, j13 := j13,
    j20 := j02, j21 := j12, j22 := j22, j23 := j23,
    j30 := j03, j31 := j13, j32 := j23, j33 := j33 }

/-- the tail of `pi_from_theta`: `sigma = J[:3,:3]`, `I_bar = trace(sigma)·eye(3) − sigma`,
    `h = J[:3,3]`, `m = J[3,3]`. -/
def piOfPseudo (J : Mat4 α) : Pi α :=
  let tr := J.j00 + J.j11 + J.j22
  { m := J.j33, h0 := J.j03, h1 := J.j13, h2 := J.j23,
    I := { m00 := tr - J.j00, m01 := lit 0 - J.j01, m02 := lit 0 - J.j02,
           m10 := lit 0 - J.j10, m11 := tr - J.j11, m12 := lit 0 - J.j12,
           m20 := lit 0 - J.j20, m21 := lit 0 - J.j21, m22 := tr - J.j22 } }

/-- `pi_from_theta`. -/
def piFromTheta (θ : Theta α) : Pi α := piOfPseudo (mulTranspose (upperOfTheta θ))

/-- `pseudoinertia_from_pi`: `Sigma = 0.5·trace(I_bar)·eye(3) − I_bar`, `J = [[Sigma, h],[hᵀ, m]]`. -/
def pseudoFromPi (p : Pi α) : Mat4 α :=
  let c := ofSci 5 true 1 * (p.I.m00 + p.I.m11 + p.I.m22)
  { j00 := c - p.I.m00, j01 := lit 0 - p.I.m01, j02 := lit 0 - p.I.m02, j03 := p.h0,
    j10 := lit 0 - p.I.m10, j11 := c - p.I.m11, j12 := lit 0 - p.I.m12, j13 := p.h1,
    j20 := lit 0 - p.I.m20, j21 := lit 0 - p.I.m21, j22 := c - p.I.m22, j23 := p.h2,
    j30 := p.h0, j31 := p.h1, j32 := p.h2, j33 := p.m }

/-- a Cholesky pivot: LAPACK `potrf` stops with `info > 0` (numpy: `LinAlgError`) when the
    reduced diagonal entry is `≤ 0` or NaN, otherwise takes its square root. -/
def pivot? (p : α) : Option α :=
  if p ≤ lit 0 then none else if isNaN p then none else some (sqrt p)

/-- `cholesky_decompose_upper J`: the upper-triangular `U` with `J = U Uᵀ`, computed by the Cholesky
    recurrence on the index-reversed matrix (reads `J[a][b]`, `a ≤ b`, only). -/
def cholUpper (J : Mat4 α) : Option (Upper α) :=
  match pivot? J.j33 with
  | none => none
  | some u33 =>
    let u03 := J.j03 / u33
    let u13 := J.j13 / u33
    let u23 := J.j23 / u33
    match pivot? (J.j22 - u23 * u23) with
    | none => none
    | some u22 =>
      let u12 := (J.j12 - u13 * u23) / u22
      let u02 := (J.j02 - u03 * u23) / u22
      match pivot? (J.j11 - u13 * u13 - u12 * u12) with
      | none => none
      | some u11 =>
        let u01 := (J.j01 - u03 * u13 - u02 * u12) / u11
        match pivot? (J.j00 - u03 * u03 - u02 * u02 - u01 * u01) with
        | none => none
        | some u00 =>
          some { u00 := u00, u01 := u01, u02 := u02, u03 := u03, u11 := u11, u12 := u12,
                 u13 := u13, u22 := u22, u23 := u23, u33 := u33 }

/-- the parameter extraction of `theta_from_pseudoinertia` from the factor `U`. -/
def thetaOfUpper (U : Upper α) : Theta α :=
  let ea := U.u33
  { alpha := log ea,
    d1 := log (U.u00 / ea), d2 := log (U.u11 / ea), d3 := log (U.u22 / ea),
    s12 := U.u01 / ea, s23 := U.u12 / ea, s13 := U.u02 / ea,
    t1 := U.u03 / ea, t2 := U.u13 / ea, t3 := U.u23 / ea }

/-- `theta_from_pseudoinertia` (`none` = `LinAlgError`). -/
def thetaFromPseudo (J : Mat4 α) : Option (Theta α) := (cholUpper J).map thetaOfUpper

/-- The arithmetic of `apply_body_theta_inertia` on `pi`: `mass = pi[0]`, `ipos = pi[1:4]/pi[0]`,
    `fullinertia = I_bar + (mass·skew(ipos)) @ skew(ipos)`, entries (0,0),(1,1),(2,2),(0,1),(0,2),(1,2).
    `skew(v) = [[0,−z,y],[z,0,−x],[−y,x,0]]`; products with the zero diagonal of `skew` are omitted. -/
def bodyOfPi (p : Pi α) : BodyInertial α :=
  let m := p.m
  let x := p.h0 / m
  let y := p.h1 / m
  let z := p.h2 / m
  { mass := m, ipos0 := x, ipos1 := y, ipos2 := z,
    fxx := p.I.m00 + ((m * (-z)) * z + (m * y) * (-y)),
    fyy := p.I.m11 + ((m * z) * (-z) + (m * (-x)) * x),
    fzz := p.I.m22 + ((m * (-y)) * y + (m * x) * (-x)),
    fxy := p.I.m01 + (m * y) * x,
    fxz := p.I.m02 + (m * (-z)) * (-x),
    fyz := p.I.m12 + (m * z) * y }

/-- `apply_body_theta_inertia` up to the writes into the `MjsBody`. -/
def bodyOfTheta (θ : Theta α) : BodyInertial α := bodyOfPi (piFromTheta θ)

/-- `theta_from_pseudoinertia(pseudoinertia_from_pi(pi_from_theta(θ)))` -/
def roundTrip (θ : Theta α) : Option (Theta α) := thetaFromPseudo (pseudoFromPi (piFromTheta θ))

end MjProof.LogChol
