import MjProof.Num
/-
Model of the log-Cholesky inertia parametrisation of
`python/mujoco/sysid/_src/model_modifier.py` (functions `pi_from_theta`, `pseudoinertia_from_pi`,
`cholesky_decompose_upper`, `theta_from_pseudoinertia`, and the arithmetic of
`apply_body_theta_inertia`), generic over `MjNum α` (runs on `Float`, reasoned about on `ℝ`).
Core Lean only.

What is modelled, entry by entry, is what the numpy code computes:

* `U` : the 4×4 upper-triangular matrix filled by `pi_from_theta`, every entry multiplied by
  `exp alpha` (`U *= exp_alpha`; the (3,3) entry is `1 * exp alpha`);
* `J = U @ U.T` : `J[a][b] = Σ_k U[a][k]·U[b][k]`.  The products with the structural zeros of `U`
  are omitted (`0·x = 0`, `s + 0 = s` exactly for the finite values of the tested box), the order of the
  remaining terms is ascending `k` (BLAS may use another order / FMA: the correspondence is up to a
  stated tolerance, not bitwise);
* `pi_from_theta` returns **13** numbers `[m, h(3), I_bar.flatten()(9)]` (the docstring says 10; the code
  concatenates the flattened 3×3 matrix, and `pseudoinertia_from_pi` reads `pi[4:].reshape(3,3)`);
* `cholesky_decompose_upper` = `np.linalg.cholesky` of the index-reversed matrix, re-reversed.  LAPACK
  `potrf('L')` reads only the lower triangle of the reversed matrix, i.e. the entries `J[a][b]`, `a ≤ b`,
  of `J`; it fails (numpy raises `LinAlgError`) when a pivot is `≤ 0` or NaN.  The model is the
  explicit 4×4 recurrence in the order potrf visits the pivots (`U33, U22, U11, U00`), with `none` for
  the failure.
-/
namespace MjProof.LogChol
open MjNum

/-- θ = [alpha, d1, d2, d3, s12, s23, s13, t1, t2, t3] (the order of the numpy arrays). -/
structure Theta (α : Type) where
  alpha : α
  d1 : α
  d2 : α
  d3 : α
  s12 : α
  s23 : α
  s13 : α
  t1 : α
  t2 : α
  t3 : α

/-- the non-zero entries of a 4×4 upper-triangular matrix -/
structure Upper (α : Type) where
  u00 : α
  u01 : α
  u02 : α
  u03 : α
  u11 : α
  u12 : α
  u13 : α
  u22 : α
  u23 : α
  u33 : α

structure Mat3 (α : Type) where
  m00 : α
  m01 : α
  m02 : α
  m10 : α
  m11 : α
  m12 : α
  m20 : α
  m21 : α
  m22 : α

structure Mat4 (α : Type) where
  j00 : α
  j01 : α
  j02 : α
  j03 : α
  j10 : α
  j11 : α
  j12 : α
  j13 : α
  j20 : α
  j21 : α
  j22 : α
  j23 : α
  j30 : α
  j31 : α
  j32 : α
  j33 : α

/-- the 13-vector returned by `pi_from_theta`: mass, first moment, rotational inertia (row-major) -/
structure Pi (α : Type) where
  m : α
  h0 : α
  h1 : α
  h2 : α
  I : Mat3 α

/-- what `apply_body_theta_inertia` writes to the body: mass, ipos, fullinertia
    (`[Ixx, Iyy, Izz, Ixy, Ixz, Iyz]` about the centre of mass) -/
structure BodyInertial (α : Type) where
  mass : α
  ipos0 : α
  ipos1 : α
  ipos2 : α
  fxx : α
  fyy : α
  fzz : α
  fxy : α
  fxz : α
  fyz : α

variable {α : Type} [MjNum α]

/-- `U` of `pi_from_theta` after `U *= exp_alpha`. -/
def upperOfTheta (θ : Theta α) : Upper α :=
  let ea := exp θ.alpha
  { u00 := exp θ.d1 * ea, u01 := θ.s12 * ea, u02 := θ.s13 * ea, u03 := θ.t1 * ea,
    u11 := exp θ.d2 * ea, u12 := θ.s23 * ea, u13 := θ.t2 * ea,
    u22 := exp θ.d3 * ea, u23 := θ.t3 * ea,
    u33 := lit 1 * ea }

/-- `J = U @ U.T` for upper-triangular `U`. -/
def mulTranspose (U : Upper α) : Mat4 α :=
  let j00 := U.u00 * U.u00 + U.u01 * U.u01 + U.u02 * U.u02 + U.u03 * U.u03
  let j01 := U.u01 * U.u11 + U.u02 * U.u12 + U.u03 * U.u13
  let j02 := U.u02 * U.u22 + U.u03 * U.u23
  let j03 := U.u03 * U.u33
  let j11 := U.u11 * U.u11 + U.u12 * U.u12 + U.u13 * U.u13
  let j12 := U.u12 * U.u22 + U.u13 * U.u23
  let j13 := U.u13 * U.u33
  let j22 := U.u22 * U.u22 + U.u23 * U.u23
  let j23 := U.u23 * U.u33
  let j33 := U.u33 * U.u33
  { j00 := j00, j01 := j01, j02 := j02, j03 := j03,
    j10 := j01, j11 := j11, j12 := j12, j13 := j13,
    j20 := j02, j21 := j12, j22 := j22, j23 := j23,
    j30 := j03, j31 := j13, j32 := j23, j33 := j33 }

/-- the tail of `pi_from_theta`: `sigma = J[:3,:3]`, `I_bar = trace(sigma)·eye(3) − sigma`,
    `h = J[:3,3]`, `m = J[3,3]`. -/
def piOfPseudo (J : Mat4 α) : Pi α :=
  let tr := J.j00 + J.j11 + J.j22
  { m := J.j33, h0 := J.j03, h1 := J.j13, h2 := J.j23,
    I := { m00 := tr - J.j00, m01 := lit 0 - J.j01, m02 := lit 0 - J.j02,
           m10 := lit 0 - J.j10, m11 := tr - J.j11, m12 := lit 0 - J.j12,
           m20 := lit 0 - J.j20, m21 := lit 0 - J.j21, m22 := tr - J.j22 } }

/-- `pi_from_theta`. -/
def piFromTheta (θ : Theta α) : Pi α := piOfPseudo (mulTranspose (upperOfTheta θ))

/-- `pseudoinertia_from_pi`: `Sigma = 0.5·trace(I_bar)·eye(3) − I_bar`, `J = [[Sigma, h],[hᵀ, m]]`. -/
def pseudoFromPi (p : Pi α) : Mat4 α :=
  let c := ofSci 5 true 1 * (p.I.m00 + p.I.m11 + p.I.m22)
  { j00 := c - p.I.m00, j01 := lit 0 - p.I.m01, j02 := lit 0 - p.I.m02, j03 := p.h0,
    j10 := lit 0 - p.I.m10, j11 := c - p.I.m11, j12 := lit 0 - p.I.m12, j13 := p.h1,
    j20 := lit 0 - p.I.m20, j21 := lit 0 - p.I.m21, j22 := c - p.I.m22, j23 := p.h2,
    j30 := p.h0, j31 := p.h1, j32 := p.h2, j33 := p.m }

/-- a Cholesky pivot: LAPACK `potrf` stops with `info > 0` (numpy: `LinAlgError`) when the
    reduced diagonal entry is `≤ 0` or NaN, otherwise takes its square root. -/
def pivot? (p : α) : Option α :=
  if p ≤ lit 0 then none else if isNaN p then none else some (sqrt p)

/-- `cholesky_decompose_upper J`: the upper-triangular `U` with `J = U Uᵀ`, computed by the Cholesky
    recurrence on the index-reversed matrix (reads `J[a][b]`, `a ≤ b`, only). -/
def cholUpper (J : Mat4 α) : Option (Upper α) :=
  match pivot? J.j33 with
  | none => none
  | some u33 =>
    let u03 := J.j03 / u33
    let u13 := J.j13 / u33
    let u23 := J.j23 / u33
    match pivot? (J.j22 - u23 * u23) with
    | none => none
    | some u22 =>
      let u12 := (J.j12 - u13 * u23) / u22
      let u02 := (J.j02 - u03 * u23) / u22
      match pivot? (J.j11 - u13 * u13 - u12 * u12) with
      | none => none
      | some u11 =>
        let u01 := (J.j01 - u03 * u13 - u02 * u12) / u11
        match pivot? (J.j00 - u03 * u03 - u02 * u02 - u01 * u01) with
        | none => none
        | some u00 =>
          some { u00 := u00, u01 := u01, u02 := u02, u03 := u03, u11 := u11, u12 := u12,
                 u13 := u13, u22 := u22, u23 := u23, u33 := u33 }

/-- the parameter extraction of `theta_from_pseudoinertia` from the factor `U`. -/
def thetaOfUpper (U : Upper α) : Theta α :=
  let ea := U.u33
  { alpha := log ea,
    d1 := log (U.u00 / ea), d2 := log (U.u11 / ea), d3 := log (U.u22 / ea),
    s12 := U.u01 / ea, s23 := U.u12 / ea, s13 := U.u02 / ea,
    t1 := U.u03 / ea, t2 := U.u13 / ea, t3 := U.u23 / ea }

/-- `theta_from_pseudoinertia` (`none` = `LinAlgError`). -/
def thetaFromPseudo (J : Mat4 α) : Option (Theta α) := (cholUpper J).map thetaOfUpper

/-- The arithmetic of `apply_body_theta_inertia` on `pi`: `mass = pi[0]`, `ipos = pi[1:4]/pi[0]`,
    `fullinertia = I_bar + (mass·skew(ipos)) @ skew(ipos)`, entries (0,0),(1,1),(2,2),(0,1),(0,2),(1,2).
    `skew(v) = [[0,−z,y],[z,0,−x],[−y,x,0]]`; products with the zero diagonal of `skew` are omitted. -/
def bodyOfPi (p : Pi α) : BodyInertial α :=
  let m := p.m
  let x := p.h0 / m
  let y := p.h1 / m
  let z := p.h2 / m
  { mass := m, ipos0 := x, ipos1 := y, ipos2 := z,
    fxx := p.I.m00 + ((m * (-z)) * z + (m * y) * (-y)),
    fyy := p.I.m11 + ((m * z) * (-z) + (m * (-x)) * x),
    fzz := p.I.m22 + ((m * (-y)) * y + (m * x) * (-x)),
    fxy := p.I.m01 + (m * y) * x,
    fxz := p.I.m02 + (m * (-z)) * (-x),
    fyz := p.I.m12 + (m * z) * y }

/-- `apply_body_theta_inertia` up to the writes into the `MjsBody`. -/
def bodyOfTheta (θ : Theta α) : BodyInertial α := bodyOfPi (piFromTheta θ)

/-- `theta_from_pseudoinertia(pseudoinertia_from_pi(pi_from_theta(θ)))` -/
def roundTrip (θ : Theta α) : Option (Theta α) := thetaFromPseudo (pseudoFromPi (piFromTheta θ))


/-! ## The spec-write protocol of `_infer_inertial` / `apply_body_theta_inertia` and the compiler's
    resolution of a body's mass properties

The last clause of C47 ("applying them to a body yields a spec that compiles with the same mass
properties") is about *which source the compiler uses* for the body's inertial (the explicit
`<inertial>` fields of the `mjsBody` or the geoms) as a function of `compiler.inertiafromgeom` and of
which fields are defined, and about what the Python code leaves in the spec.  Modelled here:

* `compileBody` : the mass-property part of `mjCBody::Compile` (src/user/user_objects.cc): the two
  `fullinertia` consistency errors, `mjuu_fullInertia` (abstract `eig`, may fail), the orientation
  alternative, `InertiaFromGeom` under `inertiafromgeom == TRUE || (!defined(ipos[0]) && AUTO)` (abstract
  `geo`: its result over the selected geoms, `none` when no geom with mass is selected; geoms have their
  mass computed only when `!explicitinertial || inertiafromgeom == TRUE`), "ipos undefined: copy body
  frame", `boundmass`/`boundinertia` (`std::max`), the negative and the `A + B >= C` checks with
  `balanceinertia`.
* `Instr`/`exec`/`run` : the statements of `_infer_inertial` and `apply_body_theta_inertia` that touch the
  `MjSpec` (compiler option writes, `spec.compile()`, `MjsBody` field writes), as a little program that
  the check compares token by token with the statements extracted from the Python source
  (translate/c47_protocol.py), and whose interpretation *is* the model `inferInertial` / `applyTheta`.

"Undefined" (`mjuu_defined(x[0])` false, i.e. a NaN in slot 0) is modelled structurally by `Option`
(`none` = the NaN-filled array that `mjs_defaultBody` / `np.full(.., nan)` / `iquat[:] = nan` leave), because
`ℝ` has no NaN.  Core Lean only. -/

/-- `mjtInertiaFromGeom`: `mjINERTIAFROMGEOM_FALSE = 0`, `_TRUE = 1`, `_AUTO = 2`. -/
inductive IFG where
  | off | on | auto
  deriving DecidableEq, Repr

def IFG.code : IFG → Nat
  | .off => 0 | .on => 1 | .auto => 2

def IFG.ofCode? : Nat → Option IFG
  | 0 => some .off | 1 => some .on | 2 => some .auto | _ => none

structure V3 (α : Type) where
  x : α
  y : α
  z : α

structure Q4 (α : Type) where
  w : α
  x : α
  y : α
  z : α

/-- `fullinertia = [xx, yy, zz, xy, xz, yz]` -/
structure F6 (α : Type) where
  xx : α
  yy : α
  zz : α
  xy : α
  xz : α
  yz : α

/-- the inertial fields of an `mjsBody` -/
structure SpecBody (α : Type) where
  explicitinertial : Bool
  mass : α
  ipos : Option (V3 α)
  iquat : Option (Q4 α)
  inertia : V3 α
  full : Option (F6 α)

/-- `body_mass`, `body_ipos`, `body_iquat`, `body_inertia` of the compiled model
    (`iquat = none`: a NaN quaternion was propagated) -/
structure Compiled (α : Type) where
  mass : α
  ipos : V3 α
  iquat : Option (Q4 α)
  inertia : V3 α

/-- everything the mass-property part of `mjCBody::Compile` reads that the Python code under test does
    not write -/
structure CompileEnv (α : Type) where
  /-- `InertiaFromGeom` over the geoms of the body that are in `inertiagrouprange` and have mass `> mjEPS`;
      `none` when there is no such geom (the function then leaves the body untouched) -/
  geo : Option (Compiled α)
  /-- `mjuu_fullInertia`: principal frame and moments of a full inertia; `none` = its error
      "inertia must have positive eigenvalues" -/
  eig : F6 α → Option (Q4 α × V3 α)
  /-- `mjuu_normvec(iquat, 4)` -/
  normq : Q4 α → Q4 α
  /-- body frame (copied into the inertial frame when `ipos` is undefined) -/
  bpos : V3 α
  bquat : Q4 α
  /-- `ialt.type == mjORIENTATION_QUAT` (the inertial orientation is not given as euler/axisangle/…) -/
  ialtQuat : Bool
  /-- the orientation resolved from the alternative when it is not a quaternion -/
  altq : Q4 α
  boundmass : α
  boundinertia : α
  balance : Bool

inductive CompileErr where
  | fullAndOrientation   -- "fullinertia and inertial orientation cannot both be specified"
  | fullAndDiag          -- "fullinertia and diagonal inertia cannot both be specified"
  | eigFailed            -- "error '…' in fullinertia"
  | negative             -- "mass and inertia cannot be negative"
  | triangle             -- "inertia must satisfy A + B >= C; use 'balanceinertia' to fix"
  | noModel              -- (protocol only) a field is read from `model` before any `spec.compile()`
  | badOption            -- (protocol only) an `inertiafromgeom` value outside the enum
  | nestedCall           -- (protocol only) `callInfer` inside `_infer_inertial`
  deriving DecidableEq, Repr

def CompileErr.token : CompileErr → String
  | .fullAndOrientation => "fullAndOrientation"
  | .fullAndDiag => "fullAndDiag"
  | .eigFailed => "eigFailed"
  | .negative => "negative"
  | .triangle => "triangle"
  | .noModel => "noModel"
  | .badOption => "badOption"
  | .nestedCall => "nestedCall"

/-- C truthiness of a `double` (`x != 0`; NaN is truthy) -/
def truthy (a : α) : Bool := !(beq a (lit 0))

/-- `std::max(a, b)` = `(a < b) ? b : a` -/
def stdMax (a b : α) : α := if a < b then b else a

/-- the body's inertial after the orientation alternatives and `InertiaFromGeom` -/
structure RawInertial (α : Type) where
  mass : α
  ipos : Option (V3 α)
  iquat : Option (Q4 α)
  inertia : V3 α

/-- tail of the mass-property part of `mjCBody::Compile`: "ipos undefined: copy body frame into
    inertial", the bounds, the negative check and the `A + B >= C` check. -/
def finishBody (env : CompileEnv α) (r : RawInertial α) : Except CompileErr (Compiled α) :=
  let pq : V3 α × Option (Q4 α) := match r.ipos with
    | some p => (p, r.iquat)
    | none => (env.bpos, some env.bquat)
  let mass := stdMax r.mass env.boundmass
  let i0 := stdMax r.inertia.x env.boundinertia
  let i1 := stdMax r.inertia.y env.boundinertia
  let i2 := stdMax r.inertia.z env.boundinertia
  if mass < lit 0 || i0 < lit 0 || i1 < lit 0 || i2 < lit 0 then .error .negative
  else if i0 + i1 < i2 || i0 + i2 < i1 || i1 + i2 < i0 then
    if env.balance then
      let mean := (i0 + i1 + i2) / ofSci 30 true 1
      .ok { mass := mass, ipos := pq.1, iquat := pq.2, inertia := { x := mean, y := mean, z := mean } }
    else .error .triangle
  else .ok { mass := mass, ipos := pq.1, iquat := pq.2, inertia := { x := i0, y := i1, z := i2 } }

/-- does the compiler replace the body's inertial by the geoms' (`InertiaFromGeom` is called)? -/
def useGeom (ifg : IFG) (b : SpecBody α) : Bool := ifg == .on || (b.ipos.isNone && ifg == .auto)

/-- mass-property part of `mjCBody::Compile` for a non-world body. -/
def compileBody (env : CompileEnv α) (ifg : IFG) (b : SpecBody α) : Except CompileErr (Compiled α) :=
  if b.full.isSome && !env.ialtQuat then .error .fullAndOrientation
  else if b.full.isSome && (truthy b.inertia.x || truthy b.inertia.y || truthy b.inertia.z) then
    .error .fullAndDiag
  else
    -- mjuu_fullInertia overwrites (iquat, inertia) when fullinertia is defined
    let qd : Option (Option (Q4 α) × V3 α) := match b.full with
      | some f => (env.eig f).map (fun r => (some r.1, r.2))
      | none => some (b.iquat.map env.normq, b.inertia)
    match qd with
    | none => .error .eigFailed
    | some (q0, d0) =>
      let q1 := if env.ialtQuat then q0 else some env.altq
      -- geoms get a mass only when `!explicitinertial || inertiafromgeom == TRUE`
      let geo := if !b.explicitinertial || ifg == .on then env.geo else none
      match useGeom ifg b, geo with
      | true, some g => finishBody env { mass := g.mass, ipos := some g.ipos, iquat := g.iquat, inertia := g.inertia }
      | _, _ => finishBody env { mass := b.mass, ipos := b.ipos, iquat := q1, inertia := d0 }

/-! ### the Python side -/

/-- the part of the `MjSpec` the code under test reads or writes, plus the last compiled model -/
structure SpecState (α : Type) where
  ifg : IFG
  body : SpecBody α
  model : Option (Compiled α)

/-- one spec-touching statement of `_infer_inertial` / `apply_body_theta_inertia` -/
inductive Instr where
  | setIfg (code : Nat)      -- spec.compiler.inertiafromgeom = <code>
  | compile                  -- model = spec.compile()
  | setExplicit (b : Bool)   -- body.explicitinertial = <b>
  | fullNaN                  -- body.fullinertia = np.full((6, 1), np.nan)
  | massFromModel            -- body.mass = model.body(body_name).mass[0]
  | inertiaFromModel         -- body.inertia = model.body(body_name).inertia
  | iposFromModel            -- body.ipos = model.body(body_name).ipos
  | iquatFromModel           -- body.iquat = model.body(body_name).iquat
  | callInfer                -- body = _infer_inertial(spec, body_name)
  | massPi                   -- body.mass = pi[0]
  | iposPi                   -- body.ipos = pi[1:4] / pi[0]
  | inertiaZero              -- body.inertia[:] = 0.0
  | iquatNaN                 -- body.iquat[:] = np.nan
  | fullFromPi               -- body.fullinertia[0..5] = fullinertia[(0,0),(1,1),(2,2),(0,1),(0,2),(1,2)]
  deriving DecidableEq, Repr

def Instr.token : Instr → String
  | .setIfg c => s!"setIfg:{c}"
  | .compile => "compile"
  | .setExplicit b => if b then "setExplicit:True" else "setExplicit:False"
  | .fullNaN => "fullNaN"
  | .massFromModel => "massFromModel"
  | .inertiaFromModel => "inertiaFromModel"
  | .iposFromModel => "iposFromModel"
  | .iquatFromModel => "iquatFromModel"
  | .callInfer => "callInfer"
  | .massPi => "massPi"
  | .iposPi => "iposPi"
  | .inertiaZero => "inertiaZero"
  | .iquatNaN => "iquatNaN"
  | .fullFromPi => "fullFromPi"

/-- the statements of `_infer_inertial`, in source order -/
def inferProg : List Instr :=
  [.setIfg 2, .compile, .setExplicit true, .fullNaN, .massFromModel, .inertiaFromModel, .iposFromModel,
   .iquatFromModel]

/-- the statements of `apply_body_theta_inertia`, in source order -/
def applyProg : List Instr :=
  [.callInfer, .massPi, .iposPi, .inertiaZero, .iquatNaN, .fullFromPi]

def fullOfBody (B : BodyInertial α) : F6 α :=
  { xx := B.fxx, yy := B.fyy, zz := B.fzz, xy := B.fxy, xz := B.fxz, yz := B.fyz }

def withModel (s : SpecState α) (f : Compiled α → SpecBody α) : Except CompileErr (SpecState α) :=
  match s.model with
  | some m => .ok { s with body := f m }
  | none => .error .noModel

/-- effect of one statement (`callee` = what `callInfer` runs; `B` = the numbers
    `apply_body_theta_inertia` derives from `pi`) -/
def exec (env : CompileEnv α) (B : BodyInertial α)
    (callee : SpecState α → Except CompileErr (SpecState α)) :
    Instr → SpecState α → Except CompileErr (SpecState α)
  | .setIfg c, s => match IFG.ofCode? c with
    | some v => .ok { s with ifg := v }
    | none => .error .badOption
  | .compile, s => match compileBody env s.ifg s.body with
    | .ok m => .ok { s with model := some m }
    | .error e => .error e
  | .setExplicit b, s => .ok { s with body := { s.body with explicitinertial := b } }
  | .fullNaN, s => .ok { s with body := { s.body with full := none } }
  | .massFromModel, s => withModel s (fun m => { s.body with mass := m.mass })
  | .inertiaFromModel, s => withModel s (fun m => { s.body with inertia := m.inertia })
  | .iposFromModel, s => withModel s (fun m => { s.body with ipos := some m.ipos })
  | .iquatFromModel, s => withModel s (fun m => { s.body with iquat := m.iquat })
  | .callInfer, s => callee s
  | .massPi, s => .ok { s with body := { s.body with mass := B.mass } }
  | .iposPi, s =>
    .ok { s with body := { s.body with ipos := some { x := B.ipos0, y := B.ipos1, z := B.ipos2 } } }
  | .inertiaZero, s =>
    .ok { s with body := { s.body with inertia := { x := lit 0, y := lit 0, z := lit 0 } } }
  | .iquatNaN, s => .ok { s with body := { s.body with iquat := none } }
  | .fullFromPi, s => .ok { s with body := { s.body with full := some (fullOfBody B) } }

def run (env : CompileEnv α) (B : BodyInertial α)
    (callee : SpecState α → Except CompileErr (SpecState α)) :
    List Instr → SpecState α → Except CompileErr (SpecState α)
  | [], s => .ok s
  | i :: rest, s => match exec env B callee i s with
    | .ok s' => run env B callee rest s'
    | .error e => .error e

/-- `_infer_inertial(spec, body_name)`: the interpretation of `inferProg`.  (`B` is not read by any of
    its statements.) -/
def inferInertial (env : CompileEnv α) (B : BodyInertial α) (s : SpecState α) :
    Except CompileErr (SpecState α) :=
  run env B (fun _ => .error .nestedCall) inferProg s

/-- `apply_body_theta_inertia(spec, body_name, theta)`: the interpretation of `applyProg` with the
    numbers of `bodyOfTheta θ`. -/
def applyTheta (env : CompileEnv α) (s : SpecState α) (θ : Theta α) : Except CompileErr (SpecState α) :=
  let B := bodyOfTheta θ
  run env B (inferInertial env B) applyProg s

/-- the inertial fields `apply_body_theta_inertia` leaves in the `MjsBody` -/
def specOfTheta (θ : Theta α) : SpecBody α :=
  let B := bodyOfTheta θ
  { explicitinertial := true, mass := B.mass, ipos := some { x := B.ipos0, y := B.ipos1, z := B.ipos2 },
    iquat := none, inertia := { x := lit 0, y := lit 0, z := lit 0 }, full := some (fullOfBody B) }

/-- `pi_from_body` on the compiled body: `[mass, mass·ipos, F − (mass·skew(ipos)) @ skew(ipos)]` where
    `F = inertia_to_fullinertia(iquat, inertia) = R diag(inertia) Rᵀ` is given as a 3×3 matrix. -/
def piOfCompiled (mass : α) (p : V3 α) (F : Mat3 α) : Pi α :=
  let m := mass
  let x := p.x
  let y := p.y
  let z := p.z
  { m := m, h0 := m * x, h1 := m * y, h2 := m * z,
    I := { m00 := F.m00 - ((m * (-z)) * z + (m * y) * (-y)),
           m01 := F.m01 - (m * y) * x,
           m02 := F.m02 - (m * (-z)) * (-x),
           m10 := F.m10 - (m * (-x)) * (-y),
           m11 := F.m11 - ((m * z) * (-z) + (m * (-x)) * x),
           m12 := F.m12 - (m * z) * y,
           m20 := F.m20 - (m * x) * z,
           m21 := F.m21 - (m * (-y)) * (-z),
           m22 := F.m22 - ((m * (-y)) * y + (m * x) * (-x)) } }

end MjProof.LogChol
