/-
Model of `python/mujoco/introspect/ast_nodes.py` (ValueType / PointerType / ArrayType and their
`decl()` printers) and of `python/mujoco/introspect/type_parsing.py` (`parse_type`).
Core Lean only.  Strings are `List Char` (`Str`); the driver converts at the IO boundary.

What is modelled, function by function (names of the Python functions in brackets):
  * `isWs`            Python `str.isspace()` = regex `\s` on `str` patterns = what `str.strip()` removes
  * `strip`           `str.strip()`
  * `splitWs`         `re.split(r'\s+', s)` on a stripped string (the empty string gives `[]` where
                      Python gives `['']`; both callers treat the two alike, see `ptrQuals`/`valQuals`)
  * `peel` inside `parseNest`   [`_peel_nested_parens`]: first `(`, last `)`, special string
  * `findArr`/`groups`          `ARRAY_EXTENTS_PATTERN.search` (leftmost start from which
                      `(\[[^\]]+\]\s*)+\Z` matches) and `ARRAY_N_PATTERN.findall` on the match
  * `parseInt`        `int(s.strip())` restricted to ASCII digits (sign, `_` between digits)
  * `parsePtr`        [`_parse_maybe_pointer`] (`rfind('*')`, qualifiers after the star, recursion on
                      the stripped prefix, `innermost_type` when the prefix is empty, asserts)
  * `parseLevel`      [`_parse_maybe_array`]
  * `validWords`      the `ValueType.__init__` check (`VALID_TYPE_NAME_PATTERN`,
                      `_is_valid_integral_type`, `C_INVALID_TYPE_NAMES`) on the word list whose
                      `' '.join` is the name
  * `decl`            [`ValueType.decl` / `ArrayType.decl` / `PointerType.decl`] with `name_or_decl`
Every Python exception (ValueError, AssertionError re-raised as ValueError) is `none`.
Recursion is by fuel (string length + 1) so that the kernel can evaluate the parser.
-/
namespace MjProof.CType

abbrev Str := List Char

/-- the C type AST of `ast_nodes.py`.  `ValueType.nullable` and `ArrayType.nullable` are never
    printed nor set by the parser and are not modelled; `PointerType.nullable` is printed. -/
inductive CType where
  | value (name : String) (isConst isVolatile : Bool)
  | pointer (inner : CType) (nullable isConst isVolatile isRestrict : Bool)
  | array (inner : CType) (extents : List Int)
  deriving DecidableEq, Repr, Inhabited

def CType.isArray : CType → Bool
  | .array _ _ => true
  | _ => false

/-! ### characters, whitespace, words -/

/-- `str.isspace()` for one code point (the complete list for Unicode 15). -/
def isWs (c : Char) : Bool :=
  let n := c.toNat
  (decide (9 ≤ n) && decide (n ≤ 13)) || (decide (28 ≤ n) && decide (n ≤ 32)) || n == 0x85 || n == 0xA0 ||
  n == 0x1680 || (decide (0x2000 ≤ n) && decide (n ≤ 0x200A)) || n == 0x2028 || n == 0x2029 ||
  n == 0x202F || n == 0x205F || n == 0x3000

def lstrip (s : Str) : Str := s.dropWhile isWs
def rstrip (s : Str) : Str := (s.reverse.dropWhile isWs).reverse
def strip (s : Str) : Str := rstrip (lstrip s)

/-- words of `s` (maximal runs of non-whitespace), `cur` is the reversed current word -/
def splitWsGo : Str → Str → List Str
  | [], cur => if cur.isEmpty then [] else [cur.reverse]
  | c :: cs, cur =>
    if isWs c then (if cur.isEmpty then splitWsGo cs [] else cur.reverse :: splitWsGo cs [])
    else splitWsGo cs (c :: cur)

def splitWs (s : Str) : List Str := splitWsGo s []

/-- `' '.join(ws)` -/
def joinSp : List Str → Str
  | [] => []
  | [w] => w
  | w :: ws => w ++ ' ' :: joinSp ws

/-- split at the first occurrence of `c` -/
def splitFirst (c : Char) : Str → Option (Str × Str)
  | [] => none
  | x :: xs => if x = c then some ([], xs) else (splitFirst c xs).map (fun p => (x :: p.1, p.2))

/-- split at the last occurrence of `c` -/
def splitLast (c : Char) : Str → Option (Str × Str)
  | [] => none
  | x :: xs =>
    match splitLast c xs with
    | some p => some (x :: p.1, p.2)
    | none => if x = c then some ([], xs) else none

/-! ### integers: `int(str)` and `str(int)` -/

def digitVal (c : Char) : Option Nat :=
  let n := c.toNat
  if 48 ≤ n ∧ n ≤ 57 then some (n - 48) else none

def digitChar : Nat → Char
  | 0 => '0' | 1 => '1' | 2 => '2' | 3 => '3' | 4 => '4'
  | 5 => '5' | 6 => '6' | 7 => '7' | 8 => '8' | _ => '9'

/-- decimal digits (`pd`: the previous character was a digit; `_` only between digits) -/
def digitsAux (acc : Nat) (pd : Bool) : Str → Option Nat
  | [] => if pd then some acc else none
  | c :: cs =>
    match digitVal c with
    | some d => digitsAux (acc * 10 + d) true cs
    | none =>
      if c = '_' ∧ pd = true then
        match cs with
        | [] => none
        | c2 :: _ => if (digitVal c2).isSome then digitsAux acc false cs else none
      else none

def parseNat (s : Str) : Option Nat := digitsAux 0 false s

/-- `int(s)` for ASCII input -/
def parseInt (s : Str) : Option Int :=
  match strip s with
  | '-' :: r => (parseNat r).map (fun n => - (n : Int))
  | '+' :: r => (parseNat r).map (fun n => (n : Int))
  | r => (parseNat r).map (fun n => (n : Int))

def natDigitsAux : Nat → Nat → Str → Str
  | 0, _, acc => acc
  | f + 1, n, acc => if n < 10 then digitChar n :: acc else natDigitsAux f (n / 10) (digitChar (n % 10) :: acc)

/-- `str(n)` for a natural number -/
def natDigits (n : Nat) : Str := natDigitsAux (n + 1) n []

/-- `str(n)` -/
def intStr : Int → Str
  | .ofNat m => natDigits m
  | .negSucc m => '-' :: natDigits (m + 1)

/-- `''.join(f'[{n}]' for n in extents)` -/
def extentsStr : List Int → Str
  | [] => []
  | n :: r => '[' :: (intStr n ++ ']' :: extentsStr r)

/-! ### identifiers and the `ValueType` name check -/

def isIdentStart (c : Char) : Bool :=
  let n := c.toNat
  (decide (65 ≤ n) && decide (n ≤ 90)) || (decide (97 ≤ n) && decide (n ≤ 122)) || n == 95

def isIdentChar (c : Char) : Bool :=
  let n := c.toNat
  isIdentStart c || (decide (48 ≤ n) && decide (n ≤ 57))

/-- `[A-Za-z_][A-Za-z0-9_]*` -/
def isIdent : Str → Bool
  | [] => false
  | c :: cs => isIdentStart c && cs.all isIdentChar

def kw (s : String) : Str := s.toList

def kConst : Str := kw "const"
def kVolatile : Str := kw "volatile"
def kRestrict : Str := kw "restrict"
def kStruct : Str := kw "struct"
def kNullable : Str := kw "nullable"

/-- `C_INVALID_TYPE_NAMES` -/
def invalidNames : List Str := [
  "auto", "break", "case", "const", "continue", "default", "do", "else",
  "enum", "extern", "for", "goto", "if", "inline", "register", "restrict",
  "return", "sizeof", "static", "struct", "switch", "typedef", "union",
  "volatile", "while", "_Alignas", "_Atomic", "_Generic", "_Imaginary",
  "_Noreturn", "_Static_assert", "_Thread_local", "__attribute__", "_Pragma"].map kw

/-- `_is_valid_integral_type` on the word list -/
def validIntegral (ws : List Str) : Bool :=
  let cnt (k : String) : Nat := ws.count (kw k)
  let isKw (w : Str) : Bool := [kw "signed", kw "unsigned", kw "short", kw "long", kw "int", kw "char"].contains w
  let wild : Nat := (ws.filter (fun w => !isKw w)).length
  ws.all (fun w => isKw w || isIdent w) &&
  !(decide (cnt "signed" + cnt "unsigned" > 1) || decide (cnt "short" > 1) || decide (cnt "long" > 2) ||
    (decide (cnt "short" > 0) && decide (cnt "long" > 0)) ||
    ((decide (cnt "short" > 0) || decide (cnt "long" > 0)) && decide (cnt "char" > 0)) ||
    decide (cnt "char" + cnt "int" + wild > 1))

/-- `VALID_TYPE_NAME_PATTERN.fullmatch(' '.join(ws))` -/
def validPattern (ws : List Str) : Bool :=
  match ws with
  | [w] => isIdent w
  | [s, w] => s == kStruct && isIdent w
  | _ => false

/-- the `ValueType.__init__` check for the name `' '.join(ws)` (`ws` non-empty words without
    whitespace; the special name `void *(*)(void *)` is handled by the callers) -/
def validWords (ws : List Str) : Bool :=
  (validPattern ws || (!ws.isEmpty && validIntegral ws)) &&
  !(match ws with | [w] => invalidNames.contains w | _ => false)

/-! ### the parser -/

/-- the one function-pointer type that `type_parsing.py` special-cases -/
def special : Str := kw "void *(*)(void *)"
def specialName : String := "void *(*)(void *)"

/-- `(\[[^\]]+\]\s*)+\Z` anchored at the start of `s`; returns the bracket contents -/
def groups : Nat → Str → Option (List Str)
  | 0, _ => none
  | f + 1, s =>
    match s with
    | '[' :: r =>
      let content := r.takeWhile (· != ']')
      match r.dropWhile (· != ']') with
      | _ :: r3 =>
        if content.isEmpty then none else
        let r4 := r3.dropWhile isWs
        if r4.isEmpty then some [content] else (groups f r4).map (content :: ·)
      | [] => none
    | _ => none

/-- `ARRAY_EXTENTS_PATTERN.search(s)`: (text before the match, bracket contents) -/
def findArr : Str → Option (Str × List Str)
  | [] => none
  | c :: cs =>
    match (if c = '[' then groups (cs.length + 2) (c :: cs) else none) with
    | some g => some ([], g)
    | none => (findArr cs).map (fun p => (c :: p.1, p.2))

def mapMOpt {α β : Type} (f : α → Option β) : List α → Option (List β)
  | [] => some []
  | a :: as => match f a, mapMOpt f as with
    | some b, some bs => some (b :: bs)
    | _, _ => none

/-- qualifiers after a `*`: `(const, volatile, restrict)`; duplicates and anything else are errors -/
def ptrQuals (ws : List Str) : Option (Bool × Bool × Bool) :=
  if ws.count kConst > 1 ∨ ws.count kVolatile > 1 ∨ ws.count kRestrict > 1 then none
  else if (ws.filter (fun w => !(w == kConst || w == kVolatile || w == kRestrict))).isEmpty then
    some (ws.contains kConst, ws.contains kVolatile, ws.contains kRestrict)
  else none

/-- qualifiers of a value type: (remaining words, const, volatile) -/
def valQuals (ws : List Str) : Option (List Str × Bool × Bool) :=
  if ws.count kConst > 1 ∨ ws.count kVolatile > 1 then none
  else some (ws.filter (fun w => !(w == kConst || w == kVolatile)), ws.contains kConst, ws.contains kVolatile)

/-- `_parse_maybe_pointer(s, innermost)` -/
def parsePtrAux : Nat → Str → Option CType → Option CType
  | 0, _, _ => none
  | f + 1, s, innermost =>
    if s = special then some (.value specialName false false) else
    match splitLast '*' s with
    | some (pre, post) =>
      match ptrQuals (splitWs post) with
      | none => none
      | some (c, v, r) =>
        let pre' := strip pre
        match (if pre'.isEmpty then innermost else parsePtrAux f pre' innermost) with
        | none => none
        | some inner => some (.pointer inner false c v r)
    | none =>
      if innermost.isSome then none else
      match valQuals (splitWs s) with
      | none => none
      | some (ws, c, v) => if validWords ws then some (.value (String.ofList (joinSp ws)) c v) else none

def parsePtr (s : Str) (innermost : Option CType) : Option CType := parsePtrAux (s.length + 1) s innermost

/-- `_parse_maybe_array(s, innermost)` -/
def parseLevel (s : Str) (innermost : Option CType) : Option CType :=
  match findArr s with
  | some (pre, contents) =>
    match mapMOpt parseInt contents, parsePtr (strip pre) innermost with
    | some exts, some inner => some (.array inner exts)
    | _, _ => none
  | none => parsePtr s innermost

/-- `_peel_nested_parens` fused with the `while type_str_stack` loop of `parse_type`: the level
    outside the outermost parentheses is parsed first and becomes the `innermost_type` of the next -/
def parseNest : Nat → Str → Option CType → Option CType
  | 0, _, _ => none
  | f + 1, s, acc =>
    if s = special then parseLevel s acc else
    match splitFirst '(' s with
    | none => if s.contains ')' then none else parseLevel s acc
    | some (pre, rest) =>
      match splitLast ')' rest with
      | none => none
      | some (mid, suf) =>
        match parseLevel (pre ++ suf) acc with
        | none => none
        | some r => parseNest f mid (some r)

/-- `parse_type(s)` -/
def parseType (s : Str) : Option CType :=
  let s := strip s
  parseNest (s.length + 1) s none

/-- `parse_function_return_type(s)`: `parse_type(s[:s.find('(')])` (Python's `find` returns -1 when
    there is no `(`, which drops the last character) -/
def parseReturnType (s : Str) : Option CType :=
  match splitFirst '(' s with
  | some (pre, _) => parseType pre
  | none => parseType s.dropLast

/-! ### the printer -/

def qualWords (c v : Bool) : List Str := (if c then [kConst] else []) ++ (if v then [kVolatile] else [])

/-- `t.decl(d)` (`d = []` stands for `None` / the empty string, which Python treats alike) -/
def declWith : CType → Str → Str
  | .value name c v, d => joinSp (qualWords c v ++ [name.toList] ++ (if d.isEmpty then [] else [d]))
  | .array inner exts, d => declWith inner (d ++ extentsStr exts)
  | .pointer inner n c v r, d =>
    let p := joinSp ([['*']] ++ (if n then [kNullable] else []) ++ qualWords c v ++
                     (if r then [kRestrict] else []) ++ (if d.isEmpty then [] else [d]))
    declWith inner (if inner.isArray then '(' :: (p ++ [')']) else p)

/-- `str(t)` = `t.decl()` -/
def decl (t : CType) : Str := declWith t []

/-! ### well-formed types: exactly the ASTs that `parse_type` can produce -/

/-- a `ValueType` name that the parser can produce: single-spaced words that pass the
    `ValueType.__init__` check, none of which is a qualifier -/
def wfName (name : String) : Bool :=
  let ws := splitWs name.toList
  name.toList == joinSp ws && validWords ws && !ws.contains kConst && !ws.contains kVolatile

def WF : CType → Bool
  | .value name _ _ => wfName name
  | .pointer inner n _ _ _ => !n && WF inner
  | .array inner exts => !exts.isEmpty && !inner.isArray && WF inner

/-- the special function-pointer value type -/
def specialType : CType := .value specialName false false

/-! ### canonical text form used by the line protocol -/

def hexDigit (n : Nat) : Char := if n < 10 then Char.ofNat (48 + n) else Char.ofNat (87 + n)

def b2c (b : Bool) : Char := if b then '1' else '0'

/-- prefix form: `V<c><v>"name"`, `P<n><c><v><r>(inner)`, `A[e1,e2](inner)` -/
def show_ : CType → Str
  | .value name c v => 'V' :: b2c c :: b2c v :: '"' :: name.toList ++ ['"']
  | .pointer inner n c v r => 'P' :: b2c n :: b2c c :: b2c v :: b2c r :: '(' :: show_ inner ++ [')']
  | .array inner exts =>
    'A' :: '[' :: (",".toList.intercalate (exts.map intStr)) ++ ']' :: '(' :: show_ inner ++ [')']

end MjProof.CType
