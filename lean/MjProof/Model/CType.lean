/-
Model of `python/mujoco/introspect/ast_nodes.py` (ValueType / PointerType / ArrayType and their
`decl()` printers) and of `python/mujoco/introspect/type_parsing.py` (`parse_type`).
Core Lean only.  Strings are lists of code points as natural numbers (`Str = List Nat`): the kernel
evaluates `Nat` comparisons natively, while `Char` operations are two orders of magnitude slower there.
The driver converts at the IO boundary.  Character constants are written as numerals with the
character in a comment (40 `(`, 41 `)`, 42 `*`, 91 `[`, 93 `]`, 32 blank, 45 `-`, 43 `+`, 95 `_`).

What is modelled, function by function (names of the Python functions in brackets):
  * `isWs`            Python `str.isspace()` = regex `\s` on `str` patterns = what `str.strip()` removes
  * `strip`           `str.strip()`
  * `splitWs`         `re.split(r'\s+', s)` on a stripped string (the empty string gives `[]` where
                      Python gives `['']`; both callers treat the two alike, see `ptrQuals`/`valQuals`)
  * `peel` inside `parseNest`   [`_peel_nested_parens`]: first `(`, last `)`, special string
  * `findArr`/`groups`          `ARRAY_EXTENTS_PATTERN.search` (leftmost start from which
                      `(\[[^\]]+\]\s*)+\Z` matches) and `ARRAY_N_PATTERN.findall` on the match
  * `parseInt`        `int(s.strip())` restricted to ASCII digits (sign, `_` between digits)
  * `parsePtr`        [`_parse_maybe_pointer`] (`rfind('*')`, qualifiers after the star, recursion on
                      the stripped prefix, `innermost_type` when the prefix is empty, asserts)
  * `parseLevel`      [`_parse_maybe_array`]
  * `validWords`      the `ValueType.__init__` check (`VALID_TYPE_NAME_PATTERN`,
                      `_is_valid_integral_type`, `C_INVALID_TYPE_NAMES`) on the word list whose
                      `' '.join` is the name
  * `decl`            [`ValueType.decl` / `ArrayType.decl` / `PointerType.decl`] with `name_or_decl`
Every Python exception (ValueError, AssertionError re-raised as ValueError) is `none`.
Recursion is by fuel (string length + 1) so that the kernel can evaluate the parser.
-/
namespace MjProof.CType

/-- text: a list of code points -/
abbrev Str := List Nat

/-- the C type AST of `ast_nodes.py`.  `ValueType.nullable` and `ArrayType.nullable` are never
    printed nor set by the parser and are not modelled; `PointerType.nullable` is printed. -/
inductive CType where
  | value (name : Str) (isConst isVolatile : Bool)
  | pointer (inner : CType) (nullable isConst isVolatile isRestrict : Bool)
  | array (inner : CType) (extents : List Int)
  deriving DecidableEq, Repr, Inhabited

def CType.isArray : CType → Bool
  | .array _ _ => true
  | _ => false

/-! ### text literals of generated tables

String literals are slow to evaluate in the kernel; generated tables give every text as a numeral:
the bytes (all below 256), big-endian, after a leading 1 (`dS 0x16d6a` = "mj"). -/

def dSAux : Nat → Nat → Str → Str
  | 0, _, acc => acc
  | f + 1, n, acc => if n ≤ 1 then acc else dSAux f (n / 256) ((n % 256) :: acc)

/-- decode a text numeral -/
def dS (n : Nat) : Str := dSAux n n []

/-! ### characters, whitespace, words -/

/-- `str.isspace()` for one code point (the complete list for Unicode 15); the ASCII range is
    tested first because the kernel evaluates this for every character -/
def isWs (c : Nat) : Bool :=
  let n := c
  if n < 128 then (decide (9 ≤ n) && decide (n ≤ 13)) || (decide (28 ≤ n) && decide (n ≤ 32))
  else n == 0x85 || n == 0xA0 || n == 0x1680 || (decide (0x2000 ≤ n) && decide (n ≤ 0x200A)) || n == 0x2028 ||
    n == 0x2029 || n == 0x202F || n == 0x205F || n == 0x3000

def lstrip (s : Str) : Str := s.dropWhile isWs
def rstrip (s : Str) : Str := (s.reverse.dropWhile isWs).reverse
def strip (s : Str) : Str := rstrip (lstrip s)

/-- words of `s` (maximal runs of non-whitespace), `cur` is the reversed current word -/
def splitWsGo : Str → Str → List Str
  | [], cur => if cur.isEmpty then [] else [cur.reverse]
  | c :: cs, cur =>
    if isWs c then (if cur.isEmpty then splitWsGo cs [] else cur.reverse :: splitWsGo cs [])
    else splitWsGo cs (c :: cur)

def splitWs (s : Str) : List Str := splitWsGo s []

/-- `' '.join(ws)` (32 = blank) -/
def joinSp : List Str → Str
  | [] => []
  | [w] => w
  | w :: ws => w ++ 32 :: joinSp ws

/-- split at the first occurrence of `c` -/
def splitFirst (c : Nat) : Str → Option (Str × Str)
  | [] => none
  | x :: xs => if x = c then some ([], xs) else (splitFirst c xs).map (fun p => (x :: p.1, p.2))

/-- split at the last occurrence of `c` -/
def splitLast (c : Nat) : Str → Option (Str × Str)
  | [] => none
  | x :: xs =>
    match splitLast c xs with
    | some p => some (x :: p.1, p.2)
    | none => if x = c then some ([], xs) else none

/-! ### integers: `int(str)` and `str(int)` -/

def digitVal (c : Nat) : Option Nat :=
  let n := c
  if 48 ≤ n ∧ n ≤ 57 then some (n - 48) else none

def digitChar : Nat → Nat
  | 0 => 48 | 1 => 49 | 2 => 50 | 3 => 51 | 4 => 52
  | 5 => 53 | 6 => 54 | 7 => 55 | 8 => 56 | _ => 57

/-- decimal digits (`pd`: the previous character was a digit; `_` only between digits) -/
def digitsAux (acc : Nat) (pd : Bool) : Str → Option Nat
  | [] => if pd then some acc else none
  | c :: cs =>
    match digitVal c with
    | some d => digitsAux (acc * 10 + d) true cs
    | none =>
      if c = 95 ∧ pd = true then  -- '_'
        match cs with
        | [] => none
        | c2 :: _ => if (digitVal c2).isSome then digitsAux acc false cs else none
      else none

def parseNat (s : Str) : Option Nat := digitsAux 0 false s

/-- `int(s)` for ASCII input -/
def parseInt (s : Str) : Option Int :=
  match strip s with
  | 45 :: r => (parseNat r).map (fun n => - (n : Int))   -- '-'
  | 43 :: r => (parseNat r).map (fun n => (n : Int))     -- '+'
  | r => (parseNat r).map (fun n => (n : Int))

def natDigitsAux : Nat → Nat → Str → Str
  | 0, _, acc => acc
  | f + 1, n, acc => if n < 10 then digitChar n :: acc else natDigitsAux f (n / 10) (digitChar (n % 10) :: acc)

/-- `str(n)` for a natural number -/
def natDigits (n : Nat) : Str := natDigitsAux (n + 1) n []

/-- `str(n)` -/
def intStr : Int → Str
  | .ofNat m => natDigits m
  | .negSucc m => 45 :: natDigits (m + 1)

/-- `''.join(f'[{n}]' for n in extents)` -/
def extentsStr : List Int → Str
  | [] => []
  | n :: r => 91 :: (intStr n ++ 93 :: extentsStr r)   -- '[' … ']'

/-! ### identifiers and the `ValueType` name check -/

def isIdentStart (c : Nat) : Bool :=
  let n := c
  (decide (65 ≤ n) && decide (n ≤ 90)) || (decide (97 ≤ n) && decide (n ≤ 122)) || n == 95

def isIdentChar (c : Nat) : Bool :=
  let n := c
  isIdentStart c || (decide (48 ≤ n) && decide (n ≤ 57))

/-- `[A-Za-z_][A-Za-z0-9_]*` -/
def isIdent : Str → Bool
  | [] => false
  | c :: cs => isIdentStart c && cs.all isIdentChar

/-- code points of a string literal (specification only: constants below are written out) -/
def kw (s : String) : Str := s.toList.map Char.toNat

def kConst : Str := [99, 111, 110, 115, 116]  -- "const"
def kVolatile : Str := [118, 111, 108, 97, 116, 105, 108, 101]  -- "volatile"
def kRestrict : Str := [114, 101, 115, 116, 114, 105, 99, 116]  -- "restrict"
def kStruct : Str := [115, 116, 114, 117, 99, 116]  -- "struct"
def kNullable : Str := [110, 117, 108, 108, 97, 98, 108, 101]  -- "nullable"

/-- `C_INVALID_TYPE_NAMES` -/
def invalidNames : List Str := [
  [97, 117, 116, 111],  -- auto
  [98, 114, 101, 97, 107],  -- break
  [99, 97, 115, 101],  -- case
  [99, 111, 110, 115, 116],  -- const
  [99, 111, 110, 116, 105, 110, 117, 101],  -- continue
  [100, 101, 102, 97, 117, 108, 116],  -- default
  [100, 111],  -- do
  [101, 108, 115, 101],  -- else
  [101, 110, 117, 109],  -- enum
  [101, 120, 116, 101, 114, 110],  -- extern
  [102, 111, 114],  -- for
  [103, 111, 116, 111],  -- goto
  [105, 102],  -- if
  [105, 110, 108, 105, 110, 101],  -- inline
  [114, 101, 103, 105, 115, 116, 101, 114],  -- register
  [114, 101, 115, 116, 114, 105, 99, 116],  -- restrict
  [114, 101, 116, 117, 114, 110],  -- return
  [115, 105, 122, 101, 111, 102],  -- sizeof
  [115, 116, 97, 116, 105, 99],  -- static
  [115, 116, 114, 117, 99, 116],  -- struct
  [115, 119, 105, 116, 99, 104],  -- switch
  [116, 121, 112, 101, 100, 101, 102],  -- typedef
  [117, 110, 105, 111, 110],  -- union
  [118, 111, 108, 97, 116, 105, 108, 101],  -- volatile
  [119, 104, 105, 108, 101],  -- while
  [95, 65, 108, 105, 103, 110, 97, 115],  -- _Alignas
  [95, 65, 116, 111, 109, 105, 99],  -- _Atomic
  [95, 71, 101, 110, 101, 114, 105, 99],  -- _Generic
  [95, 73, 109, 97, 103, 105, 110, 97, 114, 121],  -- _Imaginary
  [95, 78, 111, 114, 101, 116, 117, 114, 110],  -- _Noreturn
  [95, 83, 116, 97, 116, 105, 99, 95, 97, 115, 115, 101, 114, 116],  -- _Static_assert
  [95, 84, 104, 114, 101, 97, 100, 95, 108, 111, 99, 97, 108],  -- _Thread_local
  [95, 95, 97, 116, 116, 114, 105, 98, 117, 116, 101, 95, 95],  -- __attribute__
  [95, 80, 114, 97, 103, 109, 97]  -- _Pragma
]

def kSigned : Str := [115, 105, 103, 110, 101, 100]  -- "signed"
def kUnsigned : Str := [117, 110, 115, 105, 103, 110, 101, 100]  -- "unsigned"
def kShort : Str := [115, 104, 111, 114, 116]  -- "short"
def kLong : Str := [108, 111, 110, 103]  -- "long"
def kInt : Str := [105, 110, 116]  -- "int"
def kChar : Str := [99, 104, 97, 114]  -- "char"
def intKeywords : List Str := [kSigned, kUnsigned, kShort, kLong, kInt, kChar]

/-- `_is_valid_integral_type` on the word list -/
def validIntegral (ws : List Str) : Bool :=
  let cnt (k : Str) : Nat := ws.count k
  let isKw (w : Str) : Bool := intKeywords.contains w
  let wild : Nat := (ws.filter (fun w => !isKw w)).length
  ws.all (fun w => isKw w || isIdent w) &&
  !(decide (cnt kSigned + cnt kUnsigned > 1) || decide (cnt kShort > 1) || decide (cnt kLong > 2) ||
    (decide (cnt kShort > 0) && decide (cnt kLong > 0)) ||
    ((decide (cnt kShort > 0) || decide (cnt kLong > 0)) && decide (cnt kChar > 0)) ||
    decide (cnt kChar + cnt kInt + wild > 1))

/-- `VALID_TYPE_NAME_PATTERN.fullmatch(' '.join(ws))` -/
def validPattern (ws : List Str) : Bool :=
  match ws with
  | [w] => isIdent w
  | [s, w] => s == kStruct && isIdent w
  | _ => false

/-- the `ValueType.__init__` check for the name `' '.join(ws)` (`ws` non-empty words without
    whitespace; the special name `void *(*)(void *)` is handled by the callers) -/
def validWords (ws : List Str) : Bool :=
  (validPattern ws || (!ws.isEmpty && validIntegral ws)) &&
  !(match ws with | [w] => invalidNames.contains w | _ => false)

/-! ### the parser -/

/-- the one function-pointer type that `type_parsing.py` special-cases -/
def special : Str := [118, 111, 105, 100, 32, 42, 40, 42, 41, 40, 118, 111, 105, 100, 32, 42, 41]  -- "void *(*)(void *)"
def specialName : Str := special

/-- `(\[[^\]]+\]\s*)+\Z` anchored at the start of `s`; returns the bracket contents -/
def groups : Nat → Str → Option (List Str)
  | 0, _ => none
  | f + 1, s =>
    match s with
    | 91 :: r =>   -- '[' then the run up to the next ']' (93)
      let content := r.takeWhile (· != 93)
      match r.dropWhile (· != 93) with
      | _ :: r3 =>
        if content.isEmpty then none else
        let r4 := r3.dropWhile isWs
        if r4.isEmpty then some [content] else (groups f r4).map (content :: ·)
      | [] => none
    | _ => none

/-- `ARRAY_EXTENTS_PATTERN.search(s)`: (text before the match, bracket contents) -/
def findArr : Str → Option (Str × List Str)
  | [] => none
  | c :: cs =>
    match (if c = 91 then groups (cs.length + 2) (c :: cs) else none) with
    | some g => some ([], g)
    | none => (findArr cs).map (fun p => (c :: p.1, p.2))

def mapMOpt {α β : Type} (f : α → Option β) : List α → Option (List β)
  | [] => some []
  | a :: as => match f a, mapMOpt f as with
    | some b, some bs => some (b :: bs)
    | _, _ => none

/-- qualifiers after a `*`: `(const, volatile, restrict)`; duplicates and anything else are errors -/
def ptrQuals (ws : List Str) : Option (Bool × Bool × Bool) :=
  if ws.count kConst > 1 ∨ ws.count kVolatile > 1 ∨ ws.count kRestrict > 1 then none
  else if (ws.filter (fun w => !(w == kConst || w == kVolatile || w == kRestrict))).isEmpty then
    some (ws.contains kConst, ws.contains kVolatile, ws.contains kRestrict)
  else none

/-- qualifiers of a value type: (remaining words, const, volatile) -/
def valQuals (ws : List Str) : Option (List Str × Bool × Bool) :=
  if ws.count kConst > 1 ∨ ws.count kVolatile > 1 then none
  else some (ws.filter (fun w => !(w == kConst || w == kVolatile)), ws.contains kConst, ws.contains kVolatile)

/-- `_parse_maybe_pointer(s, innermost)` -/
def parsePtrAux : Nat → Str → Option CType → Option CType
  | 0, _, _ => none
  | f + 1, s, innermost =>
    if s = special then some (.value specialName false false) else
    match splitLast 42 s with   -- rfind('*')
    | some (pre, post) =>
      match ptrQuals (splitWs post) with
      | none => none
      | some (c, v, r) =>
        let pre' := strip pre
        match (if pre'.isEmpty then innermost else parsePtrAux f pre' innermost) with
        | none => none
        | some inner => some (.pointer inner false c v r)
    | none =>
      if innermost.isSome then none else
      match valQuals (splitWs s) with
      | none => none
      | some (ws, c, v) => if validWords ws then some (.value (joinSp ws) c v) else none

def parsePtr (s : Str) (innermost : Option CType) : Option CType := parsePtrAux (s.length + 1) s innermost

/-- `_parse_maybe_array(s, innermost)` -/
def parseLevel (s : Str) (innermost : Option CType) : Option CType :=
  match findArr s with
  | some (pre, contents) =>
    match mapMOpt parseInt contents, parsePtr (strip pre) innermost with
    | some exts, some inner => some (.array inner exts)
    | _, _ => none
  | none => parsePtr s innermost

/-- `_peel_nested_parens` fused with the `while type_str_stack` loop of `parse_type`: the level
    outside the outermost parentheses is parsed first and becomes the `innermost_type` of the next -/
def parseNest : Nat → Str → Option CType → Option CType
  | 0, _, _ => none
  | f + 1, s, acc =>
    if s = special then parseLevel s acc else
    match splitFirst 40 s with   -- find('(') ; 41 = ')'
    | none => if s.contains 41 then none else parseLevel s acc
    | some (pre, rest) =>
      match splitLast 41 rest with
      | none => none
      | some (mid, suf) =>
        match parseLevel (pre ++ suf) acc with
        | none => none
        | some r => parseNest f mid (some r)

/-- `parse_type(s)` -/
def parseType (s : Str) : Option CType :=
  let s := strip s
  parseNest (s.length + 1) s none

/-- `parse_function_return_type(s)`: `parse_type(s[:s.find('(')])` (Python's `find` returns -1 when
    there is no `(`, which drops the last character) -/
def parseReturnType (s : Str) : Option CType :=
  match splitFirst 40 s with
  | some (pre, _) => parseType pre
  | none => parseType s.dropLast

/-! ### the printer -/

def qualWords (c v : Bool) : List Str := (if c then [kConst] else []) ++ (if v then [kVolatile] else [])

/-- `t.decl(d)` (`d = []` stands for `None` / the empty string, which Python treats alike) -/
def declWith : CType → Str → Str
  | .value name c v, d => joinSp (qualWords c v ++ [name] ++ (if d.isEmpty then [] else [d]))
  | .array inner exts, d => declWith inner (d ++ extentsStr exts)
  | .pointer inner n c v r, d =>
    let p := joinSp ([[42]] ++ (if n then [kNullable] else []) ++ qualWords c v ++
                     (if r then [kRestrict] else []) ++ (if d.isEmpty then [] else [d]))
    declWith inner (if inner.isArray then 40 :: (p ++ [41]) else p)

/-- `str(t)` = `t.decl()` -/
def decl (t : CType) : Str := declWith t []

/-! ### well-formed types: exactly the ASTs that `parse_type` can produce -/

/-- a `ValueType` name that the parser can produce: single-spaced words that pass the
    `ValueType.__init__` check, none of which is a qualifier -/
def wfName (name : Str) : Bool :=
  let ws := splitWs name
  name == joinSp ws && validWords ws && !ws.contains kConst && !ws.contains kVolatile

def WF : CType → Bool
  | .value name _ _ => wfName name
  | .pointer inner n _ _ _ => !n && WF inner
  | .array inner exts => !exts.isEmpty && !inner.isArray && WF inner

/-- the special function-pointer value type -/
def specialType : CType := .value specialName false false

/-! ### canonical text form used by the line protocol -/

def b2c (b : Bool) : Nat := if b then 49 else 48

/-- prefix form: `V<c><v>"name"`, `P<n><c><v><r>(inner)`, `A[e1,e2](inner)` -/
def show_ : CType → Str
  | .value name c v => 86 :: b2c c :: b2c v :: 34 :: name ++ [34]
  | .pointer inner n c v r => 80 :: b2c n :: b2c c :: b2c v :: b2c r :: 40 :: show_ inner ++ [41]
  | .array inner exts =>
    65 :: 91 :: (List.intercalate [44] (exts.map intStr)) ++ 93 :: 40 :: show_ inner ++ [41]

end MjProof.CType
