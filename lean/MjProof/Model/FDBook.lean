import MjProof.Num
import MjProof.Gen.Kernels
/-
C25 — executable model of the bookkeeping of the finite-difference drivers of `src/engine/engine_derivative_fd.c`
(`mjd_stepFD` as called by `mjd_transitionFD`, `mjd_inverseFD`) and of the scalar velocity-derivative terms of
`src/engine/engine_derivative.c` / `engine_forward.c`, over the law-free number class `MjNum α`.  Core Lean only.

Modelled:
  * mjData as a finite map from the fields `mj_getState` / `mj_setState` address (plus `qacc` and one field standing
    for every derived quantity) to arrays; `mj_getState(spec)`, `mj_setState(spec)`.
  * `mjd_stepFD`: the saved `restore_spec = FULLPHYSICS | CTRL | (WARMSTART unless disabled)`, the unperturbed step,
    the four perturbation loops (ctrl with the range-clamped choice of forward / backward / centred nudges through the
    *generated* `inRange`, act, qvel, qpos through `mj_integratePos`), each nudge followed by `mj_stepSkip` with the
    loop's skip stage and by `mj_setState`; `mj_stepSkip` and `mj_integratePos` are *parameters* (any functions).
  * `mjd_inverseFD`: centre evaluation, the qacc / qvel / qpos loops with element-wise save / nudge / restore
    (`tmp = d->qacc[i]; d->qacc[i] += eps; ...; d->qacc[i] = tmp`) and the full-copy restore of qpos.
  * `diff`, `clampedDiff` (sensor rows) and the argument order of `clampedStateDiff` (state rows).
  * scalar force laws whose velocity derivative `mjd_passive_vel` / `mjd_actuator_vel` add to qDeriv: the dof / tendon
    damper (`-v * mju_polyForce(b, poly, v, 2, 1)`, derivative `-mjd_xPolyForce`), the affine actuator
    (`(g0 + g1 l + g2 v) * u + b0 + b1 l + b2 v`, derivative `b2 + g2 u`), and the muscle gain (generated).
Not modelled: `mjd_rne_vel`, the fluid derivatives, the sparse `J' B J` accumulation, the numerical content of the
Jacobians (`stateDiff` with quaternions).
-/
namespace MjProof.FDBook
open MjProof MjProof.Gen

variable {α : Type} [MjNum α]

/-! ### mjData as a finite map -/

/-- the fields `mjtState` names, `qacc` (input of inverse dynamics) and one field for everything derived -/
inductive Fld
  | time | qpos | qvel | act | history | warmstart | ctrl | qfrcApplied | xfrcApplied | eqActive
  | mocapPos | mocapQuat | userdata | plugin | qacc | derived
  deriving DecidableEq, Repr

/-- a structure (not a bare function type) so that compiled code evaluates an updated mjData once instead of
re-running the update at every field read -/
structure Data (α : Type) where
  get : Fld → List α

instance : CoeFun (Data α) (fun _ => Fld → List α) := ⟨Data.get⟩

def Data.set (d : Data α) (f : Fld) (v : List α) : Data α := ⟨fun g => if g = f then v else d.get g⟩

/-- `mj_getState(m, d, state, spec)`: the selected fields, in order -/
def getState (d : Data α) (spec : List Fld) : List (Fld × List α) := spec.map fun f => (f, d f)

/-- `mj_setState(m, d, state, spec)` -/
def setState (d : Data α) (saved : List (Fld × List α)) : Data α := saved.foldl (fun d p => d.set p.1 p.2) d

/-- `x[i] += e` -/
def nudge : List α → Nat → α → List α
  | [], _, _ => []
  | x :: xs, 0, e => (x + e) :: xs
  | x :: xs, i + 1, e => x :: nudge xs i e

/-- `x[i] = v` -/
def setAt : List α → Nat → α → List α
  | [], _, _ => []
  | _ :: xs, 0, v => v :: xs
  | x :: xs, i + 1, v => x :: setAt xs i v

/-- `mjtStage` values passed as `skipstage` -/
def stageNone : Nat := 0
def stagePos : Nat := 1
def stageVel : Nat := 2

/-! ### `mjd_stepFD` -/

/-- what the driver treats as opaque -/
structure Env (α : Type) where
  /-- `mj_stepSkip(m, d, skipstage, skipsensor)` -/
  step : Nat → Bool → Data α → Data α
  /-- `mj_integratePos(m, qpos, e_i, h)` -/
  integratePos : List α → Nat → α → List α

structure Cfg (α : Type) where
  eps : α
  centered : Bool
  /-- which output pointers are non-NULL -/
  dyDq : Bool
  dyDv : Bool
  dyDa : Bool
  dyDu : Bool
  dsDq : Bool
  dsDv : Bool
  dsDa : Bool
  dsDu : Bool
  /-- `mjDISABLED(mjDSBL_WARMSTART)` -/
  warmstartDisabled : Bool
  /-- per actuator: `actuator_ctrllimited`, `actuator_ctrlrange` -/
  ctrlInfo : List (Bool × α × α)

/-- `restore_spec = mjSTATE_FULLPHYSICS | mjSTATE_CTRL | (warmstart ? mjSTATE_WARMSTART : 0)` -/
def restoreSpec (c : Cfg α) : List Fld :=
  [.time, .qpos, .qvel, .act, .history, .plugin, .ctrl] ++ (if c.warmstartDisabled then [] else [.warmstart])

/-- nudge one field, step, `mj_setState(fullstate)` -/
def perturbStep (e : Env α) (full : List (Fld × List α)) (stage : Nat) (skipsensor : Bool) (f : Fld)
    (upd : List α → List α) (d : Data α) : Data α :=
  setState (e.step stage skipsensor (d.set f (upd (d f)))) full

/-- body of the control loop for actuator `i` with saved control `ci` -/
def ctrlIter (e : Env α) (c : Cfg α) (full : List (Fld × List α)) (skipsensor : Bool)
    (d : Data α) (x : Nat × α × Bool × α × α) : Data α :=
  let (i, ci, limited, lo, hi) := x
  let fwd : Bool := !limited || decide (inRange ci (ci + c.eps) lo hi ≠ 0)
  let d := if fwd then perturbStep e full stageVel skipsensor .ctrl (fun l => nudge l i c.eps) d else d
  let back : Bool := (c.centered || !fwd) && (!limited || decide (inRange (ci - c.eps) ci lo hi ≠ 0))
  if back then perturbStep e full stageVel skipsensor .ctrl (fun l => nudge l i (-c.eps)) d else d

/-- body of the act / qvel loops: forward nudge, and the backward one when centred -/
def plainIter (e : Env α) (c : Cfg α) (full : List (Fld × List α)) (skipsensor : Bool) (stage : Nat) (f : Fld)
    (d : Data α) (i : Nat) : Data α :=
  let d := perturbStep e full stage skipsensor f (fun l => nudge l i c.eps) d
  if c.centered then perturbStep e full stage skipsensor f (fun l => nudge l i (-c.eps)) d else d

/-- body of the qpos loop: `mj_integratePos(m, d->qpos, e_i, ±eps)` -/
def posIter (e : Env α) (c : Cfg α) (full : List (Fld × List α)) (skipsensor : Bool)
    (d : Data α) (i : Nat) : Data α :=
  let d := perturbStep e full stageNone skipsensor .qpos (fun l => e.integratePos l i c.eps) d
  if c.centered then perturbStep e full stageNone skipsensor .qpos (fun l => e.integratePos l i (-c.eps)) d else d

def enum (l : List α) : List (Nat × α) := (List.range l.length).zip l

/-- the control loop (`if (DyDu || DsDu)`) -/
def ctrlLoop (e : Env α) (c : Cfg α) (full : List (Fld × List α)) (skipsensor : Bool) (ctrl : List α)
    (d : Data α) : Data α :=
  if c.dyDu || c.dsDu then
    ((enum ctrl).zip c.ctrlInfo).foldl
      (fun d x => ctrlIter e c full skipsensor d (x.1.1, x.1.2, x.2.1, x.2.2.1, x.2.2.2)) d
  else d

/-- the activation loop (`if (DyDa || DsDa)`), skip stage VEL -/
def actLoop (e : Env α) (c : Cfg α) (full : List (Fld × List α)) (skipsensor : Bool) (na : Nat) (d : Data α) : Data α :=
  if c.dyDa || c.dsDa then (List.range na).foldl (plainIter e c full skipsensor stageVel .act) d else d

/-- the velocity loop (`if (DyDv || DsDv)`), skip stage POS -/
def velLoop (e : Env α) (c : Cfg α) (full : List (Fld × List α)) (skipsensor : Bool) (nv : Nat) (d : Data α) : Data α :=
  if c.dyDv || c.dsDv then (List.range nv).foldl (plainIter e c full skipsensor stagePos .qvel) d else d

/-- the position loop (`if (DyDq || DsDq)`), nothing skipped -/
def posLoop (e : Env α) (c : Cfg α) (full : List (Fld × List α)) (skipsensor : Bool) (nv : Nat) (d : Data α) : Data α :=
  if c.dyDq || c.dsDq then (List.range nv).foldl (posIter e c full skipsensor) d else d

/-- `mjd_stepFD` (as called by `mjd_transitionFD`): returns the mjData it leaves behind; `none` if the control array
and the per-actuator model arrays disagree in length -/
def stepFD (e : Env α) (c : Cfg α) (d0 : Data α) : Option (Data α) :=
  if (d0 .ctrl).length ≠ c.ctrlInfo.length then none else
  let full := getState d0 (restoreSpec c)
  let ctrl := d0 .ctrl
  let nv := (d0 .qvel).length
  let na := (d0 .act).length
  let skipsensor : Bool := !c.dsDq && !c.dsDv && !c.dsDa && !c.dsDu
  -- step input, save output, restore input
  let d := setState (e.step stageNone skipsensor d0) full
  -- controls, activations, velocities, positions
  some (posLoop e c full skipsensor nv (velLoop e c full skipsensor nv (actLoop e c full skipsensor na
    (ctrlLoop e c full skipsensor ctrl d))))

/-! ### `mjd_inverseFD` -/

structure InvEnv (α : Type) where
  /-- `inverseSkip(m, d, stage, skipsensor, flg_actuation, force)`: `mj_inverseSkip` then optionally `mj_fwdActuation` -/
  inv : Nat → Bool → Data α → Data α
  integratePos : List α → Nat → α → List α

structure InvCfg (α : Type) where
  eps : α
  dfDq : Bool
  dfDv : Bool
  dfDa : Bool
  dsDq : Bool
  dsDv : Bool
  dsDa : Bool
  dmDq : Bool

/-- `tmp = d->f[i]; d->f[i] += eps; inverseSkip(...); d->f[i] = tmp` -/
def elemIter (e : InvEnv α) (c : InvCfg α) (skipsensor : Bool) (stage : Nat) (f : Fld)
    (d : Option (Data α)) (i : Nat) : Option (Data α) := do
  let d ← d
  let tmp ← (d f)[i]?
  let d1 := e.inv stage skipsensor (d.set f (nudge (d f) i c.eps))
  pure (d1.set f (setAt (d1 f) i tmp))

/-- `mj_integratePos(d->qpos, e_i, eps); inverseSkip(...); mju_copy(d->qpos, pos, nq)` -/
def invPosIter (e : InvEnv α) (c : InvCfg α) (skipsensor : Bool) (pos : List α)
    (d : Option (Data α)) (i : Nat) : Option (Data α) := do
  let d ← d
  let d1 := e.inv stageNone skipsensor (d.set .qpos (e.integratePos (d .qpos) i c.eps))
  pure (d1.set .qpos pos)

def accLoop (e : InvEnv α) (c : InvCfg α) (skipsensor : Bool) (nv : Nat) (d : Option (Data α)) : Option (Data α) :=
  if c.dfDa || c.dsDa then (List.range nv).foldl (elemIter e c skipsensor stageVel .qacc) d else d

def invVelLoop (e : InvEnv α) (c : InvCfg α) (skipsensor : Bool) (nv : Nat) (d : Option (Data α)) : Option (Data α) :=
  if c.dfDv || c.dsDv then (List.range nv).foldl (elemIter e c skipsensor stagePos .qvel) d else d

def invPosLoop (e : InvEnv α) (c : InvCfg α) (skipsensor : Bool) (nv : Nat) (pos : List α) (d : Option (Data α)) :
    Option (Data α) :=
  if c.dfDq || c.dsDq || c.dmDq then (List.range nv).foldl (invPosIter e c skipsensor pos) d else d

def inverseFD (e : InvEnv α) (c : InvCfg α) (d0 : Data α) : Option (Data α) :=
  let nv := (d0 .qvel).length
  let skipsensor : Bool := !c.dsDq && !c.dsDv && !c.dsDa
  let pos := d0 .qpos
  invPosLoop e c skipsensor nv pos (invVelLoop e c skipsensor nv (accLoop e c skipsensor nv
    (some (e.inv stageNone skipsensor d0))))

/-! ### the differencing helpers -/

/-- `diff(dx, x1, x2, h, n)`: `dx = (x2 - x1) * (1/h)` -/
def diff (x1 x2 : List α) (h : α) : List α :=
  let invH := MjNum.ofInt 1 / h
  List.zipWith (fun a b => invH * (b - a)) x1 x2

/-- `clampedDiff(dx, x, x_plus, x_minus, h, nx)` as coded (sensor rows of the control Jacobian); `none` = NULL.
The centred branch is `diff(dx, x_minus, x_plus, 2*h, nx)` (since /repo commit 8c58e7e22; before it the two arguments
were swapped and the centred D matrix had the wrong sign). -/
def clampedDiff (x : List α) (xPlus xMinus : Option (List α)) (h : α) : List α :=
  match xPlus, xMinus with
  | some p, none => diff x p h
  | none, some m => diff m x h
  | some p, some m => diff m p (MjNum.ofInt 2 * h)
  | none, none => x.map fun _ => MjNum.ofInt 0

/-- the argument order of `clampedStateDiff` (state rows), on plain vectors (`nq == nv` branch of `stateDiff`) -/
def clampedStateDiff (s : List α) (sPlus sMinus : Option (List α)) (h : α) : List α :=
  match sPlus, sMinus with
  | some p, none => diff s p h
  | none, some m => diff m s h
  | some p, some m => diff m p (MjNum.ofInt 2 * h)
  | none, none => s.map fun _ => MjNum.ofInt 0

/-! ### scalar force laws and the velocity-derivative terms added to qDeriv -/

/-- dof / tendon damper force as coded in `mj_passive`: `-v * mju_polyForce(damping, poly, v, mjNPOLY, 1)` -/
def damperForce (damping p0 p1 v : α) : α := -(v * mju_polyForce_damper damping p0 p1 v)

/-- the term `mjd_passive_vel` adds on the diagonal: `-mjd_xPolyForce(damping, poly, v, mjNPOLY, 1)` -/
def damperForceVel (damping p0 p1 v : α) : α := -(mjd_xPolyForce_damper damping p0 p1 v)

/-- affine gain and bias of `mj_fwdActuation`: `force = (g0 + g1 len + g2 vel) * input + b0 + b1 len + b2 vel` -/
def affineActuatorForce (g0 g1 g2 b0 b1 b2 len vel input : α) : α :=
  (g0 + g1 * len + g2 * vel) * input + (b0 + b1 * len + b2 * vel)

/-- what `mjd_actuator_vel` computes for it: `bias_vel = b2; bias_vel += g2 * input` -/
def affineActuatorForceVel (g2 b2 input : α) : α := b2 + g2 * input

end MjProof.FDBook
