/-
Model of the lexer of `doc/generate/mjcf_schema.py` (`_TOKEN_RE`, `_lex`) and of the two Python builtins
the parser applies to NUMBER tokens (`int(...)`, `float(...)`).  Core Lean only.

Line numbers are *intrinsically* bounded: a `Line N` is a natural number `l` with `1 ≤ l ≤ N`, where
`N = 1 + (number of '\n' in the text)` is the line count of the text as `_lex` counts it (the line of the
`eof` token).  Tokens, AST nodes and errors carry `Line N`, so "the reported line lies within the text"
is checked by the kernel at every place a line number is produced (here: in `lexAux`).

Character classes: `\d` of a Python `str` pattern is the Unicode category Nd (680 code points in Unicode
15.0, 68 runs of ten consecutive digits 0..9); `str.strip()` strips `str.isspace()` characters.  Both
tables are compared against the running interpreter by `checks/c41.py` (op `classes`).
-/
namespace MjProof.Schema

/-! ## characters -/

/-- First code point of every run of ten consecutive Unicode decimal digits (category Nd, Unicode 15.0).
    The digit value of `c` in a run starting at `s` is `c - s`. -/
def ndStarts : List Nat :=
  [0x30, 0x660, 0x6f0, 0x7c0, 0x966, 0x9e6, 0xa66, 0xae6, 0xb66, 0xbe6, 0xc66, 0xce6, 0xd66, 0xde6, 0xe50,
   0xed0, 0xf20, 0x1040, 0x1090, 0x17e0, 0x1810, 0x1946, 0x19d0, 0x1a80, 0x1a90, 0x1b50, 0x1bb0, 0x1c40,
   0x1c50, 0xa620, 0xa8d0, 0xa900, 0xa9d0, 0xa9f0, 0xaa50, 0xabf0, 0xff10, 0x104a0, 0x10d30, 0x11066,
   0x110f0, 0x11136, 0x111d0, 0x112f0, 0x11450, 0x114d0, 0x11650, 0x116c0, 0x11730, 0x118e0, 0x11950,
   0x11c50, 0x11d50, 0x11da0, 0x11f50, 0x16a60, 0x16ac0, 0x16b50, 0x1d7ce, 0x1d7d8, 0x1d7e2, 0x1d7ec,
   0x1d7f6, 0x1e140, 0x1e2f0, 0x1e4f0, 0x1e950, 0x1fbf0]

/-- `str.isspace()` code points (Unicode 15.0). -/
def spaceCodes : List Nat :=
  [0x9, 0xa, 0xb, 0xc, 0xd, 0x1c, 0x1d, 0x1e, 0x1f, 0x20, 0x85, 0xa0, 0x1680, 0x2000, 0x2001, 0x2002,
   0x2003, 0x2004, 0x2005, 0x2006, 0x2007, 0x2008, 0x2009, 0x200a, 0x2028, 0x2029, 0x202f, 0x205f, 0x3000]

/-- Decimal value of a character matched by `\d` (what `int`/`float` read), or `none`. -/
def digitVal? (c : Char) : Option Nat :=
  let n := c.toNat
  if n < 0x80 then (if 0x30 ≤ n ∧ n ≤ 0x39 then some (n - 0x30) else none)
  else match ndStarts.find? (fun s => decide (s ≤ n ∧ n < s + 10)) with
    | some s => some (n - s)
    | none => none

def isDigit (c : Char) : Bool := (digitVal? c).isSome
def isSpace (c : Char) : Bool := spaceCodes.contains c.toNat

def isIdentStart (c : Char) : Bool :=
  ('A' ≤ c ∧ c ≤ 'Z') ∨ ('a' ≤ c ∧ c ≤ 'z') ∨ c = '_'
def isIdentChar (c : Char) : Bool := isIdentStart c ∨ ('0' ≤ c ∧ c ≤ '9')
/-- `[{}()\[\]<>:=,?!*+]` -/
def isPunct (c : Char) : Bool := "{}()[]<>:=,?!*+".toList.contains c

/-- `str.strip()` -/
def strip (l : List Char) : List Char :=
  ((l.dropWhile isSpace).reverse.dropWhile isSpace).reverse

/-- Length of the longest prefix whose characters satisfy `p` (a greedy `[...]*`). -/
def countWhile (p : Char → Bool) : List Char → Nat
  | [] => 0
  | c :: cs => if p c then countWhile p cs + 1 else 0

theorem countWhile_le (p : Char → Bool) (l : List Char) : countWhile p l ≤ l.length := by
  induction l with
  | nil => simp [countWhile]
  | cons c cs ih => simp only [countWhile]; split <;> simp <;> omega

/-! ## the NUMBER token
`-?(?:\d+(?:\.(?!\.)\d*)?|\.\d+)(?:[eE][+-]?\d+)?` — every quantified part after the first `\d+` is
optional, so Python's backtracking matcher never gives back characters: the greedy scan below is the
match.  Each function returns the number of characters matched (0 = no match). -/

/-- `(?:[eE][+-]?\d+)?` -/
def expLen (cs : List Char) : Nat :=
  match cs with
  | e :: rest =>
    if e = 'e' ∨ e = 'E' then
      match rest with
      | s :: r2 =>
        if s = '+' ∨ s = '-' then
          (let d := countWhile isDigit r2; if d = 0 then 0 else 2 + d)
        else
          (let d := countWhile isDigit rest; if d = 0 then 0 else 1 + d)
      | [] => 0
    else 0
  | [] => 0

/-- `(?:\d+(?:\.(?!\.)\d*)?|\.\d+)` -/
def unsignedLen (cs : List Char) : Nat :=
  let d := countWhile isDigit cs
  if d > 0 then
    match cs.drop d with
    | '.' :: r =>
      match r with
      | '.' :: _ => d                      -- the `(?!\.)` look-ahead: `0..3` is NUMBER DOTDOT NUMBER
      | _ => d + 1 + countWhile isDigit r
    | _ => d
  else
    match cs with
    | '.' :: r => (let f := countWhile isDigit r; if f > 0 then 1 + f else 0)
    | _ => 0

def numberLen (cs : List Char) : Nat :=
  match cs with
  | '-' :: r => (let u := unsignedLen r; if u = 0 then 0 else 1 + u + expLen (r.drop u))
  | _ => (let u := unsignedLen cs; if u = 0 then 0 else u + expLen (cs.drop u))

/-! ## lines, tokens, errors -/

abbrev Line (N : Nat) := { l : Nat // 1 ≤ l ∧ l ≤ N }

inductive Kind where
  | string | number | dotdot | ident
  | punct (c : Char)
  | eof
  deriving DecidableEq, Repr

structure Token (N : Nat) where
  kind : Kind
  value : String
  line : Line N

/-- Error classes: one per `SchemaError` message template of `mjcf_schema.py`. -/
inductive Cls where
  | badChar                       -- unexpected character
  | expected (k : Kind)           -- expected {kind!r}, got ...
  | badDecl                       -- expected 'enum', 'group' or 'element'
  | dupEnum | dupGroup | dupElement
  | enumKey | dupEnumKey | enumVal | emptyEnum | emptyGroup
  | conTwo | setInGroup | childInGroup | card | unknownType
  | arityRange | arityBound | notInt | negArity | badDefault
  | unknownFacet | dupFacet | facetValue
  -- validation
  | cycle | conUnknown | variantUse | variantRequired | danglingUse
  | facetName | danglingAlias | danglingChild | dupChild | dupAttr | requiresTwo
  | danglingEnum | danglingRef | notVector | charsUnbounded | patternText
  | minMaxNumeric | minMaxOrder | positiveNumeric | requiredDefault
  | enumDefaultKeyword | enumDefaultNotKw | noDefaultAllowed | boolDefault | stringDefault
  | numericDefault | vectorForScalar | defaultTooShort | defaultTooLong
  deriving DecidableEq, Repr

abbrev Err (N : Nat) := Line N × Cls

/-- Number of `'\n'` characters. -/
def nl (cs : List Char) : Nat := cs.count '\n'

theorem nl_drop_le (k : Nat) (cs : List Char) : nl (cs.drop k) ≤ nl cs :=
  (List.drop_sublist k cs).count_le _

theorem nl_cons_le (c : Char) (cs : List Char) : nl cs ≤ nl (c :: cs) := by
  simp [nl, List.count_cons]

theorem nl_cons_newline (cs : List Char) : nl ('\n' :: cs) = nl cs + 1 := by
  simp [nl]

/-- Result of `_lex`: the tokens (without the final `eof` token, whose line is `eofLine`) and the map
    line → trailing comment text (newest first; there is at most one comment per line). -/
structure LexOut (N : Nat) where
  toks : Array (Token N)
  comments : List (Line N × String)
  eofLine : Line N

/-- The `while pos < len(text)` loop of `_lex`, one `_TOKEN_RE.match` per step; the alternatives are tried
    in the order of the regular expression. -/
def lexAux (N : Nat) (cs : List Char) (line : Nat) (h1 : 1 ≤ line) (h : line + nl cs ≤ N)
    (acc : Array (Token N)) (com : List (Line N × String)) : Except (Err N) (LexOut N) :=
  have hl : line ≤ N := by omega
  let ln : Line N := ⟨line, h1, hl⟩
  match cs with
  | [] => .ok ⟨acc, com, ln⟩
  | c :: rest =>
    have hr : line + nl rest ≤ N := by have := nl_cons_le c rest; omega
    have hd : ∀ k, line + nl (rest.drop k) ≤ N := fun k => by have := nl_drop_le k rest; omega
    if c = ' ' ∨ c = '\t' then lexAux N rest line h1 hr acc com
    else if c = '#' then
      let k := countWhile (fun x => x ≠ '\n') rest
      lexAux N (rest.drop k) line h1 (hd k) acc ((ln, String.ofList (strip (rest.take k))) :: com)
    else if hc : c = '\n' then
      lexAux N rest (line + 1) (by omega) (by subst hc; have := nl_cons_newline rest; omega) acc com
    else if c = '"' then
      let k := countWhile (fun x => x ≠ '"' ∧ x ≠ '\n') rest
      if (rest.drop k).head? = some '"' then
        lexAux N (rest.drop (k + 1)) line h1 (hd (k + 1))
          (acc.push ⟨.string, String.ofList ('"' :: rest.take k ++ ['"']), ln⟩) com
      else .error (ln, .badChar)
    else
      let n := numberLen (c :: rest)
      if hn : n > 0 then
        lexAux N ((c :: rest).drop n) line h1 (by have := nl_drop_le n (c :: rest); omega)
          (acc.push ⟨.number, String.ofList ((c :: rest).take n), ln⟩) com
      else if c = '.' ∧ rest.head? = some '.' then
        lexAux N (rest.drop 1) line h1 (hd 1) (acc.push ⟨.dotdot, "..", ln⟩) com
      else if isIdentStart c then
        let k := countWhile isIdentChar rest
        lexAux N (rest.drop k) line h1 (hd k) (acc.push ⟨.ident, String.ofList (c :: rest.take k), ln⟩) com
      else if isPunct c then
        lexAux N rest line h1 hr (acc.push ⟨.punct c, String.singleton c, ln⟩) com
      else .error (ln, .badChar)
termination_by cs.length
decreasing_by
  all_goals simp only [List.length_cons, List.length_drop]
  all_goals omega

/-- Number of lines of a text as `_lex` counts them. -/
def nlines (text : List Char) : Nat := nl text + 1

def lex (text : List Char) : Except (Err (nlines text)) (LexOut (nlines text)) :=
  lexAux (nlines text) text 1 (Nat.le_refl 1) (by simp [nlines]; omega) #[] []

/-! ## `int(token.value)` and `float(token.value)` -/

/-- CPython's default `sys.get_int_max_str_digits()`: `int(s)` raises `ValueError` (which `parse_int`
    turns into "expected integer") when `s` has more digits than this. -/
def intMaxStrDigits : Nat := 4300

def digitsVal (acc : Nat) : List Char → Option Nat
  | [] => some acc
  | c :: cs => match digitVal? c with
    | some v => digitsVal (acc * 10 + v) cs
    | none => none

/-- `int(s)` for a NUMBER token `s`: `none` is `ValueError` (a `.`/exponent, or too many digits). -/
def pyInt? (s : List Char) : Option Int :=
  match s with
  | '-' :: ds =>
    if ds = [] ∨ ds.length > intMaxStrDigits then none else (digitsVal 0 ds).map (fun n => - (n : Int))
  | ds =>
    if ds = [] ∨ ds.length > intMaxStrDigits then none else (digitsVal 0 ds).map (fun n => (n : Int))

/-- An IEEE-754 binary64 value that is not a NaN: sign and the 63 magnitude bits. -/
structure Dbl where
  neg : Bool
  mag : Nat
  deriving DecidableEq, Repr

def Dbl.infMag : Nat := 0x7FF * 2 ^ 52
/-- Order-embedding of the non-NaN doubles into `Int` (`-0.0` and `0.0` both map to 0). -/
def Dbl.key (d : Dbl) : Int := if d.neg then - (d.mag : Int) else d.mag
def Dbl.isZero (d : Dbl) : Bool := d.mag = 0
def Dbl.one : Dbl := ⟨false, 1023 * 2 ^ 52⟩
def Dbl.bits (d : Dbl) : Nat := (if d.neg then 2 ^ 63 else 0) + d.mag

/-- `num / den / 2^k` as a quotient, remainder and divisor. -/
def scaled (num den : Nat) (k : Int) : Nat × Nat × Nat :=
  if k ≥ 0 then
    let D := den * 2 ^ k.toNat
    (num / D, num % D, D)
  else
    let n' := num * 2 ^ (-k).toNat
    (n' / den, n' % den, den)

/-- Correctly rounded (nearest, ties to even) binary64 value of `M * 10^e10`, as `float()` computes it. -/
def decToDbl (neg : Bool) (M : Nat) (e10 : Int) : Dbl :=
  if M = 0 then ⟨neg, 0⟩ else
  let d : Int := (Nat.repr M).length
  if d + e10 ≥ 311 then ⟨neg, Dbl.infMag⟩
  else if d + e10 ≤ -326 then ⟨neg, 0⟩
  else
    let num := if e10 ≥ 0 then M * 10 ^ e10.toNat else M
    let den := if e10 ≥ 0 then 1 else 10 ^ (-e10).toNat
    let L : Int := (Nat.log2 num : Int) - (Nat.log2 den : Int)
    let q0 := (scaled num den (L - 52)).1
    let k1 : Int := if q0 < 2 ^ 52 then L - 53 else L - 52
    let k : Int := if k1 < -1074 then -1074 else k1
    let (q, r, D) := scaled num den k
    let q' := if 2 * r > D ∨ (2 * r = D ∧ q % 2 = 1) then q + 1 else q
    let bits := (k + 1074).toNat * 2 ^ 52 + q'
    if bits ≥ Dbl.infMag then ⟨neg, Dbl.infMag⟩ else ⟨neg, bits⟩

/-- Value of a run of digits (non-digits count as 0; NUMBER tokens contain none in these positions). -/
def digitsNat (l : List Char) : Nat := l.foldl (fun acc c => acc * 10 + (digitVal? c).getD 0) 0

/-- `float(s)` for a NUMBER token `s` (sign, integer digits, optional fraction, optional exponent). -/
def pyFloat (s : List Char) : Dbl :=
  let (neg, body) := match s with
    | '-' :: r => (true, r)
    | _ => (false, s)
  let ni := countWhile isDigit body
  let ip := body.take ni
  let r1 := body.drop ni
  let (fp, r2) := match r1 with
    | '.' :: r => (let nf := countWhile isDigit r; (r.take nf, r.drop nf))
    | _ => ([], r1)
  let e : Int := match r2 with
    | _ :: '-' :: ds => - (digitsNat ds : Int)
    | _ :: '+' :: ds => (digitsNat ds : Int)
    | _ :: ds => (digitsNat ds : Int)
    | [] => 0
  decToDbl neg (digitsNat (ip ++ fp)) (e - fp.length)

end MjProof.Schema
