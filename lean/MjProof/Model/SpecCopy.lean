/-
Model of the deep copy of an `mjSpec` (`mj_copySpec` = `mjCModel::mjCModel(const mjCModel&)` = `operator=` →
`operator+=(const mjCModel&)` in src/user/user_model.cc), restricted to what decides WHICH elements survive the copy.

The copy first rebuilds the kinematic tree (bodies, joints, geoms, sites, cameras, lights, frames: the `tree` kinds; the
body copy constructor copies them unconditionally), then calls `CopyList(list_k, other.list_k)` once per non-tree list
in a fixed order.  `CopyList` goes through the source list in order; it copies the element, calls
`ResolveReferences(this)` on the copy and — this is the point — SILENTLY SKIPS the element when a reference does not
resolve in the destination (`catch (mjCError) { ...; continue; }`).  The name → id map of kind `k` in the destination
is filled only at the end of `CopyList` for `k`; while `k` is being copied the lookup for kind `k` itself falls back to a
linear search over the elements pushed so far, so an element can see the *earlier* elements of its own list.

An element is abstracted to its kind (the `mjtObj` code), its name (coded as a number) and the list of
(kind, name) pairs its `ResolveReferences` looks up.  Core Lean only.
-/
namespace MjProof.SpecCopy

abbrev Key := Nat × Nat

structure Elem where
  kind : Nat
  name : Nat
  refs : List Key
deriving Repr, DecidableEq

def Elem.key (e : Elem) : Key := (e.kind, e.name)

/-- the source list of kind `k`, in list order -/
def ofKind (src : List Elem) (k : Nat) : List Elem := src.filter (fun e => e.kind == k)

/-- one iteration of the loop of `CopyList`: keep the element iff every reference resolves in the destination -/
def copyElem (d : List Key) (e : Elem) : List Key :=
  if e.refs.all (fun r => d.contains r) then d ++ [e.key] else d

/-- `CopyList(list_k, other.list_k)`; `dest` = the (kind, name) pairs present in the destination -/
def copyList (src : List Elem) (k : Nat) (dest : List Key) : List Key :=
  (ofKind src k).foldl copyElem dest

/-- the elements of the tree kinds, present before the first `CopyList` -/
def treeKeys (tree : List Nat) (src : List Elem) : List Key :=
  (src.filter (fun e => tree.contains e.kind)).map Elem.key

/-- the whole copy: `order` = the kinds in the order of the `CopyList` calls -/
def copySpec (order tree : List Nat) (src : List Elem) : List Key :=
  order.foldl (fun d k => copyList src k d) (treeKeys tree src)

/-- number of elements of kind `k` in the copy -/
def keptCount (dest : List Key) (k : Nat) : Nat := (dest.filter (fun x => x.1 == k)).length

/-- `b` is copied strictly before (the first copy of) `a` -/
def before (order : List Nat) (b a : Nat) : Bool := (order.takeWhile (fun x => x != a)).contains b

/-- kind-level condition on the order of the `CopyList` calls: every cross-kind reference edge `a → b` (elements of kind
    `a` look up elements of kind `b`) goes to a tree kind or to a kind copied strictly earlier -/
def kindOK (order tree : List Nat) (edges : List (Nat × Nat)) : Bool :=
  edges.all (fun ab => ab.1 == ab.2 || tree.contains ab.2 || before order ab.2 ab.1)

/-- the edges that violate `kindOK` (for diagnostics) -/
def badEdges (order tree : List Nat) (edges : List (Nat × Nat)) : List (Nat × Nat) :=
  edges.filter (fun ab => !(ab.1 == ab.2 || tree.contains ab.2 || before order ab.2 ab.1))

/-- the cross-kind and same-kind reference edges that occur in a source -/
def edgesOf (src : List Elem) : List (Nat × Nat) :=
  src.flatMap (fun e => e.refs.map (fun r => (e.kind, r.1)))

end MjProof.SpecCopy
