/-
Model of `mj_fwdConstraint` (src/engine/engine_forward.c), of `dualFinish` / `mj_dualFinish`
(engine_solver.c) and of `mj_constraintUpdate` (engine_core_constraint.c) as far as the arrays that
property C11 observes are concerned: `qfrc_constraint` (a persistent nv-sized buffer of mjData that
survives from one call to the next) and `efc_force` (with their per-island copies `ifrc_constraint`,
`iefc_force`).

The function is represented statement by statement as a flat list of *guarded primitive statements*:
each statement carries the conditions of the enclosing `if` / `else` / `switch`-case / `for` blocks.
`skeleton` prints the list in a canonical text form; `translate/c11_fwdskel.py` prints the same form
from the C source of the tree and checks/c11.py compares the two on every run, so a statement that is
added, dropped, moved (e.g. behind the `if (!nefc) return`) or re-guarded in the source breaks the tie.

Semantics: the state keeps the content of the four tracked arrays; everything the solvers compute is
abstract (`Leaves`): the theorems of Props/C11.lean hold for every stale content of the tracked
arrays at entry (= every history of earlier calls on the same mjData).  Core Lean only.
-/
namespace MjProof.FwdConstraint

inductive Solver | pgs | cg | newton
  deriving DecidableEq, Repr

def Solver.text : Solver → String
  | .pgs => "mjSOL_PGS" | .cg => "mjSOL_CG" | .newton => "mjSOL_NEWTON"

/-- what decides the branches of one call -/
structure Env where
  noRows : Bool      -- d->nefc == 0
  islands : Bool     -- islands_supported (= !mjDISABLED(mjDSBL_ISLAND) && nisland > 0 && !mj_flexCG(m))
  solver : Solver    -- m->opt.solver (an invalid value raises mjERROR: no result)
  noslip : Bool      -- m->opt.noslip_iterations > 0
  warm : Bool        -- !mjDISABLED(mjDSBL_WARMSTART)
  zeroBetter : Bool  -- PGS warm start: PGS_warmstart > 0 (the zero force has the lower dual cost)
  oracle : String → Bool   -- value of every other condition (none of them guards a write to a tracked array)

/-- guard literals: the enclosing control structure of a statement -/
inductive G
  | ifNoRows | ifBadSolver | ifIslands | elseIslands | caseSolver (l : List Solver) | ifNoslip
  | forIslands | ifDual
  | ifWarm | elseWarm | ifPGS | elsePGS | ifZeroBetter
  | ifOpaque (c : String) | elseOpaque (c : String) | forOpaque (h : String)

def G.text : G → String
  | .ifNoRows => "if(!nefc)"
  | .ifBadSolver => "if(m->opt.solver!=mjSOL_PGS&&m->opt.solver!=mjSOL_CG&&m->opt.solver!=mjSOL_NEWTON)"
  | .ifIslands => "if(islands_supported)"
  | .elseIslands => "else(islands_supported)"
  | .caseSolver l => "switch((mjtSolver)m->opt.solver):" ++ ",".intercalate (l.map Solver.text)
  | .ifNoslip => "if(m->opt.noslip_iterations>0)"
  | .forIslands => "for(int island=0;island<nisland;island++)"
  | .ifDual => "if(m->opt.solver==mjSOL_PGS||m->opt.noslip_iterations>0)"
  | .ifWarm => "if(!mjDISABLED(mjDSBL_WARMSTART))"
  | .elseWarm => "else(!mjDISABLED(mjDSBL_WARMSTART))"
  | .ifPGS => "if(m->opt.solver==mjSOL_PGS)"
  | .elsePGS => "else(m->opt.solver==mjSOL_PGS)"
  | .ifZeroBetter => "if(PGS_warmstart>0)"
  | .ifOpaque c => "if(" ++ c ++ ")"
  | .elseOpaque c => "else(" ++ c ++ ")"
  | .forOpaque h => "for(" ++ h ++ ")"

def G.holds (e : Env) : G → Bool
  | .ifNoRows => e.noRows
  | .ifBadSolver => false          -- `Env.solver` is one of the three valid solvers
  | .ifIslands => e.islands
  | .elseIslands => !e.islands
  | .caseSolver l => l.contains e.solver
  | .ifNoslip => e.noslip
  | .forIslands => true            -- the whole loop is one abstract transition (`Leaves.noslip`)
  | .ifDual => e.solver == .pgs || e.noslip
  | .ifWarm => e.warm
  | .elseWarm => !e.warm
  | .ifPGS => e.solver == .pgs
  | .elsePGS => !(e.solver == .pgs)
  | .ifZeroBetter => e.zeroBetter
  | .ifOpaque c => e.oracle c
  | .elseOpaque c => !e.oracle c
  | .forOpaque _ => true           -- loop bodies under `forOpaque` hold `Prim.other` statements only

/-- arrays of mjData named in the modelled functions -/
inductive Arr
  | qfrc_constraint | ifrc_constraint | efc_force | iefc_force            -- tracked
  | qfrc_smooth | qacc | qacc_smooth | efc_b | efc_aref | solver_niter
  | ifrc_smooth | iacc_smooth | iacc | iefc_aref
  deriving DecidableEq

def Arr.text : Arr → String
  | .qfrc_constraint => "d->qfrc_constraint" | .ifrc_constraint => "d->ifrc_constraint"
  | .efc_force => "d->efc_force" | .iefc_force => "d->iefc_force"
  | .qfrc_smooth => "d->qfrc_smooth" | .qacc => "d->qacc" | .qacc_smooth => "d->qacc_smooth"
  | .efc_b => "d->efc_b" | .efc_aref => "d->efc_aref" | .solver_niter => "d->solver_niter"
  | .ifrc_smooth => "d->ifrc_smooth" | .iacc_smooth => "d->iacc_smooth" | .iacc => "d->iacc"
  | .iefc_aref => "d->iefc_aref"

def Arr.tracked : Arr → Bool
  | .qfrc_constraint | .ifrc_constraint | .efc_force | .iefc_force => true
  | _ => false

inductive IMap | idof2dof | iefc2efc | efc2iefc
  deriving DecidableEq
def IMap.text : IMap → String
  | .idof2dof => "d->map_idof2dof" | .iefc2efc => "d->map_iefc2efc" | .efc2iefc => "d->map_efc2iefc"

inductive Cnt | nv | nefc | nidof | mjNISLAND | mnv
  deriving DecidableEq
def Cnt.text : Cnt → String
  | .nv => "nv" | .nefc => "nefc" | .nidof => "nidof" | .mjNISLAND => "mjNISLAND" | .mnv => "m->nv"

/-- primitive statements -/
inductive Prim
  | tmStart | tmEnd | declSizes | declIslands | setNidof | ret | errSolver
  | zero (a : Arr) (n : Cnt) | zeroInt (a : Arr) (n : Cnt)
  | copy (dst src : Arr) (n : Cnt) | subFrom (dst src : Arr) (n : Cnt) | addTo (dst src : Arr) (n : Cnt)
  | gather (dst src : Arr) (map : IMap) (n : Cnt) | scatter (dst src : Arr) (map : IMap) (n : Cnt)
  | mulJacVec (dst src : Arr)          -- mj_mulJacVec(m, d, dst, src)
  | mulJacTVec (dst src : Arr)         -- mj_mulJacTVec(m, d, dst, src)
  | solveM (dst src : Arr)             -- mj_solveM(m, d, dst, src, 1)
  | warmstart | dispatchIslands | noslipIsland | solPGS | solCG | solNewton | noslipMono
  | dualFinish                          -- mj_dualFinish(m, d)
  | dualFinishStatic                    -- dualFinish(m, d)
  | updateImpl                          -- mj_constraintUpdate_impl(..., d->efc_state, d->efc_force, cost, flg_coneHessian)
  | constraintUpdateW                   -- mj_constraintUpdate(m, d, jar, &cost_warmstart, 0)      (jar of qacc_warmstart)
  | constraintUpdateS                   -- mj_constraintUpdate(m, d, d->efc_b, &cost_smooth, 0)    (jar of qacc_smooth)
  | other (text : String)               -- a statement that writes no tracked array (checked textually by checks/c11.py)

def Prim.text : Prim → String
  | .tmStart => "TM_START"
  | .tmEnd => "TM_END(mjTIMER_CONSTRAINT)"
  | .declSizes => "int nv=m->nv,nefc=d->nefc,nisland=d->nisland,nidof"
  | .declIslands => "int islands_supported=!mjDISABLED(mjDSBL_ISLAND)&&nisland>0&&!mj_flexCG(m)"
  | .setNidof => "nidof=d->nidof"
  | .ret => "return"
  | .errSolver => "mjERROR(\"unknown solver type %d\",m->opt.solver)"
  | .zero a n => "mju_zero(" ++ a.text ++ "," ++ n.text ++ ")"
  | .zeroInt a n => "mju_zeroInt(" ++ a.text ++ "," ++ n.text ++ ")"
  | .copy d s n => "mju_copy(" ++ d.text ++ "," ++ s.text ++ "," ++ n.text ++ ")"
  | .subFrom d s n => "mju_subFrom(" ++ d.text ++ "," ++ s.text ++ "," ++ n.text ++ ")"
  | .addTo d s n => "mju_addTo(" ++ d.text ++ "," ++ s.text ++ "," ++ n.text ++ ")"
  | .gather d s m n => "mju_gather(" ++ d.text ++ "," ++ s.text ++ "," ++ m.text ++ "," ++ n.text ++ ")"
  | .scatter d s m n => "mju_scatter(" ++ d.text ++ "," ++ s.text ++ "," ++ m.text ++ "," ++ n.text ++ ")"
  | .mulJacVec d s => "mj_mulJacVec(m,d," ++ d.text ++ "," ++ s.text ++ ")"
  | .mulJacTVec d s => "mj_mulJacTVec(m,d," ++ d.text ++ "," ++ s.text ++ ")"
  | .solveM d s => "mj_solveM(m,d," ++ d.text ++ "," ++ s.text ++ ",1)"
  | .warmstart => "warmstart(m,d)"
  | .dispatchIslands => "mju_dispatch(m,d,solveIslandTask,NULL,nisland)"
  | .noslipIsland => "mj_solNoSlip_island(m,d,island,m->opt.noslip_iterations)"
  | .solPGS => "mj_solPGS(m,d,m->opt.iterations)"
  | .solCG => "mj_solCG(m,d,m->opt.iterations)"
  | .solNewton => "mj_solNewton(m,d,m->opt.iterations)"
  | .noslipMono => "mj_solNoSlip(m,d,m->opt.noslip_iterations)"
  | .dualFinish => "mj_dualFinish(m,d)"
  | .dualFinishStatic => "dualFinish(m,d)"
  | .updateImpl => "mj_constraintUpdate_impl(d->ne,d->nf,d->nefc,d->efc_D,d->efc_R,d->efc_frictionloss,jar,d->efc_type,d->efc_id,d->contact,d->efc_state,d->efc_force,cost,flg_coneHessian)"
  | .constraintUpdateW => "mj_constraintUpdate(m,d,jar,&cost_warmstart,0)"
  | .constraintUpdateS => "mj_constraintUpdate(m,d,d->efc_b,&cost_smooth,0)"
  | .other t => t

abbrev Prog := List (List G × Prim)

/-- `mj_fwdConstraint`, statement by statement -/
def mjFwdConstraint : Prog := [
  ([], .tmStart),
  ([], .declSizes),
  ([], .zero .qfrc_constraint .nv),
  ([.ifNoRows], .copy .qacc .qacc_smooth .nv),
  ([.ifNoRows], .zeroInt .solver_niter .mjNISLAND),
  ([.ifNoRows], .tmEnd),
  ([.ifNoRows], .ret),
  ([], .mulJacVec .efc_b .qacc_smooth),
  ([], .subFrom .efc_b .efc_aref .nefc),
  ([.ifBadSolver], .errSolver),
  ([], .warmstart),
  ([], .zeroInt .solver_niter .mjNISLAND),
  ([], .declIslands),
  ([.ifIslands, .caseSolver [.pgs]], .dispatchIslands),
  ([.ifIslands, .caseSolver [.cg, .newton]], .setNidof),
  ([.ifIslands, .caseSolver [.cg, .newton]], .gather .ifrc_smooth .qfrc_smooth .idof2dof .nidof),
  ([.ifIslands, .caseSolver [.cg, .newton]], .gather .ifrc_constraint .qfrc_constraint .idof2dof .nidof),
  ([.ifIslands, .caseSolver [.cg, .newton]], .gather .iacc_smooth .qacc_smooth .idof2dof .nidof),
  ([.ifIslands, .caseSolver [.cg, .newton]], .gather .iacc .qacc .idof2dof .nidof),
  ([.ifIslands, .caseSolver [.cg, .newton]], .gather .iefc_force .efc_force .iefc2efc .nefc),
  ([.ifIslands, .caseSolver [.cg, .newton]], .gather .iefc_aref .efc_aref .iefc2efc .nefc),
  ([.ifIslands, .caseSolver [.cg, .newton]], .dispatchIslands),
  ([.ifIslands, .caseSolver [.cg, .newton]], .scatter .qacc .iacc .idof2dof .nidof),
  ([.ifIslands, .caseSolver [.cg, .newton]], .scatter .qfrc_constraint .ifrc_constraint .idof2dof .nidof),
  ([.ifIslands, .caseSolver [.cg, .newton]], .gather .efc_force .iefc_force .efc2iefc .nefc),
  ([.ifIslands, .ifNoslip, .forIslands], .noslipIsland),
  ([.elseIslands, .caseSolver [.pgs]], .solPGS),
  ([.elseIslands, .caseSolver [.cg]], .solCG),
  ([.elseIslands, .caseSolver [.newton]], .solNewton),
  ([.elseIslands, .ifNoslip], .noslipMono),
  ([.ifDual], .dualFinish),
  ([], .tmEnd)]

/-- static `dualFinish` of engine_solver.c -/
def dualFinishBody : Prog := [
  ([], .mulJacTVec .qfrc_constraint .efc_force),
  ([], .solveM .qacc .qfrc_constraint),
  ([], .addTo .qacc .qacc_smooth .mnv)]

/-- exported wrapper `mj_dualFinish` -/
def mjDualFinishBody : Prog := [([], .dualFinishStatic)]

/-- `mj_constraintUpdate` (the last step of every primal-solver iteration and of the warm start) -/
def mjConstraintUpdate : Prog := [
  ([], .updateImpl),
  ([], .mulJacTVec .qfrc_constraint .efc_force)]

/-- static `warmstart` of engine_forward.c -/
def warmstartBody : Prog := [
  ([], .other "int nv=m->nv,nefc=d->nefc"),
  ([.ifWarm], .other "mj_markStack(d)"),
  ([.ifWarm], .other "mjtNum*jar=mjSTACKALLOC(d,nefc,mjtNum)"),
  ([.ifWarm], .other "mju_copy(d->qacc,d->qacc_warmstart,nv)"),
  ([.ifWarm], .other "mj_mulJacVec(m,d,jar,d->qacc_warmstart)"),
  ([.ifWarm], .other "mju_subFrom(jar,d->efc_aref,nefc)"),
  ([.ifWarm], .other "mjtNum cost_warmstart"),
  ([.ifWarm], .constraintUpdateW),
  ([.ifWarm, .ifPGS], .other "mjtNum PGS_warmstart=mju_dot(d->efc_force,d->efc_b,nefc)"),
  ([.ifWarm, .ifPGS], .other "mjtNum*ARf=mjSTACKALLOC(d,nefc,mjtNum)"),
  ([.ifWarm, .ifPGS, .ifOpaque "mj_isSparse(m)"],
    .other "mju_mulMatVecSparse(ARf,d->efc_AR,d->efc_force,nefc,d->efc_AR_rownnz,d->efc_AR_rowadr,d->efc_AR_colind,NULL)"),
  ([.ifWarm, .ifPGS, .elseOpaque "mj_isSparse(m)"], .other "mju_mulMatVec(ARf,d->efc_AR,d->efc_force,nefc,nefc)"),
  ([.ifWarm, .ifPGS], .other "PGS_warmstart+=0.5*mju_dot(d->efc_force,ARf,nefc)"),
  ([.ifWarm, .ifPGS, .ifZeroBetter], .zero .efc_force .nefc),
  ([.ifWarm, .ifPGS, .ifZeroBetter], .zero .qfrc_constraint .nv),
  ([.ifWarm, .elsePGS], .other "mjtNum*Ma=mjSTACKALLOC(d,nv,mjtNum)"),
  ([.ifWarm, .elsePGS], .other "mj_mulM(m,d,Ma,d->qacc_warmstart)"),
  ([.ifWarm, .elsePGS, .forOpaque "int i=0;i<nv;i++"],
    .other "cost_warmstart+=0.5*(Ma[i]-d->qfrc_smooth[i])*(d->qacc_warmstart[i]-d->qacc_smooth[i])"),
  ([.ifWarm, .elsePGS], .other "mjtNum cost_smooth"),
  ([.ifWarm, .elsePGS], .constraintUpdateS),
  ([.ifWarm, .elsePGS, .ifOpaque "cost_warmstart>cost_smooth"], .other "mju_copy(d->qacc,d->qacc_smooth,nv)"),
  ([.ifWarm, .ifOpaque "d->nisland>0", .forOpaque "int i=d->nidof;i<nv;i++"], .other "int dof=d->map_idof2dof[i]"),
  ([.ifWarm, .ifOpaque "d->nisland>0", .forOpaque "int i=d->nidof;i<nv;i++"], .other "d->qacc[dof]=d->qacc_smooth[dof]"),
  ([.ifWarm], .other "mj_freeStack(d)"),
  ([.elseWarm], .other "mju_copy(d->qacc,d->qacc_smooth,nv)"),
  ([.elseWarm], .zero .efc_force .nefc)]

/-- the texts of the `Prim.other` statements of a program (checks/c11.py verifies that none of them
    names a tracked array in a written position or hands `d` to a function outside its allow-list) -/
def others (p : Prog) : List String :=
  p.filterMap fun gp => match gp.2 with | .other t => some t | _ => none

def line (gp : List G × Prim) : String :=
  "|".intercalate (gp.1.map G.text) ++ " :: " ++ gp.2.text

def skeleton (p : Prog) : List String := p.map line

/-! ### semantics on the tracked arrays -/

/-- `res[i] = vec[ind[i]]` -/
def gatherL {α : Type} (src : List α) : List Nat → Option (List α)
  | [] => some []
  | k :: ks => match src[k]?, gatherL src ks with
    | some v, some vs => some (v :: vs)
    | _, _ => none

/-- `res[ind[i]] = vec[i]` -/
def scatterL {α : Type} : List α → List Nat → List α → Option (List α)
  | dst, [], [] => some dst
  | dst, k :: ks, v :: vs => if k < dst.length then scatterL (dst.set k v) ks vs else none
  | _, _, _ => none

/-- Everything that is computed outside the modelled statements.  `φ` is the content of `efc_force`
    (any representation), `α` the scalar type. -/
structure Leaves (φ α : Type) where
  z : α                          -- 0.0
  nv : Nat
  map : List Nat                 -- map_idof2dof[0 .. nidof)
  jtf : φ → List α               -- J' f for the constraint Jacobian of this call (mj_mulJacTVec)
  updW : φ                       -- efc_force written by mj_constraintUpdate for jar(qacc_warmstart)
  updS : φ                       -- efc_force written by mj_constraintUpdate for jar(qacc_smooth) = efc_b
  zeroF : φ                      -- efc_force after mju_zero(d->efc_force, nefc)
  mono : Solver → φ → φ          -- mj_solPGS / mj_solCG / mj_solNewton
  isl : Solver → φ → φ           -- all islands' solvers (mju_dispatch of solveIslandTask)
  noslip : φ → φ                 -- mj_solNoSlip / the loop of mj_solNoSlip_island
  upd : φ                        -- efc_force written by mj_constraintUpdate_impl

/-- content of the tracked arrays -/
structure St (φ α : Type) where
  qfrc : List α       -- qfrc_constraint
  ifrc : List α       -- ifrc_constraint
  force : φ           -- efc_force
  iforce : φ          -- iefc_force (island order; the permutation is abstract)

variable {φ α : Type}

/-- `efc_force` after `warmstart(m, d)` -/
def warmF (L : Leaves φ α) (e : Env) : φ :=
  if e.warm then
    if e.solver == .pgs then (if e.zeroBetter then L.zeroF else L.updW) else L.updS
  else L.zeroF

/-- `qfrc_constraint` after `warmstart(m, d)` when it held `q` before: the cold start does not write it -/
def warmQ (L : Leaves φ α) (e : Env) (q : List α) : List α :=
  if e.warm then
    if e.solver == .pgs then (if e.zeroBetter then List.replicate L.nv L.z else L.jtf L.updW) else L.jtf L.updS
  else q

/-- Effect of one statement on the tracked arrays; `none` = no result (error raised, index out of
    range, or a write to a tracked array that the model does not know). -/
def Prim.eff (L : Leaves φ α) (e : Env) (p : Prim) (s : St φ α) : Option (St φ α) :=
  match p with
  | .tmStart | .tmEnd | .declSizes | .declIslands | .setNidof | .ret => some s
  | .errSolver => none
  | .zero .qfrc_constraint .nv => some { s with qfrc := List.replicate L.nv L.z }
  | .zero .efc_force .nefc => some { s with force := L.zeroF }
  | .other _ => some s
  | .constraintUpdateW => some { s with force := L.updW, qfrc := L.jtf L.updW }
  | .constraintUpdateS => some { s with force := L.updS, qfrc := L.jtf L.updS }
  | .zero a _ | .zeroInt a _ | .copy a _ _ | .subFrom a _ _ | .addTo a _ _ | .mulJacVec a _ | .solveM a _ =>
      if a.tracked then none else some s
  | .gather .ifrc_constraint .qfrc_constraint .idof2dof .nidof =>
      (gatherL s.qfrc L.map).map fun v => { s with ifrc := v }
  | .gather .iefc_force .efc_force .iefc2efc .nefc => some { s with iforce := s.force }
  | .gather .efc_force .iefc_force .efc2iefc .nefc => some { s with force := s.iforce }
  | .gather a _ _ _ => if a.tracked then none else some s
  | .scatter .qfrc_constraint .ifrc_constraint .idof2dof .nidof =>
      (scatterL s.qfrc L.map s.ifrc).map fun v => { s with qfrc := v }
  | .scatter a _ _ _ => if a.tracked then none else some s
  | .mulJacTVec .qfrc_constraint .efc_force => some { s with qfrc := L.jtf s.force }
  | .mulJacTVec _ _ => none
  -- summary of `warmstartBody` (theorem `warmstart_refines`)
  | .warmstart => some { s with force := warmF L e, qfrc := warmQ L e s.qfrc }
  | .dispatchIslands =>
      match e.solver with
      | .pgs => some { s with force := L.isl .pgs s.force }         -- PGS islands work on efc_force itself
      | sol =>                                                       -- primal islands: iefc_force, ifrc_constraint
        let f := L.isl sol s.iforce
        (gatherL (L.jtf f) L.map).map fun v => { s with iforce := f, ifrc := v }
  | .noslipIsland | .noslipMono => some { s with force := L.noslip s.force }
  | .solPGS => some { s with force := L.mono .pgs s.force }
  | .solCG => let f := L.mono .cg s.force; some { s with force := f, qfrc := L.jtf f }
  | .solNewton => let f := L.mono .newton s.force; some { s with force := f, qfrc := L.jtf f }
  | .dualFinish | .dualFinishStatic => some { s with qfrc := L.jtf s.force }
  | .updateImpl => some { s with force := L.upd }

/-- one guarded statement; the Boolean is "the function has returned" -/
def step (L : Leaves φ α) (e : Env) (sr : St φ α × Bool) (gp : List G × Prim) : Option (St φ α × Bool) :=
  if sr.2 then some sr
  else if gp.1.all (G.holds e) then
    match gp.2 with
    | .ret => some (sr.1, true)
    | p => (p.eff L e sr.1).map fun s => (s, false)
  else some sr

def run (L : Leaves φ α) (e : Env) : Prog → St φ α × Bool → Option (St φ α × Bool)
  | [], sr => some sr
  | gp :: rest, sr => match step L e sr gp with
    | some sr' => run L e rest sr'
    | none => none

/-- a call of the function on the mjData content `s` -/
def exec (L : Leaves φ α) (e : Env) (p : Prog) (s : St φ α) : Option (St φ α) :=
  (run L e p (s, false)).map (·.1)

end MjProof.FwdConstraint
