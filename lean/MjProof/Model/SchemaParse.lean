import MjProof.Model.SchemaLex
/-
Model of the dataclasses and of the recursive-descent parser `_Parser` of `doc/generate/mjcf_schema.py`.
Core Lean only.

The token array is fixed; a parser function takes the position `p` (`self.pos`) and returns its result
together with the new position, typed so that the distance to the end of the array has strictly
decreased (`Adv`).  All loops (`while not self.accept('}')`, ...) are well-founded recursions on that
distance: totality of the parser is Lean's termination check, no fuel.

The `eof` token is not stored in the array: reading at `p ≥ toks.size` *is* reading `eof` (Python's last
token); Python never advances past it without raising, and neither does the model (`nextTok = none`).
-/
namespace MjProof.Schema

/-! ## dataclasses -/

inductive Ty where
  | double | float | int | bool | string | file | chars   -- SCALAR_TYPES
  | enum | flags | ref | id
  deriving DecidableEq, Repr

inductive Hi where
  | num (n : Nat)        -- int
  | sym (s : String)     -- symbolic C constant
  | none                 -- unbounded
  deriving DecidableEq, Repr

structure Arity where
  lo : Nat
  hi : Hi
  deriving DecidableEq, Repr

def Arity.isScalar (a : Arity) : Bool := a.lo = 1 ∧ a.hi = .num 1

inductive FacetVal where
  | flag                 -- True
  | str (s : String)
  | num (d : Dbl)
  deriving DecidableEq, Repr

inductive Default where
  | num (d : Dbl)
  | str (s : String)
  | vec (ds : List Dbl)
  deriving DecidableEq, Repr

abbrev Facets := List (String × FacetVal)

structure Attr (N : Nat) where
  name : String
  type : Ty
  target : Option String
  arity : Arity
  default : Option Default
  facets : Facets
  doc : Option String
  line : Line N

structure Use (N : Nat) where
  group : String
  line : Line N

inductive Card where | opt | one | star | rep   -- ? ! * R
  deriving DecidableEq, Repr

structure Child (N : Nat) where
  name : String
  card : Card
  doc : Option String
  line : Line N

structure Const (N : Nat) where
  field : String
  value : String
  doc : Option String
  line : Line N

inductive Verb where | exclusive | together | requires | oneof
  deriving DecidableEq, Repr

structure Constraint (N : Nat) where
  kind : Verb
  bundles : List (List String)
  doc : Option String
  line : Line N

inductive Member (N : Nat) where
  | attr (a : Attr N)
  | use (u : Use N)
  | child (c : Child N)
  | const (c : Const N)
  | con (c : Constraint N)

structure Group (N : Nat) where
  name : String
  variant : Bool
  members : List (Member N)
  doc : Option String
  line : Line N

structure Element (N : Nat) where
  name : String
  spec : Option String
  facets : Facets
  members : List (Member N)
  doc : Option String
  line : Line N

structure Enum (N : Nat) where
  name : String
  ctype : Option String
  items : List (String × String)
  doc : Option String
  line : Line N

/-- The three tables are Python dicts in insertion order; the parser rejects duplicate names, so a list
    in declaration order carries the same information. -/
structure Schema (N : Nat) where
  enums : List (Enum N)
  groups : List (Group N)
  elements : List (Element N)

/-! ## parser context and token access -/

structure PCtx (N : Nat) where
  toks : Array (Token N)
  comments : List (Line N × String)
  eofLine : Line N

variable {N : Nat}

/-- New position after consuming at least one token. -/
abbrev Adv (c : PCtx N) (p : Nat) := { q : Nat // c.toks.size - q < c.toks.size - p }

/-- New position after consuming zero or more tokens. -/
abbrev AdvLe (c : PCtx N) (p : Nat) := { q : Nat // c.toks.size - q ≤ c.toks.size - p }

/-- `self.next()` when the current token is not `eof`. -/
def nextTok (c : PCtx N) (p : Nat) : Option (Token N × Adv c p) :=
  if h : p < c.toks.size then some (c.toks[p], ⟨p + 1, by omega⟩) else none

/-- `self.expect(kind)` -/
def expect (c : PCtx N) (k : Kind) (p : Nat) : Except (Err N) (Token N × Adv c p) :=
  match nextTok c p with
  | none => .error (c.eofLine, .expected k)
  | some (t, q) => if t.kind = k then .ok (t, q) else .error (t.line, .expected k)

/-- `self.accept(kind)` -/
def accept (c : PCtx N) (k : Kind) (p : Nat) : Option (Adv c p) :=
  match nextTok c p with
  | some (t, q) => if t.kind = k then some q else none
  | none => none

/-- `self.doc_for(line)` -/
def docFor (c : PCtx N) (l : Line N) : Option String :=
  (c.comments.find? (fun e => e.1.val = l.val)).map (·.2)

/-- `token.value.strip('"')` of a STRING token (`"[^"\n]*"`): all leading and trailing quotes go. -/
def stripQuotes (s : String) : String :=
  String.ofList (((s.toList.dropWhile (· = '"')).reverse.dropWhile (· = '"')).reverse)

def KNOWN_FACETS : List String :=
  ["field", "required", "nodefault", "pattern", "reading", "writing", "min", "max", "positive"]
def ELEMENT_FACETS : List String := ["xml", "alias", "field"]

def scalarType? : String → Option Ty
  | "double" => some .double | "float" => some .float | "int" => some .int | "bool" => some .bool
  | "string" => some .string | "file" => some .file | "chars" => some .chars
  | _ => none

def targetType? : String → Option Ty
  | "enum" => some .enum | "flags" => some .flags | "ref" => some .ref | "id" => some .id
  | _ => none

def verb? : String → Option Verb
  | "exclusive" => some .exclusive | "together" => some .together
  | "requires" => some .requires | "oneof" => some .oneof
  | _ => none

/-! ## attribute pieces -/

/-- `parse_int` -/
def parseInt (t : Token N) : Except (Err N) Nat :=
  match pyInt? t.value.toList with
  | none => .error (t.line, .notInt)
  | some v => if v < 0 then .error (t.line, .negArity) else .ok v.toNat

/-- `parse_arity` after the `[` has been accepted. -/
def parseArityBody (c : PCtx N) (p : Nat) : Except (Err N) (Arity × Adv c p) :=
  match accept c (.punct ']') p with
  | some q => .ok (⟨0, .none⟩, q)
  | none =>
    match expect c .number p with
    | .error e => .error e
    | .ok (loTok, q1) =>
      match parseInt loTok with
      | .error e => .error e
      | .ok lo =>
        match accept c .dotdot q1.1 with
        | none =>
          match expect c (.punct ']') q1.1 with
          | .error e => .error e
          | .ok (_, q2) => .ok (⟨lo, .num lo⟩, ⟨q2.1, by have := q1.2; have := q2.2; omega⟩)
        | some q2 =>
          match nextTok c q2.1 with
          | none => .error (c.eofLine, .arityBound)
          | some (hiTok, q3) =>
            if hiTok.kind = .number then
              match parseInt hiTok with
              | .error e => .error e
              | .ok hi =>
                if hi ≤ lo then .error (hiTok.line, .arityRange) else
                match expect c (.punct ']') q3.1 with
                | .error e => .error e
                | .ok (_, q4) =>
                  .ok (⟨lo, .num hi⟩, ⟨q4.1, by have := q1.2; have := q2.2; have := q3.2; have := q4.2; omega⟩)
            else if hiTok.kind = .ident then
              match expect c (.punct ']') q3.1 with
              | .error e => .error e
              | .ok (_, q4) =>
                .ok (⟨lo, .sym hiTok.value⟩, ⟨q4.1, by have := q1.2; have := q2.2; have := q3.2; have := q4.2; omega⟩)
            else .error (hiTok.line, .arityBound)

/-- `parse_type` (including `parse_arity`). -/
def parseType (c : PCtx N) (p : Nat) : Except (Err N) ((Ty × Option String × Arity) × Adv c p) :=
  match expect c .ident p with
  | .error e => .error e
  | .ok (t, q1) =>
    match targetType? t.value with
    | some ty =>
      match expect c (.punct '<') q1.1 with
      | .error e => .error e
      | .ok (_, q2) =>
        match expect c .ident q2.1 with
        | .error e => .error e
        | .ok (tg, q3) =>
          match expect c (.punct '>') q3.1 with
          | .error e => .error e
          | .ok (_, q4) =>
            .ok ((ty, some tg.value, ⟨1, .num 1⟩),
                 ⟨q4.1, by have := q1.2; have := q2.2; have := q3.2; have := q4.2; omega⟩)
    | none =>
      match scalarType? t.value with
      | none => .error (t.line, .unknownType)
      | some ty =>
        match accept c (.punct '[') q1.1 with
        | none => .ok ((ty, none, ⟨1, .num 1⟩), q1)
        | some q2 =>
          match parseArityBody c q2.1 with
          | .error e => .error e
          | .ok (ar, q3) => .ok ((ty, none, ar), ⟨q3.1, by have := q1.2; have := q2.2; have := q3.2; omega⟩)

/-- The `while self.accept(',')` loop of a `{...}` vector default (first number already read);
    `acc` is reversed. -/
def parseVecLoop (c : PCtx N) (p : Nat) (acc : List Dbl) : Except (Err N) (List Dbl × Adv c p) :=
  match accept c (.punct ',') p with
  | some q1 =>
    match expect c .number q1.1 with
    | .error e => .error e
    | .ok (t, q2) =>
      match parseVecLoop c q2.1 (pyFloat t.value.toList :: acc) with
      | .error e => .error e
      | .ok (r, q3) => .ok (r, ⟨q3.1, by have := q1.2; have := q2.2; have := q3.2; omega⟩)
  | none =>
    match expect c (.punct '}') p with
    | .error e => .error e
    | .ok (_, q) => .ok (acc.reverse, q)
termination_by c.toks.size - p
decreasing_by have := q1.2; have := q2.2; omega

/-- `parse_default` -/
def parseDefault (c : PCtx N) (p : Nat) : Except (Err N) (Default × Adv c p) :=
  match nextTok c p with
  | none => .error (c.eofLine, .badDefault)
  | some (t, q) =>
    if t.kind = .number then .ok (.num (pyFloat t.value.toList), q)
    else if t.kind = .string then .ok (.str (stripQuotes t.value), q)
    else if t.kind = .ident then .ok (.str t.value, q)
    else if t.kind = .punct '{' then
      match expect c .number q.1 with
      | .error e => .error e
      | .ok (t1, q1) =>
        match parseVecLoop c q1.1 [pyFloat t1.value.toList] with
        | .error e => .error e
        | .ok (ds, q2) => .ok (.vec ds, ⟨q2.1, by have := q.2; have := q1.2; have := q2.2; omega⟩)
    else .error (t.line, .badDefault)

/-- The `= value` part of a facet: `True` when absent. -/
def parseFacetValue (c : PCtx N) (p : Nat) : Except (Err N) (FacetVal × AdvLe c p) :=
  match accept c (.punct '=') p with
  | none => .ok (.flag, ⟨p, Nat.le_refl _⟩)
  | some q2 =>
    match nextTok c q2.1 with
    | none => .error (c.eofLine, .facetValue)
    | some (vt, q3) =>
      have h3 : c.toks.size - q3.1 ≤ c.toks.size - p := by have := q2.2; have := q3.2; omega
      if vt.kind = .string then .ok (.str (stripQuotes vt.value), ⟨q3.1, h3⟩)
      else if vt.kind = .ident then .ok (.str vt.value, ⟨q3.1, h3⟩)
      else if vt.kind = .number then .ok (.num (pyFloat vt.value.toList), ⟨q3.1, h3⟩)
      else .error (vt.line, .facetValue)

/-- `parse_facets` after the `(` has been accepted; `acc` holds the facets read so far, in order. -/
def parseFacets (c : PCtx N) (known : List String) (p : Nat) (acc : Facets) :
    Except (Err N) (Facets × Adv c p) :=
  match expect c .ident p with
  | .error e => .error e
  | .ok (t, q1) =>
    if t.value ∉ known then .error (t.line, .unknownFacet)
    else if t.value ∈ acc.map (·.1) then .error (t.line, .dupFacet)
    else
      match parseFacetValue c q1.1 with
      | .error e => .error e
      | .ok (v, q2) =>
        match accept c (.punct ')') q2.1 with
        | some q3 => .ok (acc ++ [(t.value, v)], ⟨q3.1, by have := q1.2; have := q2.2; have := q3.2; omega⟩)
        | none =>
          match expect c (.punct ',') q2.1 with
          | .error e => .error e
          | .ok (_, q3) =>
            match parseFacets c known q3.1 (acc ++ [(t.value, v)]) with
            | .error e => .error e
            | .ok (r, q4) => .ok (r, ⟨q4.1, by have := q1.2; have := q2.2; have := q3.2; have := q4.2; omega⟩)
termination_by c.toks.size - p
decreasing_by have := q1.2; have := q2.2; have := q3.2; omega

/-- `self.parse_facets(known) if self.accept('(') else {}` -/
def parseOptFacets (c : PCtx N) (known : List String) (p : Nat) : Except (Err N) (Facets × AdvLe c p) :=
  match accept c (.punct '(') p with
  | none => .ok ([], ⟨p, Nat.le_refl _⟩)
  | some q1 =>
    match parseFacets c known q1.1 [] with
    | .error e => .error e
    | .ok (fs, q2) => .ok (fs, ⟨q2.1, by have := q1.2; have := q2.2; omega⟩)

/-- `self.parse_default() if self.accept('=') else None` -/
def parseOptDefault (c : PCtx N) (p : Nat) : Except (Err N) (Option Default × AdvLe c p) :=
  match accept c (.punct '=') p with
  | none => .ok (none, ⟨p, Nat.le_refl _⟩)
  | some q1 =>
    match parseDefault c q1.1 with
    | .error e => .error e
    | .ok (d, q2) => .ok (some d, ⟨q2.1, by have := q1.2; have := q2.2; omega⟩)

/-- `parse_attr` (the name token has been read). -/
def parseAttr (c : PCtx N) (nameTok : Token N) (p : Nat) : Except (Err N) (Attr N × Adv c p) :=
  match expect c (.punct ':') p with
  | .error e => .error e
  | .ok (_, q1) =>
    match parseType c q1.1 with
    | .error e => .error e
    | .ok ((ty, tg, ar), q2) =>
      match parseOptDefault c q2.1 with
      | .error e => .error e
      | .ok (d, q3) =>
        match parseOptFacets c KNOWN_FACETS q3.1 with
        | .error e => .error e
        | .ok (fs, q4) =>
          .ok (⟨nameTok.value, ty, tg, ar, d, fs, docFor c nameTok.line, nameTok.line⟩,
               ⟨q4.1, by have := q1.2; have := q2.2; have := q3.2; have := q4.2; omega⟩)

/-! ## members -/

/-- `while self.accept('+'): bundle.append(self.expect('ident').value)`; `acc` reversed. -/
def parseBundleLoop (c : PCtx N) (p : Nat) (acc : List String) :
    Except (Err N) (List String × AdvLe c p) :=
  match accept c (.punct '+') p with
  | none => .ok (acc.reverse, ⟨p, Nat.le_refl _⟩)
  | some q1 =>
    match expect c .ident q1.1 with
    | .error e => .error e
    | .ok (t, q2) =>
      match parseBundleLoop c q2.1 (t.value :: acc) with
      | .error e => .error e
      | .ok (r, q3) => .ok (r, ⟨q3.1, by have := q1.2; have := q2.2; have := q3.2; omega⟩)
termination_by c.toks.size - p
decreasing_by have := q1.2; have := q2.2; omega

/-- `while self.peek().kind == 'ident' and self.peek().line == token.line:` — the bundles of a
    constraint (single-line construct); `acc` reversed. -/
def parseBundles (c : PCtx N) (line : Line N) (p : Nat) (acc : List (List String)) :
    Except (Err N) (List (List String) × AdvLe c p) :=
  match nextTok c p with
  | none => .ok (acc.reverse, ⟨p, Nat.le_refl _⟩)
  | some (t, q1) =>
    if t.kind = .ident ∧ t.line.val = line.val then
      match parseBundleLoop c q1.1 [t.value] with
      | .error e => .error e
      | .ok (b, q2) =>
        match parseBundles c line q2.1 (b :: acc) with
        | .error e => .error e
        | .ok (r, q3) => .ok (r, ⟨q3.1, by have := q1.2; have := q2.2; have := q3.2; omega⟩)
    else .ok (acc.reverse, ⟨p, Nat.le_refl _⟩)
termination_by c.toks.size - p
decreasing_by have := q1.2; have := q2.2; omega

/-- `self.peek().kind == 'ident'` -/
def peekIsIdent (c : PCtx N) (p : Nat) : Bool :=
  match nextTok c p with
  | some (t, _) => t.kind = .ident
  | none => false

def card? (t : Token N) : Option Card :=
  if t.kind = .punct '?' then some .opt
  else if t.kind = .punct '!' then some .one
  else if t.kind = .punct '*' then some .star
  else if t.kind = .ident ∧ t.value = "R" then some .rep
  else none

/-- `parse_member` -/
def parseMember (c : PCtx N) (allowChild : Bool) (p : Nat) : Except (Err N) (Member N × Adv c p) :=
  match expect c .ident p with
  | .error e => .error e
  | .ok (t, q0) =>
    if t.value = "use" then
      match expect c .ident q0.1 with
      | .error e => .error e
      | .ok (g, q1) => .ok (.use ⟨g.value, t.line⟩, ⟨q1.1, by have := q0.2; have := q1.2; omega⟩)
    else
      match (if peekIsIdent c q0.1 then verb? t.value else none) with
      | some verb =>
        match parseBundles c t.line q0.1 [] with
        | .error e => .error e
        | .ok (bundles, q1) =>
          if bundles.length < 2 then .error (t.line, .conTwo)
          else .ok (.con ⟨verb, bundles, docFor c t.line, t.line⟩, ⟨q1.1, by have := q0.2; have := q1.2; omega⟩)
      | none =>
        if t.value = "set" then
          if ¬ allowChild then .error (t.line, .setInGroup) else
          match expect c .ident q0.1 with
          | .error e => .error e
          | .ok (f, q1) =>
            match expect c (.punct '=') q1.1 with
            | .error e => .error e
            | .ok (_, q2) =>
              match expect c .ident q2.1 with
              | .error e => .error e
              | .ok (v, q3) =>
                .ok (.const ⟨f.value, v.value, docFor c t.line, t.line⟩,
                     ⟨q3.1, by have := q0.2; have := q1.2; have := q2.2; have := q3.2; omega⟩)
        else if t.value = "child" then
          if ¬ allowChild then .error (t.line, .childInGroup) else
          match expect c .ident q0.1 with
          | .error e => .error e
          | .ok (n, q1) =>
            match nextTok c q1.1 with
            | none => .error (c.eofLine, .card)
            | some (ct, q2) =>
              match card? ct with
              | none => .error (ct.line, .card)
              | some cd =>
                .ok (.child ⟨n.value, cd, docFor c t.line, t.line⟩,
                     ⟨q2.1, by have := q0.2; have := q1.2; have := q2.2; omega⟩)
        else
          match parseAttr c t q0.1 with
          | .error e => .error e
          | .ok (a, q1) => .ok (.attr a, ⟨q1.1, by have := q0.2; have := q1.2; omega⟩)

/-- `while not self.accept('}'): members.append(self.parse_member(...))`; `acc` reversed. -/
def parseMembers (c : PCtx N) (allowChild : Bool) (p : Nat) (acc : List (Member N)) :
    Except (Err N) (List (Member N) × Adv c p) :=
  match accept c (.punct '}') p with
  | some q => .ok (acc.reverse, q)
  | none =>
    match parseMember c allowChild p with
    | .error e => .error e
    | .ok (m, q1) =>
      match parseMembers c allowChild q1.1 (m :: acc) with
      | .error e => .error e
      | .ok (r, q2) => .ok (r, ⟨q2.1, by have := q1.2; have := q2.2; omega⟩)
termination_by c.toks.size - p
decreasing_by have := q1.2; omega

/-! ## declarations -/

/-- The item loop of `parse_enum`; `acc` reversed (its keys are the `seen` dict). -/
def parseEnumItems (c : PCtx N) (p : Nat) (acc : List (String × String)) :
    Except (Err N) (List (String × String) × Adv c p) :=
  match accept c (.punct '}') p with
  | some q => .ok (acc.reverse, q)
  | none =>
    match nextTok c p with
    | none => .error (c.eofLine, .enumKey)
    | some (kt, q1) =>
      match (if kt.kind = .string then some (stripQuotes kt.value)
             else if kt.kind = .ident then some kt.value else none) with
      | none => .error (kt.line, .enumKey)
      | some key =>
        if key ∈ acc.map (·.1) then .error (kt.line, .dupEnumKey) else
        match expect c (.punct '=') q1.1 with
        | .error e => .error e
        | .ok (_, q2) =>
          match nextTok c q2.1 with
          | none => .error (c.eofLine, .enumVal)
          | some (vt, q3) =>
            if vt.kind = .ident ∨ vt.kind = .number then
              match parseEnumItems c q3.1 ((key, vt.value) :: acc) with
              | .error e => .error e
              | .ok (r, q4) => .ok (r, ⟨q4.1, by have := q1.2; have := q2.2; have := q3.2; have := q4.2; omega⟩)
            else .error (vt.line, .enumVal)
termination_by c.toks.size - p
decreasing_by have := q1.2; have := q2.2; have := q3.2; omega

/-- `name = expect('ident'); x = expect('ident') if accept(':') else None` (enum ctype, element spec). -/
def parseNameColon (c : PCtx N) (p : Nat) : Except (Err N) ((String × Option String) × Adv c p) :=
  match expect c .ident p with
  | .error e => .error e
  | .ok (n, q1) =>
    match accept c (.punct ':') q1.1 with
    | none => .ok ((n.value, none), q1)
    | some q2 =>
      match expect c .ident q2.1 with
      | .error e => .error e
      | .ok (s, q3) => .ok ((n.value, some s.value), ⟨q3.1, by have := q1.2; have := q2.2; have := q3.2; omega⟩)

/-- `parse_enum` -/
def parseEnum (c : PCtx N) (line : Line N) (p : Nat) : Except (Err N) (Enum N × Adv c p) :=
  match parseNameColon c p with
  | .error e => .error e
  | .ok ((name, ctype), q1) =>
    match expect c (.punct '{') q1.1 with
    | .error e => .error e
    | .ok (_, q2) =>
      match parseEnumItems c q2.1 [] with
      | .error e => .error e
      | .ok (items, q3) =>
        if items = [] then .error (line, .emptyEnum)
        else .ok (⟨name, ctype, items, docFor c line, line⟩,
                  ⟨q3.1, by have := q1.2; have := q2.2; have := q3.2; omega⟩)

/-- `bool(self.accept('ident', 'variant'))` -/
def acceptVariant (c : PCtx N) (p : Nat) : Bool × AdvLe c p :=
  match nextTok c p with
  | some (t, q) =>
    if t.kind = .ident ∧ t.value = "variant" then (true, ⟨q.1, by have := q.2; omega⟩)
    else (false, ⟨p, Nat.le_refl _⟩)
  | none => (false, ⟨p, Nat.le_refl _⟩)

/-- `parse_group` -/
def parseGroup (c : PCtx N) (line : Line N) (p : Nat) : Except (Err N) (Group N × Adv c p) :=
  match expect c .ident p with
  | .error e => .error e
  | .ok (n, q1) =>
    match acceptVariant c q1.1 with
    | (variant, q1') =>
      match expect c (.punct '{') q1'.1 with
      | .error e => .error e
      | .ok (_, q2) =>
        match parseMembers c false q2.1 [] with
        | .error e => .error e
        | .ok (ms, q3) =>
          if ms = [] then .error (line, .emptyGroup)
          else .ok (⟨n.value, variant, ms, docFor c line, line⟩,
                    ⟨q3.1, by have := q1.2; have := q1'.2; have := q2.2; have := q3.2; omega⟩)

/-- `parse_element` -/
def parseElement (c : PCtx N) (line : Line N) (p : Nat) : Except (Err N) (Element N × Adv c p) :=
  match parseNameColon c p with
  | .error e => .error e
  | .ok ((name, spec), q1) =>
    match parseOptFacets c ELEMENT_FACETS q1.1 with
    | .error e => .error e
    | .ok (fs, q2) =>
      match expect c (.punct '{') q2.1 with
      | .error e => .error e
      | .ok (_, q3) =>
        match parseMembers c true q3.1 [] with
        | .error e => .error e
        | .ok (ms, q4) =>
          .ok (⟨name, spec, fs, ms, docFor c line, line⟩,
               ⟨q4.1, by have := q1.2; have := q2.2; have := q3.2; have := q4.2; omega⟩)

/-- The `while self.peek().kind != 'eof'` loop of `parse`; the accumulators are reversed. -/
def parseDecls (c : PCtx N) (p : Nat) (es : List (Enum N)) (gs : List (Group N)) (ls : List (Element N)) :
    Except (Err N) (Schema N) :=
  match nextTok c p with
  | none => .ok ⟨es.reverse, gs.reverse, ls.reverse⟩
  | some (t, q0) =>
    if t.kind ≠ .ident then .error (t.line, .expected .ident)
    else if t.value = "enum" then
      match parseEnum c t.line q0.1 with
      | .error e => .error e
      | .ok (e, q1) =>
        if e.name ∈ es.map (·.name) then .error (t.line, .dupEnum)
        else parseDecls c q1.1 (e :: es) gs ls
    else if t.value = "group" then
      match parseGroup c t.line q0.1 with
      | .error e => .error e
      | .ok (g, q1) =>
        if g.name ∈ gs.map (·.name) then .error (t.line, .dupGroup)
        else parseDecls c q1.1 es (g :: gs) ls
    else if t.value = "element" then
      match parseElement c t.line q0.1 with
      | .error e => .error e
      | .ok (l, q1) =>
        if l.name ∈ ls.map (·.name) then .error (t.line, .dupElement)
        else parseDecls c q1.1 es gs (l :: ls)
    else .error (t.line, .badDecl)
termination_by c.toks.size - p
decreasing_by all_goals (have := q0.2; have := q1.2; omega)

/-- `_Parser(text, path).parse()` -/
def parseText (text : List Char) : Except (Err (nlines text)) (Schema (nlines text)) :=
  match lex text with
  | .error e => .error e
  | .ok lo => parseDecls ⟨lo.toks, lo.comments, lo.eofLine⟩ 0 [] [] []

end MjProof.Schema
