/-
Executable model of the asset cache `mjCCache` (src/user/user_cache.{h,cc}).  Core Lean only.

State of the real class                       model
  capacity_, size_, insert_num_ (size_t)      `capacity size insertNum : Nat`
  lookup_  : unordered_map<string, mjCAsset>  `assets : List Asset` (association list by `id`)
  entries_ : set<mjCAsset*, (access,insert)>  not stored: it holds exactly the pointers to the values
                                              of `lookup_`, ordered by `(access, insertNum)`; the
                                              model takes the minimum over `assets` (`minAsset`)
  models_  : unordered_map<string,            `models : List (Nat × List Nat)` (model name ↦ asset
             unordered_set<mjCAsset*>>         ids; a pointer into `lookup_` is represented by the id)
  mjCAsset::references_ : set<string>         `Asset.refs : List Nat`

Strings (model names, asset ids, timestamps) are opaque keys compared only for equality by the
cache; the model uses `Nat` keys, the harness maps key `k` to the decimal string of `k` (injective).
The asset payload (`shared_ptr<const void>`) is a `Nat` tag.

`size_t` arithmetic on byte counts wraps modulo 2^64 (`wadd`, `wsub`, exact for operands < 2^64):
the byte count of one `Insert` is caller-supplied, so wrap-around is reachable in one call and is
modelled.  The two
counters `insert_num_` / `access_count_` are only ever incremented by one; they are modelled as
unbounded naturals (2^64 increments are out of reach).

Undefined behaviour of the real code is made explicit by the sticky flag `ub`:
  * `Trim` dereferencing `entries_.begin()` of an empty set,
  * a model's reference set naming an asset that is no longer in `lookup_` (dangling pointer).
The invariant theorem shows the flag is never raised.
-/
namespace MjProof.Cache

/-- 2^64: `std::size_t` of the build. -/
def W : Nat := 18446744073709551616

/-- `size_t` addition of two `size_t` values (`a, b < 2^64`; the driver rejects larger literals and every
    stored byte count is an operand or a result of these two functions).  Written with `if` instead of
    `%` so that no definitional unfolding ever has to evaluate a modulus by 2^64. -/
def wadd (a b : Nat) : Nat := if a + b < W then a + b else a + b - W
/-- `size_t` subtraction of two `size_t` values. -/
def wsub (a b : Nat) : Nat := if b ≤ a then a - b else a + W - b

structure Asset where
  id : Nat
  ts : Nat          -- timestamp_ (opaque)
  insertNum : Nat   -- insert_num_
  access : Nat      -- access_count_
  size : Nat        -- size_
  data : Nat        -- data_ (payload tag)
  refs : List Nat   -- references_
deriving Repr, DecidableEq

structure Cache where
  capacity : Nat
  size : Nat
  insertNum : Nat
  assets : List Asset
  models : List (Nat × List Nat)
  ub : Bool
deriving Repr, DecidableEq

/-- `mjCCache(std::size_t size)`. -/
def empty (cap : Nat) : Cache :=
  { capacity := cap, size := 0, insertNum := 0, assets := [], models := [], ub := false }

/-! ### `lookup_` -/

/-- `lookup_.find(id)`. -/
def find (as : List Asset) (id : Nat) : Option Asset := as.find? (fun a => a.id == id)

/-- update the value stored under `id` in place. -/
def amap (as : List Asset) (id : Nat) (f : Asset → Asset) : List Asset :=
  as.map (fun a => if a.id = id then f a else a)

/-- `lookup_.erase(id)` (and `entries_.erase(asset)`). -/
def aerase (as : List Asset) (id : Nat) : List Asset := as.filter (fun a => a.id != id)

/-! ### `models_` and `references_` -/

/-- `std::set::insert`. -/
def setInsert (x : Nat) (l : List Nat) : List Nat := if x ∈ l then l else l ++ [x]
/-- `std::set::erase`. -/
def setErase (x : Nat) (l : List Nat) : List Nat := l.filter (fun y => y != x)

def hasKey (ms : List (Nat × List Nat)) (m : Nat) : Bool := ms.any (fun p => p.1 == m)

/-- the set stored under `m` (empty if there is none). -/
def msGet (ms : List (Nat × List Nat)) (m : Nat) : List Nat :=
  match ms.find? (fun p => p.1 == m) with
  | some p => p.2
  | none => []

/-- `models_[m].insert(asset)` (`operator[]` creates the key). -/
def msInsert (ms : List (Nat × List Nat)) (m id : Nat) : List (Nat × List Nat) :=
  if hasKey ms m then ms.map (fun p => if p.1 = m then (p.1, setInsert id p.2) else p)
  else ms ++ [(m, [id])]

/-- `models_[m].erase(asset)` (`operator[]` creates the key). -/
def msErase (ms : List (Nat × List Nat)) (m id : Nat) : List (Nat × List Nat) :=
  if hasKey ms m then ms.map (fun p => if p.1 = m then (p.1, setErase id p.2) else p)
  else ms ++ [(m, [])]

/-- `models_.erase(m)`. -/
def msDrop (ms : List (Nat × List Nat)) (m : Nat) : List (Nat × List Nat) :=
  ms.filter (fun p => p.1 != m)

/-! ### `entries_` order -/

/-- `mjCAssetCompare`: strict order on `(access_count_, insert_num_)`. -/
def keyLt (a b : Asset) : Bool :=
  if a.access ≠ b.access then a.access < b.access else a.insertNum < b.insertNum

/-- `*entries_.begin()`: the asset with the least key (the first one among equal keys). -/
def minAsset : List Asset → Option Asset
  | [] => none
  | a :: rest =>
    match minAsset rest with
    | none => some a
    | some b => if keyLt b a then some b else some a

/-! ### private methods -/

/-- `Delete(asset)` (`skip = none`) and `Delete(asset, skip)`. -/
def deleteCore (c : Cache) (a : Asset) (skip : Option Nat) : Cache :=
  { c with
    size := wsub c.size a.size
    assets := aerase c.assets a.id
    models := a.refs.foldl (fun ms r => if some r = skip then ms else msErase ms r a.id) c.models }

/-- `Trim()`: `while (size_ > capacity_) Delete(*entries_.begin())`, with `fuel` iterations. -/
def trimN : Nat → Cache → Cache
  | 0, c => if c.size > c.capacity then { c with ub := true } else c
  | fuel + 1, c =>
    if c.size > c.capacity then
      match minAsset c.assets with
      | none => { c with ub := true }
      | some a => trimN fuel (deleteCore c a none)
    else c

/-- every iteration removes at least one element of `assets`, so `assets.length` iterations suffice:
    `trimN_inv` (lemma file) shows that from a well-formed state the loop ends with `size ≤ capacity`
    before the fuel is used up (the `ub` flag stays clear). -/
def trim (c : Cache) : Cache := trimN c.assets.length c

/-! ### public methods -/

/-- `Insert(modelname, id, resource{timestamp = ts}, data, size)`. -/
def insert (c : Cache) (m id ts data sz : Nat) : Cache × Bool :=
  match find c.assets id with
  | none =>
    if wadd c.size sz > c.capacity then (c, false)
    else
      let a : Asset := { id := id, ts := ts, insertNum := c.insertNum, access := 0, size := sz,
                         data := data, refs := [m] }
      ({ c with assets := c.assets ++ [a], insertNum := c.insertNum + 1,
                models := msInsert c.models m id, size := wadd c.size sz }, true)
  | some a =>
    if wadd (wsub c.size a.size) sz > c.capacity then (c, false)
    else
      let ms := msInsert c.models m id
      if a.ts = ts then
        ({ c with models := ms,
                  assets := amap c.assets id (fun x => { x with refs := setInsert m x.refs }) }, true)
      else
        ({ c with models := ms, size := wadd (wsub c.size a.size) sz,
                  assets := amap c.assets id
                    (fun x => { x with refs := setInsert m x.refs, ts := ts, size := sz, data := data }) },
         true)

/-- `mju_isModifiedResource(resource, timestamp)` for the two kinds of resource the harness uses:
    `none` = resource without a provider (the default: "assume modified"), `some r` = a provider
    whose `modified` callback compares the resource's timestamp `r` with the cached one. -/
def isModified (rts : Option Nat) (ts : Nat) : Bool :=
  match rts with
  | none => true
  | some r => r != ts

/-- `PopulateData(id, resource, fn)`; the callback receives the payload and returns `true`. -/
def populate (c : Cache) (id : Nat) (rts : Option Nat) : Cache × Option Nat :=
  match find c.assets id with
  | none => (c, none)
  | some a =>
    if isModified rts a.ts then (c, none)
    else ({ c with assets := amap c.assets id (fun x => { x with access := x.access + 1 }) }, some a.data)

/-- `HasAsset(id)`: the cached timestamp. -/
def hasAsset (c : Cache) (id : Nat) : Option Nat := (find c.assets id).map (·.ts)

/-- `DeleteAsset(id)`. -/
def deleteAsset (c : Cache) (id : Nat) : Cache :=
  match find c.assets id with
  | none => c
  | some a => deleteCore c a none

/-- body of the loop of `RemoveModel(m)` for one element of `models_[m]`. -/
def removeRefStep (m : Nat) (c : Cache) (id : Nat) : Cache :=
  match find c.assets id with
  | none => { c with ub := true }
  | some a =>
    let a' : Asset := { a with refs := setErase m a.refs }
    let c' := { c with assets := amap c.assets id (fun x => { x with refs := setErase m x.refs }) }
    if a'.refs.isEmpty then deleteCore c' a' (some m) else c'

/-- `RemoveModel(m)`. -/
def removeModel (c : Cache) (m : Nat) : Cache :=
  let c' := (msGet c.models m).foldl (removeRefStep m) c
  { c' with models := msDrop c'.models m }

/-- body of the loop of `Reset(m)`. -/
def resetStep (m : Nat) (c : Cache) (id : Nat) : Cache :=
  match find c.assets id with
  | none => { c with ub := true }
  | some a => deleteCore c a (some m)

/-- `Reset(m)`. -/
def resetModel (c : Cache) (m : Nat) : Cache :=
  let c' := (msGet c.models m).foldl (resetStep m) c
  { c' with models := msDrop c'.models m }

/-- `Reset()`. -/
def resetAll (c : Cache) : Cache :=
  { c with assets := [], models := [], size := 0, insertNum := 0 }

/-- `SetCapacity(n)`. -/
def setCapacity (c : Cache) (n : Nat) : Cache := trim { c with capacity := n }

/-! ### operation histories -/

inductive Op
  | insert (m id ts data size : Nat)
  | populate (id : Nat) (rts : Option Nat)
  | hasAsset (id : Nat)
  | deleteAsset (id : Nat)
  | removeModel (m : Nat)
  | resetModel (m : Nat)
  | resetAll
  | setCapacity (n : Nat)
deriving Repr, DecidableEq

inductive Res
  | bool (b : Bool)
  | data (d : Option Nat)
  | ts (t : Option Nat)
  | unit
deriving Repr, DecidableEq

def step (c : Cache) : Op → Cache × Res
  | .insert m id ts d sz => let r := insert c m id ts d sz; (r.1, .bool r.2)
  | .populate id rts => let r := populate c id rts; (r.1, .data r.2)
  | .hasAsset id => (c, .ts (hasAsset c id))
  | .deleteAsset id => (deleteAsset c id, .unit)
  | .removeModel m => (removeModel c m, .unit)
  | .resetModel m => (resetModel c m, .unit)
  | .resetAll => (resetAll c, .unit)
  | .setCapacity n => (setCapacity c n, .unit)

/-- state after a history. -/
def run (c : Cache) (ops : List Op) : Cache := ops.foldl (fun c op => (step c op).1) c

end MjProof.Cache
