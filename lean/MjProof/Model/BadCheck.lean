/-
C30 model (core Lean only).

1. `FloatClass`: the value classes of an IEEE double that matter to `mju_isBad` (NaN, +Inf, -Inf, finite with a
   value in the carrier `α`) and the C expression `x != x || x > mjMAXVAL || x < -mjMAXVAL` evaluated with the
   IEEE comparison rules (every ordered comparison with NaN is false, `NaN != NaN` is true, +Inf is above and
   -Inf below every finite value).  The finite case is the generated kernel `MjProof.Gen.mju_isBad`
   (theorem `C30.isBadFC_fin_eq_gen`); the driver compares the classification with the real `mju_isBad` on bit
   patterns including NaN / ±Inf.

2. `check`: hand model of the decision logic of `mj_checkPos` / `mj_checkVel` / `mj_checkAcc`
   (engine_forward.c) on the slice of mjData those functions touch: the checked vector, the warning record
   `d->warning[W]` (number, lastinfo), and two ghost counters for the calls of `mj_resetData` / `mj_forward`.

3. `sem`: a semantics of the *atoms* (by source text) of the translator-generated skeletons
   `Gen.Pipeline.mj_checkPos/Vel/Acc` on a machine state = that slice + the C locals.  The control structure
   (loop, guards, order of warning / reset / counter update / return) is NOT written here: it comes from the
   generated `Prog`; `C30.gen_check_refines` proves that running the generated skeleton under `sem` computes
   exactly `check`.  A text `sem` does not know sets the `junk` flag, so a change of the source that alters any
   atom or guard breaks that theorem instead of being silently ignored.
-/
import MjProof.Num
import MjProof.Model.Prog

namespace MjProof.BadCheck

/-! ### 1. value classes of a double -/

inductive FloatClass (α : Type) where
  | nan
  | pinf
  | ninf
  | fin (r : α)
deriving Repr

section
variable {α : Type} [MjNum α]

/-- `mjMAXVAL` (mjmodel.h); tied to the source by `C30.isBadFC_fin_eq_gen` (the generated kernel carries the
    constant the compiler saw) -/
def maxval : α := MjNum.ofInt 10000000000

namespace FloatClass
/-- IEEE `x != x` -/
def neSelf : FloatClass α → Bool
  | nan => true
  | _ => false
/-- IEEE `x > m` for a finite `m` -/
def gt (x : FloatClass α) (m : α) : Bool :=
  match x with
  | nan => false
  | pinf => true
  | ninf => false
  | fin r => decide (m < r)
/-- IEEE `x < m` for a finite `m` -/
def lt (x : FloatClass α) (m : α) : Bool :=
  match x with
  | nan => false
  | pinf => false
  | ninf => true
  | fin r => decide (r < m)
/-- `mju_isBad`: `x != x || x > mjMAXVAL || x < -mjMAXVAL` -/
def isBad (x : FloatClass α) : Bool := x.neSelf || x.gt maxval || x.lt (-maxval)
end FloatClass
end

/-- class of a concrete double -/
def classify (x : Float) : FloatClass Float :=
  if x.isNaN then .nan else if x.isInf then (if x > 0 then .pinf else .ninf) else .fin x

/-! ### 2. decision logic of the check functions -/

inductive Which where
  | pos | vel | acc
deriving DecidableEq, Repr

/-- the slice of mjData a check function touches (`n` = nq for `pos`, nv otherwise) -/
structure Dat (α : Type) (n : Nat) where
  vec : Vector α n        -- qpos / qvel / qacc
  number : Nat            -- d->warning[W].number
  lastinfo : Int          -- d->warning[W].lastinfo
  resets : Nat            -- ghost: calls of mj_resetData
  forwards : Nat          -- ghost: calls of mj_forward

/-- what is constant during one call -/
structure Cfg (α : Type) (n : Nat) where
  isBad : α → Bool                    -- mju_isBad
  vec0 : Vector α n                   -- the checked vector after mj_resetData (qpos0 / zeros)
  fwd : Vector α n → Vector α n       -- the checked vector after mj_forward (abstract)
  autoreset : Bool                    -- !mjDISABLED(mjDSBL_AUTORESET)
  enblSleep : Bool                    -- mjENABLED(mjENBL_SLEEP)
  awake : List (Fin n)                -- d->dof_awake_ind[0 .. d->nv_awake) at the time of the call

variable {α : Type} {n : Nat}

/-- `sleep_filter` of mj_checkVel / mj_checkAcc (mj_checkPos scans every position) -/
def sleepFilter (W : Which) (c : Cfg α n) : Bool :=
  match W with
  | .pos => false
  | _ => c.enblSleep && decide (c.awake.length < n)

/-- the indices visited, in order -/
def scanned (W : Which) (c : Cfg α n) : List (Fin n) :=
  if sleepFilter W c then c.awake else List.finRange n

def firstBad (W : Which) (c : Cfg α n) (d : Dat α n) : Option (Fin n) :=
  (scanned W c).find? (fun i => c.isBad d.vec[i.val])

/-- `mj_warning(d, W, i)` and equally `number++; lastinfo = i` -/
def bump (d : Dat α n) (i : Fin n) : Dat α n := { d with number := d.number + 1, lastinfo := (i.val : Int) }

/-- `mj_resetData` on the slice: the vector gets its reset value, the warning record is cleared (memset) -/
def reset (c : Cfg α n) (d : Dat α n) : Dat α n :=
  { d with vec := c.vec0, number := 0, lastinfo := 0, resets := d.resets + 1 }

def forward (c : Cfg α n) (d : Dat α n) : Dat α n := { d with vec := c.fwd d.vec, forwards := d.forwards + 1 }

/-- what happens once a bad entry is found at index `i` -/
def fire (W : Which) (c : Cfg α n) (d : Dat α n) (i : Fin n) : Dat α n :=
  let d1 := bump d i
  let d2 := if c.autoreset then reset c d1 else d1
  let d3 := bump d2 i
  if W = .acc ∧ c.autoreset then forward c d3 else d3

/-- nothing found: nothing happens -/
def react (W : Which) (c : Cfg α n) (d : Dat α n) : Option (Fin n) → Dat α n
  | none => d
  | some i => fire W c d i

def check (W : Which) (c : Cfg α n) (d : Dat α n) : Dat α n := react W c d (firstBad W c d)

/-! ### 3. semantics of the atoms of the generated skeletons -/

/-- machine state: the data slice and the C locals -/
structure Mach (α : Type) (n : Nat) where
  d : Dat α n
  filter : Bool            -- sleep_filter
  cnt : Nat                -- nq / nv (loop bound)
  j : Nat                  -- loop counter (`i` in mj_checkPos, `j` otherwise)
  i : Option (Fin n)       -- index local; `none`: unassigned or outside the vector
  junk : Bool              -- an unknown atom / guard text was executed

def fin? (n k : Nat) : Option (Fin n) := if h : k < n then some ⟨k, h⟩ else none

abbrev badGuardText : Which → String
  | .pos => "mju_isBad(qpos[i])"
  | .vel => "mju_isBad(d->qvel[i])"
  | .acc => "mju_isBad(d->qacc[i])"
abbrev warnKey : Which → String
  | .pos => "mj_warning(d, mjWARN_BADQPOS, i)"
  | .vel => "mj_warning(d, mjWARN_BADQVEL, i)"
  | .acc => "mj_warning(d, mjWARN_BADQACC, i)"
abbrev incrText : Which → String
  | .pos => "d->warning[mjWARN_BADQPOS].number++"
  | .vel => "d->warning[mjWARN_BADQVEL].number++"
  | .acc => "d->warning[mjWARN_BADQACC].number++"
abbrev infoText : Which → String
  | .pos => "d->warning[mjWARN_BADQPOS].lastinfo = i"
  | .vel => "d->warning[mjWARN_BADQVEL].lastinfo = i"
  | .acc => "d->warning[mjWARN_BADQACC].lastinfo = i"

def bumpM (s : Mach α n) : Mach α n :=
  match s.i with
  | some i => { s with d := bump s.d i }
  | none => { s with junk := true }

/-- `d->warning[W].lastinfo = i` -/
def infoM (s : Mach α n) : Mach α n :=
  match s.i with
  | some i => { s with d := { s.d with lastinfo := (i.val : Int) } }
  | none => { s with junk := true }

/-- `mju_isBad(vec[i])` -/
def badAt (c : Cfg α n) (s : Mach α n) : Bool :=
  match s.i with
  | some i => c.isBad s.d.vec[i.val]
  | none => false

/-- meaning of an atom / stage key on the machine -/
def atomSem (W : Which) (c : Cfg α n) (t : String) (s : Mach α n) : Mach α n :=
  -- mj_checkPos preamble and counter
  if t = "int nq = m->nq;" then { s with cnt := n }
  else if t = "const mjtNum* qpos = d->qpos;" then s
  else if t = "int i=0;" then { s with j := 0, i := fin? n 0 }
  else if t = "i++" then { s with j := s.j + 1, i := fin? n (s.j + 1) }
  -- mj_checkVel / mj_checkAcc preamble and counter
  else if t = "int sleep_filter = mjENABLED(mjENBL_SLEEP) && d->nv_awake < m->nv;" then
    { s with filter := c.enblSleep && decide (c.awake.length < n) }
  else if t = "int nv = sleep_filter ? d->nv_awake : m->nv;" then
    { s with cnt := if s.filter then c.awake.length else n }
  else if t = "int j=0;" then { s with j := 0 }
  else if t = "int i = sleep_filter ? d->dof_awake_ind[j] : j;" then
    { s with i := if s.filter then c.awake[s.j]? else fin? n s.j }
  else if t = "j++" then { s with j := s.j + 1 }
  -- the reaction
  else if t = warnKey W then bumpM s
  else if t = "mj_resetData" then { s with d := reset c s.d }
  else if t = incrText W then { s with d := { s.d with number := s.d.number + 1 } }
  else if t = infoText W then infoM s
  else if t = "mj_forward" then { s with d := forward c s.d }
  else { s with junk := true }

/-- meaning of a data-dependent guard on the machine (unknown text: false; the refinement theorem fails then,
    because the loop never runs) -/
def guardSem (W : Which) (c : Cfg α n) (t : String) (s : Mach α n) : Bool :=
  if t = "i < nq" then decide (s.j < s.cnt)
  else if t = "j < nv" then decide (s.j < s.cnt)
  else if t = badGuardText W then badAt c s
  else false

def sem (W : Which) (c : Cfg α n) : Prog.Sem (Mach α n) := { atom := atomSem W c, guard := guardSem W c }

/-- the constant-guard environment of a call -/
def menv (c : Cfg α n) : Prog.MEnv :=
  { mconst := fun t => if t = "mjDISABLED(mjDSBL_AUTORESET)" then !c.autoreset else false,
    label := fun _ => "" }

def start (d : Dat α n) : Mach α n := { d := d, filter := false, cnt := 0, j := 0, i := none, junk := false }


/-! ### 4. scan sites: which indices a bad-value loop visits, for every model size

`translate/c30_scans.py` regenerates `Gen.C30Scans.sites` from engine_forward.c on every run: one record per loop that
tests `mju_isBad(A[i])` (mj_checkPos / mj_checkVel / mj_checkAcc and the control validation of mj_fwdActuation).  The model
dimensions (`m->nq`, `m->nv`, `m->nu`, `m->nactuator`, ...) are independent numbers: with ball / free joints nq ≠ nv, with
multi-input actuators (so3, pid, dcmotor) nu ≠ nactuator.  `Sizes` assigns a value to every size expression; a site
visits every entry of its array for ALL assignments exactly when its bound is, textually, the declared length. -/

structure ScanSite where
  func : String                 -- enclosing function
  array : String                -- `d->qpos`, ..., or `local ctrl` (stack copy of the controls)
  declared : String             -- declared element count of the array (mjxmacro.h / the stack allocation)
  start : Nat                   -- initial value of the loop counter
  bound : String                -- loop bound while nothing is filtered
  filter : Option String        -- the sleep-filter flag, when the bound is `flag ? filterBound : bound`
  filterBound : Option String
  index : String                -- `direct`, or the definition of the subscript (`i = flag ? d->dof_awake_ind[j] : j`)
  warn : String                 -- enumerator passed to mj_warning
  zeroCount : Option String     -- count of `mju_zero(array, count)` in the reaction
  exit : String                 -- `return` | `break`
deriving Repr, DecidableEq

/-- a value for every size expression (`m->nu`, `m->nactuator`, ...) -/
abbrev Sizes := String → Nat

/-- indices visited by the unfiltered loop of a site under a size assignment -/
def ScanSite.visited (s : ScanSite) (sz : Sizes) : List Nat := List.range' s.start (sz s.bound - s.start)

/-- the site reaches every entry of its array, whatever the model dimensions are -/
def ScanSite.covers (s : ScanSite) : Prop := ∀ sz : Sizes, ∀ i, i < sz s.declared → i ∈ s.visited sz

/-- the syntactic condition the generated table is checked against -/
def ScanSite.wellBounded (s : ScanSite) : Bool := s.start == 0 && s.bound == s.declared

/-! ### 5. the control validation of mj_fwdActuation on the local copy `ctrl[0 .. nu)`

after the per-actuator copy (`mju_copy(ctrl + adr, d->ctrl + adr, ctrlnum)`) and the clamp:
`for (i = 0; i < BOUND; i++) if (mju_isBad(ctrl[i])) { mj_warning(d, mjWARN_BADCTRL, i); mju_zero(ctrl, ZCOUNT); break; }`
with BOUND / ZCOUNT the values of the size expressions of the generated site. -/

structure CtrlOut (α : Type) where
  fired : Option Nat        -- index passed to mj_warning (lastinfo), `none`: no warning
  ctrl : List α             -- the local controls used by the rest of mj_fwdActuation
  oob : Bool                -- the loop read past the end of the array (bound > length)
deriving Repr

/-- first index below `bound` whose entry is bad; entries past the end of the list are reported separately -/
def firstBadBelow {α : Type} (isBad : α → Bool) (v : List α) (bound : Nat) : Option Nat :=
  (List.range bound).find? (fun i => match v[i]? with | some x => isBad x | none => false)

/-- `mju_zero(ctrl, k)` -/
def zeroFirst {α : Type} (zero : α) (k : Nat) (v : List α) : List α :=
  v.mapIdx (fun i x => if i < k then zero else x)

def ctrlScan {α : Type} (isBad : α → Bool) (zero : α) (bound zcount : Nat) (v : List α) : CtrlOut α :=
  match firstBadBelow isBad v bound with
  | none => { fired := none, ctrl := v, oob := decide (v.length < bound) }
  | some i => { fired := some i, ctrl := zeroFirst zero zcount v, oob := decide (v.length < i) }

/-- the scan of a generated site under a size assignment (`none`: the site zeroes nothing) -/
def ScanSite.runCtrl {α : Type} (s : ScanSite) (sz : Sizes) (isBad : α → Bool) (zero : α) (v : List α) : CtrlOut α :=
  ctrlScan isBad zero (sz s.bound) (match s.zeroCount with | some z => sz z | none => 0) v

end MjProof.BadCheck
