/-
C30 model (core Lean only).

1. `FloatClass`: the value classes of an IEEE double that matter to `mju_isBad` (NaN, +Inf, -Inf, finite with a
   value in the carrier `α`) and the C expression `x != x || x > mjMAXVAL || x < -mjMAXVAL` evaluated with the
   IEEE comparison rules (every ordered comparison with NaN is false, `NaN != NaN` is true, +Inf is above and
   -Inf below every finite value).  The finite case is the generated kernel `MjProof.Gen.mju_isBad`
   (theorem `C30.isBadFC_fin_eq_gen`); the driver compares the classification with the real `mju_isBad` on bit
   patterns including NaN / ±Inf.

2. `check`: hand model of the decision logic of `mj_checkPos` / `mj_checkVel` / `mj_checkAcc`
   (engine_forward.c) on the slice of mjData those functions touch: the checked vector, the warning record
   `d->warning[W]` (number, lastinfo), and two ghost counters for the calls of `mj_resetData` / `mj_forward`.

3. `sem`: a semantics of the *atoms* (by source text) of the translator-generated skeletons
   `Gen.Pipeline.mj_checkPos/Vel/Acc` on a machine state = that slice + the C locals.  The control structure
   (loop, guards, order of warning / reset / counter update / return) is NOT written here: it comes from the
   generated `Prog`; `C30.gen_check_refines` proves that running the generated skeleton under `sem` computes
   exactly `check`.  A text `sem` does not know sets the `junk` flag, so a change of the source that alters any
   atom or guard breaks that theorem instead of being silently ignored.
-/
import MjProof.Num
import MjProof.Model.Prog

namespace MjProof.BadCheck

/-! ### 1. value classes of a double -/

inductive FloatClass (α : Type) where
  | nan
  | pinf
  | ninf
  | fin (r : α)
deriving Repr

section
variable {α : Type} [MjNum α]

/-- `mjMAXVAL` (mjmodel.h); tied to the source by `C30.isBadFC_fin_eq_gen` (the generated kernel carries the
    constant the compiler saw) -/
def maxval : α := MjNum.ofInt 10000000000

namespace FloatClass
/-- IEEE `x != x` -/
def neSelf : FloatClass α → Bool
  | nan => true
  | _ => false
/-- IEEE `x > m` for a finite `m` -/
def gt (x : FloatClass α) (m : α) : Bool :=
  match x with
  | nan => false
  | pinf => true
  | ninf => false
  | fin r => decide (m < r)
/-- IEEE `x < m` for a finite `m` -/
def lt (x : FloatClass α) (m : α) : Bool :=
  match x with
  | nan => false
  | pinf => false
  | ninf => true
  | fin r => decide (r < m)
/-- `mju_isBad`: `x != x || x > mjMAXVAL || x < -mjMAXVAL` -/
def isBad (x : FloatClass α) : Bool := x.neSelf || x.gt maxval || x.lt (-maxval)
end FloatClass
end

/-- class of a concrete double -/
def classify (x : Float) : FloatClass Float :=
  if x.isNaN then .nan else if x.isInf then (if x > 0 then .pinf else .ninf) else .fin x

/-! ### 2. decision logic of the check functions -/

inductive Which where
  | pos | vel | acc
deriving DecidableEq, Repr

/-- the slice of mjData a check function touches (`n` = nq for `pos`, nv otherwise) -/
structure Dat (α : Type) (n : Nat) where
  vec : Vector α n        -- qpos / qvel / qacc
  number : Nat            -- d->warning[W].number
  lastinfo : Int          -- d->warning[W].lastinfo
  resets : Nat            -- ghost: calls of mj_resetData
  forwards : Nat          -- ghost: calls of mj_forward

/-- what is constant during one call -/
structure Cfg (α : Type) (n : Nat) where
  isBad : α → Bool                    -- mju_isBad
  vec0 : Vector α n                   -- the checked vector after mj_resetData (qpos0 / zeros)
  fwd : Vector α n → Vector α n       -- the checked vector after mj_forward (abstract)
  autoreset : Bool                    -- !mjDISABLED(mjDSBL_AUTORESET)
  enblSleep : Bool                    -- mjENABLED(mjENBL_SLEEP)
  awake : List (Fin n)                -- d->dof_awake_ind[0 .. d->nv_awake) at the time of the call

variable {α : Type} {n : Nat}

/-- `sleep_filter` of mj_checkVel / mj_checkAcc (mj_checkPos scans every position) -/
def sleepFilter (W : Which) (c : Cfg α n) : Bool :=
  match W with
  | .pos => false
  | _ => c.enblSleep && decide (c.awake.length < n)

/-- the indices visited, in order -/
def scanned (W : Which) (c : Cfg α n) : List (Fin n) :=
  if sleepFilter W c then c.awake else List.finRange n

def firstBad (W : Which) (c : Cfg α n) (d : Dat α n) : Option (Fin n) :=
  (scanned W c).find? (fun i => c.isBad d.vec[i.val])

/-- `mj_warning(d, W, i)` and equally `number++; lastinfo = i` -/
def bump (d : Dat α n) (i : Fin n) : Dat α n := { d with number := d.number + 1, lastinfo := (i.val : Int) }

/-- `mj_resetData` on the slice: the vector gets its reset value, the warning record is cleared (memset) -/
def reset (c : Cfg α n) (d : Dat α n) : Dat α n :=
  { d with vec := c.vec0, number := 0, lastinfo := 0, resets := d.resets + 1 }

def forward (c : Cfg α n) (d : Dat α n) : Dat α n := { d with vec := c.fwd d.vec, forwards := d.forwards + 1 }

/-- what happens once a bad entry is found at index `i` -/
def fire (W : Which) (c : Cfg α n) (d : Dat α n) (i : Fin n) : Dat α n :=
  let d1 := bump d i
  let d2 := if c.autoreset then reset c d1 else d1
  let d3 := bump d2 i
  if W = .acc ∧ c.autoreset then forward c d3 else d3

/-- nothing found: nothing happens -/
def react (W : Which) (c : Cfg α n) (d : Dat α n) : Option (Fin n) → Dat α n
  | none => d
  | some i => fire W c d i

def check (W : Which) (c : Cfg α n) (d : Dat α n) : Dat α n := react W c d (firstBad W c d)

/-! ### 3. semantics of the atoms of the generated skeletons -/

/-- machine state: the data slice and the C locals -/
structure Mach (α : Type) (n : Nat) where
  d : Dat α n
  filter : Bool            -- sleep_filter
  cnt : Nat                -- nq / nv (loop bound)
  j : Nat                  -- loop counter (`i` in mj_checkPos, `j` otherwise)
  i : Option (Fin n)       -- index local; `none`: unassigned or outside the vector
  junk : Bool              -- an unknown atom / guard text was executed

def fin? (n k : Nat) : Option (Fin n) := if h : k < n then some ⟨k, h⟩ else none

abbrev badGuardText : Which → String
  | .pos => "mju_isBad(qpos[i])"
  | .vel => "mju_isBad(d->qvel[i])"
  | .acc => "mju_isBad(d->qacc[i])"
abbrev warnKey : Which → String
  | .pos => "mj_warning(d, mjWARN_BADQPOS, i)"
  | .vel => "mj_warning(d, mjWARN_BADQVEL, i)"
  | .acc => "mj_warning(d, mjWARN_BADQACC, i)"
abbrev incrText : Which → String
  | .pos => "d->warning[mjWARN_BADQPOS].number++"
  | .vel => "d->warning[mjWARN_BADQVEL].number++"
  | .acc => "d->warning[mjWARN_BADQACC].number++"
abbrev infoText : Which → String
  | .pos => "d->warning[mjWARN_BADQPOS].lastinfo = i"
  | .vel => "d->warning[mjWARN_BADQVEL].lastinfo = i"
  | .acc => "d->warning[mjWARN_BADQACC].lastinfo = i"

def bumpM (s : Mach α n) : Mach α n :=
  match s.i with
  | some i => { s with d := bump s.d i }
  | none => { s with junk := true }

/-- `d->warning[W].lastinfo = i` -/
def infoM (s : Mach α n) : Mach α n :=
  match s.i with
  | some i => { s with d := { s.d with lastinfo := (i.val : Int) } }
  | none => { s with junk := true }

/-- `mju_isBad(vec[i])` -/
def badAt (c : Cfg α n) (s : Mach α n) : Bool :=
  match s.i with
  | some i => c.isBad s.d.vec[i.val]
  | none => false

/-- meaning of an atom / stage key on the machine -/
def atomSem (W : Which) (c : Cfg α n) (t : String) (s : Mach α n) : Mach α n :=
  -- mj_checkPos preamble and counter
  if t = "int nq = m->nq;" then { s with cnt := n }
  else if t = "const mjtNum* qpos = d->qpos;" then s
  else if t = "int i=0;" then { s with j := 0, i := fin? n 0 }
  else if t = "i++" then { s with j := s.j + 1, i := fin? n (s.j + 1) }
  -- mj_checkVel / mj_checkAcc preamble and counter
  else if t = "int sleep_filter = mjENABLED(mjENBL_SLEEP) && d->nv_awake < m->nv;" then
    { s with filter := c.enblSleep && decide (c.awake.length < n) }
  else if t = "int nv = sleep_filter ? d->nv_awake : m->nv;" then
    { s with cnt := if s.filter then c.awake.length else n }
  else if t = "int j=0;" then { s with j := 0 }
  else if t = "int i = sleep_filter ? d->dof_awake_ind[j] : j;" then
    { s with i := if s.filter then c.awake[s.j]? else fin? n s.j }
  else if t = "j++" then { s with j := s.j + 1 }
  -- the reaction
  else if t = warnKey W then bumpM s
  else if t = "mj_resetData" then { s with d := reset c s.d }
  else if t = incrText W then { s with d := { s.d with number := s.d.number + 1 } }
  else if t = infoText W then infoM s
  else if t = "mj_forward" then { s with d := forward c s.d }
  else { s with junk := true }

/-- meaning of a data-dependent guard on the machine (unknown text: false; the refinement theorem fails then,
    because the loop never runs) -/
def guardSem (W : Which) (c : Cfg α n) (t : String) (s : Mach α n) : Bool :=
  if t = "i < nq" then decide (s.j < s.cnt)
  else if t = "j < nv" then decide (s.j < s.cnt)
  else if t = badGuardText W then badAt c s
  else false

def sem (W : Which) (c : Cfg α n) : Prog.Sem (Mach α n) := { atom := atomSem W c, guard := guardSem W c }

/-- the constant-guard environment of a call -/
def menv (c : Cfg α n) : Prog.MEnv :=
  { mconst := fun t => if t = "mjDISABLED(mjDSBL_AUTORESET)" then !c.autoreset else false,
    label := fun _ => "" }

def start (d : Dat α n) : Mach α n := { d := d, filter := false, cnt := 0, j := 0, i := none, junk := false }

end MjProof.BadCheck
