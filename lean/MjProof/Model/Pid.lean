import MjProof.Num
/-
C51 — executable model of the PID actuator plugin `plugin/actuator/pid.cc` together with the engine code that
integrates its activation states (`mj_nextActivation` in `src/engine/engine_support.c`, called from `mj_advance`
with the `act_dot` the plugin wrote), generic over `MjNum α` (Float in the driver, ℝ in the proofs).

What the code does (and the model mirrors, statement by statement):
* configuration (`PidConfig::FromModel`, `Pid::Create`): gains `kp ki kd`; `i_max = imax / ki` only when the
  attribute is present and `ki != 0`; `slew_max`; creation fails when `i_max < 0` or `slew_max < 0`.
* state: the plugin keeps no `plugin_state` (`StateSize = 0`); it uses the actuator's activation slice
  `[integral (iff ki != 0)] [previous setpoint (iff slewmax given)] [native activation (iff dyntype != none)]`.
* `GetCtrl`: setpoint = `ctrl` clamped to `ctrlrange` (dyntype none) or the native activation (`act`, or the
  plugin's copy of `NextActivation` when `actearly`); then, if slewmax is given and `d->time > 0`, clamped to
  `previous ± slewmax * opt.timestep`.
* `ActDot` (always with `actearly = false`): `act_dot` of the integral slot `(clip(integral + error*dt) - act)/dt`,
  of the previous-setpoint slot `(setpoint - act)/dt`.
* `Compute`: `force = kp*error + kd*error_dot + ki*integral`, `error = setpoint - actuator_length`,
  `error_dot = ctrl_dot - actuator_velocity` (`ctrl_dot = 0` for dyntype none, else the native `act_dot`),
  `integral = clip(state.integral + error*dt, ±i_max)` (0 when `ki == 0`).
* the engine then advances *every* activation of the actuator with `mj_nextActivation`: Euler
  `act + act_dot*dt`, except that for dyntype filterexact it uses `act + act_dot*tau*(1-exp(-dt/tau))` — in the
  tree as it stands also for the two plugin-owned slots (`Cfg.ownExact`, measured on the real function by the
  harness; see Props/C51: the tracking theorems need the Euler rule for the owned slots).
Not modelled: `actlimited` (never generated), the RK4 integrator (it integrates `act` through its own stages),
several actuators sharing one plugin instance (each is handled independently by the same code).
-/
namespace MjProof.Pid
open MjProof

inductive Dyn where
  | none | integrator | filter | filterexact
  deriving DecidableEq, Repr

/-- configuration as held by the C++ object plus the actuator fields the plugin reads -/
structure Cfg (α : Type) where
  kp : α
  ki : α
  kd : α
  /-- `config_.i_max` (already divided by `ki`) -/
  imax : Option α
  slew : Option α
  /-- `m->opt.timestep` -/
  dt : α
  dyn : Dyn
  /-- `actuator_dynprm[0]` -/
  tau : α
  early : Bool
  /-- `actuator_ctrlrange` when `ctrllimited` -/
  clim : Option (α × α)
  /-- how `mj_nextActivation` of the tree advances the *plugin-owned* slots of a filterexact actuator: `true` = with the
  exact-filter formula like the native activation (what the code does: its filterexact branch does not look at the
  slot index), `false` = Euler.  The harness measures it by calling the real `mj_nextActivation` on such a slot and
  passes it on every line; irrelevant for the other dyntypes. -/
  ownExact : Bool

/-- the plugin-owned activations (a slot that does not exist is carried as 0 and never read) -/
structure St (α : Type) where
  actI : α
  actP : α

/-- what one step reads besides its own state -/
structure In (α : Type) where
  /-- `d->time` -/
  time : α
  /-- `d->ctrl[i]` -/
  u : α
  /-- `d->actuator_length[i]`, `d->actuator_velocity[i]` -/
  len : α
  vel : α
  /-- native activation `d->act[last]` and its `act_dot` (dyntype != none) -/
  nact : α
  nactdot : α

structure Out (α : Type) where
  force : α
  actdotI : α
  actdotP : α
  next : St α

section
variable {α : Type} [MjNum α]

/-- `mju_clip(x, min, max)`: `x < min ? min : (x > max ? max : x)` -/
def clip (x lo hi : α) : α := if x < lo then lo else if hi < x then hi else x

/-- `PidConfig::FromModel` + the checks of `Pid::Create` (`none` = creation fails) -/
def create? (kp ki kd : α) (imaxAttr slewAttr : Option α) (dt : α) (dyn : Dyn) (tau : α) (early : Bool)
    (clim : Option (α × α)) (ownExact : Bool := true) : Option (Cfg α) :=
  let imax : Option α := match imaxAttr with
    | some f => if MjNum.beq ki (MjNum.ofInt 0) then none else some (f / ki)
    | none => none
  let badI : Bool := match imax with | some m => decide (m < MjNum.ofInt 0) | none => false
  let badS : Bool := match slewAttr with | some r => decide (r < MjNum.ofInt 0) | none => false
  if badI || badS then none else some { kp, ki, kd, imax, slew := slewAttr, dt, dyn, tau, early, clim, ownExact }

/-- `if (config_.i_gain)` -/
def hasI (c : Cfg α) : Bool := !MjNum.beq c.ki (MjNum.ofInt 0)

/-- `mj_nextActivation` / the plugin's `NextActivation` without actrange clamp -/
def nextAct (c : Cfg α) (act actdot : α) : α :=
  match c.dyn with
  | .filterexact =>
    let tau := MjNum.max (MjNum.ofSci 1 true 15) c.tau
    act + actdot * tau * (MjNum.ofInt 1 - MjNum.exp ((-c.dt) / tau))
  | _ => act + actdot * c.dt

/-- `mj_nextActivation` applied by `mj_advance` to a plugin-owned slot -/
def nextOwn (c : Cfg α) (act actdot : α) : α :=
  if c.dyn = Dyn.filterexact ∧ c.ownExact = true then nextAct c act actdot else act + actdot * c.dt

/-- `GetState(...).previous_ctrl_exists` -/
def prevExists (i : In α) : Bool := decide (MjNum.ofInt 0 < i.time)

/-- the setpoint before slew limiting -/
def rawCtrl (c : Cfg α) (i : In α) (early : Bool) : α :=
  match c.dyn with
  | .none => match c.clim with
    | some (lo, hi) => clip i.u lo hi
    | none => i.u
  | _ => if early then nextAct c i.nact i.nactdot else i.nact

/-- `Pid::GetCtrl` -/
def getCtrl (c : Cfg α) (s : St α) (i : In α) (early : Bool) : α :=
  let ctrl := rawCtrl c i early
  match c.slew with
  | some r =>
    if prevExists i then clip ctrl (s.actP - r * c.dt) (s.actP + r * c.dt) else ctrl
  | none => ctrl

/-- the integral used by `ActDot` / `Compute` for a given error -/
def integralOf (c : Cfg α) (s : St α) (error : α) : α :=
  if hasI c then
    let integral := s.actI + error * c.dt
    match c.imax with
    | some m => clip integral (-m) m
    | none => integral
  else MjNum.ofInt 0

/-- `Pid::Compute`: the force -/
def force (c : Cfg α) (s : St α) (i : In α) : α :=
  let ctrl := getCtrl c s i c.early
  let error := ctrl - i.len
  let ctrlDot := match c.dyn with | .none => MjNum.ofInt 0 | _ => i.nactdot
  let errorDot := ctrlDot - i.vel
  c.kp * error + c.kd * errorDot + c.ki * integralOf c s error

/-- one `mj_step` as seen by the plugin's slots: `ActDot`, `Compute`, then the engine's advance -/
def step (c : Cfg α) (s : St α) (i : In α) : Out α :=
  let ctrl0 := getCtrl c s i false
  let error0 := ctrl0 - i.len
  let actdotI := if hasI c then (integralOf c s error0 - s.actI) / c.dt else MjNum.ofInt 0
  let actdotP := match c.slew with | some _ => (ctrl0 - s.actP) / c.dt | none => MjNum.ofInt 0
  { force := force c s i
    actdotI := actdotI
    actdotP := actdotP
    next := { actI := if hasI c then nextOwn c s.actI actdotI else s.actI
              actP := match c.slew with | some _ => nextOwn c s.actP actdotP | none => s.actP } }

/-- a whole control sequence from a given state: the outputs of every step -/
def runSeq (c : Cfg α) : St α → List (In α) → List (Out α)
  | _, [] => []
  | s, i :: is => let o := step c s i; o :: runSeq c o.next is

/-- the state after a control sequence -/
def finalState (c : Cfg α) : St α → List (In α) → St α
  | s, [] => s
  | s, i :: is => finalState c (step c s i).next is

end
end MjProof.Pid
