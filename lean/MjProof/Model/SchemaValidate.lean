import MjProof.Model.SchemaParse
/-
Model of `_validate`, `_check_group_cycle`, `_validate_attr`, `Schema.expanded_attrs` and `parse_string`
of `doc/generate/mjcf_schema.py`.  Core Lean only.

Checks are performed in the order of the Python code and the first failing one is the result, so that
the reported (line, class) agrees with the `SchemaError` raised.

`_check_group_cycle` and `_group_attrs` are recursive over the `use` graph.  The model recurses in the same
way; termination is by the number of declared group names not on the current path (`unvisited`), which
strictly decreases at every `use` edge followed.  For `_group_attrs` Python carries no path: it relies on
the cycle check and the dangling-`use` check having passed; the model carries the path only as the
termination argument (on a path that revisits a group — impossible after the cycle check — it yields []).
-/
namespace MjProof.Schema

set_option linter.unusedVariables false  -- `hs`/`hf` are used by the `decreasing_by` proofs only

variable {N : Nat}

/-! ## lookups (Python dict access by name) -/

def findGroup (s : Schema N) (n : String) : Option (Group N) := s.groups.find? (fun g => g.name = n)
def findEnum (s : Schema N) (n : String) : Option (Enum N) := s.enums.find? (fun e => e.name = n)
def groupNames (s : Schema N) : List String := s.groups.map (·.name)
def enumNames (s : Schema N) : List String := s.enums.map (·.name)
def elementNames (s : Schema N) : List String := s.elements.map (·.name)

/-- `facets.get(k)` -/
def Facets.get (fs : Facets) (k : String) : Option FacetVal := (fs.find? (fun e => e.1 = k)).map (·.2)

/-- Python truthiness of `facets.get(k)`. -/
def truthy : Option FacetVal → Bool
  | none => false
  | some .flag => true
  | some (.str s) => s ≠ ""
  | some (.num d) => ¬ d.isZero

/-- `isinstance(v, (int, float))` — `True` is an `int`. -/
def FacetVal.isNumeric : FacetVal → Bool
  | .flag => true
  | .num _ => true
  | .str _ => false

/-- Numeric value of a facet for `min > max` (`True` compares as 1). -/
def FacetVal.key : FacetVal → Int
  | .flag => Dbl.one.key
  | .num d => d.key
  | .str _ => 0

def Ty.numeric : Ty → Bool
  | .double | .float | .int => true
  | _ => false

def memberAttrs : List (Member N) → List (Attr N)
  | [] => []
  | .attr a :: ms => a :: memberAttrs ms
  | _ :: ms => memberAttrs ms

def memberUses : List (Member N) → List (Use N)
  | [] => []
  | .use u :: ms => u :: memberUses ms
  | _ :: ms => memberUses ms

def memberChildren : List (Member N) → List (Child N)
  | [] => []
  | .child c :: ms => c :: memberChildren ms
  | _ :: ms => memberChildren ms

def memberCons : List (Member N) → List (Constraint N)
  | [] => []
  | .con c :: ms => c :: memberCons ms
  | _ :: ms => memberCons ms

/-! ## the termination measure of the recursions over the `use` graph -/

def unvisited (s : Schema N) (stack : List String) : Nat :=
  ((groupNames s).filter (fun n => n ∉ stack)).length

theorem filter_length_le_of_imp {α : Type} (p q : α → Bool) (h : ∀ x, q x = true → p x = true) (l : List α) :
    (l.filter q).length ≤ (l.filter p).length := by
  induction l with
  | nil => simp
  | cons c l ih =>
    simp only [List.filter_cons]
    by_cases hq : q c = true
    · simp [hq, h c hq]; omega
    · by_cases hp : p c = true <;> simp [hq, hp] <;> omega

theorem filter_length_lt_of_imp {α : Type} (p q : α → Bool) (h : ∀ x, q x = true → p x = true) (l : List α)
    (a : α) (ha : a ∈ l) (hpa : p a = true) (hqa : q a = false) :
    (l.filter q).length < (l.filter p).length := by
  induction l with
  | nil => simp at ha
  | cons b l ih =>
    have hle := filter_length_le_of_imp p q h l
    simp only [List.filter_cons]
    cases ha with
    | head => simp [hpa, hqa]; omega
    | tail _ hal =>
      have := ih hal
      by_cases hq : q b = true
      · simp [hq, h b hq]; omega
      · by_cases hp : p b = true <;> simp [hq, hp] <;> omega

theorem filter_notin_lt (l : List String) (st : List String) (a : String) (ha : a ∈ l) (hs : a ∉ st) :
    (l.filter (fun n => n ∉ st ++ [a])).length < (l.filter (fun n => n ∉ st)).length := by
  apply filter_length_lt_of_imp (fun n => decide (n ∉ st)) (fun n => decide (n ∉ st ++ [a])) _ l a ha
  · simpa using hs
  · simp
  · intro x hx
    simp only [List.mem_append, List.mem_singleton, not_or, decide_eq_true_eq] at hx ⊢
    exact hx.1

theorem findGroup_name {s : Schema N} {n : String} {g : Group N} (h : findGroup s n = some g) : g.name = n := by
  have := List.find?_some h
  simpa using this

theorem findGroup_mem {s : Schema N} {n : String} {g : Group N} (h : findGroup s n = some g) :
    n ∈ groupNames s := by
  have hm := List.mem_of_find?_eq_some h
  have hn := findGroup_name h
  simp only [groupNames, List.mem_map]
  exact ⟨g, hm, hn⟩

theorem unvisited_lt {s : Schema N} {n : String} {g : Group N} {stack : List String}
    (hf : findGroup s n = some g) (hs : n ∉ stack) : unvisited s (stack ++ [n]) < unvisited s stack :=
  filter_notin_lt _ _ _ (findGroup_mem hf) hs

/-! ## `_check_group_cycle` -/

mutual
/-- `_check_group_cycle(schema, name, stack, line)` -/
def checkCycle (s : Schema N) (name : String) (stack : List String) (line : Line N) : Except (Err N) Unit :=
  if hs : name ∈ stack then .error (line, .cycle)
  else
    match hf : findGroup s name with
    | none => .ok ()          -- dangling use is reported separately
    | some g => checkCycleMembers s name stack g.members
termination_by (unvisited s stack, 0)
decreasing_by
  have := unvisited_lt hf hs
  exact Prod.Lex.left _ _ this

/-- `for member in group.members: if isinstance(member, Use): recurse(member.group, stack + [name], member.line)` -/
def checkCycleMembers (s : Schema N) (name : String) (stack : List String) :
    List (Member N) → Except (Err N) Unit
  | [] => .ok ()
  | .use u :: ms =>
    match checkCycle s u.group (stack ++ [name]) u.line with
    | .error e => .error e
    | .ok () => checkCycleMembers s name stack ms
  | .attr _ :: ms => checkCycleMembers s name stack ms
  | .child _ :: ms => checkCycleMembers s name stack ms
  | .const _ :: ms => checkCycleMembers s name stack ms
  | .con _ :: ms => checkCycleMembers s name stack ms
termination_by ms => (unvisited s (stack ++ [name]), ms.length + 1)
decreasing_by
  all_goals first
    | (apply Prod.Lex.right; simp)
    | (apply Prod.Lex.right; omega)
end

/-! ## `Schema.expanded_attrs` / `Schema._group_attrs` -/

mutual
def groupAttrs (s : Schema N) (name : String) (stack : List String) : List (Attr N) :=
  if hs : name ∈ stack then []
  else
    match hf : findGroup s name with
    | none => []
    | some g => groupMembersAttrs s name stack g.members
termination_by (unvisited s stack, 0)
decreasing_by
  have := unvisited_lt hf hs
  exact Prod.Lex.left _ _ this

def groupMembersAttrs (s : Schema N) (name : String) (stack : List String) :
    List (Member N) → List (Attr N)
  | [] => []
  | .attr a :: ms => a :: groupMembersAttrs s name stack ms
  | .use u :: ms => groupAttrs s u.group (stack ++ [name]) ++ groupMembersAttrs s name stack ms
  | .child _ :: ms => groupMembersAttrs s name stack ms
  | .const _ :: ms => groupMembersAttrs s name stack ms
  | .con _ :: ms => groupMembersAttrs s name stack ms
termination_by ms => (unvisited s (stack ++ [name]), ms.length + 1)
decreasing_by
  all_goals first
    | (apply Prod.Lex.right; simp)
    | (apply Prod.Lex.right; omega)
end

/-- `schema.expanded_attrs(element)` (applied to the element's member list). -/
def expandedAttrs (s : Schema N) : List (Member N) → List (Attr N)
  | [] => []
  | .attr a :: ms => a :: expandedAttrs s ms
  | .use u :: ms => groupAttrs s u.group [] ++ expandedAttrs s ms
  | _ :: ms => expandedAttrs s ms

/-! ## small combinators -/

/-- `if bad: err(line, cls)` -/
def chk (bad : Bool) (l : Line N) (c : Cls) : Except (Err N) Unit :=
  if bad then .error (l, c) else .ok ()

/-- `for x in xs: f(x)` with `f` raising. -/
def forAll {α : Type} (f : α → Except (Err N) Unit) : List α → Except (Err N) Unit
  | [] => .ok ()
  | x :: xs =>
    match f x with
    | .error e => .error e
    | .ok () => forAll f xs

/-- `a; b` -/
def andThen (a b : Except (Err N) Unit) : Except (Err N) Unit :=
  match a with
  | .error e => .error e
  | .ok () => b

infixr:60 " ⨾ " => andThen

/-! ## `_validate_attr` -/

def Hi.isNum : Hi → Bool
  | .num _ => true
  | _ => false

/-- `isinstance(hi, int) and n > hi` -/
def Hi.ltNat (hi : Hi) (n : Nat) : Bool :=
  match hi with
  | .num h => n > h
  | _ => false

def isBadNameFacet : Option FacetVal → Bool
  | some (.str _) => false
  | some _ => true
  | none => false

/-- `not (numeric and isinstance(attr.facets[facet], (int, float)))` when the facet is present. -/
def badMinMax (numeric : Bool) : Option FacetVal → Bool
  | some v => ¬ (numeric ∧ v.isNumeric)
  | none => false

def minGtMax : Option FacetVal → Option FacetVal → Bool
  | some lo, some hi => lo.key > hi.key
  | _, _ => false

/-- `schema.enums[attr.target].keywords()` -/
def enumKeywords (s : Schema N) (t : Option String) : List String :=
  match t.bind (findEnum s) with
  | some e => e.items.map (·.1)
  | none => []

def targetIn (t : Option String) (names : List String) : Bool :=
  match t with
  | some n => n ∈ names
  | none => false

/-- The part of `_validate_attr` after `if attr.default is None: return`. -/
def validateDefault (s : Schema N) (a : Attr N) (d : Default) : Except (Err N) Unit :=
  if a.type = .enum then
    match d with
    | .str k =>
      -- `schema.enums[attr.target].keywords()`; the target was checked to be declared before
      chk (k ∉ enumKeywords s a.target) a.line .enumDefaultNotKw
    | _ => .error (a.line, .enumDefaultKeyword)
  else if a.type = .ref ∨ a.type = .id ∨ a.type = .chars then .error (a.line, .noDefaultAllowed)
  else if a.type = .bool then
    chk (d ≠ .str "true" ∧ d ≠ .str "false") a.line .boolDefault
  else if a.type = .string ∨ a.type = .file then
    match d with
    | .str _ => .ok ()
    | _ => .error (a.line, .stringDefault)
  else
    -- numeric scalars and vectors (double, float, int — and flags, which falls through to here)
    match d with
    | .str _ => .error (a.line, .numericDefault)
    | .num _ =>
      chk (1 < a.arity.lo) a.line .defaultTooShort ⨾
      chk (a.arity.hi.ltNat 1) a.line .defaultTooLong
    | .vec ds =>
      chk a.arity.isScalar a.line .vectorForScalar ⨾
      chk (ds.length < a.arity.lo) a.line .defaultTooShort ⨾
      chk (a.arity.hi.ltNat ds.length) a.line .defaultTooLong

/-- `_validate_attr(schema, attr, namespaces)`; `ns` are the targets of all `id<...>` attributes. -/
def validateAttr (s : Schema N) (ns : List (Option String)) (a : Attr N) : Except (Err N) Unit :=
  chk ((a.type = .enum ∨ a.type = .flags) ∧ ¬ targetIn a.target (enumNames s)) a.line .danglingEnum ⨾
  chk (a.type = .ref ∧ a.target ∉ ns) a.line .danglingRef ⨾
  chk ((a.type = .file ∨ a.type = .bool) ∧ ¬ a.arity.isScalar) a.line .notVector ⨾
  chk (a.type = .chars ∧ ¬ a.arity.hi.isNum) a.line .charsUnbounded ⨾
  chk ((a.facets.get "pattern").isSome ∧ ¬ (a.type = .string ∨ a.type = .chars)) a.line .patternText ⨾
  chk (badMinMax a.type.numeric (a.facets.get "min")) a.line .minMaxNumeric ⨾
  chk (badMinMax a.type.numeric (a.facets.get "max")) a.line .minMaxNumeric ⨾
  chk (minGtMax (a.facets.get "min") (a.facets.get "max")) a.line .minMaxOrder ⨾
  chk (truthy (a.facets.get "positive") ∧ ¬ a.type.numeric) a.line .positiveNumeric ⨾
  chk (truthy (a.facets.get "required") ∧ a.default.isSome) a.line .requiredDefault ⨾
  (match a.default with
   | none => Except.ok ()
   | some d => validateDefault s a d)

/-! ## `_validate` -/

/-- `for bundle in con.bundles: for name in bundle: if name not in names: err(con.line, ...)` -/
def checkConNames (names : List String) (con : Constraint N) : Except (Err N) Unit :=
  chk (con.bundles.any (fun b => b.any (fun n => n ∉ names))) con.line .conUnknown

/-- The second `for group in schema.groups.values()` loop body. -/
def validateGroup (g : Group N) : Except (Err N) Unit :=
  forAll (checkConNames ((memberAttrs g.members).map (·.name))) (memberCons g.members) ⨾
  if g.variant then
    forAll (fun m : Member N => match m with
      | .use u => .error (u.line, .variantUse)
      | .attr a => chk (truthy (a.facets.get "required")) a.line .variantRequired
      | _ => .ok ()) g.members
  else .ok ()

/-- `if isinstance(member, Use) and member.group not in schema.groups: err` over one container. -/
def checkUses (s : Schema N) (ms : List (Member N)) : Except (Err N) Unit :=
  forAll (fun u : Use N => chk (u.group ∉ groupNames s) u.line .danglingUse) (memberUses ms)

/-- Children loop: dangling targets and duplicates (`seen` = names already met). -/
def checkChildren (s : Schema N) (seen : List String) : List (Child N) → Except (Err N) Unit
  | [] => .ok ()
  | c :: cs =>
    chk (c.name ∉ elementNames s) c.line .danglingChild ⨾
    chk (c.name ∈ seen) c.line .dupChild ⨾
    checkChildren s (c.name :: seen) cs

/-- `seen_attrs.get(name)`: the line stored last for `name` (the dict is updated before the next
    iteration only when no error was raised, so each name is stored once). -/
def seenLine (seen : List (String × Line N)) (n : String) : Option (Line N) :=
  (seen.find? (fun e => e.1 = n)).map (·.2)

/-- Expanded-attribute loop: duplicates across direct and use-expanded members. -/
def checkDupAttrs (eline : Line N) (seen : List (String × Line N)) : List (Attr N) → Except (Err N) Unit
  | [] => .ok ()
  | a :: as =>
    match seenLine seen a.name with
    | some l => .error (if a.line.val > l.val then a.line else eline, .dupAttr)
    | none => checkDupAttrs eline ((a.name, a.line) :: seen) as

def checkElementCon (names : List String) (con : Constraint N) : Except (Err N) Unit :=
  checkConNames names con ⨾
  chk (con.kind = .requires ∧ (con.bundles.length ≠ 2 ∨ con.bundles.any (fun b => b.length ≠ 1)))
    con.line .requiresTwo

def danglingAlias (s : Schema N) : Option FacetVal → Bool
  | some (.str a) => a ∉ elementNames s
  | _ => false

/-- Body of the `for element in schema.elements.values()` loop. -/
def validateElement (s : Schema N) (e : Element N) : Except (Err N) Unit :=
  chk (isBadNameFacet (e.facets.get "xml")) e.line .facetName ⨾
  chk (isBadNameFacet (e.facets.get "alias")) e.line .facetName ⨾
  chk (danglingAlias s (e.facets.get "alias")) e.line .danglingAlias ⨾
  checkChildren s [] (memberChildren e.members) ⨾
  checkDupAttrs e.line [] (expandedAttrs s e.members) ⨾
  forAll (checkElementCon ((expandedAttrs s e.members).map (·.name))) (memberCons e.members)

/-- Member lists of `containers = groups + elements`. -/
def containers (s : Schema N) : List (List (Member N)) :=
  s.groups.map (·.members) ++ s.elements.map (·.members)

/-- `namespaces`: targets of the `id<ns>` attributes declared directly in any container. -/
def namespaces (s : Schema N) : List (Option String) :=
  ((containers s).flatMap memberAttrs).filterMap (fun a => if a.type = .id then some a.target else none)

/-- `_validate(schema)` -/
def validate (s : Schema N) : Except (Err N) Unit :=
  forAll (fun g : Group N => checkCycle s g.name [] g.line) s.groups ⨾
  forAll validateGroup s.groups ⨾
  forAll (checkUses s) (containers s) ⨾
  forAll (validateElement s) s.elements ⨾
  forAll (fun ms => forAll (validateAttr s (namespaces s)) (memberAttrs ms)) (containers s)

/-- `parse_string(text)`: the schema, or the (line, class) of the `SchemaError`. -/
def parseString (text : List Char) : Except (Err (nlines text)) (Schema (nlines text)) :=
  match parseText text with
  | .error e => .error e
  | .ok s =>
    match validate s with
    | .error e => .error e
    | .ok () => .ok s

end MjProof.Schema
