import MjProof.Model.State
/-
Model of the state API of MJX, `mjx/mujoco/mjx/_src/io.py`: `state_size`, `get_state`, `set_state`
(the loop templates that `translate/c44_tables.py` matches statement for statement against the
source on every run).

The functions run over the same kind of table as the C model (`MjProof/Model/State.lean`): the
concrete one is regenerated from `_STATE_MAP`, `_state_elem_size` and the shapes `make_data` allocates
(`MjProof/Gen/MjxStateTable.lean`).

What differs from the C functions and is modelled as it is written in Python:
  * `spec_int = int(spec)` is an unbounded integer; `element & spec_int` tests bit `i` of its two's
    complement, so a NEGATIVE spec selects the elements of its low `mjNSTATE` bits (the C API raises
    `mju_error` for a negative signature); only `get_state` / `set_state` guard
    `spec_int >= 1 << mjNSTATE` (ValueError), `state_size` has no guard at all;
  * `get_state` appends `getattr(d, name).flatten()`: the WHOLE array, whatever `_state_elem_size`
    says; `set_state` first compares `state.size` with `state_size(m, spec)` (ValueError), then
    slices `state[offset : offset+size]` (Python slices clip, they never raise), reshapes the slice
    to the shape of the array it replaces (raises when the number of entries differs; for the scalar
    `time` it takes `value[0]`, which raises only on an empty slice) and REPLACES the whole array
    (`d.replace(**updates)`), where the C code overwrites a prefix;
  * the element converted with `astype` (`mjSTATE_EQ_ACTIVE`) is the table's `special` element:
    `astype(bool)` on set is `cast`; `astype(float32)` on get embeds a bool as 0/1 and is the identity
    on the values a bool array holds.

Core Lean only.
-/
namespace MjProof.MjxState
open MjProof.State

/-- the Python exceptions the three functions can raise -/
inductive PyErr where
  | specRange                            -- ValueError('Invalid state spec …')
  | badElem (bit : Nat)                  -- `mujoco.mjtState(1<<i)` is no enumerator / not in `_STATE_MAP`
  | sizeMismatch (got expected : Nat)    -- ValueError('state has size … but expected …')
  | shape                                -- `reshape(orig_shape)` / `value[0]` fails
  | cModelOnly (e : Err)                 -- image of a C-model outcome that no Python path produces
  deriving DecidableEq, Repr

/-- how outcomes of the C model are read on the Python side (used to state "MJX = C") -/
def liftErr : Err → PyErr
  | .badElem i => .badElem i
  | .sigRange => .specRange
  | e => .cModelOnly e

def liftE {β : Type} : Except Err β → Except PyErr β
  | .ok v => .ok v
  | .error e => .error (liftErr e)

/-- the elements `element & spec_int` selects: the low `n` bits of the two's complement of `spec` -/
def specNat (n : Nat) (spec : Int) : Nat := (spec % 2 ^ n).toNat

section
variable {σ φ α : Type} [DecidableEq φ] (t : Table σ φ) (sz : σ)

/-- loop of `state_size`: the same accumulation as `mj_stateSize` (`_state_elem_size` raises for an
    enumerator outside `_STATE_MAP`) -/
def sizeLoop (sig : Nat) (is : List Nat) : Except PyErr Nat := liftE (State.sizeLoop t sz sig is)

/-- `state_size(m, spec)`: no range guard -/
def stateSize (spec : Int) : Except PyErr Nat :=
  sizeLoop t sz (specNat t.nstate spec) (List.range t.nstate)

/-- loop of `get_state`: whole arrays, concatenated front to back -/
def getLoop (d : Data φ α) (sig : Nat) : List Nat → Except PyErr (List α)
  | [] => .ok []
  | i :: is =>
    if sig.testBit i then
      match t.lookup i with
      | none => .error (.badElem i)
      | some e => do
        let r ← getLoop d sig is
        pure (d e.field ++ r)
    else getLoop d sig is

def getState (d : Data φ α) (spec : Int) : Except PyErr (List α) :=
  if spec ≥ 2 ^ t.nstate then .error .specRange
  else getLoop t d (specNat t.nstate spec) (List.range t.nstate)

/-- loop of `set_state`; `st` is `state[offset:]`; `scalar f` = the field is the one the source
    special-cases with `value[0]` (`time`) -/
def setLoop (scalar : φ → Bool) (cast : α → α) (sig : Nat) :
    List α → Data φ α → List Nat → Except PyErr (Data φ α)
  | _, d, [] => .ok d
  | st, d, i :: is =>
    if sig.testBit i then
      match t.lookup i with
      | none => .error (.badElem i)
      | some e =>
        let n := e.size sz
        let v := st.take n
        let v' := if e.special.isSome then v.map cast else v
        if scalar e.field then
          match v' with
          | [] => .error .shape
          | x :: _ => setLoop scalar cast sig (st.drop n) (upd d e.field [x]) is
        else if v.length ≠ (d e.field).length then .error .shape
        else setLoop scalar cast sig (st.drop n) (upd d e.field v') is
    else setLoop scalar cast sig st d is

def setState (scalar : φ → Bool) (cast : α → α) (st : List α) (spec : Int) (d : Data φ α) :
    Except PyErr (Data φ α) :=
  if spec ≥ 2 ^ t.nstate then .error .specRange
  else do
    let expected ← stateSize t sz spec
    if st.length ≠ expected then .error (.sizeMismatch st.length expected)
    else setLoop t sz scalar cast (specNat t.nstate spec) st d (List.range t.nstate)

end

/-! ### agreement of two symbolic tables (what `mjx_table_eq_c_table` decides) -/

/-- same enumerator, bit and field; size expressions with the same normal form (coefficient and
    multiset of model sizes); converted (`special`) on both sides or on neither, moving the same
    number of entries -/
def agreeElem {ν φ : Type} [DecidableEq ν] [DecidableEq φ] (a b : SymElem ν φ) : Bool :=
  a.name == b.name && a.bit == b.bit && decide (a.field = b.field) && a.size.equiv b.size
  && (match a.special, b.special with
      | none, none => true
      | some x, some y => x.equiv y
      | _, _ => false)

/-- element lists agree pairwise IN ORDER -/
def agreeElems {ν φ : Type} [DecidableEq ν] [DecidableEq φ] : List (SymElem ν φ) → List (SymElem ν φ) → Bool
  | [], [] => true
  | a :: as, b :: bs => agreeElem a b && agreeElems as bs
  | _, _ => false

/-- tables agree: `nstate`, the elements in order, and on the listed fields the allocated dimension
    (normal form) and the storage type -/
def agreeTables {ν φ : Type} [DecidableEq ν] [DecidableEq φ] (fields : List φ) (a b : SymTable ν φ) : Bool :=
  a.nstate == b.nstate && agreeElems a.elems b.elems
  && fields.all (fun f => (a.alloc f).equiv (b.alloc f) && (a.isBool f == b.isBool f))

end MjProof.MjxState
