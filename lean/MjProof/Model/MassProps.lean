import MjProof.Num
import MjProof.Gen.UserUtil
import MjProof.Model.Orient
/-
Hand model of the mass-property code of the model compiler (C35):

* `geomVolume`, `geomInertia`  — `mjCGeom::GetVolume`, `mjCGeom::SetInertia` (user_objects.cc) per geom type and
                                 inertia type (volume / shell), with the operation order of the C expressions.
                                 The ellipsoid *shell area* uses `std::pow` (Thomsen approximation), which is not
                                 an `MjNum` operation: `geomVolume` returns `none` for it (sampled by the oracle only).
* `geomMassInertia`            — the mass branch of `mjCGeom::Compile` (`mass` given / `density` given).
* `mulmat`, `transposemat`, `eig3`, `fullInertia` — `mjuu_eig3` (Jacobi iteration on a quaternion, at most 500
                                 sweeps, bubble sort of the eigenvalues with 90° rotations) and `mjuu_fullInertia`.
* `inertiaFromGeom`            — `mjCBody::InertiaFromGeom`: selection `mass_ > mjEPS`, single-geom copy,
                                 centre of mass, parallel-axis accumulation with the *generated* kernels
                                 `mjuu_globalinertia` / `mjuu_offcenter`, principal axes by `fullInertia`.
* `accumulateInertia`          — `mjCBody::AccumulateInertia` (fusing a static child body).
* `bodyFinish`                 — the `boundmass` / `boundinertia` / triangle-inequality step of `mjCBody::Compile`.
* `bodyCompile`                — the inertial part of `mjCBody::Compile`: explicit inertial clause (`mass`, `ipos`,
                                 `iquat`, diagonal `inertia` or `fullinertia`), `inertiafromgeom` FALSE/TRUE/AUTO,
                                 `inertiagrouprange`, then `bodyFinish` with the compiler's bounds / `balanceinertia`.
* `setTotalmass`               — `mj_setTotalmass` (compiler option `settotalmass`).
* `geomCompileState`, `compileGeoms`, `bodyCompileState` — the same code with the compile state (`mjCGeom::mass_`,
                                 `mjCGeom::inertia`) that survives from one compile of an `mjSpec` to the next.

Mesh volume / inertia integrals (user_mesh.cc) are NOT modelled.
Generic over `MjNum α` (run on `Float` by lean/Drivers/C35.lean, reasoned about on `ℝ`).  Core Lean only.
-/
namespace MjProof.MassProps
open MjProof MjProof.Gen MjProof.Orient

variable {α : Type} [MjNum α]

/-- geom types that carry analytic mass properties (`mjGEOM_HFIELD` shares the box formulas) -/
inductive GType where
  | sphere | capsule | cylinder | ellipsoid | box
  deriving DecidableEq, Repr

/-- `mjtGeom` code → type; other codes (plane, mesh, sdf, …) are outside the model -/
def GType.ofCode (c : Int) : Option GType :=
  if c = 2 then some .sphere else if c = 3 then some .capsule else if c = 4 then some .ellipsoid
  else if c = 5 then some .cylinder else if c = 6 then some .box else if c = 1 then some .box else none

/-- `mjCGeom::GetVolume()`; `shell = (typeinertia == mjINERTIA_SHELL)`; `s = size[0..2]` -/
def geomVolume (pi : α) (t : GType) (shell : Bool) (s : V3 α) : Option α :=
  match t, shell with
  | .sphere, false => some (L 4 * pi * s.x * s.x * s.x / L 3)
  | .sphere, true => some (L 4 * pi * s.x * s.x)
  | .capsule, false =>
    let height := L 2 * s.y
    let radius := s.x
    some (pi * (radius * radius * height + L 4 * radius * radius * radius / L 3))
  | .capsule, true =>
    let height := L 2 * s.y
    let radius := s.x
    some (L 4 * pi * radius * radius + L 2 * pi * radius * height)
  | .cylinder, false =>
    let height := L 2 * s.y
    let radius := s.x
    some (pi * radius * radius * height)
  | .cylinder, true =>
    let height := L 2 * s.y
    let radius := s.x
    some (L 2 * pi * radius * radius + L 2 * pi * radius * height)
  | .ellipsoid, false => some (L 4 * pi * s.x * s.y * s.z / L 3)
  | .ellipsoid, true => none
  | .box, false => some (s.x * s.y * s.z * L 8)
  | .box, true => some (L 8 * (s.x * s.y + s.y * s.z + s.z * s.x))

/-- `mjCGeom::SetInertia()` with `mass_ = m` -/
def geomInertia (pi : α) (t : GType) (shell : Bool) (m : α) (s : V3 α) : V3 α :=
  match t, shell with
  | .sphere, false => let i := L 2 * m * s.x * s.x / L 5; ⟨i, i, i⟩
  | .sphere, true => let i := L 2 * m * s.x * s.x / L 3; ⟨i, i, i⟩
  | .capsule, false =>
    let height := L 2 * s.y
    let radius := s.x
    let sphere_mass := m * L 4 * radius / (L 4 * radius + L 3 * height)
    let cylinder_mass := m - sphere_mass
    let i01 := cylinder_mass * (L 3 * radius * radius + height * height) / L 12
    let i2 := cylinder_mass * radius * radius / L 2
    let sphere_inertia := L 2 * sphere_mass * radius * radius / L 5
    let add := sphere_inertia + sphere_mass * height * (L 3 * radius + L 2 * height) / L 8
    ⟨i01 + add, i01 + add, i2 + sphere_inertia⟩
  | .capsule, true =>
    let halfheight := s.y
    let height := L 2 * s.y
    let radius := s.x
    let Asphere := L 4 * pi * radius * radius
    let Acylinder := L 2 * pi * radius * height
    let Atotal := Asphere + Acylinder
    let sphere_mass := m * Asphere / Atotal
    let cylinder_mass := m - sphere_mass
    let i01 := cylinder_mass * (L 6 * radius * radius + height * height) / L 12
    let i2 := cylinder_mass * radius * radius
    let sphere_inertia := L 2 * sphere_mass * radius * radius / L 3
    let hs_com := radius / L 2
    let hs_pos := halfheight + hs_com
    let add := sphere_inertia + sphere_mass * (hs_pos * hs_pos - hs_com * hs_com)
    ⟨i01 + add, i01 + add, i2 + sphere_inertia⟩
  | .cylinder, false =>
    let halfheight := s.y
    let height := L 2 * halfheight
    let radius := s.x
    let i01 := m * (L 3 * radius * radius + height * height) / L 12
    ⟨i01, i01, m * radius * radius / L 2⟩
  | .cylinder, true =>
    let halfheight := s.y
    let height := L 2 * halfheight
    let radius := s.x
    let Adisk := pi * radius * radius
    let Acylinder := L 2 * pi * radius * height
    let Atotal := L 2 * Adisk + Acylinder
    let mass_disk := m * Adisk / Atotal
    let mass_cylinder := m - L 2 * mass_disk
    let i01 := mass_cylinder * (L 6 * radius * radius + height * height) / L 12
    let i2 := mass_cylinder * radius * radius
    let inertia_disk_x := mass_disk * radius * radius / L 4 + mass_disk * halfheight * halfheight
    let inertia_disk_z := mass_disk * radius * radius / L 2
    ⟨i01 + L 2 * inertia_disk_x, i01 + L 2 * inertia_disk_x, i2 + L 2 * inertia_disk_z⟩
  | .ellipsoid, false =>
    let s00 := s.x * s.x
    let s11 := s.y * s.y
    let s22 := s.z * s.z
    ⟨m * (s11 + s22) / L 5, m * (s00 + s22) / L 5, m * (s00 + s11) / L 5⟩
  | .ellipsoid, true =>
    let s00 := s.x * s.x
    let s11 := s.y * s.y
    let s22 := s.z * s.z
    let eps : α := MjNum.ofSci 1 true 6
    let Va := L 4 * pi * s.x * s.y * s.z / L 3
    let ae := s.x + eps
    let be := s.y + eps
    let ce := s.z + eps
    let Vb := L 4 * pi * ae * be * ce / L 3
    let density := m / (Vb - Va)
    let mass_a := Va * density
    let ia0 := mass_a * (s11 + s22) / L 5
    let ia1 := mass_a * (s00 + s22) / L 5
    let ia2 := mass_a * (s00 + s11) / L 5
    let mass_b := Vb * density
    let ib0 := mass_b * (be * be + ce * ce) / L 5
    let ib1 := mass_b * (ae * ae + ce * ce) / L 5
    let ib2 := mass_b * (ae * ae + be * be) / L 5
    ⟨ib0 - ia0, ib1 - ia1, ib2 - ia2⟩
  | .box, false =>
    let s00 := s.x * s.x
    let s11 := s.y * s.y
    let s22 := s.z * s.z
    ⟨m * (s11 + s22) / L 3, m * (s00 + s22) / L 3, m * (s00 + s11) / L 3⟩
  | .box, true =>
    let s00 := s.x * s.x
    let s11 := s.y * s.y
    let s22 := s.z * s.z
    let lx := L 2 * s.x
    let ly := L 2 * s.y
    let lz := L 2 * s.z
    let A0 := lx * ly
    let A1 := ly * lz
    let A2 := lz * lx
    let Atotal := L 2 * (A0 + A1 + A2)
    let mass0 := m * A0 / Atotal
    let Ix0 := mass0 * ly * ly / L 12
    let Iy0 := mass0 * lx * lx / L 12
    let Iz0 := mass0 * (lx * lx + ly * ly) / L 12
    let mass1 := m * A1 / Atotal
    let Ix1 := mass1 * (ly * ly + lz * lz) / L 12
    let Iy1 := mass1 * lz * lz / L 12
    let Iz1 := mass1 * ly * ly / L 12
    let mass2 := m * A2 / Atotal
    let Ix2 := mass2 * lz * lz / L 12
    let Iy2 := mass2 * (lx * lx + lz * lz) / L 12
    let Iz2 := mass2 * lx * lx / L 12
    ⟨L 2 * (mass0 * s22 + mass2 * s11 + Ix0 + Ix1 + Ix2),
     L 2 * (mass0 * s22 + mass1 * s00 + Iy0 + Iy1 + Iy2),
     L 2 * (mass1 * s00 + mass2 * s11 + Iz0 + Iz1 + Iz2)⟩

/-- the mass/inertia branch of `mjCGeom::Compile` for a geom whose inertia is inferred:
    `mass = some m` is `mjuu_defined(mass)`, otherwise `density` is used.  Returns `(mass_, inertia)`;
    `none` when the volume is outside the model (ellipsoid shell).
    (`mass_`/`inertia` start at 0 in the C object; a defined non-zero mass with volume `≤ mjEPS` leaves them 0.) -/
def geomMassInertia (pi : α) (t : GType) (shell : Bool) (mass : Option α) (density : α) (s : V3 α) : Option (α × V3 α) :=
  match geomVolume pi t shell s with
  | none => none
  | some vol =>
    match mass with
    | some m =>
      if MjNum.beq m (L 0) then some (L 0, v3zero)
      else if mjEPS < vol then some (m, geomInertia pi t shell m s)
      else some (L 0, v3zero)
    | none =>
      if MjNum.beq density (L 0) then some (L 0, v3zero)
      else
        let m := density * vol
        some (m, geomInertia pi t shell m s)

/-! ### `mjuu_eig3` / `mjuu_fullInertia` -/

/-- `kEigEPS = 1E-12` -/
def kEigEPS : α := MjNum.ofSci 1 true 12

/-- the pivot chosen by one Jacobi sweep: `(D[3*rk+ck], D[4*rk], D[4*ck], rotk)` -/
def eigPivot (D : M9 α) : α × α × α × Nat :=
  if MjNum.abs D.m2 < MjNum.abs D.m1 ∧ MjNum.abs D.m5 < MjNum.abs D.m1 then (D.m1, D.m0, D.m4, 2)
  else if MjNum.abs D.m5 < MjNum.abs D.m2 then (D.m2, D.m0, D.m8, 1)
  else (D.m5, D.m4, D.m8, 0)

/-- body of the Jacobi loop of `mjuu_eig3`: `(quat, eigval)` after the assignment of `eigval`, and the next
    quaternion, or `none` for the next quaternion when the loop breaks -/
def eigSweep (mat : M9 α) (quat : Q α) : V3 α × Option (Q α) :=
  let eigvec := quat2mat quat
  let tmp2 := transposemat eigvec
  let tmp := mulmat tmp2 mat
  let D := mulmat tmp eigvec
  let eigval : V3 α := ⟨D.m0, D.m4, D.m8⟩
  let (drc, drr, dcc, rotk) := eigPivot D
  if MjNum.abs drc < kEigEPS then (eigval, none) else
  let tau := (dcc - drr) / (L 2 * drc)
  let t : α := if L 0 ≤ tau then L 1 / (tau + MjNum.sqrt (L 1 + tau * tau))
               else L (-1) / (-tau + MjNum.sqrt (L 1 + tau * tau))
  let c := L 1 / MjNum.sqrt (L 1 + t * t)
  if L 1 - kEigEPS < c then (eigval, none) else
  let h : α := MjNum.ofSci 5 true 1
  let r0 : α := if L 0 ≤ tau then -(MjNum.sqrt (h - h * c)) else MjNum.sqrt (h - h * c)
  let r : α := if rotk = 1 then -r0 else r0
  let w := MjNum.sqrt (L 1 - r * r)
  let tq : Q α := if rotk = 0 then ⟨w, r, L 0, L 0⟩ else if rotk = 1 then ⟨w, L 0, r, L 0⟩ else ⟨w, L 0, L 0, r⟩
  let tq := (normvec4 tq).1
  let q := mulquat quat tq
  (eigval, some (normvec4 q).1)

/-- the `for (iter = 0; iter < 500; iter++)` loop: `fuel` sweeps left -/
def eigLoop (mat : M9 α) : Nat → Q α → V3 α → Q α × V3 α
  | 0, quat, eigval => (quat, eigval)
  | fuel + 1, quat, _ =>
    match eigSweep mat quat with
    | (ev, none) => (quat, ev)
    | (ev, some q) => eigLoop mat fuel q ev

/-- one step of the bubble sort (`j1` = lead index): swap and rotate the frame by 90° about the remaining axis -/
def eigSortStep (j1 : Nat) (st : Q α × V3 α) : Q α × V3 α :=
  let (quat, ev) := st
  let s : α := MjNum.ofSci 707106781186548 true 15
  if j1 = 0 then
    if ev.x + kEigEPS < ev.y then
      let q := mulquat quat ⟨s, L 0, L 0, s⟩
      ((normvec4 q).1, ⟨ev.y, ev.x, ev.z⟩)
    else st
  else
    if ev.y + kEigEPS < ev.z then
      let q := mulquat quat ⟨s, s, L 0, L 0⟩
      ((normvec4 q).1, ⟨ev.x, ev.z, ev.y⟩)
    else st

/-- `mjuu_eig3(eigval, eigvec, quat, mat)`: returns `(quat, eigval)` (`eigvec = quat2mat quat`) -/
def eig3 (mat : M9 α) : Q α × V3 α :=
  let st := eigLoop mat 500 qunit v3zero
  eigSortStep 0 (eigSortStep 1 (eigSortStep 0 st))

/-- `mjuu_fullInertia(quat, inertia, fullinertia)` for a defined `fullinertia[0]`:
    `.error` is the returned message -/
def fullInertia (f0 f1 f2 f3 f4 f5 : α) : Except String (Q α × V3 α) :=
  let (q, ev) := eig3 ⟨f0, f3, f4, f3, f1, f5, f4, f5, f2⟩
  if ev.z < mjEPS then .error "inertia must have positive eigenvalues" else .ok (q, ev)

/-! ### `mjCBody::InertiaFromGeom` -/

/-- what `InertiaFromGeom` reads of a compiled geom -/
structure GeomMI (α : Type) where
  mass : α
  pos : V3 α
  quat : Q α
  inertia : V3 α

/-- result: `mass, ipos, iquat, inertia` -/
structure BodyMI (α : Type) where
  mass : α
  ipos : V3 α
  iquat : Q α
  inertia : V3 α

/-- 6-vector `(xx, yy, zz, xy, xz, yz)` -/
structure Sym6 (α : Type) where
  xx : α
  yy : α
  zz : α
  xy : α
  xz : α
  yz : α

def sym6zero : Sym6 α := ⟨L 0, L 0, L 0, L 0, L 0, L 0⟩

/-- `mjuu_globalinertia` (generated kernel) -/
def globalinertia (loc : V3 α) (q : Q α) : Sym6 α :=
  let r := mjuu_globalinertia loc.x loc.y loc.z q.w q.x q.y q.z
  ⟨r.1, r.2.1, r.2.2.1, r.2.2.2.1, r.2.2.2.2.1, r.2.2.2.2.2⟩

/-- `mjuu_offcenter` (generated kernel) -/
def offcenter (m : α) (d : V3 α) : Sym6 α :=
  let r := mjuu_offcenter m d.x d.y d.z
  ⟨r.1, r.2.1, r.2.2.1, r.2.2.2.1, r.2.2.2.2.1, r.2.2.2.2.2⟩

/-- `toti[j] = toti[j] + inert0[j] + inert1[j]` -/
def sym6acc (t a b : Sym6 α) : Sym6 α :=
  ⟨t.xx + a.xx + b.xx, t.yy + a.yy + b.yy, t.zz + a.zz + b.zz, t.xy + a.xy + b.xy, t.xz + a.xz + b.xz, t.yz + a.yz + b.yz⟩

/-- `toti[k] += inertA[k] + inertB[k]` (the association used by `AccumulateInertia`) -/
def sym6acc' (t a b : Sym6 α) : Sym6 α :=
  ⟨t.xx + (a.xx + b.xx), t.yy + (a.yy + b.yy), t.zz + (a.zz + b.zz), t.xy + (a.xy + b.xy), t.xz + (a.xz + b.xz), t.yz + (a.yz + b.yz)⟩

/-- total mass and mass-weighted position sum, accumulated from 0 in list order -/
def massCom : List (GeomMI α) → α × V3 α → α × V3 α
  | [], acc => acc
  | g :: gs, (m, c) => massCom gs (m + g.mass, ⟨c.x + g.mass * g.pos.x, c.y + g.mass * g.pos.y, c.z + g.mass * g.pos.z⟩)

/-- the inertia accumulation about `ipos` -/
def totalInertia (ipos : V3 α) : List (GeomMI α) → Sym6 α → Sym6 α
  | [], t => t
  | g :: gs, t =>
    let dpos : V3 α := ⟨g.pos.x - ipos.x, g.pos.y - ipos.y, g.pos.z - ipos.z⟩
    totalInertia ipos gs (sym6acc t (globalinertia g.inertia g.quat) (offcenter g.mass dpos))

/-- `mjCBody::InertiaFromGeom` on the geoms already filtered by group: `.ok none` = nothing selected (the body
    keeps its values), `.error` = the thrown message -/
def inertiaFromGeom (geoms : List (GeomMI α)) : Except String (Option (BodyMI α)) :=
  let sel := geoms.filter (fun g => decide (mjEPS < g.mass))
  match sel with
  | [] => .ok none
  | [g] => .ok (some ⟨g.mass, g.pos, g.quat, g.inertia⟩)
  | _ =>
    let (mass, com) := massCom sel (L 0, v3zero)
    if mass < mjEPS then .error "body mass is too small, cannot compute center of mass" else
    let ipos : V3 α := ⟨com.x / mass, com.y / mass, com.z / mass⟩
    let t := totalInertia ipos sel sym6zero
    match fullInertia t.xx t.yy t.zz t.xy t.xz t.yz with
    | .error e => .error e
    | .ok (q, ev) => .ok (some ⟨mass, ipos, q, ev⟩)

/-- the mass / inertia bounds and the triangle-inequality step of `mjCBody::Compile` (`id > 0`);
    `std::max(a, b) = (a < b) ? b : a` -/
def bodyFinish (boundmass boundinertia : α) (balance : Bool) (b : BodyMI α) : Except String (BodyMI α) :=
  let mx := fun (a c : α) => if a < c then c else a
  let mass := mx b.mass boundmass
  let i0 := mx b.inertia.x boundinertia
  let i1 := mx b.inertia.y boundinertia
  let i2 := mx b.inertia.z boundinertia
  if mass < L 0 ∨ i0 < L 0 ∨ i1 < L 0 ∨ i2 < L 0 then .error "mass and inertia cannot be negative"
  else if i0 + i1 < i2 ∨ i0 + i2 < i1 ∨ i1 + i2 < i0 then
    if balance then
      let a := (i0 + i1 + i2) / L 3
      .ok ⟨mass, b.ipos, b.iquat, ⟨a, a, a⟩⟩
    else .error "inertia must satisfy A + B >= C; use 'balanceinertia' to fix"
  else .ok ⟨mass, b.ipos, b.iquat, ⟨i0, i1, i2⟩⟩

/-! ### `mjCBody::AccumulateInertia` (fusestatic) -/

/-- the inertia accumulation of `AccumulateInertia` about `ipos` -/
def totalInertia' (ipos : V3 α) : List (GeomMI α) → Sym6 α → Sym6 α
  | [], t => t
  | g :: gs, t =>
    let dpos : V3 α := ⟨g.pos.x - ipos.x, g.pos.y - ipos.y, g.pos.z - ipos.z⟩
    totalInertia' ipos gs (sym6acc' t (globalinertia g.inertia g.quat) (offcenter g.mass dpos))

/-- `mjMINVAL = 1E-15` -/
def mjMINVAL : α := MjNum.ofSci 1 true 15

/-- `this->AccumulateInertia(other)` where `other` is a child body with frame `(opos, oquat)` relative to `this`
    and inertial frame `o` relative to itself -/
def accumulateInertia (r : BodyMI α) (opos : V3 α) (oquat : Q α) (o : BodyMI α) : Except String (BodyMI α) :=
  let (oipos, oiquat) := frameaccum opos oquat o.ipos o.iquat
  let gs : List (GeomMI α) := [⟨r.mass, r.ipos, r.iquat, r.inertia⟩, ⟨o.mass, oipos, oiquat, o.inertia⟩]
  let (mass, com) := massCom gs (L 0, v3zero)
  if mass < mjMINVAL then .ok ⟨L 0, v3zero, qunit, v3zero⟩ else
  let ipos : V3 α := ⟨com.x / mass, com.y / mass, com.z / mass⟩
  let t := totalInertia' ipos gs sym6zero
  match fullInertia t.xx t.yy t.zz t.xy t.xz t.yz with
  | .error e => .error e
  | .ok (q, ev) => .ok ⟨mass, ipos, q, ev⟩

/-! ### the inertial part of `mjCBody::Compile` (explicit inertial clause, compiler options) -/

/-- the inertial fields of `mjsBody` as `mjCBody::Compile` reads them after `CopyFromSpec`:
    `ipos = none` is `!mjuu_defined(ipos[0])` (the `mjs_defaultBody` NaN), `fullinertia = none` is
    `!mjuu_defined(fullinertia[0])`; `fullinertia` is in the array order `(xx, yy, zz, xy, xz, yz)`;
    the inertial orientation alternative `ialt` is `mjORIENTATION_QUAT` -/
structure BodyInertial (α : Type) where
  mass : α
  ipos : Option (V3 α)
  iquat : Q α
  inertia : V3 α
  fullinertia : Option (Sym6 α)
  explicitinertial : Bool

/-- `mjtInertiaFromGeom`: `mjINERTIAFROMGEOM_FALSE`, `_TRUE`, `_AUTO` -/
inductive FromGeom where
  | no | yes | auto
  deriving DecidableEq, Repr

/-- the `mjsCompiler` fields read by the inertial part of `mjCBody::Compile` / `InertiaFromGeom` -/
structure MassOpts (α : Type) where
  boundmass : α
  boundinertia : α
  balance : Bool
  fromgeom : FromGeom
  glo : Int
  ghi : Int

/-- a geom of the body: its `group` and the `(mass_, pos, quat, inertia)` that `mjCGeom::Compile` gives it when
    `inferinertia` is true (a geom with `inferinertia = false` keeps `mass_ = 0` and is never selected) -/
structure GeomIn (α : Type) where
  group : Int
  mi : GeomMI α

/-- the inertial part of `mjCBody::Compile` for a body with `id > 0`, no frame and body frame `(bpos, bquat)`
    (`bquat` already normalised):  normalise `iquat`; reject `fullinertia` together with a non-zero diagonal
    inertia; `mjuu_fullInertia` when `fullinertia` is defined; geoms infer their inertia iff
    `!explicitinertial || inertiafromgeom == TRUE` and their group is in `inertiagrouprange`;
    `InertiaFromGeom` iff `inertiafromgeom == TRUE || (ipos undefined && inertiafromgeom == AUTO)`;
    an undefined `ipos` copies the body frame; then `bodyFinish`.  `.error` = a thrown `mjCError`. -/
def bodyCompile (o : MassOpts α) (bpos : V3 α) (bquat : Q α) (sp : BodyInertial α) (geoms : List (GeomIn α)) :
    Except String (BodyMI α) :=
  let iquat0 := (normvec4 sp.iquat).1
  let nz := fun (x : α) => !(MjNum.beq x (L 0))
  let r1 : Except String (Q α × V3 α) :=
    match sp.fullinertia with
    | none => .ok (iquat0, sp.inertia)
    | some f =>
      if nz sp.inertia.x || nz sp.inertia.y || nz sp.inertia.z then
        .error "fullinertia and diagonal inertia cannot both be specified"
      else fullInertia f.xx f.yy f.zz f.xy f.xz f.yz
  match r1 with
  | .error e => .error e
  | .ok (iquat, inertia) =>
    let infer := !sp.explicitinertial || decide (o.fromgeom = .yes)
    let sel : List (GeomMI α) :=
      if infer then (geoms.filter (fun g => decide (o.glo ≤ g.group ∧ g.group ≤ o.ghi))).map (·.mi) else []
    let call := decide (o.fromgeom = .yes) || (sp.ipos.isNone && decide (o.fromgeom = .auto))
    let r2 : Except String (Option (BodyMI α)) := if call then inertiaFromGeom sel else .ok none
    match r2 with
    | .error e => .error e
    | .ok (some b) => bodyFinish o.boundmass o.boundinertia o.balance b
    | .ok none =>
      match sp.ipos with
      | some p => bodyFinish o.boundmass o.boundinertia o.balance ⟨sp.mass, p, iquat, inertia⟩
      | none => bodyFinish o.boundmass o.boundinertia o.balance ⟨sp.mass, bpos, bquat, inertia⟩

/-- `mj_setTotalmass(m, newmass)` on the list of bodies `1 … nbody-1` (`mj_getTotalmass` sums from 0 in order;
    `mju_max(a, b) = a >= b ? a : b`) -/
def setTotalmass (newmass : α) (bs : List (BodyMI α)) : List (BodyMI α) :=
  let mx := fun (a c : α) => if c ≤ a then a else c
  let total := bs.foldl (fun s b => s + b.mass) (L 0)
  let scale := mx mjMINVAL (newmass / mx mjMINVAL total)
  bs.map (fun b => ⟨b.mass * scale, b.ipos, b.iquat, ⟨b.inertia.x * scale, b.inertia.y * scale, b.inertia.z * scale⟩⟩)

/-- `if (compiler.settotalmass > 0) mj_setTotalmass(m, compiler.settotalmass)` at the end of `mjCModel::CopyTree…` -/
def applyTotalmass (settotalmass : α) (bs : List (BodyMI α)) : List (BodyMI α) :=
  if L 0 < settotalmass then setTotalmass settotalmass bs else bs

/-! ### compile state that survives between compiles of one `mjSpec` (edit, then compile again)

`mjCGeom::CopyFromSpec` resets the `mjsGeom` fields (size, pos, quat, mass, density, …) from the spec, and
`mjCBody::CopyFromSpec` resets every inertial field of the body, but the private members `mjCGeom::mass_` and
`mjCGeom::inertia` are written only by `mjCGeom::Compile` (constructor: 0).  They are the state carried from one
compile of a spec to the next. -/

/-- the compile state of a geom: `mass_`, `inertia` -/
structure GeomState (α : Type) where
  mass_ : α
  inertia : V3 α

/-- state after the constructor -/
def geomState0 : GeomState α := ⟨L 0, v3zero⟩

/-- the mass-relevant `mjsGeom` fields (`quat` after `mjuu_normvec`; `mass = none` is `!mjuu_defined(mass)`) -/
structure GeomDesc (α : Type) where
  group : Int
  t : GType
  shell : Bool
  mass : Option α
  density : α
  size : V3 α
  pos : V3 α
  quat : Q α

/-- the mass / inertia block of `mjCGeom::Compile` starting from the state `st` left by the previous compile:
    nothing is written when `inferinertia` is false; `mass == 0` and `density == 0` write `mass_` only; a defined
    non-zero mass with volume `≤ mjEPS` writes nothing.  `none`: volume outside the model (ellipsoid shell). -/
def geomCompileState (pi : α) (st : GeomState α) (infer : Bool) (d : GeomDesc α) : Option (GeomState α) :=
  if !infer then some st else
  match geomVolume pi d.t d.shell d.size with
  | none => none
  | some vol =>
    match d.mass with
    | some m =>
      if MjNum.beq m (L 0) then some ⟨L 0, st.inertia⟩
      else if mjEPS < vol then some ⟨m, geomInertia pi d.t d.shell m d.size⟩
      else some st
    | none =>
      if MjNum.beq d.density (L 0) then some ⟨L 0, st.inertia⟩
      else
        let m := d.density * vol
        some ⟨m, geomInertia pi d.t d.shell m d.size⟩

/-- what the selection loop of `InertiaFromGeom` takes from a compiled geom: group in range and `mass_ > mjEPS` -/
def geomSelect (o : MassOpts α) (d : GeomDesc α) (st : GeomState α) : Option (GeomMI α) :=
  if o.glo ≤ d.group ∧ d.group ≤ o.ghi ∧ mjEPS < st.mass_ then some ⟨st.mass_, d.pos, d.quat, st.inertia⟩ else none

/-- the geom loop of `mjCBody::Compile` followed by the selection loop of `InertiaFromGeom`:
    new states and selected geoms, in order -/
def compileGeoms (pi : α) (o : MassOpts α) (inferB : Bool) :
    List (GeomDesc α × GeomState α) → Option (List (GeomState α) × List (GeomMI α))
  | [] => some ([], [])
  | (d, st) :: rest =>
    match geomCompileState pi st (inferB && decide (o.glo ≤ d.group ∧ d.group ≤ o.ghi)) d, compileGeoms pi o inferB rest with
    | some st', some (sts, sel) =>
      some (st' :: sts, match geomSelect o d st' with | some g => g :: sel | none => sel)
    | _, _ => none

/-- `bodyCompile` on a spec whose geoms carry the states of a previous compile: the result and the new states.
    An error thrown before the geom loop (inertial clause) leaves the states untouched. -/
def bodyCompileState (pi : α) (o : MassOpts α) (bpos : V3 α) (bquat : Q α) (sp : BodyInertial α)
    (geoms : List (GeomDesc α × GeomState α)) : Option (Except String (BodyMI α) × List (GeomState α)) :=
  let iquat0 := (normvec4 sp.iquat).1
  let nz := fun (x : α) => !(MjNum.beq x (L 0))
  let r1 : Except String (Q α × V3 α) :=
    match sp.fullinertia with
    | none => .ok (iquat0, sp.inertia)
    | some f =>
      if nz sp.inertia.x || nz sp.inertia.y || nz sp.inertia.z then
        .error "fullinertia and diagonal inertia cannot both be specified"
      else fullInertia f.xx f.yy f.zz f.xy f.xz f.yz
  match r1 with
  | .error e => some (.error e, geoms.map (·.2))
  | .ok (iquat, inertia) =>
    let inferB := !sp.explicitinertial || decide (o.fromgeom = .yes)
    match compileGeoms pi o inferB geoms with
    | none => none
    | some (sts, sel) =>
      let call := decide (o.fromgeom = .yes) || (sp.ipos.isNone && decide (o.fromgeom = .auto))
      let r2 : Except String (Option (BodyMI α)) := if call then inertiaFromGeom sel else .ok none
      let res : Except String (BodyMI α) :=
        match r2 with
        | .error e => .error e
        | .ok (some b) => bodyFinish o.boundmass o.boundinertia o.balance b
        | .ok none =>
          match sp.ipos with
          | some p => bodyFinish o.boundmass o.boundinertia o.balance ⟨sp.mass, p, iquat, inertia⟩
          | none => bodyFinish o.boundmass o.boundinertia o.balance ⟨sp.mass, bpos, bquat, inertia⟩
      some (res, sts)

end MjProof.MassProps
