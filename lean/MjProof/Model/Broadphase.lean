import MjProof.Model.Sort
import MjProof.Gen.Kernels
/-
Model of the pair selection of `src/engine/engine_collision_driver.c` (C14).  Core Lean only.

* `mjSAP`      — `mj_SAP` as coded: endpoints `[min0, max0, min1, max1, …]` with `(float)`-cast values,
                 sorted by the C22 model of `mjSORT` with `SAPcmp`, swept with the active list
                 (`activebuf`), pruned with the y/z tests, truncated at `maxpair`.
* `broadphase` — `mj_broadphase` for models without flexes and with sleeping disabled: the
                 "always-colliding" init loop, the collidable list `bfid`, SAP, `filterBodyPair`,
                 `add_pair` (geom-wise OR of the bitmasks, buffer-full error), `bfsort`.
* `collide`    — the bodyflex-pair loop of `mj_collision`: signature de-duplication, merge of the explicit
                 `pair` elements by signature, `canCollide2`, `exclude` scan, single-geom / mid-phase /
                 all-to-all dispatch, `filterCollisionPair`, `pushGeomGeom` (type-ordered swap).
* `contactCompare` — `contactcompare` for geom:geom contacts.

The scalar decision functions `filterBitmask` and `filterBodyPair` are *not* re-modelled: the model calls
the definitions that `translate/c2lean.py` regenerates from the C source on every run
(`MjProof.Gen.filterBitmask`, `MjProof.Gen.filterBodyPair`).

Not modelled (inputs of the model, produced by the real code in the correspondence): `makeAAMM` (the
boxes are an input), `mj_filterSphere` (`near`, `nearPair` are inputs), the mjCOLLISIONFUNC table (`func`),
the BVH traversal `mj_collideTree` (a body pair that goes to the mid-phase is emitted as an `Item.mid` group
holding the all-to-all candidate list, which the real traversal may only prune).  Ids are `Fin`-typed, so no
read can be out of range; the packing `(bf1 << 16) + bf2` is kept as the number `sig`, its unpacking is
the identity on the structured pair (exact for nbody ≤ 65536).
-/
namespace MjProof.Broadphase
open MjProof.Sort

/-! ### mj_SAP -/

/-- the y/z extents of one AAMM -/
structure YZ (β : Type) where
  ylo : β
  yhi : β
  zlo : β
  zhi : β

/-- one AAMM, with the id the C code stores in `id_ismax` and the `(float)`-cast x extent -/
structure Box (ι K β : Type) where
  id : ι
  xlo : K
  xhi : K
  yz : YZ β

/-- one entry of `sortbuf` / `activebuf` (`isMax` is bit 16 of `id_ismax`; the y/z data the C code reads
    through the id travels with the entry, so there is no array read) -/
structure EP (ι K β : Type) where
  val : K
  id : ι
  isMax : Bool
  yz : YZ β

variable {ι K β : Type}

/-- `sortbuf` before sorting: `[min0, max0, min1, max1, …]`. -/
def endpoints : List (Box ι K β) → List (EP ι K β)
  | [] => []
  | b :: bs => ⟨b.xlo, b.id, false, b.yz⟩ :: ⟨b.xhi, b.id, true, b.yz⟩ :: endpoints bs

/-- the four `continue` tests on the secondary axes (`gt a b` is the C test `a > b`) -/
def yzPrune (gt : β → β → Bool) (a b : YZ β) : Bool :=
  gt a.ylo b.yhi || gt b.ylo a.yhi || gt a.zlo b.zhi || gt b.zlo a.zhi

/-- the removal loop: delete the first active entry with that id (`memmove`), nothing if absent -/
def removeFirst [DecidableEq ι] (i : ι) : List (EP ι K β) → List (EP ι K β)
  | [] => []
  | a :: as => if a.id = i then as else a :: removeFirst i as

/-- the sweep loop over the sorted endpoints; `act` is `activebuf[0..cnt)` -/
def sweep [DecidableEq ι] (gt : β → β → Bool) : List (EP ι K β) → List (EP ι K β) → List (ι × ι)
  | [], _ => []
  | e :: es, act =>
    if e.isMax then sweep gt es (removeFirst e.id act)
    else ((act.filter (fun a => !yzPrune gt a.yz e.yz)).map (fun a => (a.id, e.id))) ++
         sweep gt es (act ++ [e])

/-- all pairs the sweep produces (before the `maxpair` cut-off) -/
def sapPairs [DecidableEq ι] (cmp : K → K → Int) (gt : β → β → Bool) (boxes : List (Box ι K β)) : List (ι × ι) :=
  sweep gt (mjSort (fun a b => cmp a.val b.val) (endpoints boxes)) []

/-- `mj_SAP`: return value and the filled prefix of `pair`.  (`axis_x` is resolved by the caller:
    see `sapAxes`.) -/
def mjSAP [DecidableEq ι] (cmp : K → K → Int) (gt : β → β → Bool) (boxes : List (Box ι K β)) (maxpair : Int) :
    Int × List (ι × ι) :=
  if boxes.length ≥ 65536 ∨ maxpair < 1 then (-1, [])
  else
    let full := sapPairs cmp gt boxes
    if full.length ≥ maxpair.toNat then (maxpair, full.take maxpair.toNat) else (full.length, full)

/-- `axis_x` check and the choice of the secondary axes -/
def sapAxes (axis : Int) : Option (Nat × Nat × Nat) :=
  if axis = 0 then some (0, 1, 2) else if axis = 1 then some (1, 0, 2) else if axis = 2 then some (2, 0, 1) else none

/-- `SAPcmp` on `float` -/
def sapCmp32 (a b : Float32) : Int := if a < b then -1 else if a == b then 0 else 1

/-- `uintcmp` (signatures are kept as naturals) -/
def uintCmp (a b : Nat) : Int := if a < b then -1 else if a = b then 0 else 1

/-! ### the model data read by the driver -/

structure Body (nbody : Nat) where
  weld : Fin nbody       -- body_weldid
  parent : Fin nbody     -- body_parentid
  dofnum : Int           -- body_dofnum
  geomadr : Nat          -- body_geomadr  (−1 for a body without geoms is passed as 0 with geomnum 0)
  geomnum : Nat          -- body_geomnum
  contype : Int          -- body_contype
  conaffinity : Int      -- body_conaffinity
  hasBvh : Bool          -- body_bvhadr >= 0

structure Geom (nbody : Nat) where
  gtype : Nat
  contype : Int
  conaffinity : Int
  bodyid : Fin nbody     -- geom_bodyid (read by the spec and by the `cnt` loop of mj_broadphase only)

structure Pair (ngeom : Nat) where
  idx : Nat              -- position in the pair arrays (ipair)
  signature : Nat        -- pair_signature
  g1 : Fin ngeom         -- pair_geom1
  g2 : Fin ngeom         -- pair_geom2

structure Model where
  nbody : Nat
  ngeom : Nat
  body : Vector (Body nbody) nbody
  geom : Vector (Geom nbody) ngeom
  pairs : List (Pair ngeom)
  excludes : List Nat                    -- exclude_signature
  planeType : Nat                        -- mjGEOM_PLANE
  dsblConstraint : Bool
  dsblContact : Bool
  dsblFilterParent : Bool
  dsblMidphase : Bool
  func : Nat → Nat → Bool                -- mjCOLLISIONFUNC[t1][t2] != NULL
  near : Fin ngeom → Fin ngeom → Bool    -- !mj_filterSphere(g1, g2, geom margins + gaps)
  nearPair : Nat → Bool                  -- !mj_filterSphere(pair_geom1[k], pair_geom2[k], pair margin + gap)

variable (M : Model)

/-- `(bf1 << 16) + bf2` -/
def sig (b1 b2 : Nat) : Nat := b1 * 65536 + b2

/-- the geoms `body_geomadr[b] .. body_geomadr[b] + body_geomnum[b] - 1` in increasing order -/
def geomsOf (b : Fin M.nbody) : List (Fin M.ngeom) :=
  (List.finRange M.ngeom).filter (fun g => M.body[b].geomadr ≤ g.val ∧ g.val < M.body[b].geomadr + M.body[b].geomnum)

/-- `canCollide` (body case) -/
def canCollide (b : Fin M.nbody) : Bool :=
  M.body[b].contype ≠ 0 || M.body[b].conaffinity ≠ 0

/-- `canCollide2` (body case): the negated generated `filterBitmask` on the body masks -/
def canCollide2 (b1 b2 : Fin M.nbody) : Bool :=
  Gen.filterBitmask (α := Float) M.body[b1].contype M.body[b1].conaffinity M.body[b2].contype M.body[b2].conaffinity == 0

/-- `hasPlane` -/
def hasPlane (b : Fin M.nbody) : Bool :=
  (geomsOf M b).any (fun g => M.geom[g].gtype == M.planeType)

/-- the call `filterBodyPair(weld1, parent_weld1, 0, dofnum1, weld2, parent_weld2, 0, dofnum2, dsbl)` of
    `mj_broadphase` with sleeping disabled; `true` = discard -/
def filterBody (b1 b2 : Fin M.nbody) : Bool :=
  let w1 := M.body[b1].weld
  let w2 := M.body[b2].weld
  let pw1 := M.body[M.body[w1].parent].weld
  let pw2 := M.body[M.body[w2].parent].weld
  Gen.filterBodyPair (α := Float) (w1.val : Int) (pw1.val : Int) 0 M.body[w1].dofnum
    (w2.val : Int) (pw2.val : Int) 0 M.body[w2].dofnum (if M.dsblFilterParent then 1 else 0) ≠ 0

/-- the two OR loops of `add_pair` -/
def geomOr (b : Fin M.nbody) : Int × Int :=
  (geomsOf M b).foldl (fun acc g => (intLor acc.1 M.geom[g].contype, intLor acc.2 M.geom[g].conaffinity)) (0, 0)

/-- `add_pair`: error when the buffer is full, otherwise append the ordered pair if compatible -/
def addPair (maxpair : Nat) (b1 b2 : Fin M.nbody) (acc : List (Fin M.nbody × Fin M.nbody)) :
    Except String (List (Fin M.nbody × Fin M.nbody)) :=
  if acc.length < maxpair then
    let m1 := geomOr M b1
    let m2 := geomOr M b2
    if intLand m1.1 m2.2 = 0 ∧ intLand m2.1 m1.2 = 0 then .ok acc
    else if b1.val < b2.val then .ok (acc ++ [(b1, b2)]) else .ok (acc ++ [(b2, b1)])
  else .error "add_pair: broadphase buffer full"

/-- b1 is "world body with geoms, or dof-less body with plane" -/
def alwaysBody (b1 : Fin M.nbody) : Bool :=
  (b1.val = 0 ∧ M.body[b1].geomnum > 0) || (M.body[M.body[b1].weld].dofnum = 0 ∧ hasPlane M b1)

/-- the candidate (b1, b2) list of the init loop, in loop order, before `add_pair` -/
def initPairs : List (Fin M.nbody × Fin M.nbody) :=
  (List.finRange M.nbody).flatMap fun b1 =>
    if canCollide M b1 && alwaysBody M b1 then
      ((List.finRange M.nbody).filter (fun b2 => canCollide M b2 && !filterBody M b1 b2)).map (fun b2 => (b1, b2))
    else []

/-- fold `add_pair` over a candidate list -/
def addPairs (maxpair : Nat) : List (Fin M.nbody × Fin M.nbody) → List (Fin M.nbody × Fin M.nbody) →
    Except String (List (Fin M.nbody × Fin M.nbody))
  | [], acc => .ok acc
  | (b1, b2) :: rest, acc =>
    match addPair M maxpair b1 b2 acc with
    | .ok acc' => addPairs maxpair rest acc'
    | .error e => .error e

/-- `bfid`: collidable non-world bodies -/
def bfid : List (Fin M.nbody) :=
  (List.finRange M.nbody).filter (fun b => b.val ≠ 0 && canCollide M b)

/-- comparator of `bfsort` on structured pairs -/
def bfCmp (a b : Fin M.nbody × Fin M.nbody) : Int := uintCmp (sig a.1.val a.2.val) (sig b.1.val b.2.val)

/-- `mj_broadphase` (no flexes, sleeping disabled).  `boxes` are the AAMMs of `bfid` (same order, ids = the
    bodies), already `(float)`-cast on the sweep axis; `maxpair` is the caller's buffer size. -/
def broadphase [DecidableEq (Fin M.nbody)] (boxes : List (Box (Fin M.nbody) Float32 Float)) (maxpair : Nat) :
    Except String (List (Fin M.nbody × Fin M.nbody)) :=
  match addPairs M maxpair (initPairs M) [] with
  | .error e => .error e
  | .ok acc0 =>
    -- `cnt == 0`: no geom outside the world body
    if (List.finRange M.ngeom).all (fun g => M.geom[g].bodyid.val = 0) then .ok acc0
    else
      let ncollide := (bfid M).length
      let sapRes : Except String (List (Fin M.nbody × Fin M.nbody)) :=
        if ncollide > 1 then
          let r := mjSAP sapCmp32 (fun (a b : Float) => a > b) boxes (((ncollide * (ncollide - 1)) / 2 : Nat) : Int)
          if r.1 < 0 then .error "mj_broadphase: SAP failed" else .ok r.2
        else .ok []
      match sapRes with
      | .error e => .error e
      | .ok sp =>
        match addPairs M maxpair (sp.filter (fun p => !filterBody M p.1 p.2)) acc0 with
        | .error e => .error e
        | .ok acc => .ok (if acc.length > 1 then mjSort (bfCmp M) acc else acc)

/-! ### the pair loop of mj_collision -/

/-- a geom pair handed to the narrow phase: `(g1, g2, ipair)` as stored by `pushGeomGeom` -/
structure Cand (ngeom : Nat) where
  g1 : Fin ngeom
  g2 : Fin ngeom
  ipair : Option Nat
deriving DecidableEq

/-- output of the modelled loop: a candidate, or a body pair that went to `mj_collideTree` together with
    the all-to-all candidates the traversal may only prune -/
inductive Item (nbody ngeom : Nat) where
  | cand (c : Cand ngeom)
  | mid (b1 b2 : Fin nbody) (cs : List (Cand ngeom))

/-- `pushGeomGeom`: order by geom type -/
def push (g1 g2 : Fin M.ngeom) (ipair : Option Nat) : Cand M.ngeom :=
  if M.geom[g1].gtype > M.geom[g2].gtype then ⟨g2, g1, ipair⟩ else ⟨g1, g2, ipair⟩

/-- collision function defined for the two types (`mjMIN`/`mjMAX`) -/
def funcOK (g1 g2 : Fin M.ngeom) : Bool :=
  M.func (min M.geom[g1].gtype M.geom[g2].gtype) (max M.geom[g1].gtype M.geom[g2].gtype)

/-- `filterCollisionPair(m, d, g1, g2, -1, merged, startadr, pairadr)`; `chunk` is `[startadr, pairadr)`.
    `true` = keep.  (sleeping disabled, no `mjcb_contactfilter`) -/
def filterDyn (g1 g2 : Fin M.ngeom) (merged : Bool) (chunk : List (Pair M.ngeom)) : Bool :=
  if merged && chunk.any (fun p => (p.g1 = g1 ∧ p.g2 = g2) ∨ (p.g1 = g2 ∧ p.g2 = g1)) then false
  else if Gen.filterBitmask (α := Float) M.geom[g1].contype M.geom[g1].conaffinity
            M.geom[g2].contype M.geom[g2].conaffinity ≠ 0 then false
  else if !M.near g1 g2 then false
  else funcOK M g1 g2

/-- `filterCollisionPair(m, d, g1, g2, ipair, 0, 0, 0)` with `ipair >= 0` -/
def filterExplicit (p : Pair M.ngeom) : Bool :=
  if !M.nearPair p.idx then false else funcOK M p.g1 p.g2

def explicitCands (ps : List (Pair M.ngeom)) : List (Cand M.ngeom) :=
  (ps.filter (filterExplicit M)).map (fun p => push M p.g1 p.g2 (some p.idx))

/-- the double loop "body : body" of the all-to-all branch (also the single-geom fast path) -/
def allToAll (b1 b2 : Fin M.nbody) (merged : Bool) (chunk : List (Pair M.ngeom)) : List (Cand M.ngeom) :=
  (geomsOf M b1).flatMap fun g1 =>
    ((geomsOf M b2).filter (fun g2 => filterDyn M g1 g2 merged chunk)).map (fun g2 => push M g1 g2 none)

/-- exclude scan: advance while `exclude_signature[exadr] < signature`, then test equality -/
def exclScan (s : Nat) (l : List Nat) : Bool :=
  match l.dropWhile (fun x => x < s) with
  | x :: _ => x = s
  | [] => false

def excluded (s : Nat) : Bool := exclScan s M.excludes

/-- dispatch for one bodyflex pair (after bitmask and exclude tests) -/
def bodyPairItems (b1 b2 : Fin M.nbody) (merged : Bool) (chunk : List (Pair M.ngeom)) :
    List (Item M.nbody M.ngeom) :=
  if M.body[b1].geomnum = 1 ∧ M.body[b2].geomnum = 1 then (allToAll M b1 b2 merged chunk).map .cand
  else if !M.dsblMidphase && M.body[b1].hasBvh && M.body[b2].hasBvh then
    [.mid b1 b2 (allToAll M b1 b2 merged chunk)]
  else (allToAll M b1 b2 merged chunk).map .cand

/-- `merged` after the merge loop: the flag is overwritten in every iteration, so it is decided by the last
    pair of the window `[startadr, pairadr)` (0 when the window is empty) -/
def mergedOf {n : Nat} (chunk : List (Pair n)) (s : Nat) : Bool :=
  match chunk.getLast? with
  | some p => p.signature == s
  | none => false

/-- the loop over the sorted broad-phase pairs; `last` = `last_signature`, `ps` = pairs from `pairadr` on -/
def driverLoop : List (Fin M.nbody × Fin M.nbody) → Option Nat → List (Pair M.ngeom) → List (Item M.nbody M.ngeom)
  | [], _, ps => (explicitCands M ps).map .cand
  | (b1, b2) :: bfs, last, ps =>
    let s := sig b1.val b2.val
    if last = some s then driverLoop bfs last ps
    else
      let chunk := ps.takeWhile (fun p => p.signature ≤ s)
      let rest := ps.dropWhile (fun p => p.signature ≤ s)
      let merged := mergedOf chunk s
      let dyn := if !canCollide2 M b1 b2 then [] else if excluded M s then [] else bodyPairItems M b1 b2 merged chunk
      (explicitCands M chunk).map .cand ++ dyn ++ driverLoop bfs (some s) rest

/-- `mj_collision` up to the narrow phase: the sequence of candidates -/
def collide [DecidableEq (Fin M.nbody)] (boxes : List (Box (Fin M.nbody) Float32 Float)) :
    Except String (List (Item M.nbody M.ngeom)) :=
  if M.dsblConstraint || M.dsblContact || M.nbody < 2 then .ok []
  else
    match broadphase M boxes ((M.nbody * (M.nbody - 1)) / 2) with
    | .error e => .error e
    | .ok bfs => .ok (driverLoop M bfs none M.pairs)

/-! ### contact ordering -/

/-- `contactcompare` on geom:geom contacts `(geom[0], geom[1])`: undo the type-ordered swap, then
    lexicographic -/
def contactKey {n : Nat} (gtype : Fin n → Nat) (c : Fin n × Fin n) : Nat × Nat :=
  if gtype c.1 > gtype c.2 then (c.2.val, c.1.val) else (c.1.val, c.2.val)

def contactCompare {n : Nat} (gtype : Fin n → Nat) (c1 c2 : Fin n × Fin n) : Int :=
  let k1 := contactKey gtype c1
  let k2 := contactKey gtype c2
  if k1.1 < k2.1 then -1 else if k1.1 > k2.1 then 1
  else if k1.2 < k2.2 then -1 else if k1.2 > k2.2 then 1 else 0

end MjProof.Broadphase
