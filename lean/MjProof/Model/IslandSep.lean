/-
Executable model for C10 (islands): the PARTITION CHECKER that lean/Drivers/C10.lean runs on the real outputs of
`mj_island` (src/engine/engine_island.c: `dof_island`, `efc_island`) together with the dense inertia `M` (mj_fullM)
and the dense constraint Jacobian `J` of the same state.  Core Lean only.

`mj_fwdConstraint` solves every island `k` on its own with the sub-matrices `M[k,k]`, `J[rows of k, dofs of k]`
and leaves `qacc = qacc_smooth` on the dofs that belong to no island.  That procedure returns the minimiser of the
documented (monolithic) objective exactly when the partition makes the cost block separable, i.e. when

  * `M[i][j] ≠ 0` only for dofs `i`, `j` with the same label                                  (`badM  = []`)
  * `J[r][j] ≠ 0` only for a dof `j` whose label is the label of row `r`                        (`badJ  = []`)
  * every constraint row belongs to an island (label `≠ free`)                                  (`freeRows = []`)
  * rows whose costs are coupled (the rows of one elliptic cone: same group) share their label  (`badGrp = []`)

(Props/C10.lean `island_solve_is_global_minimiser`; the lists are empty iff the hypotheses of that theorem hold:
Lemmas/IslandSep.lean `checker_sound`).  The matrices enter only through their non-zero patterns.
-/
namespace MjProof.IslandSep

variable {n m : Nat} {L G : Type} [DecidableEq L] [DecidableEq G]

/-- pairs of dofs with different labels that the inertia couples -/
def badM (nzM : Fin n → Fin n → Bool) (labD : Fin n → L) : List (Fin n × Fin n) :=
  (List.finRange n).flatMap fun i =>
    ((List.finRange n).filter fun j => nzM i j && decide (labD i ≠ labD j)).map fun j => (i, j)

/-- (row, dof) with a non-zero Jacobian entry although the dof is not in the row's island -/
def badJ (nzJ : Fin m → Fin n → Bool) (labD : Fin n → L) (labR : Fin m → L) : List (Fin m × Fin n) :=
  (List.finRange m).flatMap fun r =>
    ((List.finRange n).filter fun j => nzJ r j && decide (labD j ≠ labR r)).map fun j => (r, j)

/-- rows that belong to no island (nobody solves for them) -/
def freeRows (free : L) (labR : Fin m → L) : List (Fin m) :=
  (List.finRange m).filter fun r => decide (labR r = free)

/-- pairs of rows of one coupling group (elliptic cone) with different labels -/
def badGrp (grp : Fin m → G) (labR : Fin m → L) : List (Fin m × Fin m) :=
  (List.finRange m).flatMap fun r =>
    ((List.finRange m).filter fun r' => decide (grp r = grp r') && decide (labR r ≠ labR r')).map fun r' => (r, r')

/-- the whole check -/
def partitionOk (nzM : Fin n → Fin n → Bool) (nzJ : Fin m → Fin n → Bool) (labD : Fin n → L) (labR : Fin m → L)
    (free : L) (grp : Fin m → G) : Bool :=
  (badM nzM labD).isEmpty && (badJ nzJ labD labR).isEmpty && (freeRows free labR).isEmpty &&
  (badGrp grp labR).isEmpty

end MjProof.IslandSep
