/-
C02 — model of a batch of tasks handed to the engine thread pool (`mju_dispatch`, src/engine/engine_thread.cc)
and of the index arithmetic of the three dispatch sites of the engine.  Core Lean only.

* Shared memory is a function `L → V`.  A task is a deterministic small-step program with a local state:
  `step k s m = some (s', m')` performs one (atomic) memory step, `none` means the task function returns.
  `k : K` is the *execution context* the pool hands to the task body and that the body must not let influence its
  results: the `thread_id` argument (which selects the per-thread CCD scratch, `epabuffer + thread_id*ccd_size`
  in `collisionTask`) and the addresses of the blocks that `mj_stackAlloc` reserves for it on the shared stack while
  `d->threadlock` is set (they depend on the order of the atomic fetch-adds on `d->pstack`).
* A pool thread `t` owns an ordered list of `(task id, context)` pairs: what it will claim from the shared counter
  `next_`.  The assignment of tasks to threads is an *input* of the model (it is decided by the races on `next_`;
  C03 proves that every id is claimed exactly once by a thread of the pool, which is the well-formedness assumed of
  an assignment here).  A schedule is a list of thread ids; every entry lets that thread perform one step: claim its
  next task, perform one memory step of its current task, or retire it.  Steps of different threads interleave
  arbitrarily, i.e. at the granularity of single task steps (`mju_dispatch` with no pool, or with `ntask < 2`, is the
  assignment that gives every task to thread 0).
* `chunkSize … taxelHi`: the integer arithmetic with which `mj_narrowphase` / `collisionTask` cut the pair list into
  chunks and `mj_computeSensorPos` (tactile case) cuts the taxels into per-thread batches, as the code computes them
  (C `int` arithmetic on non-negative values; `(x + 15) & ~15` is `(x + 15) / 16 * 16`).  These are tied to the
  source text by the `chunks` / `taxels` ops of the driver (differential against the extracted C statements).
-/
namespace MjProof.Dispatch

/-- shared memory -/
abbrev Mem (L V : Type) := L → V

/-- two memories agree on a set of locations -/
def AgreeOn {L V : Type} (P : L → Prop) (m m' : Mem L V) : Prop := ∀ l, P l → m l = m' l

/-- a task body: local state `S`, execution context `K` -/
structure Task (L V K S : Type) where
  init : S
  step : K → S → Mem L V → Option (S × Mem L V)

variable {L V K S : Type}

/-- the first `j` steps of a task run in isolation (`none`: the task has returned before) -/
def iter (T : Task L V K S) (k : K) : Nat → S × Mem L V → Option (S × Mem L V)
  | 0, x => some x
  | j + 1, x => (iter T k j x).bind (fun y => T.step k y.1 y.2)

/-- the task, started on memory `m` in context `k` and run without interference, returns with memory `mf` -/
def TaskRun (T : Task L V K S) (k : K) (m mf : Mem L V) : Prop :=
  ∃ j s, iter T k j (T.init, m) = some (s, mf) ∧ T.step k s mf = none

/-- a pool thread: the task it is executing (id, context, local state) and what it will claim next -/
structure Thread (K S : Type) where
  cur : Option (Nat × K × S)
  todo : List (Nat × K)

structure Config (L V K S : Type) where
  mem : Mem L V
  thr : Nat → Thread K S

def setThr (thr : Nat → Thread K S) (t : Nat) (x : Thread K S) : Nat → Thread K S :=
  fun u => if u = t then x else thr u

/-- one step of pool thread `t` (a thread with nothing left to do stutters) -/
def stepThread (tasks : Nat → Task L V K S) (c : Config L V K S) (t : Nat) : Config L V K S :=
  match (c.thr t).cur with
  | none =>
    match (c.thr t).todo with
    | [] => c
    | (i, k) :: rest => { c with thr := setThr c.thr t ⟨some (i, k, (tasks i).init), rest⟩ }
  | some (i, k, s) =>
    match (tasks i).step k s c.mem with
    | none => { c with thr := setThr c.thr t ⟨none, (c.thr t).todo⟩ }
    | some (s', m') => { mem := m', thr := setThr c.thr t ⟨some (i, k, s'), (c.thr t).todo⟩ }

/-- run a schedule -/
def exec (tasks : Nat → Task L V K S) (c : Config L V K S) (sched : List Nat) : Config L V K S :=
  sched.foldl (stepThread tasks) c

/-- the configuration in which `Dispatch` publishes the batch: nobody has claimed anything -/
def start (m0 : Mem L V) (asg : Nat → List (Nat × K)) : Config L V K S :=
  ⟨m0, fun t => ⟨none, asg t⟩⟩

/-- every thread has finished its list (`Dispatch` returns: `ndone_ == nthread` and the main loop has ended) -/
def Terminal (c : Config L V K S) : Prop := ∀ t, (c.thr t).cur = none ∧ (c.thr t).todo = []

/-- the pool-less run: tasks `0 … n-1` one after the other in context `k0` (`mju_dispatch` without a pool calls
    `func(m, d, arg, 0, i)` for `i = 0 … ntask-1`) -/
def SeqResult (tasks : Nat → Task L V K S) (n : Nat) (k0 : K) (m0 mf : Mem L V) : Prop :=
  ∃ ms : Nat → Mem L V, ms 0 = m0 ∧ (∀ i, i < n → TaskRun (tasks i) k0 (ms i) (ms (i + 1))) ∧ ms n = mf

/-! ### Footprints -/

/-- everything task `i` may touch in context `k`: its read set, its write set and the scratch of the context -/
def Acc (R W : Nat → L → Prop) (Scr : K → L → Prop) (i : Nat) (k : K) : L → Prop :=
  fun l => R i l ∨ W i l ∨ Scr k l

/-- the task bodies respect the footprints `R` (locations whose initial value may influence the task), `W`
    (locations it may write, apart from scratch) and `Scr` (scratch of a context):
    * `frame`: a step changes nothing outside `W i ∪ Scr k`;
    * `loc`: a step depends only on the local state and on `R i ∪ W i ∪ Scr k`;
    * `det`: the values a complete isolated run leaves in `W i` depend only on the initial values of `R i` — not on the
      context (thread id, scratch addresses) and not on what the scratch contained. -/
structure Respects (tasks : Nat → Task L V K S) (R W : Nat → L → Prop) (Scr : K → L → Prop) : Prop where
  frame : ∀ i k s m s' m', (tasks i).step k s m = some (s', m') → ∀ l, ¬ W i l → ¬ Scr k l → m' l = m l
  loc : ∀ i k s m m', AgreeOn (Acc R W Scr i k) m m' →
    ((tasks i).step k s m = none ∧ (tasks i).step k s m' = none) ∨
    ∃ s' m1 m2, (tasks i).step k s m = some (s', m1) ∧ (tasks i).step k s m' = some (s', m2) ∧
      AgreeOn (Acc R W Scr i k) m1 m2
  det : ∀ i k k' m m' mf mf', AgreeOn (R i) m m' → TaskRun (tasks i) k m mf → TaskRun (tasks i) k' m' mf' →
    AgreeOn (W i) mf mf'

/-- pairwise non-conflicting footprints: no write–write and no read–write overlap between different tasks; scratch
    is disjoint from every read and write set -/
structure NonConflict (R W : Nat → L → Prop) (Scr : K → L → Prop) : Prop where
  ww : ∀ i j, i ≠ j → ∀ l, W i l → ¬ W j l
  rw : ∀ i j, i ≠ j → ∀ l, W i l → ¬ R j l
  sw : ∀ k i l, Scr k l → ¬ W i l
  sr : ∀ k i l, Scr k l → ¬ R i l

/-- a well-formed assignment of the batch `0 … n-1` to pool threads: every id is handed out exactly once (C03:
    `exactly_once`), and tasks that may run concurrently (different threads) have disjoint scratch -/
structure WellFormed (n : Nat) (Scr : K → L → Prop) (asg : Nat → List (Nat × K)) : Prop where
  bound : ∀ t x, x ∈ asg t → x.1 < n
  nodup : ∀ t, ((asg t).map Prod.fst).Nodup
  apart : ∀ t t', t ≠ t' → ∀ x ∈ asg t, ∀ y ∈ asg t', x.1 ≠ y.1
  complete : ∀ i, i < n → ∃ t k, (i, k) ∈ asg t
  scratch : ∀ t t', t ≠ t' → ∀ x ∈ asg t, ∀ y ∈ asg t', ∀ l, Scr x.2 l → ¬ Scr y.2 l

/-! ### Index arithmetic of the dispatch sites -/

/-- `mj_narrowphase`: `chunksize = npair / mjMAX(1, 5*nthread); chunksize = mjMAX(16, (chunksize + 15) & ~15)` -/
def chunkSize (npair nthread : Nat) : Nat := max 16 ((npair / max 1 (5 * nthread) + 15) / 16 * 16)

/-- `nchunk = (npair + chunksize - 1) / chunksize` -/
def numChunk (npair chunk : Nat) : Nat := (npair + chunk - 1) / chunk

/-- `collisionTask`: `globalidx = chunksize * idx` (offset into `pairbuffer` and into `nconbuffer`) -/
def chunkLo (chunk idx : Nat) : Nat := chunk * idx

/-- `collisionTask`: `n = mjMIN(chunksize, npair - globalidx)` -/
def chunkLen (npair chunk idx : Nat) : Nat := min chunk (npair - chunk * idx)

/-- pair `p` is processed by chunk task `idx` -/
def InChunk (npair chunk idx p : Nat) : Prop := chunkLo chunk idx ≤ p ∧ p < chunkLo chunk idx + chunkLen npair chunk idx

/-- `pairbuffer[i].conpos`: running sum of `mj_maxContact` over the pairs before `i` -/
def conPos (mc : Nat → Nat) : Nat → Nat
  | 0 => 0
  | p + 1 => conPos mc p + mc p

/-- tactile sensor: `batch_size = (ncon + nthread - 1) / nthread` -/
def tactileBatch (ncon nthread : Nat) : Nat := (ncon + nthread - 1) / nthread

/-- `ntask = (ncon + batch_size - 1) / batch_size` -/
def tactileTasks (ncon batch : Nat) : Nat := (ncon + batch - 1) / batch

/-- `start_taxel = t * batch_size` -/
def taxelLo (batch t : Nat) : Nat := t * batch

/-- `end_taxel = mju_min((t+1) * batch_size, ncon)` -/
def taxelHi (ncon batch t : Nat) : Nat := min ((t + 1) * batch) ncon

/-! ### A small task language (driver / differential against the real pool)

`mem` is an array of integers; a task is a list of micro-operations over one register, each one step. -/

inductive ToyOp where
  | rd (loc : Nat)      -- reg := mem[loc]
  | wr (loc : Nat)      -- mem[loc] := reg
  | add (c : Int)       -- reg := reg + c
  | mul (c : Int)       -- reg := reg * c
  | tid                 -- reg := reg + thread id
  | srd                 -- reg := scratch[thread id]
  | swr                 -- scratch[thread id] := reg
  deriving Repr, DecidableEq

/-- scratch cell of thread `t` lives at location `scrBase + t` -/
def toyStep (scrBase : Nat) (prog : List ToyOp) (tid : Nat) (s : Nat × Int) (m : Mem Nat Int) :
    Option ((Nat × Int) × Mem Nat Int) :=
  match prog[s.1]? with
  | none => none
  | some op =>
    let pc := s.1 + 1
    let reg := s.2
    match op with
    | .rd l => some ((pc, m l), m)
    | .wr l => some ((pc, reg), fun x => if x = l then reg else m x)
    | .add c => some ((pc, reg + c), m)
    | .mul c => some ((pc, reg * c), m)
    | .tid => some ((pc, reg + (tid : Int)), m)
    | .srd => some ((pc, m (scrBase + tid)), m)
    | .swr => some ((pc, reg), fun x => if x = scrBase + tid then reg else m x)

def toyTask (scrBase : Nat) (prog : List ToyOp) : Task Nat Int Nat (Nat × Int) :=
  ⟨(0, 0), toyStep scrBase prog⟩

end MjProof.Dispatch
