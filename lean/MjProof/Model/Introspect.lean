import MjProof.Model.CType
/-
Table types for C49: the shipped introspection metadata (`enums.py`, `structs.py`, `functions.py`)
and the same facts extracted from the C headers.  Core Lean only.

Every text in a generated table (names of enums, constants, structs, members, functions,
parameters, value types, and the type spellings of the headers) is a *numeral*: the bytes of the
text, big-endian, after a leading 1 (`0x16d6a` = "mj"); `MjProof.CType.dS` decodes it.  The kernel
compares numerals natively, so that the table equalities are decided quickly, whereas string or
character comparisons are orders of magnitude slower there.  The generated files carry the plain
text of every entry in comments.

Python side: ASTs as they are in the shipped tables (`CTypeN` = `CType` with coded names).
Header side: every type is an index into a table of (type spelling as the compiler prints it / as
the header text spells an array parameter, AST computed by the translator); `resolve*` looks the
ASTs up.  `Props/C49Gen.lean` proves that each spelling of that table parses (with the model of
`parse_type`) to the AST next to it, and that the resolved header tables equal the Python tables.

Struct members are flattened in declaration order: `field`, `openStruct n` … `close` for a member
`n` of anonymous struct type, `openUnion 1` … `close` for an anonymous union (1 = empty text).
`extent` is `StructFieldDecl.array_extent` (entries `i:<int>` / `s:<str>`), `none` for `None`.
Documentation strings are not part of the tables.
-/
namespace MjProof.Introspect
open MjProof.CType

/-- `CType` with the value-type name given as a text numeral -/
inductive CTypeN where
  | value (name : Nat) (isConst isVolatile : Bool)
  | pointer (inner : CTypeN) (nullable isConst isVolatile isRestrict : Bool)
  | array (inner : CTypeN) (extents : List Int)
  deriving DecidableEq, Repr

def CTypeN.decode : CTypeN → CType
  | .value n c v => .value (dS n) c v
  | .pointer i n c v r => .pointer i.decode n c v r
  | .array i e => .array i.decode e

/-- the value-type name at the bottom of the type -/
def CTypeN.leaf : CTypeN → Nat
  | .value n _ _ => n
  | .pointer i _ _ _ _ => i.leaf
  | .array i _ => i.leaf

def CTypeN.isArray : CTypeN → Bool
  | .array _ _ => true
  | _ => false

/-- `WF` without the check of the value-type name: no `nullable` pointer, no empty extent list,
    no array directly inside an array -/
def CTypeN.shapeOk : CTypeN → Bool
  | .value _ _ _ => true
  | .pointer i n _ _ _ => !n && i.shapeOk
  | .array i e => !e.isEmpty && !i.isArray && i.shapeOk

structure EnumT where
  name : Nat
  declname : Nat
  values : List (Nat × Int)
  deriving DecidableEq, Repr

inductive Item where
  | field (name : Nat) (type : CTypeN) (extent : Option (List Nat))
  | openStruct (name : Nat)
  | openUnion (name : Nat)
  | close
  deriving DecidableEq, Repr

structure StructT where
  name : Nat
  declname : Nat
  items : List Item
  deriving DecidableEq, Repr

structure ParamT where
  name : Nat
  type : CTypeN
  nullable : Bool
  deriving DecidableEq, Repr

structure FuncT where
  name : Nat
  ret : CTypeN
  params : List ParamT
  deriving DecidableEq, Repr

/-! header side -/

inductive ItemH where
  | field (name : Nat) (ty : Nat) (extent : Option (List Nat))
  | openStruct (name : Nat)
  | openUnion (name : Nat)
  | close
  deriving Repr

structure StructH where
  name : Nat
  declname : Nat
  items : List ItemH
  deriving Repr

structure ParamH where
  name : Nat
  ty : Nat
  nullable : Bool
  deriving Repr

structure FuncH where
  name : Nat
  ret : Nat
  params : List ParamH
  deriving Repr

/-- (type spelling, AST) -/
abbrev TypeTable := List (Nat × CTypeN)

def lookup (tbl : TypeTable) (i : Nat) : Option CTypeN := (tbl[i]?).map (·.2)

def resolveItem (tbl : TypeTable) : ItemH → Option Item
  | .field n i e => (lookup tbl i).map (fun t => .field n t e)
  | .openStruct n => some (.openStruct n)
  | .openUnion n => some (.openUnion n)
  | .close => some .close

def resolveStruct (tbl : TypeTable) (s : StructH) : Option StructT :=
  (mapMOpt (resolveItem tbl) s.items).map (fun it => { name := s.name, declname := s.declname, items := it })

def resolveParam (tbl : TypeTable) (p : ParamH) : Option ParamT :=
  (lookup tbl p.ty).map (fun t => { name := p.name, type := t, nullable := p.nullable })

def resolveFunc (tbl : TypeTable) (f : FuncH) : Option FuncT :=
  match lookup tbl f.ret, mapMOpt (resolveParam tbl) f.params with
  | some r, some ps => some { name := f.name, ret := r, params := ps }
  | _, _ => none

/-- every spelling of the table parses to the AST next to it -/
def tableParses (tbl : TypeTable) : Bool := tbl.all (fun p => parseType (dS p.1) == some p.2.decode)

/-- all ASTs of the Python tables -/
def itemTypes : List Item → List CTypeN
  | [] => []
  | .field _ t _ :: r => t :: itemTypes r
  | _ :: r => itemTypes r

def structTypes (ss : List StructT) : List CTypeN := ss.flatMap (fun s => itemTypes s.items)
def funcTypes (fs : List FuncT) : List CTypeN := fs.flatMap (fun f => f.ret :: f.params.map (·.type))

/-- distinct elements, in order of first occurrence (frequent names are met early, so the scan of
    `acc` is short for most elements) -/
def dedup : List Nat → List Nat → List Nat
  | [], acc => acc
  | x :: xs, acc => if acc.contains x then dedup xs acc else dedup xs (acc ++ [x])

/-- the check behind `python_types_wf`: shapes of all types, names of the distinct leaves -/
def typesOk (ts : List CTypeN) : Bool :=
  ts.all CTypeN.shapeOk && (dedup (ts.map CTypeN.leaf) []).all (fun n => wfName (dS n))

end MjProof.Introspect
