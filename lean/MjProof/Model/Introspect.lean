import MjProof.Model.CType
/-
Table types for C49: the shipped introspection metadata (`enums.py`, `structs.py`, `functions.py`)
and the same facts extracted from the C headers.  Core Lean only.

Python side: ASTs as they are in the shipped tables.
Header side: every type is an index into a table of (type string as the compiler / the header text
spells it, AST); `resolve*` looks the ASTs up.  Every text is a `Str` written as `dS <numeral>` (see Model/CType.lean).  `Props/C49Gen.lean` proves that each string of that
table parses (with the model of `parse_type`) to the AST next to it, and that the resolved header
tables equal the Python tables.

Struct members are flattened in declaration order: `field`, `openStruct n` … `close` for a member
`n` of anonymous struct type, `openUnion ""` … `close` for an anonymous union.
`extent` is `StructFieldDecl.array_extent` (`i:<int>` / `s:<str>` entries), `none` for `None`.
Documentation strings are not part of the tables.
-/
namespace MjProof.Introspect
open MjProof.CType

structure EnumT where
  name : Str
  declname : Str
  values : List (Str × Int)
  deriving DecidableEq, Repr

inductive Item where
  | field (name : Str) (type : CType) (extent : Option (List Str))
  | openStruct (name : Str)
  | openUnion (name : Str)
  | close
  deriving DecidableEq, Repr

structure StructT where
  name : Str
  declname : Str
  items : List Item
  deriving DecidableEq, Repr

structure ParamT where
  name : Str
  type : CType
  nullable : Bool
  deriving DecidableEq, Repr

structure FuncT where
  name : Str
  ret : CType
  params : List ParamT
  deriving DecidableEq, Repr

/-! header side -/

inductive ItemH where
  | field (name : Str) (ty : Nat) (extent : Option (List Str))
  | openStruct (name : Str)
  | openUnion (name : Str)
  | close
  deriving DecidableEq, Repr

structure StructH where
  name : Str
  declname : Str
  items : List ItemH
  deriving Repr

structure ParamH where
  name : Str
  ty : Nat
  nullable : Bool
  deriving Repr

structure FuncH where
  name : Str
  ret : Nat
  params : List ParamH
  deriving Repr

abbrev TypeTable := List (Str × CType)

def lookup (tbl : TypeTable) (i : Nat) : Option CType := (tbl[i]?).map (·.2)

def resolveItem (tbl : TypeTable) : ItemH → Option Item
  | .field n i e => (lookup tbl i).map (fun t => .field n t e)
  | .openStruct n => some (.openStruct n)
  | .openUnion n => some (.openUnion n)
  | .close => some .close

def resolveStruct (tbl : TypeTable) (s : StructH) : Option StructT :=
  (mapMOpt (resolveItem tbl) s.items).map (fun it => { name := s.name, declname := s.declname, items := it })

def resolveParam (tbl : TypeTable) (p : ParamH) : Option ParamT :=
  (lookup tbl p.ty).map (fun t => { name := p.name, type := t, nullable := p.nullable })

def resolveFunc (tbl : TypeTable) (f : FuncH) : Option FuncT :=
  match lookup tbl f.ret, mapMOpt (resolveParam tbl) f.params with
  | some r, some ps => some { name := f.name, ret := r, params := ps }
  | _, _ => none

/-- every string of the table parses to the AST next to it -/
def tableParses (tbl : TypeTable) : Bool := tbl.all (fun p => parseType p.1 == some p.2)

/-- all ASTs of the Python tables -/
def itemTypes : List Item → List CType
  | [] => []
  | .field _ t _ :: r => t :: itemTypes r
  | _ :: r => itemTypes r

def structTypes (ss : List StructT) : List CType := ss.flatMap (fun s => itemTypes s.items)
def funcTypes (fs : List FuncT) : List CType := fs.flatMap (fun f => f.ret :: f.params.map (·.type))

end MjProof.Introspect
