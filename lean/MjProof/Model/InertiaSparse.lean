import MjProof.Num
/-
C06 — executable model of the sparse joint-space inertia routines, written once over the law-free number class
`MjNum α` (runs on `Float` in `Drivers/C06.lean`, reasoned about on `ℝ` in `Lemmas/InertiaSparse.lean`,
`Props/C06.lean`).  Core Lean only.

Storage format (mjModel.M_rownnz / M_rowadr / M_colind, mjData.M / qLD): "lower triangle by rows" CSR.  Row `i`
occupies `rownnz[i]` consecutive slots starting at `rowadr[i]`; the LAST slot of the row is the diagonal.
The model keeps each row as the list of its off-diagonal slots `(colind, value)` in memory order plus the
diagonal slot `(colind, value)`; column indices are `Fin n`, vectors are `Vector α n`, so every read the C
code does through `colind` / `i` is in range by typing (`fromCsr?` performs the range checks once and refuses
anything else).  Flat address arithmetic (`rowadr[i] + k`, `i*n + col`) is abstracted: `fromCsr?` requires
`rowadr` to be the running sum of `rownnz` (what `mj_makeDofDofSparse` produces), which makes rows disjoint.

Modelled in the operation order of the C code (so that the `Float` instance is bit-comparable):
  * `mju_mulSymVecSparse` (= `mj_mulM`): per row `res[i] = diag*vec[i]`, then slots `diag-1 … 0`:
    `res[i] += val*vec[j]; res[j] += val*vec[i]`.
  * `mju_sym2dense` (= `mj_fullM`): zero, then per row, per slot in memory order, `if (col <= i)` write
    `res[i][col]` and `res[col][i]`.
  * `mj_factorI` (index == NULL): rows `n-1 … 0`: `invD = 1/diag`; slots `diag-1 … 0` of row k: row `i = colind`
    gets `mju_addToScl(row i, row k, -val*invD, rownnz[i])` — *positional* on the first `rownnz[i]` slots of
    row k, exactly like the C code (this is where the tree structure of the pattern is used) —; then the
    off-diagonal slots of row k are scaled by `invD`.
  * `mj_solveLD` (index == NULL, one vector; `mj_solveM` with n > 1 repeats it per vector): the three passes
    `x <- L^-T x` (rows `n-1 … 0`, skipped when `rownnz == 1` or `x[i] == 0`), `x <- D^-1 x`, `x <- L^-1 x`
    with `mju_dotSparse` modelled with its 4 accumulators and scalar tail (non-AVX build).
Not modelled: `mj_crb` (composite rigid body recursion, reads mjModel/mjData trees), sleep filtering
(`index != NULL`), `mj_solveM2`, the AVX kernels.
-/
namespace MjProof.InertiaSparse
open MjProof

variable {α : Type} [MjNum α]

/-- the literal `0` of the C code -/
@[inline] def zero : α := MjNum.ofInt 0
/-- the literal `1` of the C code -/
@[inline] def one : α := MjNum.ofInt 1

/-- one stored row: off-diagonal slots in memory order and the diagonal (last) slot -/
structure Row (α : Type) (n : Nat) where
  off : List (Fin n × α)
  dcol : Fin n
  d : α

/-- the matrix: `n` rows -/
abbrev SymCsr (α : Type) (n : Nat) := Vector (Row α n) n

/-- dense `n × n` matrix (row `i`, column `j` ↦ `res[i*n+j]` of the C code) -/
abbrev Dense (α : Type) (n : Nat) := Vector (Vector α n) n

/-! ### pattern predicates (decidable; the driver refuses patterns that fail them, the theorems assume them) -/

def Row.cols {n : Nat} (r : Row α n) : List (Fin n) := r.off.map (·.1)

/-- strictly increasing list of column indices -/
def increasing {n : Nat} : List (Fin n) → Bool
  | [] => true
  | [_] => true
  | a :: b :: r => decide (a < b) && increasing (b :: r)

/-- "lower triangle by rows": the diagonal slot of row `i` has column `i`, the other slots have strictly
increasing columns `< i` -/
def lowerOk {n : Nat} (M : SymCsr α n) : Bool :=
  (List.finRange n).all fun i =>
    decide (M[i].dcol = i) && increasing M[i].cols && M[i].cols.all (fun c => decide (c < i))

/-- tree structure of the pattern (what `mj_makeDofDofSparse` produces from `dof_parentid`): if column `c`
sits in slot `t` of row `k`, then the columns of row `c` are exactly the first `t` columns of row `k`
(the ancestors of `c` are the ancestors of `k` that precede `c`).  `mj_factorI` relies on it when it adds the
first `rownnz[c]` slots of row `k` to row `c` slot by slot. -/
def treeOk {n : Nat} (M : SymCsr α n) : Bool :=
  (List.finRange n).all fun k =>
    (List.range M[k].cols.length).all fun t =>
      match M[k].cols[t]? with
      | some c => decide (M[c].cols = M[k].cols.take t)
      | none => false

/-! ### `mju_mulSymVecSparse` -/

/-- one iteration of the row loop of `mju_mulSymVecSparse` -/
def rowMul {n : Nat} (i : Fin n) (r : Row α n) (v res : Vector α n) : Vector α n :=
  let res := res.set i (r.d * v[i])
  -- slots diag-1 … 0  (`foldr` consumes the last slot first)
  r.off.foldr (fun e res =>
    let res := res.set i (res[i] + e.2 * v[e.1])      -- strict lower
    res.set e.1 (res[e.1] + e.2 * v[i])) res          -- strict upper

/-- `mju_mulSymVecSparse(res, mat, vec, n, rownnz, rowadr, colind)` = `mj_mulM` -/
def mulM {n : Nat} (M : SymCsr α n) (v : Vector α n) : Vector α n :=
  (List.finRange n).foldl (fun res i => rowMul i M[i] v res) (Vector.replicate n zero)

/-! ### `mju_sym2dense` -/

def setCell {n : Nat} (D : Dense α n) (a b : Fin n) (x : α) : Dense α n := D.set a (D[a].set b x)

/-- the body of the slot loop of `mju_sym2dense` for row `i` -/
def putSlot {n : Nat} (i : Fin n) (D : Dense α n) (e : Fin n × α) : Dense α n :=
  if e.1 ≤ i then setCell (setCell D i e.1 e.2) e.1 i e.2 else D

def rowDense {n : Nat} (i : Fin n) (r : Row α n) (D : Dense α n) : Dense α n :=
  putSlot i (r.off.foldl (putSlot i) D) (r.dcol, r.d)

/-- `mju_sym2dense(res, mat, n, rownnz, rowadr, colind)` = `mj_fullM` -/
def fullM {n : Nat} (M : SymCsr α n) : Dense α n :=
  (List.finRange n).foldl (fun D i => rowDense i M[i] D) (Vector.replicate n (Vector.replicate n zero))

/-! ### `mj_factorI` -/

/-- `mju_addToScl(dst, src, scl, |dst|)` on the slot values, position by position -/
def addToScl {n : Nat} : List (Fin n × α) → List α → α → List (Fin n × α)
  | (c, a) :: dst, b :: src, scl => (c, a + b * scl) :: addToScl dst src scl
  | dst, _, _ => dst

/-- all `rownnz` slot values of a row, in memory order -/
def Row.vals {n : Nat} (r : Row α n) : List α := r.off.map (·.2) ++ [r.d]

/-- `mju_addToScl(mat + rowadr[i], src, scl, rownnz[i])`: off-diagonal slots and the diagonal slot of row i -/
def Row.addPrefix {n : Nat} (r : Row α n) (src : List α) (scl : α) : Row α n :=
  match src.drop r.off.length with
  | b :: _ => { r with off := addToScl r.off src scl, d := r.d + b * scl }
  | [] => { r with off := addToScl r.off src scl }

/-- one iteration (row `k`) of the backward loop of `mj_factorI` -/
def factorRow {n : Nat} (k : Fin n) (S : SymCsr α n × Vector α n) : SymCsr α n × Vector α n :=
  let M := S.1
  let rk := M[k]
  let invD : α := one / rk.d
  let dinv := S.2.set k invD
  let src := rk.vals
  -- slots end-1 … start of row k: update row colind[adr]
  let M := rk.off.foldr (fun e M => M.set e.1 (M[e.1].addPrefix src ((-e.2) * invD))) M
  -- mju_scl(mat+start, mat+start, invD, diag): the row read here is the one captured above (rows i ≠ k only
  -- were written, which holds for patterns accepted by `lowerOk`)
  let M := M.set k { rk with off := rk.off.map (fun e => (e.1, e.2 * invD)) }
  (M, dinv)

/-- `mj_factorI(mat, diaginv, nv, rownnz, rowadr, colind, NULL)`: returns (qLD, qLDiagInv) -/
def factorI {n : Nat} (M : SymCsr α n) : SymCsr α n × Vector α n :=
  (List.finRange n).foldr factorRow (M, Vector.replicate n zero)

/-! ### `mju_dotSparse` and `mj_solveLD` -/

/-- `mju_dotSparse` (non-AVX): four accumulators over full chunks of 4, combined as `(r0+r2)+(r1+r3)`, then the
scalar tail.  The argument is the list of `(vec1[i], vec2[ind1[i]])`. -/
def dot4 : List (α × α) → α → α → α → α → α
  | (a0, b0) :: (a1, b1) :: (a2, b2) :: (a3, b3) :: rest, r0, r1, r2, r3 =>
      dot4 rest (r0 + a0 * b0) (r1 + a1 * b1) (r2 + a2 * b2) (r3 + a3 * b3)
  | tail, r0, r1, r2, r3 => tail.foldl (fun r p => r + p.1 * p.2) ((r0 + r2) + (r1 + r3))

def dotSparse {n : Nat} (off : List (Fin n × α)) (x : Vector α n) : α :=
  dot4 (off.map (fun e => (e.2, x[e.1]))) zero zero zero zero

/-- first pass of `mj_solveLD`, row `i`:  `x <- L^-T x` -/
def solveRowT {n : Nat} (L : SymCsr α n) (i : Fin n) (x : Vector α n) : Vector α n :=
  if L[i].off.isEmpty then x else     -- rownnz[i] == 1: skip
  let xi := x[i]
  if MjNum.beq xi zero then x else    -- `if ((x_i = x[i]))`
  L[i].off.foldl (fun x e => x.set e.1 (x[e.1] - e.2 * xi)) x

/-- third pass of `mj_solveLD`, row `i`:  `x <- L^-1 x` -/
def solveRowL {n : Nat} (L : SymCsr α n) (x : Vector α n) (i : Fin n) : Vector α n :=
  if L[i].off.isEmpty then x else
  x.set i (x[i] - dotSparse L[i].off x)

/-- `mj_solveLD(x, qLD, qLDiagInv, nv, 1, rownnz, rowadr, colind, NULL)` -/
def solveLD {n : Nat} (L : SymCsr α n) (dinv : Vector α n) (x : Vector α n) : Vector α n :=
  let x := (List.finRange n).foldr (solveRowT L) x
  let x := (List.finRange n).foldl (fun x i => x.set i (x[i] * dinv[i])) x
  (List.finRange n).foldl (solveRowL L) x

/-! ### checked construction from the flat CSR arrays -/

def natOf? (i : Int) : Option Nat := if 0 ≤ i then some i.toNat else none

def mkFin? (n : Nat) (c : Int) : Option (Fin n) :=
  if h : 0 ≤ c ∧ c.toNat < n then some ⟨c.toNat, h.2⟩ else none

/-- rows from `rownnz`, `colind`, values; `rowadr` must be the running sum of `rownnz` and the slots must
exhaust `colind` / `vals` (so rows are disjoint and contiguous, as `mj_makeDofDofSparse` lays them out) -/
def rowsOf? (n : Nat) : (adr : Nat) → List Int → List Int → List Int → List α → Option (List (Row α n))
  | _, [], [], [], [] => some []
  | adr, nnz :: rownnz, ra :: rowadr, colind, vals => do
      let k ← natOf? nnz
      if ra ≠ (adr : Int) then none else
      if k = 0 ∨ colind.length < k ∨ vals.length < k then none else
      let cs ← (colind.take k).mapM (mkFin? n)
      let vs := vals.take k
      let slots := cs.zip vs
      let last ← slots.getLast?
      let rest ← rowsOf? n (adr + k) rownnz rowadr (colind.drop k) (vals.drop k)
      pure ({ off := slots.dropLast, dcol := last.1, d := last.2 } :: rest)
  | _, _, _, _, _ => none

def fromCsr? (n : Nat) (rownnz rowadr colind : List Int) (vals : List α) : Option (SymCsr α n) := do
  let rows ← rowsOf? n 0 rownnz rowadr colind vals
  if h : rows.toArray.size = n then some ⟨rows.toArray, h⟩ else none

def vecOf? (n : Nat) (l : List α) : Option (Vector α n) :=
  if h : l.toArray.size = n then some ⟨l.toArray, h⟩ else none

/-- flat slot values in memory order -/
def SymCsr.flat {n : Nat} (M : SymCsr α n) : List α := M.toList.flatMap Row.vals

def Dense.flat {n : Nat} (D : Dense α n) : List α := D.toList.flatMap Vector.toList

end MjProof.InertiaSparse
