/-
Model of `src/engine/engine_sort.h` (mjSORT, mjPARTIAL_SORT) and of `mju_insertionSort[Int]`
(`src/engine/engine_util_misc.c`).  Core Lean only (no Mathlib) so that the driver is cheap to run.

The comparator is the C comparator: `cmp a b : Int`, used by the macros only through the tests
`cmp a b > 0` (insertion), `cmp a b <= 0` (merge) and `cmp a b < 0` (heap).
-/
namespace MjProof.Sort

variable {α : Type}

/-- Inner loop of `_mjINSERTION_SORT`, acting on the *reversed* already-processed prefix:
    shift every element that compares greater than `x`, then drop `x` in place. -/
def insRev (cmp : α → α → Int) (x : α) : List α → List α
  | [] => [x]
  | y :: r => if cmp y x > 0 then y :: insRev cmp x r else x :: y :: r

/-- `_mjINSERTION_SORT` on one run (and `mju_insertionSort`, `mju_insertionSortInt`). -/
def insertionSort (cmp : α → α → Int) (l : List α) : List α :=
  (l.foldl (fun r x => insRev cmp x r) []).reverse

/-- The run size `_mjRUNSIZE`. -/
def runSize : Nat := 32

/-- Split into consecutive runs of `runSize` (the last one may be shorter). -/
def runs (l : List α) : List (List α) :=
  if h : l = [] then [] else l.take runSize :: runs (l.drop runSize)
termination_by l.length
decreasing_by
  have : l.length ≠ 0 := by intro h0; exact h (List.length_eq_zero_iff.mp h0)
  simp only [List.length_drop, runSize]; omega

/-- `_mjMERGE`: take from the left run while `cmp left right <= 0` (this is `List.merge`). -/
def merge (cmp : α → α → Int) (a b : List α) : List α :=
  List.merge a b (fun x y => decide (cmp x y ≤ 0))

/-- One pass of the bottom-up loop: merge adjacent runs, copy an unpaired trailing run. -/
def mergePairs (cmp : α → α → Int) : List (List α) → List (List α)
  | a :: b :: t => merge cmp a b :: mergePairs cmp t
  | t => t

theorem mergePairs_length_le (cmp : α → α → Int) : ∀ rs : List (List α),
    (mergePairs cmp rs).length ≤ rs.length
  | [] => by simp [mergePairs]
  | [_] => by simp [mergePairs]
  | a :: b :: t => by
      have := mergePairs_length_le cmp t
      simp only [mergePairs, List.length_cons]; omega

theorem mergePairs_length_lt (cmp : α → α → Int) : ∀ rs : List (List α), 2 ≤ rs.length →
    (mergePairs cmp rs).length < rs.length
  | [], h => by simp at h
  | [_], h => by simp at h
  | a :: b :: t, _ => by
      have := mergePairs_length_le cmp t
      simp only [mergePairs, List.length_cons]; omega

/-- The doubling loop `for (len = RUNSIZE; len < n; len *= 2)`: repeat passes while more than
    one run is left. -/
def mergePasses (cmp : α → α → Int) (rs : List (List α)) : List (List α) :=
  if h : 2 ≤ rs.length then mergePasses cmp (mergePairs cmp rs) else rs
termination_by rs.length
decreasing_by exact mergePairs_length_lt cmp rs h

/-- `mjSORT`. -/
def mjSort (cmp : α → α → Int) (l : List α) : List α :=
  (mergePasses cmp ((runs l).map (insertionSort cmp))).flatten

/-! ### mjPARTIAL_SORT -/

/-- `_mjSIFT_DOWN` on `buf[0..end)` starting at `root`; `fuel` bounds the loop (the loop index at
    least doubles, so `end` iterations always suffice).  All reads are in bounds by construction
    (`end_ ≤ buf.size`), there is no defaulting read. -/
def siftDown (cmp : α → α → Int) (buf : Array α) (root end_ : Nat) : Nat → Array α
  | 0 => buf
  | fuel + 1 =>
    if h : 2 * root + 1 < end_ ∧ end_ ≤ buf.size then
      let child := 2 * root + 1
      have hr : root < buf.size := by omega
      have hc : child < buf.size := by omega
      let swap : { i : Nat // i < buf.size } :=
        if cmp buf[root] buf[child] < 0 then ⟨child, hc⟩ else ⟨root, hr⟩
      let swap : { i : Nat // i < buf.size } :=
        if h2 : child + 1 < end_ then
          (if cmp (buf[swap.1]'swap.2) (buf[child + 1]'(by omega)) < 0 then ⟨child + 1, by omega⟩ else swap)
        else swap
      if swap.1 = root then buf
      else siftDown cmp (buf.swap root swap.1 hr swap.2) swap.1 end_ fuel
    else buf

/-- heapify loop `for (j = (k-2)/2; j >= 0; j--)`; `j1 = j + 1` counts down to 0.
    (C integer division truncates toward zero, so for k = 1 the start index is 0.) -/
def heapify (cmp : α → α → Int) (buf : Array α) (k : Nat) : Nat → Array α
  | 0 => buf
  | j + 1 => heapify cmp (siftDown cmp buf j k k) k j

/-- scan `arr[k..n)` replacing the heap top whenever the new element is smaller. -/
def scan (cmp : α → α → Int) (k : Nat) (buf : Array α) : List α → Array α
  | [] => buf
  | x :: xs =>
    if h : 0 < buf.size then
      if cmp x buf[0] < 0 then scan cmp k (siftDown cmp (buf.set 0 x) 0 k k) xs
      else scan cmp k buf xs
    else buf

/-- `mjPARTIAL_SORT`: the whole array after the call (first `k` entries are rewritten). -/
def partialSort (cmp : α → α → Int) (l : List α) (k : Int) : List α :=
  if k ≤ 0 ∨ (l.length : Int) < k then l
  else
    let kn := k.toNat
    let buf := (l.take kn).toArray
    let start := if kn ≥ 2 then (kn - 2) / 2 + 1 else 1
    let buf := heapify cmp buf kn start
    let buf := scan cmp kn buf (l.drop kn)
    insertionSort cmp buf.toList ++ l.drop kn

end MjProof.Sort
