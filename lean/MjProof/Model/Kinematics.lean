import MjProof.Num
import MjProof.Gen.Kernels
/-
C07 — executable model of forward kinematics and of the configuration-space maps, written once over the law-free
number class `MjNum α` (runs on `Float` in `Drivers/C07.lean`, reasoned about on `ℝ` in `Props/C07.lean`).
Core Lean only.  All quaternion / rotation arithmetic is the *generated* kernels of `MjProof/Gen/Kernels.lean`
(`mju_mulQuat`, `mju_rotVecQuat`, `mju_axisAngle2Quat`, `mju_normalize4`, `mju_quat2Mat`, `mju_mulMatVec3`,
`mju_quatIntegrate`, `mju_subQuat`; the engine's hot path calls the textually identical `mji_` inline copies).

Modelled, in the operation order of the C code (so that the `Float` instance is bit-comparable):
  * `mj_kinematics1` (no sleep filtering): bodies in index order (a parent precedes its children); the free-joint
    fast path (`jntnum == 1 && type == FREE`: pose copied from qpos, normalised twice as in the C code); otherwise
    mocap / model pose, composition with the parent frame (`xmat_parent * pos + xpos_parent`, `xquat_parent * quat`;
    plain copy when the parent is the world), then per joint: `xaxis`, `xanchor`, and the joint transformation
    (slide: translation along `xaxis` by `qpos - qpos0`; ball / hinge: right-multiplication by the local
    quaternion and the off-centre correction `xpos = xanchor - rot(jnt_pos, xquat)`), final `mju_normalize4`,
    `xmat = mju_quat2Mat(xquat)`.
  * `mj_local2Global` for body inertial frames, geoms, sites and fixed-mode cameras, with every `mjtSameFrame` case.
  * `mj_integratePos` / `mj_differentiatePos` per joint.
Not modelled: sleeping (`body_awake`), tracking / targeting camera modes, lights, flex, `mj_comPos`, the Jacobians.
A joint of type FREE anywhere else than alone on its body is an engine error (`mjERROR`) = `none` here.
-/
namespace MjProof.Kinematics
open MjProof MjProof.Gen

variable {α : Type} [MjNum α]

abbrev V3 (α : Type) := α × α × α
abbrev Q4 (α : Type) := α × α × α × α
abbrev M9 (α : Type) := α × α × α × α × α × α × α × α × α

/-! ### uncurrying wrappers of the generated kernels (no logic of their own) -/

def mulQuat (a b : Q4 α) : Q4 α := mju_mulQuat a.1 a.2.1 a.2.2.1 a.2.2.2 b.1 b.2.1 b.2.2.1 b.2.2.2
def rotVecQuat (v : V3 α) (q : Q4 α) : V3 α := mju_rotVecQuat v.1 v.2.1 v.2.2 q.1 q.2.1 q.2.2.1 q.2.2.2
def quat2Mat (q : Q4 α) : M9 α := mju_quat2Mat q.1 q.2.1 q.2.2.1 q.2.2.2
/-- `mju_normalize4` in place (the returned norm is dropped, as every caller here does) -/
def normalize4 (q : Q4 α) : Q4 α := (mju_normalize4 q.1 q.2.1 q.2.2.1 q.2.2.2).2
def axisAngle2Quat (axis : V3 α) (angle : α) : Q4 α := mju_axisAngle2Quat axis.1 axis.2.1 axis.2.2 angle
def mulMatVec3 (m : M9 α) (v : V3 α) : V3 α :=
  mju_mulMatVec3 m.1 m.2.1 m.2.2.1 m.2.2.2.1 m.2.2.2.2.1 m.2.2.2.2.2.1 m.2.2.2.2.2.2.1 m.2.2.2.2.2.2.2.1
    m.2.2.2.2.2.2.2.2 v.1 v.2.1 v.2.2
def quatIntegrate (q : Q4 α) (w : V3 α) (dt : α) : Q4 α :=
  mju_quatIntegrate q.1 q.2.1 q.2.2.1 q.2.2.2 w.1 w.2.1 w.2.2 dt
def subQuat (qa qb : Q4 α) : V3 α := mju_subQuat qa.1 qa.2.1 qa.2.2.1 qa.2.2.2 qb.1 qb.2.1 qb.2.2.1 qb.2.2.2

/-- `mji_add3` / `mji_addTo3` -/
def add3 (a b : V3 α) : V3 α := (a.1 + b.1, a.2.1 + b.2.1, a.2.2 + b.2.2)
/-- `mji_sub3` -/
def sub3 (a b : V3 α) : V3 α := (a.1 - b.1, a.2.1 - b.2.1, a.2.2 - b.2.2)
/-- `mji_addToScl3(res, vec, scl)`: `res + vec*scl` -/
def addScl3 (a v : V3 α) (s : α) : V3 α := (a.1 + v.1 * s, a.2.1 + v.2.1 * s, a.2.2 + v.2.2 * s)

def zero3 : V3 α := (MjNum.ofInt 0, MjNum.ofInt 0, MjNum.ofInt 0)
def unit4 : Q4 α := (MjNum.ofInt 1, MjNum.ofInt 0, MjNum.ofInt 0, MjNum.ofInt 0)
def eye9 : M9 α :=
  (MjNum.ofInt 1, MjNum.ofInt 0, MjNum.ofInt 0, MjNum.ofInt 0, MjNum.ofInt 1, MjNum.ofInt 0,
   MjNum.ofInt 0, MjNum.ofInt 0, MjNum.ofInt 1)

/-! ### data -/

/-- joint coordinates as they sit in `qpos` (and `qpos0` for the scalar joints) -/
inductive JointQ (α : Type) where
  | free (p : V3 α) (q : Q4 α)
  | ball (q : Q4 α)
  | slide (x x0 : α)
  | hinge (x x0 : α)

structure Joint (α : Type) where
  pos : V3 α      -- jnt_pos
  axis : V3 α     -- jnt_axis
  jq : JointQ α

structure Body (α : Type) where
  parent : Nat    -- body_parentid (0 = world)
  pos : V3 α      -- body_pos, or mocap_pos
  quat : Q4 α     -- body_quat, or the raw mocap_quat
  mocap : Bool    -- body_mocapid >= 0: the quaternion is normalised first
  joints : List (Joint α)

structure Frame (α : Type) where
  pos : V3 α
  quat : Q4 α
  mat : M9 α

structure BodyOut (α : Type) where
  frame : Frame α
  /-- (xanchor, xaxis) of the body's joints, in order -/
  anchors : List (V3 α × V3 α)

def worldFrame : Frame α := { pos := zero3, quat := unit4, mat := eye9 }

/-! ### `mj_kinematics1` -/

/-- one iteration of the joint loop: returns the new `(xpos, xquat)` and `(xanchor, xaxis)` -/
def jointStep (xpos : V3 α) (xquat : Q4 α) (j : Joint α) : Option ((V3 α × Q4 α) × (V3 α × V3 α)) :=
  let xaxis := rotVecQuat j.axis xquat
  let xanchor := add3 (rotVecQuat j.pos xquat) xpos
  match j.jq with
  | .slide x x0 => some ((addScl3 xpos xaxis (x - x0), xquat), (xanchor, xaxis))
  | .ball q =>
      let qloc := normalize4 q
      let xquat' := mulQuat xquat qloc
      let vec := rotVecQuat j.pos xquat'
      some ((sub3 xanchor vec, xquat'), (xanchor, xaxis))
  | .hinge x x0 =>
      let qloc := axisAngle2Quat j.axis (x - x0)
      let xquat' := mulQuat xquat qloc
      let vec := rotVecQuat j.pos xquat'
      some ((sub3 xanchor vec, xquat'), (xanchor, xaxis))
  | .free _ _ => none      -- mjERROR("unknown joint type")

/-- the joint loop -/
def jointLoop : V3 α → Q4 α → List (Joint α) → Option ((V3 α × Q4 α) × List (V3 α × V3 α))
  | xpos, xquat, [] => some ((xpos, xquat), [])
  | xpos, xquat, j :: js => do
      let (pq, a) ← jointStep xpos xquat j
      let (pq', as) ← jointLoop pq.1 pq.2 js
      pure (pq', a :: as)

/-- pose of the body before its joints: mocap / model pose composed with the parent frame (`frames` holds the
frames of bodies `0 … i-1`); a plain copy when the parent is the world -/
def startPose (frames : Array (Frame α)) (b : Body α) : Option (V3 α × Q4 α) :=
  let bodyquat := if b.mocap then normalize4 b.quat else b.quat
  if b.parent = 0 then some (b.pos, bodyquat)
  else (frames[b.parent]?).map (fun pf => (add3 (mulMatVec3 pf.mat b.pos) pf.pos, mulQuat pf.quat bodyquat))

/-- "regular or no joint" branch of the body loop -/
def regularBody (frames : Array (Frame α)) (b : Body α) : Option (BodyOut α) := do
  let s ← startPose frames b
  let r ← jointLoop s.1 s.2 b.joints
  let xquat := normalize4 r.1.2
  pure { frame := { pos := r.1.1, quat := xquat, mat := quat2Mat xquat }, anchors := r.2 }

/-- free-joint branch: copy pos and quat from qpos, normalise (again after the branch, as the C code does);
xanchor = xpos, xaxis = jnt_axis -/
def freeBody (ax p : V3 α) (q : Q4 α) : BodyOut α :=
  let xquat := normalize4 (normalize4 q)
  { frame := { pos := p, quat := xquat, mat := quat2Mat xquat }, anchors := [(p, ax)] }

/-- one iteration of the body loop of `mj_kinematics1` -/
def bodyFK (frames : Array (Frame α)) (b : Body α) : Option (BodyOut α) :=
  match b.joints with
  | [{ pos := _, axis := ax, jq := .free p q }] => some (freeBody ax p q)
  | _ => regularBody frames b

/-- the body loop: `acc` = frames computed so far (world first), `outs` = outputs in body order -/
def fkLoop : Array (Frame α) → List (Body α) → Option (List (BodyOut α))
  | _, [] => some []
  | frames, b :: bs => do
      let o ← bodyFK frames b
      let rest ← fkLoop (frames.push o.frame) bs
      pure (o :: rest)

/-- `mj_kinematics1` for bodies `1 … nbody-1` (the world frame is fixed) -/
def fk (bodies : List (Body α)) : Option (List (BodyOut α)) := fkLoop #[worldFrame] bodies

/-! ### `mj_local2Global` -/

/-- `mjtSameFrame` values as modelled: 0 NONE, 1 BODY, 2 INERTIA, 3 BODYROT, 4 INERTIAROT
(checked against the tree's headers by checks/c07.py on every run) -/
def local2Global (bf : Frame α) (xipos : V3 α) (ximat : M9 α) (pos : V3 α) (quat : Q4 α) (sf : Int) :
    Option (V3 α × M9 α) :=
  let p? : Option (V3 α) :=
    if sf = 0 ∨ sf = 3 ∨ sf = 4 then some (add3 (mulMatVec3 bf.mat pos) bf.pos)
    else if sf = 1 then some bf.pos
    else if sf = 2 then some xipos
    else none
  let m? : Option (M9 α) :=
    if sf = 0 then some (quat2Mat (mulQuat bf.quat quat))
    else if sf = 1 ∨ sf = 3 then some bf.mat
    else if sf = 2 ∨ sf = 4 then some ximat
    else none
  match p?, m? with
  | some p, some m => some (p, m)
  | _, _ => none

/-! ### `mj_integratePos`, `mj_differentiatePos` (per joint) -/

def integrateJoint (dt : α) : JointQ α → List α → Option (JointQ α)
  | .free p q, [v0, v1, v2, w0, w1, w2] =>
      some (.free (p.1 + dt * v0, p.2.1 + dt * v1, p.2.2 + dt * v2) (quatIntegrate q (w0, w1, w2) dt))
  | .ball q, [w0, w1, w2] => some (.ball (quatIntegrate q (w0, w1, w2) dt))
  | .slide x x0, [v] => some (.slide (x + dt * v) x0)
  | .hinge x x0, [v] => some (.hinge (x + dt * v) x0)
  | _, _ => none

/-- `mju_scl3(v, v, 1/dt)` -/
def sclInv3 (v : V3 α) (dt : α) : List α :=
  let s : α := MjNum.ofInt 1 / dt
  [v.1 * s, v.2.1 * s, v.2.2 * s]

/-- velocity that takes joint coordinates `a` to `b` in time `dt` -/
def differentiateJoint (dt : α) : JointQ α → JointQ α → Option (List α)
  | .free p1 q1, .free p2 q2 =>
      some ([(p2.1 - p1.1) / dt, (p2.2.1 - p1.2.1) / dt, (p2.2.2 - p1.2.2) / dt] ++ sclInv3 (subQuat q2 q1) dt)
  | .ball q1, .ball q2 => some (sclInv3 (subQuat q2 q1) dt)
  | .slide x1 _, .slide x2 _ => some [(x2 - x1) / dt]
  | .hinge x1 _, .hinge x2 _ => some [(x2 - x1) / dt]
  | _, _ => none

end MjProof.Kinematics
