/-
Model of the part of the save -> reload path that decides WHERE A BODY'S INERTIA COMES FROM (C32, hand-written
writer branch + the compiler stage that feeds it).  Anchors in the tree:

  * `mjCBody::Compile` (src/user/user_objects.cc): `geoms[i]->inferinertia = id>0 && (!explicitinertial ||
    inertiafromgeom == TRUE) && group in inertiagrouprange`, and `InertiaFromGeom()` is called when
    `inertiafromgeom == TRUE || (!mjuu_defined(ipos[0]) && inertiafromgeom == AUTO)`;
  * `mjCBody::InertiaFromGeom`: the geoms with group in `inertiagrouprange` and `mass_ > mjEPS` are selected; none ->
    the body keeps the mass of its spec, one -> that geom's mass, several -> `mass = 0; mass += m_i` in geom order;
  * `mjCModel::IndexAssets(discard=true)` (src/user/user_model.cc): for every body WITHOUT an explicit inertial that
    carries a visual geom: `compiler.inertiafromgeom` is demoted TRUE -> AUTO, the body becomes `explicitinertial`, the
    compiled mass/frame/inertia are copied into its spec; then all visual geoms are deleted;
  * `mjXWriter::Body` (src/xml/xml_native_writer.cc): `<inertial>` (with the COMPILED pos/quat/mass/diaginertia) is
    written iff `compiler.saveinertial || (body->explicitinertial && compiler.inertiafromgeom != TRUE)`;
  * `mjXWriter::Compiler`: none of `inertiafromgeom`, `discardvisual`, `inertiagrouprange`, `saveinertial` is written,
    so the reloaded document is compiled with their defaults (`auto`, `false`, `{0, 5}`, `false`);
  * `mjXReader::Body`: an `<inertial>` child sets `explicitinertial` and (its `pos` being a required attribute) makes
    `ipos` defined -- in an MJCF document "explicit inertial" and "ipos defined" coincide, which is what `explicit` below
    stands for; a body without `<inertial>` has the constructor's mass 0.

Masses are abstract (`Alg μ`: the C `+`, the literal 0 and the test `> mjEPS`); the driver instantiates `Float`, where
`add` is the IEEE addition of the C code, so that the model's compiled and reloaded `body_mass` can be compared
BITWISE with the real compiler on documents whose geoms carry an explicit `mass`.
Not modelled here: `boundmass` (a `max` applied identically on both sides and itself saved), `settotalmass`,
`fusestatic`, mesh/hfield geoms, the inertial FRAME (ipos/iquat/inertia follow the same source decision as the mass).
Core Lean only.
-/
namespace MjProof.XmlInertial

/-- `mjtInertiaFromGeom` -/
inductive IFG where
  | no | yes | auto
  deriving DecidableEq, Repr, Inhabited

structure Geom (μ : Type) where
  id : Nat
  /-- `mjCGeom::IsVisual()`: contype = conaffinity = 0 and not referenced by a pair / sensor / tendon / ... -/
  visual : Bool
  group : Int
  /-- the mass the geom contributes when its inertia is inferred (`mass_`) -/
  m : μ
  /-- the geom carries a `mass` attribute (`mjuu_defined(geom->mass)`); otherwise its mass comes from `density` -/
  massAttr : Bool
  deriving Repr, Inhabited

structure Body (μ : Type) where
  /-- `spec.explicitinertial` (in an MJCF document: the body has an `<inertial>` child) -/
  explicit : Bool
  /-- `spec.mass` -/
  emass : μ
  geoms : List (Geom μ)
  deriving Repr, Inhabited

/-- the fields of `mjsCompiler` that take part -/
structure Comp where
  ifg : IFG
  discard : Bool
  saveinertial : Bool
  glo : Int
  ghi : Int
  deriving Repr, Inhabited

structure Alg (μ : Type) where
  add : μ → μ → μ
  zero : μ
  /-- `x > mjEPS` -/
  heavy : μ → Bool

variable {μ : Type}

def inRange (c : Comp) (g : Geom μ) : Bool := decide (c.glo ≤ g.group) && decide (g.group ≤ c.ghi)

/-- `InertiaFromGeom()` is called for the body -/
def callsIFG (c : Comp) (b : Body μ) : Bool := c.ifg == .yes || (!b.explicit && c.ifg == .auto)

/-- the selection loop of `InertiaFromGeom` (when it is called every in-range geom has `inferinertia`, so its `mass_`
    is the geom's mass) -/
def sel (A : Alg μ) (c : Comp) (b : Body μ) : List (Geom μ) :=
  b.geoms.filter fun g => inRange c g && A.heavy g.m

/-- the three cases of `InertiaFromGeom` for the mass -/
def massOf (A : Alg μ) (keep : μ) : List (Geom μ) → μ
  | [] => keep
  | [g] => g.m
  | gs => gs.foldl (fun acc g => A.add acc g.m) A.zero

/-- compiled `body_mass` (before `boundmass`) -/
def mass (A : Alg μ) (c : Comp) (b : Body μ) : μ :=
  if callsIFG c b then massOf A b.emass (sel A c b) else b.emass

def hasVisual (b : Body μ) : Bool := b.geoms.any (·.visual)

/-- the body is turned into an explicit-inertial body by `IndexAssets(discard)` -/
def promoted (c : Comp) (b : Body μ) : Bool := c.discard && !b.explicit && hasVisual b

/-- `compiler.inertiafromgeom` after `IndexAssets(discard)` -/
def ifgAfter (c : Comp) (bs : List (Body μ)) : IFG :=
  if c.ifg == .yes && bs.any (promoted c) then .auto else c.ifg

/-- what the writer puts into the saved document for one body -/
structure Saved (μ : Type) where
  /-- the mass attribute of the `<inertial>` child, when one is written -/
  inertial : Option μ
  geoms : List (Geom μ)
  deriving Repr, Inhabited

/-- the condition of `mjXWriter::Body` for writing `<inertial>` -/
def written (c : Comp) (bs : List (Body μ)) (b : Body μ) : Bool :=
  c.saveinertial || ((b.explicit || promoted c b) && ifgAfter c bs != .yes)

/-- `geoms[i]->inferinertia` in `mjCBody::Compile` (for a body other than the world) -/
def inferGeom (c : Comp) (b : Body μ) (g : Geom μ) : Bool := (!b.explicit || c.ifg == .yes) && inRange c g

/-- `mjXWriter::OneGeom`: a geom with a `mass` attribute is saved with its COMPILED `mass_`, which is 0 when the geom's
    inertia was not inferred (`mjCGeom::Compile` computes `mass_` only under `inferinertia`); a geom specified by
    density keeps its density -/
def saveGeom (A : Alg μ) (c : Comp) (b : Body μ) (g : Geom μ) : Geom μ :=
  if g.massAttr && !inferGeom c b g then { g with m := A.zero } else g

def saveBody (A : Alg μ) (c : Comp) (bs : List (Body μ)) (b : Body μ) : Saved μ :=
  { inertial := if written c bs b then some (mass A c b) else none,
    geoms := (if c.discard then b.geoms.filter (fun g => !g.visual) else b.geoms).map (saveGeom A c b) }

def save (A : Alg μ) (c : Comp) (bs : List (Body μ)) : List (Saved μ) := bs.map (saveBody A c bs)

/-- the compiler settings of the reloaded document: the writer saves none of the four fields -/
def reloadComp : Comp := { ifg := .auto, discard := false, saveinertial := false, glo := 0, ghi := 5 }

/-- the body the reader builds from the saved element -/
def reloadBody (A : Alg μ) (s : Saved μ) : Body μ :=
  { explicit := s.inertial.isSome, emass := s.inertial.getD A.zero, geoms := s.geoms }

/-- `body_mass` of the model compiled from the saved text -/
def rtMass (A : Alg μ) (c : Comp) (bs : List (Body μ)) (b : Body μ) : μ :=
  mass A reloadComp (reloadBody A (saveBody A c bs b))

/-- the geom counts after the reload (range `{0, 5}`) iff it counted in the original: an in-range geom stays in range;
    an out-of-range geom is saved with mass 0 (it has a `mass` attribute), or is outside `{0, 5}` too, or is not heavy -/
def geomNeutral (A : Alg μ) (c : Comp) (g : Geom μ) : Bool :=
  if inRange c g then inRange reloadComp g else (g.massAttr || !inRange reloadComp g || !A.heavy g.m)

def rangeNeutral (A : Alg μ) (c : Comp) (b : Body μ) : Bool := b.geoms.all (geomNeutral A c)

/-- The round trip of this body is covered by `MjProof.C32.inertial_roundtrip`.  When `<inertial>` is written the
    reloaded body is explicit and holds the compiled mass.  When it is NOT written the conjuncts exclude exactly the
    input classes on which the tree does not reproduce the mass (each one a recorded finding of C32):
      1. `inertiafromgeom="false"` is not saved: a body without `<inertial>` has the spec's mass (0) and gets its geoms'
         mass on reload;
      2. `inertiagrouprange` is not saved: heavy geoms outside the range that are specified by density start to count
         on reload (those with a `mass` attribute are saved with mass 0), geoms whose group is outside 0..5 stop counting;
      3. `inertiafromgeom="true"` + `discardvisual`, body WITH `<inertial>` carrying visual geoms: it is neither promoted
         nor does it demote the setting; unless another body does, its `<inertial>` is not written and the reloaded mass
         lacks the discarded geoms;
      4. `inertiafromgeom="true"`, body WITH `<inertial>` and no geom heavier than mjEPS in range: `InertiaFromGeom` keeps
         the explicit mass, the writer drops the `<inertial>`, the reloaded body has mass 0. -/
def safe (A : Alg μ) (c : Comp) (bs : List (Body μ)) (b : Body μ) : Bool :=
  written c bs b ||
  (c.ifg != .no && rangeNeutral A c b &&
   (!b.explicit || (!(c.discard && hasVisual b) && !(sel A c b).isEmpty)))

/-- which clause of `safe` fails: 0 = safe, 1..4 = the classes listed above (the first that applies) -/
def unsafeClass (A : Alg μ) (c : Comp) (bs : List (Body μ)) (b : Body μ) : Nat :=
  if written c bs b then 0
  else if c.ifg == .no then 1
  else if !rangeNeutral A c b then 2
  else if b.explicit && c.discard && hasVisual b then 3
  else if b.explicit && (sel A c b).isEmpty then 4
  else 0

end MjProof.XmlInertial
