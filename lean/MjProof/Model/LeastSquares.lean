import MjProof.Num
/-
Model of `python/mujoco/minimize.py`: `least_squares` (with `jacobian=None`, `check_derivatives=False`,
`x_scale` = None / scalar / array, i.e. a fixed positive vector `D`) and `jacobian_fd`.
Core Lean only.  Written once over `MjNum α`: executed on `Float` by `Drivers/C46.lean` (replay of logged
real runs) and reasoned about on `ℝ` in `Lemmas/LeastSquares.lean`.

What is a *parameter* of the model (everything that `least_squares` receives from outside or calls in a
compiled extension):
  * `residual`  – the user's residual function (a vectorised function is applied column by column);
  * `norm`      – the user's `Norm` object: `value r` and `grad_hess r proj`;
  * `boxQP`     – `mujoco.mju_boxQP(dx, scratch, None, H, g, dlower, dupper)`: a function of the incoming
                  contents of the buffer `dx` (the solver warm-starts from it), `H`, `g` and the bounds;
                  returns `failed dx'` for `n_free < 0` and `ok dx'` otherwise, `dx'` = the buffer afterwards.
                  The buffer is part of the loop state (`np.zeros((n, 1))` initially).
Each oracle returns an `Option`; `none` models "the call raised" (the replay driver uses it for "this
argument was never seen in the logged run"): the run stops with status `aborted`.

Everything else is the code of minimize.py, statement by statement: clipping of the start point, the
finite-difference probe points (forward/backward choice by the mid point of the box, the
`(eps + x) - x` representability trick), the scaled bounds `dlower/dupper`, `H = hess + mu*I`, the candidate
`clip(x + D*dx)`, Armijo's accept rule, the `mu` updates (Fletcher), the termination tests and statuses, the
trace.  The two inner `while` loops have no bound in Python; the model gives them `innerFuel` (status
`fuelOut` when exhausted – never observed; termination of the inner loops is not proved).
-/
namespace MjProof.LeastSquares
open MjProof

abbrev Vec (α : Type) := List α
/-- matrices are lists of rows -/
abbrev Mat (α : Type) := List (List α)

inductive Status where
  | factorizationFailed | noImprovement | maxIter | dxTol | gTol
  /-- model only: an oracle call had no answer (Python: the callee raised) -/
  | aborted (what : String)
  /-- model only: `innerFuel` exhausted in the Armijo / factorisation loops -/
  | fuelOut
  deriving Repr, DecidableEq

inductive QPResult (α : Type) where
  /-- `n_free < 0`; `dx` = contents of the buffer after the call -/
  | failed (dx : Vec α)
  /-- `n_free >= 0`, the solution written to `dx` -/
  | ok (dx : Vec α)

structure IterLog (α : Type) where
  candidate : Vec α
  objective : α
  reduction : α
  regularizer : α

section
variable {α : Type} [MjNum α]

def zero : α := MjNum.ofInt 0
def one : α := MjNum.ofInt 1
def half : α := MjNum.ofSci 5 true 1

/-! ### vector helpers (sequential, left to right) -/

def dot (a b : Vec α) : α := (List.zipWith (· * ·) a b).foldl (· + ·) zero
def norm2 (a : Vec α) : α := MjNum.sqrt (dot a a)

/-! ### pieces of `least_squares` -/

/-- `np.clip(x, lo, hi)` on one coordinate: `minimum(maximum(x, lo), hi)` -/
def clip1 (lo hi x : α) : α :=
  let t := if x < lo then lo else x
  if hi < t then hi else t

/-- `np.clip(x, bounds[0], bounds[1], out=x)`; no bounds: unchanged -/
def clipStart (bounds : Option (Vec α × Vec α)) (x0 : Vec α) : Vec α :=
  match bounds with
  | none => x0
  | some (lo, hi) => List.zipWith (fun (b : α × α) x => clip1 b.1 b.2 x) (List.zip lo hi) x0

/-- `jacobian_fd`: the signed step of one coordinate.
    `mid = 0.5*lo + 0.5*hi; e = where(x > mid, -eps, eps); e *= maximum(1, |x|); e = (e + x) - x` -/
def fdStep (eps : α) (b : Option (α × α)) (x : α) : α :=
  let s := match b with
    | none => eps
    | some (lo, hi) => if half * lo + half * hi < x then -eps else eps
  let e := s * MjNum.max one (MjNum.abs x)
  (e + x) - x

/-- per-coordinate bounds as a list of options -/
def coordBounds (bounds : Option (Vec α × Vec α)) (n : Nat) : List (Option (α × α)) :=
  match bounds with
  | none => List.replicate n none
  | some (lo, hi) => (List.zip lo hi).map some

/-- the vector `eps_vec` of `jacobian_fd` -/
def fdSteps (eps : α) (bounds : Option (Vec α × Vec α)) (x : Vec α) : Vec α :=
  List.zipWith (fun b xi => fdStep eps b xi) (coordBounds bounds x.length) x

/-- column `j` of `xh = x + np.diag(eps_vec)`: coordinate `i` is `x_i + (e_j if i = j else 0.0)` -/
def probePoint (x e : Vec α) (j : Nat) : Vec α :=
  (List.zip x.zipIdx e).map (fun (p : (α × Nat) × α) => p.1.1 + (if p.1.2 = j then p.2 else zero))

/-- all `n` probe points of `jacobian_fd`, in column order -/
def fdProbes (x e : Vec α) : List (Vec α) := (List.range x.length).map (probePoint x e)

/-- `proj = jac * D.T` with `jac = (rh - r) / eps_vec.T`; `rhs` lists the residual at each probe point.
    Row `k`, column `j`: `((rh_j[k] - r[k]) / e_j) * D_j`.  `none`: a probe residual is shorter than `r`
    (Python: broadcasting error). -/
def projMat (r : Vec α) (rhs : List (Vec α)) (e D : Vec α) : Option (Mat α) :=
  r.zipIdx.mapM (fun (p : α × Nat) =>
    (List.zip rhs (List.zip e D)).mapM (fun (q : Vec α × α × α) =>
      (q.1[p.2]?).map (fun rhk => ((rhk - p.1) / q.2.1) * q.2.2)))

/-- `clamped = ((x == lo) & (grad > 0)) | ((x == hi) & (grad < 0))` on one coordinate -/
def clamped1 (lo hi x g : α) : Bool :=
  (MjNum.beq x lo && decide (zero < g)) || (MjNum.beq x hi && decide (g < zero))

/-- `grad_free`: the gradient entries that are not clamped (`grad` itself without bounds) -/
def gradFree (bounds : Option (Vec α × Vec α)) (x grad : Vec α) : Vec α :=
  match bounds with
  | none => grad
  | some (lo, hi) =>
    ((List.zip (List.zip lo hi) (List.zip x grad)).filter
      (fun (p : (α × α) × (α × α)) => !clamped1 p.1.1 p.1.2 p.2.1 p.2.2)).map (fun p => p.2.2)

/-- `dlower = (bounds[0] - x) / D`, `dupper = (bounds[1] - x) / D` -/
def dBound (b x D : Vec α) : Vec α :=
  List.zipWith (fun (p : α × α) d => (p.1 - p.2) / d) (List.zip b x) D

def dBounds (bounds : Option (Vec α × Vec α)) (x D : Vec α) : Option (Vec α × Vec α) :=
  bounds.map (fun (p : Vec α × Vec α) => (dBound p.1 x D, dBound p.2 x D))

/-- `hess + mu * np.eye(n)` -/
def regularize (hess : Mat α) (mu : α) : Mat α :=
  hess.zipIdx.map (fun (p : Vec α × Nat) =>
    p.1.zipIdx.map (fun (q : α × Nat) => q.1 + mu * (if q.2 = p.2 then one else zero)))

/-- `x + D * dx` (before the clip to the bounds that `least_squares` applies to it) -/
def candidate (x D dx : Vec α) : Vec α :=
  List.zipWith (fun (p : α × α) d => p.1 + p.2 * d) (List.zip x D) dx

structure Params (α : Type) where
  eps : α
  muMin : α
  muMax : α
  muFactor : α
  xtol : α
  gtol : α
  /-- `armijo_c1 = 1e-2` -/
  c1 : α
  maxIter : Nat
  innerFuel : Nat
  /-- `n ↦ (1 / mu_factor) ** (2**n)` (libm `pow` on doubles, `x ^ (2^n)` on the reals) -/
  dmu : Nat → α

/-- `decrease_mu` -/
def decreaseMu (P : Params α) (mu : α) (nreduc : Nat) : α × Nat :=
  let d := P.dmu nreduc
  ((if mu * d < P.muMin then zero else mu * d), nreduc + 1)

/-- `increase_mu`: `max(mu_min, mu_factor * mu)` (Python `max`: the second if it is larger) -/
def increaseMu (P : Params α) (mu : α) : α × Nat :=
  let m := P.muFactor * mu
  ((if P.muMin < m then m else P.muMin), 0)

/-- Armijo: `armijo = reduction + c1 * (grad.T @ dx)`; the candidate is rejected iff `armijo < 0` -/
def armijoReject (c1 red gdx : α) : Bool := decide (red + c1 * gdx < zero)

/-- the row vector `v @ H` (`Σ_i v_i H[i][j]`, accumulated row by row from 0) -/
def vecMul (v : Vec α) (H : Mat α) (n : Nat) : Vec α :=
  (List.zip v H).foldl (fun acc (p : α × Vec α) => List.zipWith (· + ·) acc (p.2.map (p.1 * ·)))
    (List.replicate n zero)

/-- `expected_reduction = -(grad.T @ dx + 0.5 * dx.T @ hess @ dx)` (Python precedence:
    `((0.5 * dx.T) @ hess) @ dx`) -/
def expectedReduction (grad dx : Vec α) (hess : Mat α) : α :=
  -(dot grad dx + dot (vecMul (dx.map (half * ·)) hess dx.length) dx)

/-- `reduction_ratio` -/
def reductionRatio (red expred : α) : α := if expred ≤ zero then zero else red / expred

/-- the regulariser update at the end of an iteration (Fletcher) -/
def updateMu (P : Params α) (ratio mu : α) (nreduc : Nat) : α × Nat :=
  if MjNum.ofSci 75 true 2 < ratio then decreaseMu P mu nreduc
  else if ratio < MjNum.ofSci 25 true 2 then increaseMu P mu
  else (mu, nreduc)

/-- `dx_norm < xtol * (xtol + norm(x))` -/
def dxTolStop (P : Params α) (x D dx : Vec α) : Bool :=
  decide (norm2 (List.zipWith (· * ·) D dx) < P.xtol * (P.xtol + norm2 x))

structure Norm (α : Type) where
  value : Vec α → Option α
  gradHess : Vec α → Mat α → Option (Vec α × Mat α)

structure Problem (α : Type) where
  P : Params α
  bounds : Option (Vec α × Vec α)
  D : Vec α
  residual : Vec α → Option (Vec α)
  norm : Norm α
  /-- arguments: warm start (incoming `dx` buffer), `H`, `g`, `(dlower, dupper)` -/
  boxQP : Vec α → Mat α → Vec α → Option (Vec α × Vec α) → Option (QPResult α)

structure State (α : Type) where
  x : Vec α
  r : Vec α
  mu : α
  nreduc : Nat
  trace : List (IterLog α)
  /-- every point at which the residual was evaluated, in call order -/
  calls : List (Vec α)
  /-- the `dx` buffer handed to `mju_boxQP` (warm start) -/
  dx : Vec α

structure Result (α : Type) where
  x : Vec α
  r : Vec α
  status : Status
  /-- the loop variable `i` of the message "Terminated after {i} iterations" -/
  iters : Nat
  trace : List (IterLog α)
  calls : List (Vec α)
  mu : α

inductive SearchResult (α : Type) where
  | accepted (dx xnew rnew : Vec α) (red mu : α) (nreduc : Nat) (calls : List (Vec α))
  | stopped (st : Status) (mu : α) (nreduc : Nat) (calls : List (Vec α))

/-- One pass of `while armijo < 0: (while not factorizable: …) …`: one call of `mju_boxQP` and, if it
    factorised, one candidate.  `inr (mu, n_reduc, calls, dx buffer)`: go round again with an increased `mu`. -/
def searchStep (Q : Problem α) (x grad : Vec α) (hess : Mat α) (db : Option (Vec α × Vec α)) (y : α)
    (mu : α) (nr : Nat) (calls : List (Vec α)) (w : Vec α) :
    SearchResult α ⊕ (α × Nat × List (Vec α) × Vec α) :=
  match Q.boxQP w (regularize hess mu) grad db with
  | none => .inl (.stopped (.aborted "boxQP") mu nr calls)
  | some (.failed w') =>
    if Q.P.muMax ≤ mu then .inl (.stopped .factorizationFailed mu nr calls)
    else
      let m := increaseMu Q.P mu
      .inr (m.1, m.2, calls, w')
  | some (.ok dx) =>
    -- `xnew = x + D * dx; if bounds is not None: np.clip(xnew, bounds[0], bounds[1], out=xnew)`
    let xnew := clipStart Q.bounds (candidate x Q.D dx)
    match Q.residual xnew with
    | none => .inl (.stopped (.aborted "residual") mu nr (calls ++ [xnew]))
    | some rnew =>
      match Q.norm.value rnew with
      | none => .inl (.stopped (.aborted "norm.value") mu nr (calls ++ [xnew]))
      | some ynew =>
        let red := y - ynew
        if armijoReject Q.P.c1 red (dot grad dx) then
          if Q.P.muMax ≤ mu then .inl (.stopped .noImprovement mu nr (calls ++ [xnew]))
          else
            let m := increaseMu Q.P mu
            .inr (m.1, m.2, calls ++ [xnew], dx)
        else .inl (.accepted dx xnew rnew red mu nr (calls ++ [xnew]))

/-- The Armijo loop with the factorisation loop inside (`while armijo < 0: while not factorizable: …`). -/
def search (Q : Problem α) (x grad : Vec α) (hess : Mat α) (db : Option (Vec α × Vec α)) (y : α) :
    Nat → α → Nat → List (Vec α) → Vec α → SearchResult α
  | 0, mu, nr, calls, _ => .stopped .fuelOut mu nr calls
  | k + 1, mu, nr, calls, w =>
    match searchStep Q x grad hess db y mu nr calls w with
    | .inl r => r
    | .inr (mu', nr', calls', w') => search Q x grad hess db y k mu' nr' calls' w'

/-- the code after the `for` loop: the final log entry -/
def finish (Q : Problem α) (s : State α) (st : Status) (i : Nat) : Result α :=
  match Q.norm.value s.r with
  | none => ⟨s.x, s.r, .aborted "norm.value", i, s.trace, s.calls, s.mu⟩
  | some yf => ⟨s.x, s.r, st, i, s.trace ++ [⟨s.x, yf, zero, s.mu⟩], s.calls, s.mu⟩

def abort (s : State α) (what : String) (i : Nat) : Result α :=
  ⟨s.x, s.r, .aborted what, i, s.trace, s.calls, s.mu⟩

/-- The body of `for i in range(max_iter)`: `inl` = the loop is left (break), `inr` = next iteration. -/
def iterStep (Q : Problem α) (i : Nat) (s : State α) : Result α ⊕ State α :=
  match Q.norm.value s.r with
  | none => .inl (abort s "norm.value" i)
  | some y =>
    let e := fdSteps Q.P.eps Q.bounds s.x
    let probes := fdProbes s.x e
    let calls := s.calls ++ probes
    match probes.mapM Q.residual with
    | none => .inl (abort { s with calls := calls } "residual" i)
    | some rhs =>
      match (projMat s.r rhs e Q.D).bind (Q.norm.gradHess s.r) with
      | none => .inl (abort { s with calls := calls } "norm.grad_hess" i)
      | some (grad, hess) =>
        if norm2 (gradFree Q.bounds s.x grad) ≤ Q.P.gtol then
          .inl (finish Q { s with calls := calls } .gTol i)
        else
          match search Q s.x grad hess (dBounds Q.bounds s.x Q.D) y Q.P.innerFuel s.mu s.nreduc calls s.dx with
          | .stopped st mu nr calls' =>
            -- FACTORIZATION_FAILED / NO_IMPROVEMENT: `x`, `r` are not updated
            (match st with
             | .aborted w => .inl (abort { s with mu := mu, nreduc := nr, calls := calls' } w i)
             | st => .inl (finish Q { s with mu := mu, nreduc := nr, calls := calls' } st i))
          | .accepted dx xnew rnew red mu nr calls' =>
            let ratio := reductionRatio red (expectedReduction grad dx hess)
            let trace := s.trace ++ [⟨s.x, y, red, mu⟩]
            if dxTolStop Q.P s.x Q.D dx then
              .inl (finish Q ⟨xnew, rnew, mu, nr, trace, calls', dx⟩ .dxTol i)
            else
              let m := updateMu Q.P ratio mu nr
              .inr ⟨xnew, rnew, m.1, m.2, trace, calls', dx⟩

/-- `for i in range(max_iter)`: `rem` iterations remain, the next one has index `i`
    (when the range is exhausted Python's `i` is the last index, `0` for an empty range). -/
def iterate (Q : Problem α) : Nat → Nat → State α → Result α
  | 0, i, s => finish Q s .maxIter (i - 1)
  | rem + 1, i, s =>
    match iterStep Q i s with
    | .inl r => r
    | .inr s' => iterate Q rem (i + 1) s'

/-- `least_squares(x0, residual, bounds, x_scale=D, …)` -/
def leastSquares (Q : Problem α) (x0 : Vec α) : Result α :=
  let x := clipStart Q.bounds x0
  match Q.residual x with
  | none => ⟨x, [], .aborted "residual", 0, [], [x], zero⟩
  | some r => iterate Q Q.P.maxIter 0 ⟨x, r, zero, 0, [], [x], List.replicate x0.length zero⟩

end
end MjProof.LeastSquares
