/-
Model of the MJCF schema validator of `src/xml/xml_util.cc` (C37):

  * `build`      `mjXSchema::mjXSchema(schema[], nrow, constraints, nconstraint, first_row)`: the flat row table
                 `MJCF[]` of `src/xml/generated/mjcf_table.inc` ({name, type, attrs...} rows with {"<"} / {">"}
                 nesting markers) and the companion `MJCF_constraints[]` become a tree of schema nodes;
  * `nameMatch`  `mjXSchema::NameMatch` (body row also matches worldbody at level 1, and frame / replicate);
  * `conError`   `mjXSchema::CheckConstraints` (presence constraints e / t / r / o over attribute bundles);
  * `check`      `mjXSchema::Check(elem, level)`: name, attributes, presence constraints, recursion into
                 same-named children of an 'R' node, child loop with first-match sub-schema lookup and
                 reference counts, cardinalities '!' and '?'; errors carry the message text and the offending
                 element (name, line) exactly as `mjXReader::Parse` reports them;
  * `printSchema` `mjXSchema::Print` (what `mj_printSchema` returns) -- used to tie `build` to the real constructor.

The XML document is the abstract element tree the reader sees after tinyxml2 parsing and `<include>` expansion
(`FirstChildElement`/`NextSiblingElement` of xml_util.cc splice the children of `include` elements; documents given
to the model contain no `include` elements).  Text, comments and attribute VALUES play no role in `Check`.

`check` takes a flag `aliasRec`.  `aliasRec = false` is the code as it stands: step "handle recursion" visits the
children whose tag EQUALS the node's name (`FirstChildElement(elem, name_.c_str())`), so `frame` / `replicate`
children of a body -- admitted by `NameMatch` in the child loop -- are never validated.  `aliasRec = true` is the
variant in which that step visits every child admitted by `NameMatch` (what the comment in mjcf.schema, "the runtime
validator admits the full body surface for all three aliases", describes).  Core Lean only.
-/
namespace MjProof.XmlSchema

/-- an XML element: tag, line number, attributes (name, value) in document order, child elements -/
inductive Xml where
  | mk (name : String) (line : Nat) (attrs : List (String × String)) (kids : List Xml)
  deriving Repr, Inhabited

namespace Xml
def name : Xml → String | .mk n _ _ _ => n
def line : Xml → Nat | .mk _ l _ _ => l
def attrs : Xml → List (String × String) | .mk _ _ a _ => a
def kids : Xml → List Xml | .mk _ _ _ k => k
end Xml

/-- `mjXConstraintDef` after the split of `spec` into bundles (done by `parseSpec`) -/
structure Con where
  kind : Char
  bundles : List (List String)
  deriving Repr, DecidableEq, Inhabited

/-- one `mjXSchema` object -/
inductive Node where
  | mk (name : String) (type : Char) (attrs : List String) (cons : List Con) (subs : List Node)
  deriving Repr, Inhabited

namespace Node
def name : Node → String | .mk n _ _ _ _ => n
def type : Node → Char | .mk _ t _ _ _ => t
def attrs : Node → List String | .mk _ _ a _ _ => a
def cons : Node → List Con | .mk _ _ _ c _ => c
def subs : Node → List Node | .mk _ _ _ _ s => s
end Node

/-- what `mjXReader::Parse` throws: "Schema violation: <msg>\nElement '<elem>', line <line>" -/
structure Err where
  msg : String
  elem : String
  line : Nat
  deriving Repr, DecidableEq, Inhabited

abbrev Res := Except Err Unit

/-! ### NameMatch -/

/-- `mjXSchema::NameMatch(elem, level)` for a node called `sname` and an element called `ename` -/
def nameMatch (sname ename : String) (level : Nat) : Bool :=
  (sname == "body" &&
    ((level == 1 && ename == "worldbody") ||
     (level != 1 && ename == "body") ||
     (decide (level ≥ 1) && ename == "frame") ||
     (decide (level ≥ 1) && ename == "replicate")))
  || sname == ename

/-! ### presence constraints -/

/-- split `spec`: attribute names separated by ' ' within a bundle, bundles separated by '|' -/
def parseSpec (spec : String) : List (List String) :=
  (spec.splitOn "|").map (fun b => (b.splitOn " ").filter (· ≠ ""))

def present (attrs : List (String × String)) (a : String) : Bool := attrs.any (·.1 == a)

/-- quoted list of bundles: 'a' or ('a', 'b'), comma-joined (`BundleList`) -/
def bundleList (bundles : List (List String)) : String :=
  ", ".intercalate (bundles.map fun b =>
    match b with
    | [a] => "'" ++ a ++ "'"
    | _ => "(" ++ ", ".intercalate (b.map fun a => "'" ++ a ++ "'") ++ ")")

/-- number of bundles with at least one member present -/
def nAny (attrs : List (String × String)) (bs : List (List String)) : Nat :=
  (bs.filter fun b => b.any (present attrs)).length
/-- number of bundles with every member present -/
def nAll (attrs : List (String × String)) (bs : List (List String)) : Nat :=
  (bs.filter fun b => b.all (present attrs)).length
def nAttr (bs : List (List String)) : Nat := (bs.map List.length).sum
def nPresent (attrs : List (String × String)) (bs : List (List String)) : Nat :=
  (bs.map fun b => (b.filter (present attrs)).length).sum

/-- one constraint: `none` = satisfied, `some msg` = violated.  For kind 'r' the C code reads `bundles[0][0]` and
    `bundles[1][0]` unconditionally; a constraint without those two entries (never generated) is reported here as
    its own error instead of modelling the out-of-range read. -/
def conError (attrs : List (String × String)) (c : Con) : Option String :=
  if c.kind == 'e' then
    if nAny attrs c.bundles > 1 then some ("at most one of " ++ bundleList c.bundles ++ " can be specified") else none
  else if c.kind == 't' then
    if nPresent attrs c.bundles != 0 && nPresent attrs c.bundles != nAttr c.bundles then
      some ("attributes " ++ bundleList c.bundles ++ " must be specified together") else none
  else if c.kind == 'r' then
    match c.bundles with
    | (a :: _) :: (b :: _) :: _ =>
      if present attrs a && !present attrs b then
        some ("attribute '" ++ a ++ "' requires attribute '" ++ b ++ "'") else none
    | _ => some "malformed requires-constraint"
  else if c.kind == 'o' then
    if nAll attrs c.bundles == 0 then some ("one of " ++ bundleList c.bundles ++ " must be specified") else none
  else none

/-- first violated constraint in table order -/
def consError (attrs : List (String × String)) : List Con → Option String
  | [] => none
  | c :: cs => match conError attrs c with
    | some m => some m
    | none => consError attrs cs

/-! ### child bookkeeping -/

/-- the sub-schema the child loop picks for a child called `ename`: the FIRST one whose NameMatch holds -/
def assign (subs : List Node) (ename : String) (level : Nat) : Option Node :=
  subs.find? fun sub => nameMatch sub.name ename (level + 1)

/-- index of that sub-schema -/
def assignIdx (subs : List Node) (ename : String) (level : Nat) : Option Nat :=
  subs.findIdx? fun sub => nameMatch sub.name ename (level + 1)

/-- `refcnt_` of the `i`-th sub-schema after the child loop -/
def refcnt (subs : List Node) (level : Nat) (kids : List Xml) (i : Nat) : Nat :=
  (kids.filter fun k => assignIdx subs k.name level == some i).length

/-- message of one sub-schema in the "enforce sub-element types" loop -/
def cardMsg (sub : Node) (cnt : Nat) : Option String :=
  if sub.type == '!' then
    if cnt > 1 then some ("unique element '" ++ sub.name ++ "' found " ++ toString cnt ++ " times")
    else if cnt < 1 then some ("element '" ++ sub.name ++ "' is required")
    else none
  else if sub.type == '?' then
    if cnt > 1 then some ("unique element '" ++ sub.name ++ "' found " ++ toString cnt ++ " times") else none
  else none

/-- the loop overwrites `msg`: the LAST offending sub-schema determines the message -/
def cardError (subs : List Node) (level : Nat) (kids : List Xml) : Option String :=
  (subs.zipIdx.filterMap fun (sub, i) => cardMsg sub (refcnt subs level kids i)).getLast?

/-! ### Check -/

/-- which children the "handle recursion" step of an 'R' node visits -/
def recSel (aliasRec : Bool) (sname : String) (level : Nat) (k : Xml) : Bool :=
  if aliasRec then nameMatch sname k.name (level + 1) else k.name == sname

mutual
/-- `mjXSchema::Check(elem, level)`; `.ok ()` = returns nullptr -/
def check (aliasRec : Bool) (s : Node) (level : Nat) : Xml → Res
  | .mk name line attrs kids =>
    if !nameMatch s.name name level then .error ⟨"unrecognized element", name, line⟩ else
    match attrs.find? (fun a => !s.attrs.contains a.1) with
    | some a => .error ⟨"unrecognized attribute: '" ++ a.1 ++ "'", name, line⟩
    | none =>
    match consError attrs s.cons with
    | some m => .error ⟨m, name, line⟩
    | none =>
    match (if s.type == 'R' then checkRec aliasRec s level kids else .ok ()) with
    | .error e => .error e
    | .ok _ =>
    match checkKids aliasRec s level kids with
    | .error e => .error e
    | .ok _ =>
    match cardError s.subs level kids with
    | some m => .error ⟨m, name, line⟩
    | none => .ok ()

/-- "handle recursion": children validated against the node itself -/
def checkRec (aliasRec : Bool) (s : Node) (level : Nat) : List Xml → Res
  | [] => .ok ()
  | k :: ks =>
    match (if recSel aliasRec s.name level k then check aliasRec s (level + 1) k else .ok ()) with
    | .error e => .error e
    | .ok _ => checkRec aliasRec s level ks

/-- "check sub-elements": each child against the first sub-schema that matches its tag -/
def checkKids (aliasRec : Bool) (s : Node) (level : Nat) : List Xml → Res
  | [] => .ok ()
  | k :: ks =>
    match assign s.subs k.name level with
    | some sub =>
      (match check aliasRec sub (level + 1) k with
       | .error e => .error e
       | .ok _ => checkKids aliasRec s level ks)
    | none =>
      if s.type == 'R' && nameMatch s.name k.name (level + 1) then checkKids aliasRec s level ks
      else .error ⟨"unrecognized element", k.name, k.line⟩
end

/-! ### the constructor: flat rows -> tree -/

abbrev Row := List String

def rowIs (r : Row) (c : Char) : Bool :=
  match r with
  | h :: _ => h.front == c
  | [] => false

/-- constraint table entry as in `MJCF_constraints[]` -/
structure ConDef where
  row : Nat
  kind : Char
  spec : String
  deriving Repr, Inhabited

/-- scan for the index (relative to the block) of the '>' closing the bracket opened after `start` -/
def closing (rows : Array Row) (lo nrow : Nat) : (fuel : Nat) → (e : Nat) → (cnt : Int) → Option Nat
  | 0, _, _ => none
  | fuel + 1, e, cnt =>
    if e > nrow - 1 then none else
    match rows[lo + e]? with
    | none => none
    | some r =>
      if rowIs r '<' then closing rows lo nrow fuel (e + 1) (cnt + 1)
      else if rowIs r '>' then (if cnt - 1 == 0 then some e else closing rows lo nrow fuel (e + 1) (cnt - 1))
      else closing rows lo nrow fuel (e + 1) cnt

mutual
/-- `mjXSchema(schema + lo, nrow, constraints, nconstraint, first_row)`; `none` = the C code would read outside
    the table -/
def build (rows : Array Row) (cons : List ConDef) : (fuel : Nat) → (lo nrow firstRow : Nat) → Option Node
  | 0, _, _, _ => none
  | fuel + 1, lo, nrow, firstRow =>
    match rows[lo]? with
    | some (name :: ty :: attrs) =>
      match ty.toList with
      | [] => none
      | t :: _ =>
        let own := (cons.filter fun c => c.row == firstRow).map fun c => (⟨c.kind, parseSpec c.spec⟩ : Con)
        if nrow > 1 then
          match buildSubs rows cons fuel lo nrow firstRow 2 with
          | some subs => some (.mk name t attrs own subs)
          | none => none
        else some (.mk name t attrs own [])
    | _ => none

def buildSubs (rows : Array Row) (cons : List ConDef) : (fuel : Nat) → (lo nrow firstRow start : Nat) → Option (List Node)
  | 0, _, _, _, _ => none
  | fuel + 1, lo, nrow, firstRow, start =>
    if start < nrow - 1 then
      match rows[lo + start + 1]? with
      | none => none
      | some nxt =>
        let e? : Option Nat := if rowIs nxt '<' then closing rows lo nrow (nrow + 1) start 0 else some start
        match e? with
        | none => none
        | some e =>
          match build rows cons fuel (lo + start) (e - start + 1) (firstRow + start) with
          | none => none
          | some sub =>
            match buildSubs rows cons fuel lo nrow firstRow (e + 1) with
            | none => none
            | some rest => some (sub :: rest)
    else some []
end

def buildTable (rows : Array Row) (cons : List ConDef) : Option Node :=
  build rows cons (2 * rows.size + 2) 0 rows.size 0

/-! ### Print (mj_printSchema, text form) -/

def insertSorted (a : String) : List String → List String
  | [] => [a]
  | b :: bs => if a < b then a :: b :: bs else if a == b then b :: bs else b :: insertSorted a bs

/-- `std::set<std::string>` iteration order -/
def sortedSet (l : List String) : List String := l.foldl (fun acc a => insertSorted a acc) []

def spaces (n : Nat) : String := String.ofList (List.replicate n ' ')

/-- the attribute part of one `Print` line: wrap when the running column exceeds 60 -/
def printAttrs (baselen : Nat) : List String → (cnt : Nat) → String
  | [], _ => ""
  | a :: as, cnt =>
    if cnt > 60 then
      let c := max 30 baselen
      "\n" ++ spaces c ++ a ++ " " ++ printAttrs baselen as (c + a.length + 1)
    else a ++ " " ++ printAttrs baselen as (cnt + a.length + 1)

mutual
def printNode (level : Nat) : Node → String
  | .mk name type attrs _ subs =>
    let name1 := if name == "body" then "(world)body" else name
    let baselen := 3 * level + name1.length + 4
    let head := spaces (3 * level) ++ name1 ++ " (" ++ String.singleton type ++ ")" ++
      (if baselen < 30 then spaces (30 - baselen) else "")
    head ++ printAttrs baselen (sortedSet attrs) (max baselen 30) ++ "\n" ++ printNodes (level + 1) subs
def printNodes (level : Nat) : List Node → String
  | [] => ""
  | n :: ns => printNode level n ++ printNodes level ns
end

/-! ### well-formedness of a grammar tree (used for the generated table only) -/

mutual
/-- sibling nodes carry pairwise different names and types are among ! ? * R, at every level -/
def wfNode : Node → Bool
  | .mk _ type _ _ subs =>
    (type == '!' || type == '?' || type == '*' || type == 'R') && wfNodes subs &&
      (subs.map Node.name).Nodup
def wfNodes : List Node → Bool
  | [] => true
  | n :: ns => wfNode n && wfNodes ns
end

end MjProof.XmlSchema
