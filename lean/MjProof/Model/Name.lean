import MjProof.Gen.NameOrder
/-
Executable model of MuJoCo's name tables (C34):
  * `mj_hashString`, `_getnumadr`, `mj_name2id`, `mj_id2name`          (src/engine/engine_name.c)
  * `addtolist`, `namelist`, `mjCModel::CopyNames`                     (src/user/user_model.cc)
  * `nnames_map = mjLOAD_MULTIPLE * Σ counts`                           (src/engine/engine_io.c)

Core Lean only.  C `int`/`uint64_t` quantities that are array sizes or indices are `Nat`/`Int` here; this is
faithful as long as they fit in an `int`, which `mj_makeModel` enforces (`nnames_map < INT_MAX`).  The hash
itself is computed in `UInt64` exactly as in C.  Every array read is bounds-checked: an out-of-range read
(undefined behaviour in C) makes the model return `none`.

The object-type orders (the `_getnumadr` fall-through chain, the order of the `namelist` calls in `CopyNames`,
the terms of the `nnames_map` sum), `mjLOAD_MULTIPLE` and the hash constants are *parameters* of the model;
their actual values are regenerated from the source into `MjProof/Gen/NameOrder.lean`.
-/
namespace MjProof.Name

/-- C string contents: bytes; a terminating NUL is implicit -/
abbrev Bytes := List UInt8

/-! ### mj_hashString -/

/-- `int c = *s++` with `char` signed (x86-64 SysV gcc/clang), then the usual arithmetic conversion of `c`
    to `uint64_t` in `h ^ c`: sign extension. -/
def charToU64 (c : UInt8) : UInt64 :=
  if c < 128 then c.toUInt64 else c.toUInt64 ||| 0xFFFFFFFFFFFFFF00

/-- `while ((c = *s++)) h = ((h << shift) + h) ^ c;`  (stops at the first NUL byte) -/
def hashLoop (shift : UInt64) : Bytes → UInt64 → UInt64
  | [], h => h
  | c :: cs, h => if c = 0 then h else hashLoop shift cs (((h <<< shift) + h) ^^^ charToU64 c)

/-- `mj_hashString(s, n)` with `uint64_t h = init` -/
def hashString (init shift : Nat) (s : Bytes) (n : Nat) : Nat :=
  (hashLoop shift.toUInt64 s init.toUInt64 % n.toUInt64).toNat

/-- parameters shared by builder and lookup: `mjLOAD_MULTIPLE` and the hash function -/
structure Params where
  lm : Nat
  hash : Bytes → Nat → Nat

/-! ### namelist: hash-map segment of one object list -/

/-- `for (; map[j] != -1; j = (j + 1) % map_size) {}` started at `j`; `fuel` bounds the number of iterations
    (`none`: the C loop would not have ended within `fuel` iterations, or read out of range) -/
def findSlot (map : List Int) (size : Nat) : Nat → Nat → Option Nat
  | 0, _ => none
  | fuel + 1, j =>
    match map[j]? with
    | none => none
    | some v => if v = -1 then some j else findSlot map size fuel ((j + 1) % size)

/-- first loop of `namelist` over `list[i..]`: skip empty names, insert `i` at the first free slot -/
def insertNames (P : Params) (size : Nat) : List Bytes → Nat → List Int → Option (List Int)
  | [], _, map => some map
  | s :: rest, i, map =>
    if s = [] then insertNames P size rest (i + 1) map
    else
      match findSlot map size size (P.hash s size) with
      | none => none
      | some j => insertNames P size rest (i + 1) (map.set j (i : Int))

/-- the map segment written by `namelist` for one list (after `memset(-1)`) -/
def namelistMap (P : Params) (names : List Bytes) : Option (List Int) :=
  insertNames P (P.lm * names.length) names 0 (List.replicate (P.lm * names.length) (-1))

/-- second loop of `namelist` (`addtolist`): addresses and bytes appended to `names`, starting at `adr` -/
def addNames : List Bytes → Nat → List Nat × Bytes
  | [], _ => ([], [])
  | s :: rest, adr =>
    let r := addNames rest (adr + s.length + 1)
    (adr :: r.1, s ++ 0 :: r.2)

/-- number of bytes `addNames` appends -/
def blobLen : List Bytes → Nat
  | [] => 0
  | s :: rest => s.length + 1 + blobLen rest

/-! ### the name-related part of mjModel -/

structure CModel where
  /-- object count by field id (`m->nbody`, ...: the dimension of the field's `name_*adr` array) -/
  cnt : Nat → Nat
  /-- `name_*adr` arrays by field id -/
  adr : Nat → List Nat
  nnames_map : Nat
  names_map : List Int
  /-- `names` (`nnames = names.length`) -/
  names : Bytes

/-- all `namelist` calls of `CopyNames` for the fields in `chain`, starting at name address `adr`:
    (`name_*adr` arrays, concatenated map segments, bytes appended to `names`) -/
def copyChain (P : Params) (lists : Nat → List Bytes) : List Nat → Nat →
    Option (List (Nat × List Nat) × List Int × Bytes)
  | [], _ => some ([], [], [])
  | f :: rest, adr =>
    match namelistMap P (lists f), copyChain P lists rest (adr + blobLen (lists f)) with
    | some seg, some (as, mp, bl) =>
      let r := addNames (lists f) adr
      some ((f, r.1) :: as, seg ++ mp, r.2 ++ bl)
    | _, _ => none

def lookupAdr : List (Nat × List Nat) → Nat → List Nat
  | [], _ => []
  | (f, a) :: rest, g => if f = g then a else lookupAdr rest g

def sumCounts (lists : Nat → List Bytes) : List Nat → Nat
  | [] => 0
  | f :: rest => (lists f).length + sumCounts lists rest

/-- `mj_makeModel` sizes + `mjCModel::CopyNames`: `sumFields` are the fields whose counts enter `nnames_map`,
    `chain` the fields in the order of the `namelist` calls.  `none`: a write beyond `names_map`. -/
def copyNames (P : Params) (chain sumFields : List Nat) (modelname : Bytes) (lists : Nat → List Bytes) :
    Option CModel :=
  let nmap := P.lm * sumCounts lists sumFields
  match copyChain P lists chain (modelname.length + 1) with
  | none => none
  | some (as, mp, bl) =>
    if mp.length ≤ nmap then
      some { cnt := fun f => (lists f).length
             adr := lookupAdr as
             nnames_map := nmap
             names_map := mp ++ List.replicate (nmap - mp.length) (-1)
             names := modelname ++ 0 :: bl }
    else none

/-! ### _getnumadr -/

/-- one block of the `_getnumadr` switch -/
structure Entry where
  cases : List Int
  cntField : Nat
  adrField : Nat
  deriving DecidableEq, Repr

/-- the fall-through part: every block from the entry point on subtracts its `mjLOAD_MULTIPLE*count` -/
def mapadrFrom (lm : Nat) (m : CModel) : List Entry → Int → Int
  | [], a => a
  | e :: es, a => mapadrFrom lm m es (a - ((lm * m.cnt e.cntField : Nat) : Int))

/-- `_getnumadr`: the block whose case label matches (`none`: `default`, i.e. `num = 0`, `*padr = 0`) and
    the final `*mapadr` -/
def getnumadr (lm : Nat) (m : CModel) (type : Int) : List Entry → Int → Option Entry × Int
  | [], a => (none, a)
  | e :: es, a =>
    if e.cases.contains type then (some e, mapadrFrom lm m (e :: es) a) else getnumadr lm m type es a

/-! ### mj_name2id -/

/-- `!strncmp(a, b, n)` where `a` is the query (its bytes followed by a NUL) and `b` is exactly the `n` bytes
    of `names` from the address on -/
def strncmpEq : Bytes → Bytes → Bool
  | _, [] => true
  | [], b :: _ => b == 0
  | a :: as, b :: bs => if a != b then false else if a == 0 then true else strncmpEq as bs

/-- `!strncmp(name, m->names + a, m->nnames - a)` -/
def cstrEqAt (names q : Bytes) (a : Nat) : Option Bool :=
  if a ≤ names.length then some (strncmpEq q (names.drop a)) else none

/-- the `do … while (i != hash)` loop of `mj_name2id`; `fuel` bounds the number of iterations -/
def probe (map : List Int) (mapadr : Int) (num hash : Nat) (eqAt : Nat → Option Bool) : Nat → Nat → Option Int
  | 0, _ => none
  | fuel + 1, i =>
    let idx := mapadr + (i : Int)
    if idx < 0 then none
    else
      match map[idx.toNat]? with
      | none => none
      | some j =>
        if j < 0 then some (-1)
        else
          match eqAt j.toNat with
          | none => none
          | some true => some j
          | some false =>
            let i' := if i + 1 = num then 0 else i + 1
            if i' = hash then some (-1) else probe map mapadr num hash eqAt fuel i'

def eqAtField (m : CModel) (f : Nat) (q : Bytes) (j : Nat) : Option Bool :=
  match (m.adr f)[j]? with
  | none => none
  | some a => cstrEqAt m.names q a

/-- `mj_name2id(m, type, q)`; `none` = undefined behaviour (out-of-range read) -/
def name2id (P : Params) (chain : List Entry) (m : CModel) (type : Int) (q : Bytes) : Option Int :=
  match getnumadr P.lm m type chain m.nnames_map with
  | (none, _) => some (-1)
  | (some e, mapadr) =>
    let num := P.lm * m.cnt e.cntField
    if num = 0 then some (-1)
    else
      let hash := P.hash q num
      probe m.names_map mapadr num hash (eqAtField m e.adrField q) num hash

/-! ### mj_id2name -/

/-- the C string starting at the head of the list (`none`: no terminating NUL before the end of the buffer) -/
def readCStr : Bytes → Option Bytes
  | [] => none
  | c :: cs => if c = 0 then some [] else (readCStr cs).map (c :: ·)

/-- `mj_id2name(m, type, id)`: outer `none` = undefined behaviour, `some none` = NULL -/
def id2name (P : Params) (chain : List Entry) (m : CModel) (type : Int) (id : Int) : Option (Option Bytes) :=
  match getnumadr P.lm m type chain m.nnames_map with
  | (none, _) => some none
  | (some e, _) =>
    if 0 ≤ id ∧ id < (m.cnt e.cntField : Int) then
      match (m.adr e.adrField)[id.toNat]? with
      | none => none
      | some a =>
        match m.names[a]? with
        | none => none
        | some c => if c ≠ 0 then (readCStr (m.names.drop a)).map some else some none
    else some none

/-! ### the model instantiated with the tables generated from the source tree -/

namespace Tree
open MjProof.Gen

/-- `mjLOAD_MULTIPLE` (first definition found; `Props/C34.lean` proves that all definitions agree) and
    `mj_hashString` with the constants of the tree -/
def params : Params :=
  { lm := NameOrder.loadMultiples.headD 0
    hash := hashString NameOrder.hashInit NameOrder.hashShift }

/-- the `_getnumadr` chain of the tree -/
def chain : List Entry :=
  NameOrder.getnumadrChain.map fun (cs, c, a) => { cases := cs.map Int.ofNat, cntField := c, adrField := a }

/-- `mj_makeModel` + `CopyNames` of the tree -/
def build (modelname : Bytes) (lists : Nat → List Bytes) : Option CModel :=
  copyNames params NameOrder.copyNamesChain NameOrder.makeModelSum modelname lists

def name2id (m : CModel) (type : Int) (q : Bytes) : Option Int := Name.name2id params chain m type q
def id2name (m : CModel) (type : Int) (id : Int) : Option (Option Bytes) := Name.id2name params chain m type id

end Tree

end MjProof.Name
