import MjProof.Num
/-
Executable model of the kinetic-energy computation of the engine (C08):

  src/engine/engine_sensor.c      : mj_energyVel      energy[1] = 0.5 * mju_dot(M*qvel, qvel, nv)
  src/engine/engine_support.c     : mj_mulM           = mju_mulSymVecSparse(res, d->M, vec, nv, M_rownnz, M_rowadr, M_colind)
  src/engine/engine_util_sparse.c : mju_mulSymVecSparse   (lower-triangular CSR, diagonal stored last in each row)
                                    mju_sym2dense         (mj_fullM)
  src/engine/engine_util_blas.c   : mju_dot               (four interleaved accumulators + 1..3 element tail)

`mju_mulSymVecSparse` mutates `res` in place (`res[i] = diag*vec[i]`, then for the stored strict-lower entries
of row `i`, last to first: `res[i] += val*vec[j]; res[j] += val*vec[i]`).  Because every stored column of row
`i` is `< i` (the drivers on both sides refuse anything else), the value finally left in `res[i]` is the sum,
in this order, of: the diagonal term; the strict-lower terms of row `i` (last to first); then, for each later
row `i' > i` in increasing order, its entries with column `i` (last to first).  `mulSymVec` computes exactly
this sum in exactly this order, so on `Float` it is bitwise the C result.  Generic over `MjNum α`; core Lean only.
-/
namespace MjProof.Energy
open MjProof

variable {α : Type} [MjNum α]

def zero : α := MjNum.ofInt 0
/-- `0.5` -/
def half : α := MjNum.ofSci 5 true 1

/-- one row of the lower-triangular CSR inertia: the strict-lower entries `(column, value)` in storage
    order and the diagonal value (stored last in the row) -/
structure SymRow (α : Type) (n : Nat) where
  offs : List (Fin n × α)
  diag : α

/-- add the strict-lower terms of a row, last stored entry first (`for k = diag-1 downto 0`) -/
def addLower {n : Nat} (r : SymRow α n) (v : Fin n → α) (s : α) : α :=
  r.offs.reverse.foldl (fun s p => s + p.2 * v p.1) s

/-- add the contributions of row `i'` to `res[i]` (`res[j] += val*vec[i']` for its entries with `j = i`) -/
def addUpper {n : Nat} (r : SymRow α n) (i : Fin n) (vi' : α) (s : α) : α :=
  r.offs.reverse.foldl (fun s p => if p.1 = i then s + p.2 * vi' else s) s

/-- component `i` of `mju_mulSymVecSparse(res, M, v, n, rownnz, rowadr, colind)` -/
def mulSymVec {n : Nat} (rows : Fin n → SymRow α n) (v : Fin n → α) (i : Fin n) : α :=
  let s1 := addLower (rows i) v ((rows i).diag * v i)
  (List.finRange n).foldl (fun s i' => if i < i' then addUpper (rows i') i (v i') s else s) s1

/-- `mju_dot(a, b, n)`: four interleaved accumulators over the blocks of four, then the 1–3 element tail -/
def dotAcc (r0 r1 r2 r3 : α) : List (α × α) → α
  | a0 :: a1 :: a2 :: a3 :: rest =>
      dotAcc (r0 + a0.1 * a0.2) (r1 + a1.1 * a1.2) (r2 + a2.1 * a2.2) (r3 + a3.1 * a3.2) rest
  | [a0, a1, a2] => ((r0 + r2) + (r1 + r3)) + ((a0.1 * a0.2 + a1.1 * a1.2) + a2.1 * a2.2)
  | [a0, a1] => ((r0 + r2) + (r1 + r3)) + (a0.1 * a0.2 + a1.1 * a1.2)
  | [a0] => ((r0 + r2) + (r1 + r3)) + a0.1 * a0.2
  | [] => (r0 + r2) + (r1 + r3)

def dot (l : List (α × α)) : α := dotAcc zero zero zero zero l

/-- `mj_energyVel`: `energy[1] = 0.5 * mju_dot(M*qvel, qvel, nv)` -/
def energyVel {n : Nat} (rows : Fin n → SymRow α n) (v : Fin n → α) : α :=
  half * dot ((List.finRange n).map (fun i => (mulSymVec rows v i, v i)))

/-- `mju_sym2dense` / `mj_fullM`, entry `(i, j)`: the diagonal, or the stored value with row `max i j` and
    column `min i j` (the last such entry wins, as the C loop overwrites); `0` if nothing is stored -/
def denseEntry {n : Nat} (rows : Fin n → SymRow α n) (i j : Fin n) : α :=
  if i = j then (rows i).diag
  else
    let (r, c) := if j < i then (i, j) else (j, i)
    (rows r).offs.foldl (fun acc p => if p.1 = c then p.2 else acc) zero

/-- well-formed storage: every stored strict-lower column of row `i` is `< i` (checked by the drivers
    before either side runs) -/
def wf {n : Nat} (rows : Fin n → SymRow α n) : Bool :=
  (List.finRange n).all (fun i => (rows i).offs.all (fun p => decide (p.1 < i)))

end MjProof.Energy
