import MjProof.Num
import MjProof.Gen.Kernels
/-
Executable model of the kinetic-energy computation of the engine (C08):

  src/engine/engine_sensor.c      : mj_energyVel      energy[1] = 0.5 * mju_dot(M*qvel, qvel, nv)
  src/engine/engine_support.c     : mj_mulM           = mju_mulSymVecSparse(res, d->M, vec, nv, M_rownnz, M_rowadr, M_colind)
  src/engine/engine_util_sparse.c : mju_mulSymVecSparse   (lower-triangular CSR, diagonal stored last in each row)
                                    mju_sym2dense         (mj_fullM)
  src/engine/engine_util_blas.c   : mju_dot               (four interleaved accumulators + 1..3 element tail)

`mju_mulSymVecSparse` mutates `res` in place (`res[i] = diag*vec[i]`, then for the stored strict-lower entries
of row `i`, last to first: `res[i] += val*vec[j]; res[j] += val*vec[i]`).  Because every stored column of row
`i` is `< i` (the drivers on both sides refuse anything else), the value finally left in `res[i]` is the sum,
in this order, of: the diagonal term; the strict-lower terms of row `i` (last to first); then, for each later
row `i' > i` in increasing order, its entries with column `i` (last to first).  `mulSymVec` computes exactly
this sum in exactly this order, so on `Float` it is bitwise the C result.  Generic over `MjNum α`; core Lean only.
-/
namespace MjProof.Energy
open MjProof

variable {α : Type} [MjNum α]

def zero : α := MjNum.ofInt 0
/-- `0.5` -/
def half : α := MjNum.ofSci 5 true 1

/-- one row of the lower-triangular CSR inertia: the strict-lower entries `(column, value)` in storage
    order and the diagonal value (stored last in the row) -/
structure SymRow (α : Type) (n : Nat) where
  offs : List (Fin n × α)
  diag : α

/-- add the strict-lower terms of a row, last stored entry first (`for k = diag-1 downto 0`) -/
def addLower {n : Nat} (r : SymRow α n) (v : Fin n → α) (s : α) : α :=
  r.offs.reverse.foldl (fun s p => s + p.2 * v p.1) s

/-- add the contributions of row `i'` to `res[i]` (`res[j] += val*vec[i']` for its entries with `j = i`) -/
def addUpper {n : Nat} (r : SymRow α n) (i : Fin n) (vi' : α) (s : α) : α :=
  r.offs.reverse.foldl (fun s p => if p.1 = i then s + p.2 * vi' else s) s

/-- component `i` of `mju_mulSymVecSparse(res, M, v, n, rownnz, rowadr, colind)` -/
def mulSymVec {n : Nat} (rows : Fin n → SymRow α n) (v : Fin n → α) (i : Fin n) : α :=
  let s1 := addLower (rows i) v ((rows i).diag * v i)
  (List.finRange n).foldl (fun s i' => if i < i' then addUpper (rows i') i (v i') s else s) s1

/-- `mju_dot(a, b, n)`: four interleaved accumulators over the blocks of four, then the 1–3 element tail -/
def dotAcc (r0 r1 r2 r3 : α) : List (α × α) → α
  | a0 :: a1 :: a2 :: a3 :: rest =>
      dotAcc (r0 + a0.1 * a0.2) (r1 + a1.1 * a1.2) (r2 + a2.1 * a2.2) (r3 + a3.1 * a3.2) rest
  | [a0, a1, a2] => ((r0 + r2) + (r1 + r3)) + ((a0.1 * a0.2 + a1.1 * a1.2) + a2.1 * a2.2)
  | [a0, a1] => ((r0 + r2) + (r1 + r3)) + (a0.1 * a0.2 + a1.1 * a1.2)
  | [a0] => ((r0 + r2) + (r1 + r3)) + a0.1 * a0.2
  | [] => (r0 + r2) + (r1 + r3)

def dot (l : List (α × α)) : α := dotAcc zero zero zero zero l

/-- `mj_energyVel`: `energy[1] = 0.5 * mju_dot(M*qvel, qvel, nv)` -/
def energyVel {n : Nat} (rows : Fin n → SymRow α n) (v : Fin n → α) : α :=
  half * dot ((List.finRange n).map (fun i => (mulSymVec rows v i, v i)))

/-- `mju_sym2dense` / `mj_fullM`, entry `(i, j)`: the diagonal, or the stored value with row `max i j` and
    column `min i j` (the last such entry wins, as the C loop overwrites); `0` if nothing is stored -/
def denseEntry {n : Nat} (rows : Fin n → SymRow α n) (i j : Fin n) : α :=
  if i = j then (rows i).diag
  else
    let (r, c) := if j < i then (i, j) else (j, i)
    (rows r).offs.foldl (fun acc p => if p.1 = c then p.2 else acc) zero

/-- well-formed storage: every stored strict-lower column of row `i` is `< i` (checked by the drivers
    before either side runs) -/
def wf {n : Nat} (rows : Fin n → SymRow α n) : Bool :=
  (List.finRange n).all (fun i => (rows i).offs.all (fun p => decide (p.1 < i)))

/-! ### potential energy and spring forces

  src/engine/engine_sensor.c  : mj_energyPos       energy[0] = gravity term + joint springs + tendon springs
  src/engine/engine_passive.c : mj_springdamper    qfrc_spring = joint springs + tendon springs   (called by mj_passive)

Both functions walk the joints in order and SKIP a joint when `stiffness == 0 && mju_isZero(poly, mjNPOLY)`; otherwise
they dispatch on the joint type.  The displacement of a slide/hinge joint is `qpos - qpos_spring`; a ball joint (and
each of the two parts of a free joint) contributes through the norm `r` of a 3-vector `dif` (`mju_sub3` / `mju_subQuat`,
computed by the engine's own functions on the implementation side and handed to the model as input).  The scalar laws
are the c2lean-generated `Gen.c08_polyForce` / `Gen.c08_polyPotential` (mjNPOLY = 2).
Scope of the model: no sleeping (mjENBL_SLEEP off), no flex, no damping on tendons (conservative models); the
implementation side refuses to print an op line otherwise. -/

/-- `mju_isZero(poly, 2)` -/
def polyIsZero (p0 p1 : α) : Bool := MjNum.beq p0 zero && MjNum.beq p1 zero

/-- the skip test of both joint loops: `stiffness == 0 && mju_isZero(poly, mjNPOLY)` -/
def noSpring (k p0 p1 : α) : Bool := MjNum.beq k zero && polyIsZero p0 p1

/-- one spring displacement of a joint -/
inductive Disp (α : Type) where
  /-- slide / hinge: `x = qpos[padr] - qpos_spring[padr]` -/
  | scalar (q qspring : α)
  /-- ball, and each of the translational / rotational parts of a free joint.  The two engine loops compute the
      displacement vector separately: `mj_springdamper` from a re-normalised copy of the quaternion (`dif`, `r =
      mju_norm3(dif)`), `mj_energyPos` from `qpos` as it is (`re` = the norm of its own `dif`; equal over the reals for
      a unit quaternion, possibly an ulp apart in floating point) -/
  | radial (re r d0 d1 d2 : α)

def Disp.x : Disp α → α
  | .scalar q qs => q - qs
  | .radial re _ _ _ _ => re

structure JointSpring (α : Type) where
  k : α
  p0 : α
  p1 : α
  /-- `jnt_dofadr` -/
  dadr : Nat
  /-- hinge/slide: one `scalar`; ball: one `radial`; free: two `radial` (translation, then rotation) -/
  disps : List (Disp α)

structure TendonSpring (α : Type) where
  k : α
  p0 : α
  p1 : α
  length : α
  lower : α
  upper : α
  /-- the sparse row of `ten_J`: (dof, value) in storage order -/
  J : List (Nat × α)

/-- `x = (length > upper) ? length - upper : (length < lower) ? length - lower : 0` -/
def TendonSpring.x (t : TendonSpring α) : α :=
  if t.upper < t.length then t.length - t.upper else if t.length < t.lower then t.length - t.lower else zero

structure Body (α : Type) where
  mass : α
  x0 : α
  x1 : α
  x2 : α

/-- what `mj_energyPos` / `mj_springdamper` read -/
structure PotIn (α : Type) where
  /-- `!mjDISABLED(mjDSBL_GRAVITY)` -/
  gravityOn : Bool
  g0 : α
  g1 : α
  g2 : α
  /-- bodies `1 .. nbody-1`: mass and `xipos` -/
  bodies : List (Body α)
  /-- `!mjDISABLED(mjDSBL_SPRING)` -/
  springOn : Bool
  joints : List (JointSpring α)
  tendons : List (TendonSpring α)

/-- the joint loop body of `mj_energyPos` -/
def jointPotential (e : α) (j : JointSpring α) : α :=
  if noSpring j.k j.p0 j.p1 then e
  else j.disps.foldl (fun e d => e + Gen.c08_polyPotential j.k j.p0 j.p1 d.x) e

/-- `mj_energyPos`: `energy[0]` -/
def energyPos (s : PotIn α) : α :=
  let e0 : α := if s.gravityOn then
      s.bodies.foldl (fun e b => e - b.mass * (s.g0 * b.x0 + s.g1 * b.x1 + s.g2 * b.x2)) zero
    else zero
  let e1 : α := if s.springOn then s.joints.foldl jointPotential e0 else e0
  if s.springOn then s.tendons.foldl (fun e t => e + Gen.c08_polyPotential t.k t.p0 t.p1 t.x) e1 else e1

/-- `f[i] = v` -/
def upd (f : Nat → α) (i : Nat) (v : α) : Nat → α := fun m => if m = i then v else f m

/-- the `switch` of the joint loop of `mj_springdamper`: slide/hinge ASSIGN `qfrc_spring[dadr] = -x * polyForce(x)`,
    ball / free parts do `mji_addToScl3(qfrc_spring + dadr, dif, -polyForce(r))` and advance `dadr` by 3 -/
def dispForce (k p0 p1 : α) : (Nat → α) → Nat → List (Disp α) → (Nat → α)
  | f, _, [] => f
  | f, a, .scalar q qs :: rest =>
      dispForce k p0 p1 (upd f a ((-(q - qs)) * Gen.c08_polyForce k p0 p1 (q - qs))) (a + 1) rest
  | f, a, .radial _ r d0 d1 d2 :: rest =>
      let kf : α := -(Gen.c08_polyForce k p0 p1 r)
      let f1 := upd f a (f a + d0 * kf)
      let f2 := upd f1 (a + 1) (f1 (a + 1) + d1 * kf)
      let f3 := upd f2 (a + 2) (f2 (a + 2) + d2 * kf)
      dispForce k p0 p1 f3 (a + 3) rest

def jointForce (f : Nat → α) (j : JointSpring α) : Nat → α :=
  if noSpring j.k j.p0 j.p1 then f else dispForce j.k j.p0 j.p1 f j.dadr j.disps

/-- the tendon loop body of `mj_springdamper` (no damper): skipped when there is no spring; the force
    `-x * polyForce(x)` is spread over the tendon Jacobian row only `if (frc_spring || frc_damper)` -/
def tendonForce (f : Nat → α) (t : TendonSpring α) : Nat → α :=
  if noSpring t.k t.p0 t.p1 then f else
  let x := t.x
  let frc : α := (-x) * Gen.c08_polyForce t.k t.p0 t.p1 x
  if MjNum.beq frc zero then f else t.J.foldl (fun f cj => upd f cj.1 (f cj.1 + cj.2 * frc)) f

/-- `qfrc_spring` as a function of the dof index (cleared by `mj_passive`, then `mj_springdamper`) -/
def springForceFn (s : PotIn α) : Nat → α :=
  if s.springOn then s.tendons.foldl tendonForce (s.joints.foldl jointForce (fun _ => zero)) else fun _ => zero

def springForce (s : PotIn α) (nv : Nat) : List α := (List.range nv).map (springForceFn s)

end MjProof.Energy
