import MjProof.Model.Constraint
/-
Executable models for C10 (and the dense helpers reused by C09), generic over `MjNum α`; core Lean only.

1. `MjProof.Cert` — the CERTIFICATE CHECKER that lean/Drivers/C10.lean runs (on `Float`) on the real outputs of
   the engine's solvers: from the dense inertia `M` (mj_fullM), dense Jacobian `J`, `qacc_smooth`, `aref`, the
   constraint rows and contacts it recomputes, independently of the solver,
       cost(a) = ½ (a − a₀)ᵀ M (a − a₀) + s(J a − aref)        (s = the C11/C12 model of mj_constraintUpdate_impl)
       g = M (a − a₀) − Jᵀ f(J a − aref),   w = M⁻¹ g (own dense Cholesky),   bound = ½ g·w,   ‖M w − g‖∞
   (Props/C10.lean: `suboptimality_certificate_witness`, `distance_certificate_witness`).
2. `MjProof.PrimalSearch` — hand model of the static functions of src/engine/engine_solver.c
       PrimalSearch, updateBracket                 (`search`, `updBracket`: exit logic over an abstract evaluation)
       PrimalPrepare, PrimalEval, frictionCost, frictionCostDif   for scalar rows (`prepRow`, `evalRows`)
   and of the acceptance rule of `mj_solPrimal` (`alpha == 0 → stop, else move`: `runLoop`) and the warm-start
   choice of `warmstart` (engine_forward.c: `warmChoice`).  A line-search point is represented by its `alpha`;
   cost and derivatives are re-read from the (pure) evaluation — the C code caches them in `mjPrimalPnt`.
-/
namespace MjProof.Cert
open MjProof MjProof.Constraint

variable {α : Type} [MjNum α]

/-- plain left-to-right dot product (the checker's own arithmetic; not a model of `mju_dot`) -/
def dotL (a b : List α) : α := (List.zipWith (fun x y => x * y) a b).foldl (fun s t => s + t) zero
def matVec (M : List (List α)) (x : List α) : List α := M.map (fun r => dotL r x)
def subL (a b : List α) : List α := List.zipWith (fun x y => x - y) a b
/-- `Mᵀ y` for a row-major `M` with `nc` columns -/
def matTVec (nc : Nat) (M : List (List α)) (y : List α) : List α :=
  (M.zip y).foldl (fun acc p => List.zipWith (fun s m => s + m * p.2) acc p.1) (List.replicate nc zero)
def maxAbs (v : List α) : α := v.foldl (fun s x => mjuMax s (MjNum.abs x)) zero

/-- one row of the Cholesky factor given the previous rows: `L[i][j] = (M[i][j] − Σ_{k<j} L[i][k] L[j][k]) / L[j][j]`;
    `none` if a previous row is empty (cannot happen for rows produced by `chol`) -/
def cholRow (prev : List (List α)) (mrow : List α) : Option (List α) :=
  (prev.zip mrow).foldl (fun acc p => do
    -- p.1 = row j of L (length j+1, diagonal last), p.2 = M[i][j]
    let acc ← acc
    let djj ← p.1.getLast?
    some (acc ++ [(p.2 - dotL acc p.1) / djj])) (some [])

/-- dense Cholesky `M = L Lᵀ` (lower-triangular rows, diagonal last); `none` when a pivot is not positive or a
    row is too short -/
def chol (M : List (List α)) : Option (List (List α)) :=
  M.zipIdx.foldl (fun acc p => do
    let prev ← acc
    let mrow := p.1
    let i := p.2
    let mii ← mrow[i]?
    let off ← cholRow prev (mrow.take i)
    let d := mii - dotL off off
    if zero < d then some (prev ++ [off ++ [MjNum.sqrt d]]) else none) (some [])

/-- forward substitution `L y = b` -/
def fwdSub (L : List (List α)) (b : List α) : Option (List α) :=
  (L.zip b).foldl (fun y p => do
    let y ← y
    let d ← p.1.getLast?
    some (y ++ [(p.2 - dotL y p.1) / d])) (some [])

/-- back substitution `Lᵀ x = y` -/
def backSub (L : List (List α)) (y : List α) : Option (List α) :=
  (List.range L.length).reverse.foldl (fun (x : Option (List α)) i => do
    let x ← x
    -- x holds x[i+1..n-1]; column i of L below the diagonal is L[k][i], k > i
    let col ← (L.drop (i + 1)).mapM (fun r => r[i]?)
    let s := dotL col x
    let d ← (← L[i]?).getLast?
    let yi ← y[i]?
    some (((yi - s) / d) :: x)) (some [])

def cholSolve (L : List (List α)) (b : List α) : Option (List α) := do backSub L (← fwdSub L b)

structure Problem (α : Type) where
  nv : Nat
  M : List (List α)
  J : List (List α)
  a0 : List α
  aref : List α
  ne : Nat
  nf : Nat
  /-- rows without residual: `jar` field is ignored and replaced by `J a − aref` -/
  rows : List (Row α)
  cons : List (Contact α)

structure Eval (α : Type) where
  gauss : α
  s : α
  cost : α
  force : List α
  state : List Nat
  grad : List α

/-- dimensions the checker relies on (the driver refuses anything else) -/
def Problem.wellSized (P : Problem α) : Bool :=
  P.M.length == P.nv && P.M.all (fun r => r.length == P.nv) && P.J.all (fun r => r.length == P.nv) &&
  P.a0.length == P.nv && P.aref.length == P.J.length && P.rows.length == P.J.length

/-- cost, constraint force and gradient at the point `a` -/
def evalAt (P : Problem α) (a : List α) : Option (Eval α) := do
  let e := subL a P.a0
  let Me := matVec P.M e
  let gauss := half * dotL e Me
  let jar := subL (matVec P.J a) P.aref
  let rows := List.zipWith (fun (r : Row α) x => { r with jar := x }) P.rows jar
  let o ← update P.ne P.nf false rows P.cons
  let g := subL Me (matTVec P.nv P.J o.force)
  some ⟨gauss, o.cost, gauss + o.cost, o.force, o.state, g⟩

structure Certificate (α : Type) where
  eval : Eval α
  /-- `w ≈ M⁻¹ g` -/
  w : List α
  /-- `g · w`  (`bound = ½ g·w`, squared certified `M`-radius `= g·w`) -/
  gw : α
  /-- `‖M w − g‖∞` -/
  resid : α
  gnorm : α

def certify (P : Problem α) (a : List α) : Option (Certificate α) := do
  let ev ← evalAt P a
  let L ← chol P.M
  let w ← cholSolve L ev.grad
  let r := subL (matVec P.M w) ev.grad
  some ⟨ev, w, dotL ev.grad w, maxAbs r, MjNum.sqrt (dotL ev.grad ev.grad)⟩

/-- `(x − y)ᵀ M (x − y)`: squared `M`-distance between two accelerations -/
def distM (P : Problem α) (x y : List α) : α :=
  let d := subL x y
  dotL d (matVec P.M d)

end MjProof.Cert

namespace MjProof.PrimalSearch
open MjProof MjProof.Constraint

variable {α : Type} [MjNum α]

/-- the evaluation `PrimalEval` performs at a step `alpha`: shifted cost `cost(alpha) − cost(0)`, first and
    second derivative -/
structure Ev (α : Type) where
  cost : α → α
  d0 : α → α
  d1 : α → α

structure Result (α : Type) where
  alpha : α
  improvement : α
  lsResult : Nat
  /-- ghost: the exit compared the evaluated cost of the returned point with 0 (`cost < 0`) -/
  checked : Bool
  lsIter : Nat

/-- `p.alpha - p.deriv[0]/p.deriv[1]` -/
def newton (e : Ev α) (a : α) : α := a - e.d0 a / e.d1 a

def ret (e : Ev α) (a : α) (res : Nat) (chk : Bool) (it : Nat) : Result α := ⟨a, -(e.cost a), res, chk, it⟩
def retZero (res : Nat) (it : Nat) : Result α := ⟨zero, zero, res, false, it⟩

/-- one pass of `updateBracket` over the three candidates (the `*p = candidates[i]` updates are sequential);
    returns the new bracket point and the flag -/
def updScan (e : Ev α) (p : α) (cands : List α) : α × Nat :=
  cands.foldl (fun (st : α × Nat) c =>
    let p := st.1
    if e.d0 p < zero ∧ e.d0 c < zero ∧ e.d0 p < e.d0 c then (c, 1)
    else if zero < e.d0 p ∧ zero < e.d0 c ∧ e.d0 c < e.d0 p then (c, 2)
    else st) (p, 0)

/-- `dir` is `+1` (`true`) or `-1`: `x*dir` -/
def mulDir (x : α) (dir : Bool) : α := if dir then x * one else x * (-one)

/-- one-sided search loop; `it` = `ctx->LSiter` -/
def oneSided (e : Ev α) (gtol : α) (lsIter : Nat) (dir : Bool) (p1 p2 : α) (it : Nat) :
    Sum (Result α) (α × α × Nat) :=
  if h : mulDir (e.d0 p1) dir ≤ -gtol ∧ it < lsIter then
    let p2' := p1
    let p1' := newton e p1
    if MjNum.abs (e.d0 p1') < gtol ∧ e.cost p1' < zero then Sum.inl (ret e p1' 0 true (it + 1))
    else oneSided e gtol lsIter dir p1' p2' (it + 1)
  else Sum.inr (p1, p2, it)
termination_by lsIter - it
decreasing_by omega

/-- the best converged candidate (`|deriv| < gtol`, lowest cost, first wins ties) -/
def bestCand (e : Ev α) (gtol : α) (cands : List α) : Option α :=
  cands.foldl (fun (b : Option α) c =>
    if MjNum.abs (e.d0 c) < gtol then
      match b with
      | none => some c
      | some b0 => if e.cost c < e.cost b0 then some c else some b0
    else b) none

/-- one more `PrimalEval` if `updateBracket` moved the point -/
def inc (flag : Nat) : Nat := if flag ≠ 0 then 1 else 0

/-- bracketed search loop -/
def bracket (e : Ev α) (gtol : α) (lsIter : Nat) (p1 p2 p1next p2next : α) (it : Nat) : Result α :=
  if h : it < lsIter then
    let pmid := half * (p1 + p2)
    let it1 := it + 1
    let cands := [p1next, p2next, pmid]
    match bestCand e gtol cands with
    | some c => ret e c 0 false it1
    | none =>
      let u1 := updScan e p1 cands
      let p1' := u1.1
      let b1 := u1.2
      let p1next' := if b1 ≠ 0 then newton e p1' else p1next
      let u2 := updScan e p2 cands
      let p2' := u2.1
      let b2 := u2.2
      let p2next' := if b2 ≠ 0 then newton e p2' else p2next
      let it3 := it1 + inc b1 + inc b2
      if b1 = 0 ∧ b2 = 0 then
        if e.cost pmid < zero then ret e pmid 0 true it3 else ret e pmid 7 false it3
      else bracket e gtol lsIter p1' p2' p1next' p2next' it3
  else
    if e.cost p1 ≤ e.cost p2 ∧ e.cost p1 < zero then ret e p1 4 true it
    else if e.cost p2 ≤ e.cost p1 ∧ e.cost p2 < zero then ret e p2 4 true it
    else retZero 5 it
termination_by lsIter - it
decreasing_by omega

/-- `PrimalSearch(ctx, tolerance, ls_iterations, &improvement)` given the evaluation along the search line,
    `gtol = tolerance*snorm/scale` and whether `snorm < mjMINVAL` -/
def search (e : Ev α) (gtol : α) (lsIter : Nat) (snormSmall : Bool) : Result α :=
  if snormSmall then retZero 1 0 else
  let p0 : α := zero
  let p1 := newton e p0
  -- two evaluations so far
  if MjNum.abs (e.d0 p1) < gtol ∧ (MjNum.beq p1 zero = true ∨ e.cost p1 < zero) then
    if MjNum.beq p1 zero then ret e p1 2 false 2 else ret e p1 0 true 2
  else
    let dir : Bool := decide (e.d0 p1 < zero)
    match oneSided e gtol lsIter dir p1 p0 2 with
    | Sum.inl r => r
    | Sum.inr (p1, p2, it) =>
      if lsIter ≤ it then ret e p1 3 false it
      else
        let p2next := p1
        let p1next := newton e p1
        bracket e gtol lsIter p1 p2 p1next p2next (it + 1)

/-! ### the main loop's acceptance rule and the warm start -/

/-- `mj_solPrimal`: after each line search `if (alpha == 0) break;` otherwise the point moves and the cost
    changes by `−improvement`; `steps` are the line-search results of the successive iterations -/
def runLoop (c0 : α) : List (Result α) → α
  | [] => c0
  | r :: rest => if MjNum.beq r.alpha zero then c0 else runLoop (c0 - r.improvement) rest

/-- `warmstart` (non-PGS): keep `qacc_warmstart` unless `cost_warmstart > cost_smooth` -/
def warmChoice (costWarm costSmooth : α) : Bool := !(decide (costSmooth < costWarm))
def startCost (costWarm costSmooth : α) : α := if warmChoice costWarm costSmooth then costWarm else costSmooth

/-! ### PrimalPrepare / PrimalEval for scalar rows -/

structure LRow (α : Type) where
  D : α
  R : α
  floss : α
  jaref : α
  jv : α

/-- `quad[3*i .. 3*i+2]` of a scalar row as `PrimalPrepare` leaves them -/
def prepRow (r : LRow α) : α × α × α :=
  let DJ0 := r.D * r.jaref
  ((r.jaref * DJ0) * half, r.jv * DJ0, (r.jv * r.D * r.jv) * half)

/-- `frictionCost(x, f, Rf, D)` -/
def frictionCost (x f Rf D : α) : α :=
  if -Rf < x ∧ x < Rf then half * D * x * x
  else if x ≤ -Rf then f * ((-half) * Rf - x)
  else f * ((-half) * Rf + x)

def fzone (x Rf : α) : Int := if -Rf < x ∧ x < Rf then 0 else if x ≤ -Rf then -1 else 1

/-- `frictionCostDif(start, x, f, Rf, D)` -/
def frictionCostDif (start x f Rf D : α) : α :=
  let s0 := fzone start Rf
  let s1 := fzone x Rf
  if s0 = 0 ∧ s1 = 0 then half * D * (x - start) * (x + start)
  else if s0 = -1 ∧ s1 = -1 then f * (start - x)
  else if s0 = 1 ∧ s1 = 1 then f * (x - start)
  else frictionCost x f Rf D - frictionCost start f Rf D

structure Acc (α : Type) where
  cost : α
  d0 : α
  d1 : α
  q0 : α
  q1 : α
  q2 : α

/-- the row loop of `PrimalEval` (scalar rows only: equality `i < ne`, friction `i < ne+nf`, inequality otherwise) -/
def evalRow (ne nf : Nat) (alpha : α) (st : Acc α × Nat) (r : LRow α) : Acc α × Nat :=
  let a := st.1
  let i := st.2
  let q := prepRow r
  if i < ne then
    ({ a with q1 := a.q1 + q.2.1, q2 := a.q2 + q.2.2 }, i + 1)
  else if i < ne + nf then
    let start := r.jaref
    let dir := r.jv
    let x := start + alpha * dir
    let f := r.floss
    let Rf := r.R * f
    let c := a.cost + frictionCostDif start x f Rf r.D
    if -Rf < x ∧ x < Rf then ({ a with cost := c, d0 := a.d0 + r.D * x * dir, d1 := a.d1 + r.D * dir * dir }, i + 1)
    else if x ≤ -Rf then ({ a with cost := c, d0 := a.d0 + (-f) * dir }, i + 1)
    else ({ a with cost := c, d0 := a.d0 + f * dir }, i + 1)
  else
    let start := r.jaref
    let x := start + alpha * r.jv
    let cost0 := if start < zero then q.1 else zero
    if x < zero then
      ({ a with q0 := a.q0 + (q.1 - cost0), q1 := a.q1 + q.2.1, q2 := a.q2 + q.2.2 }, i + 1)
    else ({ a with cost := a.cost - cost0 }, i + 1)

def two : α := MjNum.ofInt 2
/-- `mjMINVAL` -/
def minval : α := MjNum.ofSci 1 true 15

/-- `PrimalEval` at `alpha`: (cost, deriv[0], deriv[1]) -/
def evalRows (ne nf : Nat) (g1 g2 : α) (rows : List (LRow α)) (alpha : α) : α × α × α :=
  let a0 : Acc α := ⟨zero, zero, zero, zero, g1, g2⟩
  let a := (rows.foldl (evalRow ne nf alpha) (a0, 0)).1
  let cost := a.cost + (alpha * alpha * a.q2 + alpha * a.q1 + a.q0)
  let d0 := a.d0 + (two * alpha * a.q2 + a.q1)
  let d1 := a.d1 + two * a.q2
  (cost, d0, if d1 ≤ zero then minval else d1)

def evOf (ne nf : Nat) (g1 g2 : α) (rows : List (LRow α)) : Ev α :=
  ⟨fun a => (evalRows ne nf g1 g2 rows a).1, fun a => (evalRows ne nf g1 g2 rows a).2.1,
   fun a => (evalRows ne nf g1 g2 rows a).2.2⟩

/-- a one-dof line problem as the harness sets it up in an `mjPrimalContext` (`nv = 1`, dense Jacobian) -/
structure Line (α : Type) where
  tol : α
  lsIter : Nat
  scale : α
  v : α
  M : α
  Ma : α
  qfs : α
  ne : Nat
  nf : Nat
  /-- D, R, floss, Jaref, J -/
  rows : List (LRow α)

structure LineOut (α : Type) where
  res : Result α
  slope : α

/-- `PrimalSearch` on that context: `mju_norm`, `mju_mulSymVecSparse`, `mju_mulMatVec`, `PrimalPrepare` for `nv = 1`
    (`mju_dot` of length 1 is `0 + a*b`) -/
def runLine (L : Line α) : LineOut α :=
  let snorm := MjNum.sqrt (zero + L.v * L.v)
  if snorm < minval then ⟨retZero 1 0, one⟩ else
  let gtol := L.tol * snorm / L.scale
  let slopescl := L.scale / snorm
  let Mv := L.M * L.v
  let rows := L.rows.map (fun r => { r with jv := zero + r.jv * L.v })
  let g1 := (zero + L.v * L.Ma) - (zero + L.qfs * L.v)
  let g2 := half * (zero + L.v * Mv)
  let e := evOf L.ne L.nf g1 g2 rows
  let r := search e gtol L.lsIter false
  -- LSslope is written on every exit except "search vector too small" (1) and "no improvement" (5)
  let slope := if r.lsResult = 5 then one else MjNum.abs (e.d0 r.alpha) * slopescl
  ⟨r, slope⟩

end MjProof.PrimalSearch
