/-
Executable model of the mjData arena / stack allocator of `src/engine/engine_memory.c`
(`mj_arenaAllocByte`, `stackallocinternal`, `stackalloc` incl. the `d->threadlock` fetch-add path,
`mj_markStack`, `mj_freeStack`, `mj_stackAllocNum/Int`) and of the arena set-up of
`engine_io.c: mj_makeRawData / mj_resetData` (`narena = m->narena`, `parena = pstack = pbase = 0`).

Core Lean only.  Every `size_t` / `uintptr_t` quantity is a `Nat` below `W = 2^64`; every C
operation is modelled by its wrap-around version (`add64`, `sub64`), so the model follows the
code also where the code has *no* overflow guard (see `Props/C19.lean`).  Addresses are absolute:
`Cfg.base` is `(uintptr_t) d->arena`.

The `mjStackFrame` records that `mj_markStack` writes into the stack memory are abstracted to the
list `State.frames` (most recent first).  `mj_freeStack` reads the record at address `d->pbase`; the
model reads the head of the list and answers `Res.undef` when `d->pbase` does not address it
(a read of memory that no `mj_markStack` wrote).  `Props/C19.lean` proves this never happens and
that no client block overlaps a live record.
-/
namespace MjProof.Arena

/-- modulus of `size_t` / `uintptr_t` (LP64). -/
def W : Nat := 18446744073709551616

/-- `a + b` in `size_t`. -/
def add64 (a b : Nat) : Nat := (a + b) % W
/-- `a - b` in `size_t` (for `a < W`). -/
def sub64 (a b : Nat) : Nat := (a + (W - b % W)) % W
/-- `a * b` in `size_t`. -/
def mul64 (a b : Nat) : Nat := (a * b) % W

/-- `fastmod` of engine_memory.c: `(b & (b-1)) == 0 ? a & (b-1) : a % b` (with `b - 1` wrapping). -/
def fastmod (a b : Nat) : Nat :=
  if b &&& sub64 b 1 = 0 then a &&& sub64 b 1 else a % b

/-- `sizeof(mjStackFrame)` (two `size_t` and one pointer) and `_Alignof(mjStackFrame)` on LP64. -/
def FRAME : Nat := 24
def FALIGN : Nat := 8

structure Cfg where
  base   : Nat   -- (uintptr_t) d->arena
  narena : Nat   -- d->narena
  rz     : Nat   -- mjREDZONE: 0, or 32 when built with mjUSEASAN
  deriving Repr

/-- one `mjStackFrame` record living at absolute address `addr`. -/
structure Frame where
  addr  : Nat   -- address of the record (= d->pbase after the mark)
  pbase : Nat   -- saved stack_base
  top   : Nat   -- saved absolute top of stack (`s->pstack = top_old`)
  deriving Repr, DecidableEq

structure State where
  parena     : Nat
  pstack     : Nat
  pbase      : Nat
  threadlock : Bool
  maxStack   : Nat          -- d->maxuse_stack  (non-ASAN statistics)
  maxArena   : Nat          -- d->maxuse_arena
  frames     : List Frame
  deriving Repr, DecidableEq

/-- state after `mj_makeData` (`mj_makeRawData` + `mj_resetData`). -/
def State.init : State :=
  { parena := 0, pstack := 0, pbase := 0, threadlock := false, maxStack := 0, maxArena := 0, frames := [] }

inductive Res where
  | ptr (a : Nat)   -- non-NULL pointer (absolute address)
  | null            -- NULL
  | error           -- mju_error was called
  | unit            -- void function returned
  | undef           -- the code would read an mjStackFrame that no mj_markStack wrote
  deriving Repr, DecidableEq

def bottom (c : Cfg) : Nat := add64 c.base c.narena
def top (c : Cfg) (s : State) : Nat := sub64 (bottom c) s.pstack
def limit (c : Cfg) (s : State) : Nat := add64 c.base s.parena

/-- `mj_arenaAllocByte(d, bytes, alignment)`. -/
def arenaAlloc (c : Cfg) (s : State) (bytes al : Nat) : Res × State :=
  let mis := fastmod s.parena al
  let padding := if mis ≠ 0 then sub64 al mis else 0
  let avail := sub64 c.narena s.pstack
  if add64 (add64 s.parena padding) bytes > avail then (.null, s)
  else
    let result := add64 (add64 c.base s.parena) padding
    let parena' := add64 s.parena (add64 padding bytes)
    (.ptr result, { s with parena := parena', maxArena := max s.maxArena (add64 s.pstack parena') })

/-- `stackallocinternal` for `size ≠ 0` on the shard `(bottom, top, limit)`:
    `none` = stack overflow (`mju_error`), else `(start_ptr, new_top_ptr, usage)`. -/
def stackAllocInternal (c : Cfg) (bot tp lim size al : Nat) : Option (Nat × Nat × Nat) :=
  let start0 := sub64 tp (add64 size c.rz)
  let start := sub64 start0 (fastmod start0 al)
  let newTop := sub64 start c.rz
  let cur := sub64 (sub64 tp newTop) (2 * c.rz)
  let usage := add64 cur (sub64 bot tp)
  let avail := sub64 tp lim
  let req := sub64 tp newTop
  if req > avail then none else some (start, newTop, usage)

/-- `stackalloc` (behind `mj_stackAllocByte` / `mj_stackAllocInfo`). -/
def stackAlloc (c : Cfg) (s : State) (size al : Nat) : Res × State :=
  if size = 0 then (.null, s)
  else if s.threadlock then
    -- atomic reservation: `old_pstack = fetch_add(&d->pstack, alloc_size)`; not rolled back on error
    let allocSize := add64 (sub64 (add64 size al) 1) (2 * c.rz)
    let old := s.pstack
    let s' := { s with pstack := add64 old allocSize }
    let avail := sub64 c.narena s.parena
    if add64 old allocSize > avail then (.error, s')
    else
      let start0 := sub64 (sub64 (sub64 (bottom c) old) size) c.rz
      (.ptr (sub64 start0 (fastmod start0 al)), s')
  else
    match stackAllocInternal c (bottom c) (top c s) (limit c s) size al with
    | none => (.error, s)
    | some (start, newTop, usage) =>
      (.ptr start, { s with pstack := sub64 (bottom c) newTop,
                            maxStack := max s.maxStack usage,
                            maxArena := max s.maxArena (add64 usage s.parena) })

/-- `mj_markStack`. -/
def markStack (c : Cfg) (s : State) : Res × State :=
  if s.threadlock then (.unit, s)
  else
    match stackAllocInternal c (bottom c) (top c s) (limit c s) FRAME FALIGN with
    | none => (.error, s)
    | some (start, newTop, usage) =>
      (.unit, { s with pstack := sub64 (bottom c) newTop,
                       pbase := start,
                       maxStack := max s.maxStack usage,
                       maxArena := max s.maxArena (add64 usage s.parena),
                       frames := ⟨start, s.pbase, top c s⟩ :: s.frames })

/-- `mj_freeStack`. -/
def freeStack (c : Cfg) (s : State) : Res × State :=
  if s.threadlock then (.unit, s)
  else if s.pbase = 0 then (.unit, s)
  else
    match s.frames with
    | [] => (.undef, s)
    | f :: rest =>
      if f.addr = s.pbase then
        (.unit, { s with pbase := f.pbase, pstack := sub64 (bottom c) f.top, frames := rest })
      else (.undef, s)

/-- `mj_stackAllocNum` / `mj_stackAllocInt`: guard `size >= SIZE_MAX / sizeof(T)` then `stackalloc`. -/
def stackAllocElems (c : Cfg) (s : State) (n elem : Nat) : Res × State :=
  if n ≥ (W - 1) / elem then (.error, s) else stackAlloc c s (mul64 n elem) elem

inductive Op where
  | mark | free | lock | unlock
  | alloc (size al : Nat)
  | arena (bytes al : Nat)
  | num (n : Nat)
  | int (n : Nat)
  deriving Repr, DecidableEq

def step (c : Cfg) (s : State) : Op → Res × State
  | .mark => markStack c s
  | .free => freeStack c s
  | .lock => (.unit, { s with threadlock := true })
  | .unlock => (.unit, { s with threadlock := false })
  | .alloc size al => stackAlloc c s size al
  | .arena bytes al => arenaAlloc c s bytes al
  | .num n => stackAllocElems c s n 8
  | .int n => stackAllocElems c s n 4

/-- `mju_dispatch` with a thread pool and `ntask ≥ 2`, the tasks' reservations taken in the
    modification order `reqs` of the atomic `d->pstack`:
    `mj_markStack; threadlock = true; …reservations…; threadlock = false; mj_freeStack`. -/
def lockedRun (c : Cfg) : State → List (Nat × Nat) → List Res × State
  | s, [] => ([], s)
  | s, (size, al) :: rest =>
    let (r, s1) := stackAlloc c s size al
    let (rs, s2) := lockedRun c s1 rest
    (r :: rs, s2)

def dispatch (c : Cfg) (s : State) (reqs : List (Nat × Nat)) : Res × List Res × State :=
  match markStack c s with
  | (.error, s') => (.error, [], s')
  | (_, s1) =>
    let (rs, s2) := lockedRun c { s1 with threadlock := true } reqs
    -- mju_dispatch: maxuse statistics from the final pstack
    let s3 := { s2 with threadlock := false,
                        maxStack := max s2.maxStack s2.pstack,
                        maxArena := max s2.maxArena (add64 s2.pstack s2.parena) }
    let (r, s4) := freeStack c s3
    (r, rs, s4)

end MjProof.Arena
