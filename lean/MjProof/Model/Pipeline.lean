/-
The entry points of the pipeline as inlined programs, and the knowledge about the model constants under
which they are analysed.  Shared by Props/C01.lean, Props/C04.lean and the driver `drv_c01`.  Core Lean only.
-/
import MjProof.Model.Footprint
import MjProof.Gen.Pipeline
import MjProof.Gen.DataFields

namespace MjProof.Pipeline
open MjProof.Prog MjProof.Footprint

/-- number of inlining passes (the call depth of the pipeline is 5: mj_step → mj_checkAcc → mj_forward →
    mj_forwardSkip, mj_step → mj_compareFwdInv → mj_inverseSkip → mj_invVelocity); `noCallsLeft` checks it -/
def passes : Nat := 8

/-- the fully inlined program of the call `name(args)` (scalar arguments only) -/
def prog (name : String) (args : List Term := []) : Prog :=
  inlineN Gen.Pipeline.table passes (.call name name args)

def mjStep : Prog := prog "mj_step"
def mjStep1 : Prog := prog "mj_step1"
def mjStep2 : Prog := prog "mj_step2"
def mjForward : Prog := prog "mj_forward"
def mjInverse : Prog := prog "mj_inverse"
def mjForwardSkip (skipstage skipsensor : Int) : Prog :=
  prog "mj_forwardSkip" [.const skipstage "", .const skipsensor ""]
def mjInverseSkip (skipstage skipsensor : Int) : Prog :=
  prog "mj_inverseSkip" [.const skipstage "", .const skipsensor ""]

/-- second layer: the translated body of a stage function (with its static helpers inlined), analysed on its own
    against the leaf footprints to justify the stage's entry in the footprint table -/
def subProg (name : String) : Prog :=
  inlineN Gen.Pipeline.subTable passes (.call name name [])

def mjFwdConstraint : Prog := subProg "mj_fwdConstraint"
def mjInvConstraint : Prog := subProg "mj_invConstraint"

/-- source text of the switch scrutinee of mj_fwdConstraint; the solvers the engine accepts -/
def solverScrutinee : String := "(mjtSolver) m->opt.solver"
def solverNames : List String := ["mjSOL_PGS", "mjSOL_CG", "mjSOL_NEWTON"]

/-- value of the model-constant comparisons `m->opt.solver == X` / `m->opt.solver != X` when the solver is `sol` -/
def solverGuard (sol : String) (s : String) : Option Bool :=
  solverNames.findSome? fun n =>
    if s = "m->opt.solver == " ++ n then some (sol == n)
    else if s = "m->opt.solver != " ++ n then some (sol != n)
    else none

/-- source text of the switch scrutinee of mj_step and of the two comparisons of mj_step2 -/
def integScrutinee : String := "(mjtIntegrator) m->opt.integrator"
def isImplicit : String := "m->opt.integrator == mjINT_IMPLICIT"
def isImplicitFast : String := "m->opt.integrator == mjINT_IMPLICITFAST"

/-- what is assumed about the model constants -/
structure Cfg where
  /-- `mjENABLED(mjENBL_SLEEP)` -/
  sleeping : Bool := false
  /-- `m->opt.integrator` if fixed: "mjINT_EULER" | "mjINT_RK4" | "mjINT_IMPLICIT" | "mjINT_IMPLICITFAST" -/
  integrator : Option String := none
  /-- further guard leaves assumed constant: (source text, value) -/
  extra : List (String × Bool) := []
  /-- `m->opt.solver` if fixed: "mjSOL_PGS" | "mjSOL_CG" | "mjSOL_NEWTON" (only the second layer depends on it) -/
  solver : Option String := none

/-- the partial valuation of a configuration.  Always: no control callback is installed
    (`mjcb_control = NULL`; user callbacks are outside the properties' inputs). -/
def known (c : Cfg) : Known :=
  { mconst := fun s =>
      if s = "mjcb_control" then some false
      else if s = "mjENABLED(mjENBL_SLEEP)" then some c.sleeping
      else match c.extra.lookup s with
        | some b => some b
        | none =>
          match c.solver.bind (fun sol => solverGuard sol s) with
          | some b => some b
          | none =>
            match c.integrator with
            | none => none
            | some i =>
              if s = isImplicit then some (i == "mjINT_IMPLICIT")
              else if s = isImplicitFast then some (i == "mjINT_IMPLICITFAST")
              else none
    label := fun on => if on = integScrutinee then c.integrator else if on = solverScrutinee then c.solver else none
    data := fun s => c.extra.lookup s }

/-- the analysis of an inlined program under a configuration -/
def analyze (c : Cfg) (p : Prog) : AFlow Grp := abs (ctx c.sleeping) (known c) [] p

/-- the analysis of a second-layer program (models without sleeping) under a configuration -/
def analyzeS (c : Cfg) (p : Prog) : AFlow Grp := abs (ctxS c.solver) (known c) [] p

end MjProof.Pipeline
