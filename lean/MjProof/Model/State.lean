/-
Model of the state-vector API of `src/engine/engine_support.c`
(`mj_stateSize`, `mj_getState`, `mj_setState`, `mj_extractState`, `mj_copyState`).

The functions are generic over ANY table:
  * a table is `nstate` (the value of `mjNSTATE`) plus a list of elements; an element is
      bit      the shift `k` of its `mjtState` value `1<<k`,
      size     what `mj_stateElemSize` returns for it, as a function of the model sizes,
      field    the `mjData` field that `mj_stateElemPtr` returns for it (or, for an element that
               get/set/copy special-case, the field the special loop indexes),
      special  `some n` when get/set/copy special-case the element with a per-entry loop of `n`
               iterations converting between `mjtNum` and `mjtBool` (in the tree: `mjSTATE_EQ_ACTIVE`
               with `n = m->neq`); `none` for elements moved with `mju_copy(…, size)`;
  * data is `field id → List value` (one list per `mjData` array; scalars are lists of length 1);
  * `alloc f sz` is the number of entries allocated for field `f` (`nr*nc` of `MJDATA_POINTERS`).

Every API function starts with the two guards `sig < 0` and `sig >= (1<<mjNSTATE)` (both `mju_error`)
and then runs `for (i=0; i<mjNSTATE; i++) { element = 1<<i; if (element & sig) …` where the
`switch` of `mj_stateElemSize`/`mj_stateElemPtr` raises `mju_error` in its `default:` branch.
`mju_error` does not return: it is modelled by `Except.error`.  Reading or writing past the end of an
array / of the caller's state vector is undefined behaviour in C; the model reports it as `Err.oob`
(and the theorems show it cannot happen for a well-formed table and correctly shaped data).

The last section models the keyframe copies of `mj_resetDataKeyframe` (engine_io.c) and
`mj_setKeyframe` (engine_support.c), again generic over any list of copies (`KeyTable`).

The concrete table is regenerated from the source on every run (`MjProof/Gen/StateTable.lean`,
translator `translate/c26_tables.py`) in the symbolic form `SymTable` below.

Core Lean only.
-/
namespace MjProof.State

/-- Outcome of a call that does not return normally. -/
inductive Err where
  | sigNeg                -- "invalid state signature %d < 0" / "invalid srcsig %d < 0"
  | sigRange              -- "invalid state signature %d >= 2^mjNSTATE"
  | badElem (bit : Nat)   -- `default:` branch of the size/ptr switch: "invalid state element %u"
  | notSubset             -- "dstsig is not a subset of srcsig"
  | oob                   -- out-of-bounds read/write (undefined behaviour in C; no `mju_error`)
  deriving DecidableEq, Repr

structure Elem (σ φ : Type) where
  bit : Nat
  size : σ → Nat
  field : φ
  special : Option (σ → Nat)

/-- number of entries that get/set/copy move for this element -/
def Elem.cnt {σ φ : Type} (e : Elem σ φ) (sz : σ) : Nat :=
  match e.special with
  | some n => n sz
  | none => e.size sz

structure Table (σ φ : Type) where
  nstate : Nat
  elems : List (Elem σ φ)
  alloc : φ → σ → Nat
  /-- storage type of the field is `mjtBool` (else `mjtNum`) -/
  isBool : φ → Bool

abbrev Data (φ α : Type) := φ → List α

section
variable {σ φ α : Type} [DecidableEq φ]

/-- the `switch`: first `case` whose label is `1<<i` -/
def Table.lookup (t : Table σ φ) (i : Nat) : Option (Elem σ φ) :=
  t.elems.find? (fun e => e.bit == i)

def upd (d : Data φ α) (f : φ) (v : List α) : Data φ α :=
  fun g => if g = f then v else d g

/-- the two guards at the top of every API function; `1<<mjNSTATE` is computed in `int` -/
def checkSig (t : Table σ φ) (sig : Int) : Except Err Nat :=
  if sig < 0 then .error .sigNeg
  else if sig ≥ 2 ^ t.nstate then .error .sigRange
  else .ok sig.toNat

/-- `mju_copy(res, src, n)` into a fresh vector: read the first `n` entries of `src` -/
def readN (src : List α) (n : Nat) : Except Err (List α) :=
  if n ≤ src.length then .ok (src.take n) else .error .oob

/-- `mju_copy(dst, src, n)`: overwrite the first `n` entries of `dst` -/
def writeN (dst src : List α) (n : Nat) : Except Err (List α) :=
  if n ≤ src.length ∧ n ≤ dst.length then .ok (src.take n ++ dst.drop n) else .error .oob

variable (t : Table σ φ) (sz : σ)

/-- loop of `mj_stateSize` over the bit indices `is` (called with `0 … mjNSTATE-1`) -/
def sizeLoop (sig : Nat) : List Nat → Except Err Nat
  | [] => .ok 0
  | i :: is =>
    if sig.testBit i then
      match t.lookup i with
      | none => .error (.badElem i)
      | some e => do
        let r ← sizeLoop sig is
        pure (e.size sz + r)
    else sizeLoop sig is

def stateSize (sig : Int) : Except Err Nat := do
  let s ← checkSig t sig
  sizeLoop t sz s (List.range t.nstate)

/-- loop of `mj_getState`; the result is the state vector written (front to back) -/
def getLoop (d : Data φ α) (sig : Nat) : List Nat → Except Err (List α)
  | [] => .ok []
  | i :: is =>
    if sig.testBit i then
      match t.lookup i with
      | none => .error (.badElem i)
      | some e => do
        let v ← readN (d e.field) (e.cnt sz)
        let r ← getLoop d sig is
        pure (v ++ r)
    else getLoop d sig is

def getState (d : Data φ α) (sig : Int) : Except Err (List α) := do
  let s ← checkSig t sig
  getLoop t sz d s (List.range t.nstate)

/-- loop of `mj_setState`; `st` is the not yet consumed part of the state vector (`state + adr`);
    `cast` is the conversion `mjtNum → mjtBool` (as stored) applied by the special-case loop -/
def setLoop (cast : α → α) (sig : Nat) : List α → Data φ α → List Nat → Except Err (Data φ α)
  | _, d, [] => .ok d
  | st, d, i :: is =>
    if sig.testBit i then
      match t.lookup i with
      | none => .error (.badElem i)
      | some e => do
        let n := e.cnt sz
        let src := if e.special.isSome then st.map cast else st
        let f ← writeN (d e.field) src n
        setLoop cast sig (st.drop n) (upd d e.field f) is
    else setLoop cast sig st d is

def setState (cast : α → α) (st : List α) (sig : Int) (d : Data φ α) : Except Err (Data φ α) := do
  let s ← checkSig t sig
  setLoop t sz cast s st d (List.range t.nstate)

/-- loop of `mj_extractState`; `src` is the not yet consumed part of the source vector -/
def extractLoop (srcsig dstsig : Nat) : List α → List Nat → Except Err (List α)
  | _, [] => .ok []
  | src, i :: is =>
    if srcsig.testBit i then
      match t.lookup i with
      | none => .error (.badElem i)
      | some e => do
        let n := e.size sz
        let v ← readN src n
        let r ← extractLoop srcsig dstsig (src.drop n) is
        pure (if dstsig.testBit i then v ++ r else r)
    else extractLoop srcsig dstsig src is

/-- `mj_extractState`.  After `0 ≤ srcsig < 2^mjNSTATE`, the C guard `(srcsig & dstsig) != dstsig`
    rejects every negative `dstsig` (the left side is then non-negative), which is the first branch. -/
def extractState (src : List α) (srcsig dstsig : Int) : Except Err (List α) := do
  let s ← checkSig t srcsig
  if dstsig < 0 then .error .notSubset
  else if (s &&& dstsig.toNat) ≠ dstsig.toNat then .error .notSubset
  else extractLoop t sz s dstsig.toNat src (List.range t.nstate)

/-- loop of `mj_copyState` (no conversion: both sides have the same storage type) -/
def copyLoop (src : Data φ α) (sig : Nat) : Data φ α → List Nat → Except Err (Data φ α)
  | d, [] => .ok d
  | d, i :: is =>
    if sig.testBit i then
      match t.lookup i with
      | none => .error (.badElem i)
      | some e => do
        let f ← writeN (d e.field) (src e.field) (e.cnt sz)
        copyLoop src sig (upd d e.field f) is
    else copyLoop src sig d is

def copyState (src dst : Data φ α) (sig : Int) : Except Err (Data φ α) := do
  let s ← checkSig t sig
  copyLoop t sz src s dst (List.range t.nstate)

end

/-! ### Symbolic tables (what the translator emits) -/

/-- one factor of a size expression: an integer literal or a model size `m->name` -/
inductive Factor (ν : Type) where
  | const (n : Nat)
  | var (v : ν)
  deriving DecidableEq, Repr

/-- a size expression is a product of factors, in source order (`6*m->nbody` ↦ `[const 6, var nbody]`) -/
abbrev SizeExpr (ν : Type) := List (Factor ν)

namespace SizeExpr
variable {ν : Type}

def Factor.eval (sz : ν → Nat) : Factor ν → Nat
  | .const n => n
  | .var v => sz v

def eval (sz : ν → Nat) (e : SizeExpr ν) : Nat := e.foldr (fun f acc => Factor.eval sz f * acc) 1

def coef : SizeExpr ν → Nat
  | [] => 1
  | .const n :: r => n * coef r
  | .var _ :: r => coef r

def vars : SizeExpr ν → List ν
  | [] => []
  | .const _ :: r => vars r
  | .var v :: r => v :: vars r

/-- syntactic equality of the normal forms (coefficient, multiset of variables) -/
def equiv [DecidableEq ν] (a b : SizeExpr ν) : Bool := a.coef == b.coef && a.vars.isPerm b.vars

end SizeExpr

structure SymElem (ν φ : Type) where
  name : String
  bit : Nat
  size : SizeExpr ν
  field : φ
  special : Option (SizeExpr ν)

structure SymTable (ν φ : Type) where
  nstate : Nat
  elems : List (SymElem ν φ)
  alloc : φ → SizeExpr ν
  isBool : φ → Bool

def SymElem.toElem {ν φ : Type} (e : SymElem ν φ) : Elem (ν → Nat) φ :=
  { bit := e.bit, size := fun sz => e.size.eval sz, field := e.field,
    special := e.special.map (fun s sz => SizeExpr.eval sz s) }

def SymTable.toTable {ν φ : Type} (s : SymTable ν φ) : Table (ν → Nat) φ :=
  { nstate := s.nstate, elems := s.elems.map SymElem.toElem,
    alloc := fun f sz => (s.alloc f).eval sz, isBool := s.isBool }

/-- Well-formedness of a table (the hypotheses of the C26 theorems):
    `1<<mjNSTATE` fits an `int`; every bit below `mjNSTATE` has a `case`; case labels are distinct
    and below `mjNSTATE`; no two elements point at the same `mjData` field; the size returned by the
    size `switch` equals the allocated length of the field the ptr `switch` returns (for all model
    sizes); a special-case loop moves exactly `size` entries; an element is special-cased iff its
    field is stored as `mjtBool`. -/
structure WF {σ φ : Type} (t : Table σ φ) : Prop where
  nstate_le : t.nstate ≤ 30
  complete : ∀ i, i < t.nstate → ∃ e, e ∈ t.elems ∧ e.bit = i
  bits_lt : ∀ e, e ∈ t.elems → e.bit < t.nstate
  bits_nodup : (t.elems.map (fun e => e.bit)).Nodup
  fields_nodup : (t.elems.map (fun e => e.field)).Nodup
  size_alloc : ∀ e, e ∈ t.elems → ∀ sz, e.size sz = t.alloc e.field sz
  cnt_size : ∀ e, e ∈ t.elems → ∀ sz, e.cnt sz = e.size sz
  typed : ∀ e, e ∈ t.elems → e.special.isSome = t.isBool e.field

/-- decidable, purely syntactic well-formedness of a symbolic table: size expressions are compared
    as normal forms (coefficient and multiset of size names), never evaluated -/
def SymTable.wfCheck {ν φ : Type} [DecidableEq ν] [DecidableEq φ] (s : SymTable ν φ) : Bool :=
  decide (s.nstate ≤ 30)
  && (List.range s.nstate).all (fun i => s.elems.any (fun e => e.bit == i))
  && s.elems.all (fun e => decide (e.bit < s.nstate))
  && decide ((s.elems.map (fun e => e.bit)).Nodup)
  && decide ((s.elems.map (fun e => e.field)).Nodup)
  && s.elems.all (fun e => e.size.equiv (s.alloc e.field)
        && (match e.special with | some n => n.equiv e.size | none => true)
        && (e.special.isSome == s.isBool e.field))

/-! ### Keyframes: `mj_resetDataKeyframe` (engine_io.c) and `mj_setKeyframe` (engine_support.c)

`mj_resetDataKeyframe(m, d, key)` is `_resetData(m, d, 0)` followed, when `0 ≤ key < m->nkey`, by a
straight list of copies `d->F = m->K[key]` / `mju_copy(d->F, m->K + key*STRIDE, SIZE)`;
`mj_setKeyframe(m, d, k)` raises `mju_error` for `k ≥ m->nkey` and for `k < 0` (in this order) and
then runs the mirrored list `m->K[k] = d->F` / `mju_copy(m->K + k*STRIDE, d->F, SIZE)`.
Both lists are regenerated from the source (`Gen.keySym`); the model is generic over any such lists.
`_resetData` itself is NOT modelled: its result is the parameter `base`. -/

/-- one copy statement: `mjData` field, model `key_*` array, the stride multiplied with the keyframe
    index (`key*STRIDE`) and the number of entries copied -/
structure KeyRow (σ φ κ : Type) where
  field : φ
  key : κ
  stride : σ → Nat
  size : σ → Nat

structure KeyTable (σ φ κ : Type) where
  /-- `m->nkey` -/
  nkey : σ → Nat
  /-- the copies of `mj_resetDataKeyframe`, in source order -/
  load : List (KeyRow σ φ κ)
  /-- the copies of `mj_setKeyframe`, in source order -/
  store : List (KeyRow σ φ κ)
  /-- allocated entries of an `mjData` field (`nr*nc` of `MJDATA_POINTERS`; scalars 1) -/
  alloc : φ → σ → Nat
  /-- allocated entries of a model `key_*` array (`nr*nc` of `MJMODEL_POINTERS`) -/
  kalloc : κ → σ → Nat

/-- the model's `key_*` arrays -/
abbrev KeyData (κ α : Type) := κ → List α

/-- outcome of a keyframe call that does not return normally -/
inductive KErr where
  | keyRange   -- "index must be smaller than %d (keyframes allocated in model)"
  | keyNeg     -- "keyframe index cannot be negative"
  | oob        -- out-of-bounds read/write (undefined behaviour in C; no `mju_error`)
  deriving DecidableEq, Repr

section
variable {σ φ κ α : Type} [DecidableEq φ] [DecidableEq κ]

def kupd (m : KeyData κ α) (k : κ) (v : List α) : KeyData κ α :=
  fun g => if g = k then v else m g

/-- `src + off`, `n` entries -/
def sliceN (src : List α) (off n : Nat) : Except KErr (List α) :=
  if off + n ≤ src.length then .ok ((src.drop off).take n) else .error .oob

/-- `mju_copy(dst + off, src, n)` -/
def spliceN (dst : List α) (off : Nat) (src : List α) (n : Nat) : Except KErr (List α) :=
  if off + n ≤ dst.length ∧ n ≤ src.length then .ok (dst.take off ++ src.take n ++ dst.drop (off + n))
  else .error .oob

/-- `mju_copy(dst, src, n)` on a whole field -/
def kwriteN (dst src : List α) (n : Nat) : Except KErr (List α) :=
  if n ≤ src.length ∧ n ≤ dst.length then .ok (src.take n ++ dst.drop n) else .error .oob

/-- the copies of `mj_resetDataKeyframe` for keyframe `k` -/
def loadRows (sz : σ) (m : KeyData κ α) (k : Nat) : Data φ α → List (KeyRow σ φ κ) → Except KErr (Data φ α)
  | d, [] => .ok d
  | d, r :: rs => do
    let v ← sliceN (m r.key) (k * r.stride sz) (r.size sz)
    let f ← kwriteN (d r.field) v (r.size sz)
    loadRows sz m k (upd d r.field f) rs

/-- `mj_resetDataKeyframe`; `base` is what `_resetData(m, d, 0)` leaves in `d` -/
def resetDataKeyframe (t : KeyTable σ φ κ) (sz : σ) (m : KeyData κ α) (base : Data φ α) (key : Int) :
    Except KErr (Data φ α) :=
  if 0 ≤ key ∧ key < t.nkey sz then loadRows sz m key.toNat base t.load else .ok base

/-- the copies of `mj_setKeyframe` for keyframe `k` -/
def storeRows (sz : σ) (d : Data φ α) (k : Nat) : KeyData κ α → List (KeyRow σ φ κ) → Except KErr (KeyData κ α)
  | m, [] => .ok m
  | m, r :: rs => do
    let a ← spliceN (m r.key) (k * r.stride sz) (d r.field) (r.size sz)
    storeRows sz d k (kupd m r.key a) rs

/-- `mj_setKeyframe` (the guard `k >= m->nkey` comes first in the source) -/
def setKeyframe (t : KeyTable σ φ κ) (sz : σ) (m : KeyData κ α) (d : Data φ α) (k : Int) :
    Except KErr (KeyData κ α) :=
  if k ≥ t.nkey sz then .error .keyRange
  else if k < 0 then .error .keyNeg
  else storeRows sz d k.toNat m t.store

end

structure SymKeyRow (ν φ κ : Type) where
  field : φ
  key : κ
  stride : SizeExpr ν
  size : SizeExpr ν

structure SymKeyTable (ν φ κ : Type) where
  nkey : ν
  load : List (SymKeyRow ν φ κ)
  store : List (SymKeyRow ν φ κ)
  alloc : φ → SizeExpr ν
  kalloc : κ → SizeExpr ν

def SymKeyRow.toRow {ν φ κ : Type} (r : SymKeyRow ν φ κ) : KeyRow (ν → Nat) φ κ :=
  { field := r.field, key := r.key, stride := fun sz => r.stride.eval sz, size := fun sz => r.size.eval sz }

def SymKeyTable.toTable {ν φ κ : Type} (s : SymKeyTable ν φ κ) : KeyTable (ν → Nat) φ κ :=
  { nkey := fun sz => sz s.nkey, load := s.load.map SymKeyRow.toRow, store := s.store.map SymKeyRow.toRow,
    alloc := fun f sz => (s.alloc f).eval sz, kalloc := fun k sz => (s.kalloc k).eval sz }

/-- Well-formedness of a keyframe table (hypotheses of the keyframe theorems of C26):
    no `mjData` field is written twice by the load list and no `key_*` array twice by the store list;
    in every row the stride equals the number of entries copied, which equals the allocated length of
    the `mjData` field, and the `key_*` array holds `nkey` such rows; every (field, array) pair that
    is loaded is also stored and vice versa (nothing `mj_setKeyframe` saves is dropped on load). -/
structure KeyWF {σ φ κ : Type} (t : KeyTable σ φ κ) : Prop where
  load_fields_nodup : (t.load.map (fun r => r.field)).Nodup
  store_keys_nodup : (t.store.map (fun r => r.key)).Nodup
  row_ok : ∀ r, r ∈ t.load ++ t.store → ∀ sz,
    r.stride sz = r.size sz ∧ r.size sz = t.alloc r.field sz ∧ t.kalloc r.key sz = t.nkey sz * r.size sz
  load_stored : ∀ r, r ∈ t.load → ∃ r', r' ∈ t.store ∧ r'.field = r.field ∧ r'.key = r.key
  store_loaded : ∀ r, r ∈ t.store → ∃ r', r' ∈ t.load ∧ r'.field = r.field ∧ r'.key = r.key

/-- decidable syntactic well-formedness (size expressions compared as normal forms) -/
def SymKeyTable.wfCheck {ν φ κ : Type} [DecidableEq ν] [DecidableEq φ] [DecidableEq κ]
    (s : SymKeyTable ν φ κ) : Bool :=
  decide ((s.load.map (fun r => r.field)).Nodup)
  && decide ((s.store.map (fun r => r.key)).Nodup)
  && (s.load ++ s.store).all (fun r => r.stride.equiv r.size && r.size.equiv (s.alloc r.field)
        && (s.kalloc r.key).equiv (.var s.nkey :: r.size))
  && s.load.all (fun r => s.store.any (fun r' => decide (r'.field = r.field) && decide (r'.key = r.key)))
  && s.store.all (fun r => s.load.any (fun r' => decide (r'.field = r.field) && decide (r'.key = r.key)))

end MjProof.State
