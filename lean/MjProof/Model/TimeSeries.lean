/-
Model of the system-identification signal modifiers
  python/mujoco/sysid/_src/timeseries.py        (`TimeSeries.__post_init__`, `interpolate`, `resample`)
  python/mujoco/sysid/_src/signal_modifier.py   (`apply_bias`, `apply_gain`, `apply_delay`, `apply_time_window`,
                                                 `apply_delayed_ts_window`, `_build_per_column_delays`,
                                                 `apply_resample_and_delay`, `_apply_resample_and_delay_columnwise`)
  python/mujoco/sysid/_src/signal_transform.py  (`SignalTransform._apply_gains_biases`)
Core Lean only (no Mathlib): the driver `drv_c48` is a native executable.

Representation.  A time series is an immutable list of samples `(t, row)`; a row is a `Vector α m` (the
`data` array has shape `(N, m)`), so `len(times) == len(data)` and the uniform row width hold by
construction.  Values are *never* updated in place in this model: purity (the first clause of C48) is a
property of the Python objects that the model cannot even express -- it is carried by the tie (the
harness snapshots every input buffer around every call of the real code).

Numbers.  Everything is generic over the operations the code uses (`+ - * /`, unary minus, `<`, `==`);
the driver instantiates `Float` (IEEE double: the same operations numpy performs element-wise), the
theorems instantiate an arbitrary linearly ordered field.

Linear interpolation.  `TimeSeries.interpolate(method="linear")` is
`scipy.interpolate.interp1d(times, data, kind="linear", axis=0, bounds_error=False,
fill_value=(data[0], data[-1]), assume_sorted=True)(t)`.  For 2-D `data` scipy (1.18) runs `_call_linear`:
    idx = searchsorted(x, t)                 -- side="left"
    idx = idx.clip(1, len(x)-1)              -- minimum(maximum(idx, 1), len(x)-1): 0 when len(x) = 1
    lo, hi = idx-1, idx                      -- lo = -1 (python: the last element) when len(x) = 1
    y = ((t-x[lo])/(x[hi]-x[lo])) * y[hi] + ((x[hi]-t)/(x[hi]-x[lo])) * y[lo]
and `_evaluate` then overwrites `y[t < x[0]] = data[0]`, `y[t > x[-1]] = data[-1]`.  `interpRow` is this,
index for index (all look-ups carry bounds proofs).  `np.searchsorted` is a binary search; on the sorted
arrays `TimeSeries` admits (strictly increasing, validated by `__post_init__`, and by `checked` here) its
result is the left-most insertion point, which `searchLeft` computes by a linear scan (`searchRight`:
right-most insertion point, numpy's `side="right"` compares with `key < x`).

Degenerate case kept on purpose: a one-sample series is accepted by `TimeSeries` (only empty arrays are
rejected); there `lo = hi = 0`, the weights are `0/0`, and scipy returns NaN for `t = x[0]` (`interpRow` on
`Float` does the same).
>>> Variant switch `hold` (one defect found in the tree, see checks/c48.py): `interp false` is the code as
found (`interpolate` always calls interp1d); `interp true` is `interpolate` with the one-sample guard
`if method == "linear" and len(self.times) == 1: return np.repeat(self.data[:1], len(t), axis=0)`.
The check probes the real code once and runs the driver with the matching variant.  The theorems about
interpolation hold for both variants from two samples on, and for `hold = true` also for one sample.

`np.diff(times) > 0` is modelled as `times[i] < times[i+1]` (equivalent for finite doubles: a difference
of distinct doubles is never rounded to zero).  Negative (wrapping) column indices are not modelled:
column indices are naturals, an index `>= m` is the `IndexError`.
-/
namespace MjProof.TimeSeries

/-- one sample: timestamp and the `m` signal values at that time -/
structure Sample (α : Type) (m : Nat) where
  t : α
  row : Vector α m

/-- the exceptions the modelled code raises (all `ValueError` except `badIndex` = `IndexError`) -/
inductive Err where
  | empty          -- "Empty arrays are not allowed in TimeSeries"
  | notIncreasing  -- "times must be strictly increasing" / "new_times must be strictly increasing"
  | unknownSignal  -- "... observation is not in the observation name map."
  | badIndex       -- IndexError: column index out of range
  | badShape       -- numpy: operands could not be broadcast together
  | minGtMax       -- "min_delay must be less than or equal to max_delay"
  deriving DecidableEq, Repr

/-- `signal_mapping`: name -> column indices (insertion ordered dict; the `SignalType` tag is irrelevant here) -/
abbrev Mapping := List (String × List Nat)

/-- a `TimeSeries` object -/
structure TS (α : Type) (m : Nat) where
  samples : List (Sample α m)
  mapping : Mapping

def times {α : Type} {m : Nat} (l : List (Sample α m)) : List α := l.map (·.t)
def rows {α : Type} {m : Nat} (l : List (Sample α m)) : List (Vector α m) := l.map (·.row)

/-- `self.signal_mapping[obs_name]` -/
def lookup (mp : Mapping) (name : String) : Option (List Nat) :=
  match mp with
  | [] => none
  | (k, v) :: mp => if k == name then some v else lookup mp name

/-- column indices as `Fin m`; `none` is numpy's `IndexError` -/
def toFin (m : Nat) : List Nat → Option (List (Fin m))
  | [] => some []
  | i :: is =>
    if h : i < m then
      match toFin m is with
      | some r => some (⟨i, h⟩ :: r)
      | none => none
    else none

/-- `data[..., cols]` on one row -/
def selectRow {β : Type} {m : Nat} (cols : List (Fin m)) (r : Vector β m) : Vector β cols.length :=
  ⟨(cols.map (fun c => r[c])).toArray, by simp⟩

/-- `TimeSeries(ts.times, ts.data[:, cols], ...)` -/
def selectCols {α : Type} {m : Nat} (cols : List (Fin m)) (l : List (Sample α m)) : List (Sample α cols.length) :=
  l.map (fun p => ⟨p.t, selectRow cols p.row⟩)

/-- `row[cols] = src` on one row (fancy-index assignment, in index order: a repeated index keeps the last value) -/
def setCols {β : Type} {m : Nat} (cols : List (Fin m)) (src : List β) (dst : Vector β m) : Vector β m :=
  (cols.zip src).foldl (fun d cv => d.set cv.1.val cv.2 cv.1.isLt) dst

section Ops
variable {α : Type} {m : Nat}

/-- `np.all(np.diff(x) > 0)` -/
def strictInc [LT α] [DecidableLT α] : List α → Bool
  | [] => true
  | [_] => true
  | a :: b :: l => decide (a < b) && strictInc (b :: l)

/-- `np.searchsorted(times, t, side="left")` on a sorted array -/
def searchLeft [LT α] [DecidableLT α] : List (Sample α m) → α → Nat
  | [], _ => 0
  | p :: l, t => if p.t < t then searchLeft l t + 1 else 0

/-- `np.searchsorted(times, t, side="right")` on a sorted array -/
def searchRight [LT α] [DecidableLT α] : List (Sample α m) → α → Nat
  | [], _ => 0
  | p :: l, t => if t < p.t then 0 else searchRight l t + 1

/-- `idx.clip(1, n-1)` -/
def hiIdx (n i0 : Nat) : Nat := min (max i0 1) (n - 1)
/-- `idx - 1` as a python index (`-1` is the last element) -/
def loIdx (n hi : Nat) : Nat := if hi = 0 then n - 1 else hi - 1

theorem hiIdx_lt {n : Nat} (i0 : Nat) (h : 0 < n) : hiIdx n i0 < n := by unfold hiIdx; omega
theorem loIdx_lt {n hi : Nat} (h : 0 < n) (hh : hi < n) : loIdx n hi < n := by
  unfold loIdx; split <;> omega

/-- `__post_init__` of a series built from `l`: non-empty, strictly increasing; then continue with `k` -/
def checked [LT α] [DecidableLT α] {β : Type} (l : List (Sample α m)) (k : 0 < l.length → Except Err β) : Except Err β :=
  if h : 0 < l.length then
    if strictInc (times l) then k h else .error .notIncreasing
  else .error .empty

variable [Add α] [Sub α] [Mul α] [Div α] [LT α] [DecidableLT α]

/-- scipy's linear kernel on one pair of neighbouring values -/
def lerp (xlo xhi t ylo yhi : α) : α :=
  ((t - xlo) / (xhi - xlo)) * yhi + ((xhi - t) / (xhi - xlo)) * ylo

/-- scipy's `interp1d(kind="linear", fill_value=(data[0], data[-1]))` for one query time (see the file header) -/
def interpRow (l : List (Sample α m)) (hl : 0 < l.length) (t : α) : Vector α m :=
  let hi := hiIdx l.length (searchLeft l t)
  have hhi : hi < l.length := hiIdx_lt _ hl
  let lo := loIdx l.length hi
  have hlo : lo < l.length := loIdx_lt hl hhi
  let pl := l[lo]
  let ph := l[hi]
  let y := Vector.zipWith (fun yh yl => lerp pl.t ph.t t yl yh) ph.row pl.row
  let first := l[0]
  let last := l[l.length - 1]'(by omega)
  let y := if t < first.t then first.row else y
  if last.t < t then last.row else y

/-- `TimeSeries.interpolate(t, method="linear")` for one query time; `hold` is the variant switch of the file
    header (`true`: a one-sample series is held constant instead of going through interp1d) -/
def interp (hold : Bool) (l : List (Sample α m)) (hl : 0 < l.length) (t : α) : Vector α m :=
  if hold && l.length == 1 then l[0].row else interpRow l hl t

/-- `interpolate(new_times)` -/
def resampleRows (hold : Bool) (l : List (Sample α m)) (hl : 0 < l.length) (nt : List α) : List (Vector α m) :=
  nt.map (interp hold l hl)

/-- `TimeSeries.resample(new_times)` (the `target_dt` form is not modelled) -/
def resample (hold : Bool) (s : TS α m) (nt : List α) : Except Err (TS α m) :=
  checked s.samples fun h =>
    if !strictInc nt then .error .notIncreasing
    else if nt.isEmpty then .error .empty
    else .ok { samples := nt.map (fun t => ⟨t, interp hold s.samples h t⟩), mapping := s.mapping }

/-- numpy broadcasting of a 1-D parameter value against `k` selected columns -/
def broadcast (v : List α) (k : Nat) : Option (List α) :=
  if v.length = k then some v
  else match v with
    | [x] => some (List.replicate k x)
    | _ => none

/-- `data[..., cols] op= vb` on one row (gather, operate, scatter) -/
def elemRow (op : α → α → α) (cols : List (Fin m)) (vb : List α) (r : Vector α m) : Vector α m :=
  setCols cols (List.zipWith op (cols.map (fun c => r[c])) vb) r

/-- `data_out = ts.data.copy(); data_out[..., indices] op= value` with the look-ups and their errors -/
def elemCore (op : α → α → α) (mp : Mapping) (name : String) (v : List α) (l : List (Sample α m)) :
    Except Err (List (Sample α m)) :=
  match lookup mp name with
  | none => .error .unknownSignal
  | some idx =>
    match toFin m idx with
    | none => .error .badIndex
    | some cols =>
      match broadcast v cols.length with
      | none => .error .badShape
      | some vb => .ok (l.map fun p => ⟨p.t, elemRow op cols vb p.row⟩)

/-- `apply_bias` -/
def applyBias (s : TS α m) (name : String) (v : List α) : Except Err (TS α m) :=
  checked s.samples fun _ => (elemCore (· + ·) s.mapping name v s.samples).map fun l => { s with samples := l }

/-- `apply_gain` -/
def applyGain (s : TS α m) (name : String) (v : List α) : Except Err (TS α m) :=
  checked s.samples fun _ => (elemCore (· * ·) s.mapping name v s.samples).map fun l => { s with samples := l }

/-- `apply_delay`: the sensor's columns are resampled at `times - delay`, the others are kept -/
def applyDelay (hold : Bool) (s : TS α m) (name : String) (d : α) : Except Err (TS α m) :=
  checked s.samples fun h =>
    match lookup s.mapping name with
    | none => .error .unknownSignal
    | some idx =>
      match toFin m idx with
      | none => .error .badIndex
      | some cols =>
        let sub := selectCols cols s.samples
        have hsub : 0 < sub.length := by simpa [sub, selectCols] using h
        let nt := (times s.samples).map (· - d)
        if !strictInc nt then .error .notIncreasing
        else
          let res := resampleRows hold sub hsub nt
          .ok { s with samples := List.zipWith (fun p r => ⟨p.t, setCols cols r.toList p.row⟩) s.samples res }

/-- `ts.times[i:j], ts.data[i:j]` and the `__post_init__` of the result -/
def windowCore (s : TS α m) (lo hi : α) : Except Err (TS α m) :=
  let i := searchLeft s.samples lo
  let j := searchRight s.samples hi
  let w := (s.samples.take j).drop i
  if w.isEmpty then .error .empty else .ok { s with samples := w }

/-- `apply_time_window` -/
def applyTimeWindow (s : TS α m) (lo hi : α) : Except Err (TS α m) :=
  checked s.samples fun _ => windowCore s lo hi

/-- `apply_delayed_ts_window(ts, ts_delayed, min_delay, max_delay)`; only the times of `ts_delayed` matter -/
def applyDelayedWindow (s : TS α m) (t2 : List α) (minD maxD : α) : Except Err (TS α m) :=
  checked s.samples fun _ =>
    match h2 : t2 with
    | [] => .error .empty
    | a :: rest =>
      if !strictInc t2 then .error .notIncreasing
      else if maxD < minD then .error .minGtMax
      else windowCore s (a - minD) ((a :: rest).getLast (by simp) - maxD)

/-! ### resampling with per-sensor delays -/

/-- `for i in sensor_indices: delays[i] = delay` (python list assignment; `IndexError` beyond the end) -/
def setDelays (d : α) : List Nat → Vector α m → Except Err (Vector α m)
  | [], v => .ok v
  | i :: is, v => if h : i < m then setDelays d is (v.set i d h) else .error .badIndex

/-- `_build_per_column_delays` (before the negation) -/
def overrideDelays (mp : Mapping) : List (String × α) → Vector α m → Except Err (Vector α m)
  | [], v => .ok v
  | (name, d) :: sd, v =>
    match lookup mp name with
    | none => .error .unknownSignal
    | some idx =>
      match setDelays d idx v with
      | .error e => .error e
      | .ok v' => overrideDelays mp sd v'

/-- `_build_per_column_delays` -/
def buildDelays [Neg α] (mp : Mapping) (dflt : α) (sd : List (String × α)) (pred : Bool) : Except Err (Vector α m) :=
  match overrideDelays mp sd (Vector.replicate m dflt) with
  | .error e => .error e
  | .ok v => .ok (if pred then v.map (fun x => -x) else v)

/-- `delay_to_cols.setdefault(d, []).append(i)` on an insertion-ordered dict whose keys compare with `==`
    (an equal key keeps the key object inserted first) -/
def insertCol [BEq α] (g : List (α × List (Fin m))) (d : α) (c : Fin m) : List (α × List (Fin m)) :=
  match g with
  | [] => [(d, [c])]
  | (d', cs) :: g => if d' == d then (d', cs ++ [c]) :: g else (d', cs) :: insertCol g d c

/-- the grouping of `apply_resample_and_delay`: columns grouped by equal delay, in first-seen order -/
def groupByDelay [BEq α] (delays : Vector α m) : List (α × List (Fin m)) :=
  (List.finRange m).foldl (fun g c => insertCol g delays[c] c) []

/-- the grouping of `_apply_resample_and_delay_columnwise`: every column on its own -/
def singletons (delays : Vector α m) : List (α × List (Fin m)) :=
  (List.finRange m).map (fun c => (delays[c], [c]))

/-- one iteration of the group loop: `data_out[:, cols] = TimeSeries(times, data[:, cols]).resample(new_times + d).data`.
    `data_out` starts as `np.empty`: its cells are `none` until written. -/
def processGroup (hold : Bool) (l : List (Sample α m)) (hl : 0 < l.length) (nt : List α)
    (out : List (Vector (Option α) m)) (g : α × List (Fin m)) : List (Vector (Option α) m) :=
  let sub := selectCols g.2 l
  have hsub : 0 < sub.length := by simpa [sub, selectCols] using hl
  let res := resampleRows hold sub hsub (nt.map (· + g.1))
  List.zipWith (fun o r => setCols g.2 (r.toList.map some) o) out res

/-- the whole group loop, for an arbitrary list of groups -/
def resampleGroups (hold : Bool) (l : List (Sample α m)) (hl : 0 < l.length) (nt : List α)
    (groups : List (α × List (Fin m))) : List (Vector (Option α) m) :=
  groups.foldl (processGroup hold l hl nt) (List.replicate nt.length (Vector.replicate m none))

/-- `apply_resample_and_delay` / the column-wise reference, parameterised by the grouping.  The errors of the
    real code are: the `resample` of the first group rejects an empty `times` (`empty`) or a non-increasing
    `times + d` (`notIncreasing`); the final `TimeSeries(times, data_out)` validates `times` itself. -/
def resampleAndDelayWith [Neg α] (hold : Bool) (grouping : Vector α m → List (α × List (Fin m)))
    (s : TS α m) (nt : List α) (dflt : α) (sd : List (String × α)) (pred : Bool) :
    Except Err (List α × List (Vector (Option α) m)) :=
  checked s.samples fun h =>
    match buildDelays s.mapping dflt sd pred with
    | .error e => .error e
    | .ok delays =>
      let groups := grouping delays
      if nt.isEmpty then .error .empty
      else if groups.any (fun g => !strictInc (nt.map (· + g.1))) then .error .notIncreasing
      else if !strictInc nt then .error .notIncreasing
      else .ok (nt, resampleGroups hold s.samples h nt groups)

def applyResampleAndDelay [Neg α] [BEq α] (hold : Bool) (s : TS α m) (nt : List α) (dflt : α) (sd : List (String × α)) (pred : Bool) :=
  resampleAndDelayWith hold groupByDelay s nt dflt sd pred

def applyResampleAndDelayColumnwise [Neg α] (hold : Bool) (s : TS α m) (nt : List α) (dflt : α) (sd : List (String × α)) (pred : Bool) :=
  resampleAndDelayWith hold singletons s nt dflt sd pred

/-! ### `SignalTransform._apply_gains_biases` -/

/-- one registered gain or bias: `(pattern, params[param_name].value, target)` -/
structure GBEntry (α : Type) where
  pattern : String
  target : String
  value : List α

/-- `fnmatch(name, pattern)` restricted to the patterns the check generates: `*` or a literal name -/
def patMatch (pattern name : String) : Bool := pattern == "*" || pattern == name

/-- the inner `for name in sensor_names: if fnmatch(name, pattern): data[..., indices] op= value` -/
def gbNames (op : α → α → α) (mp : Mapping) (e : GBEntry α) : List String → List (Sample α m) → Except Err (List (Sample α m))
  | [], l => .ok l
  | name :: names, l =>
    if patMatch e.pattern name then
      match elemCore op mp name e.value l with
      | .error er => .error er
      | .ok l' => gbNames op mp e names l'
    else gbNames op mp e names l

/-- the outer loop over the registered entries (those whose target is the label or "both") -/
def gbEntries (op : α → α → α) (mp : Mapping) (label : String) : List (GBEntry α) → List (Sample α m) → Except Err (List (Sample α m))
  | [], l => .ok l
  | e :: es, l =>
    if e.target == label || e.target == "both" then
      match gbNames op mp e (mp.map (·.1)) l with
      | .error er => .error er
      | .ok l' => gbEntries op mp label es l'
    else gbEntries op mp label es l

/-- `_apply_gains_biases(ts, target_label, params)`: all gains, then all biases, on one copy -/
def applyGainsBiases (s : TS α m) (label : String) (gains biases : List (GBEntry α)) : Except Err (TS α m) :=
  checked s.samples fun _ =>
    match gbEntries (· * ·) s.mapping label gains s.samples with
    | .error e => .error e
    | .ok l =>
      match gbEntries (· + ·) s.mapping label biases l with
      | .error e => .error e
      | .ok l' => .ok { s with samples := l' }

end Ops

end MjProof.TimeSeries
