import MjProof.Model.Arena
/-
Executable model of the code that *consumes* `mj_arenaAllocByte` (DESIGN.md §5.C20):

  engine_collision_driver.c   pushPairArena, mj_narrowphase (contact buffer), mj_collideGeomElem /
                              mj_collideElems / mj_collideElemVert (flex contacts)
  engine_core_constraint.c    mj_addContact, arenaAllocEfc (X-macro over MJDATA_ARENA_POINTERS_SOLVER),
                              mj_makeY, mj_makeAR (sparse and dense branches)
  engine_island.c             arenaAllocIsland (X-macro over MJDATA_ARENA_POINTERS_ISLAND), clearIsland
  engine_derivative.c         effAlloc
  engine_memory.h             mj_clearEfc

Each consumer is a *program* in a small statement language (`Stmt`) that mirrors the source's control
flow around the allocation result: which variable receives the result (`alloc`), which variables the
following `if (!a || !b)` tests (`ifNull`), what the failure block does (`Act`s) and how it leaves
(`Exit`), and which pointers are dereferenced afterwards (`load` / `store`).  The interpreter `run`
executes a program on the arena model of `Model/Arena.lean` (the C19 model of `mj_arenaAllocByte`);
dereferencing a variable that holds NULL is the outcome `fault (nullDeref v)` – it is *not* hidden.

`guards` computes from a program the table "allocated variables / tested variables / failure actions /
exit" of every allocation site; `translate/c20_guards.py` extracts the same table from the C source on
every run and the check compares the two (so the model cannot silently test a different variable than
the code).  `pushPairArena` exists in two variants: `.asIs` (the tree at the time of writing tests the
*parameter* `pair` instead of the fresh `new_pair`) and `.fixed`.

Not modelled: the numeric payload written through the pointers, `contact[i].efc_address` (reset by
mj_clearEfc), ASAN poisoning, the contents of the stack (only the mark/free balance is tracked).
Core Lean only.
-/
namespace MjProof.ArenaConsumers
open MjProof.Arena

/-- `sizeof(mjContact)`, `_Alignof(mjContact)`, `sizeof(mjcPair)`, `_Alignof(mjcPair)` (LP64, double
    precision); compared with the compiled values on every run (`sites` op). -/
def SZCON : Nat := 584
def ALCON : Nat := 8
def SZPAIR : Nat := 24
def ALPAIR : Nat := 4
/-- number of entries of MJDATA_ARENA_POINTERS_SOLVER / _DUAL / _ISLAND (compared on every run). -/
def NSOLVER : Nat := 20
def NDUAL : Nat := 8
def NISLAND : Nat := 29

/-- X-macro groups of arena pointers of mjData. -/
inductive Group where
  | solver | dual | island
  deriving DecidableEq, Repr

/-- the locals / parameters that hold pointers in the modelled functions. -/
inductive Loc where
  | pair | newPair | dst | con | p
  deriving DecidableEq, Repr

/-- a pointer-valued variable: a local / parameter, or the `i`-th arena pointer field of group `g`. -/
inductive Var where
  | loc (n : Loc)
  | fld (g : Group) (i : Nat)
  deriving DecidableEq, Repr

def Var.isFld : Var → Bool
  | .fld _ _ => true
  | .loc _ => false

def Var.isIsland : Var → Bool
  | .fld .island _ => true
  | _ => false

inductive Warn where
  | contactFull | cnstrFull
  deriving DecidableEq, Repr

/-- pointer value: `none` = NULL. -/
abbrev Val := Option Nat

/-- statements without control flow (also the vocabulary of failure blocks). -/
inductive Act where
  | warn (w : Warn)     -- mj_warning(d, w, …)
  | clearEfc            -- mj_clearEfc(d)
  | parenaToCon         -- d->parena = d->ncon * sizeof(mjContact)
  | saveParena          -- size_t parena_old = d->parena
  | clearIsland         -- clearIsland(d, parena_old)
  | markStack           -- mj_markStack(d)
  | freeStack           -- mj_freeStack(d)
  | addNcon (k : Nat)   -- d->ncon += k
  deriving DecidableEq, Repr

inductive Exit where
  | ret (code : Int)    -- return code;
  | retVoid             -- return;
  | error               -- mjERROR(…): the handler does not return (longjmp / exit)
  deriving DecidableEq, Repr

inductive Stmt where
  | act (a : Act)
  | alloc (dst : Var) (bytes al : Nat)                         -- dst = mj_arenaAllocByte(d, bytes, al)
  | ifNull (tested : List Var) (body : List Act) (exit : Exit)  -- if (!t1 || !t2 …) { body; exit }
  | load (v : Var)                                             -- … = *v / v[i]
  | store (v : Var)                                            -- *v = … / v[i] = …
  | exit (e : Exit)
  deriving Repr

inductive Fault where
  | nullDeref (v : Var)    -- a NULL pointer is dereferenced
  | unbound (v : Var)      -- (model hygiene) a variable is read before it is assigned
  | unbalancedFree         -- mj_freeStack without an outstanding mj_markStack of this program
  | allocProtocol          -- (model hygiene) the allocator model answered neither pointer nor NULL
  deriving DecidableEq, Repr

inductive Outcome where
  | ret (code : Option Int)   -- the function returned (`none` for void)
  | error                     -- mju_error was raised
  | fault (f : Fault)         -- undefined behaviour
  deriving DecidableEq, Repr

/-- the part of mjData the consumers read and write. -/
structure D where
  a : State                  -- parena, pstack, … (Model/Arena.lean)
  ncon : Nat
  nefc : Nat
  nisland : Nat
  nidof : Nat
  nJ : Nat
  nY : Nat
  nA : Nat
  wCon : Nat                 -- d->warning[mjWARN_CONTACTFULL].number
  wCnstr : Nat               -- d->warning[mjWARN_CNSTRFULL].number
  parenaOld : Nat            -- the local `parena_old` of arenaAllocIsland
  depth : Nat                -- outstanding mj_markStack calls
  env : List (Var × Val)     -- pointer variables (first binding wins)
  deriving Repr

def lookup (env : List (Var × Val)) (v : Var) : Option Val :=
  match env with
  | [] => none
  | (w, x) :: rest => if w = v then some x else lookup rest v

def nullify (p : Var → Bool) : List (Var × Val) → List (Var × Val)
  | [] => []
  | (w, x) :: rest => (w, if p w then none else x) :: nullify p rest

def runAct (d : D) : Act → Except Fault D
  | .warn .contactFull => .ok { d with wCon := d.wCon + 1 }
  | .warn .cnstrFull => .ok { d with wCnstr := d.wCnstr + 1 }
  | .clearEfc => .ok { d with env := nullify Var.isFld d.env, nefc := 0, nisland := 0, nJ := 0, nY := 0, nA := 0 }
  | .parenaToCon => .ok { d with a := { d.a with parena := d.ncon * SZCON } }
  | .saveParena => .ok { d with parenaOld := d.a.parena }
  | .clearIsland => .ok { d with env := nullify Var.isIsland d.env, nefc := 0, nisland := 0, nidof := 0,
                                 a := { d.a with parena := d.parenaOld } }
  | .markStack => .ok { d with depth := d.depth + 1 }
  | .freeStack => if d.depth = 0 then .error .unbalancedFree else .ok { d with depth := d.depth - 1 }
  | .addNcon k => .ok { d with ncon := d.ncon + k }

def runActs (d : D) : List Act → Except Fault D
  | [] => .ok d
  | a :: rest =>
    match runAct d a with
    | .ok d' => runActs d' rest
    | .error f => .error f

def exitOutcome : Exit → Outcome
  | .ret code => .ret (some code)
  | .retVoid => .ret none
  | .error => .error

/-- `some true` when one of the tested variables is NULL, `none` when one is unbound. -/
def anyNull (env : List (Var × Val)) : List Var → Except Var Bool
  | [] => .ok false
  | v :: rest =>
    match lookup env v with
    | none => .error v
    | some none => match anyNull env rest with
                   | .error w => .error w
                   | .ok _ => .ok true
    | some (some _) => anyNull env rest

def deref (d : D) (v : Var) : Option Fault :=
  match lookup d.env v with
  | none => some (.unbound v)
  | some none => some (.nullDeref v)
  | some (some _) => none

/-- leaving through a failure block: its actions, then its exit. -/
def failExit (e : Exit) (d : D) : Except Fault D → Outcome × D
  | .ok d' => (exitOutcome e, d')
  | .error f => (.fault f, d)

/-- interpreter; running off the end of the body is `return;`. -/
def run (c : Cfg) : List Stmt → D → Outcome × D
  | [], d => (.ret none, d)
  | .act a :: rest, d =>
    match runAct d a with
    | .ok d' => run c rest d'
    | .error f => (.fault f, d)
  | .alloc dst bytes al :: rest, d =>
    match arenaAlloc c d.a bytes al with
    | (.ptr p, a') => run c rest { d with a := a', env := (dst, some p) :: d.env }
    | (.null, a') => run c rest { d with a := a', env := (dst, none) :: d.env }
    | _ => (.fault .allocProtocol, d)
  | .ifNull tested body e :: rest, d =>
    match anyNull d.env tested with
    | .error v => (.fault (.unbound v), d)
    | .ok true => failExit e d (runActs d body)
    | .ok false => run c rest d
  | .load v :: rest, d =>
    match deref d v with
    | some f => (.fault f, d)
    | none => run c rest d
  | .store v :: rest, d =>
    match deref d v with
    | some f => (.fault f, d)
    | none => run c rest d
  | .exit e :: _, d => (exitOutcome e, d)

/-! ## The syntactic discipline: every use is dominated by a success test on that variable -/

/-- static facts while scanning a program: `nn` = variables known to be non-NULL, `bd` = variables that
    are bound, `dep` = mj_markStack calls of this program not yet released. -/
structure Facts where
  nn : List Var
  bd : List Var
  dep : Nat

def actFacts (f : Facts) : Act → Option Facts
  | .clearEfc => some { f with nn := f.nn.filter (fun v => !v.isFld) }
  | .clearIsland => some { f with nn := f.nn.filter (fun v => !v.isIsland) }
  | .markStack => some { f with dep := f.dep + 1 }
  | .freeStack => if f.dep = 0 then none else some { f with dep := f.dep - 1 }
  | _ => some f

def actsFacts (f : Facts) : List Act → Option Facts
  | [] => some f
  | a :: rest => match actFacts f a with
                 | some f' => actsFacts f' rest
                 | none => none

/-- a returning exit must have released every mark of this program (`mjERROR` leaves the stack to the
    caller's error handling: mj_resetData). -/
def exitOk (f : Facts) : Exit → Bool
  | .error => true
  | _ => f.dep = 0

def guarded (f : Facts) : List Stmt → Bool
  | [] => f.dep = 0
  | .act a :: rest => match actFacts f a with
                      | some f' => guarded f' rest
                      | none => false
  | .alloc dst _ _ :: rest => guarded { f with nn := f.nn.filter (fun v => !decide (v = dst)), bd := dst :: f.bd } rest
  | .ifNull tested body e :: rest =>
    tested.all (· ∈ f.bd) &&
    (match actsFacts f body with
     | some f' => exitOk f' e
     | none => false) &&
    guarded { f with nn := tested ++ f.nn } rest
  | .load v :: rest => decide (v ∈ f.nn) && guarded f rest
  | .store v :: rest => decide (v ∈ f.nn) && guarded f rest
  | .exit e :: _ => exitOk f e

/-- parameters that the callers pass as valid pointers. -/
def WellGuarded (params : List Var) (p : List Stmt) : Bool := guarded ⟨params, params, 0⟩ p

/-! ## The consumers -/

inductive Variant where
  | asIs | fixed
  deriving DecidableEq, Repr

def vPair : Var := .loc .pair
def vNewPair : Var := .loc .newPair
def vDst : Var := .loc .dst
def vCon : Var := .loc .con
def vP : Var := .loc .p

/-- engine_collision_driver.c: pushPairArena(d, pair). -/
def pushPair : Variant → List Stmt
  | .asIs  => [.alloc vNewPair SZPAIR ALPAIR, .ifNull [vPair] [] .error, .load vPair, .store vNewPair]
  | .fixed => [.alloc vNewPair SZPAIR ALPAIR, .ifNull [vNewPair] [] .error, .load vPair, .store vNewPair]

/-- engine_core_constraint.c: mj_addContact(m, d, con). -/
def addContact : List Stmt :=
  [.act .parenaToCon, .act .clearEfc, .alloc vDst SZCON ALCON,
   .ifNull [vDst] [.warn .contactFull] (.ret 1),
   .load vCon, .store vDst, .act (.addNcon 1), .exit (.ret 0)]

/-- the X-macro body `d->name = mj_arenaAllocByte(…); if (!d->name) { fail; return 0; }` for the entries
    `i, i+1, …` of group `g`. -/
def xmacro (g : Group) (fail : List Act) : Nat → List (Nat × Nat) → List Stmt
  | _, [] => []
  | i, (b, al) :: rest => .alloc (.fld g i) b al :: .ifNull [.fld g i] fail (.ret 0) :: xmacro g fail (i + 1) rest

def efcFail : List Act := [.warn .cnstrFull, .clearEfc, .parenaToCon]
def islandFail : List Act := [.warn .cnstrFull, .clearIsland]

/-- engine_core_constraint.c: arenaAllocEfc(m, d); `reqs` = (bytes, alignment) of the X-macro entries. -/
def allocEfc (reqs : List (Nat × Nat)) : List Stmt :=
  .act .parenaToCon :: (xmacro .solver efcFail 0 reqs ++ [.exit (.ret 1)])

/-- engine_island.c: arenaAllocIsland(m, d). -/
def allocIsland (reqs : List (Nat × Nat)) : List Stmt :=
  .act .saveParena :: (xmacro .island islandFail 0 reqs ++ [.exit (.ret 1)])

/-- engine_collision_driver.c: mj_narrowphase, from its mj_markStack to the end: the contact buffer
    `con` of `n` contacts (`n > 0`). -/
def narrowphaseCon (n : Nat) : List Stmt :=
  [.act .markStack, .alloc vCon (SZCON * n) ALCON,
   .ifNull [vCon] [.warn .contactFull, .freeStack] .retVoid,
   .act (.addNcon n), .store vCon, .act .freeStack]

/-- mj_collideGeomElem and mj_collideElemVert: warning, then mj_freeStack. -/
def flexCon (n : Nat) : List Stmt :=
  [.act .markStack, .alloc vCon (SZCON * n) ALCON,
   .ifNull [vCon] [.warn .contactFull, .freeStack] .retVoid,
   .store vCon, .act (.addNcon n), .act .freeStack]

/-- mj_collideElems: mj_freeStack, then the warning. -/
def flexConElems (n : Nat) : List Stmt :=
  [.act .markStack, .alloc vCon (SZCON * n) ALCON,
   .ifNull [vCon] [.freeStack, .warn .contactFull] .retVoid,
   .store vCon, .act (.addNcon n), .act .freeStack]

def dualFail : List Act := [.warn .cnstrFull, .clearEfc, .parenaToCon, .freeStack]

/-- indices of the MJDATA_ARENA_POINTERS_DUAL entries. -/
def yRownnz : Var := .fld .dual 0
def yRowadr : Var := .fld .dual 1
def yColind : Var := .fld .dual 2
def yVal : Var := .fld .dual 3
def arRownnz : Var := .fld .dual 4
def arRowadr : Var := .fld .dual 5
def arColind : Var := .fld .dual 6
def arVal : Var := .fld .dual 7

/-- engine_core_constraint.c: mj_makeY, sparse branch (`nefc` rows, `nY` non-zeros known only after the
    first pair of arrays has been filled: `nY` is a parameter of the model). -/
def makeYSparse (nefc nY : Nat) : List Stmt :=
  [.act .markStack,
   .alloc yRownnz (4 * nefc) 4, .alloc yRowadr (4 * nefc) 4,
   .ifNull [yRownnz, yRowadr] dualFail .retVoid,
   .store yRownnz, .store yRowadr,
   .alloc yVal (8 * nY) 8, .alloc yColind (4 * nY) 4,
   .ifNull [yVal, yColind] dualFail .retVoid,
   .store yVal, .store yColind, .load yRownnz, .load yRowadr,
   .act .freeStack]

def makeYDense (nefc nv : Nat) : List Stmt :=
  [.act .markStack,
   .alloc yVal (8 * (nefc * nv)) 8,
   .ifNull [yVal] dualFail .retVoid,
   .store yVal, .act .freeStack]

/-- engine_core_constraint.c: mj_makeAR, sparse branch (reads the Y arrays made by mj_makeY). -/
def makeARSparse (nefc nA : Nat) : List Stmt :=
  [.act .markStack,
   .load yVal, .load yRownnz, .load yRowadr, .load yColind,
   .alloc arRownnz (4 * nefc) 4, .alloc arRowadr (4 * nefc) 4,
   .ifNull [arRownnz, arRowadr] dualFail .retVoid,
   .store arRownnz, .store arRowadr,
   .alloc arVal (8 * nA) 8, .alloc arColind (4 * nA) 4,
   .ifNull [arVal, arColind] dualFail .retVoid,
   .store arColind, .store arVal, .act .freeStack]

def makeARDense (nefc : Nat) : List Stmt :=
  [.act .markStack,
   .alloc arVal (8 * (nefc * nefc)) 8,
   .ifNull [arVal] dualFail .retVoid,
   .load yVal, .store arVal, .act .freeStack]

/-- engine_derivative.c: effAlloc(d, bytes, align). -/
def effAlloc (bytes al : Nat) : List Stmt :=
  [.alloc vP bytes al, .ifNull [vP] [] .error, .exit (.ret 0)]


/-! ## The list of consumers (every `mj_arenaAllocByte` call site of src/engine) -/

inductive Consumer where
  | pushPair (v : Variant)
  | addContact
  | allocEfc (reqs : List (Nat × Nat))
  | allocIsland (reqs : List (Nat × Nat))
  | narrowphaseCon (n : Nat)
  | flexCon (n : Nat)
  | flexConElems (n : Nat)
  | makeYSparse (nefc nY : Nat)
  | makeYDense (nefc nv : Nat)
  | makeARSparse (nefc nA : Nat)
  | makeARDense (nefc : Nat)
  | effAlloc (bytes al : Nat)
  deriving Repr

def Consumer.prog : Consumer → List Stmt
  | .pushPair v => MjProof.ArenaConsumers.pushPair v
  | .addContact => MjProof.ArenaConsumers.addContact
  | .allocEfc reqs => MjProof.ArenaConsumers.allocEfc reqs
  | .allocIsland reqs => MjProof.ArenaConsumers.allocIsland reqs
  | .narrowphaseCon n => MjProof.ArenaConsumers.narrowphaseCon n
  | .flexCon n => MjProof.ArenaConsumers.flexCon n
  | .flexConElems n => MjProof.ArenaConsumers.flexConElems n
  | .makeYSparse nefc nY => MjProof.ArenaConsumers.makeYSparse nefc nY
  | .makeYDense nefc nv => MjProof.ArenaConsumers.makeYDense nefc nv
  | .makeARSparse nefc nA => MjProof.ArenaConsumers.makeARSparse nefc nA
  | .makeARDense nefc => MjProof.ArenaConsumers.makeARDense nefc
  | .effAlloc b al => MjProof.ArenaConsumers.effAlloc b al

/-- the pointers each consumer receives from its caller as valid (non-NULL): parameters, and for
    mj_makeAR the Y arrays that mj_makeY produced (mj_projectConstraint runs mj_makeAR only while
    `d->nefc` is still non-zero, i.e. when mj_makeY did not fail). -/
def Consumer.params : Consumer → List Var
  | .pushPair _ => [vPair]
  | .addContact => [vCon]
  | .makeARSparse _ _ => [yVal, yRownnz, yRowadr, yColind]
  | .makeARDense _ => [yVal]
  | _ => []

def Consumer.isAsIsPushPair : Consumer → Bool
  | .pushPair .asIs => true
  | _ => false

/-! ## Guard table (compared with translate/c20_guards.py) -/

structure Site where
  allocated : List Var
  tested : List Var
  body : List Act
  exit : Exit
  deriving Repr

/-- the allocation sites of a program: each maximal run of `alloc`s with the `ifNull` that follows it
    (`none` when the run is not followed by a test at all). -/
def guards : List Var → List Stmt → List (List Var × Option (List Var × List Act × Exit))
  | [], [] => []
  | pend, [] => [(pend.reverse, none)]
  | pend, .alloc dst _ _ :: rest => guards (dst :: pend) rest
  | [], .ifNull _ _ _ :: rest => guards [] rest
  | pend, .ifNull t b e :: rest => (pend.reverse, some (t, b, e)) :: guards [] rest
  | [], _ :: rest => guards [] rest
  | pend, _ :: rest => (pend.reverse, none) :: guards [] rest

end MjProof.ArenaConsumers
