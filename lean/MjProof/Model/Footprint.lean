/-
Stage footprints of the MuJoCo pipeline (DESIGN.md §5.C01): a hand-written table
`stage ↦ (reads, may-writes, determined)` over FIELD GROUPS of `mjData`, at the granularity of the stage
functions that the generated skeletons (Gen/Pipeline.lean) call.  Core Lean only.

The table is *validated against the real engine* on every run of `./check C01` (checks/c01.py):
for every stage `S` with footprint `(R, W, K)`, on generated models and states,
  (V1) the fields that `S` changes all belong to groups of `W`;
  (V2) two data that agree on the groups of `R` (every other group filled with junk, the free arena
       included) agree bitwise on every field of the groups `R ∪ K` after `S`;
and Props/C01.lean proves that the classification covers every member of `struct mjData_` that
translate/c01_fields.py finds in the working tree (a new field breaks the proof).

`fp sleep` is the table for models without (`false`) / with (`true`) `mjENBL_SLEEP`.  With sleeping
enabled the derived arrays of sleeping trees are *latent state* (doc/programming/simulation.rst, "Notes
on sleeping: violated assumptions"): every stage then also reads the sleep bookkeeping and only
partially rewrites the per-body arrays, so almost nothing is "determined".
-/
import MjProof.Model.Prog

namespace MjProof.Footprint
open MjProof.Prog

/-- field groups of `mjData` (plus the function-local variables of the skeleton functions) -/
inductive Grp where
  -- the integration state, one group per component (mjSTATE_INTEGRATION)
  | time | qpos | qvel | act | history | qacc_warmstart | plugin_state
  | ctrl | qfrc_applied | xfrc_applied | eq_active | mocap_pos | mocap_quat | userdata
  -- derived data
  | pos          -- everything computed by the position stage (incl. contacts, constraint rows, islands, sizes, parena)
  | vel          -- velocity stage: cvel, cdof_dot, qfrc_bias, passive forces, ten/actuator velocity, efc_vel, efc_aref, efm_c
  | subtreevel   -- lazy cache: flg_subtreevel + subtree_linvel, subtree_angmom
  | integ        -- qH, qHDiagInv, qDeriv, qLU (integrator scratch)
  | actuation    -- act_dot, actuator_force, qfrc_actuator
  | smooth       -- qfrc_smooth, qacc_smooth
  | cfrc         -- qfrc_constraint
  | efc_force    -- efc_force
  | cstate       -- efc_state (not claimed: with islands the CG / Newton solvers leave it at the warm-start point or stale)
  | csol         -- solver_niter
  | efc_b        -- efc_b
  -- island-ordered solver vectors, one group per array (their value is the prefix the island maps designate)
  | ifrc_smooth | iacc_smooth | iacc | ifrc_constraint | iefc_aref | iefc_force
  | iscratch     -- iefc_state
  | qacc
  | qfrc_inverse
  | rnepost      -- lazy cache: flg_rnepost + cacc, cfrc_int, cfrc_ext
  | ePos | eVel  -- lazy caches: flg_energypos + energy[0], flg_energyvel + energy[1]
  | sensPos | sensVel | sensAcc   -- the entries of sensordata computed in each stage
  | fwdinv       -- solver_fwdinv
  | sleep        -- tree_asleep and the arrays / counts mj_updateSleep derives from it
  -- not part of the compared outputs
  | diag         -- warnings, timers, solver statistics, maxuse_* (and the timer macro's locals)
  | memc         -- constants of the allocation: narena, nbuffer, nplugin, plugin, threadlock
  | stack        -- pstack, pbase
  | handle       -- buffer, arena, threadpool, plugin_data, signature (addresses / identity)
  | locals       -- local variables of the skeleton functions (`$locals`)
deriving DecidableEq, Repr, Inhabited

open Grp

def Grp.all : List Grp :=
  [time, qpos, qvel, act, history, qacc_warmstart, plugin_state, ctrl, qfrc_applied, xfrc_applied, eq_active,
   mocap_pos, mocap_quat, userdata, pos, vel, subtreevel, integ, actuation, smooth, cfrc, efc_force, cstate, csol, efc_b,
   ifrc_smooth, iacc_smooth, iacc, ifrc_constraint, iefc_aref, iefc_force, iscratch, Grp.qacc,
   qfrc_inverse, rnepost, ePos, eVel, sensPos, sensVel,
   sensAcc, fwdinv, sleep, diag, memc, stack, handle, locals]

def Grp.name : Grp → String
  | time => "time" | qpos => "qpos" | qvel => "qvel" | act => "act" | history => "history"
  | qacc_warmstart => "qacc_warmstart" | plugin_state => "plugin_state" | ctrl => "ctrl"
  | qfrc_applied => "qfrc_applied" | xfrc_applied => "xfrc_applied" | eq_active => "eq_active"
  | mocap_pos => "mocap_pos" | mocap_quat => "mocap_quat" | userdata => "userdata"
  | pos => "pos" | vel => "vel" | subtreevel => "subtreevel" | integ => "integ" | actuation => "actuation"
  | smooth => "smooth" | cfrc => "cfrc" | efc_force => "efc_force" | cstate => "cstate" | csol => "csol" | efc_b => "efc_b"
  | ifrc_smooth => "ifrc_smooth" | iacc_smooth => "iacc_smooth" | iacc => "iacc" | ifrc_constraint => "ifrc_constraint"
  | iefc_aref => "iefc_aref" | iefc_force => "iefc_force"
  | iscratch => "iscratch" | Grp.qacc => "qacc"
  | qfrc_inverse => "qfrc_inverse" | rnepost => "rnepost"
  | ePos => "ePos" | eVel => "eVel" | sensPos => "sensPos" | sensVel => "sensVel" | sensAcc => "sensAcc"
  | fwdinv => "fwdinv" | sleep => "sleep" | diag => "diag" | memc => "memc" | stack => "stack"
  | handle => "handle" | locals => "locals"

/-- the integration-state groups -/
def stateGroups : List Grp :=
  [time, qpos, qvel, act, history, qacc_warmstart, plugin_state, ctrl, qfrc_applied, xfrc_applied, eq_active,
   mocap_pos, mocap_quat, userdata]

/-- groups that consist of exactly one member of mjData (`C01.singleton_groups_have_one_member`): a plain `d->x = …` of a
    scalar member, or a utility call that overwrites the whole array (translate/skeleton.py, WHOLE_WRITERS), determines
    them -/
def scalarGroups : List Grp :=
  [time, Grp.qacc, cfrc, efc_force, cstate, csol, efc_b, ifrc_smooth, iacc_smooth, iacc, ifrc_constraint, iefc_aref, iefc_force]

/-- the lazily evaluated caches: (group, flag member, cached members).  The *value* of such a group is the
    flag together with, when the flag is set, the cached arrays; the arrays of an invalid cache (flag = 0)
    are not part of the value (nothing reads them), so clearing the flag determines the group. -/
def lazyGroups : List (Grp × String × List String) :=
  [(ePos, "flg_energypos", ["energy@ePos"]), (eVel, "flg_energyvel", ["energy@eVel"]),
   (subtreevel, "flg_subtreevel", ["subtree_linvel", "subtree_angmom"]),
   (rnepost, "flg_rnepost", ["cacc", "cfrc_int", "cfrc_ext"])]

/-- members that are meaningful only while a flag is non-zero: (flag, [(name in the harness, member of mjData)]).  `m@sparse` / `m@actuation`
    are model-level conditions reported by the harness (`mj_isSparse(m)`, actuation not disabled): the sparse
    index arrays of the constraint Jacobian are allocated but never written for dense models, `act_dot`
    is not written when actuation is disabled, `nidof` is stale when there are no islands. -/
def condFields : List (String × List (String × String)) :=
  [("flg_energypos", [("energy@ePos", "energy")]), ("flg_energyvel", [("energy@eVel", "energy")]),
   ("flg_subtreevel", [("subtree_linvel", "subtree_linvel"), ("subtree_angmom", "subtree_angmom")]),
   ("flg_rnepost", [("cacc", "cacc"), ("cfrc_int", "cfrc_int"), ("cfrc_ext", "cfrc_ext")]),
   ("nisland", [("nidof", "nidof")]),
   ("m@sparse", [("efc_J_rownnz", "efc_J_rownnz"), ("efc_J_rowadr", "efc_J_rowadr"),
                 ("efc_J_rowsuper", "efc_J_rowsuper"), ("efc_J_colind", "efc_J_colind")]),
   ("m@actuation", [("act_dot", "act_dot")])]

/-- groups of a member of `struct mjData_` (or of the pseudo fields `$locals` / `$tm`); `[]` = unknown.
    `sensordata` and `energy` are split into per-stage slices. -/
def grp (f : String) : List Grp :=
  match f with
  -- integration state
  | "time" => [time] | "qpos" => [qpos] | "qvel" => [qvel] | "act" => [act] | "history" => [history]
  | "qacc_warmstart" => [qacc_warmstart] | "plugin_state" => [plugin_state] | "ctrl" => [ctrl]
  | "qfrc_applied" => [qfrc_applied] | "xfrc_applied" => [xfrc_applied] | "eq_active" => [eq_active]
  | "mocap_pos" => [mocap_pos] | "mocap_quat" => [mocap_quat] | "userdata" => [userdata]
  -- allocation
  | "narena" => [memc] | "nbuffer" => [memc] | "nplugin" => [memc] | "plugin" => [memc] | "threadlock" => [memc]
  | "pstack" => [stack] | "pbase" => [stack]
  | "buffer" => [handle] | "arena" => [handle] | "threadpool" => [handle] | "plugin_data" => [handle]
  | "signature" => [handle]
  -- diagnostics
  | "maxuse_stack" => [diag] | "maxuse_arena" => [diag] | "maxuse_con" => [diag] | "maxuse_efc" => [diag]
  | "solver" => [diag] | "solver_nnz" => [diag] | "warning" => [diag] | "timer" => [diag] | "$tm" => [diag]
  | "solver_niter" => [csol] | "solver_fwdinv" => [fwdinv]
  -- lazy flags, energy, sensors
  | "flg_energypos" => [ePos] | "flg_energyvel" => [eVel]
  | "flg_subtreevel" => [subtreevel] | "flg_rnepost" => [rnepost]
  | "energy" => [ePos, eVel]
  | "sensordata" => [sensPos, sensVel, sensAcc]
  -- sleep state
  | "tree_asleep" => [sleep] | "tree_awake" => [sleep] | "body_awake" => [sleep] | "body_awake_ind" => [sleep]
  | "parent_awake_ind" => [sleep] | "dof_awake_ind" => [sleep] | "ntree_awake" => [sleep]
  | "nbody_awake" => [sleep] | "nparent_awake" => [sleep] | "nv_awake" => [sleep]
  -- position stage: sizes and arena pointer
  | "parena" => [pos] | "ncon" => [pos] | "ne" => [pos] | "nf" => [pos] | "nl" => [pos] | "nefc" => [pos]
  | "nJ" => [pos] | "efm_active" => [pos] | "nefmK" => [pos] | "nefmdof" => [pos] | "nefmL" => [pos]
  | "nY" => [pos] | "nA" => [pos] | "nisland" => [pos] | "nidof" => [pos]
  -- position stage: kinematics, com, flex, tendon, transmission, inertia, collision
  | "xpos" => [pos] | "xquat" => [pos] | "xmat" => [pos] | "xipos" => [pos] | "ximat" => [pos]
  | "xanchor" => [pos] | "xaxis" => [pos] | "geom_xpos" => [pos] | "geom_xmat" => [pos]
  | "site_xpos" => [pos] | "site_xmat" => [pos] | "cam_xpos" => [pos] | "cam_xmat" => [pos]
  | "light_xpos" => [pos] | "light_xdir" => [pos] | "subtree_com" => [pos] | "cdof" => [pos] | "cinert" => [pos]
  | "flexvert_xpos" => [pos] | "flexelem_aabb" => [pos] | "flexelem_krot" => [pos] | "flexedge_J" => [pos]
  | "flexedge_length" => [pos] | "flexvert_J" => [pos] | "flexvert_length" => [pos] | "bvh_aabb_dyn" => [pos]
  | "ten_wrapadr" => [pos] | "ten_wrapnum" => [pos] | "ten_J" => [pos] | "ten_length" => [pos]
  | "wrap_obj" => [pos] | "wrap_xpos" => [pos] | "actuator_length" => [pos] | "moment_rownnz" => [pos]
  | "moment_rowadr" => [pos] | "moment_colind" => [pos] | "actuator_moment" => [pos]
  | "crb" => [pos] | "M" => [pos] | "qLD" => [pos] | "qLDiagInv" => [pos] | "bvh_active" => [diag]
  -- position stage: arena
  | "contact" => [pos] | "efc_type" => [pos] | "efc_id" => [pos] | "efc_J_rownnz" => [pos]
  | "efc_J_rowadr" => [pos] | "efc_J_rowsuper" => [pos] | "efc_J_colind" => [pos] | "efc_J" => [pos]
  | "efc_pos" => [pos] | "efc_margin" => [pos] | "efc_frictionloss" => [pos] | "efc_diagA" => [pos]
  | "efc_KBIP" => [pos] | "efc_D" => [pos] | "efc_R" => [pos] | "tendon_efcadr" => [pos]
  | "efc_Y_rownnz" => [pos] | "efc_Y_rowadr" => [pos] | "efc_Y_colind" => [pos] | "efc_Y" => [pos]
  | "efc_AR_rownnz" => [pos] | "efc_AR_rowadr" => [pos] | "efc_AR_colind" => [pos] | "efc_AR" => [pos]
  | "tree_island" => [pos] | "island_ntree" => [pos] | "island_itreeadr" => [pos] | "map_itree2tree" => [pos]
  | "dof_island" => [pos] | "island_nv" => [pos] | "island_idofadr" => [pos] | "island_dofadr" => [pos]
  | "map_dof2idof" => [pos] | "map_idof2dof" => [pos] | "efc_island" => [pos] | "island_ne" => [pos]
  | "island_nf" => [pos] | "island_nefc" => [pos] | "island_iefcadr" => [pos] | "map_efc2iefc" => [pos]
  | "map_iefc2efc" => [pos] | "iefc_type" => [pos] | "iefc_id" => [pos] | "iefc_frictionloss" => [pos]
  | "iefc_D" => [pos] | "iefc_R" => [pos]
  | "efm_K_rownnz" => [pos] | "efm_K_rowadr" => [pos] | "efm_K_colind" => [pos] | "efm_K_val" => [pos]
  | "efm_dofid" => [pos] | "efm_L" => [pos]
  -- velocity stage
  | "flexedge_velocity" => [vel] | "ten_velocity" => [vel] | "actuator_velocity" => [vel] | "cvel" => [vel]
  | "cdof_dot" => [vel] | "qfrc_bias" => [vel] | "qfrc_spring" => [vel] | "qfrc_damper" => [vel]
  | "qfrc_gravcomp" => [vel] | "qfrc_fluid" => [vel] | "qfrc_adhesion" => [vel] | "qfrc_passive" => [vel]
  | "efc_vel" => [vel] | "efc_aref" => [vel] | "efm_c" => [vel]
  | "subtree_linvel" => [subtreevel] | "subtree_angmom" => [subtreevel]
  | "qH" => [integ] | "qHDiagInv" => [integ] | "qDeriv" => [integ] | "qLU" => [integ]
  -- acceleration stage
  | "act_dot" => [actuation] | "actuator_force" => [actuation] | "qfrc_actuator" => [actuation]
  | "qfrc_smooth" => [smooth] | "qacc_smooth" => [smooth]
  | "qfrc_constraint" => [cfrc] | "efc_force" => [efc_force] | "efc_state" => [cstate]
  | "efc_b" => [efc_b]
  | "ifrc_smooth" => [ifrc_smooth] | "iacc_smooth" => [iacc_smooth] | "iacc" => [iacc] | "iefc_aref" => [iefc_aref]
  | "iefc_state" => [iscratch] | "iefc_force" => [iefc_force] | "ifrc_constraint" => [ifrc_constraint]
  | "qacc" => [Grp.qacc] | "qfrc_inverse" => [qfrc_inverse]
  | "cacc" => [rnepost] | "cfrc_int" => [rnepost] | "cfrc_ext" => [rnepost]
  | "$locals" => [locals]
  | _ => []

/-! ### the stage table -/

/-- all groups that hold simulation data derived from the state (what mj_resetData / arena re-layout may touch) -/
def derivedGroups : List Grp :=
  [pos, vel, subtreevel, integ, actuation, smooth, cfrc, efc_force, cstate, csol, efc_b, ifrc_smooth, iacc_smooth, iacc,
   ifrc_constraint, iefc_aref, iefc_force, iscratch, Grp.qacc, qfrc_inverse, rnepost,
   ePos, eVel, sensPos, sensVel, sensAcc, fwdinv, sleep]

/-- the island-ordered solver vectors -/
def islandGroups : List Grp := [ifrc_smooth, iacc_smooth, iacc, ifrc_constraint, iefc_aref, iefc_force, iscratch]

/-- groups living (partly) in the arena: re-allocated, hence clobbered, by every position stage -/
def arenaGroups : List Grp := [vel, cfrc, efc_force, cstate, csol, efc_b] ++ islandGroups

/-- stack discipline + allocation constants: read by everything that allocates.  A stage function leaves
    pstack / pbase as it found them (mj_markStack / mj_freeStack are balanced; validated by V1), so `stack` is
    in the reads but not in the writes of the stage functions. -/
def mem : List Grp := [memc, stack]

/-- what any sensor stage may read besides the stage's own inputs (delay / interval sensors) -/
def sensCommon : List Grp := [time, history]

/-- what an integrator (mj_EulerSkip / mj_implicitSkip / mj_advance) may read -/
def integratorReads : List Grp :=
  [qpos, qvel, act, time, ctrl, history, plugin_state, Grp.qacc, actuation, pos, vel, smooth, cfrc, efc_force, sensPos, sensVel,
   sensAcc, rnepost, subtreevel, xfrc_applied, qfrc_applied]

/-! #### leaf footprints of the constraint solvers (second layer)

The DUAL solvers (PGS, and the NoSlip post-pass) iterate on `efc_force` IN PLACE: its content on entry is their initial
iterate, so it is an input.  The PRIMAL solvers (CG, Newton) iterate on `qacc` (monolithic) or on the island copy `iacc`
and recompute the constraint forces from it. -/

/-- PGS / NoSlip, monolithic or one island: efc_force is read (initial iterate) and updated in place -/
def solverDual : Footprint Grp :=
  { R := [pos, efc_b, efc_force, csol] ++ mem, W := [efc_force, cstate, csol, diag], K := [] }

/-- CG / Newton, monolithic: qacc is read (initial iterate) and updated in place -/
def solverPrimal : Footprint Grp :=
  { R := [pos, vel, smooth, Grp.qacc, csol] ++ mem, W := [Grp.qacc, efc_force, cstate, cfrc, csol, diag], K := [] }

/-- CG / Newton on the island copies -/
def solverPrimalIsland : Footprint Grp :=
  { R := [pos, ifrc_smooth, iacc_smooth, iacc, iefc_aref, csol] ++ mem
    W := [iacc, ifrc_constraint, iefc_force, iscratch, csol, diag], K := [] }

/-- a leaf that also receives a local of its caller by value -/
def withLocals (fp : Footprint Grp) : Footprint Grp := { fp with R := fp.R ++ [locals] }

/-- source text of the island dispatch of mj_fwdConstraint; which solver `solveIslandTask` runs is a model constant -/
def dispatchKey : String := "mju_dispatch(m, d, solveIslandTask, NULL, nisland)"

/-- footprint of the island dispatch when `m->opt.solver` is known, the union of the cases otherwise -/
def dispatchFp : Option String → Footprint Grp
  | some "mjSOL_PGS" => withLocals solverDual
  | some "mjSOL_CG" => withLocals solverPrimalIsland
  | some "mjSOL_NEWTON" => withLocals solverPrimalIsland
  | _ => withLocals { R := uni solverDual.R solverPrimalIsland.R, W := uni solverDual.W solverPrimalIsland.W, K := [] }

/-- footprints without sleeping (`mjENBL_SLEEP` off) -/
def stageNoSleep (key : String) : Option (Footprint Grp) :=
  match key with
  | "mj_fwdPosition" => some
    { R := [qpos, mocap_pos, mocap_quat, eq_active] ++ mem
      W := [pos, ePos, sleep, diag] ++ arenaGroups
      K := [pos, ePos] }
  | "mj_invPosition" => some
    { R := [qpos, mocap_pos, mocap_quat, eq_active] ++ mem
      W := [pos, ePos, sleep, diag] ++ arenaGroups
      K := [pos, ePos] }
  | "mj_sensorPos" => some
    { R := [pos, qpos, ePos] ++ sensCommon ++ mem
      W := [sensPos, ePos, diag]
      K := [sensPos, ePos] }
  | "mj_energyPos" => some
    { R := [pos, qpos] ++ mem, W := [ePos], K := [ePos] }
  | "mj_fwdVelocity" => some
    { R := [pos, qpos, qvel] ++ mem
      W := [vel, subtreevel, eVel, diag]
      K := [vel, subtreevel, eVel] }
  | "mj_sensorVel" => some
    { R := [pos, vel, qpos, qvel, subtreevel, eVel] ++ sensCommon ++ mem
      W := [sensVel, subtreevel, eVel, diag]
      K := [sensVel, subtreevel, eVel] }
  | "mj_energyVel" => some
    { R := [pos, qvel] ++ mem, W := [eVel], K := [eVel] }
  | "mj_fwdActuation" => some
    { R := [pos, vel, ctrl, act, time, history, qpos, qvel] ++ mem
      W := [actuation, diag]
      K := [actuation] }
  | "mj_fwdAcceleration" => some
    { R := [pos, vel, actuation, qfrc_applied, xfrc_applied] ++ mem
      W := [smooth, diag]
      K := [smooth] }
  | "mj_fwdConstraint" => some
    -- justified from the translated body and the leaf footprints below: `C01.fwdConstraint_refines_footprint`
    { R := [pos, vel, smooth, qacc_warmstart] ++ mem
      W := [cfrc, efc_force, cstate, csol, efc_b] ++ islandGroups ++ [Grp.qacc, diag]
      K := [cfrc, efc_force, csol, efc_b, Grp.qacc] }
  | "mj_sensorAcc" => some
    { R := [pos, vel, actuation, cfrc, efc_force, Grp.qacc, qpos, qvel, xfrc_applied, rnepost, subtreevel] ++ sensCommon ++ mem
      W := [sensAcc, rnepost, subtreevel, diag]
      K := [sensAcc, rnepost, subtreevel] }
  | "mj_invConstraint" => some
    -- justified from the translated body: `C01.invConstraint_refines_footprint`
    { R := [pos, vel, Grp.qacc] ++ mem
      W := [cfrc, efc_force, cstate, diag]
      K := [cfrc, efc_force] }
  | "mj_discreteAcc" => some
    { R := [pos, vel, qpos, qvel, Grp.qacc, ctrl, act, sleep] ++ mem
      W := [Grp.qacc, integ, vel, diag]
      K := [Grp.qacc] }
  | "mj_rne(m, d, 0, d->qfrc_inverse)" => some
    { R := [pos, vel, qvel] ++ mem, W := [qfrc_inverse], K := [qfrc_inverse] }
  | "mj_tendonBias(m, d, d->qfrc_inverse)" => some
    { R := [pos, vel, qvel, qfrc_inverse] ++ mem, W := [qfrc_inverse], K := [qfrc_inverse] }
  | "mj_mulM(m, d, Ma, d->qacc)" => some
    { R := [pos, Grp.qacc, locals], W := [locals], K := [] }
  | "mjd_effMulAdd(m, d, Ma, d->qacc)" => some
    { R := [pos, Grp.qacc, locals] ++ mem, W := [locals], K := [] }
  | "mj_xfrcAccumulate(m, d, qforce)" => some
    { R := [pos, xfrc_applied, locals], W := [locals], K := [] }
  -- integrators (atomic): advance the state; the derived data they leave behind is not claimed
  | "mj_EulerSkip(m, d, 0)" => some
    { R := integratorReads ++ mem
      W := [qpos, qvel, act, time, history, qacc_warmstart, plugin_state, integ, rnepost, subtreevel, sleep, diag]
      K := [qpos, qvel, act, time, history, qacc_warmstart, plugin_state] }
  | "mj_implicitSkip(m, d, 0)" => some
    -- `sleep`: mjd_freeMhat / the tendon derivative test d->tree_awake without testing mjENBL_SLEEP
    { R := integratorReads ++ [sleep] ++ mem
      W := [qpos, qvel, act, time, history, qacc_warmstart, plugin_state, integ, rnepost, subtreevel, sleep, diag]
      K := [qpos, qvel, act, time, history, qacc_warmstart, plugin_state] }
  | "mj_advance(m, d, dX+2*nv, dX+nv, dX)" => some
    { R := integratorReads ++ [locals] ++ mem
      W := [qpos, qvel, act, time, history, qacc_warmstart, plugin_state, rnepost, subtreevel, sleep, diag]
      K := [qpos, qvel, act, time, history, qacc_warmstart, plugin_state] }
  -- reset: everything but the allocation constants becomes a function of the model
  | "mj_resetData" => some
    -- (mj_resetData also formats the accumulated timers into a log message before clearing them: no effect on mjData)
    { R := mem
      W := stateGroups ++ derivedGroups ++ [diag, stack]
      K := stateGroups ++ derivedGroups ++ [diag, stack] }
  -- warnings and stack bookkeeping
  | "mj_warning(d, mjWARN_BADQPOS, i)" => some { R := [time, locals], W := [diag], K := [] }
  | "mj_warning(d, mjWARN_BADQVEL, i)" => some { R := [time, locals], W := [diag], K := [] }
  | "mj_warning(d, mjWARN_BADQACC, i)" => some { R := [time, locals], W := [diag], K := [] }
  | "mj_markStack" => some { R := mem, W := [stack, diag], K := [] }
  | "mj_freeStack" => some { R := mem, W := [stack, diag], K := [] }
  | "mjSTACKALLOC(d, nv, mjtNum)" => some { R := mem ++ [locals], W := [stack, diag, locals], K := [] }
  | "mjSTACKALLOC(d, nefc, mjtNum)" => some { R := mem ++ [locals], W := [stack, diag, locals], K := [] }
  | "mjSTACKALLOC(d, 2*nv+na, mjtNum)" => some { R := mem ++ [locals], W := [stack, diag, locals], K := [] }
  | "mjSTACKALLOC(d, nq+nv+na, mjtNum)" => some { R := mem ++ [locals], W := [stack, diag, locals], K := [] }
  | "mjSTACKALLOC(d, nv+na, mjtNum)" => some { R := mem ++ [locals], W := [stack, diag, locals], K := [] }
  -- second layer: the leaf calls of mj_fwdConstraint / warmstart / mj_invConstraint (Gen.Pipeline.subStageKeys)
  | "mj_mulJacVec(m, d, d->efc_b, d->qacc_smooth)" => some
    { R := [pos, smooth] ++ mem, W := [efc_b, diag], K := [efc_b] }
  | "mj_mulJacVec(m, d, jar, d->qacc_warmstart)" => some
    { R := [pos, qacc_warmstart, locals] ++ mem, W := [locals, diag], K := [] }
  | "mj_mulJacVec(m, d, jar, d->qacc)" => some
    { R := [pos, Grp.qacc, locals] ++ mem, W := [locals, diag], K := [] }
  | "mj_mulM(m, d, Ma, d->qacc_warmstart)" => some
    { R := [pos, qacc_warmstart, locals] ++ mem, W := [locals, diag], K := [] }
  -- efc_state, efc_force from jar (a local / efc_b), then qfrc_constraint = J' efc_force; the cost goes to a local
  | "mj_constraintUpdate(m, d, jar, &cost_warmstart, 0)" => some
    { R := [pos, locals] ++ mem, W := [efc_force, cstate, cfrc, locals, diag], K := [efc_force, cstate, cfrc] }
  | "mj_constraintUpdate(m, d, d->efc_b, &cost_smooth, 0)" => some
    { R := [pos, efc_b, locals] ++ mem, W := [efc_force, cstate, cfrc, locals, diag], K := [efc_force, cstate, cfrc] }
  | "mj_constraintUpdate(m, d, jar, NULL, 0)" => some
    { R := [pos, locals] ++ mem, W := [efc_force, cstate, cfrc, diag], K := [efc_force, cstate, cfrc] }
  | "mj_solPGS(m, d, m->opt.iterations)" => some solverDual
  | "mj_solCG(m, d, m->opt.iterations)" => some solverPrimal
  | "mj_solNewton(m, d, m->opt.iterations)" => some solverPrimal
  | "mj_solNoSlip(m, d, m->opt.noslip_iterations)" => some solverDual
  | "mj_solNoSlip_island(m, d, island, m->opt.noslip_iterations)" => some (withLocals solverDual)
  | "mj_dualFinish" => some
    { R := [pos, efc_force, smooth] ++ mem, W := [cfrc, Grp.qacc, diag], K := [cfrc, Grp.qacc] }
  | _ => none

/-- groups whose arrays are only partially rewritten (entries of sleeping trees are kept) when sleeping is
    enabled -/
def latentGroups : List Grp :=
  [pos, vel, subtreevel, actuation, smooth, cfrc, efc_force, cstate, csol, efc_b] ++ islandGroups ++
  [Grp.qacc, qfrc_inverse, rnepost, sensPos, sensVel, sensAcc, ePos, eVel, integ]

/-- footprints with sleeping enabled: every stage additionally reads the sleep bookkeeping, and nothing
    in a latent group counts as determined; the position stage (mj_kinematics → mj_wake) additionally reads
    qvel and the applied forces -/
def stageSleep (key : String) : Option (Footprint Grp) :=
  (stageNoSleep key).map fun fp =>
    if key = "mj_resetData" then fp else
    { R := uni (uni fp.R [sleep]) (if key = "mj_fwdPosition" ∨ key = "mj_invPosition" then [qvel, qfrc_applied, xfrc_applied] else [])
      W := fp.W
      K := diff fp.K latentGroups }

/-- source texts of the sleep-filter statements of mj_checkVel / mj_checkAcc: without sleeping the
    `mjENABLED(mjENBL_SLEEP) && …` conjunction short-circuits, so the sleep arrays are not read -/
def sleepFilterDecl : String := "int sleep_filter = mjENABLED(mjENBL_SLEEP) && d->nv_awake < m->nv;"
def sleepFilterNv : String := "int nv = sleep_filter ? d->nv_awake : m->nv;"
def sleepFilterIdx : String := "int i = sleep_filter ? d->dof_awake_ind[j] : j;"

/-- footprint of a generated atom: an override by exact source text where the generic rule is too weak,
    otherwise reads / writes are the groups of the extracted fields, a group is determined when it is a
    scalar group assigned by a plain `=`, and an atom that writes a single group `g` without determining
    it may depend on the old `g` anyway (so `g` is dropped from its reads) -/
def atomFp (sleeping : Bool) (text : String) (r w k : List String) : Footprint Grp :=
  if text = "d->energy[0] = d->energy[1] = 0" then { R := [], W := [ePos, eVel], K := [] }
  else if text = "d->solver_fwdinv[0] = d->solver_fwdinv[1] = 0" then { R := [], W := [fwdinv], K := [fwdinv] }
  else if text = "d->flg_rnepost = 0" then { R := [], W := [rnepost], K := [rnepost] }
  else if !sleeping && text = sleepFilterDecl then { R := [], W := [locals], K := [] }
  else if !sleeping && (text = sleepFilterNv || text = sleepFilterIdx) then { R := [locals], W := [locals], K := [] }
  else
    let R := (r.flatMap grp).eraseDups
    let W := (w.flatMap grp).eraseDups
    let K := (k.flatMap grp).filter (fun g => decide (g ∈ scalarGroups))
    match W with
    | [g] => { R := if g ∈ K then R else R.filter (fun x => decide (x ≠ g)), W := W, K := K }
    | _ => { R := R, W := W, K := K }

/-- the footprint context of the analysis -/
def ctx (sleeping : Bool) : FpCtx Grp :=
  { stage := if sleeping then stageSleep else stageNoSleep
    atom := atomFp sleeping
    grp := grp }

/-- the context of the second layer (no sleeping): as `ctx false`, with the island dispatch resolved by the solver -/
def ctxS (solver : Option String) : FpCtx Grp :=
  { stage := fun key => if key = dispatchKey then some (dispatchFp solver) else stageNoSleep key
    atom := atomFp false
    grp := grp }

end MjProof.Footprint
