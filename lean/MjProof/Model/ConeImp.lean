import MjProof.Model.Constraint
/-
Executable model for C10 (contacts): the IMPEDANCE-RELATION CHECKER that lean/Drivers/C10.lean runs on the real
`efc_R`, `efc_D`, `contact.mu`, `contact.friction` of every frictional contact of a solve.  Core Lean only.

The primal solvers (Newton, CG: `mj_constraintUpdate_impl`, `PrimalEval`) evaluate the cone cost of an elliptic
contact from `efc_D[i]` (normal row), `contact.mu` and `contact.friction` — and from `efc_D[i+j]` in the bottom
zone; the dual solver (PGS) works from `efc_AR = J M⁻¹ Jᵀ + diag(efc_R)`.  They describe the same documented problem
only when the regularisers follow the documented impedance law of `mj_makeImpedance`
    R[i+1] = R[i]/impratio,   R[i+j+1] = R[i+1]·friction[0]²/friction[j]²,   mu = friction[0]·sqrt(R[i+1]/R[i]),   D = 1/R
(`Constraint.impEll`, the model that C12 ties bit for bit to the compiled function).  Its consequence
    D[i+j]·mu² = D[i]·friction[j−1]²                                                       (`hrel` of Props/C12)
is the hypothesis under which the cone cost is C¹, convex and has force = −gradient, i.e. the hypothesis `GradIneq`
of the certificate theorems of Props/C10 for cone blocks (`cone_block_gradIneq_documented_impedance`).
`deviation` measures how far the engine's numbers are from the documented law and from `hrel`.
-/
namespace MjProof.ConeImp
open MjProof MjProof.Constraint

variable {α : Type} [MjNum α]

/-- one frictional contact as the engine leaves it: rows `i .. i+nrows-1` of `efc_R`, `efc_D` -/
structure Con (α : Type) where
  elliptic : Bool
  dim : Nat
  mu : α
  R : List α
  D : List α
  friction : List α

structure Dev (α : Type) where
  /-- max relative deviation of `efc_R` from the documented law -/
  r : α
  /-- relative deviation of `contact.mu` -/
  mu : α
  /-- max `|D·R − 1|` -/
  dr : α
  /-- max relative defect of `D[i+j]·mu² = D[i]·friction[j−1]²` (elliptic) -/
  rel : α
  /-- number of values that are not bit-identical to the documented law -/
  nbits : Nat

def relDev (a b : α) : α := MjNum.abs (a - b) / MjNum.abs b
def maxL (l : List α) : α := l.foldl (fun s x => mjuMax s x) zero

/-- the documented regularisers and cone friction of the contact, from `R[i]` (elliptic) and the friction coefficients;
    a pyramidal contact has lost `R[i]` (all rows are overwritten by `Rpy`), there only `mu` and the equality of the
    rows are documented -/
def documented (impratio : α) (c : Con α) : Option (ImpCon α) :=
  match c.R, c.friction with
  | R0 :: _, f0 :: ftail =>
    if c.dim < 3 ∨ 6 < c.dim ∨ ftail.length < c.dim - 2 then none
    else if c.elliptic then some (impEll R0 impratio f0 (ftail.take (c.dim - 2)))
    else some ⟨List.replicate (2 * (c.dim - 1)) R0, impMu R0 impratio f0⟩
  | _, _ => none

/-- `none`: the data do not have the shape of a frictional contact -/
def deviation (impratio : α) (c : Con α) : Option (Dev α) :=
  match documented impratio c, c.D with
  | some o, D0 :: Dt =>
    if o.R.length ≠ c.R.length ∨ c.D.length ≠ c.R.length then none else
    let r := maxL (List.zipWith relDev c.R o.R)
    -- pyramidal: `(R0/ir)/R0` is evaluated with the common row value in place of the lost `R[i]`; same value up to rounding
    let mu := relDev c.mu o.mu
    let dr := maxL (List.zipWith (fun d rr => MjNum.abs (d * rr - one)) c.D c.R)
    let rel := if c.elliptic then
        maxL (List.zipWith (fun d w => relDev (d * (c.mu * c.mu)) (D0 * (w * w))) Dt c.friction)
      else zero
    let nb := ((List.zipWith (fun a b => if MjNum.beq a b then 0 else 1) c.R o.R).foldl (· + ·) 0) +
      (if MjNum.beq c.mu o.mu then 0 else 1) +
      ((List.zipWith (fun d rr => if MjNum.beq d (one / rr) then 0 else 1) c.D c.R).foldl (· + ·) 0)
    some ⟨r, mu, dr, rel, nb⟩
  | _, _ => none

end MjProof.ConeImp
